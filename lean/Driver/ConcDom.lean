/-
  Driver domain `conc` (property C10): transcripts of h_conc — a shared-access phase of a real
  `World` run by real threads serialised along a given schedule — are replayed on the Lean
  small-step model (SpecsModel/Conc/Model.lean) with the same schedule.

  DIFF  first disagreement between model and implementation (initial history, per-call results in
        completion order, CAS-failure / free-list-pop counts, post-maintain join, lazy log).
  MON C10  verdict of the property monitor on the implementation's transcript ALONE (the initial
        history is summarised by the abstract `EntSpec`, never by the allocator model):
        duplicate handle, handle not alive for its creator, delete of an alive handle failed (or of
        a dead one succeeded), is_alive wrong, final alive set ≠ initial + created − requested,
        lazy log not an order-preserving interleaving with every tag exactly once.
-/
import SpecsModel.Model.EWorld
import SpecsModel.Conc.Model
import Std.Data.HashSet
namespace SpecsModel.Driver.ConcD
open SpecsModel SpecsModel.Conc

/-! ### Line-protocol helpers (own copies: this domain depends on Model/Entity-level files only) -/

def splitArrow (line : String) : String × String :=
  match line.splitOn " => " with
  | [a] => (a, "")
  | a :: rest => (a, " => ".intercalate rest)
  | [] => ("", "")

def toks (s : String) : List String :=
  (s.trimAscii.toString.splitOn " ").filter (· ≠ "")

def parseInt? (s : String) : Option Int :=
  if s.startsWith "-" then (s.drop 1).toString.toNat?.map (fun n => - (n : Int))
  else s.toNat?.map (fun n => (n : Int))

/-- `i:g` -/
def parseEntity? (s : String) : Option Entity :=
  match s.splitOn ":" with
  | [i, g] => do
    let i ← i.toNat?
    let g ← parseInt? g
    pure ⟨i, g⟩
  | _ => none

def parseSlot? (s : String) : Option Nat :=
  if s.startsWith "@" then (s.drop 1).toString.toNat? else none

def showEntity (e : Entity) : String := s!"{e.id}:{e.gen}"

def mapM? {α β} (f : α → Option β) : List α → Option (List β)
  | [] => some []
  | x :: xs => do
    let y ← f x
    let ys ← mapM? f xs
    pure (y :: ys)

/-- Entity ops of the initial history (DESIGN Appendix B, entity part). -/
def parseEOp (ts : List String) : Option EOp :=
  match ts with
  | ["create", "now"] => some (.createNow false)
  | ["create", "now_dropped"] => some (.createNow true)
  | ["create", "atomic"] => some (.createAtomic false)
  | ["create", "atomic_dropped"] => some (.createAtomic true)
  | ["create_iter", "now", n] => n.toNat?.map .createIterNow
  | ["create_iter", "atomic", n] => n.toNat?.map .createIterAtomic
  | ["del_now", h] => (parseSlot? h).map .delNow
  | "del_batch" :: hs => (mapM? parseSlot? hs).map .delBatch
  | ["del_atomic", h] => (parseSlot? h).map .delAtomic
  | ["del_all"] => some .delAll
  | ["maintain"] => some .merge
  | ["alive", h] => (parseSlot? h).map .alive
  | ["walive", h] => (parseSlot? h).map .walive
  | ["ejoin"] => some .ejoin
  | _ => none

def parseERes (op : EOp) (ts : List String) : Option ERes :=
  match op, ts with
  | _, ["panic"] => some (.panic "impl")
  | _, ["skip"] => some .skip
  | .createNow _, ["e", e] | .createAtomic _, ["e", e] => (parseEntity? e).map .ent
  | .createIterNow _, "es" :: es | .createIterAtomic _, "es" :: es | .ejoin, "es" :: es =>
    (mapM? parseEntity? es).map .ents
  | .delNow _, ["ok"] | .delAtomic _, ["ok"] | .delBatch _, ["ok"] => some (.kill .ok)
  | .delNow _, ["err"] | .delAtomic _, ["err"] => some (.kill (.err 0))
  | .delBatch _, ["err", p] => p.toNat?.map (fun p => .kill (.err p))
  | .delAll, ["ok"] | .merge, ["ok"] => some .unit
  | .alive _, ["t"] | .walive _, ["t"] => some (.bool true)
  | .alive _, ["f"] | .walive _, ["f"] => some (.bool false)
  | _, _ => none

def showERes : ERes → String
  | .ent e => "e " ++ showEntity e
  | .ents es => " ".intercalate ("es" :: es.map showEntity)
  | .kill .ok => "ok"
  | .kill (.err p) => s!"err {p}"
  | .bool true => "t"
  | .bool false => "f"
  | .unit => "ok"
  | .skip => "skip"
  | .panic why => "panic(" ++ why ++ ")"

/-- Equality of results as far as the protocol shows them (del_now/del_atomic do not report a
    position). -/
def eresAgree (op : EOp) (impl model : ERes) : Bool :=
  match op, impl, model with
  | .delNow _, .kill (.err _), .kill (.err _) => true
  | .delAtomic _, .kill (.err _), .kill (.err _) => true
  | _, a, b => a == b

structure ConcCase where
  id : String := ""
  startLine : Nat := 0
  initLines : Array (String × String) := #[]        -- (op text, result text)
  progs : Array (List String) := #[]                -- call tokens as written
  sched : List Nat := []
  hasSched : Bool := false
  evs : Array String := #[]                         -- `ev ...` lines, normalised
  info : Option (Nat × Nat) := none                 -- cas_fail, pops
  maintain : Option String := none
  ejoin : Option (List String) := none
  lazylog : Option (List String) := none
  stress : Option String := none
  followups : Option String := none
  aborted : Bool := false
  bad : List String := []
  hash : UInt64 := 7

structure ConcStats where
  cases : Nat := 0
  lines : Nat := 0
  diffs : Nat := 0
  mons : Nat := 0
  distinct : Std.HashSet UInt64 := {}
  distinctNontrivial : Nat := 0
  ticks : Nat := 0
  events : Nat := 0
  casFailures : Nat := 0
  pops : Nat := 0
  switches : Nat := 0
  casesWithCasFailure : Nat := 0
  stressOk : Nat := 0
  stressCalls : Nat := 0
  hangs : Nat := 0

def norm (s : String) : String := " ".intercalate (toks s)

def parseCall? (s : String) : Option (List Call) :=
  match s.splitOn ":" with
  | ["create"] => some [.create]
  | ["create_iter", n] => n.toNat?.map createIter
  | ["del", k] => (parseSlot? k).map (fun k => [.delete k])
  | ["alive", k] => (parseSlot? k).map (fun k => [.isAlive k])
  | ["join"] => some [.join]
  | ["lazy", t] => t.toNat?.map (fun t => [.lazy t])
  | _ => none

def parseProg? (ts : List String) : Option (List Call) :=
  (mapM? parseCall? ts).map List.flatten

def showEnts (es : List Entity) : String := " ".intercalate ("es" :: es.map showEntity)

/-- The transcript line the harness prints for a completed call, from the model's event;
    `aliveNow` is `is_alive` of a freshly created handle asked right after the return. -/
def showEv (ev : Ev) (aliveNow : Bool) : String :=
  let arg := match ev.arg with | some e => " " ++ showEntity e | none => ""
  match ev.call, ev.res with
  | .create, .ent e => s!"ev {ev.tid} create => e {showEntity e} {if aliveNow then "t" else "f"}"
  | .delete k, .ok => s!"ev {ev.tid} del @{k}{arg} => ok"
  | .delete k, .err => s!"ev {ev.tid} del @{k}{arg} => err"
  | .delete k, .skip => s!"ev {ev.tid} del @{k} => skip"
  | .isAlive k, .bool b => s!"ev {ev.tid} alive @{k}{arg} => {if b then "t" else "f"}"
  | .isAlive k, .skip => s!"ev {ev.tid} alive @{k} => skip"
  | .join, .ents es => s!"ev {ev.tid} join => {showEnts es}"
  | .lazy tag, .unit => s!"ev {ev.tid} lazy {tag} => ok"
  | _, .panic w => s!"ev {ev.tid} panic({w})"
  | _, _ => s!"ev {ev.tid} malformed"

structure RunAcc where
  c : Conf
  evs : Array String := #[]
  casFail : Nat := 0
  pops : Nat := 0
  switches : Nat := 0
  ticks : Nat := 0
  last : Option Nat := none     -- thread of the previous effective tick

def pcIdle (c : Conf) (t : Nat) : Bool :=
  match c.threads[t]? with
  | some th => th.pc == .idle
  | none => true

/-- One scheduler tick on the model, with bookkeeping. -/
def tick (a : RunAcc) (t : Nat) : RunAcc :=
  match a.c.threads[t]? with
  | none => a
  | some th =>
    if Conf.threadDone th then a
    else
      let c' := a.c.step t
      let pc' := match c'.threads[t]? with | some th' => th'.pc | none => .idle
      let fail := match th.pc, pc' with
        | .dec _, .popped _ => false
        | .dec p, _ => p != 0
        | .inc _, .inc _ => true
        | _, _ => false
      let pop := match pc' with | .popped _ => true | _ => false
      let sw := match a.last with
        | some l => l != t && !(pcIdle a.c l)
        | none => false
      let evs :=
        if c'.trace.length > a.c.trace.length then
          match c'.trace.getLast? with
          | some ev =>
            let aliveNow := match ev.res with | .ent e => c'.alloc.isAlive e | _ => false
            a.evs.push (showEv ev aliveNow)
          | none => a.evs
        else a.evs
      { c := c', evs := evs, casFail := a.casFail + (if fail then 1 else 0),
        pops := a.pops + (if pop then 1 else 0), switches := a.switches + (if sw then 1 else 0),
        ticks := a.ticks + 1, last := some t }

def drainAcc (a : RunAcc) : Nat → RunAcc
  | 0 => a
  | fuel + 1 =>
    match a.c.threads.findIdx? (fun th => !Conf.threadDone th) with
    | none => a
    | some t => drainAcc (tick a t) fuel

/-! ### Monitor on the implementation's transcript alone -/

structure MonSt where
  live0 : List Entity
  pending0 : List Entity
  seen0 : List Entity
  log : Array Entity
  created : List Entity := []
  requested : List Entity := []
  pushed : Array (List Nat)        -- per thread, tags in the order their `lazy` calls completed

def entIn (l : List Entity) (e : Entity) : Bool := l.contains e

def monEv (m : MonSt) (ts : List String) : Except String MonSt :=
  let aliveExp (e : Entity) : Bool := entIn m.live0 e || entIn m.created e
  match ts with
  | ["ev", _, "create", "=>", "e", e, fl] =>
    match parseEntity? e with
    | none => .error "malformed create result"
    | some e =>
      if e.gen < 1 then .error s!"created handle {showEntity e} has a non-positive generation"
      else if (m.created.map (·.id)).contains e.id then
        .error s!"duplicate handle: index of {showEntity e} was already returned in this phase"
      else if (m.live0.map (·.id)).contains e.id then
        .error s!"duplicate handle: index of {showEntity e} was occupied at phase start"
      else if entIn m.seen0 e then .error s!"duplicate handle: {showEntity e} was returned before the phase"
      else if fl != "t" then .error s!"handle {showEntity e} not alive for its creator"
      else .ok { m with created := m.created ++ [e], log := m.log.push e }
  | ["ev", _, "del", k, e, "=>", r] =>
    -- (the slot was resolved when the call started; the monitor only knows the log at completion)
    match parseSlot? k, parseEntity? e with
    | some _, some e =>
      if !m.log.contains e then .error s!"handle {showEntity e} was never returned (slot resolution broke)"
      else if r == "ok" then
        if aliveExp e then .ok { m with requested := if entIn m.requested e then m.requested else m.requested ++ [e] }
        else .error s!"delete through the dead handle {showEntity e} succeeded"
      else if r == "err" then
        if aliveExp e then .error s!"delete of the alive handle {showEntity e} failed" else .ok m
      else .error s!"delete returned {r}"
    | _, _ => .error "malformed delete event"
  | ["ev", _, "alive", k, e, "=>", r] =>
    match parseSlot? k, parseEntity? e with
    | some _, some e =>
      if !m.log.contains e then .error s!"handle {showEntity e} was never returned (slot resolution broke)"
      else if (r == "t") == aliveExp e && (r == "t" || r == "f") then .ok m
      else .error s!"is_alive({showEntity e}) = {r}"
    | _, _ => .error "malformed is_alive event"
  | ["ev", _, "del", _, "=>", "skip"] | ["ev", _, "alive", _, "=>", "skip"] =>
    if m.log.size = 0 then .ok m else .error "slot skipped although the log is not empty"
  | "ev" :: _ :: "join" :: "=>" :: "es" :: es =>
    match mapM? parseEntity? es with
    | none => .error "malformed join listing"
    | some es =>
      if !EntSpec.ascById es then .error "join listing not strictly ascending by index"
      else if !(m.live0.all (fun e => es.contains e)) then .error "join misses an entity alive at phase start"
      else if !(m.created.all (fun e => es.contains e)) then .error "join misses a handle already returned"
      else .ok m
  | ["ev", t, "lazy", tag, "=>", "ok"] =>
    match t.toNat?, tag.toNat? with
    | some t, some tag =>
      if t < m.pushed.size then .ok { m with pushed := m.pushed.modify t (· ++ [tag]) }
      else .error "lazy event of an unknown thread"
    | _, _ => .error "malformed lazy event"
  | _ => .error s!"panic or malformed event: {" ".intercalate ts}"

def nodupNat (l : List Nat) : Bool :=
  match l with
  | [] => true
  | x :: xs => !xs.contains x && nodupNat xs

/-- Lazy log = old queue, then an interleaving of the threads' pushes keeping each thread's order,
    every tag exactly once. -/
def lazyOk (q0 : List Nat) (pushed : Array (List Nat)) (progTags : Array (List Nat)) (log : List Nat) :
    Except String Unit :=
  let all := pushed.toList.flatten
  if pushed.toList != progTags.toList then .error "a lazy call of a program did not complete"
  else if log.take q0.length != q0 then .error "actions queued before the phase did not run first, in order"
  else
    let rest := log.drop q0.length
    if rest.length != all.length then
      .error s!"lazy log has {rest.length} phase entries, {all.length} actions were queued"
    else if nodupNat (q0 ++ all) then
      if (List.range pushed.size).all (fun t => rest.filter (fun x => (pushed[t]!).contains x) == pushed[t]!) then .ok ()
      else .error "lazy actions of a thread lost, duplicated or reordered"
    else
      -- tags not unique in this case: compare as multisets
      if rest.mergeSort (· ≤ ·) == all.mergeSort (· ≤ ·) then .ok () else .error "lazy log is not a permutation of the queued actions"

def finalOk (m : MonSt) (es : List Entity) : Except String Unit :=
  let exp := (m.live0 ++ m.created).filter (fun e => !(entIn m.pending0 e || entIn m.requested e))
  if !EntSpec.ascById es then .error "final join not strictly ascending by index"
  else if !(exp.all (fun e => es.contains e)) then
    .error "final alive set misses an entity of initial + created - requested"
  else if !(es.all (fun e => exp.contains e)) then
    .error "final alive set has an entity outside initial + created - requested"
  else .ok ()

/-! ### One case -/

structure CaseOut where
  out : List String := []
  diff : Bool := false
  mon : Bool := false
  nontrivial : Bool := false
  acc : Option RunAcc := none

def lazyTagsOf (p : List Call) : List Nat := lazyTags p

def processCase (cs : ConcCase) : CaseOut := Id.run do
  let mut out : List String := []
  for b in cs.bad do out := out ++ [s!"BAD case={cs.id} {b}"]
  -- stress summary lines carry their own verdict
  if let some r := cs.stress then
    -- the recycling verdict (C17) of the run is a separate token `c17:<what>` behind the C10 verdict
    let c17 := (toks r).filter (·.startsWith "c17:")
    let out17 := c17.map (fun w => s!"MON C17 case={cs.id} line={cs.startLine} stress run on real threads: {w}")
    if r.startsWith "ok" then return { out := out ++ out17, mon := !c17.isEmpty }
    else return { out := out ++ [s!"MON C10 case={cs.id} line={cs.startLine} stress run on real threads: {r}"] ++ out17, mon := true }
  if cs.aborted then
    return { out := out ++ [s!"MON C10 case={cs.id} line={cs.startLine} a call did not terminate within the tick limit"], mon := true }
  -- programs
  let mut progs : Array (List Call) := #[]
  for p in cs.progs do
    match parseProg? p with
    | some p => progs := progs.push p
    | none => return { out := out ++ [s!"BAD case={cs.id} unparsable program: {" ".intercalate p}"] }
  -- 1. initial history: model and abstract spec side by side
  let mut w : EWorld := {}
  let mut q0 : List Nat := []
  let mut spec : EntSpec := {}
  let mut slog : Array Entity := #[]
  let mut specOk := true
  let mut diffLine : Option String := none
  let mut n := cs.startLine
  for (l, r) in cs.initLines do
    n := n + 1
    match toks l with
    | ["lazy", tag] =>
      match tag.toNat? with
      | some tag => q0 := q0 ++ [tag]
      | none => out := out ++ [s!"BAD case={cs.id} line={n} bad lazy tag"]
    | lt =>
      match parseEOp lt with
      | none => out := out ++ [s!"BAD case={cs.id} line={n} unparsable op: {l}"]
      | some op =>
        match parseERes op (toks r) with
        | none => out := out ++ [s!"BAD case={cs.id} line={n} unparsable result: {r}"]
        | some ires =>
          let (w', mres) := w.step op
          if diffLine.isNone && !eresAgree op ires mres then
            diffLine := some s!"DIFF case={cs.id} line={n} op=[init {l}] impl=[{r}] model=[{showERes mres}]"
          w := w'
          if specOk then
            if !resShapeOk op ires then specOk := false
            else
              let (evs, log') := entEvents slog op ires
              match spec.run evs with
              | .ok s' => spec := s'; slog := log'
              | .error _ => specOk := false
  -- 2. the phase on the model
  let c0 := Conf.start w.alloc q0 w.log.toList progs.toList
  let acc0 : RunAcc := { c := c0 }
  let acc := cs.sched.foldl tick acc0
  let fuel := 64 + 16 * (progs.foldl (fun s p => s + p.length) 0)
  let acc := drainAcc acc fuel
  n := cs.startLine + cs.initLines.size + 2 + cs.progs.size
  if diffLine.isNone then
    -- per-call results in completion order
    let m := acc.evs.size
    let k := cs.evs.size
    for i in [0:(max m k)] do
      if diffLine.isNone then
        let a := cs.evs[i]?.getD "(no further event)"
        let b := acc.evs[i]?.getD "(no further event)"
        if a != b then
          diffLine := some s!"DIFF case={cs.id} line={n + 1 + i} op=[event {i}] impl=[{a}] model=[{b}]"
  n := n + cs.evs.size
  if diffLine.isNone then
    if let some (cf, pp) := cs.info then
      if cf != acc.casFail || pp != acc.pops then
        diffLine := some s!"DIFF case={cs.id} line={n + 1} op=[info] impl=[cas_fail={cf} pops={pp}] model=[cas_fail={acc.casFail} pops={acc.pops}]"
  if diffLine.isNone then
    match acc.c.maintain with
    | .ok (a', _, ll) =>
      let mj := (a'.joinEntities.map showEntity)
      let ml := ll.map toString
      if cs.maintain != some "ok" then
        diffLine := some s!"DIFF case={cs.id} line={n + 2} op=[maintain] impl=[{cs.maintain.getD "missing"}] model=[ok]"
      else if cs.ejoin != some mj then
        diffLine := some s!"DIFF case={cs.id} line={n + 3} op=[ejoin] impl=[{" ".intercalate (cs.ejoin.getD ["missing"])}] model=[{" ".intercalate mj}]"
      else if cs.lazylog != some ml then
        diffLine := some s!"DIFF case={cs.id} line={n + 4} op=[lazylog] impl=[{" ".intercalate (cs.lazylog.getD ["missing"])}] model=[{" ".intercalate ml}]"
    | _ =>
      diffLine := some s!"DIFF case={cs.id} line={n + 2} op=[maintain] impl=[{cs.maintain.getD "missing"}] model=[panic]"
  -- 3. the property monitor, on the implementation's transcript only
  let mut monLine : Option String := none
  let mut mon17 : Option String := none
  if specOk then
    let mut m : MonSt := { live0 := spec.live, pending0 := spec.pending, seen0 := spec.seen, log := slog,
                           pushed := Array.replicate progs.size [] }
    let mut i := 0
    let evBase := cs.startLine + cs.initLines.size + 2 + cs.progs.size
    for e in cs.evs do
      i := i + 1
      if monLine.isNone then
        match monEv m (toks e) with
        | .ok m' => m := m'
        | .error why => monLine := some s!"MON C10 case={cs.id} line={evBase + i} {why} impl=[{e}]"
    -- C17 (recycling) on the implementation's transcript alone. Nothing dies inside a shared-access phase
    -- (deletions are deferred to `maintain`), so whatever occupied an index when a creation looked for one
    -- still occupies it when the phase ends: a never-used index may have been taken only if every lower
    -- index is occupied, at the end of the phase, by an entity alive at its start or created in it.
    if monLine.isNone then
      let used0 := m.seen0.foldl (fun a e => max a (e.id + 1)) 0
      let occ := (m.live0 ++ m.created).map (·.id)
      match m.created.find? (fun e => e.id ≥ used0 && !(List.range e.id).all (occ.contains ·)) with
      | some e =>
        let free := (List.range e.id).filter (!occ.contains ·)
        mon17 := some s!"MON C17 case={cs.id} line={evBase + i} never-used index taken by {showEntity e} while lower indices {free} were free (occupied by no entity alive at the start of the phase or created in it)"
      | none => pure ()
    if monLine.isNone then
      -- every call of every program must have completed
      let nCalls := progs.foldl (fun s p => s + p.length) 0
      if cs.evs.size != nCalls then
        monLine := some s!"MON C10 case={cs.id} line={evBase + i} {cs.evs.size} calls completed, the programs make {nCalls}: a request was lost"
      else if cs.maintain != some "ok" then
        monLine := some s!"MON C10 case={cs.id} line={evBase + i + 2} maintain after the phase: {cs.maintain.getD "missing"}"
      else
        match cs.ejoin with
        | none => monLine := some s!"MON C10 case={cs.id} line={evBase + i + 3} final join missing"
        | some es =>
          match mapM? parseEntity? es with
          | none => monLine := some s!"MON C10 case={cs.id} line={evBase + i + 3} malformed final join"
          | some es =>
            match finalOk m es with
            | .error why => monLine := some s!"MON C10 case={cs.id} line={evBase + i + 3} {why} impl=[{showEnts es}]"
            | .ok () =>
              match cs.lazylog with
              | none => monLine := some s!"MON C10 case={cs.id} line={evBase + i + 4} lazy log missing"
              | some ll =>
                match mapM? (fun (s : String) => s.toNat?) ll with
                | none => monLine := some s!"MON C10 case={cs.id} line={evBase + i + 4} malformed lazy log"
                | some ll =>
                  match lazyOk q0 m.pushed (progs.map lazyTagsOf) ll with
                  | .error why => monLine := some s!"MON C10 case={cs.id} line={evBase + i + 4} {why} impl=[{" ".intercalate (ll.map toString)}]"
                  | .ok () => pure ()
  -- actions with an odd tag are queued with `exec_mut` and queue a follow-up (plain `exec`) when they run: every
  -- follow-up must have run exactly once when `maintain` returns (the harness compares and prints its verdict)
  if monLine.isNone then
    match cs.followups with
    | some f =>
      if f != "ok" then
        monLine := some s!"MON C10 case={cs.id} line={cs.startLine} actions queued by running exec_mut actions did not all run exactly once in the same maintain: {f}"
    | none => pure ()
  if let some d := diffLine then out := out ++ [d]
  if let some m := monLine then out := out ++ [m]
  if let some m := mon17 then out := out ++ [m]
  return { out := out, diff := diffLine.isSome, mon := monLine.isSome || mon17.isSome,
           nontrivial := acc.switches > 0 && acc.pops > 0, acc := some acc }

/-! ### Reading the transcript -/

def addLine (cs : ConcCase) (line : String) : ConcCase :=
  let cs := { cs with hash := mixHash cs.hash (hash (norm ((splitArrow line).1))) }
  let (l, r) := splitArrow line
  match toks l with
  | "init" :: rest => { cs with initLines := cs.initLines.push (" ".intercalate rest, r) }
  | ["threads", n] =>
    match n.toNat? with
    | some n => { cs with progs := if cs.progs.size < n then cs.progs ++ Array.replicate (n - cs.progs.size) [] else cs.progs }
    | none => { cs with bad := cs.bad ++ ["bad threads line"] }
  | "prog" :: t :: calls =>
    match t.toNat? with
    | some t =>
      let ps := if cs.progs.size ≤ t then cs.progs ++ Array.replicate (t + 1 - cs.progs.size) [] else cs.progs
      { cs with progs := ps.setIfInBounds t calls }
    | none => { cs with bad := cs.bad ++ ["bad prog line"] }
  | "sched" :: ts =>
    match mapM? (fun (s : String) => s.toNat?) ts with
    | some s => { cs with sched := s, hasSched := true }
    | none => { cs with bad := cs.bad ++ ["bad sched line"] }
  | "ev" :: _ => { cs with evs := cs.evs.push (norm line), hash := cs.hash }
  | "info" :: kvs =>
    let get (k : String) : Option Nat :=
      kvs.findSome? (fun kv => match kv.splitOn "=" with | [a, b] => if a == k then b.toNat? else none | _ => none)
    match get "cas_fail", get "pops" with
    | some a, some b => { cs with info := some (a, b) }
    | _, _ => cs
  | ["maintain"] => { cs with maintain := some (norm r) }
  | ["ejoin"] => { cs with ejoin := some ((toks r).drop 1) }
  | ["lazylog"] => { cs with lazylog := some ((toks r).drop 1) }
  | "stress" :: _ => { cs with stress := some (norm r) }
  | ["followups"] => { cs with followups := some (norm r) }
  | "aborted" :: _ => { cs with aborted := true }
  | _ => { cs with bad := cs.bad ++ [s!"unknown line: {line}"] }

def closeConc (st : ConcStats) (cs : Option ConcCase) : ConcStats × List String :=
  match cs with
  | none => (st, [])
  | some cs =>
    let r := processCase cs
    let isNew := !st.distinct.contains cs.hash
    let st := { st with diffs := st.diffs + (if r.diff then 1 else 0), mons := st.mons + (if r.mon then 1 else 0),
                        distinct := st.distinct.insert cs.hash,
                        distinctNontrivial := st.distinctNontrivial + (if isNew && r.nontrivial then 1 else 0),
                        events := st.events + cs.evs.size }
    let st := match cs.stress with
      | some s => if s.startsWith "ok" then { st with stressOk := st.stressOk + 1 } else st
      | none => st
    let st := match r.acc with
      | some a => { st with ticks := st.ticks + a.ticks, casFailures := st.casFailures + a.casFail,
                            pops := st.pops + a.pops, switches := st.switches + a.switches,
                            casesWithCasFailure := st.casesWithCasFailure + (if a.casFail > 0 then 1 else 0) }
      | none => st
    (st, r.out)

partial def concLoop (h : IO.FS.Stream) (st : ConcStats) (cur : Option ConcCase) (lineNo : Nat) : IO ConcStats := do
  let line ← h.getLine
  if line.isEmpty then
    let (st, outs) := closeConc st cur
    for o in outs do IO.println o
    return st
  let line := line.trimAscii.toString
  if line.isEmpty || line.startsWith "#" then concLoop h st cur lineNo
  else if line.startsWith "HANG " then
    IO.println line
    concLoop h { st with hangs := st.hangs + 1 } none lineNo
  else
    match toks line with
    | ["case", id] =>
      let (st, outs) := closeConc st cur
      for o in outs do IO.println o
      concLoop h { st with cases := st.cases + 1 } (some { id := id, startLine := 0 }) 0
    | _ =>
      let cs := cur.getD { id := "anon" }
      concLoop h { st with lines := st.lines + 1 } (some (addLine cs line)) (lineNo + 1)

def runConc (h : IO.FS.Stream) : IO Unit := do
  let st ← concLoop h {} none 0
  IO.println s!"STATS cases={st.cases} lines={st.lines} diffs={st.diffs} mons={st.mons} distinct={st.distinct.size} distinct_nontrivial={st.distinctNontrivial} ticks={st.ticks} events={st.events} cas_failures={st.casFailures} cases_with_cas_failure={st.casesWithCasFailure} pops={st.pops} switches_in_call={st.switches} stress_ok={st.stressOk} hangs={st.hangs}"

end SpecsModel.Driver.ConcD

namespace SpecsModel.Driver
/-- Entry point of the `conc` domain (reads the rest of stdin after the `domain conc` line). -/
def runConc (h : IO.FS.Stream) : IO Unit := ConcD.runConc h
end SpecsModel.Driver
