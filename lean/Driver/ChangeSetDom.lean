/-
  Driver domain `changeset` (property C16): transcripts of `h_changeset` (grammar: see the header of
  harness/src/bin/h_changeset.rs).

  DIFF: the same ops are executed on SpecsModel.ChangeSet.Model (handles resolved through the log of
  `create` results; the other join members are represented by their masks, taken from the dumps of
  the line) and compared with the implementation's line: items (index, amount) in order, and the
  destroyed payloads IN ORDER (the model predicts the order in which `data` is dropped).

  MON C16: from the property statement alone, on the implementation's transcript: the pair history
  gives for every index the expected accumulation (amounts in arrival order, concatenated); a
  mutable join appends its marker to every index it visited; every join line must list, in
  ascending index order, exactly the indices that are in the set and in every dumped storage, each
  with its expected amount and with the components the dumps show for that index; a by-value join
  lists the first `n` of them; the payloads destroyed by an op must be exactly (as a multiset) the
  expected amounts that the op discards and does not yield: all of them for `cs_new`/`cs_from`/
  `cs_clear`/`end`, the non-yielded ones for `cs_consume`, none otherwise.
-/
import Driver.Proto
import SpecsModel.ChangeSet.Model
import Std.Data.HashSet
import Std.Data.HashMap
namespace SpecsModel.Driver.ChangeSetDom
open SpecsModel SpecsModel.Driver

/-! ### Tokens -/

def parseAmt? (s : String) : Option Amount :=
  if s == "-" then some [] else mapM? parseInt? (s.splitOn ",")

def showAmt (a : Amount) : String :=
  if a.isEmpty then "-" else ",".intercalate (a.map toString)

/-- `@k:amt` -/
def parsePair? (s : String) : Option (Nat × Amount) :=
  match s.splitOn ":" with
  | [h, a] => do
    let h ← parseSlot? h
    let a ← parseAmt? a
    pure (h, a)
  | _ => none

def splitOnTok (sep : String) (ts : List String) : List (List String) :=
  let rec go (ts : List String) (cur : List String) (acc : List (List String)) : List (List String) :=
    match ts with
    | [] => (cur.reverse :: acc).reverse
    | t :: r => if t == sep then go r [] (cur.reverse :: acc) else go r (t :: cur) acc
  go ts [] []

inductive COp where
  | create
  | skip (k : Nat)
  | del (h : Nat)
  | ins (kind : String) (h : Nat) (v : Int)
  | rem (kind : String) (h : Nat)
  | csNew
  | csFrom (ps : List (Nat × Amount))
  | csAdd (h : Nat) (a : Amount)
  | csExtend (ps : List (Nat × Amount))
  | csClear
  | csClearFault (n : Nat)                     -- `clear()` while the n-th destructor run panics (caught)
  | joinShared (kinds : List String)
  | joinMut (marker : Int) (kinds : List String)
  | consume (n : Option Nat) (kinds : List String)
  | «end»
  deriving Repr

def kindsOk (ks : List String) : Bool := ks.all (fun k => k == "d" || k == "v" || k == "e")

def parseCOp? (ts : List String) : Option COp :=
  let ts := ts.filter (· ≠ "lend")     -- the lending and the plain join are one function in the model
  match ts with
  | ["create"] => some .create
  | ["skip", k] => k.toNat?.map .skip
  | ["del", h] => (parseSlot? h).map .del
  | ["ins", k, h, v] => do pure (.ins k (← parseSlot? h) (← parseInt? v))
  | ["rem", k, h] => do pure (.rem k (← parseSlot? h))
  | ["cs_new"] => some .csNew
  | "cs_from" :: ps => (mapM? parsePair? ps).map .csFrom
  | ["cs_add", h, a] => do pure (.csAdd (← parseSlot? h) (← parseAmt? a))
  | "cs_extend" :: ps => (mapM? parsePair? ps).map .csExtend
  | ["cs_clear"] => some .csClear
  | ["cs_clear_fault", n] => n.toNat?.map .csClearFault
  | "cs_join_shared" :: ks => if kindsOk ks then some (.joinShared ks) else none
  | "cs_join_mut" :: m :: ks => do
    let m ← parseInt? m
    if kindsOk ks then pure (.joinMut m ks) else none
  | "cs_consume" :: n :: ks =>
    if !kindsOk ks then none
    else if n == "all" then some (.consume none ks)
    else n.toNat?.map (fun n => .consume (some n) ks)
  | ["end"] => some .end
  | _ => none

/-- A dumped storage: kind and, per index, the printed component. -/
structure Dump where
  kind : String
  keys : List Nat                      -- in transcript order
  tab : Std.HashMap Nat String

def parseDumpTok? (kind : String) (t : String) : Option (Nat × String) :=
  if kind == "e" then
    (parseEntity? t).map (fun e => (e.id, t))
  else
    match t.splitOn "=" with
    | [i, v] => i.toNat?.map (·, v)
    | _ => none

def parseDump? : List String → Option Dump
  | k :: ts => (mapM? (parseDumpTok? k) ts).map (fun l =>
      { kind := k, keys := l.map (·.1), tab := l.foldl (fun m p => m.insert p.1 p.2) {} })
  | [] => none

structure JoinRes where
  items : List (List String)      -- tokens of each item
  dumps : List Dump

/-- `<items> | <dump> | <dump>` -/
def parseJoinRes? (ts : List String) : Option JoinRes :=
  match splitOnTok "|" ts with
  | [] => none
  | its :: ds => do
    let dumps ← mapM? parseDump? ds
    let items := if its == ["none"] then [] else splitOnTok ";" its
    if items.any (·.length < 2) then none
    pure { items := items, dumps := dumps }

def Dump.get? (d : Dump) (i : Nat) : Option String := d.tab.get? i

/-- Index is present in every dumped storage. -/
def inAll (dumps : List Dump) (i : Nat) : Bool := dumps.all (fun d => (d.get? i).isSome)

def compsOf (dumps : List Dump) (i : Nat) : List String := dumps.map (fun d => (d.get? i).getD "?")

def itemToks (dumps : List Dump) (p : Nat × Amount) : List String :=
  [toString p.1, showAmt p.2] ++ compsOf dumps p.1

def showItems (its : List (List String)) : String :=
  if its.isEmpty then "none" else " ; ".intercalate (its.map (" ".intercalate ·))

def sortStrs (l : List String) : List String := l.mergeSort (· ≤ ·)

def maskOf (l : List Nat) : BSet := l.foldl BSet.add BSet.empty

/-- The combined mask of the other join members: every index `≤ maxIdx` when there is none (the
    harness puts a full mask first), else the indices present in every dumped storage. -/
def othersMask (maxIdx : Nat) (dumps : List Dump) : BSet :=
  match dumps with
  | [] => ⟨Array.replicate (maxIdx + 1) true⟩
  | d :: _ => maskOf ((d.keys.filter (inAll dumps)).mergeSort (· ≤ ·))

/-- Reason for the first item on which a join line departs from the expectation. -/
def firstMismatch (visit : List Nat) : List (List String) → List (List String) → String
  | [], [] => "items-mismatch"
  | g :: _, [] => s!"extra-item index={g.headD "?"}"
  | [], w :: _ => s!"missing-item index={w.headD "?"}"
  | g :: gs, w :: ws =>
    if g == w then firstMismatch visit gs ws
    else if g.headD "" != w.headD "" then
      (if visit.contains ((g.headD "").toNat?.getD 0) then
         s!"item-out-of-order-or-repeated index={g.headD "?"} expected-index={w.headD "?"}"
       else s!"item-for-index-not-in-join index={g.headD "?"}")
    else if g.getD 1 "" != w.getD 1 "" then
      s!"wrong-amount index={g.headD "?"} expected={w.getD 1 "?"} got={g.getD 1 "?"}"
    else s!"wrong-component index={g.headD "?"}"

/-! ### State -/

structure CState where
  caseId : String := ""
  lineNo : Nat := 0
  log : Array Entity := #[]
  -- model side
  model : ChangeSet := ChangeSet.new
  diverged : Bool := false
  -- monitor side (built from the implementation's transcript only)
  exp : Std.HashMap Nat Amount := {}
  firstGen : Std.HashMap Nat Int := {}
  monDead : Bool := false
  faulted : Bool := false                     -- a `clear()` of this case was interrupted by a destructor panic
  -- statistics
  cases : Nat := 0
  lines : Nat := 0
  diffs : Nat := 0
  mons : Nat := 0
  pairs : Nat := 0
  repeats : Nat := 0
  joinsShared : Nat := 0
  joinsMut : Nat := 0
  consumes : Nat := 0
  partialConsumes : Nat := 0
  lendJoins : Nat := 0
  items : Nat := 0
  clears : Nat := 0
  destroyed : Nat := 0
  yielded : Nat := 0
  genConflicts : Nat := 0
  stalePairings : Nat := 0
  reusedIdx : Nat := 0
  maxIndex : Nat := 0
  caseMaxIdx : Nat := 0
  caseRepeat : Bool := false
  caseJoin : Bool := false
  caseHash : UInt64 := 0
  distinct : Std.HashSet UInt64 := {}
  distinctNontrivial : Nat := 0

def CState.closeCase (st : CState) : CState :=
  if st.lineNo = 0 then st
  else if st.distinct.contains st.caseHash then st
  else { st with distinct := st.distinct.insert st.caseHash,
                 distinctNontrivial := st.distinctNontrivial + (if st.caseRepeat && st.caseJoin then 1 else 0) }

def CState.resolve? (st : CState) (h : Nat) : Option Entity :=
  if st.log.size = 0 then none else st.log[h % st.log.size]?

def CState.resolvePairs (st : CState) (ps : List (Nat × Amount)) : List (Entity × Amount) :=
  ps.filterMap (fun p => (st.resolve? p.1).map (·, p.2))

def outStr {α} (f : α → String) : Out α → String
  | .ok a => f a
  | .panic w => s!"panic {w}"
  | .ub w => s!"ub {w}"

/-- Monitor: feed pairs (handles already resolved) into the expected accumulation. -/
def CState.feed (st : CState) (es : List (Entity × Amount)) : CState :=
  es.foldl (fun st p =>
    let i := p.1.id
    let (conf, fg) := match st.firstGen.get? i with
      | some g => (g != p.1.gen, st.firstGen)
      | none => (false, st.firstGen.insert i p.1.gen)
    match st.exp.get? i with
    | some old =>
      { st with exp := st.exp.insert i (old ++ p.2), firstGen := fg, pairs := st.pairs + 1, repeats := st.repeats + 1,
                caseRepeat := true, genConflicts := st.genConflicts + (if conf then 1 else 0) }
    | none =>
      { st with exp := st.exp.insert i p.2, firstGen := fg, pairs := st.pairs + 1 }) st

def CState.expKeys (st : CState) : List Nat := (st.exp.toList.map (·.1)).mergeSort (· ≤ ·)

def CState.resetExp (st : CState) : CState := { st with exp := {}, firstGen := {} }

/-! ### One line -/

def changesetLine (st : CState) (line : String) : CState × List String :=
  let (l, r) := splitArrow line
  let lt := toks l
  match lt with
  | ["case", id] =>
    let st := st.closeCase
    ({ st with caseHash := 16, caseRepeat := false, caseJoin := false, caseId := id, lineNo := 0, log := #[], caseMaxIdx := 0,
               model := ChangeSet.new, diverged := false, exp := {}, firstGen := {}, monDead := false, faulted := false,
               cases := st.cases + 1 }, [])
  | _ =>
    let st := { st with lineNo := st.lineNo + 1, lines := st.lines + 1 }
    let bad (what : String) : CState × List String :=
      (st, [s!"BAD case={st.caseId} line={st.lineNo} {what}: {line}"])
    match parseCOp? lt with
    | none => bad "unparsable op"
    | some op =>
      let st := match op with
        | .end => st
        | _ => { st with caseHash := mixHash st.caseHash (hash l) }
      let st := if lt.contains "lend" then { st with lendJoins := st.lendJoins + 1 } else st
      -- result = tokens before `!`, destroyed payloads after it
      let (resT, dT) := match splitOnTok "!" (toks r) with
        | [a] => (a, ([] : List String))
        | a :: b :: _ => (a, b)
        | [] => ([], [])
      match mapM? parseAmt? dT with
      | none => bad "unparsable destroyed list"
      | some implD =>
      let st := { st with destroyed := st.destroyed + implD.length }
      let diff (st : CState) (model : String) : CState × List String :=
        if st.diverged then (st, [])
        else ({ st with diverged := true, diffs := st.diffs + 1 },
              [s!"DIFF case={st.caseId} line={st.lineNo} op=[{l}] impl=[{r}] model=[{model}]"])
      let mon (st : CState) (why : String) : CState × List String :=
        if st.monDead then (st, [])
        else ({ st with monDead := true, mons := st.mons + 1 },
              [s!"MON C16 case={st.caseId} line={st.lineNo} {why} op=[{l}] impl=[{r}]"] ++
              (if st.faulted then
                [s!"MON C19 case={st.caseId} line={st.lineNo} C19 change set after a caught destructor panic inside clear(): {why} op=[{l}] impl=[{r}]"]
               else []) ++
              -- an amount added to a change set is a component value in the sense of C08: leaked / destroyed twice
              (if why.startsWith "amount-neither-yielded-nor-destroyed" || why.startsWith "amount-destroyed-unexpectedly-or-twice" then
                [s!"MON C08 case={st.caseId} line={st.lineNo} C08 change set: {why} op=[{l}] impl=[{r}]"]
               else []))
      -- model result vs implementation: result tokens and destroyed payloads in order
      let cmp (st : CState) (m' : ChangeSet) (mres : List String) (md : List Amount) : CState × List String :=
        if st.diverged then (st, [])
        else if resT == mres && implD == md then ({ st with model := m' }, [])
        else diff st (" ".intercalate mres ++ " ! " ++ " ".intercalate (md.map showAmt))
      let mfail (st : CState) (what : String) : CState × List String :=
        if st.diverged then (st, []) else diff st what
      -- monitor: the destroyed payloads must be exactly `want` (as a multiset)
      let monDestroyed (st : CState) (want : List Amount) : CState × List String :=
        if resT == ["panic"] then mon st "panic"
        else if sortStrs (implD.map showAmt) == sortStrs (want.map showAmt) then (st, [])
        else
          let w := sortStrs (want.map showAmt)
          let g := sortStrs (implD.map showAmt)
          match g.find? (fun x => g.count x > w.count x) with
          | some x => mon st s!"amount-destroyed-unexpectedly-or-twice {x}"
          | none => match w.find? (fun x => w.count x > g.count x) with
            | some x => mon st s!"amount-neither-yielded-nor-destroyed {x}"
            | none => mon st "destroyed-mismatch"
      let allExp (st : CState) : List Amount := st.expKeys.map (fun i => (st.exp.get? i).getD [])
      match op with
      | .create =>
        match resT with
        | [e] => match parseEntity? e with
          | some e =>
            let st := { st with log := st.log.push e, maxIndex := max st.maxIndex e.id, caseMaxIdx := max st.caseMaxIdx e.id,
                                reusedIdx := st.reusedIdx + (if e.gen > 1 then 1 else 0) }
            (st, [])
          | none => bad "unparsable result"
        | _ => bad "unparsable result"
      | .skip _ | .del _ | .ins _ _ _ | .rem _ _ =>
        if resT == ["panic"] then mon st "panic" else (st, [])
      | .csNew =>
        let (st, o1) := cmp st ChangeSet.new ["ok"] st.model.dropAll
        let (st, o2) := monDestroyed st (allExp st)
        (st.resetExp, o1 ++ o2)
      | .csFrom ps =>
        let es := st.resolvePairs ps
        let (st, o1) := match ChangeSet.fromIterE es with
          | .ok m' => cmp st m' ["ok"] st.model.dropAll
          | x => mfail st (outStr (fun _ => "ok") x)
        let (st, o2) := monDestroyed st (allExp st)
        let st := st.resetExp.feed es
        (st, o1 ++ o2)
      | .csAdd h a =>
        match st.resolve? h with
        | none =>
          if resT == ["skip"] then (st, []) else diff st "skip"
        | some e =>
          let (st, o1) := match st.model.addE e a with
            | .ok m' => cmp st m' ["ok"] []
            | x => mfail st (outStr (fun _ => "ok") x)
          let (st, o2) := monDestroyed st []
          let (st, o3) := if resT == ["ok"] || resT == ["panic"] then (st, []) else mon st "add-result"
          ((st.feed [(e, a)]), o1 ++ o2 ++ o3)
      | .csExtend ps =>
        let es := st.resolvePairs ps
        let (st, o1) := match st.model.extendE es with
          | .ok m' => cmp st m' ["ok"] []
          | x => mfail st (outStr (fun _ => "ok") x)
        let (st, o2) := monDestroyed st []
        (st.feed es, o1 ++ o2)
      | .csClear =>
        let st := { st with clears := st.clears + 1 }
        let (st, o1) := match st.model.clear with
          | .ok (m', d) => cmp st m' ["ok"] d
          | x => mfail st (outStr (fun _ => "ok") x)
        let (st, o2) := monDestroyed st (allExp st)
        (st.resetExp, o1 ++ o2)
      | .csClearFault n =>
        -- `Vec::clear` keeps destroying the remaining elements while it unwinds and the mask was taken out of the set
        -- beforehand: the model's `clear` with the result `panic` when at least `n` amounts are destroyed. From here on
        -- every verdict of the monitor is also a C19 verdict (state after a caught destructor panic).
        let st := { st with clears := st.clears + 1 }
        let (st, o1) := match st.model.clearFault n with
          | .ok (m', d, panicked) => cmp st m' [if panicked then "panic" else "ok"] d
          | x => mfail st (outStr (fun _ => "ok") x)
        let want := allExp st
        let (st, o2) :=
          if sortStrs (implD.map showAmt) == sortStrs (want.map showAmt) then (st, [])
          else
            let w := sortStrs (want.map showAmt)
            let g := sortStrs (implD.map showAmt)
            match g.find? (fun x => g.count x > w.count x) with
            | some x => mon { st with faulted := true } s!"amount-destroyed-unexpectedly-or-twice {x}"
            | none => match w.find? (fun x => w.count x > g.count x) with
              | some x => mon { st with faulted := true } s!"amount-neither-yielded-nor-destroyed {x}"
              | none => (st, [])
        let (st, o3) :=
          if resT == [if want.length ≥ max n 1 then "panic" else "ok"] then (st, [])
          else mon { st with faulted := true } "clear-fault-result"
        ({ st.resetExp with faulted := st.faulted || resT == ["panic"] }, o1 ++ o2 ++ o3)
      | .end =>
        let (st, o1) := cmp st ChangeSet.new ["ok"] st.model.dropAll
        let (st, o2) := monDestroyed st (allExp st)
        (st.resetExp, o1 ++ o2)
      | .joinShared ks | .joinMut _ ks | .consume _ ks =>
        if resT == ["panic"] then
          let (st, o1) := mfail st "no panic"
          let (st, o2) := mon st "panic"
          (st, o1 ++ o2)
        else
        match parseJoinRes? resT with
        | none => bad "unparsable join result"
        | some jr =>
          if jr.dumps.map (·.kind) != ks then bad "dumps do not match the kinds of the op" else
          let dumpToks := (splitOnTok "|" resT).drop 1 |>.map (fun d => "|" :: d) |>.flatten
          let st := { st with items := st.items + jr.items.length,
                              caseJoin := st.caseJoin || !jr.items.isEmpty }
          -- the other members' mask: indices present in every dumped storage
          let M := othersMask st.caseMaxIdx jr.dumps
          let renderM (its : List (Nat × Amount)) : List String :=
            toks (showItems (its.map (itemToks jr.dumps))) ++ dumpToks
          -- monitor expectation
          let ids := st.expKeys.filter (inAll jr.dumps)
          let stale := ids.filter (fun i => match st.firstGen.get? i, jr.dumps.find? (·.kind == "e") with
            | some g, some d => (d.get? i) != some s!"{i}:{g}"
            | _, _ => false)
          let checkItems (st : CState) (visit : List Nat) : CState × List String :=
            let want := visit.map (fun i => itemToks jr.dumps (i, (st.exp.get? i).getD []))
            if jr.items == want then (st, [])
            else
              mon st (firstMismatch visit jr.items want)
          match op with
          | .joinShared _ =>
            let st := { st with joinsShared := st.joinsShared + 1, stalePairings := st.stalePairings + stale.length }
            let (st, o1) := match st.model.joinShared M with
              | .ok its => cmp st st.model (renderM its) []
              | x => mfail st (outStr (fun _ => "ok") x)
            let (st, o2) := checkItems st ids
            let (st, o3) := monDestroyed st []
            (st, o1 ++ o2 ++ o3)
          | .joinMut marker _ =>
            let st := { st with joinsMut := st.joinsMut + 1, stalePairings := st.stalePairings + stale.length }
            let (st, o1) := match st.model.joinMut M (fun _ a => a ++ [marker]) with
              | .ok (m', its) => cmp st m' (renderM its) []
              | x => mfail st (outStr (fun _ => "ok") x)
            let (st, o2) := checkItems st ids
            let (st, o3) := monDestroyed st []
            -- every visited amount received the marker
            let st := { st with exp := ids.foldl (fun e i => e.insert i ((e.get? i).getD [] ++ [marker])) st.exp }
            (st, o1 ++ o2 ++ o3)
          | .consume n _ =>
            let visit := match n with | some n => ids.take n | none => ids
            let st := { st with consumes := st.consumes + 1, yielded := st.yielded + jr.items.length,
                                partialConsumes := st.partialConsumes + (if visit.length < ids.length then 1 else 0),
                                stalePairings := st.stalePairings + (stale.filter visit.contains).length }
            let (st, o1) := match st.model.consume M (n.getD (st.model.mask.bits.size + 1)) with
              | .ok (its, d) => cmp st ChangeSet.new (renderM its) d
              | x => mfail st (outStr (fun _ => "ok") x)
            let (st, o2) := checkItems st visit
            let rest := st.expKeys.filter (fun i => !visit.contains i)
            let (st, o3) := monDestroyed st (rest.map (fun i => (st.exp.get? i).getD []))
            (st.resetExp, o1 ++ o2 ++ o3)
          | _ => (st, [])


/-- `regrouped <res>`: the harness saw a `+=` whose right operand was itself the result of a `+=`. The payloads
    (sequences under concatenation) cannot show such a re-grouping, the property can: "the combination of its amounts
    in arrival order" is the left fold ((x + d1) + d2) + …, one amount at a time. -/
def changesetLineG (st : CState) (line : String) : CState × List String :=
  let (l, r) := splitArrow line
  match toks r with
  | "regrouped" :: rest =>
    let (st', outs) := changesetLine st (l ++ " => " ++ " ".intercalate rest)
    if st.monDead then (st', outs)
    else ({ st' with monDead := true, mons := st'.mons + (if st'.monDead then 0 else 1) },
          outs.filter (fun o => !o.startsWith "MON ") ++
          [s!"MON C16 case={st'.caseId} line={st'.lineNo} amounts-combined-out-of-arrival-grouping (an already combined amount was added to another one) op=[{l}] impl=[{r}]"])
  | _ => changesetLine st line

partial def changesetLoop (h : IO.FS.Stream) (st : CState) : IO CState := do
  let line ← h.getLine
  if line.isEmpty then return st
  let line := line.trimAscii.toString
  if line.isEmpty || line.startsWith "#" then changesetLoop h st
  else
    let (st', outs) := changesetLineG st line
    for o in outs do IO.println o
    changesetLoop h st'

end SpecsModel.Driver.ChangeSetDom

open SpecsModel.Driver.ChangeSetDom in
/-- Reads the rest of stdin after the `domain changeset` line; prints DIFF / MON / STATS. -/
def runChangeSet (h : IO.FS.Stream) : IO Unit := do
  let st ← changesetLoop h {}
  let st := st.closeCase
  IO.println s!"STATS cases={st.cases} lines={st.lines} diffs={st.diffs} mons={st.mons} distinct={st.distinct.size} distinct_nontrivial={st.distinctNontrivial} pairs={st.pairs} repeats={st.repeats} joins_shared={st.joinsShared} joins_mut={st.joinsMut} consumes={st.consumes} partial_consumes={st.partialConsumes} lend_joins={st.lendJoins} items={st.items} yielded={st.yielded} clears={st.clears} destroyed={st.destroyed} gen_conflicts={st.genConflicts} stale_pairings={st.stalePairings} reused_idx={st.reusedIdx} max_index={st.maxIndex}"
