/-
  Driver domain `saveload` (harness `h_saveload`, protocol: see the header of that file).
  Per case two model worlds `A`, `B` (SpecsModel/SaveLoad/Model.lean) replay the ops of the
  implementation's transcript; results, serialised records and dumps are compared (`DIFF`).
  Independently of the model, monitors run on the implementation's transcript alone:
    MON C14  a `roundtrip` line whose loaded world is not a marker-preserving bijective image of the
             marked (plain) / reference-closed (rec) entities of the source world;
    MON C15  two live entities share a marker id; a load created a duplicate for a known marker,
             did not create exactly one entity per unknown mentioned id, left a component the last
             record for that id records as absent (or a wrong value / reference); `mark` on a marked
             entity returned a different marker, reported `new`, or advanced the counter.
-/
import Driver.Proto
import SpecsModel.SaveLoad.Model
import Std.Data.HashSet
namespace SpecsModel.Driver.SL
open SpecsModel SpecsModel.SaveLoad SpecsModel.Driver

/-! ### Parsed transcript items -/

structure DEnt where
  ent : Entity
  m : Option Nat
  p : Option Int
  r : Option (Entity × Entity)
  e : Option En
  deriving DecidableEq, Repr

structure Dump where
  idx : Option Nat
  map : Option (List (Nat × Entity))
  ents : List DEnt
  mm : List Nat
  mp : List Nat
  mr : List Nat
  me : List Nat
  deriving DecidableEq, Repr

inductive Ref where
  | slot (k : Nat)
  deriving Repr

inductive Op where
  | cfg (uuid : Bool) (ron : Bool)
  | create (b : Bool) (atomic : Bool)           -- b = world B
  | setp (b : Bool) (k : Nat) (v : Option Int)
  | setr (b : Bool) (k : Nat) (v : Option (Nat × Nat))
  | sete (b : Bool) (k : Nat) (v : Option EnS)
  | mark (b : Bool) (k : Nat)
  | markLazy (b : Bool) (k : Nat)               -- `LazyBuilder::marked`: queued, applied inside the next `maintain`
  | delNow (b : Bool) (k : Nat)
  | delBatch (b : Bool) (ks : List Nat)
  | delAtomic (b : Bool) (k : Nat)
  | maintain (b : Bool)
  | allocMaintain (b : Bool)
  | allocReset (b : Bool)                       -- the allocator resource is replaced by a fresh one (C20 runs only)
  | serialize (b : Bool) (recursive : Bool)
  | deserialize (b : Bool) (slot : Nat)
  | load (b : Bool) (ds : List EntityData)
  | roundtrip (b : Bool) (recursive : Bool)
  | dump (b : Bool)
  deriving Repr

def parseWorld? : String → Option Bool
  | "A" => some false
  | "B" => some true
  | _ => none

/-- Split a token list at separator tokens. -/
def splitAt (sep : String) (ts : List String) : List (List String) :=
  let rec go (cur : List String) (acc : List (List String)) : List String → List (List String)
    | [] => (cur.reverse :: acc).reverse
    | t :: rest => if t == sep then go [] (cur.reverse :: acc) rest else go (t :: cur) acc rest
  go [] [] ts

def stripPrefix? (pre s : String) : Option String :=
  if s.startsWith pre then some (s.drop pre.length).toString else none

def parseOptInt? (s : String) : Option (Option Int) :=
  if s == "-" then some none else (parseInt? s).map some

/-- `m=<id> p=<int|-> r=<ma>,<mb>|- e=<nil|one:<m>|val:<int>|->` -/
def parseRec? : List String → Option EntityData
  | [tm, tp, tr, te] => do
    let m ← (← stripPrefix? "m=" tm).toNat?
    let p ← parseOptInt? (← stripPrefix? "p=" tp)
    let rs ← stripPrefix? "r=" tr
    let r ← (if rs == "-" then some none else
      match rs.splitOn "," with
      | [a, b] => do let a ← a.toNat?; let b ← b.toNat?; pure (some (a, b))
      | _ => none)
    let es ← stripPrefix? "e=" te
    let e ← (if es == "-" then some none
      else if es == "nil" then some (some EnD.nil)
      else match es.splitOn ":" with
        | ["one", k] => k.toNat?.map (fun k => some (EnD.one k))
        | ["val", v] => (parseInt? v).map (fun v => some (EnD.val v))
        | _ => none)
    pure { marker := m, p := p, r := r, e := e }
  | _ => none

/-- `<n> | rec | rec ...` (after the leading `recs`). -/
def parseRecs? (ts : List String) : Option (List EntityData) :=
  match splitAt "|" ts with
  | [n] :: groups =>
    match n.toNat? with
    | some n => do
      let ds ← mapM? parseRec? groups
      if ds.length == n then pure ds else none
    | none => none
  | _ => none

def parseLoadRecs? (ts : List String) : Option (List EntityData) :=
  if ts.isEmpty then some [] else mapM? parseRec? (splitAt "|" ts)

/-- `<i:g> m=<id|-> p=<int|-> r=<i:g>,<i:g>|- e=<nil|one:<i:g>|val:<int>|->` -/
def parseDEnt? : List String → Option DEnt
  | [te, tm, tp, tr, tx] => do
    let ent ← parseEntity? te
    let ms ← stripPrefix? "m=" tm
    let m ← (if ms == "-" then some none else ms.toNat?.map some)
    let p ← parseOptInt? (← stripPrefix? "p=" tp)
    let rs ← stripPrefix? "r=" tr
    let r ← (if rs == "-" then some none else
      match rs.splitOn "," with
      | [a, b] => do let a ← parseEntity? a; let b ← parseEntity? b; pure (some (a, b))
      | _ => none)
    let es ← stripPrefix? "e=" tx
    let e ← (if es == "-" then some none
      else if es == "nil" then some (some En.nil)
      else match es.splitOn ":" with
        | ["one", i, g] => (parseEntity? (i ++ ":" ++ g)).map (fun x => some (En.one x))
        | ["val", v] => (parseInt? v).map (fun v => some (En.val v))
        | _ => none)
    pure { ent := ent, m := m, p := p, r := r, e := e }
  | _ => none

def parseIdxList? (pre s : String) : Option (List Nat) := do
  let body ← stripPrefix? pre s
  if body.isEmpty then pure [] else mapM? (fun (x : String) => x.toNat?) (body.splitOn ",")

def parseMap? (s : String) : Option (Option (List (Nat × Entity))) :=
  if s == "-" then some none   -- empty or unavailable: both print `-`
  else do
    let l ← mapM? (fun (kv : String) =>
      match kv.splitOn "=" with
      | [k, e] => do let k ← k.toNat?; let e ← parseEntity? e; pure (k, e)
      | _ => none) (s.splitOn ",")
    pure (some l)

/-- `idx <n|-> map <..> ents <n> | ent | ... masks m:.. p:.. r:.. e:..` -/
def parseDump? (ts : List String) : Option Dump :=
  match ts with
  | "idx" :: ti :: "map" :: tmap :: "ents" :: rest =>
    -- rest = n [| ent]* masks m: p: r: e:
    let n := rest.length
    if n < 6 then none else
    let tail := rest.drop (n - 5)
    let body := rest.take (n - 5)
    match tail, splitAt "|" body with
    | ["masks", tm, tp, tr, te], [cnt] :: groups => do
      let idx ← (if ti == "-" then some none else ti.toNat?.map some)
      let map ← parseMap? tmap
      let ents ← mapM? parseDEnt? groups
      let c ← cnt.toNat?
      if ents.length != c then none else
      let mm ← parseIdxList? "m:" tm
      let mp ← parseIdxList? "p:" tp
      let mr ← parseIdxList? "r:" tr
      let me ← parseIdxList? "e:" te
      pure { idx := idx, map := map, ents := ents, mm := mm, mp := mp, mr := mr, me := me }
    | _, _ => none
  | _ => none

def parseOp? (ts : List String) : Option Op :=
  match ts with
  | ["cfg", mk, fmt] =>
    match mk, fmt with
    | "simple", "json" => some (.cfg false false)
    | "simple", "ron" => some (.cfg false true)
    -- `net`: a user-defined marker that carries a revision next to its id, with an allocator like the simple one;
    -- the model's marker ids are this marker's ids (no literal `load` records in this mode)
    | "net", "json" => some (.cfg false false)
    | "net", "ron" => some (.cfg false true)
    | "uuid", "json" => some (.cfg true false)
    | "uuid", "ron" => some (.cfg true true)
    | "uuidapp", "json" => some (.cfg true false)
    | "uuidapp", "ron" => some (.cfg true true)
    | "uuidreg", "json" => some (.cfg true false)
    | "uuidreg", "ron" => some (.cfg true true)
    | _, _ => none
  | ["create", w, "now"] => (parseWorld? w).map (.create · false)
  | ["create", w, "atomic"] => (parseWorld? w).map (.create · true)
  | ["setp", w, k, v] => do pure (.setp (← parseWorld? w) (← parseSlot? k) (← parseOptInt? v))
  | ["setr", w, k, "-"] => do pure (.setr (← parseWorld? w) (← parseSlot? k) none)
  | ["setr", w, k, a, b] => do
    pure (.setr (← parseWorld? w) (← parseSlot? k) (some (← parseSlot? a, ← parseSlot? b)))
  | ["sete", w, k, "-"] => do pure (.sete (← parseWorld? w) (← parseSlot? k) none)
  | ["sete", w, k, "nil"] => do pure (.sete (← parseWorld? w) (← parseSlot? k) (some .nil))
  | ["sete", w, k, "one", a] => do
    pure (.sete (← parseWorld? w) (← parseSlot? k) (some (.one (← parseSlot? a))))
  | ["sete", w, k, "val", v] => do
    pure (.sete (← parseWorld? w) (← parseSlot? k) (some (.val (← parseInt? v))))
  | ["mark", w, k] => do pure (.mark (← parseWorld? w) (← parseSlot? k))
  | ["mark_lazy", w, k] => do pure (.markLazy (← parseWorld? w) (← parseSlot? k))
  | ["del_now", w, k] => do pure (.delNow (← parseWorld? w) (← parseSlot? k))
  | "del_batch" :: w :: ks => do pure (.delBatch (← parseWorld? w) (← mapM? parseSlot? ks))
  | ["del_atomic", w, k] => do pure (.delAtomic (← parseWorld? w) (← parseSlot? k))
  | ["maintain", w] => (parseWorld? w).map .maintain
  | ["alloc_maintain", w] => (parseWorld? w).map .allocMaintain
  | ["alloc_reset", w] => (parseWorld? w).map .allocReset
  | ["serialize", w] => (parseWorld? w).map (.serialize · false)
  | ["serialize_rec", w] => (parseWorld? w).map (.serialize · true)
  | ["deserialize", w, k] => do
    let k ← (stripPrefix? "#" k).bind (·.toNat?)
    pure (.deserialize (← parseWorld? w) k)
  | "load" :: w :: rest => do pure (.load (← parseWorld? w) (← parseLoadRecs? rest))
  | ["roundtrip", w, "plain"] => (parseWorld? w).map (.roundtrip · false)
  | ["roundtrip", w, "rec"] => (parseWorld? w).map (.roundtrip · true)
  | ["dump", w] => (parseWorld? w).map .dump
  | _ => none

/-- Results as the protocol shows them. -/
inductive Res where
  | ok
  | err (pos : Option Nat)
  | skip
  | panic
  | fail
  | hang
  | none_
  | ent (e : Entity)
  | marked (id : Nat) (new : Bool)
  | recs (ds : List EntityData)
  | loaded (new : List Entity)
  | rt (ds : List EntityData) (src : Dump) (dst : Dump)
  | dump (d : Dump)
  deriving DecidableEq, Repr

def parseRes? (op : Op) (ts : List String) : Option Res :=
  match ts with
  | ["panic"] => some .panic
  | ["skip"] => some .skip
  | ["fail"] => some .fail
  | ["hang"] => some .hang
  | _ =>
    match op, ts with
    | .create _ _, ["e", e] => (parseEntity? e).map .ent
    | .mark _ _, ["none"] => some .none_
    | .mark _ _, ["m", id, "new"] => id.toNat?.map (.marked · true)
    | .mark _ _, ["m", id, "old"] => id.toNat?.map (.marked · false)
    | .delBatch _ _, ["err", p] => p.toNat?.map (fun p => .err (some p))
    | .serialize _ _, "recs" :: rest => (parseRecs? rest).map .recs
    | .deserialize _ _, "ok" :: "new" :: es => (mapM? parseEntity? es).map .loaded
    | .load _ _, "ok" :: "new" :: es => (mapM? parseEntity? es).map .loaded
    | .roundtrip _ _, "rt" :: "recs" :: rest =>
      match splitAt "||" rest with
      | [r, s, d] => do pure (.rt (← parseRecs? r) (← parseDump? s) (← parseDump? d))
      | _ => none
    | .dump _, ts => (parseDump? ts).map .dump
    | _, ["ok"] => some .ok
    | _, ["err"] => some (.err none)
    | _, _ => none

/-! ### Rendering the model -/

def sortMap (m : List (Nat × Entity)) : List (Nat × Entity) :=
  (m.toArray.qsort (fun a b => a.1 < b.1)).toList

def modelDump (w : SW) : Dump :=
  { idx := some w.ma.index
    map := if w.ma.mapping.isEmpty then none else some (sortMap w.ma.mapping)
    ents := w.view.map (fun v => { ent := v.ent, m := v.marker, p := v.p, r := v.r, e := v.e })
    mm := w.mks.mask.toList, mp := w.cp.mask.toList, mr := w.cr.mask.toList, me := w.ce.mask.toList }

/-- Dumps agree; the allocator part is compared only when the implementation shows it. -/
def dumpAgree (impl model : Dump) : Bool :=
  impl.ents == model.ents && impl.mm == model.mm && impl.mp == model.mp && impl.mr == model.mr &&
  impl.me == model.me &&
  (match impl.idx with
   | none => true
   | some i => model.idx == some i && impl.map == model.map)

def showOptInt : Option Int → String
  | none => "-"
  | some v => toString v

def showRec (d : EntityData) : String :=
  s!"m={d.marker} p={showOptInt d.p} r=" ++
  (match d.r with | none => "-" | some (a, b) => s!"{a},{b}") ++ " e=" ++
  (match d.e with
   | none => "-" | some .nil => "nil" | some (.one k) => s!"one:{k}" | some (.val v) => s!"val:{v}")

def showRecs (ds : List EntityData) : String :=
  " | ".intercalate (s!"recs {ds.length}" :: ds.map showRec)

def showDEnt (d : DEnt) : String :=
  showEntity d.ent ++ " m=" ++ (match d.m with | none => "-" | some m => toString m) ++
  " p=" ++ showOptInt d.p ++ " r=" ++
  (match d.r with | none => "-" | some (a, b) => showEntity a ++ "," ++ showEntity b) ++ " e=" ++
  (match d.e with
   | none => "-" | some .nil => "nil" | some (.one k) => "one:" ++ showEntity k
   | some (.val v) => s!"val:{v}")

def showIdx (l : List Nat) : String := ",".intercalate (l.map toString)

def showDump (d : Dump) : String :=
  "idx " ++ (match d.idx with | none => "-" | some i => toString i) ++ " map " ++
  (match d.map with
   | none => "-"
   | some m => ",".intercalate (m.map (fun kv => s!"{kv.1}={showEntity kv.2}"))) ++ " " ++
  " | ".intercalate (s!"ents {d.ents.length}" :: d.ents.map showDEnt) ++
  s!" masks m:{showIdx d.mm} p:{showIdx d.mp} r:{showIdx d.mr} e:{showIdx d.me}"

def showRes : Res → String
  | .ok => "ok"
  | .err none => "err"
  | .err (some p) => s!"err {p}"
  | .skip => "skip"
  | .panic => "panic"
  | .fail => "fail"
  | .hang => "hang"
  | .none_ => "none"
  | .ent e => "e " ++ showEntity e
  | .marked id true => s!"m {id} new"
  | .marked id false => s!"m {id} old"
  | .recs ds => showRecs ds
  | .loaded new => " ".intercalate ("ok" :: "new" :: new.map showEntity)
  | .rt ds s d => "rt " ++ showRecs ds ++ " || " ++ showDump s ++ " || " ++ showDump d
  | .dump d => showDump d

/-! ### Model execution -/

structure MState where
  a : SLWorld := {}
  b : SLWorld := {}
  slots : Array (List EntityData) := #[]
  uuid : Bool := false
  /-- log positions of the entities with a queued lazy marking, per world, in queue order: `maintain` is then
      `SLWorld.maintainLazy` (entity merge and purge first, then the queued closures, each of which calls
      `MarkerAllocator::mark`), which `C15.lazy_marking_is_a_history` shows to be the history
      `maintain; mark j₁; …; mark jₙ` — so the theorems about all histories cover it. -/
  lazyA : List Nat := []
  lazyB : List Nat := []

def MState.get (m : MState) (b : Bool) : SLWorld := if b then m.b else m.a
def MState.set (m : MState) (b : Bool) (x : SLWorld) : MState :=
  if b then { m with b := x } else { m with a := x }

def sresToRes : SRes → Res
  | .ent e => .ent e
  | .ok => .ok
  | .err => .err none
  | .kill .ok => .ok
  | .kill (.err p) => .err (some p)
  | .marked none => .none_
  | .marked (some (id, new)) => .marked id new
  | .recs ds => .recs ds
  | .loaded new => .loaded new
  | .skip => .skip
  | .panic _ => .panic

/-- Run one op on the model. Returns the new state and the model's result. -/
def modelStep (m : MState) : Op → MState × Res
  | .cfg uuid _ => ({ uuid := uuid }, .ok)
  | .create b atomic => let (x, r) := (m.get b).step (.create atomic); (m.set b x, sresToRes r)
  | .setp b k v => let (x, r) := (m.get b).step (.setP k v); (m.set b x, sresToRes r)
  | .setr b k v => let (x, r) := (m.get b).step (.setR k v); (m.set b x, sresToRes r)
  | .sete b k v => let (x, r) := (m.get b).step (.setE k v); (m.set b x, sresToRes r)
  | .mark b k =>
    if m.uuid && b then (m, .skip) else
    let (x, r) := (m.get b).step (.mark k); (m.set b x, sresToRes r)
  | .markLazy b k =>
    if m.uuid && b then (m, .skip) else
    match SpecsModel.resolve (m.get b).log k with
    | none => (m, .skip)
    | some _ =>
      -- the entity is captured now: its position in the log (the log only grows, `k % size` would drift)
      let j := k % (m.get b).log.size
      (if b then { m with lazyB := m.lazyB ++ [j] } else { m with lazyA := m.lazyA ++ [j] }, .ok)
  | .delNow b k => let (x, r) := (m.get b).step (.delNow k); (m.set b x, sresToRes r)
  | .delBatch b ks => let (x, r) := (m.get b).step (.delBatch ks); (m.set b x, sresToRes r)
  | .delAtomic b k => let (x, r) := (m.get b).step (.delAtomic k); (m.set b x, sresToRes r)
  | .maintain b =>
    let (x, r) := (m.get b).maintainLazy (if b then m.lazyB else m.lazyA)
    match r with
    | .ok =>
      let m := if b then { m with lazyB := [] } else { m with lazyA := [] }
      (m.set b x, .ok)
    | r => (m.set b x, sresToRes r)
  | .allocMaintain b => let (x, r) := (m.get b).step .allocMaintain; (m.set b x, sresToRes r)
  | .allocReset b =>
    -- not an operation of the model's histories (C14/C15 do not quantify over it): the marker allocator of
    -- the world becomes the initial one; the model stays a function of the history, which is all C20 uses
    if m.uuid then (m, .skip) else
    let x := m.get b
    (m.set b { x with w := { x.w with ma := {} } }, .ok)
  | .serialize b recursive =>
    if recursive && m.uuid && b then (m, .skip) else
    let (x, r) := (m.get b).step (if recursive then .serializeRec else .serialize)
    match r with
    | .recs ds => ({ m.set b x with slots := m.slots.push ds }, .recs ds)
    | r => (m.set b x, sresToRes r)
  | .deserialize b k =>
    if m.slots.size == 0 then (m, .skip) else
    match m.slots[k % m.slots.size]? with
    | some ds => let (x, r) := (m.get b).step (.deserialize ds); (m.set b x, sresToRes r)
    | none => (m, .skip)
  | .load b ds =>
    if m.uuid then (m, .skip) else
    let (x, r) := (m.get b).step (.deserialize ds); (m.set b x, sresToRes r)
  | .roundtrip b recursive =>
    if recursive && m.uuid && b then (m, .skip) else
    let (x, r) := (m.get b).step (if recursive then .serializeRec else .serialize)
    match r with
    | .recs ds =>
      match ({} : SW).deserialize ds with
      | .ok w' => (m.set b x, .rt ds (modelDump x.w) (modelDump w'))
      | _ => (m.set b x, .panic)
    | r => (m.set b x, sresToRes r)
  | .dump b => (m, .dump (modelDump (m.get b).w))

def rtAgree (impl model : Res) : Bool :=
  match impl, model with
  | .rt d1 s1 t1, .rt d2 s2 t2 => d1 == d2 && dumpAgree s1 s2 && dumpAgree t1 t2
  | .dump d1, .dump d2 => dumpAgree d1 d2
  | .err none, .err (some _) => true      -- del_now / del_atomic do not report a position
  | a, b => a == b

/-! ### Monitors (implementation transcript only) -/

def DEnt.refs (d : DEnt) : List Entity :=
  (match d.r with | some (a, b) => [a, b] | none => []) ++
  (match d.e with | some (.one a) => [a] | _ => [])

def Dump.find (d : Dump) (e : Entity) : Option DEnt := d.ents.find? (·.ent == e)
def Dump.markerOf (d : Dump) (e : Entity) : Option Nat := (d.find e).bind (·.m)
def Dump.carrier (d : Dump) (m : Nat) : Option DEnt := d.ents.find? (·.m == some m)
def Dump.marked (d : Dump) : List DEnt := d.ents.filter (·.m.isSome)

def dupMarker (d : Dump) : Option Nat :=
  let ms := d.ents.filterMap (·.m)
  let rec go : List Nat → Option Nat
    | [] => none
    | x :: t => if t.contains x then some x else go t
  go ms

/-- Does the entity `x` (of dump `d`) show exactly the components of record `r`, references
    resolved to the carriers of the recorded ids in `d`? -/
def entMatchesRec (d : Dump) (x : DEnt) (r : EntityData) : Option String :=
  if x.p != r.p then some "component P presence/value differs from the record"
  else
    let rOk : Option String :=
      match x.r, r.r with
      | none, none => none
      | some (a, b), some (ma, mb) =>
        if d.markerOf a == some ma && d.markerOf b == some mb then none
        else some "component R reference not mapped to the entity carrying the referenced marker"
      | some _, none => some "component R recorded as absent is present"
      | none, some _ => some "component R recorded as present is absent"
    match rOk with
    | some why => some why
    | none =>
      match x.e, r.e with
      | none, none => none
      | some .nil, some .nil => none
      | some (.val v), some (.val v') => if v == v' then none else some "component E value differs"
      | some (.one a), some (.one ma) =>
        if d.markerOf a == some ma then none
        else some "component E reference not mapped to the entity carrying the referenced marker"
      | some _, none => some "component E recorded as absent is present"
      | none, some _ => some "component E recorded as present is absent"
      | _, _ => some "component E variant differs"

def recMentioned (r : EntityData) : List Nat :=
  r.marker :: ((match r.r with | some (a, b) => [a, b] | none => []) ++
    (match r.e with | some (.one k) => [k] | _ => []))

def dedup (l : List Nat) : List Nat := l.foldl (fun acc x => if acc.contains x then acc else acc ++ [x]) []

/-- Reference closure of the marked entities of a dump; `none` when it contains a dead entity. -/
def closure (d : Dump) : Option (List Entity) :=
  let start := d.marked.map (·.ent)
  let rec go (fuel : Nat) (todo acc : List Entity) : Option (List Entity) :=
    match fuel with
    | 0 => some acc
    | fuel + 1 =>
      match todo with
      | [] => some acc
      | x :: rest =>
        match d.find x with
        | none => none
        | some dx =>
          let new := dx.refs.filter (fun a => !acc.contains a && !rest.contains a && a != x)
          let new := new.foldl (fun l a => if l.contains a then l else l ++ [a]) []
          go fuel (rest ++ new) (acc ++ new)
  go (d.ents.length * d.ents.length + d.ents.length + 4) start start

/-- C14 check of a `roundtrip` line. `pre` = dump of the source world just before (if known). -/
def monRoundtrip (recursive : Bool) (pre : Option Dump) (ds : List EntityData) (src dst : Dump) :
    Option String :=
  -- (rec) the marked set after the op is the reference closure of the marked set before
  let closureBad : Option String :=
    if !recursive then none else
    match pre with
    | none => none
    | some p =>
      match closure p with
      | none => some "recursive serialisation succeeded although a reachable entity is dead"
      | some cl =>
        if src.ents.map (·.ent) != p.ents.map (·.ent) then some "recursive serialisation changed the entity set"
        else if src.ents.any (fun x => x.m.isSome != cl.contains x.ent) then
          some "entities marked by the recursive serialiser are not the reference closure of the marked set"
        else if p.ents.any (fun x => x.m.isSome && src.markerOf x.ent != x.m) then
          some "recursive serialisation changed an existing marker"
        else none
  match closureBad with
  | some why => some why
  | none =>
  match dupMarker src, dupMarker dst with
  | some m, _ => some s!"two source entities share marker {m}"
  | _, some m => some s!"two loaded entities share marker {m}"
  | none, none =>
    let marked := src.marked
    if ds.length != marked.length then some "number of records differs from the number of marked entities"
    else if dst.ents.length != marked.length then
      some (if dst.ents.length < marked.length then "missing entity in the loaded world" else "extra entity in the loaded world")
    else if dst.ents.any (·.m.isNone) then some "loaded entity without marker"
    else
      -- every marked source entity: a record, and a loaded image, both with its components
      marked.foldl (fun acc x =>
        match acc with
        | some why => some why
        | none =>
          match x.m with
          | none => none
          | some m =>
            match ds.find? (·.marker == m), dst.carrier m with
            | none, _ => some s!"no record for marked entity {showEntity x.ent}"
            | _, none => some s!"missing entity: nobody carries marker {m} in the loaded world"
            | some r, some y =>
              match entMatchesRec src x r with
              | some why => some ("record: " ++ why)
              | none =>
                match entMatchesRec dst y r with
                | some why => some ("loaded world: " ++ why)
                | none => none) none

/-- C15 checks of a load: `pre`/`post` dumps around it, the records loaded, the reported new entities. -/
def monLoad (pre post : Dump) (ds : List EntityData) (new : List Entity) : Option String :=
  -- known ids stay where they were, old entities stay, markedness of old entities unchanged
  let keep : Option String := pre.ents.foldl (fun acc x =>
    match acc with
    | some why => some why
    | none =>
      match post.find x.ent with
      | none => some s!"entity {showEntity x.ent} disappeared during a load"
      | some y =>
        match x.m with
        | some m => if y.m == some m then none else some s!"known marker {m} left its entity"
        | none => if y.m.isNone then none else some "an unmarked existing entity became marked by a load") none
  match keep with
  | some why => some why
  | none =>
    let created := post.ents.filter (fun y => (pre.find y.ent).isNone)
    if created.map (·.ent) != new then some "reported new entities differ from the dumps"
    else
      let mentioned := dedup ((ds.map recMentioned).flatten)
      let unknown := mentioned.filter (fun m => (pre.carrier m).isNone)
      if created.length != unknown.length then
        (if created.length > unknown.length then some "duplicate created for a known marker (more new entities than unknown ids)"
         else some "fewer new entities than unknown mentioned ids")
      else if created.any (fun y => match y.m with | some m => !unknown.contains m | none => true) then
        some "a created entity carries no unknown mentioned id"
      else if mentioned.any (fun m => (post.carrier m).isNone) then some "a mentioned id has no carrier after the load"
      else
        -- last record per marker determines the carrier's components exactly
        let rec lastRecs : List EntityData → List EntityData
          | [] => []
          | r :: t => if t.any (·.marker == r.marker) then lastRecs t else r :: lastRecs t
        (lastRecs ds).foldl (fun acc r =>
          match acc with
          | some why => some why
          | none =>
            match post.carrier r.marker with
            | none => some "record marker without carrier"
            | some y => (entMatchesRec post y r).map (fun why => s!"after load, marker {r.marker}: " ++ why)) none

/-! ### Non-triviality classification -/

def hasForwardOrCycle (d : Dump) : Bool :=
  let marked := d.marked
  let edges : List (Entity × Entity) :=
    (marked.map (fun x => (x.refs.filter (fun a => (d.markerOf a).isSome)).map (fun a => (x.ent, a)))).flatten
  let forward := edges.any (fun (x, a) => a.id > x.id)
  -- cycle: transitive closure by iteration
  let nodes := marked.map (·.ent)
  let step (reach : List (Entity × Entity)) : List (Entity × Entity) :=
    reach ++ ((reach.map (fun (x, y) => (edges.filter (fun (u, _) => u == y)).map (fun (_, v) => (x, v)))).flatten.filter
      (fun p => !reach.contains p))
  let rec iter (n : Nat) (reach : List (Entity × Entity)) : List (Entity × Entity) :=
    match n with
    | 0 => reach
    | n + 1 => iter n ((step reach).eraseDups)
  let tc := iter nodes.length edges.eraseDups
  forward || tc.any (fun (x, y) => x == y)

/-! ### Driver state -/

def emptyDump (uuid : Bool) : Dump :=
  { idx := if uuid then none else some 0, map := none, ents := [], mm := [], mp := [], mr := [], me := [] }

structure WMon where
  log : Array Entity := #[]
  /-- dump printed by the immediately preceding line of this world (a fresh world is known to be empty) -/
  last : Option Dump := some (emptyDump false)
  pendingLoad : Option (Dump × List EntityData × List Entity) := none
  pendingIdx : Option Nat := none        -- counter that must be unchanged at the next dump (mark on marked)
  loads : List UInt64 := []
  /-- every (handle, marker id) seen in a dump of this world: no operation of the protocol takes a marker
      away from a live entity, so a live handle seen with another id has been marked a second time -/
  carried : List (Entity × Nat) := []

structure St where
  caseId : String := ""
  lineNo : Nat := 0
  model : MState := {}
  stopped : Bool := false                -- no further model comparison in this case
  monDead : Bool := false
  ma : WMon := {}
  mb : WMon := {}
  implSlots : Array (List EntityData) := #[]
  uuid : Bool := false
  curRon : Bool := false                  -- format of the current case (harness default: json)
  -- statistics
  cases : Nat := 0
  lines : Nat := 0
  diffs : Nat := 0
  mons : Nat := 0
  roundtrips : Nat := 0
  rtNontrivial : Nat := 0
  loadsN : Nat := 0
  repeated : Nat := 0
  stale : Nat := 0
  serPanics : Nat := 0
  recStops : Nat := 0
  uuidCases : Nat := 0
  ronCases : Nat := 0
  caseHash : UInt64 := 0
  caseNontrivial : Bool := false
  distinct : Std.HashSet UInt64 := {}
  distinctNontrivial : Nat := 0

def St.closeCase (st : St) : St :=
  if st.lineNo = 0 then st
  else if st.distinct.contains st.caseHash then st
  else { st with distinct := st.distinct.insert st.caseHash,
                 distinctNontrivial := st.distinctNontrivial + (if st.caseNontrivial then 1 else 0) }

def St.wm (st : St) (b : Bool) : WMon := if b then st.mb else st.ma
def St.setWm (st : St) (b : Bool) (w : WMon) : St := if b then { st with mb := w } else { st with ma := w }

def opWorld : Op → Option Bool
  | .cfg _ _ => none
  | .create b _ | .setp b _ _ | .setr b _ _ | .sete b _ _ | .mark b _ | .markLazy b _ | .delNow b _ | .delBatch b _
  | .delAtomic b _ | .maintain b | .allocMaintain b | .allocReset b | .serialize b _ | .deserialize b _ | .load b _
  | .roundtrip b _ | .dump b => some b

def resolveLog (log : Array Entity) (k : Nat) : Option Entity :=
  if log.size = 0 then none else log[k % log.size]?

/-- Monitors for one line; returns the updated state and at most one verdict `(tag, reason)`. -/
def monitorLine (st : St) (op : Op) (res : Res) : St × Option (String × String) :=
  match op, res with
  | .cfg uuid _, _ =>
    ({ st with ma := { last := some (emptyDump uuid) }, mb := { last := some (emptyDump uuid) },
               implSlots := #[], uuid := uuid }, none)
  | _, .panic =>
    match op with
    | .serialize b _ | .roundtrip b _ =>
      -- panics of the serialisers are legitimate outcomes (unmarked / dead referenced entity)
      let wm := st.wm b
      ({ (st.setWm b { wm with last := none, pendingLoad := none, pendingIdx := none }) with serPanics := st.serPanics + 1 }, none)
    | _ => (st, some ("C00", "panic"))
  | _, .fail => (st, some ("C00", "serde reported an error or the serialised text is not a sequence of records"))
  | _, .hang => (st, some ("C00", "operation did not terminate"))
  | .dump b, .dump d =>
    let wm := st.wm b
    let v1 : Option (String × String) :=
      match dupMarker d with
      | some m => some ("C15", s!"two live entities share marker id {m}")
      | none => none
    let v2 : Option (String × String) :=
      match wm.pendingLoad with
      | some (pre, ds, new) => (monLoad pre d ds new).map (fun why => ("C15", why))
      | none => none
    let v3 : Option (String × String) :=
      match wm.pendingIdx, d.idx with
      | some i, some j => if i == j then none else some ("C15", "mark on a marked entity advanced the counter")
      | _, _ => none
    let v4 : Option (String × String) :=
      -- carried ids are below the counter
      match d.idx with
      | some i => if d.ents.any (fun x => match x.m with | some m => m ≥ i | none => false) then
          some ("C15", "a carried marker id is not below the allocator's counter") else none
      | none => none
    let v5 : Option (String × String) :=
      d.ents.findSome? (fun x =>
        match x.m, wm.carried.find? (·.1 == x.ent) with
        | some m, some (_, m0) =>
          if m == m0 then none else
            some ("C15", s!"live entity {x.ent.id}:{x.ent.gen} carried marker {m0} and now carries {m}: an already marked entity was marked again")
        | none, some (_, m0) =>
          some ("C15", s!"live entity {x.ent.id}:{x.ent.gen} lost its marker {m0}")
        | _, none => none)
    let fresh := d.ents.filterMap (fun x =>
      match x.m with
      | some m => if wm.carried.any (·.1 == x.ent) then none else some (x.ent, m)
      | none => none)
    let st := st.setWm b { wm with last := some d, pendingLoad := none, pendingIdx := none,
                                   carried := fresh ++ wm.carried }
    (st, v1 <|> v2 <|> v3 <|> v4 <|> v5)
  | .create b _, .ent e =>
    let wm := st.wm b
    (st.setWm b { wm with log := wm.log.push e, last := none, pendingLoad := none, pendingIdx := none }, none)
  | .mark b k, r =>
    let wm := st.wm b
    let v : Option (String × String) × Option Nat :=
      match wm.last, resolveLog wm.log k, r with
      | some d, some e, .marked id new =>
        match d.find e with
        | some x =>
          match x.m with
          | some m0 =>
            if id != m0 then (some ("C15", s!"mark on a marked entity returned marker {id} instead of {m0}"), none)
            else if new then (some ("C15", "mark on a marked entity reported a newly added marker"), none)
            else (none, d.idx)
          | none =>
            if !new then (some ("C15", "mark on an unmarked entity reported an old marker"), none)
            else if d.ents.any (·.m == some id) then (some ("C15", s!"mark handed out id {id} which is already carried"), none)
            else (none, none)
        | none => (some ("C15", "mark returned a marker for a dead entity"), none)
      | some d, some e, .none_ =>
        if (d.find e).isSome then (some ("C15", "mark returned None for a live entity"), none) else (none, none)
      | _, _, _ => (none, none)
    (st.setWm b { wm with last := none, pendingLoad := none, pendingIdx := v.2 }, v.1)
  | .serialize b _, .recs ds =>
    let wm := st.wm b
    ({ (st.setWm b { wm with last := none, pendingLoad := none, pendingIdx := none }) with implSlots := st.implSlots.push ds }, none)
  | .deserialize b _, .loaded new | .load b _, .loaded new =>
    let wm := st.wm b
    let ds : Option (List EntityData) :=
      match op with
      | .load _ ds => some ds
      | .deserialize _ k => if st.implSlots.size == 0 then none else st.implSlots[k % st.implSlots.size]?
      | _ => none
    let h : UInt64 := hash (ds.map (fun l => l.map showRec))
    let rep := wm.loads.contains h
    let isStale : Bool :=
      match wm.last, ds with
      | some d, some ds =>
        match d.map with
        | some mp => mp.any (fun (id, e) => ((ds.map recMentioned).flatten.contains id) &&
            (match d.find e with | some x => x.m != some id | none => true))
        | none => false
      | _, _ => false
    let pend := match wm.last, ds with
      | some d, some ds => some (d, ds, new)
      | _, _ => none
    let st := st.setWm b { wm with log := wm.log ++ new.toArray, last := none, pendingLoad := pend,
                                   pendingIdx := none, loads := h :: wm.loads }
    ({ st with loadsN := st.loadsN + 1, repeated := st.repeated + (if rep then 1 else 0),
               stale := st.stale + (if isStale then 1 else 0),
               caseNontrivial := st.caseNontrivial || rep || isStale }, none)
  | .roundtrip b recursive, .rt ds src dst =>
    let wm := st.wm b
    let v := (monRoundtrip recursive wm.last ds src dst).map (fun why => ("C14", why))
    let nt := hasForwardOrCycle src
    let st := st.setWm b { wm with last := none, pendingLoad := none, pendingIdx := none }
    ({ st with roundtrips := st.roundtrips + 1, rtNontrivial := st.rtNontrivial + (if nt then 1 else 0),
               caseNontrivial := st.caseNontrivial || nt }, v)
  | _, .skip => (st, none)
  | op, _ =>
    match opWorld op with
    | some b =>
      let wm := st.wm b
      (st.setWm b { wm with last := none, pendingLoad := none, pendingIdx := none }, none)
    | none => (st, none)

def slLine (st : St) (line : String) : St × List String :=
  let (l, r) := splitArrow line
  match toks l with
  | ["case", id] =>
    let st := st.closeCase
    ({ st with caseHash := 11, caseNontrivial := false, caseId := id, lineNo := 0, model := {},
               stopped := false, monDead := false, ma := {}, mb := {}, implSlots := #[], uuid := false, curRon := false,
               cases := st.cases + 1 }, [])
  | lt =>
    let st := { st with lineNo := st.lineNo + 1, lines := st.lines + 1,
                        caseHash := mixHash st.caseHash (hash l) }
    -- Finding F2 probe (outside the model: the model has no unit-struct component type). The specification is C14's
    -- own statement: every marked source entity's component is there after the round trip, whatever the format.
    if lt == ["scratch_failed_save"] then
      -- outside the model: a recursive save that fails half-way in ANOTHER world of the same thread; the worlds of the
      -- case are untouched (what follows is compared as usual)
      if toks r == ["ok"] then (st, [])
      else (st, [s!"BAD case={st.caseId} line={st.lineNo} scratch_failed_save: the arranged failure did not happen: {r}"])
    else
    if lt == ["unit_roundtrip"] then
      (match toks r with
       | ["unit", "kept", k, "of", n] =>
         if k == n then (st, [])
         else if st.monDead then (st, [])
         else
           ({ st with monDead := true, mons := st.mons + 1, diffs := st.diffs + (if st.stopped then 0 else 1), stopped := true },
            (if st.stopped then [] else
              [s!"DIFF case={st.caseId} line={st.lineNo} op=[unit_roundtrip] impl=[{r}] model=[unit kept {n} of {n}]"]) ++
            [s!"MON C14 case={st.caseId} line={st.lineNo} a unit-struct component the marked source entities had is missing after serialise + load into an empty world ({k} of {n} carriers left) fmt={if st.curRon then "ron" else "json"} op=[unit_roundtrip]"])
       | _ =>
         if st.monDead then (st, []) else
         ({ st with monDead := true, mons := st.mons + 1 },
          [s!"MON C14 case={st.caseId} line={st.lineNo} round trip of marked entities with a unit-struct component did not succeed: {(r.take 100).toString} op=[unit_roundtrip]"]))
    else
    match parseOp? lt with
    | none => (st, [s!"BAD case={st.caseId} line={st.lineNo} unparsable op: {l}"])
    | some op =>
      match parseRes? op (toks r) with
      | none => (st, [s!"BAD case={st.caseId} line={st.lineNo} unparsable result: {(r.take 200).toString}"])
      | some ires =>
        let st := match op with
          | .cfg uuid ron => { st with curRon := ron, uuidCases := st.uuidCases + (if uuid then 1 else 0),
                                       ronCases := st.ronCases + (if ron then 1 else 0) }
          | _ => st
        -- 1. model vs implementation
        let (st, out1) :=
          if st.stopped then (st, [])
          else
            let (m', mres) := modelStep st.model op
            if rtAgree ires mres then
              -- a panicking recursive serialiser leaves partial marks which the model does not track
              let stop := (match op, ires with
                | .serialize _ true, .panic | .roundtrip _ true, .panic => true
                | _, _ => false)
              ({ st with model := m', stopped := stop, recStops := st.recStops + (if stop then 1 else 0) }, [])
            else
              ({ st with stopped := true, diffs := st.diffs + 1 },
               [s!"DIFF case={st.caseId} line={st.lineNo} op=[{(l.take 300).toString}] impl=[{((showRes ires).take 600).toString}] model=[{((showRes mres).take 600).toString}]"])
        -- 2. monitors on the implementation's transcript
        let (st, out2) :=
          if st.monDead then (st, [])
          else
            let (st, v) := monitorLine st op ires
            match v with
            | none => (st, [])
            | some (tag, why) =>
              ({ st with monDead := true, mons := st.mons + 1 },
               [s!"MON {tag} case={st.caseId} line={st.lineNo} {why} op=[{(l.take 300).toString}]"])
        (st, out1 ++ out2)

partial def slLoop (h : IO.FS.Stream) (st : St) : IO St := do
  let line ← h.getLine
  if line.isEmpty then return st
  let line := line.trimAscii.toString
  if line.isEmpty || line.startsWith "#" then slLoop h st
  else
    let (st', outs) := slLine st line
    for o in outs do IO.println o
    slLoop h st'

end SpecsModel.Driver.SL

namespace SpecsModel.Driver
open SpecsModel.Driver.SL

/-- Entry point of the `saveload` domain: reads the rest of stdin after the `domain` line. -/
def runSaveLoad (h : IO.FS.Stream) : IO Unit := do
  let st ← slLoop h {}
  let st := st.closeCase
  IO.println s!"STATS cases={st.cases} lines={st.lines} diffs={st.diffs} mons={st.mons} distinct={st.distinct.size} distinct_nontrivial={st.distinctNontrivial} roundtrips={st.roundtrips} rt_cycle_or_forward={st.rtNontrivial} loads={st.loadsN} repeated_loads={st.repeated} stale_loads={st.stale} ser_panics={st.serPanics} rec_panic_stops={st.recStops} uuid_cases={st.uuidCases} ron_cases={st.ronCases}"

end SpecsModel.Driver
