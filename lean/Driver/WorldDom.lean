/- Driver domain `world`: parsing and printing of world-domain ops and results. -/
import Driver.Proto
import SpecsModel.Spec.WorldSpec
namespace SpecsModel.Driver

def parseEOp (ts : List String) : Option EOp :=
  match ts with
  | ["create", "now"] => some (.createNow false)
  | ["create", "now_dropped"] => some (.createNow true)
  | ["create", "atomic"] => some (.createAtomic false)
  | ["create", "atomic_dropped"] => some (.createAtomic true)
  | ["create_iter", "now", n] => n.toNat?.map .createIterNow
  | ["create_iter", "atomic", n] => n.toNat?.map .createIterAtomic
  | ["del_now", h] => (parseSlot? h).map .delNow
  | "del_batch" :: hs => (mapM? parseSlot? hs).map .delBatch
  | ["del_atomic", h] => (parseSlot? h).map .delAtomic
  | ["del_all"] => some .delAll
  | ["maintain"] => some .merge
  | ["alive", h] => (parseSlot? h).map .alive
  | ["walive", h] => (parseSlot? h).map .walive
  | ["ejoin"] => some .ejoin
  | _ => none

def parseERes (op : EOp) (ts : List String) : Option ERes :=
  match op, ts with
  | _, ["panic"] => some (.panic "impl")
  | _, ["skip"] => some .skip
  | .createNow _, ["e", e] | .createAtomic _, ["e", e] => (parseEntity? e).map .ent
  | .createIterNow _, "es" :: es | .createIterAtomic _, "es" :: es | .ejoin, "es" :: es =>
    (mapM? parseEntity? es).map .ents
  | .delNow _, ["ok"] | .delAtomic _, ["ok"] | .delBatch _, ["ok"] => some (.kill .ok)
  | .delNow _, ["err"] | .delAtomic _, ["err"] => some (.kill (.err 0))
  | .delBatch _, ["err", p] => p.toNat?.map (fun p => .kill (.err p))
  | .delAll, ["ok"] | .merge, ["ok"] => some .unit
  | .alive _, ["t"] | .walive _, ["t"] => some (.bool true)
  | .alive _, ["f"] | .walive _, ["f"] => some (.bool false)
  | _, _ => none

def showERes : ERes → String
  | .ent e => "e " ++ showEntity e
  | .ents es => " ".intercalate ("es" :: es.map showEntity)
  | .kill .ok => "ok"
  | .kill (.err p) => s!"err {p}"
  | .bool true => "t"
  | .bool false => "f"
  | .unit => "ok"
  | .skip => "skip"
  | .panic why => "panic(" ++ why ++ ")"

/-- Equality of entity results as far as the protocol shows them (del_now/del_atomic do not report
    a position). -/
def eresAgree (op : EOp) (impl model : ERes) : Bool :=
  match op, impl, model with
  | .delNow _, .kill (.err _), .kill (.err _) => true
  | .delAtomic _, .kill (.err _), .kill (.err _) => true
  | _, a, b => a == b

-- ------------------------------------------------------------------------------------------

def parseKV? (s : String) : Option (Nat × Int) :=
  match s.splitOn ":" with
  | [k, v] => do
    let k ← k.toNat?
    let v ← parseInt? v
    pure (k, v)
  | _ => none

def parseDW? : List String → Option (Nat × Option Int)
  | [d] => d.toNat?.map (fun d => (d, none))
  | [d, w] => do
    let d ← d.toNat?
    if w.startsWith "w=" then
      let v ← parseInt? (w.drop 2).toString
      pure (d, some v)
    else none
  | _ => none

def parseMode? : String → Option (Bool × Bool)
  | "now" => some (false, false)
  | "now_dropped" => some (false, true)
  | "atomic" => some (true, false)
  | "atomic_dropped" => some (true, true)
  | _ => none

def parseRAct? (s : String) : Option RAct :=
  match s.splitOn ":" with
  | ["skip"] => some .skip
  | ["get"] => some .get
  | ["mut", d] => d.toNat?.map (fun d => .getMut d none)
  | ["mut", d, w] => do
    let d ← d.toNat?
    let w ← parseInt? w
    pure (.getMut d (some w))
  | ["other", h] => (parseSlot? h).map .getOther
  | ["othermut", h, d] => do
    let h ← parseSlot? h
    let d ← d.toNat?
    pure (.getOtherMut h d none)
  | ["othermut", h, d, w] => do
    let h ← parseSlot? h
    let d ← d.toNat?
    let w ← parseInt? w
    pure (.getOtherMut h d (some w))
  | _ => none

/-- Split a token list on `;` at bracket depth 0. -/
def splitScript (ts : List String) : List (List String) :=
  let (acc, cur, _) := ts.foldl (fun (st : List (List String) × List String × Nat) t =>
    let (acc, cur, depth) := st
    if t == "[" then (acc, t :: cur, depth + 1)
    else if t == "]" then (acc, t :: cur, depth - 1)
    else if t == ";" && depth == 0 then (if cur.isEmpty then acc else cur.reverse :: acc, [], depth)
    else (acc, t :: cur, depth)) ([], [], 0)
  (if cur.isEmpty then acc else cur.reverse :: acc).reverse

partial def parseWOp (ts : List String) : Option WOp :=
  -- `gget` / `ggetmut` / `gins` / `grem`: the same operations through the generic storage traits — same model ops
  -- (`uins`: the insertion executed from a scope guard while a destructor panic unwinds — an insertion all the same)
  let ts := match ts with
    | h :: rest => if ["gget", "ggetmut", "gins", "grem", "lget", "lgetmut", "pejoin", "uins"].contains h then (h.drop 1).toString :: rest
                   else if h == "lazy_create_nobuild" then "lazy_create" :: rest
                   else if h == "ldrain2" then "rem" :: rest
                   else if h == "lentry2" then "entry_or" :: rest ++ ["0"] else ts
    | [] => ts
  match ts with
  | ["reg", k, p] => do
    let k ← k.toNat?
    let p ← p.toNat?
    pure (.reg k p)
  | "createw" :: mode :: cs => do
    let (a, d) ← parseMode? mode
    let cs ← mapM? parseKV? cs
    pure (.createWith a d cs)
  | ["get", k, h] => do pure (.get (← k.toNat?) (← parseSlot? h))
  | "getmut" :: k :: h :: rest => do
    let (d, w) ← parseDW? rest
    pure (.getMut (← k.toNat?) (← parseSlot? h) d w)
  | ["has", k, h] => do pure (.has (← k.toNat?) (← parseSlot? h))
  | ["ins", k, h, v] => do pure (.ins (← k.toNat?) (← parseSlot? h) (← parseInt? v))
  | ["rem", k, h] => do pure (.rem (← k.toNat?) (← parseSlot? h))
  | "entry_or" :: k :: h :: v :: rest => do
    let (d, w) ← parseDW? rest
    pure (.entry (← k.toNat?) (← parseSlot? h) (.orInsert (← parseInt? v) d w))
  | ["entry_rep", k, h, v] => do pure (.entry (← k.toNat?) (← parseSlot? h) (.replace (← parseInt? v)))
  | ["entry_rem", k, h] => do pure (.entry (← k.toNat?) (← parseSlot? h) .remove)
  | "mut_or_default" :: k :: h :: rest => do
    let (d, w) ← parseDW? rest
    pure (.mutOrDefault (← k.toNat?) (← parseSlot? h) d w)
  | ["count", k] => k.toNat?.map .count
  | ["empty", k] => k.toNat?.map .isEmpty
  | ["mask", k] => k.toNat?.map .mask
  | ["clear", k] => k.toNat?.map .clear
  | ["drain", k, n] => do pure (.drain (← k.toNat?) (← n.toNat?))
  | ["slice", k] => k.toNat?.map .slice
  | ["emit", k, b] => do pure (.emit (← k.toNat?) (b == "t"))
  | ["events", k] => k.toNat?.map .events
  | ["lazy_ins", k, h, v] => do pure (.lazyIns (← k.toNat?) (← parseSlot? h) (← parseInt? v))
  | "lazy_ins_all" :: k :: items => do
    let items ← mapM? (fun (s : String) =>
      match s.splitOn ":" with
      | [h, v] => do pure ((← parseSlot? h), (← parseInt? v))
      | _ => none) items
    pure (.lazyInsAll (← k.toNat?) items)
  | ["lazy_rem", k, h] => do pure (.lazyRem (← k.toNat?) (← parseSlot? h))
  | "lazy_create" :: cs => (mapM? parseKV? cs).map .lazyCreate
  | "lazy_exec" :: "[" :: rest =>
    match rest.reverse with
    | "]" :: innerRev =>
      (mapM? parseWOp (splitScript innerRev.reverse)).map .lazyExec
    | _ => none
  | "rjoin" :: k :: m :: acts => do
    let acts ← mapM? parseRAct? acts
    -- mode `x` = mutable restricted join through `.join()` (shared items: get / get_mut only); same model op
    pure (.rjoin (← k.toNat?) (m == "m" || m == "x") acts)
  | ["drop_world"] => some .dropWorld
  | ts => (parseEOp ts).map .ent

def parseOptInt? : List String → Option (Option Int)
  | ["none"] => some none
  | ["some", v] => (parseInt? v).map some
  | _ => none

def parsePair? (s : String) : Option (Nat × Int) := parseKV? s

def parseCEv? (s : String) : Option CEv :=
  let rest := (s.drop 1).toString
  if s.startsWith "I" then rest.toNat?.map .inserted
  else if s.startsWith "M" then rest.toNat?.map .modified
  else if s.startsWith "R" then rest.toNat?.map .removed
  else none

def parseItem? (s : String) : Option (Nat × ItemRes) :=
  match s.splitOn ":" with
  | [i, r] => do
    let i ← i.toNat?
    if r == "-" then pure (i, .skip)
    else if r == "none" then pure (i, .opt none)
    else if r.startsWith "v=" then pure (i, .val (← parseInt? (r.drop 2).toString))
    else if r.startsWith "some=" then pure (i, .opt (some (← parseInt? (r.drop 5).toString)))
    else none
  | _ => none

def parseOccOpt? (s : String) : Option (Nat × Option Int) :=
  match s.splitOn ":" with
  | [i, v] => do
    let i ← i.toNat?
    if v == "-" then pure (i, none) else pure (i, some (← parseInt? v))
  | _ => none

def parseWRes (op : WOp) (ts : List String) : Option WRes :=
  match op, ts with
  | _, ["panic"] => some (.panic "impl")
  | _, ["nostore"] => some .noStore
  | .ent .merge, "acts" :: tags => (mapM? String.toNat? tags).map .acts
  | .ent eop, ts => (parseERes eop ts).map .e
  | _, ["skip"] => some .skip
  | .reg .., ["ok"] | .clear _, ["ok"] | .emit .., ["ok"] => some .unit
  | .createWith .., ["e", e] | .lazyCreate _, ["e", e] => (parseEntity? e).map (fun e => .e (.ent e))
  | .get .., ts | .getMut .., ts | .rem .., ts | .mutOrDefault .., ts => (parseOptInt? ts).map .opt
  | .has .., ["t"] | .isEmpty _, ["t"] => some (.bool true)
  | .has .., ["f"] | .isEmpty _, ["f"] => some (.bool false)
  | .ins .., ["ins"] => some (.ins .inserted)
  | .ins .., ["rep", v] => (parseInt? v).map (fun v => .ins (.replaced v))
  | .ins .., ["err"] => some (.ins .wrongGen)
  | .entry .., ["err"] => some (.entry .wrongGen)
  | .entry .., ["occ", v] => (parseInt? v).map (fun v => .entry (.occupied v))
  | .entry .., ["vac"] => some (.entry .vacant)
  | .count _, ["n", n] => n.toNat?.map .nat
  | .mask _, "ids" :: l => (mapM? String.toNat? l).map .ids
  | .drain .., "pairs" :: l => (mapM? parsePair? l).map .pairs
  | .events _, "ev" :: l => (mapM? parseCEv? l).map .events
  | .slice _, ["slice", "none"] => some (.slice .none)
  | .slice _, "slice" :: "opt" :: len :: l => do
    pure (.slice (.opt (← len.toNat?) (← mapM? parseOccOpt? l)))
  | .slice _, "slice" :: "dflt" :: len :: nd :: l => do
    pure (.slice (.dflt (← len.toNat?) (← mapM? parsePair? l) (← nd.toNat?)))
  | .slice _, "slice" :: "dense" :: l => (mapM? parseInt? l).map (fun l => .slice (.dense l))
  | .lazyIns .., ["q", t] | .lazyInsAll .., ["q", t] | .lazyRem .., ["q", t] | .lazyExec _, ["q", t] =>
    t.toNat?.map .queued
  | .rjoin .., "items" :: l => (mapM? parseItem? l).map .items
  | .dropWorld, ["dropped"] => some .dropped
  | _, _ => none

def showOptInt : Option Int → String
  | some v => s!"some {v}"
  | none => "none"

def showCEv : CEv → String
  | .inserted i => s!"I{i}"
  | .modified i => s!"M{i}"
  | .removed i => s!"R{i}"

def showWRes : WRes → String
  | .e r => showERes r
  | .unit => "ok"
  | .opt v => showOptInt v
  | .bool true => "t"
  | .bool false => "f"
  | .ins .inserted => "ins"
  | .ins (.replaced v) => s!"rep {v}"
  | .ins .wrongGen => "err"
  | .entry .wrongGen => "err"
  | .entry (.occupied v) => s!"occ {v}"
  | .entry .vacant => "vac"
  | .nat n => s!"n {n}"
  | .ids l => " ".intercalate ("ids" :: l.map toString)
  | .pairs l => " ".intercalate ("pairs" :: l.map (fun p => s!"{p.1}:{p.2}"))
  | .events l => " ".intercalate ("ev" :: l.map showCEv)
  | .slice .none => "slice none"
  | .slice (.opt len l) => " ".intercalate ("slice" :: "opt" :: toString len :: l.map (fun p => s!"{p.1}:" ++ (match p.2 with | some v => toString v | none => "-")))
  | .slice (.dflt len l nd) => " ".intercalate ("slice" :: "dflt" :: toString len :: toString nd :: l.map (fun p => s!"{p.1}:{p.2}"))
  | .slice (.dense l) => " ".intercalate ("slice" :: "dense" :: l.map toString)
  | .acts l => " ".intercalate ("acts" :: l.map toString)
  | .items l => " ".intercalate ("items" :: l.map (fun p => s!"{p.1}:" ++ (match p.2 with
      | .skip => "-" | .val v => s!"v={v}" | .opt (some v) => s!"some={v}" | .opt none => "none")))
  | .queued t => s!"q {t}"
  | .dropped => "dropped"
  | .noStore => "nostore"
  | .skip => "skip"
  | .panic why => "panic(" ++ why ++ ")"

/-- Equality of results as far as the protocol shows them. -/
def wresAgree (op : WOp) (impl model : WRes) : Bool :=
  match op, impl, model with
  | .ent eop, .e a, .e b => eresAgree eop a b
  | _, a, b => a == b

/-- The op kind (first token) used for per-property projections. -/
def opKind (l : String) : String := (toks l).head?.getD ""

end SpecsModel.Driver
