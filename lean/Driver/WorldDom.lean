/- Driver domain `world`: entity ops (storages are added by Model/World). -/
import Driver.Proto
namespace SpecsModel.Driver

def parseEOp (ts : List String) : Option EOp :=
  match ts with
  | ["create", "now"] => some (.createNow false)
  | ["create", "now_dropped"] => some (.createNow true)
  | ["create", "atomic"] => some (.createAtomic false)
  | ["create", "atomic_dropped"] => some (.createAtomic true)
  | ["create_iter", "now", n] => n.toNat?.map .createIterNow
  | ["create_iter", "atomic", n] => n.toNat?.map .createIterAtomic
  | ["del_now", h] => (parseSlot? h).map .delNow
  | "del_batch" :: hs => (mapM? parseSlot? hs).map .delBatch
  | ["del_atomic", h] => (parseSlot? h).map .delAtomic
  | ["del_all"] => some .delAll
  | ["maintain"] => some .merge
  | ["alive", h] => (parseSlot? h).map .alive
  | ["walive", h] => (parseSlot? h).map .walive
  | ["ejoin"] => some .ejoin
  | _ => none

def parseERes (op : EOp) (ts : List String) : Option ERes :=
  match op, ts with
  | _, ["panic"] => some (.panic "impl")
  | _, ["skip"] => some .skip
  | .createNow _, ["e", e] | .createAtomic _, ["e", e] => (parseEntity? e).map .ent
  | .createIterNow _, "es" :: es | .createIterAtomic _, "es" :: es | .ejoin, "es" :: es =>
    (mapM? parseEntity? es).map .ents
  | .delNow _, ["ok"] | .delAtomic _, ["ok"] | .delBatch _, ["ok"] => some (.kill .ok)
  | .delNow _, ["err"] | .delAtomic _, ["err"] => some (.kill (.err 0))
  | .delBatch _, ["err", p] => p.toNat?.map (fun p => .kill (.err p))
  | .delAll, ["ok"] | .merge, ["ok"] => some .unit
  | .alive _, ["t"] | .walive _, ["t"] => some (.bool true)
  | .alive _, ["f"] | .walive _, ["f"] => some (.bool false)
  | _, _ => none

def showERes : ERes → String
  | .ent e => "e " ++ showEntity e
  | .ents es => " ".intercalate ("es" :: es.map showEntity)
  | .kill .ok => "ok"
  | .kill (.err p) => s!"err {p}"
  | .bool true => "t"
  | .bool false => "f"
  | .unit => "ok"
  | .skip => "skip"
  | .panic why => "panic(" ++ why ++ ")"

/-- Equality of results as far as the protocol shows them (del_now/del_atomic do not report a
    position). -/
def eresAgree (op : EOp) (impl model : ERes) : Bool :=
  match op, impl, model with
  | .delNow _, .kill (.err _), .kill (.err _) => true
  | .delAtomic _, .kill (.err _), .kill (.err _) => true
  | _, a, b => a == b

end SpecsModel.Driver
