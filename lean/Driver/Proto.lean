/- Line-protocol helpers shared by all driver domains. -/
import SpecsModel.Model.EWorld
namespace SpecsModel.Driver

def splitArrow (line : String) : String × String :=
  match line.splitOn " => " with
  | [a] => (a, "")
  | a :: rest => (a, " => ".intercalate rest)
  | [] => ("", "")

def toks (s : String) : List String :=
  (s.trimAscii.toString.splitOn " ").filter (· ≠ "")

def parseInt? (s : String) : Option Int :=
  if s.startsWith "-" then (s.drop 1).toString.toNat?.map (fun n => - (n : Int))
  else s.toNat?.map (fun n => (n : Int))

/-- `i:g` -/
def parseEntity? (s : String) : Option Entity :=
  match s.splitOn ":" with
  | [i, g] => do
    let i ← i.toNat?
    let g ← parseInt? g
    pure ⟨i, g⟩
  | _ => none

def parseSlot? (s : String) : Option Nat :=
  if s.startsWith "@" then (s.drop 1).toString.toNat? else none

def showEntity (e : Entity) : String := s!"{e.id}:{e.gen}"

def mapM? {α β} (f : α → Option β) : List α → Option (List β)
  | [] => some []
  | x :: xs => do
    let y ← f x
    let ys ← mapM? f xs
    pure (y :: ys)

end SpecsModel.Driver
