/-
  Line-protocol driver (lean_exe `specs_model`).
  stdin:  `domain <name>` then, per case, `case <id>` followed by `op => res` lines produced by
          the Rust harness from the real implementation.
  stdout: `DIFF …` for the first line of a case on which model and implementation disagree,
          `MON <Cxx> …` for the first line on which a property monitor rejects the
          implementation's own transcript, and a `STATS` trailer.
-/
import Driver.WorldDom
import Std.Data.HashSet
open SpecsModel SpecsModel.Driver

structure WState where
  caseId : String := ""
  lineNo : Nat := 0
  model : EWorld := {}
  diverged : Bool := false
  mon : EntSpec := {}
  monLog : Array Entity := #[]
  monDead : Bool := false
  -- statistics
  cases : Nat := 0
  lines : Nat := 0
  diffs : Nat := 0
  mons : Nat := 0
  reuses : Nat := 0
  errKills : Nat := 0
  staleQueries : Nat := 0
  caseHash : UInt64 := 0
  caseNontrivial : Bool := false
  distinct : Std.HashSet UInt64 := {}
  distinctNontrivial : Nat := 0

/-- Close the current case: count it if its op script is new and it hit an interesting branch
    (index reuse, failed deletion, query through a dead handle). -/
def WState.closeCase (st : WState) : WState :=
  if st.lineNo = 0 then st
  else if st.distinct.contains st.caseHash then st
  else { st with distinct := st.distinct.insert st.caseHash,
                 distinctNontrivial := st.distinctNontrivial + (if st.caseNontrivial then 1 else 0) }

def worldLine (st : WState) (line : String) : WState × List String :=
  let (l, r) := splitArrow line
  match toks l with
  | ["case", id] =>
    let st := st.closeCase
    ({ st with caseHash := 7, caseNontrivial := false, caseId := id, lineNo := 0, model := {}, diverged := false, mon := {},
               monLog := #[], monDead := false, cases := st.cases + 1 }, [])
  | lt =>
    let st := { st with lineNo := st.lineNo + 1, lines := st.lines + 1,
                        caseHash := mixHash st.caseHash (hash l) }
    match parseEOp lt with
    | none => (st, [s!"BAD case={st.caseId} line={st.lineNo} unparsable op: {l}"])
    | some op =>
      match parseERes op (toks r) with
      | none => (st, [s!"BAD case={st.caseId} line={st.lineNo} unparsable result: {r}"])
      | some ires =>
        -- 1. model vs implementation
        let (st, out1) :=
          if st.diverged then (st, [])
          else
            let (m', mres) := st.model.step op
            if eresAgree op ires mres then ({ st with model := m' }, [])
            else
              ({ st with diverged := true, diffs := st.diffs + 1 },
               [s!"DIFF case={st.caseId} line={st.lineNo} op=[{l}] impl=[{r}] model=[{showERes mres}]"])
        -- 2. property monitors on the implementation's transcript
        let (st, out2) :=
          if st.monDead then (st, [])
          else if !resShapeOk op ires then
            ({ st with monDead := true, mons := st.mons + 1 },
             [s!"MON C00 case={st.caseId} line={st.lineNo} panic or malformed result op=[{l}] impl=[{r}]"])
          else
            let (evs, log') := entEvents st.monLog op ires
            let st := evs.foldl (fun st ev => match ev with
              | .created e => if e.gen > 1 then { st with reuses := st.reuses + 1, caseNontrivial := true } else st
              | .kill _ (.err _) => { st with errKills := st.errKills + 1, caseNontrivial := true }
              | .killAtomic _ false => { st with errKills := st.errKills + 1, caseNontrivial := true }
              | .isAlive _ false => { st with staleQueries := st.staleQueries + 1, caseNontrivial := true }
              | _ => st) st
            match st.mon.run evs with
            | .ok s' => ({ st with mon := s', monLog := log' }, [])
            | .error why =>
              ({ st with monDead := true, mons := st.mons + 1 },
               [s!"MON {why.take 3} case={st.caseId} line={st.lineNo} {why} op=[{l}] impl=[{r}]"])
        (st, out1 ++ out2)

partial def worldLoop (h : IO.FS.Stream) (st : WState) : IO WState := do
  let line ← h.getLine
  if line.isEmpty then return st
  let line := line.trimAscii.toString
  if line.isEmpty || line.startsWith "#" then worldLoop h st
  else
    let (st', outs) := worldLine st line
    for o in outs do IO.println o
    worldLoop h st'

def main : IO Unit := do
  let stdin ← IO.getStdin
  let first ← stdin.getLine
  match toks first with
  | ["domain", "world"] =>
    let st ← worldLoop stdin {}
    let st := st.closeCase
    IO.println s!"STATS cases={st.cases} lines={st.lines} diffs={st.diffs} mons={st.mons} reuses={st.reuses} err_kills={st.errKills} dead_queries={st.staleQueries} distinct={st.distinct.size} distinct_nontrivial={st.distinctNontrivial}"
  | _ => IO.println s!"BAD unknown domain line: {first}"
