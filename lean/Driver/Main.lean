/-
  Line-protocol driver (lean_exe `specs_model`).
  stdin:  `domain <name>` then, per case, `case <id>` followed by `op => res` lines produced by
          the Rust harness from the real implementation.
  stdout: `DIFF …` for the first line of a case on which model and implementation disagree,
          `MON <Cxx> …` for the first line on which a property monitor rejects the
          implementation's own transcript, and a `STATS` trailer.
-/
import Driver.WorldDom
import SpecsModel.Model.Fault
import Driver.DispatchDom
import Driver.DeriveDom
import Driver.SaveLoadDom
import Driver.ChangeSetDom
import Driver.ConcDom
import Driver.JoinDom
import SpecsModel.Lemmas.LedgerWorld
import Std.Data.HashSet
import Std.Data.HashMap
open SpecsModel SpecsModel.Driver

def modelFuel : Nat := 1000000

structure WState where
  caseId : String := ""
  lineNo : Nat := 0
  model : World := {}
  diverged : Bool := false
  pending : List (Nat × WOp × WRes) := []   -- model's nested results still to be matched
  mon : WSpec := {}
  monDead : Bool := false
  afterMaint : Bool := false   -- between a maintain that had queued actions and the next mutating op
  afterRjoin : Bool := false   -- between a restricted join and the next mutating op
  pendingFault : Option Nat := none  -- C19: `fault N` seen, applies to the next operation
  faults : Nat := 0
  leaked : Nat := 0
  -- stand-alone C08 ledger (conclusion of `C08.ledger_balances` evaluated on the implementation's transcript;
  -- independent of the map monitor, so it keeps running after that one has rejected the case)
  lgHeld : List Int := []       -- non-zero tokens moved in and not yet handed back / destroyed
  lgDeferred : List Int := []   -- destroyed list of the last top-level line (settled after its nested lines)
  lgDead : Bool := false        -- rejected already, or a destructor fault was injected (C19's business)
  lgChecks : Nat := 0
  -- stand-alone C12 replay check (membership reconstructed from the event stream vs the mask the implementation reports)
  evMember : Std.HashMap Nat (List Nat) := {}   -- storage kind -> membership replayed from its events
  evMask : Std.HashMap Nat (List Nat) := {}     -- storage kind -> mask reported since the last `events` line
  evOff : List Nat := []                        -- storages taken out (emission toggled, bulk clear)
  evDead : Bool := false
  evChecks : Nat := 0
  afterPurge : Bool := false   -- between an op that makes deletions effective and the next mutating op
  afterDeadOp : Bool := false  -- between a mutating storage access through a dead handle and the next mutating op
  -- stand-alone C01 check: every handle returned by a creation of this case, pairwise distinct
  c01Seen : Std.HashSet (Nat × Int) := {}
  /-- a destructor panic has been injected in this case: the event replay goes on (an entity purge writes `Removed` before
      it destroys the component, so the events still reproduce the membership) and its verdicts are C19 verdicts too -/
  faultSeen : Bool := false
  /-- a top-level line of this case carried ledger information (`! d …`): the harness runs in ledger mode -/
  lgSeen : Bool := false
  /-- `lazy_flag` actions queued / expected to have run (every top-level `maintain` that returns (`=> acts …`) has run the whole queue) -/
  flagQ : Nat := 0
  flagRan : Nat := 0
  /-- stand-alone purge monitor (C05): indices of the entity join printed by the current probe group -/
  c05Alive : Option (List Nat) := none
  c05Dead : Bool := false
  c01Dead : Bool := false
  -- statistics
  cases : Nat := 0
  lines : Nat := 0
  diffs : Nat := 0
  mons : Nat := 0
  reuses : Nat := 0
  errKills : Nat := 0
  deadAccess : Nat := 0
  nested : Nat := 0
  eventsSeen : Nat := 0
  destroyedSeen : Nat := 0
  opKinds : Std.HashMap String Nat := {}
  caseHash : UInt64 := 0
  caseNontrivial : Bool := false
  distinct : Std.HashSet UInt64 := {}
  distinctNontrivial : Nat := 0

/-- Removes one occurrence of each element of `out` from `held`; the first element that is not there is returned. -/
def lgRemove (held out : List Int) : List Int × Option Int :=
  out.foldl (fun (acc : List Int × Option Int) x =>
    match acc.2 with
    | some _ => acc
    | none => if acc.1.contains x then (acc.1.erase x, none) else (acc.1, some x)) (held, none)

/-- Settles the deferred destroyed list. -/
def WState.lgSettle (st : WState) (what : String) : WState × List String :=
  if st.lgDead then (st, []) else
  match lgRemove st.lgHeld st.lgDeferred with
  | (held, none) => ({ st with lgHeld := held, lgDeferred := [] }, [])
  | (_, some x) =>
    ({ st with lgDead := true, mons := st.mons + 1 },
     [s!"MON C08 case={st.caseId} line={st.lineNo} C08 value {x} was destroyed although it is not held (destroyed twice, destroyed after being handed back, or never moved in) op=[{what}] impl=[]"])

/-- Close the current case: count it if its op script is new and it hit an interesting branch
    (index reuse, failed deletion, access through a dead handle, nested script, event, destruction). -/
def WState.closeCase (st : WState) : WState × List String :=
  if st.lineNo = 0 then (st, []) else
  -- end-of-case checks
  let (st, outs0) := st.lgSettle "end-of-case"
  let (st, outs) :=
    if st.monDead then (st, []) else
    match st.mon.finishMaintain with
    | .ok _ => (st, [])
    | .error why =>
      ({ st with mons := st.mons + 1 }, [s!"MON {why.take 3} case={st.caseId} line={st.lineNo} {why} op=[end-of-case] impl=[]"])
  let (st, outs2) :=
    if !st.diverged && !st.pending.isEmpty then
      ({ st with diffs := st.diffs + 1 },
       [s!"DIFF case={st.caseId} line={st.lineNo} op=[end-of-case] impl=[] model=[{st.pending.length} more nested results]"])
    else (st, [])
  let st :=
    if st.distinct.contains st.caseHash then st
    else { st with distinct := st.distinct.insert st.caseHash,
                   distinctNontrivial := st.distinctNontrivial + (if st.caseNontrivial then 1 else 0) }
  (st, outs0 ++ outs ++ outs2)

def splitLedger (r : String) : String × Option (List Int) :=
  match r.splitOn " ! d" with
  | [a] => (a, none)
  | [a, d] => (a, (mapM? parseInt? (toks d)))
  | _ => (r, none)

def sortInts (l : List Int) : List Int := l.mergeSort (· ≤ ·)
def sortNats (l : List Nat) : List Nat := l.mergeSort (· ≤ ·)

/-- Under an armed fault both sides must report the panic (reasons differ textually). -/
def faultAgree (op : WOp) (impl model : WRes) : Bool :=
  match impl, model with
  | .panic _, .panic _ => true
  | a, b => wresAgree op a b

/-- Is this op/result pair "interesting" for coverage accounting? -/
def noteCoverage (st : WState) (op : WOp) (res : WRes) : WState :=
  let dead := fun (h : Nat) =>
    match resolve st.mon.log h with
    | some e => !st.mon.ent.live.contains e
    | none => false
  let st := match op with
    | .get _ h | .getMut _ h _ _ | .has _ h | .ins _ h _ | .rem _ h | .entry _ h _ | .mutOrDefault _ h _ _
    | .ent (.alive h) | .ent (.delNow h) | .ent (.delAtomic h) =>
      if dead h then { st with deadAccess := st.deadAccess + 1, caseNontrivial := true } else st
    | _ => st
  match res with
  | .e (.ent e) => if e.gen > 1 then { st with reuses := st.reuses + 1, caseNontrivial := true } else st
  | .e (.ents es) =>
    if es.any (fun e => e.gen > 1) then { st with reuses := st.reuses + 1, caseNontrivial := true } else st
  | .e (.kill (.err _)) => { st with errKills := st.errKills + 1, caseNontrivial := true }
  | .events l => if l.isEmpty then st else { st with eventsSeen := st.eventsSeen + l.length, caseNontrivial := true }
  | _ => st

/-- `dump k [ i=v … ] k [ … ]` -/
def parseDump (ts : List String) : Option (List (Nat × List (Nat × Int))) :=
  let rec go (ts : List String) (cur : Option (Nat × List (Nat × Int))) (acc : List (Nat × List (Nat × Int))) (fuel : Nat) :
      Option (List (Nat × List (Nat × Int))) :=
    match fuel with
    | 0 => none
    | fuel + 1 =>
      match ts, cur with
      | [], none => some acc.reverse
      | [], some _ => none
      | "]" :: rest, some (k, l) => go rest none ((k, l.reverse) :: acc) fuel
      | t :: rest, some (k, l) =>
        (match t.splitOn "=" with
         | [i, v] =>
           (match i.toNat?, parseInt? v with
            | some i, some v => go rest (some (k, (i, v) :: l)) acc fuel
            | _, _ => none)
         | _ => none)
      | k :: "[" :: rest, none =>
        (match k.toNat? with
         | some k => go rest (some (k, [])) acc fuel
         | none => none)
      | _, none => none
  match ts with
  | "dump" :: rest => go rest none [] (rest.length + 2)
  | _ => none

def showDump (d : List (Nat × List (Nat × Int))) : String :=
  " ".intercalate ("dump" :: d.map (fun kv => s!"{kv.1} [ " ++ " ".intercalate (kv.2.map (fun p => s!"{p.1}={p.2}")) ++ " ]"))

def worldLine (st : WState) (line : String) : WState × List String :=
  let (l0, r0) := splitArrow line
  match toks l0 with
  | ["case", id] =>
    let (st, outs) := st.closeCase
    ({ st with caseHash := 7, caseNontrivial := false, caseId := id, lineNo := 0, model := {},
               diverged := false, pending := [], mon := {}, monDead := false, lgHeld := [], lgDeferred := [], lgDead := false, evMember := {}, evMask := {}, evOff := [], evDead := false, afterPurge := false, afterDeadOp := false, c01Seen := {}, c01Dead := false, c05Alive := none, c05Dead := false, flagQ := 0, flagRan := 0, lgSeen := false, faultSeen := false, afterMaint := false, afterRjoin := false, pendingFault := none, leaked := st.leaked + st.mon.leaked, cases := st.cases + 1 }, outs)
  | lt =>
    let (r, ledger) := splitLedger r0
    let st := { st with lineNo := st.lineNo + 1, lines := st.lines + 1,
                        caseHash := mixHash st.caseHash (hash l0) }
    -- nested line?
    let (nestedTag, lt) := match lt with
      | "in" :: t :: rest => (t.toNat?, rest)
      | _ => (none, lt)
    -- `gget` / `ggetmut` / `gins` / `grem`: the same operations through the generic storage traits — same model ops
    -- (`uins`: the insertion executed from a scope guard while a destructor panic unwinds — an insertion all the same)
    let lt := match lt with
      | h :: rest => if ["gget", "ggetmut", "gins", "grem", "lget", "lgetmut", "pejoin", "uins"].contains h then (h.drop 1).toString :: rest
                   else if h == "lazy_create_nobuild" then "lazy_create" :: rest else lt
      | [] => lt
    -- `ldrain2 k @h`: two look-ups of the same entity through a draining lending join. The first one is the model's
    -- `rem`; the component has then been moved out, so the second must not produce it again (C08: no operation exposes
    -- a value that has already been moved out) — the crate panics there, `none` after an absent first answer
    let (lt, r, drainOut) : List String × String × List String :=
      match lt with
      | "ldrain2" :: rest =>
        (match r.splitOn " / " with
         | [first, second] =>
           let ok2 := if first.startsWith "some" then second == "panic" else second == "none"
           ("rem" :: rest, first,
            if ok2 then [] else
              [s!"MON C08 case={st.caseId} line={st.lineNo} C08 a draining lending join handed out the component of the same entity a second time (a value that had already been moved out) op=[{" ".intercalate lt}] impl=[{r}]"])
         | _ => ("rem" :: rest, r, []))
      | ["lentry2", k, h, v] =>
        -- two look-ups of one entity through `entries().lend_join()`: the first is the model's `entry_or k h v 0`; the
        -- second must see the component the first one left (C06: a mutation made through an item of a lending join is
        -- visible to a later look-up of the same join; the entry reports present / absent correctly)
        (match r.splitOn " / " with
         | [first, second] =>
           let want := if first == "err" then "none"
                       else if first == "vac" then s!"occ {v}"
                       else first        -- `occ <old>`: or_insert keeps the old value
           (["entry_or", k, h, v, "0"], first,
            if second == want then [] else
              [s!"MON C06 case={st.caseId} line={st.lineNo} C06 second look-up through entries().lend_join() after or_insert through the first: {second}, expected {want} op=[{" ".intercalate lt}] impl=[{r}]"])
         | _ => (["entry_or", k, h, v, "0"], r, []))
      | _ => (lt, r, [])
    let st := if drainOut.isEmpty then st else { st with mons := st.mons + 1 }
    -- `<id>:!retargeted` (harness oracle inside a restricted join): after a successful `get_other_mut` the item no longer
    -- read its own component
    let (r, drainOut) : String × List String :=
      let ts := toks r
      let bad := ts.filter (·.endsWith ":!retargeted")
      if bad.isEmpty then (r, drainOut) else
        (" ".intercalate (ts.filter (fun t => !t.endsWith ":!retargeted")),
         drainOut ++ [s!"MON C13 case={st.caseId} line={st.lineNo} C13 after a look-up of another entity through a restricted item, the item does not read its own component any more ({bad}) op=[{" ".intercalate lt}] impl=[{r}]"])
    let l := " ".intercalate lt
    -- zero-sized component values are counted by the harness (they are indistinguishable): a mismatch reported with
    -- `drop_world` is a C08 verdict of its own; the remaining tokens are the ordinary result
    let (r, zstOut) :=
      match toks r with
      | "dropped" :: a :: b :: rest =>
        if a.startsWith "zst_made=" && b.startsWith "zst_dropped=" then
          (" ".intercalate ("dropped" :: rest),
           [s!"MON C08 case={st.caseId} line={st.lineNo} C08 zero-sized component values: {a} {b} when the world was dropped (each value constructed must be destroyed exactly once) op=[{l}] impl=[{r}]"])
        else (r, [])
      | _ => (r, [])
    let st := if zstOut.isEmpty then st else { st with mons := st.mons + 1 }
    let (st', outs') : WState × List String := (
    -- C19 control lines -------------------------------------------------------------------
    match lt, toks r with
    | ["fault", n], _ =>
      (match n.toNat? with
       | some n => ({ st with pendingFault := some n, faults := st.faults + 1, caseNontrivial := true, lgDead := true, faultSeen := true,
                              mon := { st.mon with fault := some n } }, [])
       | none => (st, [s!"BAD case={st.caseId} line={st.lineNo} unparsable fault line"]))
    | ["dump"], rts =>
      (match parseDump rts with
       | none => (st, [s!"BAD case={st.caseId} line={st.lineNo} unparsable dump: {r}"])
       | some d =>
         let (st, out1) :=
           if st.diverged then (st, []) else
           let md := World.dump st.model
           if md == d then (st, [])
           else ({ st with diverged := true, diffs := st.diffs + 1 },
                 [s!"DIFF case={st.caseId} line={st.lineNo} op=[dump] impl=[{r}] model=[{showDump md}]"])
         let (st, out2) :=
           if st.monDead then (st, []) else
           match st.mon.dumpLine d with
           | .ok s' => ({ st with mon := s' }, [])
           | .error why =>
             ({ st with monDead := true, mons := st.mons + 1 },
              [s!"MON {why.take 3} case={st.caseId} line={st.lineNo} {why} op=[dump] impl=[{r}]"])
         (st, out1 ++ out2))
    | ["lazy_flag"], _ => ({ st with flagQ := st.flagQ + 1, caseNontrivial := true }, [])
    | ["lazy_flag_check"], rts =>
      -- outside the model (the action has no effect on the world): a queued action runs in the first `maintain` that
      -- gets as far as the lazy queue — not in one whose purge panicked, and not never
      if st.diverged && st.monDead then (st, []) else
      if rts == ["q", toString st.flagQ, "ran", toString st.flagRan] then (st, [])
      else ({ st with mons := st.mons + 2 },
            [s!"MON C19 case={st.caseId} line={st.lineNo} C19 lazily queued actions after a caught destructor panic inside maintain: expected q {st.flagQ} ran {st.flagRan} (a queued action runs in the first maintain that reaches the lazy queue) op=[lazy_flag_check] impl=[{r}]",
             s!"MON C09 case={st.caseId} line={st.lineNo} C09 a queued action did not run exactly once in the next maintain that reached the lazy queue: expected q {st.flagQ} ran {st.flagRan} op=[lazy_flag_check] impl=[{r}]"])
    | ["lazy_panic"], _ =>
      -- a panicking lazy action ends the comparison of this case (outside the model; see the harness): every monitor off
      ({ st with diverged := true, monDead := true, lgDead := true, evDead := true, c01Dead := true, caseNontrivial := true }, [])
    | ["lazy_probe"], rts =>
      -- after the caught panic of a lazy action the world must still run lazy actions (C19: "remains usable"; C09)
      if rts == ["ran"] then (st, [])
      else ({ st with mons := st.mons + 2 },
            [s!"MON C19 case={st.caseId} line={st.lineNo} C19 after a caught panic inside a lazily executed action a newly queued action is not run by the next maintain op=[lazy_probe] impl=[{r}]",
             s!"MON C09 case={st.caseId} line={st.lineNo} C09 a queued action was not run by the next maintain (after a caught panic of an earlier action) op=[lazy_probe] impl=[{r}]"])
    | ["entry_far", _k, v], rts =>
      -- probe outside the model (C08): `entry_inner(2^24+1).or_insert(v)`; the mask refuses the index, the value handed
      -- over must be destroyed exactly once all the same (unwind guard of the insertion). Ledger bookkeeping only.
      (match parseInt? v with
       | none => (st, [s!"BAD case={st.caseId} line={st.lineNo} unparsable entry_far line"])
       | some v =>
         if rts == ["skip"] || rts == ["nostore"] || st.lgDead || ledger.isNone then (st, []) else
         let (st, o1) := st.lgSettle l
         if st.lgDead then (st, o1) else
         ({ st with lgHeld := st.lgHeld ++ nz [v], lgDeferred := nz (ledger.getD []), lgChecks := st.lgChecks + 1,
                    caseNontrivial := true }, o1))
    | _, _ =>
    match parseWOp lt with
    | none => (st, [s!"BAD case={st.caseId} line={st.lineNo} unparsable op: {l0}"])
    | some op =>
      match parseWRes op (toks r) with
      | none => (st, [s!"BAD case={st.caseId} line={st.lineNo} unparsable result: {r} (op {l})"])
      | some ires =>
        let kind := opKind l
        let faultNow := st.pendingFault
        let st := if nestedTag.isNone && lt == ["maintain"] && (toks r).head? == some "acts" then { st with flagRan := st.flagQ } else st
        let st := { st with opKinds := st.opKinds.insert kind (st.opKinds.getD kind 0 + 1) }
        let st := noteCoverage st op ires
        let st := match ledger with
          | some d => if d.isEmpty then st else { st with destroyedSeen := st.destroyedSeen + d.length, caseNontrivial := true }
          | none => st
        -- 1. model vs implementation
        let (st, out1) :=
          if st.diverged then (st, [])
          else
            match nestedTag with
            | some tag =>
              let st := { st with nested := st.nested + 1, caseNontrivial := true }
              (match st.pending with
               | (mtag, _, mres) :: rest =>
                 if mtag == tag && wresAgree op ires mres then ({ st with pending := rest }, [])
                 else ({ st with diverged := true, diffs := st.diffs + 1 },
                       [s!"DIFF case={st.caseId} line={st.lineNo} op=[in {tag} {l}] impl=[{r}] model=[in {mtag} … {showWRes mres}]"])
               | [] => ({ st with diverged := true, diffs := st.diffs + 1 },
                        [s!"DIFF case={st.caseId} line={st.lineNo} op=[in {tag} {l}] impl=[{r}] model=[no nested op expected]"]))
            | none =>
              if !st.pending.isEmpty then
                ({ st with diverged := true, diffs := st.diffs + 1 },
                 [s!"DIFF case={st.caseId} line={st.lineNo} op=[{l}] impl=[{r}] model=[{st.pending.length} more nested results expected before this line]"])
              else
              let before := st.model.ledger.length
              let (m', mres) := match st.pendingFault with
                | some n => World.stepFault modelFuel st.model op n (ledger.getD [])
                | none => World.step modelFuel st.model op
              let mdestroyed := sortInts (m'.ledger.take (m'.ledger.length - before))
              let m'' := { m' with trace := [] }
              if !(if st.pendingFault.isSome then faultAgree op ires mres else wresAgree op ires mres) then
                ({ st with diverged := true, diffs := st.diffs + 1 },
                 [s!"DIFF case={st.caseId} line={st.lineNo} op=[{l}] impl=[{r}] model=[{showWRes mres}]"])
              else
                match ledger with
                | some d =>
                  if sortInts d == mdestroyed then ({ st with model := m'', pending := m'.trace.reverse }, [])
                  else ({ st with diverged := true, diffs := st.diffs + 1 },
                        [s!"DIFF case={st.caseId} line={st.lineNo} op=[{l}] impl=[destroyed {sortInts d}] model=[destroyed {mdestroyed}]"])
                | none => ({ st with model := m'', pending := m'.trace.reverse }, [])
        -- 2. property monitors on the implementation's transcript
        let (st, out2) :=
          if st.monDead then (st, [])
          else
            let step1 := match nestedTag with
              | some tag => st.mon.nestedLine tag op ires
              | none => st.mon.topLine op ires
            let step2 := match step1, ledger, nestedTag with
              | .ok s, some d, none => (match s.destroyed d with | .ok s => s.checkLeak | .error w => .error w)
              | x, _, _ => x
            let isProbe := match op with
              | .get .. | .has .. | .count _ | .isEmpty _ | .mask _ | .slice _ | .events _
              | .ent (.alive _) | .ent (.walive _) | .ent .ejoin => true
              | _ => false
            let hadQueue := !st.mon.queue.isEmpty
            let afterMaint := match op, nestedTag with
              | .ent .merge, none => hadQueue
              | _, some _ => st.afterMaint
              | _, none => if isProbe then st.afterMaint else false
            let afterRjoin := match op, nestedTag with
              | .rjoin .., _ => true
              | _, _ => if isProbe then st.afterRjoin else false
            let afterPurge := match op, nestedTag with
              | .ent .merge, none | .ent (.delNow _), none | .ent (.delBatch _), none | .ent .delAll, none => true
              | _, some _ => st.afterPurge
              | _, none => if isProbe then st.afterPurge else false
            let dead := fun (h : Nat) =>
              match resolve st.mon.log h with
              | some e => !st.mon.ent.live.contains e
              | none => false
            let mutatingThroughDead := match op with
              | .getMut _ h _ _ | .ins _ h _ | .rem _ h | .entry _ h _ | .mutOrDefault _ h _ _ => dead h
              | _ => false
            let afterDeadOp := if mutatingThroughDead then true else if isProbe then st.afterDeadOp else false
            let st := { st with afterMaint := afterMaint, afterRjoin := afterRjoin, afterPurge := afterPurge, afterDeadOp := afterDeadOp }
            let shown := match nestedTag with
              | some t => s!"in {t} {l}"
              | none => l
            match step2 with
            | .ok s' => ({ st with mon := s' }, [])
            | .error why =>
              let tag := (why.take 3).toString
              let extra :=
                if tag != "C09" && tag != "C00" && (nestedTag.isSome || st.afterMaint) then
                  [s!"MON C09 case={st.caseId} line={st.lineNo} C09 state seen by / left after the lazily queued actions of a maintain differs from queue-order semantics ({why}) op=[{shown}] impl=[{r}]"]
                else []
              let extra := extra ++
                (if tag == "C12" && st.afterRjoin then
                  [s!"MON C13 case={st.caseId} line={st.lineNo} C13 events emitted by a restricted join differ from 'exactly the items fetched mutably' ({why}) op=[{shown}] impl=[{r}]"]
                else []) ++
                (if tag == "C04" && st.afterPurge && (match op with | .mask _ | .get .. | .has .. | .count _ | .isEmpty _ | .slice _ => true | _ => false) then
                  [s!"MON C05 case={st.caseId} line={st.lineNo} C05 after a deletion took effect the components differ from 'the deleted entities lost theirs, every other entity kept its own' ({why}) op=[{shown}] impl=[{r}]"]
                else []) ++
                (if tag == "C04" && st.afterDeadOp && !mutatingThroughDead && (match op with | .mask _ | .get .. | .has .. | .count _ | .isEmpty _ | .slice _ => true | _ => false) then
                  [s!"MON C03 case={st.caseId} line={st.lineNo} C03 an operation through a dead handle, although answered as absent, changed the storage ({why}) op=[{shown}] impl=[{r}]"]
                else []) ++
                (if tag == "C12" && st.afterDeadOp && !mutatingThroughDead && (match op with | .events _ => true | _ => false) then
                  [s!"MON C03 case={st.caseId} line={st.lineNo} C03 an operation through a dead handle, although answered as absent, left a change event behind ({why}) op=[{shown}] impl=[{r}]"]
                else []) ++
                (if tag == "C03" && (match op with | .rjoin .. => true | _ => false) then
                  [s!"MON C13 case={st.caseId} line={st.lineNo} C13 a lookup of another entity through a restricted storage does not follow the storage rule (alive and member) ({why}) op=[{shown}] impl=[{r}]"]
                else []) ++
                (if tag == "C03" && mutatingThroughDead then
                  [s!"MON C04 case={st.caseId} line={st.lineNo} C04 an operation through a dead handle was not refused: the map from live entity to component changed without an operation on a live entity ({why}) op=[{shown}] impl=[{r}]"]
                else [])
              ({ st with monDead := true, mons := st.mons + 1 },
               [s!"MON {tag} case={st.caseId} line={st.lineNo} {why} op=[{shown}] impl=[{r}]"] ++ extra)
        let st := if nestedTag.isNone && faultNow.isSome then { st with pendingFault := none } else st
        -- 3. stand-alone ledger (C08), only in ledger mode (top-level lines carry `! d …`)
        let st := if ledger.isSome && nestedTag.isNone then { st with lgSeen := true } else st
        let (st, out3) :=
          if st.lgDead || !st.lgSeen || (ledger.isNone && nestedTag.isNone) then (st, []) else
          let shown := match nestedTag with
            | some t => s!"in {t} {l}"
            | none => l
          let (st, o1) := if nestedTag.isNone then st.lgSettle shown else (st, [])
          if st.lgDead then (st, o1) else
          let held := st.lgHeld ++ nz (opIn op ires)
          match lgRemove held (nz (opOut op ires)) with
          | (_, some x) =>
            ({ st with lgDead := true, mons := st.mons + 1 },
             o1 ++ [s!"MON C08 case={st.caseId} line={st.lineNo} C08 value {x} was handed back although it is not held (handed back twice, or after it was destroyed) op=[{shown}] impl=[{r}]"])
          | (held, none) =>
            let st := { st with lgHeld := held, lgChecks := st.lgChecks + 1,
                                lgDeferred := if nestedTag.isNone then nz (ledger.getD []) else st.lgDeferred }
            match op, nestedTag with
            | .dropWorld, none =>
              let (st, o2) := st.lgSettle shown
              if st.lgDead then (st, o1 ++ o2) else
              if st.lgHeld.isEmpty then (st, o1 ++ o2)
              else
                ({ st with lgDead := true, mons := st.mons + 1 },
                 o1 ++ o2 ++ [s!"MON C08 case={st.caseId} line={st.lineNo} C08 values {st.lgHeld} were moved into the world and neither handed back nor destroyed although the world was dropped (leak) op=[{shown}] impl=[{r}]"])
            | _, _ => (st, o1)
        -- 4. stand-alone event replay (C12): insertions and removals replayed over the (empty) membership at
        --    registration must reproduce the mask the implementation itself reports
        let isProbe4 := match op with
          | .get .. | .has .. | .count _ | .isEmpty _ | .mask _ | .slice _ | .events _
          | .ent (.alive _) | .ent (.walive _) | .ent .ejoin => true
          | _ => false
        -- a mask reported before a mutating op says nothing about the membership after it
        let st := if isProbe4 then st else { st with evMask := {} }
        let (st, out4) :=
          if st.evDead then (st, []) else
          match op, ires with
          | .emit k _, _ => ({ st with evOff := k :: st.evOff }, [])
          | .clear k, _ => ({ st with evOff := k :: st.evOff }, [])
          | .dropWorld, _ => ({ st with evDead := true }, [])
          | .mask k, .ids l => if nestedTag.isSome then (st, []) else ({ st with evMask := st.evMask.insert k l }, [])
          | .events k, .events evs =>
            if st.evOff.contains k || k < 6 then (st, []) else   -- kinds 6…11 are the tracking wrappers
            -- (a read inside a lazily executed script drains the same reader: its events are replayed too, but the mask
            --  comparison is made at top level only)
            let mem0 := st.evMember.getD k []
            let step := evs.foldl (fun (acc : List Nat × Option String) ev =>
              match acc.2 with
              | some _ => acc
              | none =>
                match ev with
                | .inserted i => if acc.1.contains i then (acc.1, some s!"an insertion event for index {i}, which the replayed membership already contains")
                                 else (i :: acc.1, none)
                | .removed i => if acc.1.contains i then (acc.1.erase i, none)
                                else (acc.1, some s!"a removal event for index {i}, which the replayed membership does not contain")
                | .modified _ => acc) (mem0, none)
            match step with
            | (_, some why) =>
              ({ st with evDead := true, mons := st.mons + 1 },
               [s!"MON C12 case={st.caseId} line={st.lineNo} C12 the event stream contains {why} op=[{l}] impl=[{r}]"])
            | (mem, none) =>
              let st := { st with evMember := st.evMember.insert k mem, evChecks := st.evChecks + 1 }
              match (if nestedTag.isSome then none else st.evMask.get? k) with
              | none => (st, [])
              | some ids =>
                let st := { st with evMask := st.evMask.erase k }
                if sortNats mem == sortNats ids then (st, [])
                else
                  ({ st with evDead := true, mons := st.mons + 1 },
                   [s!"MON C12 case={st.caseId} line={st.lineNo} C12 replaying the insertion and removal events gives membership {sortNats mem} but the storage reports {sortNats ids} op=[{l}] impl=[{r}]"] ++
                   (if st.faultSeen then
                     [s!"MON C19 case={st.caseId} line={st.lineNo} C19 after a caught destructor panic the events of a tracked storage no longer reproduce its membership: replay gives {sortNats mem}, the storage reports {sortNats ids} op=[{l}] impl=[{r}]"]
                    else []))
          | _, _ => (st, [])
        -- 5. stand-alone handle uniqueness (C01): independent of the timeline monitor, which stops at its first rejection
        let (st, out5) :=
          if st.c01Dead || !(["create", "createw", "create_iter", "lazy_create"].contains kind) then (st, []) else
          let news : List Entity := match ires with
            | .e (.ent e) => [e]
            | .e (.ents es) => es
            | _ => []
          let step := news.foldl (fun (acc : Std.HashSet (Nat × Int) × Option Entity) e =>
            match acc.2 with
            | some _ => acc
            | none => if acc.1.contains (e.id, e.gen) then (acc.1, some e) else (acc.1.insert (e.id, e.gen), none)) (st.c01Seen, none)
          match step with
          | (seen, none) => ({ st with c01Seen := seen }, [])
          | (_, some e) =>
            ({ st with c01Dead := true, mons := st.mons + 1 },
             [s!"MON C01 case={st.caseId} line={st.lineNo} C01 the handle {e.id}:{e.gen} was returned by an entity creation although an earlier creation of this world had returned it already op=[{l}] impl=[{r}]"])
        -- 6. stand-alone purge check (C05): a component can only belong to an entity that is not dead, so every index in a
        --    storage mask is an index of the entity join reported by the same probe group (entities awaiting maintain included)
        let st := if isProbe4 then st else { st with c05Alive := none }
        let (st, out6) :=
          if st.c05Dead || nestedTag.isSome then (st, []) else
          match op, ires with
          | .ent .ejoin, .e (.ents es) => ({ st with c05Alive := some (es.map (·.id)) }, [])
          | .mask k, .ids ms =>
            (match st.c05Alive with
             | none => (st, [])
             | some ids =>
               match ms.find? (fun i => !ids.contains i) with
               | none => (st, [])
               | some i =>
                 ({ st with c05Dead := true, mons := st.mons + 1 },
                  [s!"MON C05 case={st.caseId} line={st.lineNo} C05 storage {k} holds a component at index {i}, which no entity alive or awaiting maintain occupies: a deletion took effect without removing it op=[{l}] impl=[{r}]"]))
          | _, _ => (st, [])
        (st, out1 ++ out2 ++ out3 ++ out4 ++ out5 ++ out6))
    (st', zstOut ++ drainOut ++ outs')

partial def worldLoop (h : IO.FS.Stream) (st : WState) : IO WState := do
  let line ← h.getLine
  if line.isEmpty then return st
  let line := line.trimAscii.toString
  if line.isEmpty || line.startsWith "#" then worldLoop h st
  else
    let (st', outs) := worldLine st line
    for o in outs do IO.println o
    worldLoop h st'

def main : IO Unit := do
  let stdin ← IO.getStdin
  let first ← stdin.getLine
  match toks first with
  | ["domain", "world"] =>
    let st ← worldLoop stdin {}
    let (st, outs) := st.closeCase
    for o in outs do IO.println o
    let kinds := st.opKinds.toList.mergeSort (fun a b => a.1 ≤ b.1)
    let kindStr := " ".intercalate (kinds.map (fun p => s!"op_{p.1}={p.2}"))
    IO.println s!"STATS cases={st.cases} lines={st.lines} diffs={st.diffs} mons={st.mons} reuses={st.reuses} err_kills={st.errKills} dead_access={st.deadAccess} nested={st.nested} faults={st.faults} leaked={st.leaked + st.mon.leaked} events={st.eventsSeen} destroyed={st.destroyedSeen} distinct={st.distinct.size} distinct_nontrivial={st.distinctNontrivial} {kindStr}"
  | ["domain", "dispatch"] => runDispatch stdin
  | ["domain", "derive"] => runDerive stdin
  | ["domain", "saveload"] => runSaveLoad stdin
  | ["domain", "changeset"] => runChangeSet stdin
  | ["domain", "conc"] => runConc stdin
  | ["domain", "join"] => runJoin stdin
  | _ => IO.println s!"BAD unknown domain line: {first}"
