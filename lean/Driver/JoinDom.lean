/-
  Driver domain `join` (C06, C07): replays the transcript of harness `h_join` / `h_join_h3`.

  Per case: setup lines (`ents`, `store`, `bitset`) rebuild
    * the model world (`Join.JWorld`, Level A) and its hierarchical twin (`Join.LWorld`, Level B),
    * the monitor's own sparse world (`MWorld`), which evolves by the *spec* only.
  Per op line:
    * DIFF  — the model's result (Level-A join / Level-B keys and split trees, `runKeys`, `closeAll`)
              differs from the implementation's;
    * MON C06 / MON C07 — the implementation's result violates the spec, recomputed here from the
              definitions (filter of candidate indices by per-member membership, direct lookups),
              independently of the model code path.
-/
import Driver.Proto
import SpecsModel.Join.ParJoin
import Std.Data.HashMap
import Std.Data.HashSet
namespace SpecsModel.Driver.JoinDom
open SpecsModel Join

/-! ### small helpers -/

def digitsToNat (cs : List Char) : Nat := cs.foldl (fun n c => n * 10 + (c.toNat - '0'.toNat)) 0

def spanDigits (cs : List Char) : List Char × List Char := cs.span Char.isDigit

def M61 : Nat := 2305843009213693951   -- 2^61 - 1

def kindOfString : String → Option Kind
  | "vec" => some .vec | "dense" => some .dense | "hash" => some .hash | "btree" => some .btree
  | "dvec" => some .dvec | "null" => some .null | "flagged" => some .flagged
  | "flaggedd" => some .flaggedd | "cs" => some .cs
  | _ => none

/-- `lo-hi` or `i` -/
def parseRange (s : String) : Option (Nat × Nat) :=
  match s.splitOn "-" with
  | [a] => do let a ← a.toNat?; pure (a, a)
  | [a, b] => do let a ← a.toNat?; let b ← b.toNat?; pure (a, b)
  | _ => none

/-- `i:v` | `lo-hi:v` → (lo, hi, v) -/
def parseEntry (s : String) : Option (Nat × Nat × Int) :=
  match s.splitOn ":" with
  | [r, v] => do let (lo, hi) ← parseRange r; let v ← parseInt? v; pure (lo, hi, v)
  | _ => none

/-! ### member tokens -/

partial def parseBExpr : List Char → Option (BExpr × List Char)
  | 'b' :: cs => let (d, r) := spanDigits cs; if d.isEmpty then none else some (.set (digitsToNat d), r)
  | 'M' :: cs => let (d, r) := spanDigits cs; if d.isEmpty then none else some (.maskOf (digitsToNat d), r)
  | 'A' :: cs => do let (x, r) ← parseBExpr cs; let (y, r2) ← parseBExpr r; pure (.and x y, r2)
  | 'O' :: cs => do let (x, r) ← parseBExpr cs; let (y, r2) ← parseBExpr r; pure (.or x y, r2)
  | 'X' :: cs => do let (x, r) ← parseBExpr cs; let (y, r2) ← parseBExpr r; pure (.xor x y, r2)
  | 'N' :: cs => do let (x, r) ← parseBExpr cs; pure (.not x, r)
  | _ => none

partial def parseMemberChars : List Char → Option Member
  | ['e'] => some .entities
  | '?' :: cs => (parseMemberChars cs).map .maybe
  | 'B' :: cs => match parseBExpr cs with
    | some (e, []) => some (.bits e)
    | _ => none
  | c :: cs =>
    let (d, r) := spanDigits cs
    if d.isEmpty || !r.isEmpty then none else
    let k := digitsToNat d
    match c with
    | 's' => some (.storage k) | 'm' => some (.storageMut k) | 'n' => some (.anti k)
    | 'r' => some (.restricted k) | 'w' => some (.restrictedMut k) | 'd' => some (.drain k)
    | 'c' => some (.consume k) | 't' => some (.entries k)
    | _ => none
  | [] => none

def parseMember (s : String) : Option Member := parseMemberChars s.toList

/-- split trees: preorder over {S, L}; a spec that ends early means leaves. -/
instance : Inhabited SplitTree := ⟨.leaf⟩

partial def parseTree : List Char → SplitTree × List Char
  | 'S' :: cs =>
    let (l, r1) := parseTree cs
    let (r, r2) := parseTree r1
    (.node l r, r2)
  | 'L' :: cs => (.leaf, cs)
  | cs => (.leaf, cs)

/-! ### the monitor's sparse world (spec side) -/

structure MStore where
  kind : Kind := .vec
  vals : Std.HashMap Nat Int := {}

structure MWorld where
  stores : Std.HashMap Nat MStore := {}
  sets : Std.HashMap Nat (Std.HashSet Nat) := {}
  ents : Std.HashMap Nat Int := {}

namespace MWorld
def store (w : MWorld) (k : Nat) : MStore := (w.stores.get? k).getD {}
def has (w : MWorld) (k i : Nat) : Bool := (w.store k).vals.contains i
def setHas (w : MWorld) (b i : Nat) : Bool := ((w.sets.get? b).map (·.contains i)).getD false
end MWorld

def specB (w : MWorld) (i : Nat) : BExpr → Bool
  | .set b => w.setHas b i
  | .maskOf k => w.has k i
  | .and x y => specB w i x && specB w i y
  | .or x y => specB w i x || specB w i y
  | .xor x y => specB w i x != specB w i y
  | .not x => !specB w i x

/-- Spec: is index `i` admitted by member `m`? -/
def specHas (w : MWorld) (i : Nat) : Member → Bool
  | .storage k | .storageMut k | .restricted k | .restrictedMut k | .drain k | .consume k => w.has k i
  | .anti k => !w.has k i
  | .maybe _ | .entries _ => true
  | .entities => w.ents.contains i
  | .bits e => specB w i e

/-- A finite candidate set containing every admitted index, if some member is a positive set. -/
def specCandB (w : MWorld) : BExpr → Option (Array Nat)
  | .set b => some (((w.sets.get? b).map (·.toArray)).getD #[])
  | .maskOf k => some (w.store k).vals.keysArray
  | .and x y =>
    match specCandB w x, specCandB w y with
    | some a, some b => some (if a.size ≤ b.size then a else b)
    | some a, none => some a
    | none, some b => some b
    | none, none => none
  | .or x y =>
    match specCandB w x, specCandB w y with
    | some a, some b => some (a ++ b)
    | _, _ => none
  | .xor x y =>
    match specCandB w x, specCandB w y with
    | some a, some b => some (a ++ b)
    | _, _ => none
  | .not _ => none

def specCand (w : MWorld) : Member → Option (Array Nat)
  | .storage k | .storageMut k | .restricted k | .restrictedMut k | .drain k | .consume k =>
    some (w.store k).vals.keysArray
  | .entities => some w.ents.keysArray
  | .bits e => specCandB w e
  | _ => none

def dedupSorted (a : Array Nat) : Array Nat := Id.run do
  let mut out : Array Nat := #[]
  for x in a do
    if out.size = 0 || out[out.size - 1]! != x then out := out.push x
  return out

/-- Spec: the indices a join must visit, ascending (`take`: only the first `n`). -/
def specKeys (w : MWorld) (ms : List Member) (take : Option Nat) : Option (List Nat) :=
  let cands := ms.filterMap (specCand w)
  let admitted (i : Nat) : Bool := ms.all (specHas w i)
  match cands with
  | [] =>
    -- unconstrained: walk the index space, which only terminates with `take`
    match take with
    | none => none
    | some n => some (Id.run do
        let mut out : Array Nat := #[]
        let mut i := 0
        while out.size < n && i < MAXIDX do
          if admitted i then out := out.push i
          i := i + 1
        return out.toList)
  | c :: cs =>
    let best := cs.foldl (fun b a => if a.size < b.size then a else b) c
    let sorted := dedupSorted (best.qsort (· < ·))
    let l := (sorted.filter admitted).toList
    some (match take with | some n => l.take n | none => l)

def showVal (v : Int) : String := toString v

def homeKind : Kind → Bool
  | .null | .cs => false
  | _ => true

/-- Spec: text of the component member `m` contributes at index `i`, and whether it reveals `i`. -/
def specComp (w : MWorld) (i : Nat) : Member → String × Bool
  | .storage k | .storageMut k | .restricted k | .restrictedMut k | .drain k | .consume k =>
    let st := w.store k
    (showVal ((st.vals.get? i).getD 0), homeKind st.kind)
  | .anti _ => ("u", false)
  | .entities => (s!"E{i}.{(w.ents.get? i).getD 0}", true)
  | .bits _ => (s!"I{i}", true)
  | .maybe m =>
    if specHas w i m then let (s, r) := specComp w i m; ("S" ++ s, r) else ("N", false)
  | .entries k =>
    let st := w.store k
    match st.vals.get? i with
    | some v => ("O" ++ showVal v, homeKind st.kind)
    | none => ("V", false)

def specItem (w : MWorld) (ms : List Member) (i : Nat) (withIdx : Bool := true) : String :=
  let cs := ms.map (specComp w i)
  let body := ",".intercalate (cs.map (·.1))
  if withIdx then (if cs.any (·.2) then toString i else "_") ++ ":" ++ body else body

/-- Which stores a member list borrows mutably, with the effect of one visit at `i`. -/
inductive Eff where
  | bump (k : Nat) | bumpIf (k : Nat) (cond : Member) | bumpOcc (k : Nat) | remove (k : Nat)
  | removeIf (k : Nat) (cond : Member) | clearAfter (k : Nat)

partial def effectsOf (outer : Option Member) : Member → List Eff
  | .storageMut k | .restrictedMut k =>
    match outer with | none => [.bump k] | some c => [.bumpIf k c]
  | .drain k => (match outer with | none => [.remove k] | some c => [.removeIf k c])
  | .consume k => [.remove k, .clearAfter k]
  | .entries k => [.bumpOcc k]
  | .maybe m => let _ := outer; effectsOf (some m) m
  | _ => []

def effKey : Eff → Nat
  | .bump k | .bumpIf k _ | .bumpOcc k | .remove k | .removeIf k _ | .clearAfter k => k

def evCode (removed : Bool) (i : Nat) : Nat := (if removed then 3 else 2) * 4294967296 + i + 1

structure Post where
  k : Nat
  cnt : Nat
  sum : Int
  mix : Nat
  events : Option (Nat × Nat)   -- flagged: (count, hash)

def showPost (p : Post) : List String :=
  [s!"P{p.k}={p.cnt}/{p.sum}/{p.mix}"] ++
    (match p.events with | some (c, h) => [s!"F{p.k}={c}/{h}"] | none => [])

def digestOf (entries : List (Nat × Int)) : Nat × Int × Nat :=
  entries.foldl (fun (c, s, m) (i, v) =>
    let vm : Nat := ((v % (M61 : Int)) + M61) % M61 |>.toNat
    (c + 1, s + v, (m + (i + 1) * (vm + 1)) % M61)) (0, 0, 0)

def isFlagged (k : Kind) : Bool := k == .flagged || k == .flaggedd

/-- Spec: apply the visitor's effects for the visited keys; returns the new world and the posts.
    (The condition of an effect under `.maybe()` is membership in the very store it touches.) -/
def specApply (w : MWorld) (ms : List Member) (keys : List Nat) (mutate : Bool) : MWorld × List Post :=
  let effs := ms.flatMap (effectsOf none)
  let ks := (effs.map effKey).eraseDups
  let ks := (ks.toArray.qsort (· < ·)).toList
  if !mutate then (w, []) else Id.run do
    let mut w := w
    let mut evAll : Std.HashMap Nat (Nat × Nat) := {}
    for e in effs do
      let k := effKey e
      let st := w.store k
      let kind := st.kind
      let nonNull := kind != .null
      let flagged := isFlagged kind
      -- take the value map out of the world so that it is updated in place
      w := { w with stores := w.stores.erase k }
      let mut vals := st.vals
      let mut ev : Nat × Nat := (evAll.get? k).getD (0, 0)
      match e with
      | .clearAfter _ => vals := {}
      | _ =>
        for i in keys do
          match e with
          | .bump _ =>
            if flagged then ev := (ev.1 + 1, (ev.2 * 1000003 + evCode false i) % M61)
            if nonNull then vals := vals.insert i ((vals.get? i).getD 0 + 1)
          | .bumpIf _ _ | .bumpOcc _ =>
            if vals.contains i then
              if flagged then ev := (ev.1 + 1, (ev.2 * 1000003 + evCode false i) % M61)
              if nonNull then vals := vals.insert i ((vals.get? i).getD 0 + 1)
          | .remove _ =>
            if flagged then ev := (ev.1 + 1, (ev.2 * 1000003 + evCode true i) % M61)
            vals := vals.erase i
          | .removeIf _ _ =>
            if vals.contains i then
              if flagged then ev := (ev.1 + 1, (ev.2 * 1000003 + evCode true i) % M61)
              vals := vals.erase i
          | .clearAfter _ => pure ()
      evAll := evAll.insert k ev
      w := { w with stores := w.stores.insert k { kind := kind, vals := vals } }
    let mut posts : List Post := []
    for k in ks do
      let st := w.store k
      let (c, s, m) := digestOf st.vals.toList
      let ev := if isFlagged st.kind then some ((evAll.get? k).getD (0, 0)) else none
      posts := posts ++ [{ k := k, cnt := c, sum := s, mix := m, events := ev }]
    return (w, posts)

/-! ### model side: text of items, posts -/

partial def showItem : Item → String
  | .val v | .mref v => showVal v
  | .unit => "u"
  | .ent i g => s!"E{i}.{g}"
  | .idx i => s!"I{i}"
  | .opt none => "N"
  | .opt (some it) => "S" ++ showItem it
  | .occ v => "O" ++ showVal v
  | .vac => "V"

partial def reveals (w : JWorld) : Member → Item → Bool
  | .storage k, _ | .storageMut k, _ | .restricted k, _ | .restrictedMut k, _ | .drain k, _
  | .consume k, _ => homeKind (w.store k).kind
  | .entities, _ | .bits _, _ => true
  | .maybe m, .opt (some it) => reveals w m it
  | .entries k, .occ _ => homeKind (w.store k).kind
  | _, _ => false

def showModelItem (w : JWorld) (ms : List Member) (withIdx : Bool) (x : Nat × List Item) : String :=
  let body := ",".intercalate (x.2.map showItem)
  if withIdx then
    let rev := (ms.zip x.2).any (fun (m, it) => reveals w m it)
    (if rev then toString x.1 else "_") ++ ":" ++ body
  else body

def modelPost (w : JWorld) (k : Nat) : Post :=
  let st := w.store k
  let entries := st.mask.toList.map (fun i => (i, st.vals.get i))
  let (c, s, m) := digestOf entries
  let ev := if isFlagged st.kind then
      let evs := st.chan.reverse
      some (evs.length, evs.foldl (fun h e =>
        match e with
        | .inserted i => (h * 1000003 + (1 * 4294967296 + i + 1)) % M61
        | .modified i => (h * 1000003 + (2 * 4294967296 + i + 1)) % M61
        | .removed i => (h * 1000003 + (3 * 4294967296 + i + 1)) % M61) 0)
    else none
  { k := k, cnt := c, sum := s, mix := m, events := ev }

partial def touchedKeys : Member → List Nat
  | .storageMut k | .restrictedMut k | .drain k | .entries k | .consume k => [k]
  | .maybe m => touchedKeys m
  | _ => []

/-- the visitor of the harness: `+1` on every mutable component except zero-sized (null) ones -/
def visitor (w : JWorld) : Nat → Int → Int := fun k v => if (w.store k).kind == .null then v else v + 1

def clearChans (w : JWorld) (ks : List Nat) : JWorld :=
  ks.foldl (fun w k => let st := w.store k; if st.chan.isEmpty then w else w.setStore k { st with chan := [] }) w

/-! ### Level B: layers of a set of indices (driver-side builder) -/

structure LayerMaps where
  l3 : List Nat := []
  l2 : Std.HashMap Nat (List Nat) := {}
  l1 : Std.HashMap Nat (List Nat) := {}
  l0 : Std.HashMap Nat (List Nat) := {}

/-- Build the four layers from an ascending member list (what repeated `BitSet::add` produces). -/
def layersOfSorted (xs : List Nat) : HiBitSet.Layers :=
  let push (m : Std.HashMap Nat (List Nat)) (n b : Nat) : Std.HashMap Nat (List Nat) :=
    match m.get? n with
    | some (h :: t) => if h = b then m else m.insert n (b :: h :: t)
    | _ => m.insert n [b]
  let lm : LayerMaps := xs.foldl (fun lm x =>
    { l0 := push lm.l0 (x / 64) (x % 64),
      l1 := push lm.l1 (x / 4096) (x / 64 % 64),
      l2 := push lm.l2 (x / 262144) (x / 4096 % 64),
      l3 := (match lm.l3 with | h :: t => if h = x / 262144 then h :: t else (x / 262144) :: h :: t | [] => [x / 262144]) }) {}
  let rev (m : Std.HashMap Nat (List Nat)) : Std.HashMap Nat (List Nat) := m.map (fun _ l => l.reverse)
  let l0 := rev lm.l0; let l1 := rev lm.l1; let l2 := rev lm.l2
  { l3 := lm.l3.reverse,
    l2 := fun n => (l2.get? n).getD [],
    l1 := fun n => (l1.get? n).getD [],
    l0 := fun n => (l0.get? n).getD [] }

/-! ### state -/

structure JState where
  caseId : String := ""
  lineNo : Nat := 0
  w : JWorld := {}
  /-- raw bit sets as sorted lists (for Level B); `w.sets` holds them as `BSet` when small enough -/
  rawSets : Std.HashMap Nat (List Nat) := {}
  hugeSets : List Nat := []
  alive : Std.HashMap Nat Int := {}
  lstores : Std.HashMap Nat HiBitSet.Layers := {}
  lsets : Std.HashMap Nat HiBitSet.Layers := {}
  lents : Option HiBitSet.Layers := none
  diverged : Bool := false
  mw : MWorld := {}
  monDead : Bool := false
  -- statistics
  cases : Nat := 0
  lines : Nat := 0
  diffs : Nat := 0
  mons : Nat := 0
  bads : Nat := 0
  caseHash : UInt64 := 7
  caseNontrivial : Bool := false
  distinct : Std.HashSet UInt64 := {}
  distinctNontrivial : Nat := 0
  modes : Std.HashMap String Nat := {}
  arities : Std.HashMap Nat Nat := {}
  kindsSeen : Std.HashMap String Nat := {}
  cross64 : Nat := 0
  cross4096 : Nat := 0
  cross262144 : Nat := 0
  adj64 : Nat := 0
  adj4096 : Nat := 0
  adj262144 : Nat := 0
  items : Nat := 0
  leavesSeen : Nat := 0
  levelA : Nat := 0
  levelB : Nat := 0
  skippedNoHook : Nat := 0
  maxIdx : Nat := 0
  /-- entities of the current case that are still in the allocator's `raised` set (created atomically,
      not merged): part of `ents`; for the model and the spec they are ordinary members of the
      `&entities` mask (alive ∪ raised) with their live generation. Statistics only. -/
  raisedSet : Std.HashSet Nat := {}
  raised : Nat := 0
  raisedCases : Nat := 0
  raisedGen2 : Nat := 0
  raisedVisits : Nat := 0
  raisedOps : Nat := 0
  /-- entities of the current case with a pending deletion (`Entities::delete` called, no `maintain()`
      yet): part of `ents`, may overlap `raised`; alive for the model and the spec. Statistics only. -/
  killedSet : Std.HashSet Nat := {}
  killed : Nat := 0
  killedCases : Nat := 0
  killedVisits : Nat := 0
  killedOps : Nat := 0

def LIMIT_A : Nat := 524288   -- Level A (array-backed sets) is evaluated for indices below 2^19

def JState.closeCase (st : JState) : JState :=
  if st.lineNo = 0 then st
  else if st.distinct.contains st.caseHash then st
  else { st with distinct := st.distinct.insert st.caseHash,
                 distinctNontrivial := st.distinctNontrivial + (if st.caseNontrivial then 1 else 0) }

def bump {α} [BEq α] [Hashable α] (m : Std.HashMap α Nat) (k : α) : Std.HashMap α Nat :=
  m.insert k ((m.get? k).getD 0 + 1)

/-! ### setup lines -/

def bsetOfList (xs : List Nat) : BSet :=
  match xs.foldl max 0, xs with
  | _, [] => .empty
  | mx, _ => ⟨xs.foldl (fun a i => a.setIfInBounds i true) (Array.replicate (mx + 1) false)⟩

def expandRanges (rs : List (Nat × Nat)) : List Nat :=
  rs.flatMap (fun (lo, hi) => (List.range (hi + 1 - lo)).map (lo + ·))

def setupEnts (st : JState) (ts : List String) : Option JState := do
  let es ← mapM? parseEntry ts
  let idxs := expandRanges (es.map (fun (lo, hi, _) => (lo, hi)))
  let mx := idxs.foldl max 0
  let garr : Array Int := es.foldl (fun a (lo, hi, g) =>
      (List.range (hi + 1 - lo)).foldl (fun a j => a.setIfInBounds (lo + j) g) a)
      (Array.replicate (mx + 1) 1)
  let gens : DMap Int := { arr := garr, dflt := 1 }
  let alive := es.foldl (fun m (lo, hi, g) =>
      (List.range (hi + 1 - lo)).foldl (fun m j => m.insert (lo + j) g) m) ({} : Std.HashMap Nat Int)
  pure { st with w := { st.w with ents := bsetOfList idxs, gens := gens }, alive := alive,
                 lents := some (layersOfSorted idxs),
                 mw := { st.mw with ents := alive }, maxIdx := max st.maxIdx mx }

/-- `raised <tok>*`: a subset of the `ents` line. No semantic content for model or spec. -/
def setupRaised (st : JState) (ts : List String) : Option JState := do
  let es ← mapM? parseEntry ts
  let pairs := es.flatMap (fun (lo, hi, g) => (List.range (hi + 1 - lo)).map (fun j => (lo + j, g)))
  if pairs.any (fun (i, g) => st.alive.get? i != some g) then none else
  pure { st with raisedSet := pairs.foldl (fun s p => s.insert p.1) st.raisedSet,
                 raised := st.raised + pairs.length,
                 raisedCases := st.raisedCases + (if st.raisedSet.isEmpty && !pairs.isEmpty then 1 else 0),
                 raisedGen2 := st.raisedGen2 + (pairs.filter (fun p => decide (p.2 ≥ (2 : Int)))).length }

/-- `killed <tok>*`: a subset of the `ents` line. No semantic content for model or spec. -/
def setupKilled (st : JState) (ts : List String) : Option JState := do
  let es ← mapM? parseEntry ts
  let pairs := es.flatMap (fun (lo, hi, g) => (List.range (hi + 1 - lo)).map (fun j => (lo + j, g)))
  if pairs.any (fun (i, g) => st.alive.get? i != some g) then none else
  pure { st with killedSet := pairs.foldl (fun s p => s.insert p.1) st.killedSet,
                 killed := st.killed + pairs.length,
                 killedCases := st.killedCases + (if st.killedSet.isEmpty && !pairs.isEmpty then 1 else 0) }

def setupStore (st : JState) (k : Nat) (kind : Kind) (ts : List String) : Option JState := do
  let es ← mapM? parseEntry ts
  let idxs := expandRanges (es.map (fun (lo, hi, _) => (lo, hi)))
  let mx := idxs.foldl max 0
  let varr : Array Int := es.foldl (fun a (lo, hi, v) =>
      (List.range (hi + 1 - lo)).foldl (fun a j => a.setIfInBounds (lo + j) (v + (j : Int))) a)
      (Array.replicate (mx + 1) 0)
  let vals : DMap Int := { arr := varr, dflt := 0 }
  let mvals := es.foldl (fun m (lo, hi, v) =>
      (List.range (hi + 1 - lo)).foldl (fun m j => m.insert (lo + j) (v + (j : Int))) m)
      ({} : Std.HashMap Nat Int)
  let store : Store := { kind := kind, mask := bsetOfList idxs, vals := vals, chan := [] }
  pure { st with w := st.w.setStore k store,
                 lstores := st.lstores.insert k (layersOfSorted idxs),
                 mw := { st.mw with stores := st.mw.stores.insert k { kind := kind, vals := mvals } },
                 kindsSeen := bump st.kindsSeen (toString (repr kind)),
                 maxIdx := max st.maxIdx mx }

def setupBitset (st : JState) (b : Nat) (ts : List String) : Option JState := do
  let rs ← mapM? parseRange ts
  let idxs := expandRanges rs
  let mx := idxs.foldl max 0
  let huge := mx ≥ LIMIT_A
  -- beyond LIMIT_A the array-backed set is truncated (still exact for every query below LIMIT_A;
  -- such a set is marked huge, and keys then come from Level B only)
  pure { st with w := { st.w with sets := st.w.sets.set b (bsetOfList (idxs.filter (· < LIMIT_A))) },
                 hugeSets := if huge then b :: st.hugeSets else st.hugeSets,
                 rawSets := st.rawSets.insert b idxs,
                 lsets := st.lsets.insert b (layersOfSorted idxs),
                 mw := { st.mw with sets := st.mw.sets.insert b (Std.HashSet.ofList idxs) },
                 maxIdx := max st.maxIdx mx }

/-! ### evaluating one join op on the model -/

partial def bexprSets : BExpr → List Nat
  | .set b => [b]
  | .maskOf _ => []
  | .and x y | .or x y | .xor x y => bexprSets x ++ bexprSets y
  | .not x => bexprSets x

partial def memberSets : Member → List Nat
  | .bits e => bexprSets e
  | .maybe m => memberSets m
  | _ => []

def JState.lworld (st : JState) : LWorld :=
  { stores := fun k => (st.lstores.get? k).getD HiBitSet.Layers.empty,
    sets := fun b => (st.lsets.get? b).getD HiBitSet.Layers.empty,
    ents := st.lents.getD HiBitSet.Layers.empty }

/-- Level-A keys (when every set involved is small enough). -/
def keysA (st : JState) (ms : List Member) (take : Option Nat) : Option (List Nat) :=
  if (ms.flatMap memberSets).any (st.hugeSets.contains ·) then none else
  let mk := tupleMask st.w ms
  if mk.neg then
    match take with
    | none => none
    | some n => some ((mk.toList (min MAXIDX (mk.s.bits.size + n + 1))).take n)
  else some (match take with | some n => (mk.toList MAXIDX).take n | none => mk.toList MAXIDX)

/-- Drain hibitset's `BitIter` (model function `HiBitSet.next`), at most `limit` items. -/
partial def drainIter (L : HiBitSet.Layers) (s : HiBitSet.It) (limit : Nat) (acc : Array Nat) : Array Nat :=
  if acc.size ≥ limit then acc else
  match HiBitSet.next L s with
  | none => acc
  | some (x, s') => drainIter L s' limit (acc.push x)

/-- Level-B keys: `BitIter` over the layered tuple mask. -/
def keysB (st : JState) (ms : List Member) (take : Option Nat) : List Nat :=
  let L := tupleLayers st.lworld ms
  (drainIter L (HiBitSet.fresh L) (take.getD MAXIDX) #[]).toList

structure OpLine where
  sid : String
  mode : String
  opts : List (String × String)
  ms : List Member
  mtoks : List String

def parseOp (lt : List String) : Option OpLine :=
  match lt with
  | "join" :: sid :: mode :: rest =>
    let (optToks, after) := rest.span (· ≠ ":")
    match after with
    | ":" :: mtoks => do
      let ms ← mapM? parseMember mtoks
      let opts := optToks.filterMap (fun o => match o.splitOn "=" with | [a, b] => some (a, b) | _ => none)
      if ms.isEmpty then none else pure { sid, mode, opts, ms, mtoks }
    | _ => none
  | _ => none

def OpLine.opt (o : OpLine) (k : String) : Option String := (o.opts.find? (·.1 == k)).map (·.2)

def outErr {α} : Out α → Option String
  | .ok _ => none
  | .panic _ => some "panic"
  | .ub w => some ("ub:" ++ w)

/-- Model result tokens for a join op (and the model world afterwards). `none` = cannot evaluate. -/
def evalModel (st : JState) (o : OpLine) : Option (List String × JWorld) :=
  let w := st.w
  let f := visitor w
  let take := (o.opt "take").bind (·.toNat?)
  let touched := ((o.ms.flatMap touchedKeys).toArray.qsort (· < ·)).toList.eraseDups
  let posts := fun (w' : JWorld) => if touched.isEmpty then [] else ";" :: touched.flatMap (fun k => showPost (modelPost w' k))
  let keys? : Option (List Nat) :=
    if take.isNone && o.ms.all (fun m => match m with
        | .maybe _ | .entries _ | .anti _ => true | _ => false) then none else
    let b := keysB st o.ms take
    let hugeMaybe := (o.ms.flatMap memberSets).any (st.hugeSets.contains ·) &&
      o.ms.any (fun m => match m with | .maybe (.bits _) | .maybe (.maybe (.bits _)) => true | _ => false)
    if hugeMaybe && b.any (· ≥ LIMIT_A) then none else
    match keysA st o.ms take with
    | some a => if a == b then some a else none
    | none => some b
  match o.mode with
  | "seq" | "lend" | "lendfe" | "par" =>
    match keys? with
    | none => none
    | some keys =>
      let vals := o.ms.map (Member.open w)
      let r := if o.mode == "lend" then
          (match JoinIter.run f keys.length { keys := keys, mask := .all, vals := vals } with
           | .ok (out, it) => Out.ok (out, it.vals) | .panic s => .panic s | .ub s => .ub s)
        else runKeys f vals keys
      match r with
      | .ok (out, vals') =>
        let w' := closeAll w vals'
        some (toString out.length :: out.map (showModelItem w o.ms true) ++ posts w', w')
      | .panic _ => some (["panic"], w)
      | .ub s => some (["ub:" ++ s], w)
  | "lendgetw" =>
    -- look-ups by entity through one lending join, each found item visited like an iterated one: the loop of `runKeys`
    -- over the looked-up indices that pass `JoinLendIter::get`'s test (in the mask, handle alive), in probe order
    let mask := tupleMask w o.ms
    let alive := fun (e : Entity) => (st.alive.get? e.id) == some e.gen
    let probes : List (Option Entity) := o.opts.flatMap (fun (k, v) =>
      if k == "probes" then (v.splitOn ",").map parseEntity? else [])
    let hit : Option Entity → Bool := fun oe => match oe with
      | some e => mask.mem e.id && alive e
      | none => false
    let ks := probes.filterMap (fun oe => if hit oe then oe.map (·.id) else none)
    match runKeys f (o.ms.map (Member.open w)) ks with
    | .ok (out, vals') =>
      let w' := closeAll w vals'
      let (toksRev, _) := probes.foldl (fun (acc : List String × List (Nat × List Item)) oe =>
        match oe with
        | none => ("bad" :: acc.1, acc.2)
        | some _ =>
          if hit oe then
            match acc.2 with
            | x :: rest => (("some:" ++ showModelItem w o.ms false x) :: acc.1, rest)
            | [] => ("?" :: acc.1, [])
          else ("none" :: acc.1, acc.2)) ([], out)
      some (toksRev.reverse ++ posts w', w')
    | .panic _ => some (["panic"], w)
    | .ub s => some (["ub:" ++ s], w)
  | "tree" =>
    let L := tupleLayers st.lworld o.ms
    let (t, _) := parseTree ((o.opt "tree").getD "L").toList
    let S := hiSplitter L HiBitSet.avgReal
    let ls := (leaves S t (HiBitSet.fresh L)).map S.keys
    match runLeaves f (o.ms.map (Member.open w)) ls with
    | .ok (outs, vals') =>
      let w' := closeAll w vals'
      some (toString outs.length :: outs.flatMap (fun out => "L" :: out.map (showModelItem w o.ms true)) ++ posts w', w')
    | .panic _ => some (["panic"], w)
    | .ub s => some (["ub:" ++ s], w)
  | "lendget" =>
    let huge := (o.ms.flatMap memberSets).any (st.hugeSets.contains ·)
    -- `.maybe()` of a bit set needs that set as a Level-A mask: not available beyond LIMIT_A
    if huge && o.ms.any (fun m => match m with | .maybe (.bits _) | .maybe (.maybe (.bits _)) => true | _ => false) then
      some (o.opts.flatMap (fun (k, v) => if k == "probes" || k == "uprobes" then (v.splitOn ",").map (fun _ => "skip") else []), w)
    else
    let L := tupleLayers st.lworld o.ms
    let vals := o.ms.map (Member.open w)
    let it : JoinIter := { keys := [], mask := if huge then .all else tupleMask w o.ms, vals := vals }
    let alive := fun (e : Entity) => (st.alive.get? e.id) == some e.gen
    let showR := fun (i : Nat) (r : Option (Out (List Item × JoinIter))) =>
      match r with
      | none => "none"
      | some (.ok (items, _)) => "some:" ++ showModelItem w o.ms false (i, items)
      | some (.panic _) => "panic"
      | some (.ub s) => "ub:" ++ s
    -- Level B: `BitIter::contains` = `set.contains` = the layer-0 bit of the composite
    let getB := fun (i : Nat) (ok : Bool) =>
      if L.contains i && ok then showR i (it.lendGetUnchecked i) else "none"
    let probeToks := o.opts.flatMap (fun (k, v) =>
      if k == "probes" then
        (v.splitOn ",").map (fun p => match parseEntity? p with
          | some e =>
            let b := getB e.id (alive e)
            if huge then b else
            let a := showR e.id (it.lendGet alive e)
            if a == b then a else s!"levelA={a}/levelB={b}"
          | none => "bad")
      else if k == "uprobes" then
        (v.splitOn ",").map (fun p => match p.toNat? with
          | some i =>
            let b := getB i true
            if huge then b else
            let a := showR i (it.lendGetUnchecked i)
            if a == b then a else s!"levelA={a}/levelB={b}"
          | none => "bad")
      else [])
    some (probeToks, w)
  | _ => none

/-! ### monitors: the implementation's output against the spec -/

/-- `idx:comps` → (idx, whole token) -/
def itemIdx (tok : String) : Option (Option Nat) :=
  match tok.splitOn ":" with
  | [i, _] => if i == "_" then some none else i.toNat?.map some
  | _ => none

/-- Compare the implementation's item list with the spec's; first discrepancy, classified. -/
def compareItems (mw : MWorld) (ms : List Member) (par : Bool) (impl : List String)
    (keys : List Nat) : Option String := Id.run do
  let admitted (i : Nat) : Bool := i < MAXIDX && ms.all (specHas mw i)
  let mut prev : Option Nat := none
  let mut ks := keys
  for tok in impl do
    match itemIdx tok with
    | none => return some s!"malformed item {tok}"
    | some oi =>
      -- order / duplicates, judged on the implementation's indices alone
      match oi, prev with
      | some i, some p =>
        if i == p then return some (if par then s!"duplicate index {i} delivered twice" else s!"index {i} visited twice")
        if i < p then return some s!"not ascending: {i} after {p}"
      | _, _ => pure ()
      if let some i := oi then
        prev := some i
        if !admitted i then return some s!"extra index {i}: not in every required member / in a negated one"
      match ks with
      | [] => return some s!"extra item {tok}: the spec has no further index"
      | k :: rest =>
        if let some i := oi then
          if k < i then return some s!"index {k} missing (in every required member, in no negated one)"
          if i < k then return some s!"extra index {i}"
        let ex := specItem mw ms k
        if tok != ex then
          return some s!"item differs from direct lookup at index {k}: impl={tok} spec={ex}"
        ks := rest
  match ks with
  | k :: _ => return some s!"index {k} missing (in every required member, in no negated one)"
  | [] => return none

/-- Stable insertion of items by index is too slow for 10^5 items: sort an array of (idx, token). -/
def sortByIdx (toks : List String) : List String :=
  let arr := toks.toArray.map (fun t => (((itemIdx t).getD none).getD 0, t))
  (arr.qsort (fun a b => a.1 < b.1)).toList.map (·.2)

structure MonOut where
  mw : MWorld
  reason : Option (String × String) := none   -- (property, reason)
  keys : List Nat := []

def splitPost (ts : List String) : List String × List String :=
  let (a, b) := ts.span (· ≠ ";")
  (a, b)

def monitorJoin (mw : MWorld) (o : OpLine) (impl : List String) : MonOut :=
  let take := (o.opt "take").bind (·.toNat?)
  let prop := if o.mode == "par" || o.mode == "tree" then "C07" else "C06"
  match impl with
  | ["panic"] => { mw, reason := some (prop, "the join panicked") }
  | ["nohook"] => { mw }
  | _ =>
  if o.mode == "lendgetw" then
    -- spec: every look-up that passes (in the intersection, handle alive) shows the item as it is NOW and then visits it;
    -- post-state = the visitor applied to the looked-up indices in order (an index looked up twice is visited twice)
    let (body, post) := splitPost impl
    let probes : List (Option Entity) := o.opts.flatMap (fun (k, v) =>
      if k == "probes" then (v.splitOn ",").map parseEntity? else [])
    if probes.length != body.length then { mw, reason := some ("C06", "lendgetw: wrong number of probe results") } else
    let step := (probes.zip body).foldl (fun (acc : MWorld × List Nat × Option String) (oe, tok) =>
      match acc.2.2 with
      | some _ => acc
      | none =>
        if tok == "skip" then acc else
        match oe with
        | none => (acc.1, acc.2.1, some "unparsable probe")
        | some e =>
          let i := e.id
          let inMask := i < MAXIDX + 1 && o.ms.all (specHas acc.1 i)
          let alive := (acc.1.ents.get? i) == some e.gen
          let ex := if inMask && alive then "some:" ++ specItem acc.1 o.ms i false else "none"
          if tok != ex then (acc.1, acc.2.1, some s!"lend get (visiting) at {i}: impl={tok} spec={ex} (alive={alive} in_mask={inMask})")
          else if inMask && alive then ((specApply acc.1 o.ms [i] true).1, acc.2.1 ++ [i], none)
          else acc) (mw, [], none)
    match step.2.2 with
    | some why => { mw, reason := some ("C06", why) }
    | none =>
      let (mw', posts) := specApply mw o.ms step.2.1 true
      let exPost := if posts.isEmpty then [] else ";" :: posts.flatMap showPost
      if post != exPost then
        { mw := mw', reason := some ("C06", s!"post-state after the look-ups differs: impl={" ".intercalate post} spec={" ".intercalate exPost}"), keys := step.2.1 }
      else { mw := mw', keys := step.2.1 }
  else
  if o.mode == "lendget" then
    -- one result token per probe, probes in option order
    let probes : List (Option Entity × Nat) := o.opts.flatMap (fun (k, v) =>
      if k == "probes" then (v.splitOn ",").filterMap (fun p => (parseEntity? p).map (fun e => (some e, e.id)))
      else if k == "uprobes" then (v.splitOn ",").filterMap (fun p => p.toNat?.map (fun i => (none, i)))
      else [])
    if probes.length != impl.length then { mw, reason := some ("C06", "lendget: wrong number of probe results") } else
    let bad := (probes.zip impl).findSome? (fun ((oe, i), tok) =>
      if tok == "skip" then none else
      let inMask := i < MAXIDX + 1 && o.ms.all (specHas mw i)
      let alive := match oe with
        | some e => (mw.ents.get? e.id) == some e.gen
        | none => true
      let ex := if inMask && alive then "some:" ++ specItem mw o.ms i false else "none"
      if tok == ex then none else
        some s!"lend get at {i}: impl={tok} spec={ex} (alive={alive} in_mask={inMask})")
    { mw, reason := bad.map (fun r => ("C06", r)) }
  else
  match specKeys mw o.ms take with
  | none => { mw, reason := some (prop, "unconstrained join without take") }
  | some keys =>
    let (body, post) := splitPost impl
    match body with
    | [] => { mw, reason := some (prop, "empty result") }
    | cnt :: rest =>
      -- item tokens (tree: per leaf, then merged)
      let (items, leafProblem) : List String × Option String :=
        if o.mode == "tree" then
          let flat := rest.filter (· ≠ "L")
          let nl := (rest.filter (· == "L")).length
          let p := if cnt.toNat? != some nl then some s!"leaf count {cnt} but {nl} leaves listed" else none
          (sortByIdx flat, p)
        else if o.mode == "par" then (rest, none)
        else (rest, if cnt.toNat? != some rest.length then some s!"count {cnt} but {rest.length} items" else none)
      match leafProblem with
      | some p => { mw, reason := some (prop, p), keys }
      | none =>
        let par := o.mode == "par" || o.mode == "tree"
        -- a parallel join must deliver a permutation of the sequential items: after sorting by
        -- index, the very list the spec prescribes for the sequential join
        match compareItems mw o.ms par items keys with
        | some r => { mw, reason := some (prop, (if par then "par items are not a permutation of the seq items: " else "") ++ r), keys }
        | none =>
          let (mw', posts) := specApply mw o.ms keys true
          let exPost := if posts.isEmpty then [] else ";" :: posts.flatMap showPost
          if post != exPost then
            { mw := mw', reason := some (prop, s!"post-state differs: impl={" ".intercalate post} spec={" ".intercalate exPost}"), keys }
          else { mw := mw', keys }

def kindNames : List (String × Kind) :=
  [("vec", .vec), ("dense", .dense), ("hash", .hash), ("btree", .btree), ("dvec", .dvec),
   ("null", .null), ("flagged", .flagged), ("flaggedd", .flaggedd)]

/-- The capability table of the model (DESIGN §2.5). -/
def modelCaps : List String :=
  let b (x : Bool) : String := if x then "1" else "0"
  kindNames.map (fun (n, k) => s!"D:{n}={b k.distinct}") ++
  kindNames.map (fun (n, k) => s!"P:{n}={b k.parMut}") ++
  kindNames.map (fun (n, k) => s!"R:{n}={b k.parMut}")

/-! ### the line handler -/

/-- Every `k`-th element, starting with the first (`Iterator::step_by`). -/
def stepBy (k : Nat) : List Nat → Nat → List Nat
  | [], _ => []
  | x :: t, i => if i % k == 0 then x :: stepBy k t (i + 1) else stepBy k t (i + 1)

def firstDiff (a b : List String) : Nat × String × String := Id.run do
  let mut i := 0
  let mut xs := a
  let mut ys := b
  while true do
    match xs, ys with
    | x :: xs', y :: ys' =>
      if x == y || x == "skip" || y == "skip" then
        xs := xs'; ys := ys'; i := i + 1
      else return (i, x, y)
    | [], [] => return (i, "<end>", "<end>")
    | x :: _, [] => return (i, x, "<end>")
    | [], y :: _ => return (i, "<end>", y)
  return (i, "", "")

def agree (impl model : List String) : Bool :=
  impl.length == model.length && (impl.zip model).all (fun (a, b) => a == b || a == "skip" || b == "skip")

partial def maskChangers : Member → List Nat
  | .drain k | .consume k => [k]
  | .maybe m => maskChangers m
  | _ => []

def joinLine (st : JState) (line : String) : JState × List String :=
  let (l, r) := splitArrow line
  let lt := toks l
  match lt with
  | ["case", id] =>
    let st := st.closeCase
    ({ st with caseId := id, lineNo := 0, w := {}, rawSets := {}, hugeSets := [], alive := {},
               lstores := {}, lsets := {}, lents := none, diverged := false, mw := {}, monDead := false,
               raisedSet := {}, killedSet := {},
               caseHash := 7, caseNontrivial := false, cases := st.cases + 1 }, [])
  | _ =>
    let st := { st with lineNo := st.lineNo + 1, lines := st.lines + 1, caseHash := mixHash st.caseHash (hash l) }
    let bad := fun (st : JState) (why : String) =>
      ({ st with bads := st.bads + 1 }, [s!"BAD case={st.caseId} line={st.lineNo} {why}: {l.take 120}"])
    match lt with
    | "ents" :: ts => match setupEnts st ts with | some s => (s, []) | none => bad st "unparsable ents line"
    | "killed" :: ts => match setupKilled st ts with
      | some s => (s, [])
      | none => bad st "killed line is unparsable or not a subset of the ents line"
    | "raised" :: ts => match setupRaised st ts with
      | some s => (s, [])
      | none => bad st "raised line is unparsable or not a subset of the ents line"
    | "store" :: k :: kind :: ts =>
      match k.toNat?, kindOfString kind with
      | some k, some kd => match setupStore st k kd ts with | some s => (s, []) | none => bad st "unparsable store line"
      | _, _ => bad st "unparsable store line"
    | "bitset" :: b :: ts =>
      match b.toNat? with
      | some b => match setupBitset st b ts with | some s => (s, []) | none => bad st "unparsable bitset line"
      | none => bad st "unparsable bitset line"
    | ["caps"] =>
      let impl := toks r
      if impl == modelCaps then (st, []) else
        let (p, a, b) := firstDiff impl modelCaps
        let st := { st with diffs := st.diffs + (if st.diverged then 0 else 1), mons := st.mons + (if st.monDead then 0 else 1) }
        (st,
         (if st.diverged then [] else [s!"DIFF case={st.caseId} line={st.lineNo} op=[caps] at={p} impl=[{a}] model=[{b}]"]) ++
         (if st.monDead then [] else [s!"MON C07 case={st.caseId} line={st.lineNo} capability table differs: impl={a} model={b} op=[caps]"]))
    | _ =>
      match parseOp lt with
      | none => bad st "unparsable op"
      | some o =>
        let impl0 := toks r
        -- `!count=<n>`: `par_join().count()` disagreed with the number of items the same join delivered
        let badCount := impl0.filter (·.startsWith "!count=")
        let impl := impl0.filter (fun t => !t.startsWith "!")
        -- `!ff<t>=<i>` / `!fl<t>=<i>`: `par_join().find_first(index ≥ t)` / `.find_last(index ≤ t)` (`-` = nothing found)
        let findToks := impl0.filter (fun t => t.startsWith "!ff" || t.startsWith "!fl")
        -- `!sk<k>=` / `!nth<k>=` / `!sb<k>=`: the sequential join consumed through `skip(k)` / `nth(k)` / `step_by(k)`
        let seqToks := impl0.filter (fun t => t.startsWith "!sk" || t.startsWith "!nth" || t.startsWith "!sb")
        let (st, outC) :=
          if badCount.isEmpty || st.monDead then (st, []) else
          ({ st with mons := st.mons + 1 },
           [s!"MON C07 case={st.caseId} line={st.lineNo} par_join().count() disagrees with the number of items the parallel join delivers ({badCount}) op=[{l.take 200}]"])
        let st := { st with modes := bump st.modes o.mode, arities := bump st.arities o.ms.length }
        if impl == ["nohook"] then ({ st with skippedNoHook := st.skippedNoHook + 1 }, []) else
        -- 1. model vs implementation
        let (st, out1) :=
          if st.diverged then (st, []) else
          match evalModel st o with
          | none => ({ st with bads := st.bads + 1, diverged := true },
              [s!"BAD case={st.caseId} line={st.lineNo} the model cannot evaluate this op (Level A / Level B keys disagree, or unconstrained without take): {l.take 120}"])
          | some (model, w') =>
            if agree impl model then
              let touched := o.ms.flatMap touchedKeys
              let w' := clearChans w' touched
              let changed := o.ms.flatMap maskChangers
              let lst := changed.foldl (fun m k => m.insert k (layersOfSorted (w'.store k).mask.toList)) st.lstores
              ({ st with w := w', lstores := lst }, [])
            else
              let (p, a, b) := firstDiff impl model
              ({ st with diverged := true, diffs := st.diffs + 1 },
               [s!"DIFF case={st.caseId} line={st.lineNo} op=[{l}] at={p} impl=[{a}] model=[{b}]"])
        -- 2. monitors on the implementation's output
        let (st, out2) :=
          if st.monDead then (st, []) else
          let mo := monitorJoin st.mw o impl
          let ks := mo.keys
          let crosses (b : Nat) : Bool := ks.any (· < b) && ks.any (· ≥ b)
          let adj (b : Nat) : Bool := ks.contains (b - 1) && ks.contains b
          let rv := if st.raisedSet.isEmpty then 0 else (ks.filter (st.raisedSet.contains ·)).length
          let st := { st with raisedVisits := st.raisedVisits + rv, raisedOps := st.raisedOps + (if rv > 0 then 1 else 0) }
          let kv := if st.killedSet.isEmpty then 0 else (ks.filter (st.killedSet.contains ·)).length
          let st := { st with killedVisits := st.killedVisits + kv, killedOps := st.killedOps + (if kv > 0 then 1 else 0) }
          let st := { st with mw := mo.mw, items := st.items + ks.length,
                              cross64 := st.cross64 + (if crosses 64 then 1 else 0),
                              cross4096 := st.cross4096 + (if crosses 4096 then 1 else 0),
                              cross262144 := st.cross262144 + (if crosses 262144 then 1 else 0),
                              adj64 := st.adj64 + (if adj 64 then 1 else 0),
                              adj4096 := st.adj4096 + (if adj 4096 then 1 else 0),
                              adj262144 := st.adj262144 + (if adj 262144 then 1 else 0),
                              caseNontrivial := st.caseNontrivial || (o.ms.length ≥ 2 && !ks.isEmpty) }
          -- early-exit consumers of the parallel join must agree with the sequential join (its keys, ascending)
          let findBad : Option String := findToks.findSome? (fun tok =>
            let last := tok.startsWith "!fl"
            match ((tok.drop 3).toString).splitOn "=" with
            | [t, got] =>
              match t.toNat? with
              | some t =>
                let want : Option Nat := if last then (ks.filter (· ≤ t)).getLast? else ks.find? (· ≥ t)
                let wantS := match want with | some i => toString i | none => "-"
                if got == wantS then none
                else some s!"par_join().{if last then "find_last(index ≤ " else "find_first(index ≥ "}{t}) returned {got}, the sequential join gives {wantS}"
              | none => some s!"unparsable token {tok}"
            | _ => some s!"unparsable token {tok}")
          -- iterator adaptors over the sequential join deliver the plain join's items, minus the ones they skip
          let seqBad : Option String := seqToks.findSome? (fun tok =>
            let (kind, rest) :=
              if tok.startsWith "!sk" then ("skip", (tok.drop 3).toString)
              else if tok.startsWith "!nth" then ("nth", (tok.drop 4).toString)
              else ("step_by", (tok.drop 3).toString)
            match rest.splitOn "=" with
            | [k, got] =>
              if got == "?" then none else
              match k.toNat? with
              | some k =>
                let want : List Nat :=
                  if kind == "skip" then ks.drop k
                  else if kind == "nth" then (match ks[k]? with | some i => [i] | none => [])
                  else stepBy k ks 0
                let wantS := if want.isEmpty then "-" else ",".intercalate (want.map toString)
                if got == wantS then none
                else some s!"join().{kind}({k}) delivered [{got}], the plain join delivers [{wantS}]"
              | none => some s!"unparsable token {tok}"
            | _ => some s!"unparsable token {tok}")
          match (match mo.reason with
                 | some x => some x
                 | none => match findBad with
                   | some w => some ("C07", w)
                   | none => seqBad.map (fun w => ("C06", w))) with
          | none => (st, [])
          | some (prop, why) =>
            ({ st with monDead := true, mons := st.mons + 1 },
             [s!"MON {prop} case={st.caseId} line={st.lineNo} {why} op=[{l}]"])
        (st, outC ++ out1 ++ out2)

partial def joinLoop (h : IO.FS.Stream) (st : JState) : IO JState := do
  let line ← h.getLine
  if line.isEmpty then return st
  let line := line.trimAscii.toString
  if line.isEmpty || line.startsWith "#" then joinLoop h st
  else
    let (st', outs) := joinLine st line
    for o in outs do IO.println o
    joinLoop h st'

def showHist {α} [BEq α] [Hashable α] [ToString α] (pre : String) (m : Std.HashMap α Nat) : String :=
  " ".intercalate ((m.toList.map (fun (k, v) => s!"{pre}{k}={v}")).toArray.qsort (· < ·)).toList

end SpecsModel.Driver.JoinDom

open SpecsModel.Driver.JoinDom in
/-- Entry point of the `join` domain (reads the rest of stdin after the `domain join` line). -/
def runJoin (h : IO.FS.Stream) : IO Unit := do
  let st ← joinLoop h {}
  let st := st.closeCase
  IO.println s!"STATS cases={st.cases} lines={st.lines} diffs={st.diffs} mons={st.mons} bads={st.bads} distinct={st.distinct.size} distinct_nontrivial={st.distinctNontrivial} items={st.items} nohook={st.skippedNoHook} max_index={st.maxIdx} raised={st.raised} raised_cases={st.raisedCases} raised_gen2={st.raisedGen2} raised_visits={st.raisedVisits} raised_ops={st.raisedOps} killed={st.killed} killed_cases={st.killedCases} killed_visits={st.killedVisits} killed_ops={st.killedOps} cross64={st.cross64} cross4096={st.cross4096} cross262144={st.cross262144} adj64={st.adj64} adj4096={st.adj4096} adj262144={st.adj262144} {showHist "mode_" st.modes} {showHist "arity_" st.arities}"
