/-
  Driver domain `derive` (C18): replays the transcript of a *generated program* that uses the real
  `#[derive(ConvertSaveload)]` / `#[derive(Component)]` through the Lean model of the macros.

  Transcript (all tokens separated by single spaces; counts make the grammar prefix-free):
    case <id>
    type <ty> tattrs <n> <tattr>*                      => storage <type_name, paths and spaces stripped>
    conv <val> ids <n> (<e>=<m>)* ents <n> (<m>=<e>)*  => into <json> rt <x> rtd <x>   |   panic   |   err
       rt  = verdict of convert_from after a serde_json round trip of the data, rtd = of convert_from applied
       directly to a clone of the data; <x> ::= eq | ne | panic | err | dejson
  ty      ::= ent | opq | par <n> | nest <shape> <nargs> <ty>* | <pty>
  pty     ::= u8 | u32 | i64 | bool | str | opt <pty> | vec <pty> | tup <n> <pty>* | arr <n> <pty> | paren <pty>
  shape   ::= ns <Name> <nparams> <nfields> <field>* | ts … | en <Name> <nparams> <nvariants> <variant>*
  field   ::= f <name|_> <nattrs> <attr>* <ty>
  variant ::= vu <Name> <nattrs> <attr>* | vt <Name> <nattrs> <attr>* <nfields> <field>* | vn …
  attr    ::= S | F:<text> | O:<text>
  tattr   ::= storage <nseg> (<ident> (- | A <k> <arg>*))* | O:<text>
  val     ::= e <id>:<gen> | p <pval> | o <n> | st <n> <val>* | var <Name> <n> <val>*
  pval    ::= i <int> | b <0|1> | s <str> | none | some <pval> | seq <n> <pval>*
-/
import Driver.Proto
import SpecsModel.Derive.Json
import Std.Data.HashSet
namespace SpecsModel.Driver.DeriveDom
open SpecsModel SpecsModel.Driver SpecsModel.Derive

abbrev P := StateT (List String) Option

def tok : P String := do
  match (← get) with
  | [] => failure
  | t :: r => set r; pure t

def pnat : P Nat := do
  let t ← tok
  match t.toNat? with
  | some n => pure n
  | none => failure

def many {α} (p : P α) : Nat → P (List α)
  | 0 => pure []
  | n + 1 => do
    let a ← p
    let r ← many p n
    pure (a :: r)

def expect (s : String) : P Unit := do
  let t ← tok
  if t = s then pure () else failure

partial def ptyOf (t : String) : P PTy := do
  match t with
  | "u8" => pure .u8
  | "u32" => pure .u32
  | "i64" => pure .i64
  | "bool" => pure .bool
  | "str" => pure .string
  | "opt" => do let t ← tok; let a ← ptyOf t; pure (.option a)
  | "vec" => do let t ← tok; let a ← ptyOf t; pure (.vec a)
  | "paren" => do let t ← tok; let a ← ptyOf t; pure (.paren a)
  | "tup" => do
    let n ← pnat
    let ts ← many (do let t ← tok; ptyOf t) n
    pure (.tuple ts)
  | "arr" => do
    let n ← pnat
    let t ← tok
    let a ← ptyOf t
    pure (.array a n)
  | _ => failure

def pattr : P Attr := do
  let t ← tok
  if t = "S" then pure .skip
  else if t.startsWith "F:" then pure (.forward (t.drop 2).toString)
  else if t.startsWith "O:" then pure (.other (t.drop 2).toString)
  else failure

def pattrs : P (List Attr) := do
  let n ← pnat
  many pattr n

mutual
partial def pty : P Ty := do
  let t ← tok
  match t with
  | "ent" => pure .entity
  | "opq" => pure .opaque
  | "par" => do let n ← pnat; pure (.param n)
  | "nest" => do
    let s ← pshape
    let n ← pnat
    let args ← many pty n
    pure (.nested s args)
  | _ => do let p ← ptyOf t; pure (.plain p)
partial def pfield : P Field := do
  expect "f"
  let nm ← tok
  let attrs ← pattrs
  let ty ← pty
  pure (.mk (if nm = "_" then none else some nm) ty attrs)
partial def pfields : P (List Field) := do
  let n ← pnat
  many pfield n
partial def pvariant : P Variant := do
  let k ← tok
  let nm ← tok
  let attrs ← pattrs
  match k with
  | "vu" => pure (.unit nm attrs)
  | "vt" => do let fs ← pfields; pure (.tuple nm attrs fs)
  | "vn" => do let fs ← pfields; pure (.named nm attrs fs)
  | _ => failure
partial def pshape : P Shape := do
  let k ← tok
  let nm ← tok
  let np ← pnat
  match k with
  | "ns" => do let fs ← pfields; pure (.namedStruct nm np fs)
  | "ts" => do let fs ← pfields; pure (.tupleStruct nm np fs)
  | "en" => do
    let n ← pnat
    let vs ← many pvariant n
    pure (.enum nm np vs)
  | _ => failure
end

def pseg : P Seg := do
  let ident ← tok
  let a ← tok
  match a with
  | "-" => pure ⟨ident, .none⟩
  | "A" => do
    let k ← pnat
    let args ← many tok k
    pure ⟨ident, .angle args⟩
  | _ => failure

def ptattr : P TAttr := do
  let t ← tok
  if t = "storage" then do
    let n ← pnat
    let segs ← many pseg n
    pure (.storage segs)
  else if t.startsWith "O:" then pure (.other (t.drop 2).toString)
  else failure

partial def ppval : P PVal := do
  let t ← tok
  match t with
  | "i" => do
    let x ← tok
    match parseInt? x with
    | some i => pure (.int i)
    | none => failure
  | "b" => do let x ← tok; pure (.bool (x = "1"))
  | "s" => do let x ← tok; pure (.str x)
  | "none" => pure .none
  | "some" => do let v ← ppval; pure (.some v)
  | "seq" => do
    let n ← pnat
    let vs ← many ppval n
    pure (.seq vs)
  | _ => failure

def pentity : P Entity := do
  let t ← tok
  match parseEntity? t with
  | some e => pure e
  | none => failure

partial def pval : P Val := do
  let t ← tok
  match t with
  | "e" => do let e ← pentity; pure (.ent e)
  | "p" => do let v ← ppval; pure (.plain v)
  | "o" => do let n ← pnat; pure (.opaque n)
  | "st" => do
    let n ← pnat
    let vs ← many pval n
    pure (.struct vs)
  | "var" => do
    let nm ← tok
    let n ← pnat
    let vs ← many pval n
    pure (.variant nm vs)
  | _ => failure

def pidPair : P (Entity × Marker) := do
  let t ← tok
  match t.splitOn "=" with
  | [e, m] =>
    match parseEntity? e, m.toNat? with
    | some e, some m => pure (e, m)
    | _, _ => failure
  | _ => failure

def pentPair : P (Marker × Entity) := do
  let t ← tok
  match t.splitOn "=" with
  | [m, e] =>
    match m.toNat?, parseEntity? e with
    | some m, some e => pure (m, e)
    | _, _ => failure
  | _ => failure

structure TypeLine where
  ty : Ty
  tattrs : List TAttr

def ptypeLine : P TypeLine := do
  expect "type"
  let ty ← pty
  expect "tattrs"
  let n ← pnat
  let ta ← many ptattr n
  pure ⟨ty, ta⟩

structure ConvLine where
  v : Val
  ids : List (Entity × Marker)
  ents : List (Marker × Entity)

def pconvLine : P ConvLine := do
  expect "conv"
  let v ← pval
  expect "ids"
  let n ← pnat
  let ids ← many pidPair n
  expect "ents"
  let k ← pnat
  let ents ← many pentPair k
  pure ⟨v, ids, ents⟩

def runP {α} (p : P α) (ts : List String) : Option α :=
  match p.run ts with
  | some (a, []) => some a
  | _ => none

/-- first match wins, as `iter().find(..)` in the generated program -/
def idsOf (l : List (Entity × Marker)) : Ids := fun e => (l.find? (fun p => p.1 = e)).map (·.2)
def entsOf (l : List (Marker × Entity)) : Ents := fun m => (l.find? (fun p => p.1 = m)).map (·.2)

/-! ### rendering types the way `std::any::type_name` does (module paths and spaces stripped) -/

partial def renderPTy : PTy → String
  | .u8 => "u8" | .u32 => "u32" | .i64 => "i64" | .bool => "bool" | .string => "String"
  | .option t => "Option<" ++ renderPTy t ++ ">"
  | .vec t => "Vec<" ++ renderPTy t ++ ">"
  | .tuple ts => "(" ++ ",".intercalate (ts.map renderPTy) ++ ")"
  | .array t n => "[" ++ renderPTy t ++ ";" ++ toString n ++ "]"
  | .paren t => renderPTy t

partial def renderTy : Ty → String
  | .entity => "Entity"
  | .plain p => renderPTy p
  | .param n => "?" ++ toString n
  | .opaque => "Opaque"
  | .nested s args =>
    if args.isEmpty then s.name else s.name ++ "<" ++ ",".intercalate (args.map renderTy) ++ ">"

/-- drop `ident::` prefixes and spaces -/
def stripPaths (s : String) : String := Id.run do
  let mut out := ""
  let mut cur := ""
  let mut pendingColon := false
  for c in s.toList do
    if c.isAlphanum || c == '_' then
      if pendingColon then out := out ++ cur ++ ":"; cur := ""; pendingColon := false
      cur := cur.push c
    else if c == ':' then
      if pendingColon then cur := ""; pendingColon := false
      else pendingColon := true
    else if c == ' ' then
      pure ()
    else
      if pendingColon then out := out ++ cur ++ ":"; cur := ""; pendingColon := false
      out := out ++ cur
      cur := ""
      out := out.push c
  return out ++ cur

/-- The Rust type denoted by `type Storage = #storage #additional_generics` inside
    `impl Component for <self>`, printed like `type_name` (last path segment, `Self` resolved,
    a defaulted parameter of `FlaggedStorage` elided). -/
def renderStorage (c : ComponentImpl) (self : String) : String :=
  match c.storage.getLast? with
  | none => "?"
  | some last =>
    let args : List String :=
      match last.args with
      | .angle as => as
      | _ => []
    let args := if c.appendSelf then args ++ ["Self"] else args
    let args := args.map (fun a => (stripPaths a).replace "Self" self)
    -- `type_name` does not print a type argument that equals the parameter's default
    -- (`FlaggedStorage<C, T = DenseVecStorage<C>>`)
    let args := match args with
      | [a, b] => if last.ident = "FlaggedStorage" ∧ b = "DenseVecStorage<" ++ a ++ ">" then [a] else args
      | _ => args
    if args.isEmpty then last.ident else last.ident ++ "<" ++ ",".intercalate args ++ ">"

/-- The property's own statement of the storage choice (monitor side). -/
def specStorage (tattrs : List TAttr) (self : String) : String :=
  match tattrs.findSome? TAttr.storagePath? with
  | none => "DenseVecStorage<" ++ self ++ ">"
  | some p =>
    match p.getLast? with
    | none => "?"
    | some last =>
      match last.args with
      | .angle as => renderStorage ⟨[⟨last.ident, .angle as⟩], false⟩ self
      | _ => renderStorage ⟨[⟨last.ident, .angle ["Self"]⟩], false⟩ self

/-! ### statistics about a type definition -/

def topFields : Shape → List Field
  | .namedStruct _ _ fs | .tupleStruct _ _ fs => fs
  | .enum _ _ vs => vs.flatMap Variant.fields

def isEntityField (args : List Ty) (f : Field) : Bool :=
  match f.ty with
  | .entity => true
  | .param n => match args[n]? with
    | some .entity => true
    | _ => false
  | _ => false

def isNestedField (f : Field) : Bool :=
  match f.ty with
  | .nested _ _ => true
  | _ => false

structure DState where
  caseId : String := ""
  lineNo : Nat := 0
  cur : Option TypeLine := none
  caseDiverged : Bool := false
  caseMon : Bool := false
  cases : Nat := 0
  lines : Nat := 0
  diffs : Nat := 0
  mons : Nat := 0
  distinct : Std.HashSet UInt64 := {}
  distinctNontrivial : Nat := 0
  named : Nat := 0
  tuple : Nat := 0
  enums : Nat := 0
  generic : Nat := 0
  nested : Nat := 0
  withSkip : Nat := 0
  withFwd : Nat := 0
  withOpaque : Nat := 0
  storageAttr : Nat := 0
  storageImplicitSelf : Nat := 0
  intoPanic : Nat := 0
  rtEq : Nat := 0
  rtNe : Nat := 0
  rtPanic : Nat := 0

def hasFwd (f : Field) : Bool := f.attrs.any (fun a => match a with | .forward _ => true | _ => false)

def noteType (st : DState) (line : String) (tl : TypeLine) : DState :=
  let h := hash line
  if st.distinct.contains h then st
  else
    let st := { st with distinct := st.distinct.insert h }
    match tl.ty with
    | .nested s args =>
      let fs := topFields s
      let nontrivial := fs.length ≥ 2 && fs.any (isEntityField args)
      let st := { st with distinctNontrivial := st.distinctNontrivial + (if nontrivial then 1 else 0) }
      let st := match s with
        | .namedStruct .. => { st with named := st.named + 1 }
        | .tupleStruct .. => { st with tuple := st.tuple + 1 }
        | .enum .. => { st with enums := st.enums + 1 }
      let st := if s.nparams > 0 then { st with generic := st.generic + 1 } else st
      let st := if fs.any isNestedField then { st with nested := st.nested + 1 } else st
      let st := if fs.any Field.skip then { st with withSkip := st.withSkip + 1 } else st
      let st := if fs.any hasFwd then { st with withFwd := st.withFwd + 1 } else st
      let st := if fs.any (fun f => match f.ty with | .opaque => true | _ => false) then { st with withOpaque := st.withOpaque + 1 } else st
      match tl.tattrs.findSome? TAttr.storagePath? with
      | none => st
      | some p =>
        let st := { st with storageAttr := st.storageAttr + 1 }
        match p.getLast? with
        | some ⟨_, .angle _⟩ => st
        | _ => { st with storageImplicitSelf := st.storageImplicitSelf + 1 }
    | _ => st

def emitDiff (st : DState) (l r model : String) : DState × List String :=
  if st.caseDiverged then (st, [])
  else ({ st with caseDiverged := true, diffs := st.diffs + 1 },
        [s!"DIFF case={st.caseId} line={st.lineNo} op=[{l}] impl=[{r}] model=[{model}]"])

def emitMon (st : DState) (why l r : String) : DState × List String :=
  if st.caseMon then (st, [])
  else ({ st with caseMon := true, mons := st.mons + 1 },
        [s!"MON C18 case={st.caseId} line={st.lineNo} {why} op=[{l}] impl=[{r}]"])

def deriveLine (st : DState) (line : String) : DState × List String :=
  let (l, r) := splitArrow line
  let lt := toks l
  let rt := toks r
  match lt with
  | ["case", id] =>
    ({ st with caseId := id, lineNo := 0, cur := none, caseDiverged := false, caseMon := false,
               cases := st.cases + 1 }, [])
  | "type" :: _ =>
    let st := { st with lineNo := st.lineNo + 1, lines := st.lines + 1 }
    match runP ptypeLine lt with
    | none => (st, [s!"BAD case={st.caseId} line={st.lineNo} unparsable type line"])
    | some tl =>
      let st := noteType { st with cur := some tl } l tl
      let self := renderTy tl.ty
      let model := match implComponent tl.tattrs with
        | .ok c => "storage " ++ renderStorage c self
        | .panic _ => "panic"
        | .ub _ => "ub"
      let impl := " ".intercalate rt
      let (st, o1) := if impl = model then (st, []) else emitDiff st l impl model
      let spec := "storage " ++ specStorage tl.tattrs self
      let (st, o2) := if impl = spec then (st, [])
        else emitMon st s!"wrong-storage expected=[{spec}]" l impl
      (st, o1 ++ o2)
  | "conv" :: _ =>
    let st := { st with lineNo := st.lineNo + 1, lines := st.lines + 1 }
    match st.cur, runP pconvLine lt with
    | some tl, some cl =>
      let ty := tl.ty
      if !hasTy ty cl.v then (st, [s!"BAD case={st.caseId} line={st.lineNo} value is not of the declared type"])
      else
        let ids := idsOf cl.ids
        let ents := entsOf cl.ents
        let impl := " ".intercalate rt
        -- model
        let backOf (d : DVal) : String := match convertFrom ty ents d with
          | .ok v' => if v' = cl.v then "eq" else "ne"
          | .panic _ => "panic"
          | .ub _ => "ub"
        let (model, fieldwise, lossless) := match convertInto ty ids cl.v with
          | .ok d =>
            let j := dataJson ty d
            (s!"into {j} rt {backOf d.serdeLoss} rtd {backOf d}", some j, d.serdeLoss == d)
          | .panic _ => ("panic", none, true)
          | .ub _ => ("ub", none, true)
        let st := match rt with
          | ["panic"] => { st with intoPanic := st.intoPanic + 1 }
          | ["into", _, "rt", _, "rtd", "eq"] => { st with rtEq := st.rtEq + 1 }
          | ["into", _, "rt", _, "rtd", "ne"] => { st with rtNe := st.rtNe + 1 }
          | ["into", _, "rt", _, "rtd", "panic"] => { st with rtPanic := st.rtPanic + 1 }
          | _ => st
        let (st, o1) := if impl = model then (st, []) else emitDiff st l impl model
        -- property monitor on the implementation's own report
        let occ := entitiesOf ty cl.v
        let marked := occ.all (fun e => (ids e).isSome)
        let inverse := occ.all (fun e => match ids e with
          | some m => ents m == some e
          | none => false)
        let verdict : Option String :=
          match rt with
          | ["panic"] => if marked then some "panic-although-every-visited-entity-is-marked" else none
          | ["into", j, "rt", back, "rtd", backd] =>
            if !marked then some "unmarked-entity-not-reported"
            else if some j ≠ fieldwise then some s!"not-fieldwise expected=[{fieldwise.getD "?"}]"
            else if inverse && backd ≠ "eq" then some s!"round-trip-{backd}-under-inverse-mapping"
            else if inverse && lossless && back ≠ "eq" then some s!"serde-round-trip-{back}-under-inverse-mapping"
            else none
          | _ => some "malformed-result"
        let (st, o2) := match verdict with
          | none => (st, [])
          | some why => emitMon st why l impl
        (st, o1 ++ o2)
    | _, _ => (st, [s!"BAD case={st.caseId} line={st.lineNo} unparsable conv line or no type line before it"])
  | _ => (st, [s!"BAD case={st.caseId} unknown line: {l}"])

partial def deriveLoop (h : IO.FS.Stream) (st : DState) : IO DState := do
  let line ← h.getLine
  if line.isEmpty then return st
  let line := line.trimAscii.toString
  if line.isEmpty || line.startsWith "#" then deriveLoop h st
  else
    let (st', outs) := deriveLine st line
    for o in outs do IO.println o
    deriveLoop h st'

end SpecsModel.Driver.DeriveDom

open SpecsModel.Driver.DeriveDom in
/-- Entry point of the `derive` domain (after the `domain derive` line has been consumed). -/
def runDerive (h : IO.FS.Stream) : IO Unit := do
  let st ← deriveLoop h {}
  IO.println s!"STATS cases={st.cases} lines={st.lines} diffs={st.diffs} mons={st.mons} distinct={st.distinct.size} distinct_nontrivial={st.distinctNontrivial} named={st.named} tuple={st.tuple} enums={st.enums} generic={st.generic} nested={st.nested} with_skip={st.withSkip} with_fwd={st.withFwd} with_opaque={st.withOpaque} storage_attr={st.storageAttr} storage_implicit_self={st.storageImplicitSelf} into_panic={st.intoPanic} rt_eq={st.rtEq} rt_ne={st.rtNe} rt_panic={st.rtPanic}"
