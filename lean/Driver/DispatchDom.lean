/-
  Driver domain `dispatch` (property C11): transcripts of `h_dispatch`.

  Per case: `sys …` / `barrier` lines describe a system graph handed to the real
  `specs::DispatcherBuilder`; `build` carries the stage/group layout its `Debug` impl prints;
  `run t n` carries what instrumented systems observed on a rayon pool of `t` threads;
  the `table` case carries `reads()/writes()` and the post-`fetch` borrow state of every
  `SystemData` kind.

  DIFF: model (SpecsModel.Dispatch.Model: declaration table, stage builder) vs implementation.
  MON C11: evaluated on the implementation's own reports only —
    * layout: a system missing / twice / unknown; two systems in different groups of one stage whose
      real accesses (ReadStorage = reader, WriteStorage = writer of the component) conflict;
      a dependency not in an earlier stage nor earlier in the same group;
    * run: a panic escaped `dispatch`, a reader/writer overlap was observed, a system did not run
      exactly once per dispatch, a dependency had not exited when its dependant entered;
    * table: a `fetch` borrows something it does not declare (exclusive ⊄ writes, any ⊄ reads ∪ writes).
-/
import Driver.Proto
import SpecsModel.Dispatch.Model
import Std.Data.HashSet
namespace SpecsModel.Driver.DispatchDom
open SpecsModel SpecsModel.Driver SpecsModel.Dispatch

structure SysLine where
  name : String
  modes : List Nat          -- per component: 0 none, 1 ReadStorage, 2 WriteStorage
  ent : Bool
  lzy : Bool
  rt : Nat
  deps : List String
  deriving Repr, Inhabited

def parseMode? : String → Option Nat
  | "n" => some 0 | "r" => some 1 | "w" => some 2 | _ => none

def parseSysLine? : List String → Option SysLine
  | ["sys", name, a, b, c, e, l, rt, deps] => do
    let a ← parseMode? a
    let b ← parseMode? b
    let c ← parseMode? c
    let rt ← rt.toNat?
    if rt < 1 || rt > 5 then none
    if (e ≠ "0" && e ≠ "1") || (l ≠ "0" && l ≠ "1") then none
    pure { name := name, modes := [a, b, c], ent := e == "1", lzy := l == "1", rt := rt,
           deps := if deps == "-" then [] else deps.splitOn "," }
  | _ => none

/-- The system's data tuple `(A-member, B-member, C-member, Entities?, Read<LazyUpdate>?)`. -/
def SysLine.datas (s : SysLine) : List Data := harnessData s.modes s.ent s.lzy

def rtOfNat : Nat → RunningTime
  | 1 => .veryShort | 2 => .short | 3 => .average | 4 => .long | _ => .veryLong

def showIds (l : List Nat) : String :=
  if l.isEmpty then "-" else ",".intercalate (l.map toString)

def showBorrows (l : List Borrow) : String :=
  if l.isEmpty then "-" else ",".intercalate (l.map (fun b => s!"{b.1}:{if b.2 then "x" else "s"}"))

def parseIds? (s : String) : Option (List Nat) :=
  if s == "-" then some [] else mapM? (·.toNat?) (s.splitOn ",")

def parseBorrows? (s : String) : Option (List Borrow) :=
  if s == "-" then some []
  else mapM? (fun (t : String) => match t.splitOn ":" with
    | [r, "s"] => r.toNat?.map (·, false)
    | [r, "x"] => r.toNat?.map (·, true)
    | _ => none) (s.splitOn ",")

def kv? (key : String) (ts : List String) : Option String :=
  (ts.find? (·.startsWith (key ++ "="))).map (fun t => (t.drop (key.length + 1)).toString)

/-- `[ ( a b ) ( c ) ] [ ( d ) ]` -/
def parseLayout? (ts : List String) : Option (List (List (List String))) :=
  let rec go (ts : List String) (stages : List (List (List String))) (groups : Option (List (List String)))
      (cur : Option (List String)) : Option (List (List (List String))) :=
    match ts with
    | [] => if groups.isNone && cur.isNone then some stages.reverse else none
    | "[" :: r => if groups.isNone then go r stages (some []) none else none
    | "]" :: r => match groups, cur with
      | some gs, none => go r (gs.reverse :: stages) none none
      | _, _ => none
    | "(" :: r => match groups, cur with
      | some _, none => go r stages groups (some [])
      | _, _ => none
    | ")" :: r => match groups, cur with
      | some gs, some c => go r stages (some (c.reverse :: gs)) none
      | _, _ => none
    | n :: r => match cur with
      | some c => go r stages groups (some (n :: c))
      | none => none
  if ts == ["empty"] then some [] else go ts [] none none

def showLayout (l : List (List (List String))) : String :=
  if l.isEmpty then "empty"
  else " ".intercalate (l.map (fun st => "[ " ++ " ".intercalate (st.map (fun g => "( " ++ " ".intercalate g ++ " )")) ++ " ]"))

/-- Real access conflict of two systems: one writes a component the other reads or writes. -/
def accessConflict (a b : SysLine) : Bool :=
  (a.modes.zip b.modes).any (fun (x, y) => (x = 2 && y ≠ 0) || (y = 2 && x ≠ 0))

structure DState where
  caseId : String := ""
  lineNo : Nat := 0
  specs : Array SysLine := #[]
  items : Array Item := #[]
  diverged : Bool := false
  monDead : Bool := false
  -- statistics
  cases : Nat := 0
  lines : Nat := 0
  diffs : Nat := 0
  mons : Nat := 0
  systems : Nat := 0
  barriers : Nat := 0
  depEdges : Nat := 0
  conflictPairs : Nat := 0
  builds : Nat := 0
  stages : Nat := 0
  groups : Nat := 0
  sharedGroups : Nat := 0       -- groups with more than one system (Conflict::Single insertions)
  parStages : Nat := 0          -- stages with more than one group
  runs : Nat := 0
  dispatches : Nat := 0
  decls : Nat := 0
  caseHash : UInt64 := 0
  caseDeps : Nat := 0
  distinct : Std.HashSet UInt64 := {}
  distinctNontrivial : Nat := 0

def DState.caseConflicts (st : DState) : Nat := Id.run do
  let mut n := 0
  for i in [0:st.specs.size] do
    for j in [i+1:st.specs.size] do
      if accessConflict st.specs[i]! st.specs[j]! then n := n + 1
  return n

/-- Close the current case: a graph is non-trivial when it has at least one pair of conflicting
    systems and at least one dependency edge. -/
def DState.closeCase (st : DState) : DState :=
  if st.lineNo = 0 then st
  else if st.distinct.contains st.caseHash then st
  else
    let c := st.caseConflicts
    { st with distinct := st.distinct.insert st.caseHash,
              conflictPairs := st.conflictPairs + c,
              distinctNontrivial := st.distinctNontrivial + (if c > 0 && st.caseDeps > 0 then 1 else 0) }

def DState.idOf? (st : DState) (name : String) : Option Nat :=
  st.specs.findIdx? (·.name == name)

/-- Monitor of a reported layout. -/
def monLayout (st : DState) (lay : List (List (List String))) : Option String := Id.run do
  let flat := lay.flatten.flatten
  for s in st.specs do
    let c := flat.count s.name
    if c ≠ 1 then return some s!"system-placed-{c}-times {s.name}"
  for n in flat do
    if (st.idOf? n).isNone then return some s!"unknown-system-in-layout {n}"
  -- parallel groups must not conflict
  for stg in lay do
    let gs := stg.toArray
    for i in [0:gs.size] do
      for j in [i+1:gs.size] do
        for a in gs[i]! do
          for b in gs[j]! do
            match st.idOf? a, st.idOf? b with
            | some ia, some ib =>
              if accessConflict st.specs[ia]! st.specs[ib]! then
                return some s!"conflicting-systems-in-parallel-groups {a} {b}"
            | _, _ => pure ()
  -- dependencies
  let stagesArr := lay.toArray
  for k in [0:stagesArr.size] do
    for g in stagesArr[k]! do
      let ga := g.toArray
      for p in [0:ga.size] do
        match st.idOf? ga[p]! with
        | none => pure ()
        | some i =>
          for d in st.specs[i]!.deps do
            let earlierStage := (lay.take k).any (fun s => s.any (·.contains d))
            let earlierInGroup := (g.take p).contains d
            if !(earlierStage || earlierInGroup) then
              return some s!"dependency-not-before-dependant {d} {ga[p]!}"
  return none

def dispatchLine (st : DState) (line : String) : DState × List String :=
  let (l, r) := splitArrow line
  let lt := toks l
  let rt := toks r
  match lt with
  | ["case", id] =>
    let st := st.closeCase
    ({ st with caseHash := 11, caseDeps := 0, caseId := id, lineNo := 0, specs := #[], items := #[],
               diverged := false, monDead := false, cases := st.cases + 1 }, [])
  | _ =>
    let st := { st with lineNo := st.lineNo + 1, lines := st.lines + 1 }
    let hashIt (st : DState) : DState := { st with caseHash := mixHash st.caseHash (hash l) }
    let diff (st : DState) (model : String) : DState × List String :=
      if st.diverged then (st, [])
      else ({ st with diverged := true, diffs := st.diffs + 1 },
            [s!"DIFF case={st.caseId} line={st.lineNo} op=[{l}] impl=[{r}] model=[{model}]"])
    let mon (st : DState) (why : String) : DState × List String :=
      if st.monDead then (st, [])
      else ({ st with monDead := true, mons := st.mons + 1 },
            [s!"MON C11 case={st.caseId} line={st.lineNo} {why} op=[{l}] impl=[{r}]"])
    let bad (what : String) : DState × List String :=
      (st, [s!"BAD case={st.caseId} line={st.lineNo} {what}: {line}"])
    match lt with
    | "sys" :: _ =>
      match parseSysLine? lt with
      | none => bad "unparsable op"
      | some s =>
        let st := hashIt st
        -- dependencies must name earlier systems (the harness normalises scripts accordingly)
        match mapM? st.idOf? s.deps with
        | none => bad "dependency on unknown system"
        | some depIds =>
          if (st.idOf? s.name).isSome then bad "duplicate system name" else
          let sys := sysOfData s.datas depIds (rtOfNat s.rt)
          let model := s!"reads={showIds sys.reads} writes={showIds sys.writes}"
          let st := { st with specs := st.specs.push s, items := st.items.push (.sys sys),
                              systems := st.systems + 1, depEdges := st.depEdges + s.deps.length,
                              caseDeps := st.caseDeps + s.deps.length }
          if rt == toks model then (st, [])
          else
            let (st, o1) := diff st model
            let (st, o2) := if rt == ["panic"] then mon st "panic-in-reads-writes" else (st, [])
            (st, o1 ++ o2)
    | ["barrier"] =>
      let st := hashIt st
      ({ st with items := st.items.push .barrier, barriers := st.barriers + 1 }, [])
    | ["build"] =>
      let st := { st with builds := st.builds + 1 }
      -- model
      let names (ids : List (List (List Nat))) : List (List (List String)) :=
        ids.map (·.map (·.map (fun i => (st.specs[i]?.map (·.name)).getD s!"#{i}")))
      let model := match buildAll st.items.toList with
        | .ok d => showLayout (names d.sb.layout)
        | .panic w => s!"panic {w}"
        | .ub w => s!"ub {w}"
      let (st, o1) := if rt == toks model then (st, []) else diff st model
      -- monitor
      let (st, o2) :=
        match parseLayout? rt with
        | none => mon st (if rt == ["panic"] then "panic-in-builder" else "malformed-layout")
        | some lay =>
          let st := { st with stages := st.stages + lay.length,
                              groups := st.groups + (lay.map (·.length)).sum,
                              sharedGroups := st.sharedGroups + (lay.map (fun s => (s.filter (·.length > 1)).length)).sum,
                              parStages := st.parStages + (lay.filter (·.length > 1)).length }
          match monLayout st lay with
          | some why => mon st why
          | none => (st, [])
      (st, o1 ++ o2)
    | ["run", t, n] =>
      match t.toNat?, n.toNat? with
      | some _, some n =>
        let st := { st with runs := st.runs + 1, dispatches := st.dispatches + n }
        if rt == ["panic"] then mon st "panic-escaped-dispatch"
        else match rt with
          | ["ok", runs, ov, dv] =>
            match kv? "runs" [runs] >>= parseIds?, kv? "overlaps" [ov] >>= (·.toNat?), kv? "depviol" [dv] >>= (·.toNat?) with
            | some rs, some o, some d =>
              if o ≠ 0 then mon st s!"overlap-observed {o}"
              else if rs.length ≠ st.specs.size then mon st "run-count-list-length"
              else if rs.any (· ≠ n) then mon st "system-not-run-exactly-once-per-dispatch"
              else if d ≠ 0 then mon st s!"dependency-order-violated-at-run-time {d}"
              else (st, [])
            | _, _, _ => bad "unparsable result"
          | _ => bad "unparsable result"
      | _, _ => bad "unparsable op"
    | ["table"] => (st, [])
    | ["decl", "registered"] =>
      -- a storage type without default, registered with `register_with_storage`: `setup` of both handles finds it in place
      -- and must neither panic nor replace it (outside the declaration model: judged directly)
      let st := { hashIt st with decls := st.decls + 1 }
      if rt == ["read=ok", "write=ok", "used=ok"] then (st, [])
      else mon st s!"setup-of-a-handle-for-an-explicitly-registered-storage {" ".intercalate rt}"
    | "decl" :: kind =>
      let st := { hashIt st with decls := st.decls + 1 }
      let d? : Option Data := match kind with
        | ["readstorage", t] => t.toNat?.map .readStorage
        | ["writestorage", t] => t.toNat?.map .writeStorage
        | ["entities"] => some .entities
        | ["readlazy"] => some .readLazy
        | _ => none
      match d? with
      | none => bad "unparsable op"
      | some d =>
        let model := s!"reads={showIds d.reads} writes={showIds d.writes} borrows={showBorrows d.fetch}"
        let (st, o1) := if rt == toks model then (st, []) else diff st model
        let (st, o2) :=
          if rt == ["panic"] then mon st "panic-in-fetch"
          else match kv? "reads" rt >>= parseIds?, kv? "writes" rt >>= parseIds?, kv? "borrows" rt >>= parseBorrows? with
            | some rs, some ws, some bs =>
              if (kv? "leaked" rt).isSome then mon st "borrow-leaked-after-drop"
              else match bs.find? (fun b => (b.2 && !ws.contains b.1) || !(rs.contains b.1 || ws.contains b.1)) with
                | some b => mon st s!"fetch-borrows-undeclared {b.1}:{if b.2 then "x" else "s"}"
                | none =>
                  -- "exactly what it declares": every declared write is held exclusively, every declared read at least shared
                  match ws.find? (fun w => !(bs.any (fun b => b.1 == w && b.2))) with
                  | some w => mon st s!"declared-write-not-borrowed {w}"
                  | none =>
                    match rs.find? (fun r => !(bs.any (fun b => b.1 == r))) with
                    | some r => mon st s!"declared-read-not-borrowed {r}"
                    | none => (st, [])
            | _, _, _ => mon st "malformed-decl"
        (st, o1 ++ o2)
    | _ => bad "unparsable op"

partial def dispatchLoop (h : IO.FS.Stream) (st : DState) : IO DState := do
  let line ← h.getLine
  if line.isEmpty then return st
  let line := line.trimAscii.toString
  if line.isEmpty || line.startsWith "#" then dispatchLoop h st
  else
    let (st', outs) := dispatchLine st line
    for o in outs do IO.println o
    dispatchLoop h st'

end SpecsModel.Driver.DispatchDom

open SpecsModel.Driver.DispatchDom in
/-- Reads the rest of stdin after the `domain dispatch` line; prints DIFF / MON / STATS. -/
def runDispatch (h : IO.FS.Stream) : IO Unit := do
  let st ← dispatchLoop h {}
  let st := st.closeCase
  IO.println s!"STATS cases={st.cases} lines={st.lines} diffs={st.diffs} mons={st.mons} distinct={st.distinct.size} distinct_nontrivial={st.distinctNontrivial} systems={st.systems} dep_edges={st.depEdges} barriers={st.barriers} conflict_pairs={st.conflictPairs} builds={st.builds} stages={st.stages} groups={st.groups} par_stages={st.parStages} shared_groups={st.sharedGroups} runs={st.runs} dispatches={st.dispatches} decls={st.decls}"
