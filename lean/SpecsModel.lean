-- This module serves as the root of the `SpecsModel` library.
-- Import modules here that should be built as part of the library.
import SpecsModel.Basic
