import SpecsModel.Props.C03
#print axioms SpecsModel.C03.get_dead
#print axioms SpecsModel.C03.contains_dead
#print axioms SpecsModel.C03.getMut_dead
#print axioms SpecsModel.C03.insert_dead
#print axioms SpecsModel.C03.remove_dead
#print axioms SpecsModel.C03.entry_dead
#print axioms SpecsModel.C03.getMutOrDefault_dead
#print axioms SpecsModel.C03.getOther_dead
#print axioms SpecsModel.C03.world_dead_handle_inert
