import SpecsModel.Props.C13
#print axioms SpecsModel.C13.join_is_the_loop
#print axioms SpecsModel.C13.join_refines_reference
#print axioms SpecsModel.C13.every_item_follows_reference
#print axioms SpecsModel.C13.visits_exactly_the_members
#print axioms SpecsModel.C13.read_equals_direct_lookup
#print axioms SpecsModel.C13.write_changes_only_that_entity
#print axioms SpecsModel.C13.other_entity_lookup_follows_storage_rule
#print axioms SpecsModel.C13.membership_never_changes
#print axioms SpecsModel.C13.reads_change_nothing
#print axioms SpecsModel.C13.expected_events_per_item
#print axioms SpecsModel.C13.modification_events_only_for_mutable_fetches
#print axioms SpecsModel.C13.untracked_kinds_stay_untracked
