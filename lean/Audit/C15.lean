import SpecsModel.Props.C15
#print axioms SpecsModel.C15.marker_invariant
#print axioms SpecsModel.C15.mapping_stale_or_right
#print axioms SpecsModel.C15.markers_unique
#print axioms SpecsModel.C15.only_serialisers_panic
#print axioms SpecsModel.C15.mark_marked
#print axioms SpecsModel.C15.mark_unmarked
#print axioms SpecsModel.C15.runFrom_append_fst
#print axioms SpecsModel.C15.runFrom_marks
#print axioms SpecsModel.C15.lazy_marking_is_a_history
#print axioms SpecsModel.C15.lazy_marking_keeps_markers_unique
#print axioms SpecsModel.C15.deserialize_merges
#print axioms SpecsModel.C15.reload_creates_nothing
