import SpecsModel.Props.C20
#print axioms SpecsModel.C20.same_history_same_transcript
#print axioms SpecsModel.C20.hash_order_never_observable
#print axioms SpecsModel.C20.hash_order_never_observable_maintain
#print axioms SpecsModel.C20.hash_order_never_observable_seq
#print axioms SpecsModel.C20.observables_independent_of_seed
#print axioms SpecsModel.C20.observables_independent_of_any_reordering
#print axioms SpecsModel.C20.destruction_order_only_permutes_ledger
#print axioms SpecsModel.C20.deterministic_and_replayable_partial
#print axioms SpecsModel.C20.marker_map_order_never_observable
#print axioms SpecsModel.C20.marker_map_order_never_observable_seq
#print axioms SpecsModel.C20.serialised_output_independent_of_any_reordering
#print axioms SpecsModel.C20.SLDemo.swapFront_eqv
#print axioms SpecsModel.C20.SLDemo.sc_eqv
