import SpecsModel.Props.C02
#print axioms SpecsModel.C02.timeline_refinement
#print axioms SpecsModel.C02.alive_iff_live
#print axioms SpecsModel.C02.dead_stays_dead
#print axioms SpecsModel.C02.delete_dead_unchanged
#print axioms SpecsModel.C02.delete_atomic_dead_unchanged
#print axioms SpecsModel.C02.batch_prefix
#print axioms SpecsModel.C02.delete_all_empty
#print axioms SpecsModel.C02.world_alive_iff_live
