import SpecsModel.Props.C07
#print axioms SpecsModel.C07.par_perm_seq
#print axioms SpecsModel.C07.leaves_disjoint
#print axioms SpecsModel.C07.any_schedule_same_post
#print axioms SpecsModel.C07.table_kinds_are_quiet
#print axioms SpecsModel.C07.level_b_splitOK
#print axioms SpecsModel.C07.level_b_leaves
#print axioms SpecsModel.C07.level_b_par_perm_seq
#print axioms SpecsModel.C07.level_c_average_ones
#print axioms SpecsModel.C07.level_c_split
#print axioms SpecsModel.C07.level_c_splitOK
#print axioms SpecsModel.C07.level_c_leaves
#print axioms SpecsModel.C07.level_c_par_perm_seq
