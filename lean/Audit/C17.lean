import SpecsModel.Props.C17
#print axioms SpecsModel.C17.monitor_accepts
#print axioms SpecsModel.C17.created_below_peak
#print axioms SpecsModel.C17.peak_is_running_max
#print axioms SpecsModel.C17.no_index_leaked
#print axioms SpecsModel.C17.world_no_index_leaked
#print axioms SpecsModel.C17.concurrent_fresh_index_only_when_free_list_exhausted
#print axioms SpecsModel.C17.concurrent_free_list_stays_empty
