import SpecsModel.Props.C19
#print axioms SpecsModel.C19.fault_leaves_world_well_formed
#print axioms SpecsModel.C19.continuation_stays_well_formed
#print axioms SpecsModel.C19.storages_good_after_fault
#print axioms SpecsModel.C19.purge_step_removes_what_it_destroys
#print axioms SpecsModel.C19.interrupted_purge_frame
#print axioms SpecsModel.C19.interrupted_clear_reports_empty
#print axioms SpecsModel.C19.interrupted_bulk_destroys_subset
#print axioms SpecsModel.C19.insertion_after_fault_is_kept
#print axioms SpecsModel.C19.changeset_interrupted_clear
