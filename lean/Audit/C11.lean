import SpecsModel.Props.C11
#print axioms SpecsModel.C11.placed_exactly_once
#print axioms SpecsModel.C11.parallel_groups_conflict_free
#print axioms SpecsModel.C11.dependencies_placed_before
#print axioms SpecsModel.C11.specs_table
#print axioms SpecsModel.C11.specs_table_decide
#print axioms SpecsModel.C11.specs_tuples_borrow_what_they_declare
#print axioms SpecsModel.C11.harness_systems_ok
#print axioms SpecsModel.C11.built_plan_ok
#print axioms SpecsModel.C11.no_fetch_panics
#print axioms SpecsModel.C11.writer_never_overlaps
#print axioms SpecsModel.C11.every_system_runs_exactly_once
#print axioms SpecsModel.C11.dispatch_always_completes
#print axioms SpecsModel.C11.dependencies_respected_at_run_time
