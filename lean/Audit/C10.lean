import SpecsModel.Props.C10
#print axioms SpecsModel.C10.reach_inv
#print axioms SpecsModel.C10.handles_distinct
#print axioms SpecsModel.C10.created_alive_from_return
#print axioms SpecsModel.C10.alive_stable
#print axioms SpecsModel.C10.delete_alive_ok
#print axioms SpecsModel.C10.trace_grows
#print axioms SpecsModel.C10.no_panic
#print axioms SpecsModel.C10.quiescent_nothing_lost
#print axioms SpecsModel.C10.after_maintain
#print axioms SpecsModel.C10.start_of_history
#print axioms SpecsModel.C10.run_is_reach
