import SpecsModel.Props.C14
#print axioms SpecsModel.C14.serialize_succeeds_iff
#print axioms SpecsModel.C14.serialize_records
#print axioms SpecsModel.C14.roundtrip
#print axioms SpecsModel.C14.roundtrip_recursive
#print axioms SpecsModel.C14.recursive_fails_only_on_dead
