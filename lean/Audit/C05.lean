import SpecsModel.Props.C05
#print axioms SpecsModel.C05.reachable_invariant
#print axioms SpecsModel.C05.components_only_at_occupied
#print axioms SpecsModel.C05.every_storage_in_table
#print axioms SpecsModel.C05.deletion_purges_everywhere
#print axioms SpecsModel.C05.maintain_purges_before_queue
#print axioms SpecsModel.C05.new_entity_starts_empty
#print axioms SpecsModel.C05.untouched_entities_keep_components
