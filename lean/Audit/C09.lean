import SpecsModel.Props.C09
#print axioms SpecsModel.C09.ghost_is_the_model
#print axioms SpecsModel.C09.runs_in_queue_order
#print axioms SpecsModel.C09.queued_by_running_action_runs_later_same_maintain
#print axioms SpecsModel.C09.exactly_once
#print axioms SpecsModel.C09.nothing_left_over
#print axioms SpecsModel.C09.all_handled_after_maintain
#print axioms SpecsModel.C09.exactly_once_from
#print axioms SpecsModel.C09.after_merge_and_purge
#print axioms SpecsModel.C09.lazy_insert_dead_target_skipped
#print axioms SpecsModel.C09.lazy_insert_live_target_applied
#print axioms SpecsModel.C09.lazy_remove_target_exact
