import SpecsModel.Props.C01
#print axioms SpecsModel.C01.createdBy_map
#print axioms SpecsModel.C01.createdBy_entEvents
#print axioms SpecsModel.C01.monitor_accepts
#print axioms SpecsModel.C01.accepted_seen
#print axioms SpecsModel.C01.handles_unique
#print axioms SpecsModel.C01.no_shared_index
#print axioms SpecsModel.C01.no_panic
#print axioms SpecsModel.C01.world_no_shared_index
