import SpecsModel.Props.C08
#print axioms SpecsModel.C08.world_is_model_world
#print axioms SpecsModel.C08.held_is_everything_owned
#print axioms SpecsModel.C08.no_operation_exposes_invalid_slot
#print axioms SpecsModel.C08.no_operation_exposes_invalid_slot_step
#print axioms SpecsModel.C08.no_nested_operation_exposes_invalid_slot
#print axioms SpecsModel.C08.ledger_balances
#print axioms SpecsModel.C08.each_value_returned_or_destroyed_once
#print axioms SpecsModel.C08.never_leaked_once_world_dropped
#print axioms SpecsModel.C08.exactly_once_after_drop
#print axioms SpecsModel.C08.remove_returns_the_stored_value_once
#print axioms SpecsModel.C08.overwrite_returns_old_keeps_new
#print axioms SpecsModel.C08.clear_destroys_each_value_once
#print axioms SpecsModel.C08.entity_deletion_destroys_each_component_once
#print axioms SpecsModel.C08.null_storage_values_are_unit
#print axioms SpecsModel.C08.default_fillers_are_not_tokens
