import SpecsModel.Props.C16
#print axioms SpecsModel.C16.add_never_fails
#print axioms SpecsModel.C16.build_ok
#print axioms SpecsModel.C16.content
#print axioms SpecsModel.C16.fromIter_eq_addSeq
#print axioms SpecsModel.C16.extend_eq_addSeq
#print axioms SpecsModel.C16.extend_after_fromIter
#print axioms SpecsModel.C16.build_eq_fromIter
#print axioms SpecsModel.C16.join_shared
#print axioms SpecsModel.C16.join_mut
#print axioms SpecsModel.C16.join_mut_append
#print axioms SpecsModel.C16.consume_exactly_once
#print axioms SpecsModel.C16.consume_all
#print axioms SpecsModel.C16.consume_remainder_is_clean
#print axioms SpecsModel.C16.clear_empties
#print axioms SpecsModel.C16.per_entity_eq_per_index
#print axioms SpecsModel.C16.alive_handles_consistent
#print axioms SpecsModel.C16.same_index_other_generation_shares_slot
