/-
  Abstract specification of the entity life cycle (properties C01, C02, C17) as an executable
  monitor over entity events. The same `EntSpec.step` is (a) the object of the theorems in
  Props/C01, C02, C17 ("every event sequence the model can produce is accepted") and
  (b) compiled into the driver and run over the *implementation's* transcript.
-/
import SpecsModel.Model.Entity
namespace SpecsModel

/-- Observable entity-level events: an operation together with the result it reported. -/
inductive EntEv where
  | created (e : Entity)                          -- any creation path returned `e`
  | kill (es : List Entity) (r : Alloc.KillRes)   -- World::delete_entity / delete_entities
  | killAtomic (e : Entity) (ok : Bool)           -- Entities::delete, dropped builders
  | merge                                         -- World::maintain (allocator part)
  | isAlive (e : Entity) (r : Bool)               -- Entities::is_alive
  | join (es : List Entity)                       -- (&entities).join()
  | deleteAll                                     -- World::delete_all
  deriving Repr

structure EntSpec where
  live : List Entity := []      -- handles that are not dead, in creation order
  pending : List Entity := []   -- deletion requested, takes effect at the next merge
  seen : List Entity := []      -- every handle ever returned
  peak : Nat := 0               -- max number of simultaneously not-dead handles so far
  deriving Repr

namespace EntSpec

def init : EntSpec := {}

/-- Delete the longest prefix of `es` whose handles are live (a repeated handle is dead at its
    second occurrence); report the first bad position. -/
def killPrefix (live pending : List Entity) : List Entity → Nat →
    List Entity × List Entity × Alloc.KillRes
  | [], _ => (live, pending, .ok)
  | e :: es, pos =>
    if live.contains e then killPrefix (live.erase e) (pending.erase e) es (pos + 1)
    else (live, pending, .err pos)

/-- Strictly ascending by index (the join order). -/
def ascById : List Entity → Bool
  | a :: b :: t => decide (a.id < b.id) && ascById (b :: t)
  | _ => true

/-- `es` lists exactly the handles of `live`, in strictly ascending index order. -/
def joinOk (live es : List Entity) : Bool :=
  ascById es && es.all (fun e => live.contains e) && live.all (fun e => es.contains e)

/-- One monitor step. `Except.error why` = the transcript violates the named property. -/
def step (s : EntSpec) : EntEv → Except String EntSpec
  | .created e =>
    if e.gen < 1 then .error "C01 created handle has non-positive generation"
    else if s.seen.contains e then .error "C01 handle returned twice"
    else if (s.live.map (·.id)).contains e.id then .error "C01 two not-dead entities share an index"
    else
      let live := s.live ++ [e]
      let peak := max s.peak live.length
      if e.id < peak then .ok { s with live := live, seen := e :: s.seen, peak := peak }
      else .error "C17 index not below the peak number of not-dead entities"
  | .kill es r =>
    let (live, pending, exp) := killPrefix s.live s.pending es 0
    if exp == r then .ok { s with live := live, pending := pending }
    else .error "C02 batch deletion result differs from the live-prefix rule"
  | .killAtomic e ok =>
    if s.live.contains e then
      if ok then .ok { s with pending := if s.pending.contains e then s.pending else e :: s.pending }
      else .error "C02 deferred deletion of a live entity failed"
    else
      if ok then .error "C02 deferred deletion through a dead handle succeeded"
      else .ok s
  | .merge =>
    .ok { s with live := s.live.filter (fun e => !s.pending.contains e), pending := [] }
  | .isAlive e r =>
    if s.live.contains e == r then .ok s
    else .error "C02 is_alive differs from the create/delete/maintain timeline"
  | .join es =>
    if joinOk s.live es then .ok s
    else .error "C02 entities join differs from the set of alive entities"
  | .deleteAll => .ok { s with live := [], pending := [] }

def run (s : EntSpec) : List EntEv → Except String EntSpec
  | [] => .ok s
  | ev :: evs =>
    match s.step ev with
    | .ok s' => run s' evs
    | .error why => .error why

end EntSpec
end SpecsModel
