/-
  Abstract specification of a world with component storages, as an executable monitor over the
  world-domain transcript (C03, C04, C05, C08, C09, C12, C13). Written from the property
  statements, not from the implementation model:

  * every storage is a plain map from index to value whose keys are indices of not-dead handles;
  * a handle that is dead (per the entity timeline `EntSpec`) behaves as absent on every path;
  * a deletion taking effect removes the index from every map;
  * queued lazy actions run in FIFO order during `maintain`, after merge and purge;
  * tracked storages produce exactly the events of DESIGN Appendix C;
  * every value moved in is returned or destroyed exactly once (ledger).

  `WSpec.line` consumes one transcript line (top-level or nested `in TAG …`) with the result the
  implementation reported and either accepts it, updating the abstract state, or rejects it with
  a reason that starts with the id of the violated property.
-/
import SpecsModel.Model.World
import SpecsModel.Spec.EntSpec
namespace SpecsModel

/-- Abstract queued action. -/
inductive QAct where
  | ins (k : Nat) (e : Entity) (v : Int)
  | insAll (k : Nat) (items : List (Entity × Int))
  | rem (k : Nat) (e : Entity)
  | exec (tag : Nat) (remaining : Nat) (started : Bool)  -- script with `remaining` ops still to be seen
  deriving Repr

structure WSpec where
  ent : EntSpec := {}
  log : Array Entity := #[]
  comps : Array (Option (List (Nat × Int))) := Array.replicate numKinds none  -- per kind: index ↦ value
  emit : Array Bool := Array.replicate numKinds true
  evq : Array (List CEv) := Array.replicate numKinds []   -- events expected since the last read
  queue : List QAct := []
  nextTag : Nat := 0
  inMaintain : Bool := false
  actsLeft : List Nat := []          -- tags the implementation says it ran in this maintain
  tokens : List Int := []            -- ledger: non-zero values currently owned by the world
  dropped : Bool := false
  pendingDestroyed : List Int := []  -- values destroyed during the running maintain (accounted at its end)
  fault : Option Nat := none         -- C19: a destructor panic has been armed for the next operation
  faulted : Bool := false            -- C19: some operation of this history was interrupted by a destructor panic
  evSkip : Array Bool := Array.replicate numKinds false  -- event expectations unknown since the last fault
  graveyard : List Int := []         -- every non-zero value destroyed so far
  leaked : Nat := 0                  -- values neither held, returned nor destroyed after a fault (allowed by C19)
  deriving Repr

namespace WSpec

def tracked (k : Nat) : Nat := if k < 6 then 0 else if k < 9 then 1 else 2   -- 0 none, 1 flagged, 2 deref

def mget (m : List (Nat × Int)) (i : Nat) : Option Int := (m.find? (·.1 == i)).map (·.2)
def merase (m : List (Nat × Int)) (i : Nat) : List (Nat × Int) := m.filter (fun p => !(p.1 == i))
def mset (m : List (Nat × Int)) (i : Nat) (v : Int) : List (Nat × Int) := (i, v) :: merase m i
def msorted (m : List (Nat × Int)) : List (Nat × Int) := m.mergeSort (fun a b => a.1 ≤ b.1)

def comp? (s : WSpec) (k : Nat) : Option (List (Nat × Int)) := (s.comps[k]?).join
def setComp (s : WSpec) (k : Nat) (m : List (Nat × Int)) : WSpec :=
  { s with comps := s.comps.setIfInBounds k (some m) }
def isLive (s : WSpec) (e : Entity) : Bool := s.ent.live.contains e

/-- Record expected events for kind `k` (nothing while emission is off or for untracked kinds). -/
def expect (s : WSpec) (k : Nat) (evs : List CEv) : WSpec :=
  if tracked k = 0 || !((s.emit[k]?).getD true) then s
  else { s with evq := s.evq.setIfInBounds k ((s.evq[k]?).getD [] ++ evs) }

/-- Events of a mutable access to index `i` with `derefs` mutable dereferences. -/
def modEvents (k i derefs : Nat) : List CEv :=
  if tracked k = 1 then [.modified i] else List.replicate derefs (.modified i)

def addToken (s : WSpec) (v : Int) : WSpec := if v = 0 then s else { s with tokens := v :: s.tokens }

/-- A value leaves the world (returned or destroyed): it must be owned, exactly once. -/
def takeToken (s : WSpec) (v : Int) (how : String) : Except String WSpec :=
  if v = 0 then .ok s
  else if s.tokens.contains v then .ok { s with tokens := s.tokens.erase v }
  else .error ("C08 value " ++ toString v ++ " " ++ how ++ " but not owned by the world (never moved in, or already returned/destroyed)")

def takeTokens (s : WSpec) (vs : List Int) (how : String) : Except String WSpec :=
  vs.foldlM (fun s v => s.takeToken v how) s

/-- Purge the components of entities whose deletion has taken effect, in the given order. -/
def purge (s : WSpec) (es : List Entity) : WSpec :=
  (List.range numKinds).foldl (fun s k =>
    match s.comp? k with
    | none => s
    | some _ =>
      es.foldl (fun s e =>
        match s.comp? k with
        | some m =>
          if (mget m e.id).isSome then (s.setComp k (merase m e.id)).expect k [.removed e.id] else s
        | none => s) s) s

/-- Entity events with the purge they imply. -/
def entStep (s : WSpec) (ev : EntEv) : Except String WSpec :=
  match s.ent.step ev with
  | .error why => .error why
  | .ok ent' =>
    let removed : List Entity := match ev with
      | .kill es r => (match r with | .ok => es | .err p => es.take p)
      | .deleteAll => s.ent.live.mergeSort (fun a b => a.id ≤ b.id)
      | .merge => (s.ent.live.filter (fun e => s.ent.pending.contains e)).mergeSort (fun a b => a.id ≤ b.id)
      | _ => []
    .ok ({ s with ent := ent' }.purge removed)

def entSteps (s : WSpec) (evs : List EntEv) : Except String WSpec := evs.foldlM entStep s

/-- Apply a queued non-script action at the moment it runs (C09 c): generation-checked. -/
def applyQ (s : WSpec) : QAct → WSpec
  | .ins k e v =>
    (match s.comp? k with
     | none => s
     | some m =>
       if s.isLive e then
         (match mget m e.id with
          | some _ => (s.setComp k (mset m e.id v)).expect k [.modified e.id]
          | none => (s.setComp k (mset m e.id v)).expect k [.inserted e.id])
       else s)
  | .insAll k items =>
    items.foldl (fun s ev =>
      match s.comp? k with
      | none => s
      | some m =>
        if s.isLive ev.1 then
          (match mget m ev.1.id with
           | some _ => (s.setComp k (mset m ev.1.id ev.2)).expect k [.modified ev.1.id]
           | none => (s.setComp k (mset m ev.1.id ev.2)).expect k [.inserted ev.1.id])
        else s) s
  | .rem k e =>
    (match s.comp? k with
     | none => s
     | some m =>
       if s.isLive e && (mget m e.id).isSome then (s.setComp k (merase m e.id)).expect k [.removed e.id] else s)
  | .exec _ _ _ => s

/-- A script starts running: its tag must be the next one the implementation reported. -/
def startScript (s : WSpec) (tag : Nat) : Except String WSpec :=
  match s.actsLeft with
  | t :: ts => if t = tag then .ok { s with actsLeft := ts } else .error "C09 lazily queued scripts ran out of queue order"
  | [] => .error "C09 a queued script ran that the maintain call did not report"

/-- Advance the queue past everything that produces no transcript line: non-script actions are
    applied, empty or finished scripts are checked against the implementation's `acts` list. -/
def advance (fuel : Nat) (s : WSpec) : Except String WSpec :=
  match fuel with
  | 0 => .ok s
  | fuel + 1 =>
    match s.queue with
    | [] => .ok s
    | .exec _ (_ + 1) _ :: _ => .ok s
    | .exec t 0 started :: rest =>
      if started then advance fuel { s with queue := rest }
      else
        match s.startScript t with
        | .error why => .error why
        | .ok s => advance fuel { s with queue := rest }
    | a :: rest =>
      let s' := applyQ s a
      advance fuel { s' with queue := rest }

/-- Leave maintain mode: the whole queue must have been processed. -/
def finishMaintain (s : WSpec) : Except String WSpec :=
  if !s.inMaintain then .ok s else
  match advance (s.queue.length + 1) s with
  | .error why => .error why
  | .ok s =>
    match s.queue with
    | [] =>
      if s.actsLeft.isEmpty then
        (match s.takeTokens s.pendingDestroyed "destroyed" with
         | .error why => .error why
         | .ok s => .ok { s with inMaintain := false, pendingDestroyed := [],
                                  graveyard := s.pendingDestroyed.filter (fun v => v != 0) ++ s.graveyard })
      else .error "C09 maintain reported running a script that was not queued"
    | _ => .error "C09 a queued action was left over when maintain returned"

def resolveH (s : WSpec) (h : Nat) : Option Entity := resolve s.log h

def showOpt : Option Int → String
  | some v => "some " ++ toString v
  | none => "none"

/-- Blame: a wrong answer through a dead handle is C03, otherwise `dflt`. -/
def blame (s : WSpec) (e : Entity) (dflt : String) : String := if s.isLive e then dflt else "C03"

/-- One op with the implementation's result (`fromScript` = inside a lazily executed script). -/
def op (s : WSpec) (o : WOp) (r : WRes) : Except String WSpec :=
  match o, r with
  | _, .panic _ => .error "C00 panic"
  -- entity operations ---------------------------------------------------------------------
  | .ent .merge, .acts tags =>
    (match s.entStep .merge with
     | .error why => .error why
     | .ok s => .ok { s with inMaintain := true, actsLeft := tags })
  | .ent eop, .e er =>
    if !resShapeOk eop er then .error "C00 malformed result" else
    let (evs, log') := entEvents s.log eop er
    (match s.entSteps evs with
     | .error why => .error why
     | .ok s => .ok { s with log := log' })
  | .reg k _, .unit =>
    if k < numKinds then
      (match s.comp? k with
       | some _ => .ok s
       | none => .ok (s.setComp k []))
    else .ok s
  | .createWith _ dropped comps, res =>
    if comps.any (fun kv => (s.comp? kv.1).isNone) then
      (if res == .noStore then .ok s else .error "C04 builder on an unregistered storage did not fail")
    else
    (match res with
     | .e (.ent e) =>
       (match s.entSteps (.created e :: (if dropped then [.killAtomic e true] else [])) with
        | .error why => .error why
        | .ok s =>
          let s := { s with log := s.log.push e }
          .ok (comps.foldl (fun s kv =>
            match s.comp? kv.1 with
            | some m =>
              -- a component can already be there only after an interrupted purge (C19) or when the
              -- builder names a kind twice: then the insert overwrites (and the old value is dropped)
              ((s.setComp kv.1 (mset m e.id kv.2)).expect kv.1
                [if (mget m e.id).isSome then .modified e.id else .inserted e.id]).addToken kv.2
            | none => s) s))
     | _ => .error "C00 malformed result")
  -- reads ---------------------------------------------------------------------------------
  | .get k h, res =>
    (match s.comp? k, s.resolveH h with
     | none, _ => if res == .noStore then .ok s else .error "C04 unregistered storage"
     | _, none => if res == .skip then .ok s else .error "C00 malformed result"
     | some m, some e =>
       let exp := if s.isLive e then mget m e.id else none
       if (match res with | .opt (some v) => v != 0 && s.graveyard.contains v | _ => false) then
         .error "C19 a lookup returned a value that has already been destroyed"
       else
       if res == .opt exp then .ok s
       else .error (s.blame e "C04" ++ " get returned " ++ (match res with | .opt x => showOpt x | _ => "?") ++ " expected " ++ showOpt exp))
  | .has k h, res =>
    (match s.comp? k, s.resolveH h with
     | none, _ => if res == .noStore then .ok s else .error "C04 unregistered storage"
     | _, none => if res == .skip then .ok s else .error "C00 malformed result"
     | some m, some e =>
       let exp := s.isLive e && (mget m e.id).isSome
       if res == .bool exp then .ok s else .error (s.blame e "C04" ++ " contains differs from the map"))
  | .count k, res =>
    (match s.comp? k with
     | none => if res == .noStore then .ok s else .error "C04 unregistered storage"
     | some m => if res == .nat m.length then .ok s else .error "C04 count differs from the map")
  | .isEmpty k, res =>
    (match s.comp? k with
     | none => if res == .noStore then .ok s else .error "C04 unregistered storage"
     | some m => if res == .bool m.isEmpty then .ok s else .error "C04 is_empty differs from the map")
  | .mask k, res =>
    (match s.comp? k with
     | none => if res == .noStore then .ok s else .error "C04 unregistered storage"
     | some m =>
       let exp := (msorted m).map (·.1)
       (match res with
        | .ids l =>
          if l == exp then .ok s
          else if l.any (fun i => !(s.ent.live.any (fun e => e.id == i))) then
            .error "C05 membership mask contains an index of no not-dead entity"
          else .error "C04 membership mask differs from the map"
        | _ => .error "C00 malformed result"))
  | .slice k, res =>
    (match s.comp? k with
     | none => if res == .noStore then .ok s else .error "C04 unregistered storage"
     | some m =>
       (match res with
        | .slice .none => .ok s
        | .slice (.opt _ occ) =>
          if occ == (msorted m).map (fun p => (p.1, some p.2)) then .ok s
          else .error "C04 vector slice does not hold the component at every occupied index"
        | .slice (.dflt _ occ nd) =>
          if occ == msorted m && nd == 0 then .ok s
          else .error "C04 default-vector slice: occupied index without its component or non-default gap"
        | .slice (.dense vals) =>
          if vals == (m.map (·.2)).mergeSort (· ≤ ·) then .ok s
          else .error "C04 dense slice is not a permutation of the stored values"
        | _ => .error "C00 malformed result"))
  | .events k, res =>
    (match s.comp? k with
     | none => if res == .noStore then .ok s else .error "C12 unregistered storage"
     | some _ =>
       (match res with
        | .events l =>
          if (s.evSkip[k]?).getD false then
            .ok { s with evq := s.evq.setIfInBounds k [], evSkip := s.evSkip.setIfInBounds k false }
          else
          if l == (s.evq[k]?).getD [] then .ok { s with evq := s.evq.setIfInBounds k [] }
          else .error "C12 event stream differs from the expected insert/modify/remove events"
        | _ => .error "C00 malformed result"))
  | .emit k b, res =>
    (match s.comp? k with
     | none => if res == .noStore then .ok s else .error "C12 unregistered storage"
     | some _ => if res == .unit then .ok { s with emit := s.emit.setIfInBounds k b } else .error "C00 malformed result")
  -- writes --------------------------------------------------------------------------------
  | .getMut k h derefs write, res =>
    (match s.comp? k, s.resolveH h with
     | none, _ => if res == .noStore then .ok s else .error "C04 unregistered storage"
     | _, none => if res == .skip then .ok s else .error "C00 malformed result"
     | some m, some e =>
       let cur := if s.isLive e then mget m e.id else none
       if res != .opt cur then .error (s.blame e "C04" ++ " get_mut differs from the map") else
       (match cur with
        | none => .ok s
        | some old =>
          let s := s.expect k (modEvents k e.id derefs)
          (match write with
           | none => .ok s
           | some v =>
             (match s.takeToken old "overwritten in place" with
              | .error why => .error why
              | .ok s => .ok ((s.setComp k (mset m e.id v)).addToken v)))))
  | .ins k h v, res =>
    (match s.comp? k, s.resolveH h with
     | none, _ => if res == .noStore then .ok s else .error "C04 unregistered storage"
     | _, none => if res == .skip then .ok s else .error "C00 malformed result"
     | some m, some e =>
       let s := s.addToken v
       if s.isLive e then
         (match mget m e.id with
          | some old =>
            if res == .ins (.replaced old) then
              (match s.takeToken old "returned by insert" with
               | .error why => .error why
               | .ok s => .ok ((s.setComp k (mset m e.id v)).expect k [.modified e.id]))
            else .error "C04 insert over an existing component did not return it"
          | none =>
            if res == .ins .inserted then .ok ((s.setComp k (mset m e.id v)).expect k [.inserted e.id])
            else .error "C04 insert of a new component reported a previous value or an error")
       else if res == .ins .wrongGen then .ok s else .error "C03 insert through a dead handle was not refused")
  | .rem k h, res =>
    (match s.comp? k, s.resolveH h with
     | none, _ => if res == .noStore then .ok s else .error "C04 unregistered storage"
     | _, none => if res == .skip then .ok s else .error "C00 malformed result"
     | some m, some e =>
       let cur := if s.isLive e then mget m e.id else none
       if res != .opt cur then .error (s.blame e "C04" ++ " remove differs from the map") else
       (match cur with
        | none => .ok s
        | some old =>
          (match s.takeToken old "returned by remove" with
           | .error why => .error why
           | .ok s => .ok ((s.setComp k (merase m e.id)).expect k [.removed e.id]))))
  | .entry k h eop, res =>
    (match s.comp? k, s.resolveH h with
     | none, _ => if res == .noStore then .ok s else .error "C04 unregistered storage"
     | _, none => if res == .skip then .ok s else .error "C00 malformed result"
     | some m, some e =>
       if !s.isLive e then
         (if res == .entry .wrongGen then .ok s else .error "C03 entry through a dead handle was not refused")
       else
       let s := match eop with
         | .orInsert v _ _ => s.addToken v
         | .replace v => s.addToken v
         | .remove => s
       (match mget m e.id, eop with
        | some old, .orInsert _ derefs write =>
          if res != .entry (.occupied old) then .error "C04 entry on an occupied slot differs from the map" else
          let s := s.expect k (modEvents k e.id derefs)
          (match write with
           | none => .ok s
           | some w =>
             (match s.takeToken old "overwritten in place" with
              | .error why => .error why
              | .ok s => .ok ((s.setComp k (mset m e.id w)).addToken w)))
        | none, .orInsert v derefs write =>
          if res != .entry .vacant then .error "C04 entry on a vacant slot differs from the map" else
          let s := (s.setComp k (mset m e.id v)).expect k (.inserted e.id :: modEvents k e.id derefs)
          (match write with
           | none => .ok s
           | some w =>
             (match s.takeToken v "overwritten in place" with
              | .error why => .error why
              | .ok s => .ok ((s.setComp k (mset m e.id w)).addToken w)))
        | some old, .replace v =>
          if res != .entry (.occupied old) then .error "C04 entry.replace on an occupied slot differs from the map" else
          (match s.takeToken old "returned by entry.replace" with
           | .error why => .error why
           | .ok s => .ok ((s.setComp k (mset m e.id v)).expect k [.modified e.id]))
        | none, .replace v =>
          if res != .entry .vacant then .error "C04 entry.replace on a vacant slot differs from the map" else
          .ok ((s.setComp k (mset m e.id v)).expect k (.inserted e.id :: (if tracked k = 1 then [.modified e.id] else [])))
        | some old, .remove =>
          if res != .entry (.occupied old) then .error "C04 entry.remove on an occupied slot differs from the map" else
          (match s.takeToken old "returned by entry.remove" with
           | .error why => .error why
           | .ok s => .ok ((s.setComp k (merase m e.id)).expect k [.removed e.id]))
        | none, .remove =>
          if res == .entry .vacant then .ok s else .error "C04 entry.remove on a vacant slot differs from the map"))
  | .mutOrDefault k h derefs write, res =>
    (match s.comp? k, s.resolveH h with
     | none, _ => if res == .noStore then .ok s else .error "C04 unregistered storage"
     | _, none => if res == .skip then .ok s else .error "C00 malformed result"
     | some m, some e =>
       if !s.isLive e then
         (if res == .opt none then .ok s else .error "C03 get-or-default through a dead handle returned a component")
       else
       let (old, s) := match mget m e.id with
         | some old => (old, s.expect k (modEvents k e.id derefs))
         | none => (0, (s.setComp k (mset m e.id 0)).expect k (.inserted e.id :: modEvents k e.id derefs))
       if res != .opt (some old) then .error "C04 get-or-default differs from the map" else
       (match write with
        | none => .ok s
        | some w =>
          (match s.takeToken old "overwritten in place" with
           | .error why => .error why
           | .ok s =>
             (match s.comp? k with
              | some m' => .ok ((s.setComp k (mset m' e.id w)).addToken w)
              | none => .ok s))))
  | .clear k, res =>
    (match s.comp? k with
     | none => if res == .noStore then .ok s else .error "C04 unregistered storage"
     | some _ => if res == .unit then .ok (s.setComp k []) else .error "C00 malformed result")
  | .drain k n, res =>
    (match s.comp? k with
     | none => if res == .noStore then .ok s else .error "C04 unregistered storage"
     | some m =>
       let taken := (msorted m).take n
       if res != .pairs taken then .error "C04 drain did not yield the first components in index order" else
       (match s.takeTokens (taken.map (·.2)) "returned by drain" with
        | .error why => .error why
        | .ok s =>
          .ok (taken.foldl (fun s p =>
            match s.comp? k with
            | some m' => (s.setComp k (merase m' p.1)).expect k [.removed p.1]
            | none => s) s)))
  -- lazy ----------------------------------------------------------------------------------
  | .lazyIns k h v, res =>
    (match s.comp? k, s.resolveH h with
     | none, _ => if res == .noStore then .ok s else .error "C09 unregistered storage"
     | _, none => if res == .skip then .ok s else .error "C00 malformed result"
     | _, some e => .ok { (s.addToken v) with queue := s.queue ++ [.ins k e v], nextTag := s.nextTag + 1 })
  | .lazyInsAll k items, res =>
    (match s.comp? k, resolveAll s.log (items.map (·.1)) with
     | none, _ => if res == .noStore then .ok s else .error "C09 unregistered storage"
     | _, none => if res == .skip then .ok s else .error "C00 malformed result"
     | _, some es =>
       let s := items.foldl (fun s it => s.addToken it.2) s
       .ok { s with queue := s.queue ++ [.insAll k (es.zip (items.map (·.2)))], nextTag := s.nextTag + 1 })
  | .lazyRem k h, res =>
    (match s.comp? k, s.resolveH h with
     | none, _ => if res == .noStore then .ok s else .error "C09 unregistered storage"
     | _, none => if res == .skip then .ok s else .error "C00 malformed result"
     | _, some e => .ok { s with queue := s.queue ++ [.rem k e], nextTag := s.nextTag + 1 })
  | .lazyCreate comps, res =>
    if comps.any (fun kv => (s.comp? kv.1).isNone) then
      (if res == .noStore then .ok s else .error "C09 lazy builder on an unregistered storage did not fail")
    else
    (match res with
     | .e (.ent e) =>
       (match s.entStep (.created e) with
        | .error why => .error why
        | .ok s =>
          let s := { s with log := s.log.push e }
          .ok (comps.foldl (fun s kv =>
            { (s.addToken kv.2) with queue := s.queue ++ [.ins kv.1 e kv.2], nextTag := s.nextTag + 1 }) s))
     | _ => .error "C00 malformed result")
  | .lazyExec script, res =>
    if res == .queued s.nextTag then
      .ok { s with queue := s.queue ++ [.exec s.nextTag script.length false], nextTag := s.nextTag + 1 }
    else .error "C00 malformed result"
  -- restricted join -----------------------------------------------------------------------
  | .rjoin k mutable acts, res =>
    (match s.comp? k with
     | none => if res == .noStore then .ok s else .error "C13 unregistered storage"
     | some m0 =>
       (match res with
        | .items items =>
          let ids := (msorted m0).map (·.1)
          if items.map (·.1) != ids then .error "C13 restricted join did not visit exactly the storage's members in index order" else
          let rec go (s : WSpec) : List (Nat × ItemRes) → List RAct → Except String WSpec
            | [], _ => .ok s
            | (id, ir) :: rest, acts =>
              let act := acts.head?.getD .skip
              let acts' := acts.tail
              match s.comp? k with
              | none => .ok s
              | some m =>
                match act with
                | .skip => if ir == .skip then go s rest acts' else .error "C13 item result malformed"
                | .get =>
                  if ir == (match mget m id with | some v => .val v | none => .skip) then go s rest acts'
                  else .error "C13 restricted item read differs from the direct lookup"
                | .getMut derefs write =>
                  if !mutable then (if ir == .skip then go s rest acts' else .error "C13 item result malformed") else
                  (match mget m id with
                   | none => .error "C13 restricted join visited an index without a component"
                   | some old =>
                     if ir != .val old then .error "C13 restricted item read differs from the direct lookup" else
                     let s := s.expect k (modEvents k id derefs)
                     (match write with
                      | none => go s rest acts'
                      | some w =>
                        (match s.takeToken old "overwritten in place" with
                         | .error why => .error why
                         | .ok s => go ((s.setComp k (mset m id w)).addToken w) rest acts')))
                | .getOther h =>
                  (match s.resolveH h with
                   | none => if ir == .skip then go s rest acts' else .error "C13 item result malformed"
                   | some e =>
                     let exp := if s.isLive e then mget m e.id else none
                     if ir == .opt exp then go s rest acts'
                     else .error (s.blame e "C13" ++ " lookup of another entity through a restricted storage differs from the storage rule"))
                | .getOtherMut h derefs write =>
                  if !mutable then (if ir == .skip then go s rest acts' else .error "C13 item result malformed") else
                  (match s.resolveH h with
                   | none => if ir == .skip then go s rest acts' else .error "C13 item result malformed"
                   | some e =>
                     let exp := if s.isLive e then mget m e.id else none
                     if ir != .opt exp then
                       .error (s.blame e "C13" ++ " mutable lookup of another entity through a restricted storage differs from the storage rule")
                     else
                     (match exp with
                      | none => go s rest acts'
                      | some old =>
                        let s := s.expect k (modEvents k e.id derefs)
                        (match write with
                         | none => go s rest acts'
                         | some w =>
                           (match s.takeToken old "overwritten in place" with
                            | .error why => .error why
                            | .ok s => go ((s.setComp k (mset m e.id w)).addToken w) rest acts'))))
          go s items acts
        | _ => .error "C00 malformed result"))
  | .dropWorld, res =>
    if res == .dropped then
      .ok { s with comps := Array.replicate numKinds none, queue := [], dropped := true }
    else if res == .skip then .ok s else .error "C00 malformed result"
  | _, _ => .error "C00 malformed result"

/-- Account for the values the implementation destroyed during a top-level op (ledger, C08).
    For `maintain` the accounting is deferred until its nested lines have been seen. -/
def destroyed (s : WSpec) (vs : List Int) : Except String WSpec :=
  -- during a maintain the values enter the graveyard only at its end: a nested read that precedes the
  -- nested deletion legitimately returns a value that the same maintain destroys later
  if s.inMaintain then .ok { s with pendingDestroyed := s.pendingDestroyed ++ vs }
  else { s with graveyard := vs.filter (fun v => v != 0) ++ s.graveyard }.takeTokens vs "destroyed"

/-- After `drop_world` nothing may still be owned (no leak). -/
def checkLeak (s : WSpec) : Except String WSpec :=
  let s := if s.dropped && s.faulted then { s with leaked := s.leaked + s.tokens.length, tokens := [] } else s
  if s.dropped && !s.tokens.isEmpty then
    .error ("C08 values never returned nor destroyed although the world was dropped: " ++ toString s.tokens)
  else .ok s

/-! ### C19: operations interrupted by a panicking destructor -/

/-- An operation for which a destructor panic was armed reported `panic`: its allocator part has
    completed (kill / merge run before any component is destroyed); what happened to the storages
    is re-read from the `dump` that follows. -/
def faultedOp (s : WSpec) (o : WOp) : Except String WSpec :=
  let s := { s with fault := none, faulted := true, evSkip := Array.replicate numKinds true,
                    evq := Array.replicate numKinds [] }
  let killEv := fun (es : List Entity) =>
    let r := (EntSpec.killPrefix s.ent.live s.ent.pending es 0).2.2
    match s.ent.step (.kill es r) with
    | .ok ent' => Except.ok { s with ent := ent' }
    | .error why => Except.error why
  match o with
  | .ins _ _ v => .ok (s.addToken v)
  | .entry _ _ (.orInsert v _ _) => .ok (s.addToken v)
  | .ent (.delNow h) =>
    (match s.resolveH h with
     | some e => killEv [e]
     | none => .ok s)
  | .ent (.delBatch hs) =>
    (match resolveAll s.log hs with
     | some es => killEv es
     | none => .ok s)
  | .ent .delAll =>
    (match s.ent.step .deleteAll with
     | .ok ent' => .ok { s with ent := ent' }
     | .error why => .error why)
  | .ent .merge =>
    (match s.ent.step .merge with
     | .ok ent' => .ok { s with ent := ent' }
     | .error why => .error why)
  | .dropWorld => .ok { s with comps := Array.replicate numKinds none, queue := [], dropped := true }
  | _ => .ok s

/-- The full content of every registered storage after a fault: no destroyed value may be visible;
    the abstract maps are re-synchronised; values that are no longer anywhere are leaked (allowed). -/
def dumpLine (s : WSpec) (d : List (Nat × List (Nat × Int))) : Except String WSpec :=
  let vals := (d.map (fun kv => kv.2.map (·.2))).flatten
  if vals.any (fun v => v != 0 && s.graveyard.contains v) then
    .error "C19 a storage still exposes a value that has already been destroyed"
  else if !s.faulted then
    -- without a fault the dump must agree with the abstract maps
    if d.all (fun kv => (s.comp? kv.1).map msorted == some kv.2) then .ok s
    else .error "C04 storage content differs from the map"
  else
    let queued := (s.queue.map (fun a => match a with
      | .ins _ _ v => [v] | .insAll _ items => items.map (·.2) | _ => [])).flatten
    let keep := s.tokens.filter (fun v => vals.contains v || queued.contains v)
    let s := d.foldl (fun s kv => s.setComp kv.1 kv.2) s
    .ok { s with tokens := keep, leaked := s.leaked + (s.tokens.length - keep.length) }

/-- After a faulted `drop_world` nothing is owned any more; what was not destroyed is leaked. -/
def faultedLeak (s : WSpec) : WSpec :=
  if s.dropped && s.faulted then { s with leaked := s.leaked + s.tokens.length, tokens := [] } else s

/-- A top-level transcript line. -/
def topLine (s : WSpec) (o : WOp) (r : WRes) : Except String WSpec :=
  match s.finishMaintain with
  | .error why => .error why
  | .ok s =>
    match s.fault, r with
    | some _, .panic _ => s.faultedOp o
    | some _, _ => ({ s with fault := none }).op o r
    | none, _ => s.op o r

/-- A nested line `in TAG op => res`: must belong to the script at the head of the queue. -/
def nestedLine (s : WSpec) (tag : Nat) (o : WOp) (r : WRes) : Except String WSpec :=
  if !s.inMaintain then .error "C09 a queued script ran outside maintain" else
  match advance (s.queue.length + 1) s with
  | .error why => .error why
  | .ok s =>
    match s.queue with
    | .exec t (n + 1) started :: rest =>
      if t != tag then .error "C09 lazily queued scripts ran out of queue order" else
      (match (if started then .ok s else s.startScript tag) with
       | .error why => .error why
       | .ok s =>
         (match ({ s with queue := rest }).op o r with
          | .error why => .error why
          | .ok s' => .ok { s' with queue := .exec t n true :: s'.queue }))
    | _ => .error "C09 a script ran that was not at the head of the queue"

end WSpec
end SpecsModel
