/-
  How serde_json prints a value of a generated `…SaveloadData` type (compact form).
  This is the observation function of the C18 correspondence check, not part of the macro: it
  models `#[derive(Serialize)]` on the generated type (field identifiers / `serde(rename)` from the
  attributes `replace_attributes` put on the data type, externally tagged enums, newtype structs
  and variants printed as their content) and `SimpleMarker`'s own `Serialize` (`[id]`).
  Trusted, validated only by the differential run. No Mathlib.
-/
import SpecsModel.Derive.Model
namespace SpecsModel.Derive
open SpecsModel

def jsonStr (s : String) : String := "\"" ++ s ++ "\""

mutual
def PVal.json : PVal → String
  | .int i => toString i
  | .bool b => if b then "true" else "false"
  | .str s => jsonStr s
  | .none => "null"
  | .some v => v.json
  | .seq vs => "[" ++ ",".intercalate (PVal.jsonList vs) ++ "]"
def PVal.jsonList : List PVal → List String
  | [] => []
  | v :: vs => v.json :: PVal.jsonList vs
end

/-- `serde(rename = "x")` among the attribute texts of a data field / variant
    (spaces are not significant: `rename="x"` and `rename = "x"`). -/
def renameOf (attrs : List String) : Option String :=
  attrs.findSome? fun a =>
    let a := a.replace " " ""
    match a.splitOn "rename=\"" with
    | _ :: rest :: _ => (rest.splitOn "\"").head?
    | _ => none

def fieldKey (f : Field) : String :=
  let d := dataField f
  (renameOf d.attrs).getD (d.name.getD "?")

def variantKey (v : Variant) : String :=
  let d := dataVariant v
  (renameOf d.attrs).getD d.name

/-- The data field carries a forwarded `#[serde(skip)]` / `#[serde(skip, default)]`: serde leaves
    it out when serializing and fills in `Default::default()` when deserializing. -/
def serdeSkipped (f : Field) : Bool :=
  (dataField f).attrs.any fun a => (a.replace " " "").startsWith "serde(skip"

def jsonKeys (fs : List Field) : List String := (fs.filter (fun f => !serdeSkipped f)).map fieldKey

abbrev JEnv := List (DVal → String)

def jsonBad : String := "<not-serializable>"

def jsonObj (keys vals : List String) : String :=
  "{" ++ ",".intercalate (List.zipWith (fun k v => jsonStr k ++ ":" ++ v) keys vals) ++ "}"
def jsonArr (vals : List String) : String := "[" ++ ",".intercalate vals ++ "]"

mutual
/-- printer of `<ty as ConvertSaveload<MA>>::Data` -/
def jsonTy : Ty → JEnv → DVal → String
  | .entity, _ => fun d => match d with
    | .marker m => "[" ++ toString m ++ "]"
    | _ => jsonBad
  | .plain _, _ => fun d => match d with
    | .plain pv => pv.json
    | _ => jsonBad
  | .param n, env => (env[n]?).getD (fun _ => jsonBad)
  | .nested s args, env => jsonShape s (jsonTys args env)
  | .opaque, _ => fun _ => jsonBad
def jsonTys : List Ty → JEnv → JEnv
  | [], _ => []
  | t :: ts, env => jsonTy t env :: jsonTys ts env
def jsonField : Field → JEnv → DVal → String
  | .mk _ ty attrs, env =>
    if attrs.any Attr.isSkip then
      fun d => match d with
        | .keep (.plain pv) => pv.json      -- the type is unchanged, hence must be serde-serializable itself
        | _ => jsonBad
    else jsonTy ty env
/-- printed values of the fields that serde serializes (in order) -/
def jsonFields : List Field → JEnv → List DVal → List String
  | [], _ => fun _ => []
  | f :: fs, env => fun ds => match ds with
    | d :: ds' =>
      if serdeSkipped f then jsonFields fs env ds'
      else jsonField f env d :: jsonFields fs env ds'
    | [] => []
def jsonVariants : List Variant → JEnv → String → List DVal → String
  | [], _ => fun _ _ => jsonBad
  | .unit n a :: vs, env => fun name ds =>
    if name = n then jsonStr (variantKey (.unit n a)) else jsonVariants vs env name ds
  | .tuple n a fs :: vs, env => fun name ds =>
    if name = n then
      let vals := jsonFields fs env ds
      if fs.length = 1 then
        match vals with
        | [x] => "{" ++ jsonStr (variantKey (.tuple n a fs)) ++ ":" ++ x ++ "}"     -- newtype variant
        | _ => jsonStr (variantKey (.tuple n a fs))     -- its only field is under serde(skip): printed as a unit variant
      else "{" ++ jsonStr (variantKey (.tuple n a fs)) ++ ":" ++ jsonArr vals ++ "}"
    else jsonVariants vs env name ds
  | .named n a fs :: vs, env => fun name ds =>
    if name = n then
      "{" ++ jsonStr (variantKey (.named n a fs)) ++ ":" ++ jsonObj (jsonKeys fs) (jsonFields fs env ds) ++ "}"
    else jsonVariants vs env name ds
def jsonShape : Shape → JEnv → DVal → String
  | .namedStruct _ _ fs, env => fun d => match d with
    | .struct ds => jsonObj (jsonKeys fs) (jsonFields fs env ds)
    | _ => jsonBad
  | .tupleStruct _ _ fs, env => fun d => match d with
    | .struct ds =>
      let vals := jsonFields fs env ds
      if fs.length = 1 then vals.headD jsonBad                   -- newtype struct
      else jsonArr vals
    | _ => jsonBad
  | .enum _ _ vs, env => fun d => match d with
    | .variant n ds => jsonVariants vs env n ds
    | _ => jsonBad
end

mutual
/-- What survives `serde_json::to_string` followed by `from_str`: everything, except that fields
    under `serde(skip)` come back as `Default::default()`. In the supported grammar these are
    exactly the skipped fields of opaque type (`Opaque::default() = Opaque(0)`). -/
def DVal.serdeLoss : DVal → DVal
  | .keep (.opaque _) => .keep (.opaque 0)
  | .struct ds => .struct (DVal.serdeLossList ds)
  | .variant n ds => .variant n (DVal.serdeLossList ds)
  | .keep v => .keep v
  | .marker m => .marker m
  | .plain p => .plain p
def DVal.serdeLossList : List DVal → List DVal
  | [] => []
  | d :: ds => d.serdeLoss :: DVal.serdeLossList ds
end

/-- JSON of a data value of the closed type `ty`. -/
def dataJson (ty : Ty) (d : DVal) : String := jsonTy ty [] d

end SpecsModel.Derive
