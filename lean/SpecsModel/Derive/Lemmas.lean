/-
  Helper lemmas for C18: the logical relation `Good` ("this impl is total on its values, panics
  exactly on an unmarked entity, and round-trips under an inverse marker mapping") is satisfied
  by the two hand-written impls of src/saveload/mod.rs and preserved by every combinator the
  derive macro's generators are made of; hence, by structural induction over the grammar of type
  definitions, by every derived impl.
-/
import SpecsModel.Derive.Model
namespace SpecsModel.Derive
open SpecsModel

/-! ### `Out` plumbing -/

@[simp] theorem ok_bind {α β} (a : α) (f : α → Out β) : (Out.ok a >>= f) = f a := rfl
@[simp] theorem panic_bind {α β} (w : String) (f : α → Out β) : (Out.panic w >>= f) = Out.panic w := rfl
@[simp] theorem ub_bind {α β} (w : String) (f : α → Out β) : (Out.ub w >>= f) = Out.ub w := rfl
@[simp] theorem pure_eq_ok {α} (a : α) : (pure a : Out α) = Out.ok a := rfl
@[simp] theorem map_ok {α β} (f : α → β) (a : α) : (Out.ok a).map f = Out.ok (f a) := rfl
@[simp] theorem map_panic {α β} (f : α → β) (w : String) : (Out.panic w : Out α).map f = Out.panic w := rfl
@[simp] theorem map_ub {α β} (f : α → β) (w : String) : (Out.ub w : Out α).map f = Out.ub w := rfl

theorem bind_eq_ok {α β} {x : Out α} {f : α → Out β} {b : β} :
    (x >>= f) = Out.ok b ↔ ∃ a, x = Out.ok a ∧ f a = Out.ok b := by
  cases x <;> simp

theorem map_eq_ok {α β} {x : Out α} {f : α → β} {b : β} :
    x.map f = Out.ok b ↔ ∃ a, x = Out.ok a ∧ f a = b := by
  cases x <;> simp

/-! ### The relation -/

/-- Every entity of `l` has a marker. -/
def AllMarked (ids : Ids) (l : List Entity) : Prop := ∀ e ∈ l, ∃ m, ids e = some m
/-- `ents` inverts `ids` on `l` (which makes `ids` injective on `l`). -/
def InverseOn (ids : Ids) (ents : Ents) (l : List Entity) : Prop :=
  ∀ e ∈ l, ∀ m, ids e = some m → ents m = some e
/-- Some entity of `l` is mapped to a marker that `ents` does not resolve. -/
def SomeUnresolved (ids : Ids) (ents : Ents) (l : List Entity) : Prop :=
  ∃ e ∈ l, ∀ m, ids e = some m → ents m = none

theorem allMarked_append {ids : Ids} {a b : List Entity} :
    AllMarked ids (a ++ b) ↔ AllMarked ids a ∧ AllMarked ids b := by
  simp only [AllMarked, List.mem_append]
  constructor
  · intro h; exact ⟨fun e he => h e (Or.inl he), fun e he => h e (Or.inr he)⟩
  · rintro ⟨h1, h2⟩ e (he | he); exact h1 e he; exact h2 e he

theorem inverseOn_append {ids : Ids} {ents : Ents} {a b : List Entity} :
    InverseOn ids ents (a ++ b) ↔ InverseOn ids ents a ∧ InverseOn ids ents b := by
  simp only [InverseOn, List.mem_append]
  constructor
  · intro h; exact ⟨fun e he => h e (Or.inl he), fun e he => h e (Or.inr he)⟩
  · rintro ⟨h1, h2⟩ e (he | he); exact h1 e he; exact h2 e he

theorem allMarked_or_unmarked (ids : Ids) (l : List Entity) :
    AllMarked ids l ∨ ∃ e ∈ l, ids e = none := by
  induction l with
  | nil => left; intro e he; cases he
  | cons a l ih =>
    cases h : ids a with
    | none => right; exact ⟨a, List.mem_cons_self, h⟩
    | some m =>
      rcases ih with ih | ⟨e, he, hn⟩
      · left; intro e he
        rcases List.mem_cons.mp he with rfl | he
        · exact ⟨m, h⟩
        · exact ih e he
      · right; exact ⟨e, List.mem_cons_of_mem _ he, hn⟩

structure Good (i : Impl) : Prop where
  into_ok : ∀ ids v, i.wt v = true → AllMarked ids (i.occ v) → ∃ d, i.into ids v = .ok d
  into_panic : ∀ ids v, i.wt v = true → (∃ e ∈ i.occ v, ids e = none) → i.into ids v = .panic unwrapNone
  round_trip : ∀ ids ents v d, i.wt v = true → i.into ids v = .ok d →
    InverseOn ids ents (i.occ v) → i.from_ ents d = .ok v
  from_total : ∀ ids ents v d, i.wt v = true → i.into ids v = .ok d →
    (∃ v', i.from_ ents d = .ok v') ∨ i.from_ ents d = .panic unwrapNone
  from_panic : ∀ ids ents v d, i.wt v = true → i.into ids v = .ok d →
    SomeUnresolved ids ents (i.occ v) → i.from_ ents d = .panic unwrapNone

structure GoodF (a : FImpl) : Prop where
  into_ok : ∀ ids vs, a.wt vs = true → AllMarked ids (a.occ vs) → ∃ ds, a.into ids vs = .ok ds
  into_panic : ∀ ids vs, a.wt vs = true → (∃ e ∈ a.occ vs, ids e = none) → a.into ids vs = .panic unwrapNone
  round_trip : ∀ ids ents vs ds, a.wt vs = true → a.into ids vs = .ok ds →
    InverseOn ids ents (a.occ vs) → a.from_ ents ds = .ok vs
  from_total : ∀ ids ents vs ds, a.wt vs = true → a.into ids vs = .ok ds →
    (∃ vs', a.from_ ents ds = .ok vs') ∨ a.from_ ents ds = .panic unwrapNone
  from_panic : ∀ ids ents vs ds, a.wt vs = true → a.into ids vs = .ok ds →
    SomeUnresolved ids ents (a.occ vs) → a.from_ ents ds = .panic unwrapNone

structure GoodV (a : VImpl) : Prop where
  into_ok : ∀ ids n vs, a.wt n vs = true → AllMarked ids (a.occ n vs) → ∃ ds, a.into ids n vs = .ok (.variant n ds)
  into_panic : ∀ ids n vs, a.wt n vs = true → (∃ e ∈ a.occ n vs, ids e = none) → a.into ids n vs = .panic unwrapNone
  into_shape : ∀ ids n vs d, a.into ids n vs = .ok d → ∃ ds, d = .variant n ds
  round_trip : ∀ ids ents n vs ds, a.wt n vs = true → a.into ids n vs = .ok (.variant n ds) →
    InverseOn ids ents (a.occ n vs) → a.from_ ents n ds = .ok (.variant n vs)
  from_total : ∀ ids ents n vs ds, a.wt n vs = true → a.into ids n vs = .ok (.variant n ds) →
    (∃ v', a.from_ ents n ds = .ok v') ∨ a.from_ ents n ds = .panic unwrapNone
  from_panic : ∀ ids ents n vs ds, a.wt n vs = true → a.into ids n vs = .ok (.variant n ds) →
    SomeUnresolved ids ents (a.occ n vs) → a.from_ ents n ds = .panic unwrapNone

def GoodEnv (env : List Impl) : Prop := ∀ i ∈ env, Good i

/-! ### The hand-written impls -/

theorem good_entity : Good Impl.entity where
  into_ok ids v hw hm := by
    cases v <;> simp [Impl.entity] at hw
    rename_i e
    obtain ⟨m, hm⟩ := hm e (by simp [Impl.entity])
    exact ⟨.marker m, by simp [Impl.entity, hm]⟩
  into_panic ids v hw hm := by
    cases v <;> simp [Impl.entity] at hw
    rename_i e
    obtain ⟨e', he', hn⟩ := hm
    simp [Impl.entity] at he'; subst he'
    simp [Impl.entity, hn]
  round_trip ids ents v d hw hi hinv := by
    cases v <;> simp [Impl.entity] at hw
    rename_i e
    simp only [Impl.entity] at hi
    cases hid : ids e with
    | none => simp [hid] at hi
    | some m =>
      simp [hid] at hi; subst hi
      have := hinv e (by simp [Impl.entity]) m hid
      simp [Impl.entity, this]
  from_total ids ents v d hw hi := by
    cases v <;> simp [Impl.entity] at hw
    rename_i e
    simp only [Impl.entity] at hi
    cases hid : ids e with
    | none => simp [hid] at hi
    | some m =>
      simp [hid] at hi; subst hi
      cases he : ents m <;> simp [Impl.entity, he]
  from_panic ids ents v d hw hi hu := by
    cases v <;> simp [Impl.entity] at hw
    rename_i e
    simp only [Impl.entity] at hi
    cases hid : ids e with
    | none => simp [hid] at hi
    | some m =>
      simp [hid] at hi; subst hi
      obtain ⟨e', he', hn⟩ := hu
      simp [Impl.entity] at he'; subst he'
      simp [Impl.entity, hn m hid]

theorem good_plain (p : PTy) : Good (Impl.plain p) where
  into_ok ids v hw _ := by
    cases v <;> simp [Impl.plain] at hw
    exact ⟨_, rfl⟩
  into_panic ids v _ hm := by
    obtain ⟨e, he, _⟩ := hm
    simp [Impl.plain] at he
  round_trip ids ents v d hw hi _ := by
    cases v <;> simp [Impl.plain] at hw
    simp [Impl.plain] at hi; subst hi
    simp [Impl.plain]
  from_total ids ents v d hw hi := by
    cases v <;> simp [Impl.plain] at hw
    simp [Impl.plain] at hi; subst hi
    simp [Impl.plain]
  from_panic ids ents v d _ _ hu := by
    obtain ⟨e, he, _⟩ := hu
    simp [Impl.plain] at he

theorem good_unbound : Good Impl.unbound where
  into_ok _ _ hw _ := by simp [Impl.unbound] at hw
  into_panic _ _ hw _ := by simp [Impl.unbound] at hw
  round_trip _ _ _ _ hw _ _ := by simp [Impl.unbound] at hw
  from_total _ _ _ _ hw _ := by simp [Impl.unbound] at hw
  from_panic _ _ _ _ hw _ _ := by simp [Impl.unbound] at hw

theorem good_skipped (i : Impl) : Good (Impl.skipped i) where
  into_ok ids v _ _ := ⟨.keep v, rfl⟩
  into_panic ids v _ hm := by
    obtain ⟨e, he, _⟩ := hm
    simp [Impl.skipped] at he
  round_trip ids ents v d _ hi _ := by
    simp [Impl.skipped] at hi; subst hi
    simp [Impl.skipped]
  from_total ids ents v d _ hi := by
    simp [Impl.skipped] at hi; subst hi
    simp [Impl.skipped]
  from_panic ids ents v d _ _ hu := by
    obtain ⟨e, he, _⟩ := hu
    simp [Impl.skipped] at he

/-! ### The generators' combinators -/

theorem goodF_nil : GoodF FImpl.nil where
  into_ok ids vs hw _ := by
    cases vs <;> simp [FImpl.nil] at hw
    exact ⟨[], by simp [FImpl.nil]⟩
  into_panic ids vs _ hm := by
    obtain ⟨e, he, _⟩ := hm
    simp [FImpl.nil] at he
  round_trip ids ents vs ds hw hi _ := by
    cases vs <;> simp [FImpl.nil] at hw
    simp [FImpl.nil] at hi; subst hi
    simp [FImpl.nil]
  from_total ids ents vs ds hw hi := by
    cases vs <;> simp [FImpl.nil] at hw
    simp [FImpl.nil] at hi; subst hi
    simp [FImpl.nil]
  from_panic ids ents vs ds _ _ hu := by
    obtain ⟨e, he, _⟩ := hu
    simp [FImpl.nil] at he

theorem cons_into (a : Impl) (r : FImpl) (ids : Ids) (v : Val) (vs : List Val) :
    (FImpl.cons a r).into ids (v :: vs) =
      (a.into ids v >>= fun d => r.into ids vs >>= fun ds => pure (d :: ds)) := rfl
theorem cons_from (a : Impl) (r : FImpl) (ents : Ents) (d : DVal) (ds : List DVal) :
    (FImpl.cons a r).from_ ents (d :: ds) =
      (a.from_ ents d >>= fun v => r.from_ ents ds >>= fun vs => pure (v :: vs)) := rfl
theorem cons_wt (a : Impl) (r : FImpl) (v : Val) (vs : List Val) :
    (FImpl.cons a r).wt (v :: vs) = (a.wt v && r.wt vs) := rfl
theorem cons_occ (a : Impl) (r : FImpl) (v : Val) (vs : List Val) :
    (FImpl.cons a r).occ (v :: vs) = a.occ v ++ r.occ vs := rfl

theorem cons_into_ok {a : Impl} {r : FImpl} {ids : Ids} {v : Val} {vs : List Val} {dd : List DVal}
    (h : (FImpl.cons a r).into ids (v :: vs) = .ok dd) :
    ∃ d ds, dd = d :: ds ∧ a.into ids v = .ok d ∧ r.into ids vs = .ok ds := by
  rw [cons_into] at h
  obtain ⟨d, hd, h⟩ := bind_eq_ok.mp h
  obtain ⟨ds, hds, h⟩ := bind_eq_ok.mp h
  simp at h
  exact ⟨d, ds, h.symm, hd, hds⟩

theorem goodF_cons {a : Impl} {r : FImpl} (ha : Good a) (hr : GoodF r) : GoodF (FImpl.cons a r) where
  into_ok ids vs hw hm := by
    cases vs with
    | nil => simp [FImpl.cons] at hw
    | cons v vs =>
      rw [cons_wt, Bool.and_eq_true] at hw
      rw [cons_occ, allMarked_append] at hm
      obtain ⟨d, hd⟩ := ha.into_ok ids v hw.1 hm.1
      obtain ⟨ds, hds⟩ := hr.into_ok ids vs hw.2 hm.2
      exact ⟨d :: ds, by simp [cons_into, hd, hds]⟩
  into_panic ids vs hw hm := by
    cases vs with
    | nil => simp [FImpl.cons] at hw
    | cons v vs =>
      rw [cons_wt, Bool.and_eq_true] at hw
      rw [cons_occ] at hm
      rcases allMarked_or_unmarked ids (a.occ v) with hall | hun
      · obtain ⟨d, hd⟩ := ha.into_ok ids v hw.1 hall
        obtain ⟨e, he, hn⟩ := hm
        rcases List.mem_append.mp he with he | he
        · obtain ⟨m, hm⟩ := hall e he
          rw [hm] at hn; cases hn
        · have := hr.into_panic ids vs hw.2 ⟨e, he, hn⟩
          simp [cons_into, hd, this]
      · have := ha.into_panic ids v hw.1 hun
        simp [cons_into, this]
  round_trip ids ents vs dd hw hi hinv := by
    cases vs with
    | nil => simp [FImpl.cons] at hw
    | cons v vs =>
      rw [cons_wt, Bool.and_eq_true] at hw
      rw [cons_occ, inverseOn_append] at hinv
      obtain ⟨d, ds, rfl, hd, hds⟩ := cons_into_ok hi
      have h1 := ha.round_trip ids ents v d hw.1 hd hinv.1
      have h2 := hr.round_trip ids ents vs ds hw.2 hds hinv.2
      simp [cons_from, h1, h2]
  from_total ids ents vs dd hw hi := by
    cases vs with
    | nil => simp [FImpl.cons] at hw
    | cons v vs =>
      rw [cons_wt, Bool.and_eq_true] at hw
      obtain ⟨d, ds, rfl, hd, hds⟩ := cons_into_ok hi
      rcases ha.from_total ids ents v d hw.1 hd with ⟨v', h1⟩ | h1
      · rcases hr.from_total ids ents vs ds hw.2 hds with ⟨vs', h2⟩ | h2
        · left; exact ⟨v' :: vs', by simp [cons_from, h1, h2]⟩
        · right; simp [cons_from, h1, h2]
      · right; simp [cons_from, h1]
  from_panic ids ents vs dd hw hi hu := by
    cases vs with
    | nil => simp [FImpl.cons] at hw
    | cons v vs =>
      rw [cons_wt, Bool.and_eq_true] at hw
      obtain ⟨d, ds, rfl, hd, hds⟩ := cons_into_ok hi
      obtain ⟨e, he, hn⟩ := hu
      rw [cons_occ] at he
      rcases List.mem_append.mp he with he | he
      · have := ha.from_panic ids ents v d hw.1 hd ⟨e, he, hn⟩
        simp [cons_from, this]
      · have h2 := hr.from_panic ids ents vs ds hw.2 hds ⟨e, he, hn⟩
        rcases ha.from_total ids ents v d hw.1 hd with ⟨v', h1⟩ | h1
        · simp [cons_from, h1, h2]
        · simp [cons_from, h1]

theorem goodV_nil : GoodV VImpl.nil where
  into_ok _ _ _ hw _ := by simp [VImpl.nil] at hw
  into_panic _ _ _ hw _ := by simp [VImpl.nil] at hw
  into_shape _ _ _ _ hi := by simp [VImpl.nil] at hi
  round_trip _ _ _ _ _ hw _ _ := by simp [VImpl.nil] at hw
  from_total _ _ _ _ _ hw _ := by simp [VImpl.nil] at hw
  from_panic _ _ _ _ _ hw _ _ := by simp [VImpl.nil] at hw

theorem goodV_cons (ident : String) {a : FImpl} {r : VImpl} (ha : GoodF a) (hr : GoodV r) :
    GoodV (VImpl.cons ident a r) where
  into_ok ids n vs hw hm := by
    simp only [VImpl.cons] at hw hm ⊢
    split
    · rename_i h; subst h
      simp only [↓reduceIte] at hw hm
      obtain ⟨ds, hds⟩ := ha.into_ok ids vs hw hm
      exact ⟨ds, by simp [hds]⟩
    · rename_i h
      simp only [if_neg h] at hw hm
      exact hr.into_ok ids n vs hw hm
  into_panic ids n vs hw hm := by
    simp only [VImpl.cons] at hw hm ⊢
    split
    · rename_i h; subst h
      simp only [↓reduceIte] at hw hm
      simp [ha.into_panic ids vs hw hm]
    · rename_i h
      simp only [if_neg h] at hw hm
      exact hr.into_panic ids n vs hw hm
  into_shape ids n vs d hi := by
    simp only [VImpl.cons] at hi
    split at hi
    · rename_i h; subst h
      obtain ⟨ds, _, h⟩ := map_eq_ok.mp hi
      exact ⟨ds, h.symm⟩
    · exact hr.into_shape ids n vs d hi
  round_trip ids ents n vs ds hw hi hinv := by
    simp only [VImpl.cons] at hw hi hinv ⊢
    split
    · rename_i h; subst h
      simp only [↓reduceIte] at hw hi hinv
      obtain ⟨ds', hds, h⟩ := map_eq_ok.mp hi
      cases h
      simp [ha.round_trip ids ents vs ds hw hds hinv]
    · rename_i h
      simp only [if_neg h] at hw hi hinv
      exact hr.round_trip ids ents n vs ds hw hi hinv
  from_total ids ents n vs ds hw hi := by
    simp only [VImpl.cons] at hw hi ⊢
    split
    · rename_i h; subst h
      simp only [↓reduceIte] at hw hi
      obtain ⟨ds', hds, h⟩ := map_eq_ok.mp hi
      cases h
      rcases ha.from_total ids ents vs ds hw hds with ⟨vs', h⟩ | h
      · left; exact ⟨.variant n vs', by simp [h]⟩
      · right; simp [h]
    · rename_i h
      simp only [if_neg h] at hw hi
      exact hr.from_total ids ents n vs ds hw hi
  from_panic ids ents n vs ds hw hi hu := by
    simp only [VImpl.cons] at hw hi hu ⊢
    split
    · rename_i h; subst h
      simp only [↓reduceIte] at hw hi hu
      obtain ⟨ds', hds, h⟩ := map_eq_ok.mp hi
      cases h
      simp [ha.from_panic ids ents vs ds hw hds hu]
    · rename_i h
      simp only [if_neg h] at hw hi hu
      exact hr.from_panic ids ents n vs ds hw hi hu

theorem good_ofStruct {a : FImpl} (ha : GoodF a) : Good (Impl.ofStruct a) where
  into_ok ids v hw hm := by
    cases v <;> simp [Impl.ofStruct] at hw
    rename_i vs
    obtain ⟨ds, hds⟩ := ha.into_ok ids vs hw hm
    exact ⟨.struct ds, by simp [Impl.ofStruct, hds]⟩
  into_panic ids v hw hm := by
    cases v <;> simp [Impl.ofStruct] at hw
    rename_i vs
    simp [Impl.ofStruct, ha.into_panic ids vs hw hm]
  round_trip ids ents v d hw hi hinv := by
    cases v <;> simp [Impl.ofStruct] at hw
    rename_i vs
    obtain ⟨ds, hds, rfl⟩ := map_eq_ok.mp hi
    simp [Impl.ofStruct, ha.round_trip ids ents vs ds hw hds hinv]
  from_total ids ents v d hw hi := by
    cases v <;> simp [Impl.ofStruct] at hw
    rename_i vs
    obtain ⟨ds, hds, rfl⟩ := map_eq_ok.mp hi
    rcases ha.from_total ids ents vs ds hw hds with ⟨vs', h⟩ | h
    · left; exact ⟨.struct vs', by simp [Impl.ofStruct, h]⟩
    · right; simp [Impl.ofStruct, h]
  from_panic ids ents v d hw hi hu := by
    cases v <;> simp [Impl.ofStruct] at hw
    rename_i vs
    obtain ⟨ds, hds, rfl⟩ := map_eq_ok.mp hi
    simp [Impl.ofStruct, ha.from_panic ids ents vs ds hw hds hu]

theorem good_ofEnum {a : VImpl} (ha : GoodV a) : Good (Impl.ofEnum a) where
  into_ok ids v hw hm := by
    cases v <;> simp [Impl.ofEnum] at hw
    rename_i n vs
    obtain ⟨ds, hds⟩ := ha.into_ok ids n vs hw hm
    exact ⟨.variant n ds, by simp [Impl.ofEnum, hds]⟩
  into_panic ids v hw hm := by
    cases v <;> simp [Impl.ofEnum] at hw
    rename_i n vs
    simp [Impl.ofEnum, ha.into_panic ids n vs hw hm]
  round_trip ids ents v d hw hi hinv := by
    cases v <;> simp [Impl.ofEnum] at hw
    rename_i n vs
    have hi' : a.into ids n vs = .ok d := hi
    obtain ⟨ds, rfl⟩ := ha.into_shape ids n vs d hi'
    exact ha.round_trip ids ents n vs ds hw hi' hinv
  from_total ids ents v d hw hi := by
    cases v <;> simp [Impl.ofEnum] at hw
    rename_i n vs
    have hi' : a.into ids n vs = .ok d := hi
    obtain ⟨ds, rfl⟩ := ha.into_shape ids n vs d hi'
    exact ha.from_total ids ents n vs ds hw hi'
  from_panic ids ents v d hw hi hu := by
    cases v <;> simp [Impl.ofEnum] at hw
    rename_i n vs
    have hi' : a.into ids n vs = .ok d := hi
    obtain ⟨ds, rfl⟩ := ha.into_shape ids n vs d hi'
    exact ha.from_panic ids ents n vs ds hw hi' hu

/-! ### Structural induction over the grammar -/

mutual
theorem good_implTy : ∀ (ty : Ty) (env : List Impl), ty.convertible = true → GoodEnv env → Good (implTy ty env)
  | .entity, _, _, _ => by rw [implTy]; exact good_entity
  | .plain p, _, _, _ => by rw [implTy]; exact good_plain p
  | .opaque, _, hc, _ => by simp [Ty.convertible] at hc
  | .param n, env, _, h => by
    rw [implTy]
    cases hn : env[n]? with
    | none => simpa using good_unbound
    | some i => simpa using h i (List.mem_of_getElem? hn)
  | .nested s args, env, hc, h => by
    rw [Ty.convertible, Bool.and_eq_true] at hc
    rw [implTy]; exact good_implShape s _ hc.1 (good_implTys args env hc.2 h)
theorem good_implTys : ∀ (tys : List Ty) (env : List Impl), Ty.convertibleAll tys = true → GoodEnv env → GoodEnv (implTys tys env)
  | [], _, _, _ => by rw [implTys]; intro i hi; cases hi
  | t :: ts, env, hc, h => by
    rw [Ty.convertibleAll, Bool.and_eq_true] at hc
    rw [implTys]; intro i hi
    rcases List.mem_cons.mp hi with rfl | hi
    · exact good_implTy t env hc.1 h
    · exact good_implTys ts env hc.2 h i hi
theorem good_implField : ∀ (f : Field) (env : List Impl), f.convertible = true → GoodEnv env → Good (implField f env)
  | .mk _ ty attrs, env, hc, h => by
    rw [implField]
    split
    · exact good_skipped _
    · rename_i hs
      rw [Field.convertible, Bool.or_eq_true] at hc
      rcases hc with hc | hc
      · exact absurd hc hs
      · exact good_implTy ty env hc h
theorem good_implFields : ∀ (fs : List Field) (env : List Impl), Field.convertibleAll fs = true → GoodEnv env → GoodF (implFields fs env)
  | [], _, _, _ => by rw [implFields]; exact goodF_nil
  | f :: fs, env, hc, h => by
    rw [Field.convertibleAll, Bool.and_eq_true] at hc
    rw [implFields]; exact goodF_cons (good_implField f env hc.1 h) (good_implFields fs env hc.2 h)
theorem good_implVariants : ∀ (vs : List Variant) (env : List Impl), Variant.convertibleAll vs = true → GoodEnv env → GoodV (implVariants vs env)
  | [], _, _, _ => by rw [implVariants]; exact goodV_nil
  | .unit n _ :: vs, env, hc, h => by
    rw [Variant.convertibleAll] at hc
    rw [implVariants]; exact goodV_cons n goodF_nil (good_implVariants vs env hc h)
  | .tuple n _ fs :: vs, env, hc, h => by
    rw [Variant.convertibleAll, Bool.and_eq_true] at hc
    rw [implVariants]; exact goodV_cons n (good_implFields fs env hc.1 h) (good_implVariants vs env hc.2 h)
  | .named n _ fs :: vs, env, hc, h => by
    rw [Variant.convertibleAll, Bool.and_eq_true] at hc
    rw [implVariants]; exact goodV_cons n (good_implFields fs env hc.1 h) (good_implVariants vs env hc.2 h)
theorem good_implShape : ∀ (s : Shape) (env : List Impl), s.convertible = true → GoodEnv env → Good (implShape s env)
  | .namedStruct _ _ fs, env, hc, h => by
    rw [Shape.convertible] at hc
    rw [implShape]; exact good_ofStruct (good_implFields fs env hc h)
  | .tupleStruct _ _ fs, env, hc, h => by
    rw [Shape.convertible] at hc
    rw [implShape]; exact good_ofStruct (good_implFields fs env hc h)
  | .enum _ _ vs, env, hc, h => by
    rw [Shape.convertible] at hc
    rw [implShape]; exact good_ofEnum (good_implVariants vs env hc h)
end

theorem goodEnv_nil : GoodEnv [] := by intro i hi; cases hi

end SpecsModel.Derive
