/-
  Helper lemmas for C18, part 2: field-wise characterisation of the generated functions,
  facts about the generated data type, `replace_entity_type` on plain types, `impl_component`.
-/
import SpecsModel.Derive.Lemmas
namespace SpecsModel.Derive
open SpecsModel

/-! ### Field initialisers -/

theorem implField_skip {f : Field} (env : List Impl) (h : f.skip = true) :
    implField f env = Impl.skipped (implTy f.ty env) := by
  obtain ⟨n, ty, attrs⟩ := f
  simp only [Field.skip, Field.attrs] at h
  simp [implField, h, Field.ty]

theorem implField_noskip {f : Field} (env : List Impl) (h : f.skip = false) :
    implField f env = implTy f.ty env := by
  obtain ⟨n, ty, attrs⟩ := f
  simp only [Field.skip, Field.attrs] at h
  simp [implField, h, Field.ty]

/-- `convert_into` of a field list: same length, and the i-th result is the i-th field's own
    conversion of the i-th value. -/
theorem implFields_into_fieldwise : ∀ (fs : List Field) (env : List Impl) (ids : Ids) (vs : List Val) (ds : List DVal),
    (implFields fs env).into ids vs = .ok ds →
    vs.length = fs.length ∧ ds.length = fs.length ∧
    ∀ (i : Nat) (f : Field), fs[i]? = some f → ∃ v d, vs[i]? = some v ∧ ds[i]? = some d ∧ (implField f env).into ids v = .ok d := by
  intro fs
  induction fs with
  | nil =>
    intro env ids vs ds h
    rw [implFields] at h
    cases vs <;> simp [FImpl.nil] at h
    subst h; simp
  | cons f fs ih =>
    intro env ids vs ds h
    rw [implFields] at h
    cases vs with
    | nil => simp [FImpl.cons] at h
    | cons v vs =>
      obtain ⟨d, ds', rfl, hd, hds⟩ := cons_into_ok h
      obtain ⟨h1, h2, h3⟩ := ih env ids vs ds' hds
      refine ⟨by simp [h1], by simp [h2], ?_⟩
      intro i g hg
      cases i with
      | zero => simp at hg; subst hg; exact ⟨v, d, by simp, by simp, hd⟩
      | succ i => simp at hg; simpa using h3 i g hg

theorem cons_from_ok {a : Impl} {r : FImpl} {ents : Ents} {d : DVal} {ds : List DVal} {vv : List Val}
    (h : (FImpl.cons a r).from_ ents (d :: ds) = .ok vv) :
    ∃ v vs, vv = v :: vs ∧ a.from_ ents d = .ok v ∧ r.from_ ents ds = .ok vs := by
  rw [cons_from] at h
  obtain ⟨v, hv, h⟩ := bind_eq_ok.mp h
  obtain ⟨vs, hvs, h⟩ := bind_eq_ok.mp h
  simp at h
  exact ⟨v, vs, h.symm, hv, hvs⟩

/-- `convert_from` of a field list, field-wise. -/
theorem implFields_from_fieldwise : ∀ (fs : List Field) (env : List Impl) (ents : Ents) (ds : List DVal) (vs : List Val),
    (implFields fs env).from_ ents ds = .ok vs →
    ds.length = fs.length ∧ vs.length = fs.length ∧
    ∀ (i : Nat) (f : Field), fs[i]? = some f → ∃ d v, ds[i]? = some d ∧ vs[i]? = some v ∧ (implField f env).from_ ents d = .ok v := by
  intro fs
  induction fs with
  | nil =>
    intro env ents ds vs h
    rw [implFields] at h
    cases ds <;> simp [FImpl.nil] at h
    subst h; simp
  | cons f fs ih =>
    intro env ents ds vs h
    rw [implFields] at h
    cases ds with
    | nil => simp [FImpl.cons] at h
    | cons d ds =>
      obtain ⟨v, vs', rfl, hv, hvs⟩ := cons_from_ok h
      obtain ⟨h1, h2, h3⟩ := ih env ents ds vs' hvs
      refine ⟨by simp [h1], by simp [h2], ?_⟩
      intro i g hg
      cases i with
      | zero => simp at hg; subst hg; exact ⟨d, v, by simp, by simp, hv⟩
      | succ i => simp at hg; simpa using h3 i g hg

/-! ### Match arms -/

/-- The fields of a unit variant form the empty initialiser list. -/
theorem implFields_nil (env : List Impl) : implFields [] env = FImpl.nil := by rw [implFields]

theorem implVariants_cons (var : Variant) (vars : List Variant) (env : List Impl) :
    implVariants (var :: vars) env = VImpl.cons var.name (implFields var.fields env) (implVariants vars env) := by
  cases var <;> rw [implVariants] <;> simp [Variant.name, Variant.fields, implFields_nil]

/-- The generated `match *self` runs the arm of the first (in Rust: the only) variant carrying the
    value's identifier, and produces the data variant of the **same identifier**. -/
theorem implVariants_into (vars : List Variant) (env : List Impl) (ids : Ids) (n : String) (vs : List Val) :
    (implVariants vars env).into ids n vs =
      match vars.find? (fun x => x.name = n) with
      | some var => ((implFields var.fields env).into ids vs).map (DVal.variant n)
      | none => .ub illTyped := by
  induction vars with
  | nil => rw [implVariants]; simp [VImpl.nil]
  | cons var vars ih =>
    rw [implVariants_cons]
    simp only [VImpl.cons, List.find?_cons]
    by_cases h : n = var.name
    · subst h; simp
    · have h' : ¬ var.name = n := fun e => h e.symm
      simp [h, h', ih]

theorem implVariants_from (vars : List Variant) (env : List Impl) (ents : Ents) (n : String) (ds : List DVal) :
    (implVariants vars env).from_ ents n ds =
      match vars.find? (fun x => x.name = n) with
      | some var => ((implFields var.fields env).from_ ents ds).map (Val.variant n)
      | none => .ub illTyped := by
  induction vars with
  | nil => rw [implVariants]; simp [VImpl.nil]
  | cons var vars ih =>
    rw [implVariants_cons]
    simp only [VImpl.cons, List.find?_cons]
    by_cases h : n = var.name
    · subst h; simp
    · have h' : ¬ var.name = n := fun e => h e.symm
      simp [h, h', ih]

/-! ### The generated data type -/

theorem dataVariant_name (v : Variant) : (dataVariant v).name = v.name := by
  cases v <;> rfl
theorem dataVariant_attrs (v : Variant) : (dataVariant v).attrs = replaceAttributes v.attrs := by
  cases v <;> rfl
theorem dataVariant_fields (v : Variant) : (dataVariant v).fields = v.fields.map dataField := by
  cases v <;> rfl

theorem mem_replaceAttributes (attrs : List Attr) (t : String) :
    t ∈ replaceAttributes attrs ↔ Attr.forward t ∈ attrs ∨ Attr.other t ∈ attrs := by
  simp only [replaceAttributes, List.mem_filterMap]
  constructor
  · rintro ⟨a, ha, h⟩
    cases a with
    | skip => simp at h
    | forward inner => simp at h; subst h; exact Or.inl ha
    | other x => simp at h; subst h; exact Or.inr ha
  · rintro (h | h)
    · exact ⟨_, h, rfl⟩
    · exact ⟨_, h, rfl⟩

/- `normP d = some p`: the rewritten type `d` denotes the plain type `p` once every
    `<q as ConvertSaveload<MA>>::Data` is normalised with the blanket impl (`Data = Self`). -/
mutual
def DTy.normP : DTy → Option PTy
  | .proj (.plain p) => some p
  | .proj _ => none
  | .orig _ => none
  | .tuple ts => (DTy.normPs ts).map PTy.tuple
  | .array t n => (DTy.normP t).map (fun p => PTy.array p n)
  | .paren t => (DTy.normP t).map PTy.paren
def DTy.normPs : List DTy → Option (List PTy)
  | [] => some []
  | t :: ts => match DTy.normP t, DTy.normPs ts with
    | some p, some ps => some (p :: ps)
    | _, _ => none
end

mutual
theorem replP_norm : ∀ p : PTy, (replP p).normP = some p
  | .tuple ts => by rw [replP, DTy.normP, replPs_norm ts]; rfl
  | .array t n => by rw [replP, DTy.normP, replP_norm t]; rfl
  | .paren t => by rw [replP, DTy.normP, replP_norm t]; rfl
  | .u8 => by rw [replP, DTy.normP]
  | .u32 => by rw [replP, DTy.normP]
  | .i64 => by rw [replP, DTy.normP]
  | .bool => by rw [replP, DTy.normP]
  | .string => by rw [replP, DTy.normP]
  | .option t => by rw [replP, DTy.normP]
  | .vec t => by rw [replP, DTy.normP]
theorem replPs_norm : ∀ ps : List PTy, DTy.normPs (replPs ps) = some ps
  | [] => by rw [replPs, DTy.normPs]
  | p :: ps => by rw [replPs, DTy.normPs, replP_norm p, replPs_norm ps]
end

/-! ### `impl_component` -/

theorem findSome_storage_none (attrs : List TAttr) (h : ∀ a ∈ attrs, a.storagePath? = none) :
    attrs.findSome? TAttr.storagePath? = none := by
  induction attrs with
  | nil => rfl
  | cons a l ih =>
    simp only [List.findSome?_cons, h a List.mem_cons_self]
    exact ih (fun b hb => h b (List.mem_cons_of_mem _ hb))

theorem findSome_storage_first (pre post : List TAttr) (p : List Seg)
    (h : ∀ a ∈ pre, a.storagePath? = none) :
    (pre ++ TAttr.storage p :: post).findSome? TAttr.storagePath? = some p := by
  induction pre with
  | nil => simp only [List.nil_append, List.findSome?_cons]; rfl
  | cons a l ih =>
    simp only [List.cons_append, List.findSome?_cons, h a List.mem_cons_self]
    exact ih (fun b hb => h b (List.mem_cons_of_mem _ hb))

end SpecsModel.Derive
