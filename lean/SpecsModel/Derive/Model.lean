/-
  Model of the derive macros of /repo/specs-derive — the macros' *meaning*, not their tokens.

    specs-derive/src/lib.rs            impl_component                      → `implComponent`
    specs-derive/src/impl_saveload.rs  saveload_named_struct / _tuple_struct / _enum,
                                       convert_fields_to_metadata, replace_field,
                                       replace_entity_type, replace_attributes → `dataShape`, `implShape`
    src/saveload/mod.rs                impl ConvertSaveload for Entity         → `Impl.entity`
                                       blanket impl for Clone+Serialize+..     → `Impl.plain`

  A derive macro is a program transformer: its input is a type definition (`Shape`), its output
  a second type definition (`DShape`, the `…SaveloadData` type) and two functions
  (`convert_into`, `convert_from`).  The generated functions call
  `ConvertSaveload::convert_into(&self.f, &mut ids)?` on every field; which impl that call resolves
  to is decided by rustc from the field's type: `Entity` (marker lookup + `unwrap`), a type covered
  by the blanket impl (clone), another deriving type (recursively the derived impl), or a generic
  parameter `T` (the impl supplied by the where clause `T: ConvertSaveload<MA, ..>` the macro adds:
  dictionary passing — the environment `env : List Impl` below).

  Outcomes: the real `Error` type is `Infallible`, so `?` never returns early; a missing marker
  is `func(e).unwrap()` on `None`, i.e. a **panic** (`Out.panic unwrapNone`).  Applying a generated
  function to a value of the wrong type is impossible in Rust (rustc's type checker, trusted);
  the model answers `Out.ub illTyped` there and `Lemmas` prove it unreachable for typed values.

  No Mathlib.
-/
import SpecsModel.Model.Entity
import SpecsModel.Data.Out
namespace SpecsModel.Derive
open SpecsModel

/-- `SimpleMarker<T>`'s id (`u64`). -/
abbrev Marker := Nat
/-- `F: FnMut(Entity) -> Option<MA>` -/
abbrev Ids := Entity → Option Marker
/-- `F: FnMut(MA) -> Option<Entity>` -/
abbrev Ents := Marker → Option Entity

/-- `Option::unwrap` on `None` in `impl ConvertSaveload<M> for Entity` (src/saveload/mod.rs:182,189). -/
def unwrapNone : String := "called `Option::unwrap()` on a `None` value"
def illTyped : String := "ill-typed value (rejected by rustc)"
def unboundParam : String := "unbound type parameter (rejected by rustc)"

/-! ## Types covered by the blanket impl (`Clone + Serialize + DeserializeOwned`) -/

/-- Field types for which `ConvertSaveload` resolves to the blanket impl.  `tuple`, `array`,
    `paren` are distinguished because `replace_entity_type` recurses through them syntactically. -/
inductive PTy where
  | u8 | u32 | i64 | bool | string
  | option (t : PTy)
  | vec (t : PTy)
  | tuple (ts : List PTy)
  | array (t : PTy) (n : Nat)
  | paren (t : PTy)
  deriving Repr, Inhabited

/-- Values of plain types (never inspected by the conversions: they are cloned). -/
inductive PVal where
  | int (i : Int)
  | bool (b : Bool)
  | str (s : String)
  | none
  | some (v : PVal)
  | seq (vs : List PVal)
  deriving Repr, Inhabited

mutual
def PVal.decEq : (a b : PVal) → Decidable (a = b)
  | .int i, .int j => if h : i = j then isTrue (by rw [h]) else isFalse (by intro e; cases e; exact h rfl)
  | .bool i, .bool j => if h : i = j then isTrue (by rw [h]) else isFalse (by intro e; cases e; exact h rfl)
  | .str i, .str j => if h : i = j then isTrue (by rw [h]) else isFalse (by intro e; cases e; exact h rfl)
  | .none, .none => isTrue rfl
  | .some a, .some b =>
    match PVal.decEq a b with
    | isTrue h => isTrue (by rw [h])
    | isFalse h => isFalse (by intro e; cases e; exact h rfl)
  | .seq a, .seq b =>
    match PVal.decEqList a b with
    | isTrue h => isTrue (by rw [h])
    | isFalse h => isFalse (by intro e; cases e; exact h rfl)
  | .int _, .bool _ | .int _, .str _ | .int _, .none | .int _, .some _ | .int _, .seq _
  | .bool _, .int _ | .bool _, .str _ | .bool _, .none | .bool _, .some _ | .bool _, .seq _
  | .str _, .int _ | .str _, .bool _ | .str _, .none | .str _, .some _ | .str _, .seq _
  | .none, .int _ | .none, .bool _ | .none, .str _ | .none, .some _ | .none, .seq _
  | .some _, .int _ | .some _, .bool _ | .some _, .str _ | .some _, .none | .some _, .seq _
  | .seq _, .int _ | .seq _, .bool _ | .seq _, .str _ | .seq _, .none | .seq _, .some _ =>
    isFalse (by intro e; cases e)
def PVal.decEqList : (a b : List PVal) → Decidable (a = b)
  | [], [] => isTrue rfl
  | x :: xs, y :: ys =>
    match PVal.decEq x y, PVal.decEqList xs ys with
    | isTrue h1, isTrue h2 => isTrue (by rw [h1, h2])
    | isFalse h1, _ => isFalse (by intro e; cases e; exact h1 rfl)
    | _, isFalse h2 => isFalse (by intro e; cases e; exact h2 rfl)
  | [], _ :: _ => isFalse (by intro e; cases e)
  | _ :: _, [] => isFalse (by intro e; cases e)
end
instance : DecidableEq PVal := PVal.decEq

/-- Parentheses do not change the type. -/
def PTy.strip : PTy → PTy
  | .paren t => t.strip
  | t => t

mutual
/-- `pv.hasPTy p`: `pv` is a value of plain type `p` (integer ranges are not modelled).
    Structural on the value. -/
def PVal.hasPTy : PVal → PTy → Bool
  | .int i, t => match t.strip with
    | .u8 | .u32 => decide (0 ≤ i)
    | .i64 => true
    | _ => false
  | .bool _, t => match t.strip with
    | .bool => true
    | _ => false
  | .str _, t => match t.strip with
    | .string => true
    | _ => false
  | .none, t => match t.strip with
    | .option _ => true
    | _ => false
  | .some v, t => match t.strip with
    | .option t' => v.hasPTy t'
    | _ => false
  | .seq vs, t => match t.strip with
    | .vec t' => PVal.allHavePTy vs t'
    | .array t' n => PVal.allHavePTy vs t' && vs.length == n
    | .tuple ts => PVal.eachHasPTy vs ts
    | _ => false
def PVal.allHavePTy : List PVal → PTy → Bool
  | [], _ => true
  | v :: vs, t => v.hasPTy t && PVal.allHavePTy vs t
def PVal.eachHasPTy : List PVal → List PTy → Bool
  | [], [] => true
  | v :: vs, t :: ts => v.hasPTy t && PVal.eachHasPTy vs ts
  | _, _ => false
end

def PTy.wt (p : PTy) (pv : PVal) : Bool := pv.hasPTy p

/-! ## The grammar of supported type definitions -/

/-- Attributes on a field or an enum variant, as `replace_attributes` / `field_should_skip`
    distinguish them. -/
inductive Attr where
  | skip                       -- `#[convert_save_load_skip_convert]`
  | forward (inner : String)   -- `#[convert_save_load_attr(inner)]`
  | other (text : String)      -- any other attribute `#[text]` (doc comments, lints, …)
  deriving Repr, DecidableEq, Inhabited

def Attr.isSkip : Attr → Bool
  | .skip => true
  | _ => false

mutual
/-- Field types. -/
inductive Ty where
  | entity                                   -- `Entity`
  | plain (p : PTy)                          -- covered by the blanket impl
  | param (n : Nat)                          -- the n-th generic type parameter of the enclosing definition
  | nested (s : Shape) (args : List Ty)      -- another deriving type `Name<args>`
  | opaque                                   -- a `Clone + Default` type with no serde and no `ConvertSaveload` impl
                                             -- (tests/saveload.rs `UnserializableType`): usable only in skipped fields
/-- `syn::Field`: optional identifier, type, attributes. -/
inductive Field where
  | mk (name : Option String) (ty : Ty) (attrs : List Attr)
/-- `syn::Variant` with `Fields::Unit | Unnamed | Named`. -/
inductive Variant where
  | unit (name : String) (attrs : List Attr)
  | tuple (name : String) (attrs : List Attr) (fields : List Field)
  | named (name : String) (attrs : List Attr) (fields : List Field)
/-- `syn::DeriveInput` restricted to what `impl_saveload` accepts (unit structs and unions make
    the macro panic at expansion time and are not part of the grammar). `nparams` generic type
    parameters are in scope of the fields as `Ty.param 0 … nparams-1`.
    Two restrictions of the macro that rustc (not the model) enforces, found by probing: the bounds
    of generic parameters must be written in a `where` clause (inline bounds are not copied to the
    data type), and a definition needs at least one converted (non-skipped) field, otherwise the
    extra parameter `MA` of the generated data type is unused (E0392). -/
inductive Shape where
  | namedStruct (name : String) (nparams : Nat) (fields : List Field)
  | tupleStruct (name : String) (nparams : Nat) (fields : List Field)
  | enum (name : String) (nparams : Nat) (variants : List Variant)
end

instance : Inhabited Ty := ⟨.entity⟩
instance : Inhabited Field := ⟨.mk none .entity []⟩
instance : Inhabited Shape := ⟨.tupleStruct "" 0 []⟩

def Field.name : Field → Option String | .mk n _ _ => n
def Field.ty : Field → Ty | .mk _ t _ => t
def Field.attrs : Field → List Attr | .mk _ _ a => a
/-- `field_should_skip`: `field.attrs.iter().any(attribute_is_skip)`. -/
def Field.skip (f : Field) : Bool := f.attrs.any Attr.isSkip

def Variant.name : Variant → String
  | .unit n _ | .tuple n _ _ | .named n _ _ => n
def Variant.attrs : Variant → List Attr
  | .unit _ a | .tuple _ a _ | .named _ a _ => a
def Variant.fields : Variant → List Field
  | .unit _ _ => []
  | .tuple _ _ fs | .named _ _ fs => fs

def Shape.name : Shape → String
  | .namedStruct n _ _ | .tupleStruct n _ _ | .enum n _ _ => n
def Shape.nparams : Shape → Nat
  | .namedStruct _ n _ | .tupleStruct _ n _ | .enum _ n _ => n

/-! ## Values -/

/-- Values of the user's types. Struct fields are kept in declaration order (field `i` of the list
    is the field the i-th declared identifier / tuple index `.i` names); enum values carry the
    identifier of their variant. -/
inductive Val where
  | ent (e : Entity)
  | plain (p : PVal)
  | opaque (n : Nat)                         -- value of the opaque type
  | struct (fields : List Val)
  | variant (name : String) (fields : List Val)
  deriving Repr, Inhabited

mutual
def Val.decEq : (a b : Val) → Decidable (a = b)
  | .ent i, .ent j => if h : i = j then isTrue (by rw [h]) else isFalse (by intro e; cases e; exact h rfl)
  | .plain i, .plain j => if h : i = j then isTrue (by rw [h]) else isFalse (by intro e; cases e; exact h rfl)
  | .opaque i, .opaque j => if h : i = j then isTrue (by rw [h]) else isFalse (by intro e; cases e; exact h rfl)
  | .struct a, .struct b =>
    match Val.decEqList a b with
    | isTrue h => isTrue (by rw [h])
    | isFalse h => isFalse (by intro e; cases e; exact h rfl)
  | .variant n a, .variant m b =>
    if hn : n = m then
      match Val.decEqList a b with
      | isTrue h => isTrue (by rw [h, hn])
      | isFalse h => isFalse (by intro e; cases e; exact h rfl)
    else isFalse (by intro e; cases e; exact hn rfl)
  | .ent _, .plain _ | .ent _, .struct _ | .ent _, .variant _ _ | .ent _, .opaque _
  | .plain _, .ent _ | .plain _, .struct _ | .plain _, .variant _ _ | .plain _, .opaque _
  | .opaque _, .ent _ | .opaque _, .plain _ | .opaque _, .struct _ | .opaque _, .variant _ _
  | .struct _, .ent _ | .struct _, .plain _ | .struct _, .variant _ _ | .struct _, .opaque _
  | .variant _ _, .ent _ | .variant _ _, .plain _ | .variant _ _, .struct _ | .variant _ _, .opaque _ =>
    isFalse (by intro e; cases e)
def Val.decEqList : (a b : List Val) → Decidable (a = b)
  | [], [] => isTrue rfl
  | x :: xs, y :: ys =>
    match Val.decEq x y, Val.decEqList xs ys with
    | isTrue h1, isTrue h2 => isTrue (by rw [h1, h2])
    | isFalse h1, _ => isFalse (by intro e; cases e; exact h1 rfl)
    | _, isFalse h2 => isFalse (by intro e; cases e; exact h2 rfl)
  | [], _ :: _ => isFalse (by intro e; cases e)
  | _ :: _, [] => isFalse (by intro e; cases e)
end
instance : DecidableEq Val := Val.decEq

/-- Values of the generated `…SaveloadData` types. -/
inductive DVal where
  | marker (m : Marker)                         -- `<Entity as ConvertSaveload<MA>>::Data = MA`
  | plain (p : PVal)                            -- blanket impl: `Data = Self`
  | keep (v : Val)                              -- skipped field: type unchanged, value cloned
  | struct (fields : List DVal)
  | variant (name : String) (fields : List DVal)
  deriving Repr, Inhabited

mutual
def DVal.decEq : (a b : DVal) → Decidable (a = b)
  | .marker i, .marker j => if h : i = j then isTrue (by rw [h]) else isFalse (by intro e; cases e; exact h rfl)
  | .plain i, .plain j => if h : i = j then isTrue (by rw [h]) else isFalse (by intro e; cases e; exact h rfl)
  | .keep i, .keep j => if h : i = j then isTrue (by rw [h]) else isFalse (by intro e; cases e; exact h rfl)
  | .struct a, .struct b =>
    match DVal.decEqList a b with
    | isTrue h => isTrue (by rw [h])
    | isFalse h => isFalse (by intro e; cases e; exact h rfl)
  | .variant n a, .variant m b =>
    if hn : n = m then
      match DVal.decEqList a b with
      | isTrue h => isTrue (by rw [h, hn])
      | isFalse h => isFalse (by intro e; cases e; exact h rfl)
    else isFalse (by intro e; cases e; exact hn rfl)
  | .marker _, .plain _ | .marker _, .keep _ | .marker _, .struct _ | .marker _, .variant _ _
  | .plain _, .marker _ | .plain _, .keep _ | .plain _, .struct _ | .plain _, .variant _ _
  | .keep _, .marker _ | .keep _, .plain _ | .keep _, .struct _ | .keep _, .variant _ _
  | .struct _, .marker _ | .struct _, .plain _ | .struct _, .keep _ | .struct _, .variant _ _
  | .variant _ _, .marker _ | .variant _ _, .plain _ | .variant _ _, .keep _ | .variant _ _, .struct _ =>
    isFalse (by intro e; cases e)
def DVal.decEqList : (a b : List DVal) → Decidable (a = b)
  | [], [] => isTrue rfl
  | x :: xs, y :: ys =>
    match DVal.decEq x y, DVal.decEqList xs ys with
    | isTrue h1, isTrue h2 => isTrue (by rw [h1, h2])
    | isFalse h1, _ => isFalse (by intro e; cases e; exact h1 rfl)
    | _, isFalse h2 => isFalse (by intro e; cases e; exact h2 rfl)
  | [], _ :: _ => isFalse (by intro e; cases e)
  | _ :: _, [] => isFalse (by intro e; cases e)
end
instance : DecidableEq DVal := DVal.decEq

/-! ## The generated data type (`type_def`) -/

/-- Field types of the generated data type, as `replace_field` leaves them. -/
inductive DTy where
  | orig (t : Ty)                 -- skipped field: `replace_entity_type` not applied
  | proj (t : Ty)                 -- `<t as ConvertSaveload<MA>>::Data` (the `Type::Path` arm)
  | tuple (ts : List DTy)         -- `Type::Tuple`: element-wise
  | array (t : DTy) (n : Nat)     -- `Type::Array`: element type rewritten
  | paren (t : DTy)               -- `Type::Paren`

mutual
/-- `replace_entity_type` on the syntax of a plain type. -/
def replP : PTy → DTy
  | .tuple ts => .tuple (replPs ts)
  | .array t n => .array (replP t) n
  | .paren t => .paren (replP t)
  | .u8 => .proj (.plain .u8)
  | .u32 => .proj (.plain .u32)
  | .i64 => .proj (.plain .i64)
  | .bool => .proj (.plain .bool)
  | .string => .proj (.plain .string)
  | .option t => .proj (.plain (.option t))      -- `Option<..>`, `Vec<..>` are `Type::Path`s
  | .vec t => .proj (.plain (.vec t))
def replPs : List PTy → List DTy
  | [] => []
  | t :: ts => replP t :: replPs ts
end

/-- `replace_entity_type`: `Entity`, named types and type parameters are all `Type::Path`. -/
def replaceEntityType : Ty → DTy
  | .plain p => replP p
  | .entity => .proj .entity
  | .param n => .proj (.param n)
  | .nested s args => .proj (.nested s args)
  | .opaque => .proj .opaque

/-- `replace_attributes`: the skip marker disappears, `convert_save_load_attr(inner)` becomes
    `#[inner]`, everything else is copied. The result is the list of attribute texts. -/
def replaceAttributes (attrs : List Attr) : List String :=
  attrs.filterMap fun
    | .skip => none
    | .forward inner => some inner
    | .other t => some t

structure DField where
  name : Option String
  ty : DTy
  attrs : List String

/-- `replace_field` (as used by `convert_fields_to_metadata` and `saveload_enum`). -/
def dataField (f : Field) : DField :=
  { name := f.name,
    ty := if f.skip then .orig f.ty else replaceEntityType f.ty,
    attrs := replaceAttributes f.attrs }

inductive DVariant where
  | unit (name : String) (attrs : List String)
  | tuple (name : String) (attrs : List String) (fields : List DField)
  | named (name : String) (attrs : List String) (fields : List DField)

def DVariant.name : DVariant → String
  | .unit n _ | .tuple n _ _ | .named n _ _ => n
def DVariant.attrs : DVariant → List String
  | .unit _ a | .tuple _ a _ | .named _ a _ => a
def DVariant.fields : DVariant → List DField
  | .unit _ _ => []
  | .tuple _ _ fs | .named _ _ fs => fs

/-- `saveload_variants` in `saveload_enum`. -/
def dataVariant : Variant → DVariant
  | .unit n a => .unit n (replaceAttributes a)
  | .tuple n a fs => .tuple n (replaceAttributes a) (fs.map dataField)
  | .named n a fs => .named n (replaceAttributes a) (fs.map dataField)

/-- The `…SaveloadData` type: same kind, one more generic parameter (`MA`), fields through
    `replace_field`, variants in the same order under the same identifiers. -/
inductive DShape where
  | namedStruct (name : String) (nparams : Nat) (fields : List DField)
  | tupleStruct (name : String) (nparams : Nat) (fields : List DField)
  | enum (name : String) (nparams : Nat) (variants : List DVariant)

def dataShape : Shape → DShape
  | .namedStruct n k fs => .namedStruct (n ++ "SaveloadData") (k + 1) (fs.map dataField)
  | .tupleStruct n k fs => .tupleStruct (n ++ "SaveloadData") (k + 1) (fs.map dataField)
  | .enum n k vs => .enum (n ++ "SaveloadData") (k + 1) (vs.map dataVariant)

/-! ## The generated conversions -/

/-- What an `impl ConvertSaveload<MA> for T` provides (`into`, `from_`), together with the value
    set of `T` (`wt`) and the entity positions its `convert_into` visits (`occ`, in call order). -/
structure Impl where
  into : Ids → Val → Out DVal
  from_ : Ents → DVal → Out Val
  wt : Val → Bool
  occ : Val → List Entity

/-- `impl<M> ConvertSaveload<M> for Entity`: `Ok(func(*self).unwrap())` both ways. -/
def Impl.entity : Impl where
  into ids v := match v with
    | .ent e => (match ids e with
      | some m => .ok (.marker m)
      | none => .panic unwrapNone)
    | _ => .ub illTyped
  from_ ents d := match d with
    | .marker m => (match ents m with
      | some e => .ok (.ent e)
      | none => .panic unwrapNone)
    | _ => .ub illTyped
  wt v := match v with
    | .ent _ => true
    | _ => false
  occ v := match v with
    | .ent e => [e]
    | _ => []

/-- The blanket impl: `Ok(self.clone())` / `Ok(data)`; the closure is ignored. -/
def Impl.plain (p : PTy) : Impl where
  into _ v := match v with
    | .plain pv => .ok (.plain pv)
    | _ => .ub illTyped
  from_ _ d := match d with
    | .plain pv => .ok (.plain pv)
    | _ => .ub illTyped
  wt v := match v with
    | .plain pv => p.wt pv
    | _ => false
  occ _ := []

def noImpl : String := "no ConvertSaveload impl for this type (rejected by rustc)"

/-- The opaque type has values but no impl: a conversion call on it does not type-check. -/
def Impl.opaque : Impl where
  into _ _ := .ub noImpl
  from_ _ _ := .ub noImpl
  wt v := match v with
    | .opaque _ => true
    | _ => false
  occ _ := []

/-- A type parameter without impl in scope: rustc rejects the program. -/
def Impl.unbound : Impl where
  into _ _ := .ub unboundParam
  from_ _ _ := .ub unboundParam
  wt _ := false
  occ _ := []

/-- A field marked `#[convert_save_load_skip_convert]` whose type has impl `i`:
    `self.f.clone()` / `data.f`. -/
def Impl.skipped (i : Impl) : Impl where
  into _ v := .ok (.keep v)
  from_ _ d := match d with
    | .keep v => .ok v
    | _ => .ub illTyped
  wt := i.wt
  occ _ := []

/-- The field initialisers of one struct literal / variant constructor, as a whole. -/
structure FImpl where
  into : Ids → List Val → Out (List DVal)
  from_ : Ents → List DVal → Out (List Val)
  wt : List Val → Bool
  occ : List Val → List Entity

def FImpl.nil : FImpl where
  into _ vs := match vs with
    | [] => .ok []
    | _ => .ub illTyped
  from_ _ ds := match ds with
    | [] => .ok []
    | _ => .ub illTyped
  wt vs := match vs with
    | [] => true
    | _ => false
  occ _ := []

/-- `#( #field_ser ),*` : initialisers are evaluated left to right, in declaration order. -/
def FImpl.cons (a : Impl) (r : FImpl) : FImpl where
  into ids vs := match vs with
    | v :: vs' => do
      let d ← a.into ids v
      let ds ← r.into ids vs'
      pure (d :: ds)
    | [] => .ub illTyped
  from_ ents ds := match ds with
    | d :: ds' => do
      let v ← a.from_ ents d
      let vs ← r.from_ ents ds'
      pure (v :: vs)
    | [] => .ub illTyped
  wt vs := match vs with
    | v :: vs' => a.wt v && r.wt vs'
    | [] => false
  occ vs := match vs with
    | v :: vs' => a.occ v ++ r.occ vs'
    | [] => []

/-- The arms of the generated `match`, selected by the variant identifier. -/
structure VImpl where
  into : Ids → String → List Val → Out DVal
  from_ : Ents → String → List DVal → Out Val
  wt : String → List Val → Bool
  occ : String → List Val → List Entity

def VImpl.nil : VImpl where
  into _ _ _ := .ub illTyped
  from_ _ _ _ := .ub illTyped
  wt _ _ := false
  occ _ _ := []

/-- One more arm `Name::ident(..) => NameSaveloadData::ident(..)` in front of the others. -/
def VImpl.cons (ident : String) (a : FImpl) (r : VImpl) : VImpl where
  into ids n vs := if n = ident then (a.into ids vs).map (DVal.variant ident) else r.into ids n vs
  from_ ents n ds := if n = ident then (a.from_ ents ds).map (Val.variant ident) else r.from_ ents n ds
  wt n vs := if n = ident then a.wt vs else r.wt n vs
  occ n vs := if n = ident then a.occ vs else r.occ n vs

/-- `Ok(Name { .. })` / `Ok(Name( .. ))` of `saveload_named_struct` and `saveload_tuple_struct`. -/
def Impl.ofStruct (a : FImpl) : Impl where
  into ids v := match v with
    | .struct vs => (a.into ids vs).map DVal.struct
    | _ => .ub illTyped
  from_ ents d := match d with
    | .struct ds => (a.from_ ents ds).map Val.struct
    | _ => .ub illTyped
  wt v := match v with
    | .struct vs => a.wt vs
    | _ => false
  occ v := match v with
    | .struct vs => a.occ vs
    | _ => []

/-- `Ok(match *self { arms })` / `Ok(match data { arms })` of `saveload_enum`. -/
def Impl.ofEnum (a : VImpl) : Impl where
  into ids v := match v with
    | .variant n vs => a.into ids n vs
    | _ => .ub illTyped
  from_ ents d := match d with
    | .variant n ds => a.from_ ents n ds
    | _ => .ub illTyped
  wt v := match v with
    | .variant n vs => a.wt n vs
    | _ => false
  occ v := match v with
    | .variant n vs => a.occ n vs
    | _ => []

mutual
/-- Which impl `ConvertSaveload::convert_into(&field, ..)` resolves to for a field type, given
    the impls `env` of the generic parameters in scope. -/
def implTy : Ty → List Impl → Impl
  | .entity, _ => Impl.entity
  | .plain p, _ => Impl.plain p
  | .param n, env => (env[n]?).getD Impl.unbound
  | .nested s args, env => implShape s (implTys args env)
  | .opaque, _ => Impl.opaque
def implTys : List Ty → List Impl → List Impl
  | [], _ => []
  | t :: ts, env => implTy t env :: implTys ts env
/-- One field initialiser: `FieldMetaData { field, skip_field }`. -/
def implField : Field → List Impl → Impl
  | .mk _ ty attrs, env => if attrs.any Attr.isSkip then Impl.skipped (implTy ty env) else implTy ty env
def implFields : List Field → List Impl → FImpl
  | [], _ => FImpl.nil
  | f :: fs, env => FImpl.cons (implField f env) (implFields fs env)
/-- `for variant in data.variants.iter()`: one arm per variant, in order, both directions. -/
def implVariants : List Variant → List Impl → VImpl
  | [], _ => VImpl.nil
  | .unit n _ :: vs, env => VImpl.cons n FImpl.nil (implVariants vs env)
  | .tuple n _ fs :: vs, env => VImpl.cons n (implFields fs env) (implVariants vs env)
  | .named n _ fs :: vs, env => VImpl.cons n (implFields fs env) (implVariants vs env)
/-- `impl_saveload`: the derived `impl<.., MA> ConvertSaveload<MA> for Name<..>`, given the impls
    of the type arguments. -/
def implShape : Shape → List Impl → Impl
  | .namedStruct _ _ fs, env => Impl.ofStruct (implFields fs env)     -- saveload_named_struct
  | .tupleStruct _ _ fs, env => Impl.ofStruct (implFields fs env)     -- saveload_tuple_struct
  | .enum _ _ vs, env => Impl.ofEnum (implVariants vs env)            -- saveload_enum
end

mutual
/-- Every `ConvertSaveload::convert_*` call the macro generates for this type resolves to an impl
    (what rustc checks): the opaque type occurs in skipped fields only. -/
def Ty.convertible : Ty → Bool
  | .entity => true
  | .plain _ => true
  | .param _ => true
  | .opaque => false
  | .nested s args => s.convertible && Ty.convertibleAll args
def Ty.convertibleAll : List Ty → Bool
  | [] => true
  | t :: ts => t.convertible && Ty.convertibleAll ts
def Field.convertible : Field → Bool
  | .mk _ ty attrs => attrs.any Attr.isSkip || ty.convertible
def Field.convertibleAll : List Field → Bool
  | [] => true
  | f :: fs => f.convertible && Field.convertibleAll fs
def Variant.convertibleAll : List Variant → Bool
  | [] => true
  | .unit _ _ :: vs => Variant.convertibleAll vs
  | .tuple _ _ fs :: vs => Field.convertibleAll fs && Variant.convertibleAll vs
  | .named _ _ fs :: vs => Field.convertibleAll fs && Variant.convertibleAll vs
def Shape.convertible : Shape → Bool
  | .namedStruct _ _ fs => Field.convertibleAll fs
  | .tupleStruct _ _ fs => Field.convertibleAll fs
  | .enum _ _ vs => Variant.convertibleAll vs
end

/-- `convert_into` of a closed type. -/
def convertInto (ty : Ty) (ids : Ids) (v : Val) : Out DVal := (implTy ty []).into ids v
/-- `convert_from` of a closed type. -/
def convertFrom (ty : Ty) (ents : Ents) (d : DVal) : Out Val := (implTy ty []).from_ ents d
/-- `v` is a value of the closed type `ty`. -/
def hasTy (ty : Ty) (v : Val) : Bool := (implTy ty []).wt v
/-- Entities of `v` that conversion maps through the marker mapping. -/
def entitiesOf (ty : Ty) (v : Val) : List Entity := (implTy ty []).occ v

/-! ## `#[derive(Component)]` -/

/-- `syn::PathArguments` -/
inductive PathArgs where
  | none
  | angle (args : List String)     -- `<A, B>`
  | paren (text : String)          -- `(A) -> B`
  deriving Repr, DecidableEq, Inhabited

structure Seg where
  ident : String
  args : PathArgs
  deriving Repr, DecidableEq, Inhabited

/-- Type-level attributes seen by `impl_component`. -/
inductive TAttr where
  | storage (path : List Seg)      -- `#[storage(path)]`
  | other (text : String)
  deriving Repr, DecidableEq, Inhabited

/-- `type Storage = #storage #additional_generics;` -/
structure ComponentImpl where
  storage : List Seg
  appendSelf : Bool                -- `additional_generics` is `<Self>` (true) or empty (false)
  deriving Repr, DecidableEq, Inhabited

/-- `attr.path.segments[0].ident == "storage"` and the parsed `StorageAttribute`. -/
def TAttr.storagePath? : TAttr → Option (List Seg)
  | .storage p => some p
  | .other _ => none

/-- `impl_component`: first `storage` attribute or `DenseVecStorage`; `<Self>` is appended
    unless the last path segment has angle-bracketed arguments. -/
def implComponent (attrs : List TAttr) : Out ComponentImpl :=
  -- `.find(..).map(..).unwrap_or_else(|| parse_quote!(DenseVecStorage))`
  let storage : List Seg := (attrs.findSome? TAttr.storagePath?).getD [⟨"DenseVecStorage", .none⟩]
  match storage.getLast? with
  | none => .panic unwrapNone                         -- `segments.last().unwrap()`; syn paths are non-empty
  | some last =>
    match last.args with
    | .angle _ => .ok ⟨storage, false⟩
    | _ => .ok ⟨storage, true⟩

end SpecsModel.Derive
