/- Accounting of enter/exit events: whatever the interleaving, no system starts twice, and when the
   dispatch has finished every system has started and finished exactly once. -/
import SpecsModel.Dispatch.LemmasExec
set_option linter.unusedSimpArgs false
namespace SpecsModel.Dispatch

def notStarted (x : XState) : List Nat :=
  (x.groups.flatMap (·.todo)).map (·.id) ++ x.later.flatten.flatten.map (·.id)

def running (x : XState) : List Nat := (x.groups.flatMap (·.cur.toList)).map (·.id)

structure Acct (ids : List Nat) (x : XState) : Prop where
  hs : (entered x.log ++ notStarted x).Perm ids
  he : (exited x.log ++ running x).Perm (entered x.log)

theorem move_acct {ids : List Nat} {x x' : XState} (hx : Acct ids x) {g k : Nat}
    (h : x.move g k = .ok x') : Acct ids x' := by
  unfold XState.move at h
  cases hg : x.groups[g]? with
  | none => rw [hg] at h; cases h; exact hx
  | some gr =>
    rw [hg] at h
    obtain ⟨P, Q, e, hP⟩ := getElem?_split hg
    have hset : ∀ y, x.groups.set g y = P ++ y :: Q := by
      intro y; rw [e, ← hP]; exact set_append_cons_length ..
    simp only [hset] at h
    obtain ⟨h1, h2⟩ := hx
    rw [List.perm_iff_count] at h1 h2
    cases hc : gr.cur with
    | none =>
      rw [hc] at h; simp only at h
      cases ht : gr.todo with
      | nil => rw [ht] at h; cases h; exact ⟨List.perm_iff_count.mpr h1, List.perm_iff_count.mpr h2⟩
      | cons s rest =>
        rw [ht] at h; cases h
        constructor <;> rw [List.perm_iff_count] <;> intro a
        · have := h1 a
          simp [notStarted, entered, e, ht, List.count_append, List.count_cons] at this ⊢
          omega
        · have := h2 a
          simp [running, entered, exited, e, hc, List.count_append, List.count_cons] at this ⊢
          omega
    | some s =>
      rw [hc] at h; simp only at h
      cases hp : gr.pending with
      | cons b p =>
        rw [hp] at h; simp only at h
        cases hb : borrowCell x.cells b with
        | ok m =>
          rw [hb] at h; cases h
          constructor <;> rw [List.perm_iff_count] <;> intro a
          · have := h1 a
            simp [notStarted, e, List.count_append] at this ⊢
            omega
          · have := h2 a
            simp [running, e, hc, List.count_append, List.count_cons] at this ⊢
            omega
        | panic w => rw [hb] at h; cases h
        | ub w => rw [hb] at h; cases h
      | nil =>
        rw [hp] at h; simp only at h
        cases hh : gr.held[k % gr.held.length]? with
        | some b =>
          rw [hh] at h; cases h
          constructor <;> rw [List.perm_iff_count] <;> intro a
          · have := h1 a
            simp [notStarted, e, List.count_append] at this ⊢
            omega
          · have := h2 a
            simp [running, e, hc, List.count_append, List.count_cons] at this ⊢
            omega
        | none =>
          rw [hh] at h; cases h
          constructor <;> rw [List.perm_iff_count] <;> intro a
          · have := h1 a
            simp [notStarted, entered, e, List.count_append] at this ⊢
            omega
          · have := h2 a
            simp [running, entered, exited, e, hc, List.count_append, List.count_cons] at this ⊢
            omega

theorem done_nothing {gs : List GRun} (h : gs.all GRun.done = true) :
    gs.flatMap (·.todo) = [] ∧ gs.flatMap (·.cur.toList) = [] := by
  simp only [List.flatMap_eq_nil_iff]
  constructor <;> intro g hg <;> have hd := List.all_eq_true.mp h g hg <;>
    simp only [GRun.done, Bool.and_eq_true, Option.isNone_iff_eq_none, List.isEmpty_iff] at hd
  · exact hd.1
  · rw [hd.2]; rfl

theorem settle_acct {ids : List Nat} {x : XState} (hx : Acct ids x) : Acct ids x.settle := by
  unfold XState.settle
  split
  · rename_i hall
    split
    · exact hx
    · rename_i st rest hl
      obtain ⟨d1, d2⟩ := done_nothing hall
      obtain ⟨h1, h2⟩ := hx
      constructor
      · simp only [notStarted, d1, hl] at h1 ⊢
        have e1 : List.flatMap (fun g : GRun => g.todo) (List.map (fun g => ({ todo := g } : GRun)) st) = st.flatten := by
          simp [List.flatMap_def, Function.comp_def]
        rw [e1]
        simpa using h1
      · simp only [running, d2] at h2 ⊢
        have e2 : List.flatMap (fun g : GRun => g.cur.toList) (List.map (fun g => ({ todo := g } : GRun)) st) = [] := by
          simp [List.flatMap_eq_nil_iff]
        rw [e2]; exact h2
  · exact hx

theorem run_acct {ids : List Nat} : ∀ (es : List (Nat × Nat)) {x x' : XState}, Acct ids x →
    x.run es = .ok x' → Acct ids x'
  | [], x, x', hx, h => by simp [XState.run] at h; subst h; exact hx
  | e :: es, x, x', hx, h => by
    simp only [XState.run, XState.step] at h
    cases hm : x.move e.1 e.2 with
    | ok x1 =>
      rw [hm] at h
      exact run_acct es (settle_acct (move_acct hx hm)) h
    | panic w => rw [hm] at h; cases h
    | ub w => rw [hm] at h; cases h

theorem init_acct (plan : List (List (List Sys))) :
    Acct (plan.flatten.flatten.map (·.id)) (XState.init plan) := by
  apply settle_acct
  constructor
  · simp [notStarted, entered]
  · simp [running, entered, exited]

/-- When the dispatch has finished, the started systems and the finished systems are both exactly
    the systems of the plan. -/
theorem Acct.finished {ids : List Nat} {x : XState} (hx : Acct ids x) (hf : x.finished = true) :
    (entered x.log).Perm ids ∧ (exited x.log).Perm ids := by
  simp only [XState.finished, Bool.and_eq_true, List.isEmpty_iff] at hf
  obtain ⟨d1, d2⟩ := done_nothing hf.1
  obtain ⟨h1, h2⟩ := hx
  simp only [notStarted, d1, hf.2, running, d2] at h1 h2
  simp only [List.map_nil, List.flatten_nil, List.append_nil] at h1 h2
  exact ⟨h1, h2.trans h1⟩

/-- At any moment no system has started twice, and what has exited is part of what has entered. -/
theorem Acct.nodup {ids : List Nat} {x : XState} (hx : Acct ids x) (hn : ids.Nodup) :
    (entered x.log).Nodup ∧ (∀ i ∈ entered x.log, i ∈ ids) ∧
    (exited x.log).Nodup ∧ ∀ i ∈ exited x.log, i ∈ entered x.log := by
  have n1 : (entered x.log ++ notStarted x).Nodup := hx.hs.nodup_iff.mpr hn
  have n2 : (entered x.log).Nodup := (List.nodup_append.mp n1).1
  have n3 : (exited x.log ++ running x).Nodup := hx.he.nodup_iff.mpr n2
  refine ⟨n2, fun i hi => hx.hs.subset (List.mem_append.mpr (Or.inl hi)),
    (List.nodup_append.mp n3).1, fun i hi => hx.he.subset (List.mem_append.mpr (Or.inl hi))⟩

end SpecsModel.Dispatch
