/- Invariants of the stage builder over a whole item list: capacity, group read/write sets,
   no conflict between parallel groups, every system placed once, dependencies placed before. -/
import SpecsModel.Dispatch.LemmasInsert
namespace SpecsModel.Dispatch

/-- Two systems do not conflict: neither writes a resource the other reads or writes. -/
def NoConf (s t : Sys) : Prop :=
  (∀ r ∈ s.writes, r ∉ t.reads ∧ r ∉ t.writes) ∧ (∀ r ∈ t.writes, r ∉ s.reads ∧ r ∉ s.writes)

theorem NoConf.symm {s t : Sys} (h : NoConf s t) : NoConf t s := ⟨h.2, h.1⟩

/-- The accumulated read/write sets of a group cover those of its systems. -/
def GroupDecl (g : Group) : Prop :=
  ∀ t ∈ g.systems, (∀ r ∈ t.reads, r ∈ g.reads) ∧ (∀ r ∈ t.writes, r ∈ g.writes)

/-- Groups of one stage are pairwise conflict-free. -/
def GroupsPar (st : List Group) : Prop :=
  st.Pairwise (fun G G' => ∀ s ∈ G.systems, ∀ t ∈ G'.systems, NoConf s t)

structure BInv (b : Builder) : Prop where
  cap : ∀ st ∈ b.stages, ∀ g ∈ st, GroupCap g
  decl : ∀ st ∈ b.stages, ∀ g ∈ st, GroupDecl g
  par : ∀ st ∈ b.stages, GroupsPar st

theorem BInv.empty : BInv {} := ⟨by simp, by simp, by simp⟩

theorem noConf_of_noRW {s : Sys} {g : Group} (h : NoRWs s g) (hd : GroupDecl g) :
    ∀ t ∈ g.systems, NoConf s t := by
  intro t ht
  obtain ⟨h1, h2⟩ := h
  rw [inter_false_iff] at h1 h2
  obtain ⟨dr, dw⟩ := hd t ht
  refine ⟨fun r hr => ⟨fun hc => ?_, fun hc => ?_⟩, fun r hr => ⟨fun hc => ?_, fun hc => ?_⟩⟩
  · exact h1 r hr (List.mem_append.mpr (Or.inr (dr r hc)))
  · exact h1 r hr (List.mem_append.mpr (Or.inl (dw r hc)))
  · exact h2 r (mem_sortDedup.mpr hc) (dw r hr)
  · exact h1 r hc (List.mem_append.mpr (Or.inl (dw r hr)))

theorem groupCap_single (s : Sys) : GroupCap (Group.single s) := by
  have := s.time.toNat_le
  simp [GroupCap, Group.single]; omega

theorem groupCap_pushed {G : Group} (s : Sys) (h : GroupCap G) (hl : G.systems.length < 4) :
    GroupCap (G.pushed s) := by
  have := s.time.toNat_le
  unfold GroupCap at h ⊢
  simp [Group.pushed]; omega

theorem groupDecl_single (s : Sys) : GroupDecl (Group.single s) := by
  intro t ht
  simp [Group.single] at ht; subst ht
  exact ⟨fun r hr => mem_sortDedup.mpr hr, fun r hr => hr⟩

theorem groupDecl_pushed {G : Group} (s : Sys) (h : GroupDecl G) : GroupDecl (G.pushed s) := by
  intro t ht
  simp only [Group.pushed, List.mem_append, List.mem_singleton] at ht ⊢
  rcases ht with ht | rfl
  · exact ⟨fun r hr => Or.inl ((h t ht).1 r hr), fun r hr => Or.inl ((h t ht).2 r hr)⟩
  · exact ⟨fun r hr => Or.inr (mem_sortDedup.mpr hr), fun r hr => Or.inr hr⟩

theorem mem_replace {α} {x y z : α} {P Q : List α} (h : x ∈ P ++ y :: Q) :
    x = y ∨ x ∈ P ++ z :: Q := by
  simp only [List.mem_append, List.mem_cons] at h ⊢
  rcases h with h | h | h
  · exact Or.inr (Or.inl h)
  · exact Or.inl h
  · exact Or.inr (Or.inr (Or.inr h))

theorem BInv.insert {b b' : Builder} {s : Sys} (hb : BInv b) (hs : InsertShape b s b') : BInv b' := by
  cases hs with
  | newStage e' =>
    refine ⟨?_, ?_, ?_⟩ <;> intro st hst <;> rw [e'] at hst <;>
      rcases List.mem_append.mp hst with h | h
    · exact hb.cap st h
    · simp at h; subst h; intro g hg; simp at hg; subst hg; exact groupCap_single s
    · exact hb.decl st h
    · simp at h; subst h; intro g hg; simp at hg; subst hg; exact groupDecl_single s
    · exact hb.par st h
    · simp at h; subst h; simp [GroupsPar]
  | stage pre st post e e' norw deps =>
    have hst : st ∈ b.stages := by rw [e]; simp
    refine ⟨?_, ?_, ?_⟩ <;> intro x hx <;> rw [e'] at hx <;>
      rcases mem_replace (z := st) hx with h | h
    · subst h; intro g hg
      rcases List.mem_append.mp hg with h | h
      · exact hb.cap st hst g h
      · simp at h; subst h; exact groupCap_single s
    · rw [← e] at h; exact hb.cap x h
    · subst h; intro g hg
      rcases List.mem_append.mp hg with h | h
      · exact hb.decl st hst g h
      · simp at h; subst h; exact groupDecl_single s
    · rw [← e] at h; exact hb.decl x h
    · subst h
      unfold GroupsPar
      rw [List.pairwise_append]
      refine ⟨hb.par st hst, by simp, ?_⟩
      intro G hG G' hG' a ha t ht
      simp at hG'; subst hG'
      simp [Group.single] at ht; subst ht
      exact (noConf_of_noRW (norw G hG) (hb.decl st hst G hG) a ha).symm
    · rw [← e] at h; exact hb.par x h
  | group pre gp G gq post e e' norw len deps =>
    have hst : (gp ++ G :: gq) ∈ b.stages := by rw [e]; simp
    have hG : G ∈ gp ++ G :: gq := by simp
    refine ⟨?_, ?_, ?_⟩ <;> intro x hx <;> rw [e'] at hx <;>
      rcases mem_replace (z := gp ++ G :: gq) hx with h | h
    · subst h; intro g hg
      rcases mem_replace (z := G) hg with h | h
      · subst h; exact groupCap_pushed s (hb.cap _ hst G hG) len
      · exact hb.cap _ hst g h
    · rw [← e] at h; exact hb.cap x h
    · subst h; intro g hg
      rcases mem_replace (z := G) hg with h | h
      · subst h; exact groupDecl_pushed s (hb.decl _ hst G hG)
      · exact hb.decl _ hst g h
    · rw [← e] at h; exact hb.decl x h
    · subst h
      have hp := hb.par _ hst
      unfold GroupsPar at hp ⊢
      rw [List.pairwise_append, List.pairwise_cons] at hp ⊢
      obtain ⟨p1, ⟨p2, p3⟩, p4⟩ := hp
      have key : ∀ X ∈ gp ++ gq, ∀ a ∈ X.systems, NoConf s a := by
        intro X hX a ha
        have hXm : X ∈ gp ++ G :: gq := by
          simp only [List.mem_append, List.mem_cons] at hX ⊢
          rcases hX with h | h
          · exact Or.inl h
          · exact Or.inr (Or.inr h)
        exact noConf_of_noRW (norw X hX) (hb.decl _ hst X hXm) a ha
      refine ⟨p1, ⟨?_, p3⟩, ?_⟩
      · intro X hX a ha t ht
        simp only [Group.pushed, List.mem_append, List.mem_singleton] at ha
        rcases ha with ha | rfl
        · exact p2 X hX a ha t ht
        · exact key X (List.mem_append.mpr (Or.inr hX)) t ht
      · intro X hX Y hY a ha t ht
        rcases List.mem_cons.mp hY with rfl | hY
        · simp only [Group.pushed, List.mem_append, List.mem_singleton] at ht
          rcases ht with ht | rfl
          · exact p4 X hX G (List.mem_cons_self ..) a ha t ht
          · exact (key X (List.mem_append.mpr (Or.inl hX)) a ha).symm
        · exact p4 X hX Y (List.mem_cons_of_mem _ hY) a ha t ht
    · rw [← e] at h; exact hb.par x h

/-! ### every system is placed exactly once -/

def allSys (b : Builder) : List Sys := b.stages.flatten.flatMap Group.systems

theorem allSys_insert {b b' : Builder} {s : Sys} (hs : InsertShape b s b') :
    (allSys b').Perm (allSys b ++ [s]) := by
  rw [List.perm_iff_count]
  intro a
  cases hs with
  | newStage e' => simp [allSys, e', Group.single]
  | stage pre st post e e' norw deps =>
    simp [allSys, e, e', Group.single, List.count_append, List.count_cons] <;> omega
  | group pre gp G gq post e e' norw len deps =>
    simp [allSys, e, e', Group.pushed, List.count_append, List.count_cons] <;> omega

theorem allIds_eq (b : Builder) : allIds b.stages = (allSys b).map (·.id) := by
  simp only [allIds, allSys, List.map_flatMap]; rfl

theorem layout_flatten (b : Builder) : b.layout.flatten.flatten = (allSys b).map (·.id) := by
  rw [← allIds_eq]; exact flatten_map_map Group.ids b.stages

theorem plan_flatten (b : Builder) : b.plan.flatten.flatten = allSys b :=
  flatten_map_map Group.systems b.stages

/-! ### the whole item list -/

theorem DBuilder.step_ok (d : DBuilder) (it : Item) (hb : BInv d.sb) :
    ∃ d', d.step it = .ok d' ∧ BInv d'.sb ∧
      (match it with
       | .sys s => d'.currentId = d.currentId + 1 ∧ InsertShape d.sb { s with id := d.currentId } d'.sb
       | .barrier => d'.currentId = d.currentId ∧ d'.sb.stages = d.sb.stages) := by
  cases it with
  | barrier =>
    refine ⟨_, rfl, ?_, rfl, rfl⟩
    exact ⟨hb.cap, hb.decl, hb.par⟩
  | sys s =>
    obtain ⟨b', h1, _, h3⟩ := insert_shape d.sb { s with id := d.currentId } hb.cap
    refine ⟨{ currentId := d.currentId + 1, sb := b' }, ?_, hb.insert h3, rfl, h3⟩
    simp [DBuilder.step, DBuilder.add, h1]

/-- Building never panics; the builder invariant holds at the end; the placed systems are exactly
    the given ones (as a multiset); ids are handed out consecutively. -/
theorem runFrom_ok : ∀ (items : List Item) (d : DBuilder), BInv d.sb →
    ∃ d', d.runFrom items = .ok d' ∧ BInv d'.sb ∧
      (allSys d'.sb).Perm (allSys d.sb ++ systemsFrom d.currentId items) ∧
      d'.currentId = d.currentId + (systemsFrom d.currentId items).length := by
  intro items
  induction items with
  | nil => intro d hb; exact ⟨d, rfl, hb, by simp [systemsFrom], by simp [systemsFrom]⟩
  | cons it rest ih =>
    intro d hb
    obtain ⟨d1, h1, hb1, hm⟩ := d.step_ok it hb
    obtain ⟨d2, h2, hb2, hp, hid⟩ := ih d1 hb1
    refine ⟨d2, by simp [DBuilder.runFrom, h1, h2], hb2, ?_, ?_⟩
    · cases it with
      | barrier =>
        simp only at hm
        simp only [systemsFrom]
        have e : allSys d1.sb = allSys d.sb := by simp [allSys, hm.2]
        rw [e, hm.1] at hp; exact hp
      | sys s =>
        simp only at hm
        simp only [systemsFrom]
        have := allSys_insert hm.2
        rw [hm.1] at hp
        refine hp.trans ?_
        refine (List.Perm.append_right _ this).trans ?_
        simp
    · cases it with
      | barrier => simp only at hm; simp only [systemsFrom]; rw [hid, hm.1]
      | sys s => simp only at hm; simp only [systemsFrom, List.length_cons]; rw [hid, hm.1]; omega

theorem systemsFrom_ids : ∀ (items : List Item) (n : Nat),
    (systemsFrom n items).map (·.id) = List.range' n (systemsFrom n items).length
  | [], n => by simp [systemsFrom]
  | .barrier :: rest, n => by simp only [systemsFrom]; exact systemsFrom_ids rest n
  | .sys s :: rest, n => by
    simp only [systemsFrom, List.map_cons, List.length_cons, List.range'_succ]
    rw [systemsFrom_ids rest (n + 1)]

/-! ### dependencies are placed before their dependants -/

/-- In the id layout `L`, `d` is placed before `i`: in an earlier stage, or earlier in the very
    group of `i`. -/
def Before (L : List (List (List Nat))) (d i : Nat) : Prop :=
  ∃ (k : Nat) (st : List (List Nat)), L[k]? = some st ∧
    ((i ∈ st.flatten ∧ ∃ (j : Nat) (sj : List (List Nat)), j < k ∧ L[j]? = some sj ∧ d ∈ sj.flatten) ∨
     (∃ G ∈ st, ∃ l1 l2, G = l1 ++ i :: l2 ∧ d ∈ l1))

/-- `L'` extends `L`: stages keep their index, groups only grow at their end. -/
def LayoutExt (L L' : List (List (List Nat))) : Prop :=
  ∀ (k : Nat) (st : List (List Nat)), L[k]? = some st →
    ∃ st', L'[k]? = some st' ∧ ∀ G ∈ st, ∃ G' ∈ st', G <+: G'

theorem layoutExt_refl (L : List (List (List Nat))) : LayoutExt L L :=
  fun _ st hk => ⟨st, hk, fun G hG => ⟨G, hG, List.prefix_refl _⟩⟩

theorem LayoutExt.trans {L1 L2 L3 : List (List (List Nat))} (h1 : LayoutExt L1 L2)
    (h2 : LayoutExt L2 L3) : LayoutExt L1 L3 := by
  intro k st hk
  obtain ⟨st1, hk1, g1⟩ := h1 k st hk
  obtain ⟨st2, hk2, g2⟩ := h2 k st1 hk1
  refine ⟨st2, hk2, fun G hG => ?_⟩
  obtain ⟨G1, hG1, p1⟩ := g1 G hG
  obtain ⟨G2, hG2, p2⟩ := g2 G1 hG1
  exact ⟨G2, hG2, p1.trans p2⟩

theorem Before.mono {L L' : List (List (List Nat))} {d i : Nat} (h : Before L d i)
    (hx : LayoutExt L L') : Before L' d i := by
  obtain ⟨k, st, hk, h⟩ := h
  obtain ⟨st', hk', hst⟩ := hx k st hk
  refine ⟨k, st', hk', ?_⟩
  rcases h with ⟨hi, j, sj, hj, hsj, hd⟩ | ⟨G, hG, l1, l2, e, hd⟩
  · left
    constructor
    · obtain ⟨G, hG, hiG⟩ := List.mem_flatten.mp hi
      obtain ⟨G', hG', hp⟩ := hst G hG
      exact List.mem_flatten.mpr ⟨G', hG', hp.subset hiG⟩
    · obtain ⟨sj', hsj', hstj⟩ := hx j sj hsj
      refine ⟨j, sj', hj, hsj', ?_⟩
      obtain ⟨G, hG, hdG⟩ := List.mem_flatten.mp hd
      obtain ⟨G', hG', hp⟩ := hstj G hG
      exact List.mem_flatten.mpr ⟨G', hG', hp.subset hdG⟩
  · right
    obtain ⟨G', hG', t, ht⟩ := hst G hG
    refine ⟨G', hG', l1, l2 ++ t, ?_, hd⟩
    rw [← ht, e]; simp

theorem layoutExt_append (L M : List (List (List Nat))) : LayoutExt L (L ++ M) := by
  intro k st hk
  refine ⟨st, ?_, fun G hG => ⟨G, hG, List.prefix_refl _⟩⟩
  have hlt : k < L.length := (List.getElem?_eq_some_iff.mp hk).1
  rw [List.getElem?_append_left hlt]; exact hk

theorem layoutExt_replace (P Q : List (List (List Nat))) (x y : List (List Nat))
    (h : ∀ G ∈ x, ∃ G' ∈ y, G <+: G') : LayoutExt (P ++ x :: Q) (P ++ y :: Q) := by
  intro k st hk
  simp only [List.getElem?_append, List.getElem?_cons] at hk ⊢
  split
  · rename_i h1; rw [if_pos h1] at hk
    exact ⟨st, hk, fun G hG => ⟨G, hG, List.prefix_refl _⟩⟩
  · rename_i h1; rw [if_neg h1] at hk
    split
    · rename_i h2; rw [if_pos h2] at hk
      cases hk
      exact ⟨y, rfl, h⟩
    · rename_i h2; rw [if_neg h2] at hk
      exact ⟨st, hk, fun G hG => ⟨G, hG, List.prefix_refl _⟩⟩

def idLayout (sts : List (List Group)) : List (List (List Nat)) := sts.map (·.map Group.ids)

theorem mem_allIds {sts : List (List Group)} {d : Nat} :
    d ∈ allIds sts ↔ ∃ st ∈ sts, ∃ g ∈ st, d ∈ g.ids := by
  simp only [allIds, List.mem_flatMap, List.mem_flatten]
  constructor
  · rintro ⟨g, ⟨st, hst, hg⟩, hd⟩; exact ⟨st, hst, g, hg, hd⟩
  · rintro ⟨st, hst, g, hg, hd⟩; exact ⟨g, ⟨st, hst, hg⟩, hd⟩

/-- An id placed in one of the stages `P` sits at some index `< P.length` of any layout that starts
    with `P`. -/
theorem earlier_of_mem_allIds {P : List (List Group)} {R : List (List (List Nat))} {d : Nat}
    (h : d ∈ allIds P) :
    ∃ j sj, j < P.length ∧ (idLayout P ++ R)[j]? = some sj ∧ d ∈ sj.flatten := by
  obtain ⟨st, hst, g, hg, hd⟩ := mem_allIds.mp h
  obtain ⟨j, hj⟩ := List.getElem?_of_mem hst
  have hlt : j < P.length := (List.getElem?_eq_some_iff.mp hj).1
  refine ⟨j, st.map Group.ids, hlt, ?_, ?_⟩
  · rw [List.getElem?_append_left (by simpa [idLayout] using hlt)]
    simp [idLayout, hj]
  · exact List.mem_flatten.mpr ⟨g.ids, List.mem_map_of_mem hg, hd⟩

theorem insert_layoutExt {b b' : Builder} {s : Sys} (hs : InsertShape b s b') :
    LayoutExt b.layout b'.layout := by
  cases hs with
  | newStage e' =>
    simp only [Builder.layout, e', List.map_append]
    exact layoutExt_append _ _
  | stage pre st post e e' norw deps =>
    simp only [Builder.layout, e, e', List.map_append, List.map_cons]
    apply layoutExt_replace
    intro G hG
    exact ⟨G, List.mem_append.mpr (Or.inl hG), List.prefix_refl _⟩
  | group pre gp G gq post e e' norw len deps =>
    simp only [Builder.layout, e, e', List.map_append, List.map_cons]
    apply layoutExt_replace
    intro X hX
    simp only [List.mem_append, List.mem_cons] at hX ⊢
    rcases hX with h | rfl | h
    · exact ⟨X, Or.inl h, List.prefix_refl _⟩
    · exact ⟨(G.pushed s).ids, Or.inr (Or.inl rfl), by simp [Group.pushed, Group.ids]⟩
    · exact ⟨X, Or.inr (Or.inr h), List.prefix_refl _⟩

/-- The inserted system's dependencies are before it in the new layout (for the new-stage case
    they must have been placed at all: `hdeps`). -/
theorem insert_before {b b' : Builder} {s : Sys} (hs : InsertShape b s b')
    (hdeps : ∀ d ∈ s.deps, d ∈ allIds b.stages) :
    ∀ d ∈ s.deps, Before b'.layout d s.id := by
  intro d hd
  cases hs with
  | newStage e' =>
    obtain ⟨j, sj, hj, hsj, hdj⟩ := earlier_of_mem_allIds (R := [[(Group.single s).ids]]) (hdeps d hd)
    refine ⟨b.stages.length, [(Group.single s).ids], ?_, Or.inl ⟨by simp [Group.single, Group.ids], j, sj, hj, ?_, hdj⟩⟩
    · simp [Builder.layout, e']
    · simpa [Builder.layout, e', idLayout] using hsj
  | stage pre st post e e' norw deps =>
    obtain ⟨j, sj, hj, hsj, hdj⟩ := earlier_of_mem_allIds
      (R := ((st ++ [Group.single s]).map Group.ids) :: idLayout post) (deps d hd)
    refine ⟨pre.length, (st ++ [Group.single s]).map Group.ids, ?_, Or.inl ⟨?_, j, sj, hj, ?_, hdj⟩⟩
    · simp [Builder.layout, e']
    · simp [Group.single, Group.ids]
    · simpa [Builder.layout, e', idLayout] using hsj
  | group pre gp G gq post e e' norw len deps =>
    have hk : b'.layout[pre.length]? = some ((gp ++ G.pushed s :: gq).map Group.ids) := by
      simp [Builder.layout, e']
    rcases deps d hd with h | h
    · obtain ⟨j, sj, hj, hsj, hdj⟩ := earlier_of_mem_allIds
        (R := ((gp ++ G.pushed s :: gq).map Group.ids) :: idLayout post) h
      refine ⟨pre.length, _, hk, Or.inl ⟨?_, j, sj, hj, ?_, hdj⟩⟩
      · simp [Group.pushed, Group.ids]
      · simpa [Builder.layout, e', idLayout] using hsj
    · refine ⟨pre.length, _, hk, Or.inr ⟨(G.pushed s).ids, ?_, G.ids, [], ?_, h⟩⟩
      · simp
      · simp [Group.pushed, Group.ids]

/-- Dependencies refer to systems added earlier. -/
def DepsEarlier : Nat → List Item → Prop
  | _, [] => True
  | n, .sys s :: rest => (∀ d ∈ s.deps, d < n) ∧ DepsEarlier (n + 1) rest
  | n, .barrier :: rest => DepsEarlier n rest

theorem allIds_insert {b b' : Builder} {s : Sys} (hs : InsertShape b s b') (d : Nat) :
    d ∈ allIds b'.stages ↔ d ∈ allIds b.stages ∨ d = s.id := by
  rw [allIds_eq, allIds_eq, (allSys_insert hs).map _ |>.mem_iff]
  simp

theorem runFrom_deps : ∀ (items : List Item) (d : DBuilder) (d' : DBuilder), BInv d.sb →
    (∀ i, i < d.currentId → i ∈ allIds d.sb.stages) →
    DepsEarlier d.currentId items → d.runFrom items = .ok d' →
    LayoutExt d.sb.layout d'.sb.layout ∧
    ∀ s ∈ systemsFrom d.currentId items, ∀ x ∈ s.deps, Before d'.sb.layout x s.id := by
  intro items
  induction items with
  | nil =>
    intro d d' _ _ _ h
    simp [DBuilder.runFrom] at h; subst h
    exact ⟨layoutExt_refl _, by simp [systemsFrom]⟩
  | cons it rest ih =>
    intro d d' hb hall hde hrun
    obtain ⟨d1, h1, hb1, hm⟩ := d.step_ok it hb
    simp only [DBuilder.runFrom, h1] at hrun
    cases it with
    | barrier =>
      simp only at hm
      simp only [DepsEarlier] at hde
      have hl : d1.sb.layout = d.sb.layout := by simp [Builder.layout, hm.2]
      have := ih d1 d' hb1 (by rw [hm.1, hm.2]; exact hall) (by rw [hm.1]; exact hde) hrun
      rw [hl, hm.1] at this
      simpa [systemsFrom] using this
    | sys s =>
      simp only at hm
      simp only [DepsEarlier] at hde
      obtain ⟨hc, hshape⟩ := hm
      have hall1 : ∀ i, i < d1.currentId → i ∈ allIds d1.sb.stages := by
        intro i hi
        rw [allIds_insert hshape]
        rw [hc] at hi
        rcases Nat.lt_succ_iff_lt_or_eq.mp hi with h | h
        · exact Or.inl (hall i h)
        · exact Or.inr h
      obtain ⟨hext, hrest⟩ := ih d1 d' hb1 hall1 (by rw [hc]; exact hde.2) hrun
      have hext0 := insert_layoutExt hshape
      refine ⟨hext0.trans hext, ?_⟩
      · intro t ht x hx
        simp only [systemsFrom, List.mem_cons] at ht
        rcases ht with rfl | ht
        · have := insert_before hshape (fun dd hdd => hall dd (hde.1 dd hdd)) x hx
          exact this.mono hext
        · rw [hc] at hrest; exact hrest t ht x hx

end SpecsModel.Dispatch
