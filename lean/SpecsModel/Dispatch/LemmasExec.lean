/- Execution of a conflict-free plan: the state invariant that makes every `fetch` succeed and keeps
   writers exclusive, for every interleaving. -/
import SpecsModel.Dispatch.LemmasBuild
set_option linter.unusedSimpArgs false
namespace SpecsModel.Dispatch

/-- Two borrows can be outstanding together. -/
def Compat (a b : Borrow) : Prop := a.1 = b.1 → a.2 = false ∧ b.2 = false

theorem Compat.symm {a b : Borrow} (h : Compat a b) : Compat b a :=
  fun e => ⟨(h e.symm).2, (h e.symm).1⟩

/-- The system's own `fetch` does not conflict with itself (e.g. no `(ReadStorage<A>, WriteStorage<A>)`). -/
def SelfOk (s : Sys) : Prop := s.borrows.Pairwise Compat

/-- Borrowed ⊆ declared: exclusive borrows are declared writes; every borrow is declared. -/
def DeclOk (s : Sys) : Prop :=
  ∀ b ∈ s.borrows, (b.2 = true → b.1 ∈ s.writes) ∧ (b.1 ∈ s.reads ∨ b.1 ∈ s.writes)

def SysOk (s : Sys) : Prop := SelfOk s ∧ DeclOk s

/-- Groups of a stage are pairwise conflict-free. -/
def StagePar (st : List (List Sys)) : Prop :=
  st.Pairwise (fun G G' => ∀ s ∈ G, ∀ t ∈ G', NoConf s t)

def PlanOk (plan : List (List (List Sys))) : Prop :=
  (∀ st ∈ plan, StagePar st) ∧ ∀ st ∈ plan, ∀ G ∈ st, ∀ s ∈ G, SysOk s

theorem compat_of_noConf {s t : Sys} (h : NoConf s t) (hs : DeclOk s) (ht : DeclOk t)
    {b b' : Borrow} (hb : b ∈ s.borrows) (hb' : b' ∈ t.borrows) : Compat b b' := by
  intro e
  obtain ⟨s1, s2⟩ := hs b hb
  obtain ⟨t1, t2⟩ := ht b' hb'
  constructor
  · cases hx : b.2 with
    | false => rfl
    | true =>
      have := h.1 b.1 (s1 hx)
      rw [e] at this
      rcases t2 with t2 | t2
      · exact absurd t2 this.1
      · exact absurd t2 this.2
  · cases hx : b'.2 with
    | false => rfl
    | true =>
      have := h.2 b'.1 (t1 hx)
      rw [← e] at this
      rcases s2 with s2 | s2
      · exact absurd s2 this.1
      · exact absurd s2 this.2

/-! ### per-group and global invariants -/

/-- Systems a group can still hold borrows for: the running one and those to come. -/
def GRun.sys (g : GRun) : List Sys := g.cur.toList ++ g.todo

def GOk (g : GRun) : Prop :=
  (∀ s ∈ g.sys, SysOk s) ∧
  (match g.cur with
   | none => g.pending = [] ∧ g.held = []
   | some s => (g.held ++ g.pending).Pairwise Compat ∧ ∀ b ∈ g.held ++ g.pending, b ∈ s.borrows)

def allHeld (gs : List GRun) : List Borrow := gs.flatMap (·.held)

/-- The `AtomicRefCell` counters are exactly the outstanding guards. -/
def CellsOk (m : DMap Cell) (H : List Borrow) : Prop :=
  ∀ r, (m.get r).readers = H.count (r, false) ∧
       (if (m.get r).writer then 1 else 0) = H.count (r, true)

def GPar (g g' : GRun) : Prop := ∀ s ∈ g.sys, ∀ t ∈ g'.sys, NoConf s t

structure XInv (x : XState) : Prop where
  gok : ∀ g ∈ x.groups, GOk g
  par : x.groups.Pairwise GPar
  later : PlanOk x.later
  cells : CellsOk x.cells (allHeld x.groups)

theorem allHeld_split (P Q : List GRun) (g : GRun) :
    allHeld (P ++ g :: Q) = allHeld P ++ (g.held ++ allHeld Q) := by
  simp [allHeld]

theorem GOk.claim {g : GRun} (h : GOk g) {b : Borrow} (hb : b ∈ g.held ++ g.pending) :
    ∃ s ∈ g.sys, b ∈ s.borrows ∧ DeclOk s := by
  obtain ⟨h1, h2⟩ := h
  cases hc : g.cur with
  | none =>
    rw [hc] at h2; simp only at h2
    rw [h2.1, h2.2] at hb; simp at hb
  | some s =>
    rw [hc] at h2; simp only at h2
    have hs : s ∈ g.sys := by simp [GRun.sys, hc]
    exact ⟨s, hs, h2.2 b hb, (h1 s hs).2⟩

theorem cross_compat {g g' : GRun} (h : GOk g) (h' : GOk g') (hp : GPar g g')
    {b b' : Borrow} (hb : b ∈ g.held ++ g.pending) (hb' : b' ∈ g'.held ++ g'.pending) :
    Compat b b' := by
  obtain ⟨s, hs, hbs, ds⟩ := h.claim hb
  obtain ⟨t, ht, hbt, dt⟩ := h'.claim hb'
  exact compat_of_noConf (hp s hs t ht) ds dt hbs hbt

theorem pairwise_replace {α} {R : α → α → Prop} {P Q : List α} {x y : α}
    (h : (P ++ x :: Q).Pairwise R) (h1 : ∀ a, R a x → R a y) (h2 : ∀ a, R x a → R y a) :
    (P ++ y :: Q).Pairwise R := by
  rw [List.pairwise_append, List.pairwise_cons] at h ⊢
  obtain ⟨p1, ⟨p2, p3⟩, p4⟩ := h
  refine ⟨p1, ⟨fun a ha => h2 a (p2 a ha), p3⟩, ?_⟩
  intro a ha b hb
  rcases List.mem_cons.mp hb with rfl | hb
  · exact h1 a (p4 a ha x (List.mem_cons_self ..))
  · exact p4 a ha b (List.mem_cons_of_mem _ hb)

/-- From the position of group `gr`, everything the other groups hold is compatible with anything
    `gr` holds or is about to take. -/
theorem others_compat {P Q : List GRun} {gr : GRun}
    (hok : ∀ g ∈ P ++ gr :: Q, GOk g) (hpar : (P ++ gr :: Q).Pairwise GPar)
    {b b' : Borrow} (hb : b ∈ gr.held ++ gr.pending) (hb' : b' ∈ allHeld P ++ allHeld Q) :
    Compat b b' := by
  rw [List.pairwise_append, List.pairwise_cons] at hpar
  obtain ⟨_, ⟨p2, _⟩, p4⟩ := hpar
  have hgr : GOk gr := hok gr (by simp)
  rcases List.mem_append.mp hb' with h | h
  · obtain ⟨g', hg', hbg⟩ := List.mem_flatMap.mp h
    have := cross_compat (hok g' (by simp [hg'])) hgr (p4 g' hg' gr (List.mem_cons_self ..))
      (List.mem_append.mpr (Or.inl hbg)) hb
    exact this.symm
  · obtain ⟨g', hg', hbg⟩ := List.mem_flatMap.mp h
    exact cross_compat hgr (hok g' (by simp [hg'])) (p2 g' hg') hb (List.mem_append.mpr (Or.inl hbg))

/-! ### the cells -/

theorem count_zero_of_compat_excl {H : List Borrow} {r : Nat} {ex : Bool}
    (h : ∀ b' ∈ H, Compat (r, true) b') : H.count (r, ex) = 0 := by
  rw [List.count_eq_zero]
  intro hm
  have := (h _ hm rfl).1
  cases this

theorem borrowCell_ok {m : DMap Cell} {H : List Borrow} {b : Borrow}
    (hc : CellsOk m H) (hb : ∀ b' ∈ H, Compat b b') :
    ∃ m', borrowCell m b = .ok m' ∧ CellsOk m' (b :: H) := by
  obtain ⟨r0, ex⟩ := b
  cases ex with
  | true =>
    have z1 : H.count (r0, false) = 0 := count_zero_of_compat_excl hb
    have z2 : H.count (r0, true) = 0 := count_zero_of_compat_excl hb
    obtain ⟨c1, c2⟩ := hc r0
    have hw : (m.get r0).writer = false := by
      cases hwr : (m.get r0).writer with
      | false => rfl
      | true => rw [hwr, z2] at c2; simp at c2
    have hr : (m.get r0).readers = 0 := by rw [c1, z1]
    refine ⟨m.set r0 { m.get r0 with writer := true }, ?_, ?_⟩
    · simp [borrowCell, hw, hr]
    · intro r
      rw [DMap.get_set]
      by_cases hrr : r = r0
      · subst hrr
        simp [List.count_cons, hr, z1, z2]
      · have := hc r
        simp [List.count_cons, hrr, Ne.symm hrr, this.1, this.2]
  | false =>
    obtain ⟨c1, c2⟩ := hc r0
    have z2 : H.count (r0, true) = 0 := by
      rw [List.count_eq_zero]
      intro hm
      have := (hb _ hm rfl).2
      cases this
    have hw : (m.get r0).writer = false := by
      cases hwr : (m.get r0).writer with
      | false => rfl
      | true => rw [hwr, z2] at c2; simp at c2
    refine ⟨m.set r0 { m.get r0 with readers := (m.get r0).readers + 1 }, ?_, ?_⟩
    · simp [borrowCell, hw]
    · intro r
      rw [DMap.get_set]
      by_cases hrr : r = r0
      · subst hrr
        simp [List.count_cons, c1, hw, z2]
      · have := hc r
        simp [List.count_cons, hrr, Ne.symm hrr, this.1, this.2]

theorem releaseCell_ok {m : DMap Cell} {H : List Borrow} {b : Borrow}
    (hc : CellsOk m (b :: H)) : CellsOk (releaseCell m b) H := by
  obtain ⟨r0, ex⟩ := b
  intro r
  unfold releaseCell
  cases ex with
  | true =>
    simp only [if_true]
    rw [DMap.get_set]
    by_cases hrr : r = r0
    · subst hrr
      obtain ⟨c1, c2⟩ := hc r
      simp [List.count_cons] at c1 c2
      simp only [if_true]
      refine ⟨c1, ?_⟩
      cases hwr : (m.get r).writer with
      | false => rw [hwr] at c2; simp at c2
      | true => rw [hwr] at c2; simp at c2; simp; omega
    · have := hc r
      simp [List.count_cons, Ne.symm hrr] at this
      simp [hrr, this.1, this.2]
  | false =>
    simp only [Bool.false_eq_true, if_false]
    rw [DMap.get_set]
    by_cases hrr : r = r0
    · subst hrr
      obtain ⟨c1, c2⟩ := hc r
      simp [List.count_cons] at c1 c2
      simp only [if_true]
      exact ⟨by omega, c2⟩
    · have := hc r
      simp [List.count_cons, Ne.symm hrr] at this
      simp [hrr, this.1, this.2]

theorem CellsOk.congr {m : DMap Cell} {H H' : List Borrow} (h : CellsOk m H)
    (hp : ∀ x, H'.count x = H.count x) : CellsOk m H' := by
  intro r; rw [hp, hp]; exact h r

theorem eraseIdx_append_cons_length {α} (A : List α) (b : α) (B : List α) :
    (A ++ b :: B).eraseIdx A.length = A ++ B := by
  induction A with
  | nil => rfl
  | cons a A ih => simp [ih]

/-! ### one step -/

theorem xinv_replace {x : XState} (hx : XInv x) {P Q : List GRun} {gr gr' : GRun}
    (e : x.groups = P ++ gr :: Q) (hok : GOk gr') (hsys : ∀ s ∈ gr'.sys, s ∈ gr.sys)
    (m' : DMap Cell) (hcells : CellsOk m' (allHeld (P ++ gr' :: Q))) (log' : List Ev) :
    XInv { x with cells := m', groups := P ++ gr' :: Q, log := log' } := by
  refine ⟨?_, ?_, hx.later, hcells⟩
  · intro g hg
    rcases mem_replace (z := gr) hg with h | h
    · subst h; exact hok
    · exact hx.gok g (by rw [e]; exact h)
  · have := hx.par
    rw [e] at this
    exact pairwise_replace this (fun a h s hs t ht => h s hs t (hsys t ht))
      (fun a h s hs t ht => h s (hsys s hs) t ht)

theorem move_inv {x : XState} (hx : XInv x) (g k : Nat) :
    ∃ x', x.move g k = .ok x' ∧ XInv x' := by
  unfold XState.move
  cases hg : x.groups[g]? with
  | none => exact ⟨x, rfl, hx⟩
  | some gr =>
    obtain ⟨P, Q, e, hP⟩ := getElem?_split hg
    have hset : ∀ y, x.groups.set g y = P ++ y :: Q := by
      intro y; rw [e, ← hP]; exact set_append_cons_length ..
    have hgr : gr ∈ x.groups := by rw [e]; simp
    have gok := hx.gok gr hgr
    have hcells := hx.cells
    rw [e, allHeld_split] at hcells
    simp only [hset]
    cases hc : gr.cur with
    | none =>
      simp only
      have hnone := gok.2
      rw [hc] at hnone; simp only at hnone
      cases ht : gr.todo with
      | nil => exact ⟨x, rfl, hx⟩
      | cons s rest =>
        refine ⟨_, rfl, xinv_replace hx e ?_ ?_ x.cells ?_ _⟩
        · have hs : SysOk s := gok.1 s (by simp [GRun.sys, hc, ht])
          refine ⟨?_, ?_⟩
          · intro t htm
            apply gok.1 t
            simpa [GRun.sys, hc, ht] using htm
          · simp only [List.nil_append]
            exact ⟨hs.1, fun b hb => hb⟩
        · intro t htm; simpa [GRun.sys, hc, ht] using htm
        · rw [allHeld_split]; rw [hnone.2] at hcells; exact hcells
    | some s =>
      simp only
      have hsome := gok.2
      rw [hc] at hsome; simp only at hsome
      cases hp : gr.pending with
      | cons b p =>
        simp only
        have hbclaim : b ∈ gr.held ++ gr.pending := by rw [hp]; simp
        -- everything outstanding is compatible with `b`
        have hcompat : ∀ b' ∈ allHeld P ++ (gr.held ++ allHeld Q), Compat b b' := by
          intro b' hb'
          simp only [List.mem_append] at hb'
          rcases hb' with h | h | h
          · exact others_compat (by rw [← e]; exact hx.gok) (by rw [← e]; exact hx.par) hbclaim
              (List.mem_append.mpr (Or.inl h))
          · have := hsome.1
            rw [hp, List.pairwise_append] at this
            exact (this.2.2 b' h b (List.mem_cons_self ..)).symm
          · exact others_compat (by rw [← e]; exact hx.gok) (by rw [← e]; exact hx.par) hbclaim
              (List.mem_append.mpr (Or.inr h))
        obtain ⟨m', hm', hc'⟩ := borrowCell_ok hcells hcompat
        rw [hm']
        refine ⟨_, rfl, xinv_replace hx e ?_ ?_ m' ?_ _⟩
        · refine ⟨?_, ?_⟩
          · intro t htm; apply gok.1 t; simpa [GRun.sys, hc] using htm
          · simp only [hc]
            rw [hp] at hsome
            simpa using hsome
        · intro t htm; simpa [GRun.sys, hc] using htm
        · rw [allHeld_split]
          apply hc'.congr
          intro y
          simp [List.count_append, List.count_cons]
          omega
      | nil =>
        simp only
        cases hh : gr.held[k % gr.held.length]? with
        | some b =>
          simp only
          obtain ⟨A, B, eh, hA⟩ := getElem?_split hh
          have herase : gr.held.eraseIdx (k % gr.held.length) = A ++ B := by
            rw [← hA]; conv => lhs; rw [eh]
            exact eraseIdx_append_cons_length ..
          rw [herase]
          refine ⟨_, rfl, xinv_replace hx e ?_ ?_ (releaseCell x.cells b) ?_ _⟩
          · refine ⟨?_, ?_⟩
            · intro t htm; apply gok.1 t; simpa [GRun.sys, hc] using htm
            · simp only [hc]
              rw [hp, eh] at hsome
              simp only [List.append_nil] at hsome ⊢
              refine ⟨hsome.1.sublist ?_, fun b' hb' => hsome.2 b' ?_⟩
              · exact List.Sublist.append (List.Sublist.refl _) (List.sublist_cons_self ..)
              · simp only [List.mem_append, List.mem_cons] at hb' ⊢
                rcases hb' with h | h
                · exact Or.inl h
                · exact Or.inr (Or.inr h)
          · intro t htm; simpa [GRun.sys, hc] using htm
          · rw [allHeld_split]
            apply releaseCell_ok (b := b)
            apply hcells.congr
            intro y
            rw [eh]
            simp [List.count_append, List.count_cons]
            omega
        | none =>
          simp only
          have hempty : gr.held = [] := by
            cases hl : gr.held with
            | nil => rfl
            | cons a l =>
              rw [hl] at hh
              have : k % (a :: l).length < (a :: l).length := Nat.mod_lt _ (by simp)
              rw [List.getElem?_eq_none_iff] at hh
              omega
          refine ⟨_, rfl, xinv_replace hx e ?_ ?_ x.cells ?_ _⟩
          · refine ⟨?_, ?_⟩
            · intro t htm; apply gok.1 t; simp [GRun.sys, hc] at htm ⊢; exact Or.inr htm
            · simp [hp, hempty]
          · intro t htm; simp [GRun.sys, hc] at htm ⊢; exact Or.inr htm
          · rw [allHeld_split]; exact hcells

theorem settle_inv {x : XState} (hx : XInv x) : XInv x.settle := by
  unfold XState.settle
  split
  · rename_i hall
    split
    · exact hx
    · rename_i st rest hl
      have hlater := hx.later
      rw [hl] at hlater
      -- nothing is held when all groups are done
      have hnoheld : allHeld x.groups = [] := by
        simp only [allHeld, List.flatMap_eq_nil_iff]
        intro g hg
        have hd := List.all_eq_true.mp hall g hg
        simp only [GRun.done, Bool.and_eq_true, Option.isNone_iff_eq_none] at hd
        have := (hx.gok g hg).2
        rw [hd.2] at this
        exact this.2
      refine ⟨?_, ?_, ?_, ?_⟩
      · intro g hg
        simp only [List.mem_map] at hg
        obtain ⟨G, hG, rfl⟩ := hg
        refine ⟨?_, by simp⟩
        intro s hs
        simp [GRun.sys] at hs
        exact hlater.2 st (List.mem_cons_self ..) G hG s hs
      · simp only
        rw [List.pairwise_map]
        have := hlater.1 st (List.mem_cons_self ..)
        refine this.imp ?_
        intro G G' h s hs t ht
        simp [GRun.sys] at hs ht
        exact h s hs t ht
      · exact ⟨fun s hs => hlater.1 s (List.mem_cons_of_mem _ hs),
          fun s hs => hlater.2 s (List.mem_cons_of_mem _ hs)⟩
      · simp only
        have hc := hx.cells
        rw [hnoheld] at hc
        have : allHeld (List.map (fun g => ({ todo := g } : GRun)) st) = [] := by
          simp [allHeld]
        rw [this]; exact hc
  · exact hx

theorem step_inv {x : XState} (hx : XInv x) (e : Nat × Nat) :
    ∃ x', x.step e = .ok x' ∧ XInv x' := by
  obtain ⟨x1, h1, hx1⟩ := move_inv hx e.1 e.2
  exact ⟨x1.settle, by simp [XState.step, h1], settle_inv hx1⟩

theorem run_inv : ∀ (es : List (Nat × Nat)) {x : XState}, XInv x →
    ∃ x', x.run es = .ok x' ∧ XInv x'
  | [], x, hx => ⟨x, rfl, hx⟩
  | e :: es, x, hx => by
    obtain ⟨x1, h1, hx1⟩ := step_inv hx e
    obtain ⟨x2, h2, hx2⟩ := run_inv es hx1
    exact ⟨x2, by simp [XState.run, h1, h2], hx2⟩

theorem init_inv {plan : List (List (List Sys))} (hp : PlanOk plan) : XInv (XState.init plan) := by
  apply settle_inv
  refine ⟨by simp, by simp, hp, ?_⟩
  intro r
  simp [allHeld]

/-- In a state satisfying the invariant, what different groups hold is pairwise compatible: an
    exclusive guard on a resource excludes every other guard on it. -/
theorem XInv.held_compat {x : XState} (hx : XInv x) :
    x.groups.Pairwise (fun g g' => ∀ b ∈ g.held, ∀ b' ∈ g'.held, Compat b b') := by
  have hp := hx.par
  have hok := hx.gok
  generalize x.groups = gs at hp hok
  induction hp with
  | nil => exact List.Pairwise.nil
  | @cons a l h _ ih =>
    refine List.Pairwise.cons ?_ (ih (fun g hg => hok g (List.mem_cons_of_mem _ hg)))
    intro g' hg' b hb b' hb'
    exact cross_compat (hok a (List.mem_cons_self ..)) (hok g' (List.mem_cons_of_mem _ hg')) (h g' hg')
      (List.mem_append.mpr (Or.inl hb)) (List.mem_append.mpr (Or.inl hb'))

/-- Within one group, too. -/
theorem XInv.held_self {x : XState} (hx : XInv x) : ∀ g ∈ x.groups, g.held.Pairwise Compat := by
  intro g hg
  have := (hx.gok g hg).2
  cases hc : g.cur with
  | none => rw [hc] at this; simp only at this; rw [this.2]; exact List.Pairwise.nil
  | some s =>
    rw [hc] at this; simp only at this
    exact (List.pairwise_append.mp this.1).1

end SpecsModel.Dispatch
