/- `find_conflict`, `remove_ids`, `improves_balance`, `insertion_target`: what their results mean. -/
import SpecsModel.Dispatch.LemmasList
namespace SpecsModel.Dispatch

/-! ### foldMarks -/

theorem foldMarks_snd (ms : List (Bool × Bool)) : ∀ (i : Nat) (c : Conflict) (d : Bool),
    (foldMarks ms i c d).2 = (d || ms.any (·.2)) := by
  induction ms with
  | nil => intro i c d; simp [foldMarks]
  | cons m ms ih =>
    intro i c d
    obtain ⟨p, dc⟩ := m
    simp [foldMarks, ih, Bool.or_assoc]

theorem foldMarks_multiple (ms : List (Bool × Bool)) : ∀ (i : Nat) (d : Bool),
    (foldMarks ms i .multiple d).1 = .multiple := by
  induction ms with
  | nil => intro i d; rfl
  | cons m ms ih =>
    intro i d
    obtain ⟨p, dc⟩ := m
    cases p <;> simp [foldMarks, Conflict.add, ih]

theorem foldMarks_single (ms : List (Bool × Bool)) : ∀ (i g g' : Nat) (d : Bool),
    (foldMarks ms i (.single g) d).1 = .single g' → g' = g ∧ ∀ m ∈ ms, m.1 = false := by
  induction ms with
  | nil => intro i g g' d h; simp [foldMarks] at h; exact ⟨h.symm, by simp⟩
  | cons m ms ih =>
    intro i g g' d h
    obtain ⟨p, dc⟩ := m
    cases p
    · simp only [foldMarks] at h
      obtain ⟨h1, h2⟩ := ih _ _ _ _ h
      exact ⟨h1, by intro m hm; rcases List.mem_cons.mp hm with rfl | hm; rfl; exact h2 m hm⟩
    · simp [foldMarks, Conflict.add, foldMarks_multiple] at h

theorem foldMarks_single_ne_none (ms : List (Bool × Bool)) : ∀ (i g : Nat) (d : Bool),
    (foldMarks ms i (.single g) d).1 ≠ .none := by
  induction ms with
  | nil => intro i g d; simp [foldMarks]
  | cons m ms ih =>
    intro i g d
    obtain ⟨p, dc⟩ := m
    cases p
    · simp only [foldMarks]; exact ih _ _ _
    · simp [foldMarks, Conflict.add, foldMarks_multiple]

theorem foldMarks_none_none (ms : List (Bool × Bool)) : ∀ (i : Nat) (d : Bool),
    (foldMarks ms i .none d).1 = .none → ∀ m ∈ ms, m.1 = false := by
  induction ms with
  | nil => intro i d _; simp
  | cons m ms ih =>
    intro i d h
    obtain ⟨p, dc⟩ := m
    cases p
    · simp only [foldMarks] at h
      intro m hm; rcases List.mem_cons.mp hm with rfl | hm
      · rfl
      · exact ih _ _ h m hm
    · simp only [foldMarks, Conflict.add, if_true] at h
      exact absurd h (foldMarks_single_ne_none _ _ _ _)

theorem foldMarks_none_single (ms : List (Bool × Bool)) : ∀ (i g : Nat) (d : Bool),
    (foldMarks ms i .none d).1 = .single g →
    ∃ pre m post, ms = pre ++ m :: post ∧ g = i + pre.length ∧ m.1 = true ∧
      (∀ x ∈ pre, x.1 = false) ∧ (∀ x ∈ post, x.1 = false) := by
  induction ms with
  | nil => intro i g d h; simp [foldMarks] at h
  | cons m ms ih =>
    intro i g d h
    obtain ⟨p, dc⟩ := m
    cases p
    · simp only [foldMarks] at h
      obtain ⟨pre, m, post, e, hg, hm, h1, h2⟩ := ih _ _ _ h
      refine ⟨(false, dc) :: pre, m, post, by simp [e], by simp; omega, hm, ?_, h2⟩
      intro x hx; rcases List.mem_cons.mp hx with rfl | hx
      · rfl
      · exact h1 x hx
    · simp only [foldMarks, Conflict.add, if_true] at h
      obtain ⟨hg, hall⟩ := foldMarks_single _ _ _ _ _ h
      exact ⟨[], (true, dc), ms, rfl, by simp [hg], rfl, by simp, hall⟩

/-! ### groupMark / findConflict -/

/-- No read/write intersection between a new system (`nr`, `nw`) and a group's accumulated sets. -/
def NoRW (nr nw : List Nat) (g : Group) : Prop :=
  inter nw (g.writes ++ g.reads) = false ∧ inter nr g.writes = false

theorem groupMark_fst_false {nr nw nd : List Nat} {g : Group}
    (h : (groupMark nr nw nd g).1 = false) : NoRW nr nw g ∧ inter nd g.ids = false := by
  unfold groupMark at h
  simp only at h
  split at h
  · simp at h
  · rename_i h1
    split at h
    · simp at h
    · rename_i h2
      simp only [Bool.or_eq_true, not_or, Bool.not_eq_true] at h1
      exact ⟨⟨h1.1, h1.2⟩, by simpa using h2⟩

theorem groupMark_snd_true {nr nw nd : List Nat} {g : Group}
    (h : (groupMark nr nw nd g).2 = true) : inter nd g.ids = true := by
  unfold groupMark at h
  simp only at h
  split at h
  · simp at h
  · split at h
    · assumption
    · simp at h

theorem groupMark_snd_le_fst {nr nw nd : List Nat} {g : Group}
    (h : (groupMark nr nw nd g).1 = false) : (groupMark nr nw nd g).2 = false := by
  unfold groupMark at h ⊢
  simp only at h ⊢
  split
  · rfl
  · split
    · rename_i h1 h2; simp [h1, h2] at h
    · rfl

theorem findConflict_none {nr nw nd : List Nat} {st : List Group}
    (h : findConflict nr nw nd st = .none) :
    (∀ g ∈ st, NoRW nr nw g) ∧ nd = [] := by
  unfold findConflict at h
  simp only at h
  split at h
  · cases h
  · rename_i hc
    have hall := foldMarks_none_none _ _ _ h
    have hall' : ∀ g ∈ st, (groupMark nr nw nd g).1 = false := by
      intro g hg; exact hall _ (List.mem_map_of_mem hg)
    have hd : (foldMarks (List.map (groupMark nr nw nd) st) 0 Conflict.none false).2 = false := by
      rw [foldMarks_snd]
      simp only [Bool.false_or, List.any_map]
      rw [Bool.eq_false_iff]
      intro hany
      obtain ⟨g, hg, hg2⟩ := List.any_eq_true.mp hany
      have := groupMark_snd_le_fst (hall' g hg)
      simp only [Function.comp] at hg2
      rw [this] at hg2; cases hg2
    rw [hd] at hc
    simp at hc
    exact ⟨fun g hg => (groupMark_fst_false (hall' g hg)).1, hc⟩

theorem findConflict_single {nr nw nd : List Nat} {st : List Group} {g : Nat}
    (h : findConflict nr nw nd st = .single g) :
    ∃ gp G gq, st = gp ++ G :: gq ∧ gp.length = g ∧
      (∀ x ∈ gp, NoRW nr nw x) ∧ (∀ x ∈ gq, NoRW nr nw x) ∧
      (nd = [] ∨ ∃ d, nd = [d] ∧ d ∈ G.ids) := by
  unfold findConflict at h
  simp only at h
  split at h
  · cases h
  · rename_i hc
    obtain ⟨pre, m, post, e, hg, hm, h1, h2⟩ := foldMarks_none_single _ _ _ _ h
    obtain ⟨gp, rest, rfl, hgp, hrest⟩ := List.map_eq_append_iff.mp e
    obtain ⟨G, gq, rfl, hG, hgq⟩ := List.map_eq_cons_iff.mp hrest
    subst hgp hG hgq
    have n1 : ∀ x ∈ gp, (groupMark nr nw nd x).1 = false := fun x hx => h1 _ (List.mem_map_of_mem hx)
    have n2 : ∀ x ∈ gq, (groupMark nr nw nd x).1 = false := fun x hx => h2 _ (List.mem_map_of_mem hx)
    refine ⟨gp, G, gq, rfl, by simp at hg; omega, fun x hx => (groupMark_fst_false (n1 x hx)).1,
      fun x hx => (groupMark_fst_false (n2 x hx)).1, ?_⟩
    rw [foldMarks_snd] at hc
    simp only [Bool.false_or, List.any_map, List.any_append, List.any_cons] at hc
    have a1 : gp.any ((fun x => x.2) ∘ groupMark nr nw nd) = false := by
      rw [Bool.eq_false_iff]; intro hany
      obtain ⟨x, hx, hx2⟩ := List.any_eq_true.mp hany
      have := groupMark_snd_le_fst (n1 x hx)
      simp only [Function.comp] at hx2; rw [this] at hx2; cases hx2
    have a2 : gq.any ((fun x => x.2) ∘ groupMark nr nw nd) = false := by
      rw [Bool.eq_false_iff]; intro hany
      obtain ⟨x, hx, hx2⟩ := List.any_eq_true.mp hany
      have := groupMark_snd_le_fst (n2 x hx)
      simp only [Function.comp] at hx2; rw [this] at hx2; cases hx2
    rw [a1, a2] at hc
    simp only [Bool.false_or, Bool.or_false, Function.comp] at hc
    cases hdc : (groupMark nr nw nd G).2
    · rw [hdc] at hc
      simp at hc
      exact Or.inl hc
    · rw [hdc] at hc
      simp at hc
      have hi := inter_iff.mp (groupMark_snd_true hdc)
      obtain ⟨d, hd1, hd2⟩ := hi
      right
      match nd, hc, hd1 with
      | [x], _, hd1 => simp at hd1; subst hd1; exact ⟨d, rfl, hd2⟩
      | [], _, hd1 => simp at hd1
      | _ :: _ :: _, hc, _ => simp at hc

/-! ### removeIds -/

theorem mem_foldl_erase_or (ids : List Nat) : ∀ (nd : List Nat) (d : Nat), d ∈ nd →
    d ∈ ids.foldl (fun l id => l.erase id) nd ∨ d ∈ ids := by
  induction ids with
  | nil => intro nd d h; exact Or.inl h
  | cons a ids ih =>
    intro nd d h
    simp only [List.foldl_cons, List.mem_cons]
    by_cases hda : d = a
    · exact Or.inr (Or.inl hda)
    · have : d ∈ nd.erase a := (List.mem_erase_of_ne hda).mpr h
      rcases ih _ d this with h1 | h1
      · exact Or.inl h1
      · exact Or.inr (Or.inr h1)

theorem mem_removeIds_or {st : List Group} {nd : List Nat} {d : Nat} (h : d ∈ nd) :
    d ∈ removeIds st nd ∨ d ∈ st.flatMap Group.ids :=
  mem_foldl_erase_or _ _ _ h

/-! ### improves_balance never panics on bounded running times -/

theorem maxTime_some_of_ne_nil : ∀ {st : List Group}, st ≠ [] → ∃ m, maxTime st = some m
  | [], h => absurd rfl h
  | g :: l, _ => by
    unfold maxTime
    cases maxTime l <;> simp

theorem maxTime_le {B : Nat} : ∀ {st : List Group} {m : Nat}, (∀ g ∈ st, g.time ≤ B) →
    maxTime st = some m → m ≤ B
  | [], _, _, h => by simp [maxTime] at h
  | g :: l, m, hb, h => by
    unfold maxTime at h
    have hg := hb g (List.mem_cons_self ..)
    cases hl : maxTime l with
    | none => rw [hl] at h; simp at h; omega
    | some m' =>
      rw [hl] at h
      have := maxTime_le (fun x hx => hb x (List.mem_cons_of_mem _ hx)) hl
      simp at h
      split at h <;> omega

theorem asI8_small {n : Nat} (h : n < 128) : asI8 n = (n : Int) := by
  unfold asI8
  have : n % 256 = n := Nat.mod_eq_of_lt (by omega)
  rw [this]; simp [h]

theorem improvesBalance_ok {st : List Group} {g nt : Nat} {grp : Group}
    (hb : ∀ x ∈ st, x.time ≤ 20) (hg : st[g]? = some grp) (hnt : nt ≤ 5) :
    ∃ r, improvesBalance st g nt = .ok r := by
  have hne : st ≠ [] := by intro h; subst h; simp at hg
  obtain ⟨mx, hmx⟩ := maxTime_some_of_ne_nil hne
  have hmx20 := maxTime_le hb hmx
  have hgrp : grp.time ≤ 20 := hb grp (List.mem_of_getElem? hg)
  unfold improvesBalance
  rw [hmx]
  simp only [hg]
  rw [if_neg (by omega)]
  rw [asI8_small (by omega : mx < 128), asI8_small (by omega : grp.time + nt < 128),
    asI8_small (by omega : grp.time < 128)]
  have e1 : i8sub (mx : Int) ((grp.time + nt : Nat) : Int) = .ok ((mx : Int) - ((grp.time + nt : Nat) : Int)) := by
    unfold i8sub; rw [if_pos (by omega)]
  have e2 : i8sub (mx : Int) (grp.time : Int) = .ok ((mx : Int) - (grp.time : Int)) := by
    unfold i8sub; rw [if_pos (by omega)]
  rw [e1, e2]
  simp only
  have e3 : ∀ a : Int, -128 < a → ∃ v, i8abs a = .ok v := by
    intro a ha; unfold i8abs; rw [if_neg (by omega)]; exact ⟨_, rfl⟩
  obtain ⟨v1, hv1⟩ := e3 ((mx : Int) - ((grp.time + nt : Nat) : Int)) (by omega)
  obtain ⟨v2, hv2⟩ := e3 ((mx : Int) - (grp.time : Int)) (by omega)
  rw [hv1, hv2]
  exact ⟨_, rfl⟩

end SpecsModel.Dispatch
