/- Glue between the builder results and the execution invariant; the specs declaration table. -/
import SpecsModel.Dispatch.LemmasAcct
namespace SpecsModel.Dispatch

/-! ### from the built structure to an executable plan -/

theorem sysOk_withId {s : Sys} {n : Nat} (h : SysOk s) : SysOk { s with id := n } := h

theorem systemsFrom_ok : ∀ (items : List Item) (n : Nat),
    (∀ s, Item.sys s ∈ items → SysOk s) → ∀ t ∈ systemsFrom n items, SysOk t
  | [], _, _, t, ht => by simp [systemsFrom] at ht
  | .barrier :: rest, n, h, t, ht => by
    simp only [systemsFrom] at ht
    exact systemsFrom_ok rest n (fun s hs => h s (List.mem_cons_of_mem _ hs)) t ht
  | .sys s :: rest, n, h, t, ht => by
    simp only [systemsFrom, List.mem_cons] at ht
    rcases ht with rfl | ht
    · exact sysOk_withId (h s (List.mem_cons_self ..))
    · exact systemsFrom_ok rest (n + 1) (fun s hs => h s (List.mem_cons_of_mem _ hs)) t ht

/-- Everything `buildAll` establishes. -/
theorem buildAll_facts (items : List Item) :
    ∃ d, buildAll items = .ok d ∧ BInv d.sb ∧ (allSys d.sb).Perm (systemsOf items) ∧
      d.currentId = (systemsOf items).length := by
  obtain ⟨d, h1, h2, h3, h4⟩ := runFrom_ok items {} BInv.empty
  refine ⟨d, h1, h2, ?_, ?_⟩
  · simpa [allSys, systemsOf] using h3
  · simpa [systemsOf] using h4

theorem systemsOf_ids (items : List Item) :
    (systemsOf items).map (·.id) = List.range (systemsOf items).length := by
  unfold systemsOf
  rw [systemsFrom_ids, List.range_eq_range']

theorem planOk_of_binv {b : Builder} (hb : BInv b) (hs : ∀ s ∈ allSys b, SysOk s) : PlanOk b.plan := by
  constructor
  · intro st hst
    simp only [Builder.plan, List.mem_map] at hst
    obtain ⟨gs, hgs, rfl⟩ := hst
    unfold StagePar
    rw [List.pairwise_map]
    exact hb.par gs hgs
  · intro st hst G hG s hsG
    apply hs
    rw [← plan_flatten]
    exact List.mem_flatten.mpr ⟨G, List.mem_flatten.mpr ⟨st, hst, hG⟩, hsG⟩

/-! ### cells: a writer excludes readers -/

theorem pairwise_mem_rel {α} {R : α → α → Prop} (hsym : ∀ a b, R a b → R b a) :
    ∀ {l : List α}, l.Pairwise R → ∀ a ∈ l, ∀ b ∈ l, a ≠ b → R a b
  | [], _, a, ha, _, _, _ => by simp at ha
  | x :: l, h, a, ha, b, hb, hne => by
    rw [List.pairwise_cons] at h
    rcases List.mem_cons.mp ha with hax | hal
    · rcases List.mem_cons.mp hb with hbx | hbl
      · exact absurd (hax.trans hbx.symm) hne
      · rw [hax]; exact h.1 b hbl
    · rcases List.mem_cons.mp hb with hbx | hbl
      · rw [hbx]; exact hsym _ _ (h.1 a hal)
      · exact pairwise_mem_rel hsym h.2 a hal b hbl hne

theorem XInv.allHeld_compat {x : XState} (hx : XInv x) : (allHeld x.groups).Pairwise Compat := by
  unfold allHeld
  rw [List.flatMap_def, List.pairwise_flatten]
  constructor
  · intro l hl
    obtain ⟨g, hg, rfl⟩ := List.mem_map.mp hl
    exact hx.held_self g hg
  · rw [List.pairwise_map]
    exact hx.held_compat

/-- The `AtomicRefCell` of a resource is never in a state "written and read". -/
theorem XInv.cell_excl {x : XState} (hx : XInv x) (r : Nat) :
    (x.cells.get r).writer = true → (x.cells.get r).readers = 0 := by
  intro hw
  obtain ⟨c1, c2⟩ := hx.cells r
  rw [hw] at c2
  rw [c1, List.count_eq_zero]
  intro hm
  have hm2 : (r, true) ∈ allHeld x.groups := by
    rw [← List.count_pos_iff]; simp at c2; omega
  have := pairwise_mem_rel (fun a b h => Compat.symm h) hx.allHeld_compat _ hm2 _ hm (by simp)
  have := (this rfl).1
  cases this

/-! ### specs' declaration table -/

/-- Borrowed = declared. -/
def BorrowedEqDeclared (s : Sys) : Prop :=
  sharedOf s.borrows = s.reads ∧ exclOf s.borrows = s.writes

theorem declOk_of_eq {s : Sys} (h : BorrowedEqDeclared s) : DeclOk s := by
  intro b hb
  obtain ⟨h1, h2⟩ := h
  rw [← h1, ← h2]
  obtain ⟨r, ex⟩ := b
  cases ex with
  | true =>
    have : r ∈ exclOf s.borrows := by
      simp only [exclOf, List.mem_map, List.mem_filter]
      exact ⟨(r, true), ⟨hb, rfl⟩, rfl⟩
    exact ⟨fun _ => this, Or.inr this⟩
  | false =>
    have : r ∈ sharedOf s.borrows := by
      simp only [sharedOf, List.mem_map, List.mem_filter]
      exact ⟨(r, false), ⟨hb, rfl⟩, rfl⟩
    exact ⟨fun h => (by cases h), Or.inl this⟩

theorem sharedOf_append (a b : List Borrow) : sharedOf (a ++ b) = sharedOf a ++ sharedOf b := by
  simp [sharedOf]

theorem exclOf_append (a b : List Borrow) : exclOf (a ++ b) = exclOf a ++ exclOf b := by
  simp [exclOf]

/-- The table: what each `SystemData` member's `fetch` borrows is exactly what it declares. -/
theorem data_borrowed_eq_declared (d : Data) :
    sharedOf d.fetch = d.reads ∧ exclOf d.fetch = d.writes := by
  cases d <;> exact ⟨rfl, rfl⟩

/-- … and so for every tuple of them. -/
theorem tuple_borrowed_eq_declared (ds : List Data) (deps : List Nat) (t : RunningTime) :
    BorrowedEqDeclared (sysOfData ds deps t) := by
  unfold BorrowedEqDeclared sysOfData
  simp only
  induction ds with
  | nil => exact ⟨rfl, rfl⟩
  | cons d ds ih =>
    simp only [List.flatMap_cons, sharedOf_append, exclOf_append, ih.1, ih.2,
      (data_borrowed_eq_declared d).1, (data_borrowed_eq_declared d).2, and_self]

/-- Executable check of `SelfOk`. -/
def compatB (a b : Borrow) : Bool := a.1 != b.1 || (!a.2 && !b.2)

def selfOkB : List Borrow → Bool
  | [] => true
  | a :: l => l.all (compatB a) && selfOkB l

theorem compatB_sound {a b : Borrow} (h : compatB a b = true) : Compat a b := by
  intro e
  simp only [compatB, Bool.or_eq_true, Bool.and_eq_true, Bool.not_eq_true', bne_iff_ne, ne_eq] at h
  rcases h with h | h
  · exact absurd e h
  · exact h

theorem selfOkB_sound : ∀ {l : List Borrow}, selfOkB l = true → l.Pairwise Compat
  | [], _ => List.Pairwise.nil
  | a :: l, h => by
    simp only [selfOkB, Bool.and_eq_true, List.all_eq_true] at h
    exact List.Pairwise.cons (fun b hb => compatB_sound (h.1 b hb)) (selfOkB_sound h.2)

/-- The 27 mode triples of the harness. -/
def allModes : List (List Nat) :=
  [0, 1, 2].flatMap fun a => [0, 1, 2].flatMap fun b => [0, 1, 2].map fun c => [a, b, c]

/-- The fetch of each of the 108 harness data tuples is self-consistent (checked by evaluation). -/
theorem harness_selfOk_all :
    (allModes.all fun m => [false, true].all fun e => [false, true].all fun l =>
      selfOkB ((harnessData m e l).flatMap Data.fetch)) = true := by decide

theorem harness_sysOk {a b c : Nat} (ha : a < 3) (hb : b < 3) (hc : c < 3) (e l : Bool)
    (deps : List Nat) (t : RunningTime) : SysOk (sysOfData (harnessData [a, b, c] e l) deps t) := by
  refine ⟨?_, declOk_of_eq (tuple_borrowed_eq_declared _ _ _)⟩
  have hall := harness_selfOk_all
  rw [List.all_eq_true] at hall
  have hm : [a, b, c] ∈ allModes := by
    have : a = 0 ∨ a = 1 ∨ a = 2 := by omega
    have : b = 0 ∨ b = 1 ∨ b = 2 := by omega
    have : c = 0 ∨ c = 1 ∨ c = 2 := by omega
    simp only [allModes, List.mem_flatMap, List.mem_map, List.mem_cons, List.not_mem_nil, or_false]
    exact ⟨a, ‹_›, b, ‹_›, c, ‹_›, rfl⟩
  have h1 := hall _ hm
  rw [List.all_eq_true] at h1
  have h2 := h1 e (by cases e <;> simp)
  rw [List.all_eq_true] at h2
  exact selfOkB_sound (h2 l (by cases l <;> simp))

end SpecsModel.Dispatch
