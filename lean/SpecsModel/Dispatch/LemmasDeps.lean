/- Run-time order: whatever the interleaving, a system enters `run_now` only after every system
   placed before it (earlier stage, or earlier in its group) has returned. -/
import SpecsModel.Dispatch.LemmasProgress
set_option linter.unusedSimpArgs false
namespace SpecsModel.Dispatch

abbrev Layout := List (List (List Nat))

/-- In the log (newest first), every `enter b` is preceded by `exit a` for all `a` placed before `b`. -/
def LogDeps (L : Layout) (log : List Ev) : Prop :=
  ∀ l1 l2 b, log = l1 ++ Ev.enter b :: l2 → ∀ a, Before L a b → Ev.exit a ∈ l2

def gids (g : GRun) : List Nat := g.sys.map (·.id)

def planIds (P : List (List (List Sys))) : Layout := P.map (·.map (·.map (·.id)))

/-- The stage being executed, as ids: per group what has returned (`ran`) followed by what is
    running or still to run. -/
def curIds (rans : List (List Nat)) (gs : List GRun) : List (List Nat) :=
  List.zipWith (fun r g => r ++ gids g) rans gs

/-- Ghost bookkeeping tying the execution state to its position in the fixed layout `L`. -/
def RInv (L : Layout) (x : XState) : Prop :=
  ∃ (past : Layout) (rans : List (List Nat)),
    L = past ++ curIds rans x.groups :: planIds x.later ∧
    rans.length = x.groups.length ∧
    (∀ a ∈ past.flatten.flatten, Ev.exit a ∈ x.log) ∧
    (∀ r ∈ rans, ∀ a ∈ r, Ev.exit a ∈ x.log) ∧
    LogDeps L x.log

/-! ### uniqueness facts on nested duplicate-free lists -/

theorem nodup_stage_unique {A B : Layout} {X : List (List Nat)} {b : Nat}
    (hn : (A ++ X :: B).flatten.flatten.Nodup) (hb : b ∈ X.flatten) :
    (∀ st ∈ A, b ∉ st.flatten) ∧ (∀ st ∈ B, b ∉ st.flatten) := by
  simp only [List.flatten_append, List.flatten_cons] at hn
  rw [List.nodup_append] at hn
  obtain ⟨_, h2, h3⟩ := hn
  rw [List.nodup_append] at h2
  obtain ⟨_, _, h6⟩ := h2
  constructor
  · intro st hst hbs
    obtain ⟨G, hG, hbG⟩ := List.mem_flatten.mp hbs
    have : b ∈ A.flatten.flatten :=
      List.mem_flatten.mpr ⟨G, List.mem_flatten.mpr ⟨st, hst, hG⟩, hbG⟩
    exact h3 b this b (List.mem_append.mpr (Or.inl hb)) rfl
  · intro st hst hbs
    obtain ⟨G, hG, hbG⟩ := List.mem_flatten.mp hbs
    have : b ∈ B.flatten.flatten :=
      List.mem_flatten.mpr ⟨G, List.mem_flatten.mpr ⟨st, hst, hG⟩, hbG⟩
    exact h6 b hb b this rfl

theorem nodup_group_unique {Z1 Z2 : List (List Nat)} {G : List Nat} {b : Nat}
    (hn : (Z1 ++ G :: Z2).flatten.Nodup) (hb : b ∈ G) :
    ∀ G' ∈ Z1 ++ G :: Z2, b ∈ G' → G' = G := by
  simp only [List.flatten_append, List.flatten_cons] at hn
  rw [List.nodup_append] at hn
  obtain ⟨_, h2, h3⟩ := hn
  rw [List.nodup_append] at h2
  obtain ⟨_, _, h6⟩ := h2
  intro G' hG' hbG'
  simp only [List.mem_append, List.mem_cons] at hG'
  rcases hG' with h | h | h
  · exact absurd rfl (h3 b (List.mem_flatten.mpr ⟨G', h, hbG'⟩) b (List.mem_append.mpr (Or.inl hb)))
  · exact h
  · exact absurd rfl (h6 b hb b (List.mem_flatten.mpr ⟨G', h, hbG'⟩))

theorem prefix_unique {b : Nat} : ∀ {l1 l2 m1 m2 : List Nat},
    l1 ++ b :: l2 = m1 ++ b :: m2 → (m1 ++ b :: m2).Nodup → l1 = m1
  | [], _, [], _, _, _ => rfl
  | [], l2, c :: m1, m2, h, hn => by
    simp only [List.nil_append, List.cons_append, List.cons.injEq] at h
    obtain ⟨rfl, _⟩ := h
    simp only [List.cons_append, List.nodup_cons, List.mem_append, List.mem_cons, true_or, or_true,
      not_true_eq_false, false_and] at hn
  | c :: l1, l2, [], m2, h, hn => by
    simp only [List.nil_append, List.cons_append, List.cons.injEq] at h
    obtain ⟨rfl, h2⟩ := h
    rw [← h2] at hn
    simp only [List.nil_append, List.nodup_cons, List.mem_append, List.mem_cons, true_or, or_true,
      not_true_eq_false, false_and] at hn
  | c :: l1, l2, d :: m1, m2, h, hn => by
    simp only [List.cons_append, List.cons.injEq] at h
    obtain ⟨rfl, h2⟩ := h
    simp only [List.cons_append, List.nodup_cons] at hn
    rw [prefix_unique h2 hn.2]

/-! ### zipWith bookkeeping -/

theorem curIds_split {RA RB : List (List Nat)} {r : List Nat} {A B : List GRun} {g : GRun}
    (h : RA.length = A.length) :
    curIds (RA ++ r :: RB) (A ++ g :: B) = curIds RA A ++ (r ++ gids g) :: curIds RB B := by
  unfold curIds
  rw [List.zipWith_append h]
  rfl

theorem rans_split {rans : List (List Nat)} {A B : List GRun} {g : GRun}
    (h : rans.length = (A ++ g :: B).length) :
    ∃ RA r RB, rans = RA ++ r :: RB ∧ RA.length = A.length ∧ RB.length = B.length := by
  have hlt : A.length < rans.length := by rw [h]; simp
  refine ⟨rans.take A.length, rans[A.length], rans.drop (A.length + 1), ?_, ?_, ?_⟩
  · rw [List.getElem_cons_drop, List.take_append_drop]
  · simp; omega
  · simp at h ⊢; omega

theorem curIds_done : ∀ {rans : List (List Nat)} {gs : List GRun}, rans.length = gs.length →
    gs.all GRun.done = true → curIds rans gs = rans
  | [], [], _, _ => rfl
  | [], _ :: _, h, _ => by simp at h
  | _ :: _, [], h, _ => by simp at h
  | r :: rans, g :: gs, h, hd => by
    simp only [List.all_cons, Bool.and_eq_true] at hd
    have hg : gids g = [] := by
      have := hd.1
      simp only [GRun.done, Bool.and_eq_true, Option.isNone_iff_eq_none, List.isEmpty_iff] at this
      simp [gids, GRun.sys, this.1, this.2]
    have ih := curIds_done (rans := rans) (gs := gs) (by simpa using h) hd.2
    unfold curIds at ih ⊢
    simp [hg, ih]

theorem curIds_fresh (st : List (List Sys)) :
    curIds (List.replicate st.length []) (st.map (fun g => ({ todo := g } : GRun))) =
      st.map (·.map (·.id)) := by
  induction st with
  | nil => rfl
  | cons G st ih =>
    unfold curIds at ih ⊢
    simp only [List.length_cons, List.replicate_succ, List.map_cons, List.zipWith_cons_cons, ih]
    simp [gids, GRun.sys]

/-! ### preservation -/

theorem LogDeps.cons_exit {L : Layout} {log : List Ev} (h : LogDeps L log) (i : Nat) :
    LogDeps L (Ev.exit i :: log) := by
  intro l1 l2 b e a hab
  cases l1 with
  | nil => simp at e
  | cons c l1 =>
    simp only [List.cons_append, List.cons.injEq] at e
    exact h l1 l2 b e.2 a hab

theorem LogDeps.cons_enter {L : Layout} {log : List Ev} (h : LogDeps L log) (i : Nat)
    (hi : ∀ a, Before L a i → Ev.exit a ∈ log) : LogDeps L (Ev.enter i :: log) := by
  intro l1 l2 b e a hab
  cases l1 with
  | nil =>
    simp only [List.nil_append, List.cons.injEq, Ev.enter.injEq] at e
    obtain ⟨rfl, rfl⟩ := e
    exact hi a hab
  | cons c l1 =>
    simp only [List.cons_append, List.cons.injEq] at e
    exact h l1 l2 b e.2 a hab

/-- The key step: when the head `s` of group `g`'s todo list starts, everything placed before it has
    returned. -/
theorem before_exited {L past : Layout} {later : Layout} {RA RB : List (List Nat)} {r : List Nat}
    {A B : List GRun} {gr : GRun} {log : List Ev} {s : Sys} {rest : List Sys}
    (hn : L.flatten.flatten.Nodup)
    (hL : L = past ++ (curIds RA A ++ (r ++ gids gr) :: curIds RB B) :: later)
    (hs : gids gr = s.id :: rest.map (·.id))
    (hpast : ∀ a ∈ past.flatten.flatten, Ev.exit a ∈ log)
    (hr : ∀ a ∈ r, Ev.exit a ∈ log) :
    ∀ a, Before L a s.id → Ev.exit a ∈ log := by
  intro a hab
  obtain ⟨k, st', hk, hcase⟩ := hab
  obtain ⟨X, hX⟩ : ∃ X, X = curIds RA A ++ (r ++ gids gr) :: curIds RB B := ⟨_, rfl⟩
  rw [← hX] at hL
  have hbX : s.id ∈ X.flatten := by
    simp only [hX, List.flatten_append, List.flatten_cons, List.mem_append, hs, List.mem_cons, true_or, or_true]
  have hn' := hn
  rw [hL] at hn'
  obtain ⟨u1, u2⟩ := nodup_stage_unique hn' hbX
  -- the stage of `s` is the current one
  have hst : s.id ∈ st'.flatten := by
    rcases hcase with ⟨h, _⟩ | ⟨G, hG, l1, l2, e, _⟩
    · exact h
    · exact List.mem_flatten.mpr ⟨G, hG, by rw [e]; simp⟩
  have hkk : k = past.length ∧ st' = X := by
    rw [hL] at hk
    simp only [List.getElem?_append, List.getElem?_cons] at hk
    split at hk
    · exact absurd hst (u1 st' (List.mem_of_getElem? hk))
    · split at hk
      · rename_i h1 h2
        cases hk
        exact ⟨by omega, rfl⟩
      · exact absurd hst (u2 st' (List.mem_of_getElem? hk))
  obtain ⟨rfl, rfl⟩ := hkk
  rcases hcase with ⟨_, j, sj, hj, hsj, haj⟩ | ⟨G, hG, l1, l2, e, hal⟩
  · -- earlier stage: it is one of `past`
    apply hpast
    rw [hL, List.getElem?_append_left hj] at hsj
    obtain ⟨G, hG, haG⟩ := List.mem_flatten.mp haj
    exact List.mem_flatten.mpr ⟨G, List.mem_flatten.mpr ⟨sj, List.mem_of_getElem? hsj, hG⟩, haG⟩
  · -- same group: it is one of those that returned
    apply hr
    have hnX : st'.flatten.Nodup := by
      simp only [List.flatten_append, List.flatten_cons] at hn'
      exact (List.nodup_append.mp (List.nodup_append.mp hn').2.1).1
    have hbG : s.id ∈ r ++ gids gr := by rw [hs]; simp
    rw [hX] at hnX hG
    have hGeq := nodup_group_unique hnX hbG G hG (by rw [e]; simp)
    have hnG : (r ++ gids gr).Nodup := by
      simp only [List.flatten_append, List.flatten_cons] at hnX
      exact (List.nodup_append.mp (List.nodup_append.mp hnX).2.1).1
    rw [hs] at hGeq hnG
    rw [e] at hGeq
    rw [← prefix_unique hGeq hnG]
    exact hal

theorem move_rinv {L : Layout} (hn : L.flatten.flatten.Nodup) {x x' : XState} (hx : RInv L x)
    {g k : Nat} (h : x.move g k = .ok x') : RInv L x' := by
  unfold XState.move at h
  cases hg : x.groups[g]? with
  | none => rw [hg] at h; cases h; exact hx
  | some gr =>
    rw [hg] at h
    obtain ⟨A, B, e, hA⟩ := getElem?_split hg
    have hset : ∀ y, x.groups.set g y = A ++ y :: B := by
      intro y; rw [e, ← hA]; exact set_append_cons_length ..
    simp only [hset] at h
    obtain ⟨past, rans, hL, hlen, hpast, hrans, hlog⟩ := hx
    rw [e] at hL hlen
    obtain ⟨RA, r, RB, rfl, hRA, hRB⟩ := rans_split hlen
    rw [curIds_split hRA] at hL
    have hlen' : ∀ y : GRun, (RA ++ r :: RB).length = (A ++ y :: B).length := by
      intro y; simp [hRA, hRB]
    -- a replacement of the group that keeps its id list and the log's exits
    have same : ∀ (gr' : GRun) (m : DMap Cell), gids gr' = gids gr →
        RInv L { x with cells := m, groups := A ++ gr' :: B } := by
      intro gr' m hid
      refine ⟨past, RA ++ r :: RB, ?_, hlen' gr', hpast, hrans, hlog⟩
      simp only
      rw [curIds_split hRA, hid]; exact hL
    cases hc : gr.cur with
    | none =>
      rw [hc] at h; simp only at h
      cases ht : gr.todo with
      | nil => rw [ht] at h; cases h; exact ⟨past, RA ++ r :: RB, by rw [e, curIds_split hRA]; exact hL,
          by rw [e]; exact hlen, hpast, hrans, hlog⟩
      | cons s rest =>
        rw [ht] at h; cases h
        have hs : gids gr = s.id :: rest.map (·.id) := by simp [gids, GRun.sys, hc, ht]
        refine ⟨past, RA ++ r :: RB, ?_, hlen' _, ?_, ?_, ?_⟩
        · simp only
          rw [curIds_split hRA]
          have : gids { todo := rest, cur := some s, pending := s.borrows, held := [] } = gids gr := by
            simp [gids, GRun.sys, hc, ht]
          rw [this]; exact hL
        · intro a ha; exact List.mem_cons_of_mem _ (hpast a ha)
        · intro r' hr' a ha; exact List.mem_cons_of_mem _ (hrans r' hr' a ha)
        · apply hlog.cons_enter
          exact before_exited hn hL hs hpast (hrans r (by simp))
    | some s =>
      rw [hc] at h; simp only at h
      cases hp : gr.pending with
      | cons b p =>
        rw [hp] at h; simp only at h
        cases hb : borrowCell x.cells b with
        | ok m =>
          rw [hb] at h; cases h
          exact same _ m (by simp [gids, GRun.sys, hc])
        | panic w => rw [hb] at h; cases h
        | ub w => rw [hb] at h; cases h
      | nil =>
        rw [hp] at h; simp only at h
        cases hh : gr.held[k % gr.held.length]? with
        | some b =>
          rw [hh] at h; cases h
          exact same _ _ (by simp [gids, GRun.sys, hc])
        | none =>
          rw [hh] at h; cases h
          -- `s` returns: it moves from the running part to the `ran` part of its group
          refine ⟨past, RA ++ (r ++ [s.id]) :: RB, ?_, by simp [hRA, hRB], ?_, ?_, hlog.cons_exit _⟩
          · simp only
            rw [curIds_split hRA]
            have : ∀ (p hl : List Borrow), (r ++ [s.id]) ++
                gids { todo := gr.todo, cur := none, pending := p, held := hl } = r ++ gids gr := by
              intro p hl; simp [gids, GRun.sys, hc]
            rw [this]; exact hL
          · intro a ha; exact List.mem_cons_of_mem _ (hpast a ha)
          · intro r' hr' a ha
            simp only [List.mem_append, List.mem_cons] at hr'
            rcases hr' with h1 | rfl | h1
            · exact List.mem_cons_of_mem _ (hrans r' (by simp [h1]) a ha)
            · rcases List.mem_append.mp ha with h2 | h2
              · exact List.mem_cons_of_mem _ (hrans r (by simp) a h2)
              · simp at h2; subst h2; exact List.mem_cons_self ..
            · exact List.mem_cons_of_mem _ (hrans r' (by simp [h1]) a ha)

theorem settle_rinv {L : Layout} {x : XState} (hx : RInv L x) : RInv L x.settle := by
  unfold XState.settle
  split
  · rename_i hall
    split
    · exact hx
    · rename_i st rest hl
      obtain ⟨past, rans, hL, hlen, hpast, hrans, hlog⟩ := hx
      rw [curIds_done hlen hall, hl] at hL
      refine ⟨past ++ [rans], List.replicate st.length [], ?_, by simp, ?_, ?_, hlog⟩
      · simp only
        rw [curIds_fresh, hL]
        simp [planIds]
      · intro a ha
        simp only [List.flatten_append, List.flatten_cons, List.flatten_nil, List.append_nil,
          List.mem_append] at ha
        rcases ha with h | h
        · exact hpast a h
        · obtain ⟨r, hr, har⟩ := List.mem_flatten.mp h
          exact hrans r hr a har
      · intro r hr a ha
        rw [List.eq_of_mem_replicate hr] at ha
        simp at ha
  · exact hx

theorem run_rinv {L : Layout} (hn : L.flatten.flatten.Nodup) :
    ∀ (es : List (Nat × Nat)) {x x' : XState}, RInv L x → x.run es = .ok x' → RInv L x'
  | [], x, x', hx, h => by simp [XState.run] at h; subst h; exact hx
  | e :: es, x, x', hx, h => by
    simp only [XState.run, XState.step] at h
    cases hm : x.move e.1 e.2 with
    | ok x1 =>
      rw [hm] at h
      exact run_rinv hn es (settle_rinv (move_rinv hn hx hm)) h
    | panic w => rw [hm] at h; cases h
    | ub w => rw [hm] at h; cases h

/-- The state before the first stage is loaded sits in front of the layout padded with one empty stage. -/
theorem init_rinv (plan : List (List (List Sys))) : RInv ([] :: planIds plan) (XState.init plan) := by
  apply settle_rinv
  refine ⟨[], [], rfl, rfl, by simp, by simp, ?_⟩
  intro l1 l2 b e
  simp at e

/-- Padding the layout with an empty first stage keeps `Before`. -/
theorem Before.pad {L : Layout} {a b : Nat} (h : Before L a b) : Before ([] :: L) a b := by
  obtain ⟨k, st, hk, hc⟩ := h
  refine ⟨k + 1, st, by simpa using hk, ?_⟩
  rcases hc with ⟨hb, j, sj, hj, hsj, ha⟩ | h
  · exact Or.inl ⟨hb, j + 1, sj, by omega, by simpa using hsj, ha⟩
  · exact Or.inr h

theorem planIds_plan (b : Builder) : planIds b.plan = b.layout := by
  simp [planIds, Builder.plan, Builder.layout, Group.ids, Function.comp_def]

end SpecsModel.Dispatch
