/-
  Dispatch model (property C11).  Import-free of Mathlib.

  (i)   shred 0.16.1 `dispatch/stage.rs` — `StagesBuilder::{insert, insertion_target,
        find_conflict, remove_ids, improves_balance, add_barrier}`, `Conflict`, group capacity —
        and the id bookkeeping of `dispatch/builder.rs` (`DispatcherBuilder::{add, add_barrier}`),
        as executable functions.  `ArrayVec::push` beyond capacity, slice indexing, `unwrap`,
        `unreachable!` and `u8`/`i8` overflow (debug profile) are `Out.panic`; they are proved
        unreachable (`insert_shape` in Dispatch/LemmasInsert.lean, `runFrom_ok` in Dispatch/LemmasBuild.lean),
        not defined away.
  (ii)  execution of the built stages (`Stage::execute`, `RunNow::run_now`, `World::fetch{,_mut}`
        over `AtomicRefCell`): stages in order; the groups of a stage concurrently, in ANY
        interleaving of atomic steps (start a system / take ONE borrow / release ONE guard /
        finish a system); the systems of a group sequentially.
  (iii) specs' declaration table for `ReadStorage<T>`, `WriteStorage<T>`, `Entities`,
        `Read<LazyUpdate>` (src/storage/data.rs, src/world/entity.rs, shred `Read`): what each
        declares in `reads()`/`writes()` and what its `fetch` borrows.

  Representation notes (no behaviour hidden):
  * `StagesBuilder` keeps five parallel vectors `ids / reads / running_time / stages / writes`
    of identical shape that are only ever pushed together (`add_stage`, `add_group`, `insert`);
    the model keeps one vector of records `Group` (`systems` is `stages[s].groups[g]`, its ids
    are `ids[s][g]`).
  * `ResourceId`s are natural numbers; `reads.sort()` sorts them by `≤` (the real order is by
    `TypeId`; only membership is ever observed, through `check_intersection`).
-/
import SpecsModel.Data.Out
import SpecsModel.Data.DMap
namespace SpecsModel.Dispatch

/-! ## (i) the stage builder -/

/-- shred `RunningTime` (`system.rs`), cast with `as u8`. -/
inductive RunningTime where
  | veryShort | short | average | long | veryLong
  deriving Repr, DecidableEq, Inhabited

def RunningTime.toNat : RunningTime → Nat
  | .veryShort => 1 | .short => 2 | .average => 3 | .long => 4 | .veryLong => 5

/-- One borrow taken by a `fetch`: resource and `true` = exclusive (`fetch_mut`). -/
abbrev Borrow := Nat × Bool

/-- A system as the dispatcher sees it: its `SystemId`, the `reads()`/`writes()` of its
    `SystemData` (declared), its dependencies (already resolved from names to ids), its
    `running_time()`, and — for the execution semantics — the borrows its
    `SystemData::fetch` takes from the world, in order. -/
structure Sys where
  id : Nat
  reads : List Nat
  writes : List Nat
  deps : List Nat
  time : RunningTime
  borrows : List Borrow
  deriving Repr, DecidableEq, Inhabited

/-- `util.rs: check_intersection`. -/
def inter (i j : List Nat) : Bool := i.any (fun a => j.any (fun b => b == a))

/-- `Vec::dedup`: removes consecutive duplicates. -/
def dedupAdj : List Nat → List Nat
  | [] => []
  | [a] => [a]
  | a :: b :: l => if a = b then dedupAdj (b :: l) else a :: dedupAdj (b :: l)

/-- Insertion into a sorted list. -/
def insertSorted (a : Nat) : List Nat → List Nat
  | [] => [a]
  | b :: l => if a ≤ b then a :: b :: l else b :: insertSorted a l

/-- `Vec::sort` on resource ids (any stable sort gives this list; structural so that the kernel
    can evaluate it). -/
def sortNat : List Nat → List Nat
  | [] => []
  | a :: l => insertSorted a (sortNat l)

/-- `reads.sort(); reads.dedup();` -/
def sortDedup (l : List Nat) : List Nat := dedupAdj (sortNat l)

def maxSystemsPerGroup : Nat := 5

/-- One group of one stage of the `StagesBuilder` (see representation note). -/
structure Group where
  systems : List Sys := []
  reads : List Nat := []
  writes : List Nat := []
  time : Nat := 0
  deriving Repr, DecidableEq, Inhabited

def Group.ids (g : Group) : List Nat := g.systems.map (·.id)

/-- `add_group`: an empty group. -/
def Group.empty : Group := {}

inductive Conflict where
  | none
  | single (g : Nat)
  | multiple
  deriving Repr, DecidableEq

/-- `Conflict::add`. -/
def Conflict.add : Conflict → Nat → Conflict
  | .none, g => .single g
  | .single _, _ => .multiple
  | .multiple, _ => .multiple

structure Builder where
  barrier : Nat := 0
  stages : List (List Group) := []
  deriving Repr, DecidableEq, Inhabited

/-- The closure passed to `.filter` in `find_conflict`, for one group:
    (the group passes the filter, `dep_conflict` is set). -/
def groupMark (nr nw nd : List Nat) (g : Group) : Bool × Bool :=
  let inters := inter nw (g.writes ++ g.reads) || inter nr g.writes
  if inters then (true, false)
  else if inter nd g.ids then (true, true)
  else (false, false)

/-- `(0..num_groups).filter(..).fold(Conflict::None, Conflict::add)` with the side effect on
    `dep_conflict`, over the marks of the groups in order. -/
def foldMarks : List (Bool × Bool) → Nat → Conflict → Bool → Conflict × Bool
  | [], _, c, d => (c, d)
  | (p, dc) :: ms, i, c, d => foldMarks ms (i + 1) (if p then Conflict.add c i else c) (d || dc)

/-- `StagesBuilder::find_conflict` for one stage. -/
def findConflict (nr nw nd : List Nat) (st : List Group) : Conflict :=
  let r := foldMarks (st.map (groupMark nr nw nd)) 0 .none false
  if (r.2 && decide (nd.length > 1)) || (!r.2 && !nd.isEmpty) then .multiple else r.1

/-- `StagesBuilder::remove_ids`: every id of the stage removes its first occurrence. -/
def removeIds (st : List Group) (nd : List Nat) : List Nat :=
  (st.flatMap Group.ids).foldl (fun d id => d.erase id) nd

/-- `x as i8` for a `u8` value. -/
def asI8 (n : Nat) : Int :=
  if n % 256 < 128 then ((n % 256 : Nat) : Int) else ((n % 256 : Nat) : Int) - 256

/-- `i8` subtraction with the debug-profile overflow check. -/
def i8sub (a b : Int) : Out Int :=
  if -128 ≤ a - b ∧ a - b ≤ 127 then .ok (a - b) else .panic "attempt to subtract with overflow"

/-- `i8::abs` with the debug-profile overflow check. -/
def i8abs (a : Int) : Out Int :=
  if a = -128 then .panic "attempt to negate with overflow" else .ok (if a < 0 then -a else a)

/-- `iter().max()` over `u8`s. -/
def maxTime : List Group → Option Nat
  | [] => none
  | g :: l => match maxTime l with
    | none => some g.time
    | some m => some (if g.time ≤ m then m else g.time)

/-- `StagesBuilder::improves_balance`. -/
def improvesBalance (st : List Group) (group : Nat) (newTime : Nat) : Out Bool :=
  match maxTime st with
  | none => .panic "called `Option::unwrap()` on a `None` value"
  | some mx =>
    match st[group]? with
    | none => .panic "index out of bounds"
    | some grp =>
      let old := grp.time
      if old + newTime ≥ 256 then .panic "attempt to add with overflow"
      else
        match i8sub (asI8 mx) (asI8 (old + newTime)), i8sub (asI8 mx) (asI8 old) with
        | .ok a, .ok b =>
          match i8abs a, i8abs b with
          | .ok x, .ok y => .ok (decide (x < y))
          | .panic w, _ => .panic w
          | _, .panic w => .panic w
          | _, _ => .panic "unreachable"
        | .panic w, _ => .panic w
        | _, .panic w => .panic w
        | _, _ => .panic "unreachable"

inductive Target where
  | stage (k : Nat)
  | group (k g : Nat)
  | newStage
  deriving Repr, DecidableEq

/-- The lazy `.map(find_conflict; remove_ids).find(..)` chain of `insertion_target` over the
    stages `k, k+1, …` (the list holds the stages from `k` on). -/
def search (nr nw : List Nat) (nt : Nat) : List (List Group) → Nat → List Nat → Out Target
  | [], _, _ => .ok .newStage
  | st :: rest, k, nd =>
    let c := findConflict nr nw nd st
    let nd' := removeIds st nd
    match c with
    | .none => .ok (.stage k)
    | .single g =>
      match st[g]? with
      | none => .panic "index out of bounds"
      | some grp =>
        if grp.systems.length < maxSystemsPerGroup - 1 then
          match improvesBalance st g nt with
          | .ok true => .ok (.group k g)
          | .ok false => search nr nw nt rest (k + 1) nd'
          | .panic w => .panic w
          | .ub w => .ub w
        else search nr nw nt rest (k + 1) nd'
    | .multiple => search nr nw nt rest (k + 1) nd'

/-- `StagesBuilder::insertion_target`: stages `barrier .. stages.len()`. -/
def insertionTarget (b : Builder) (nr nw nd : List Nat) (nt : Nat) : Out Target :=
  search nr nw nt (b.stages.drop b.barrier) b.barrier nd

/-- The five pushes at the end of `insert` (ids: `ArrayVec::push` panics at capacity;
    `running_time += new_time as u8`). -/
def Group.push (g : Group) (s : Sys) (reads : List Nat) : Out Group :=
  if g.systems.length ≥ maxSystemsPerGroup then .panic "ArrayVec::push: capacity exceeded"
  else if g.time + s.time.toNat ≥ 256 then .panic "attempt to add with overflow"
  else .ok { systems := g.systems ++ [s], reads := g.reads ++ reads,
             writes := g.writes ++ s.writes, time := g.time + s.time.toNat }

/-- `StagesBuilder::insert` (dependencies, id, reads and writes are fields of `s`). -/
def Builder.insert (b : Builder) (s : Sys) : Out Builder :=
  let reads := sortDedup s.reads
  match insertionTarget b reads s.writes s.deps s.time.toNat with
  | .panic w => .panic w
  | .ub w => .ub w
  | .ok target =>
    -- (stage, group) and the structure after `add_stage` / `add_group`
    let r : Out (Nat × Nat × List (List Group)) :=
      match target with
      | .stage k =>
        match b.stages[k]? with
        | none => .panic "index out of bounds"
        | some st => .ok (k, st.length, b.stages.set k (st ++ [Group.empty]))
      | .group k g => .ok (k, g, b.stages)
      | .newStage => .ok (b.stages.length, 0, b.stages ++ [[Group.empty]])
    match r with
    | .panic w => .panic w
    | .ub w => .ub w
    | .ok (stage, group, stages) =>
      match stages[stage]? with
      | none => .panic "index out of bounds"
      | some st =>
        match st[group]? with
        | none => .panic "index out of bounds"
        | some grp =>
          match grp.push s reads with
          | .panic w => .panic w
          | .ub w => .ub w
          | .ok grp' => .ok { b with stages := stages.set stage (st.set group grp') }

/-- `StagesBuilder::add_barrier`. -/
def Builder.addBarrier (b : Builder) : Builder := { b with barrier := b.stages.length }

/-- What is handed to a `DispatcherBuilder`: `add(system, name, deps)` or `add_barrier()`.
    The `id` field of the system is ignored: `add` assigns `next_id()`. -/
inductive Item where
  | sys (s : Sys)
  | barrier
  deriving Repr, DecidableEq, Inhabited

/-- `DispatcherBuilder` (the name map is resolved by the caller: dependencies are ids). -/
structure DBuilder where
  currentId : Nat := 0
  sb : Builder := {}
  deriving Repr, DecidableEq, Inhabited

def DBuilder.add (d : DBuilder) (s : Sys) : Out DBuilder :=
  match d.sb.insert { s with id := d.currentId } with
  | .ok sb => .ok { currentId := d.currentId + 1, sb := sb }
  | .panic w => .panic w
  | .ub w => .ub w

def DBuilder.step (d : DBuilder) : Item → Out DBuilder
  | .sys s => d.add s
  | .barrier => .ok { d with sb := d.sb.addBarrier }

def DBuilder.runFrom (d : DBuilder) : List Item → Out DBuilder
  | [] => .ok d
  | it :: rest =>
    match d.step it with
    | .ok d' => d'.runFrom rest
    | .panic w => .panic w
    | .ub w => .ub w

/-- Feed a whole item list to a fresh `DispatcherBuilder`. -/
def buildAll (items : List Item) : Out DBuilder := DBuilder.runFrom {} items

/-- The systems of an item list with the ids `add` assigns, starting from `n`. -/
def systemsFrom : Nat → List Item → List Sys
  | _, [] => []
  | n, .sys s :: rest => { s with id := n } :: systemsFrom (n + 1) rest
  | n, .barrier :: rest => systemsFrom n rest

def systemsOf (items : List Item) : List Sys := systemsFrom 0 items

/-- Stages of groups of systems (what `build()` hands to the `Dispatcher`). -/
def Builder.plan (b : Builder) : List (List (List Sys)) := b.stages.map (·.map (·.systems))

/-- Stages of groups of system ids (what `DispatcherBuilder`'s `Debug` prints). -/
def Builder.layout (b : Builder) : List (List (List Nat)) := b.stages.map (·.map Group.ids)

/-! ## (ii) execution -/

/-- `AtomicRefCell` borrow state of one resource. -/
structure Cell where
  readers : Nat := 0
  writer : Bool := false
  deriving Repr, DecidableEq, Inhabited

/-- `World::fetch` (`AtomicRefCell::borrow`) / `World::fetch_mut` (`borrow_mut`) on resource `b.1`. -/
def borrowCell (m : DMap Cell) (b : Borrow) : Out (DMap Cell) :=
  let c := m.get b.1
  if b.2 then
    if c.writer then .panic "already mutably borrowed"
    else if c.readers ≠ 0 then .panic "already immutably borrowed"
    else .ok (m.set b.1 { c with writer := true })
  else
    if c.writer then .panic "already mutably borrowed"
    else .ok (m.set b.1 { c with readers := c.readers + 1 })

/-- Drop of a `Fetch` / `FetchMut` guard. -/
def releaseCell (m : DMap Cell) (b : Borrow) : DMap Cell :=
  let c := m.get b.1
  if b.2 then m.set b.1 { c with writer := false }
  else m.set b.1 { c with readers := c.readers - 1 }

/-- Run-time state of one group of the stage being executed (one rayon task). -/
structure GRun where
  todo : List Sys := []          -- systems not yet started
  cur : Option Sys := none       -- the system inside `run_now`
  pending : List Borrow := []    -- borrows its `fetch` has still to take
  held : List Borrow := []       -- guards it holds
  deriving Repr, DecidableEq, Inhabited

def GRun.done (g : GRun) : Bool := g.todo.isEmpty && g.cur.isNone

inductive Ev where
  | enter (id : Nat)
  | exit (id : Nat)
  deriving Repr, DecidableEq

structure XState where
  cells : DMap Cell := DMap.empty {}
  groups : List GRun := []                   -- the stage being executed
  later : List (List (List Sys)) := []       -- stages not yet started
  log : List Ev := []                        -- newest first
  deriving Repr

/-- End of `Stage::execute` (the `par_iter_mut().for_each` has joined): start the next stage. -/
def XState.settle (x : XState) : XState :=
  if x.groups.all GRun.done then
    match x.later with
    | [] => x
    | st :: rest => { x with groups := st.map (fun g => { todo := g }), later := rest }
  else x

def XState.finished (x : XState) : Bool := x.groups.all GRun.done && x.later.isEmpty

/-- One atomic step of group `g` (what it is depends on the group's state; `k` picks the guard
    to drop when the system is dropping its data).  Steps of groups that have nothing to do
    are stutters. -/
def XState.move (x : XState) (g k : Nat) : Out XState :=
  match x.groups[g]? with
  | none => .ok x
  | some gr =>
    match gr.cur with
    | none =>
      match gr.todo with
      | [] => .ok x
      | s :: rest =>   -- `system.run_now(world)` begins
        .ok { x with groups := x.groups.set g { todo := rest, cur := some s, pending := s.borrows, held := [] },
                     log := .enter s.id :: x.log }
    | some s =>
      match gr.pending with
      | b :: p =>      -- next `world.fetch()` / `world.fetch_mut()` of `SystemData::fetch`
        match borrowCell x.cells b with
        | .ok m => .ok { x with cells := m, groups := x.groups.set g { gr with pending := p, held := gr.held ++ [b] } }
        | .panic w => .panic w
        | .ub w => .ub w
      | [] =>
        match gr.held[k % gr.held.length]? with
        | some b =>    -- a guard is dropped (during or at the end of `run`)
          .ok { x with cells := releaseCell x.cells b,
                       groups := x.groups.set g { gr with held := gr.held.eraseIdx (k % gr.held.length) } }
        | none =>      -- nothing held any more: `run_now` returns
          .ok { x with groups := x.groups.set g { gr with cur := none }, log := .exit s.id :: x.log }

def XState.step (x : XState) (e : Nat × Nat) : Out XState :=
  match x.move e.1 e.2 with
  | .ok x' => .ok x'.settle
  | .panic w => .panic w
  | .ub w => .ub w

def XState.run (x : XState) : List (Nat × Nat) → Out XState
  | [] => .ok x
  | e :: es =>
    match x.step e with
    | .ok x' => x'.run es
    | .panic w => .panic w
    | .ub w => .ub w

/-- `dispatcher.dispatch(&world)` on a world in which nothing is borrowed. -/
def XState.init (plan : List (List (List Sys))) : XState := ({ later := plan } : XState).settle

/-- Execute a schedule (a list of `(group, k)` choices) on a plan. -/
def exec (plan : List (List (List Sys))) (sched : List (Nat × Nat)) : Out XState :=
  (XState.init plan).run sched

def entered (log : List Ev) : List Nat := log.filterMap (fun | .enter i => some i | _ => none)
def exited (log : List Ev) : List Nat := log.filterMap (fun | .exit i => some i | _ => none)

/-! ## (iii) specs' declaration table -/

def resEntities : Nat := 0
def resLazy : Nat := 1
/-- `ResourceId::new::<MaskedStorage<T>>()` for the `t`-th component type. -/
def resStorage (t : Nat) : Nat := 2 + t

/-- The `SystemData` members of the property. -/
inductive Data where
  | readStorage (t : Nat)
  | writeStorage (t : Nat)
  | entities
  | readLazy
  deriving Repr, DecidableEq

/-- `SystemData::reads()`. -/
def Data.reads : Data → List Nat
  | .readStorage t => [resEntities, resStorage t]
  | .writeStorage _ => [resEntities]
  | .entities => [resEntities]
  | .readLazy => [resLazy]

/-- `SystemData::writes()`. -/
def Data.writes : Data → List Nat
  | .readStorage _ => []
  | .writeStorage t => [resStorage t]
  | .entities => []
  | .readLazy => []

/-- What `SystemData::fetch` borrows, in order: `Storage::new(res.fetch(), res.fetch[_mut]())`,
    `world.fetch::<EntitiesRes>()`, `world.fetch::<LazyUpdate>()`. -/
def Data.fetch : Data → List Borrow
  | .readStorage t => [(resEntities, false), (resStorage t, false)]
  | .writeStorage t => [(resEntities, false), (resStorage t, true)]
  | .entities => [(resEntities, false)]
  | .readLazy => [(resLazy, false)]

/-- Resources borrowed shared / exclusively by a fetch. -/
def sharedOf (bs : List Borrow) : List Nat := (bs.filter (fun b => !b.2)).map (·.1)
def exclOf (bs : List Borrow) : List Nat := (bs.filter (fun b => b.2)).map (·.1)

/-- A system whose `SystemData` is the tuple `ds` (shred's tuple impl concatenates
    `reads()`/`writes()` and fetches the members in order). -/
def sysOfData (ds : List Data) (deps : List Nat) (time : RunningTime) : Sys :=
  { id := 0, reads := ds.flatMap Data.reads, writes := ds.flatMap Data.writes, deps := deps,
    time := time, borrows := ds.flatMap Data.fetch }

/-- The data tuple of a harness system `(A-member, B-member, C-member, Entities?, Read<LazyUpdate>?)`:
    per component `t` the mode `0` (no member), `1` (`ReadStorage`), `2` (`WriteStorage`). -/
def harnessData (modes : List Nat) (ent lzy : Bool) : List Data :=
  (modes.zipIdx.flatMap (fun (m, t) =>
    if m = 1 then [Data.readStorage t] else if m = 2 then [Data.writeStorage t] else []))
  ++ (if ent then [Data.entities] else []) ++ (if lzy then [Data.readLazy] else [])

end SpecsModel.Dispatch
