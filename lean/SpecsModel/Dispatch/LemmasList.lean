/- Small list facts used by the dispatch lemmas (core only). -/
import SpecsModel.Dispatch.Model
namespace SpecsModel.Dispatch

theorem getElem?_append_cons_length {α} (P : List α) (x : α) (Q : List α) :
    (P ++ x :: Q)[P.length]? = some x := by
  simp

theorem set_append_cons_length {α} (P : List α) (x y : α) (Q : List α) :
    (P ++ x :: Q).set P.length y = P ++ y :: Q := by
  simp

/-- An element at index `i` splits the list around it. -/
theorem getElem?_split {α} {l : List α} {i : Nat} {x : α} (h : l[i]? = some x) :
    ∃ P Q, l = P ++ x :: Q ∧ P.length = i := by
  obtain ⟨hi, hx⟩ := List.getElem?_eq_some_iff.mp h
  refine ⟨l.take i, l.drop (i + 1), ?_, ?_⟩
  · rw [← hx, List.getElem_cons_drop, List.take_append_drop]
  · simp; omega

theorem flatten_map_map {α β} (f : α → List β) (sts : List (List α)) :
    (sts.map (·.map f)).flatten.flatten = sts.flatten.flatMap f := by
  induction sts with
  | nil => rfl
  | cons st rest ih =>
    simp only [List.map_cons, List.flatten_cons, List.flatten_append, List.flatMap_append, ih]
    simp only [List.flatMap_def]

theorem inter_iff {i j : List Nat} : inter i j = true ↔ ∃ a, a ∈ i ∧ a ∈ j := by
  simp [inter, List.any_eq_true]

theorem inter_false_iff {i j : List Nat} : inter i j = false ↔ ∀ a, a ∈ i → a ∉ j := by
  rw [← Bool.not_eq_true, inter_iff]
  constructor
  · intro h a ha hb; exact h ⟨a, ha, hb⟩
  · rintro h ⟨a, ha, hb⟩; exact h a ha hb

theorem mem_dedupAdj {a : Nat} : ∀ {l : List Nat}, a ∈ dedupAdj l ↔ a ∈ l
  | [] => by simp [dedupAdj]
  | [b] => by simp [dedupAdj]
  | b :: c :: l => by
    have ih := @mem_dedupAdj a (c :: l)
    unfold dedupAdj
    split
    · rename_i h; subst h; rw [ih]; simp
    · simp only [List.mem_cons] at ih ⊢; rw [ih]

theorem mem_insertSorted {a x : Nat} : ∀ {l : List Nat}, a ∈ insertSorted x l ↔ a = x ∨ a ∈ l
  | [] => by simp [insertSorted]
  | b :: l => by
    unfold insertSorted
    split
    · simp
    · simp only [List.mem_cons, mem_insertSorted (l := l)]
      constructor
      · rintro (h | h | h)
        · exact Or.inr (Or.inl h)
        · exact Or.inl h
        · exact Or.inr (Or.inr h)
      · rintro (h | h | h)
        · exact Or.inr (Or.inl h)
        · exact Or.inl h
        · exact Or.inr (Or.inr h)

theorem mem_sortNat {a : Nat} : ∀ {l : List Nat}, a ∈ sortNat l ↔ a ∈ l
  | [] => by simp [sortNat]
  | b :: l => by simp [sortNat, mem_insertSorted, mem_sortNat (l := l)]

theorem mem_sortDedup {a : Nat} {l : List Nat} : a ∈ sortDedup l ↔ a ∈ l := by
  unfold sortDedup; rw [mem_dedupAdj, mem_sortNat]

theorem RunningTime.toNat_le (t : RunningTime) : t.toNat ≤ 5 := by cases t <;> decide
theorem RunningTime.toNat_pos (t : RunningTime) : 1 ≤ t.toNat := by cases t <;> decide

end SpecsModel.Dispatch
