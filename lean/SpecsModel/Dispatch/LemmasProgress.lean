/- No deadlock, no infinite run: a measure that no step increases and that some enabled step of
   every unfinished state decreases. -/
import SpecsModel.Dispatch.LemmasTop
set_option linter.unusedSimpArgs false
namespace SpecsModel.Dispatch

/-- Atomic steps a system still needs: start, two per borrow (take, drop), return. -/
def sfuel (s : Sys) : Nat := 2 + 2 * s.borrows.length

def gfuel (g : GRun) : Nat :=
  (g.todo.map sfuel).sum +
    (match g.cur with
     | none => 0
     | some _ => 1 + 2 * g.pending.length + g.held.length)

/-- One more than the steps of its systems: the join at the end of the stage. -/
def stfuel (st : List (List Sys)) : Nat := 1 + (st.map (fun G => (G.map sfuel).sum)).sum

def fuel (x : XState) : Nat := (x.groups.map gfuel).sum + (x.later.map stfuel).sum

theorem held_nil_of_mod_none {held : List Borrow} {k : Nat}
    (h : held[k % held.length]? = none) : held = [] := by
  cases hl : held with
  | nil => rfl
  | cons a l =>
    rw [hl] at h
    have : k % (a :: l).length < (a :: l).length := Nat.mod_lt _ (by simp)
    rw [List.getElem?_eq_none_iff] at h
    omega

/-- A move never increases the measure; a move of a group that is not done decreases it. -/
theorem move_fuel {x x' : XState} {g k : Nat} (h : x.move g k = .ok x') :
    fuel x' ≤ fuel x ∧ (∀ gr, x.groups[g]? = some gr → gr.done = false → fuel x' < fuel x) := by
  unfold XState.move at h
  cases hg : x.groups[g]? with
  | none => rw [hg] at h; cases h; exact ⟨Nat.le_refl _, by intro gr h; cases h⟩
  | some gr =>
    rw [hg] at h
    obtain ⟨P, Q, e, hP⟩ := getElem?_split hg
    have hset : ∀ y, x.groups.set g y = P ++ y :: Q := by
      intro y; rw [e, ← hP]; exact set_append_cons_length ..
    simp only [hset] at h
    -- it is enough to compare the fuel of the group
    have key : ∀ (gr' : GRun) (m : DMap Cell) (lg : List Ev),
        gfuel gr' < gfuel gr →
        fuel { x with cells := m, groups := P ++ gr' :: Q, log := lg } < fuel x := by
      intro gr' m lg hlt
      simp only [fuel, e, List.map_append, List.map_cons, List.sum_append, List.sum_cons]
      omega
    suffices hs : (gr.done = true ∧ x' = x) ∨ fuel x' < fuel x by
      rcases hs with ⟨hd, rfl⟩ | hlt
      · refine ⟨Nat.le_refl _, ?_⟩
        intro gr2 h2 hnd; cases h2; rw [hd] at hnd; cases hnd
      · exact ⟨Nat.le_of_lt hlt, fun _ _ _ => hlt⟩
    cases hc : gr.cur with
    | none =>
      rw [hc] at h; simp only at h
      cases ht : gr.todo with
      | nil =>
        rw [ht] at h; cases h
        exact Or.inl ⟨by simp [GRun.done, hc, ht], rfl⟩
      | cons s rest =>
        rw [ht] at h; cases h
        right
        apply key
        simp [gfuel, hc, ht, sfuel]
        omega
    | some s =>
      rw [hc] at h; simp only at h
      right
      cases hp : gr.pending with
      | cons b p =>
        rw [hp] at h; simp only at h
        cases hb : borrowCell x.cells b with
        | ok m =>
          rw [hb] at h; cases h
          apply key
          simp [gfuel, hc, hp]
          omega
        | panic w => rw [hb] at h; cases h
        | ub w => rw [hb] at h; cases h
      | nil =>
        rw [hp] at h; simp only at h
        cases hh : gr.held[k % gr.held.length]? with
        | some b =>
          rw [hh] at h; cases h
          obtain ⟨A, B, eh, hA⟩ := getElem?_split hh
          have herase : gr.held.eraseIdx (k % gr.held.length) = A ++ B := by
            rw [← hA]; conv => lhs; rw [eh]
            exact eraseIdx_append_cons_length ..
          apply key
          simp only [gfuel, hc, hp, herase]
          rw [eh]
          simp
        | none =>
          rw [hh] at h; cases h
          have hempty := held_nil_of_mod_none hh
          apply key
          simp [gfuel, hc, hp, hempty]

theorem done_gfuel {g : GRun} (h : g.done = true) : gfuel g = 0 := by
  simp only [GRun.done, Bool.and_eq_true, Option.isNone_iff_eq_none, List.isEmpty_iff] at h
  simp [gfuel, h.1, h.2]

theorem all_done_fuel {gs : List GRun} (h : gs.all GRun.done = true) : (gs.map gfuel).sum = 0 := by
  induction gs with
  | nil => rfl
  | cons g gs ih =>
    simp only [List.all_cons, Bool.and_eq_true] at h
    simp [done_gfuel h.1, ih h.2]

theorem fresh_fuel (st : List (List Sys)) :
    ((st.map (fun g => ({ todo := g } : GRun))).map gfuel).sum + 1 = stfuel st := by
  simp only [stfuel, List.map_map]
  have : (gfuel ∘ fun g => ({ todo := g } : GRun)) = fun G => (G.map sfuel).sum := by
    funext G; simp [gfuel]
  rw [this]; omega

theorem settle_fuel (x : XState) :
    fuel x.settle ≤ fuel x ∧
    (x.groups.all GRun.done = true → x.later ≠ [] → fuel x.settle < fuel x) := by
  unfold XState.settle
  split
  · rename_i hall
    split
    · rename_i hl
      exact ⟨Nat.le_refl _, fun _ hne => absurd hl hne⟩
    · rename_i st rest hl
      have h0 := all_done_fuel hall
      have h1 := fresh_fuel st
      have : fuel { x with groups := st.map (fun g => ({ todo := g } : GRun)), later := rest } < fuel x := by
        simp only [fuel, hl, List.map_cons, List.sum_cons]
        omega
      exact ⟨Nat.le_of_lt this, fun _ _ => this⟩
  · rename_i hall
    exact ⟨Nat.le_refl _, fun h => absurd h hall⟩

theorem step_fuel_le {x : XState} (hx : XInv x) (e : Nat × Nat) :
    ∃ x', x.step e = .ok x' ∧ fuel x' ≤ fuel x := by
  obtain ⟨x1, h1, _⟩ := move_inv hx e.1 e.2
  refine ⟨x1.settle, by simp [XState.step, h1], ?_⟩
  exact Nat.le_trans (settle_fuel x1).1 (move_fuel h1).1

theorem step_progress {x : XState} (hx : XInv x) (hf : x.finished = false) :
    ∃ e x', x.step e = .ok x' ∧ fuel x' < fuel x := by
  by_cases hall : x.groups.all GRun.done = true
  · -- the stage has joined but was not replaced: the next stage is waiting
    have hl : x.later ≠ [] := by
      intro hl
      simp [XState.finished, hall, hl] at hf
    obtain ⟨x1, h1, _⟩ := move_inv hx 0 0
    have hx1 : x1 = x := by
      unfold XState.move at h1
      cases hg : x.groups[0]? with
      | none => rw [hg] at h1; cases h1; rfl
      | some gr =>
        rw [hg] at h1
        have hd := List.all_eq_true.mp hall gr (List.mem_of_getElem? hg)
        simp only [GRun.done, Bool.and_eq_true, Option.isNone_iff_eq_none, List.isEmpty_iff] at hd
        simp only [hd.1, hd.2] at h1
        cases h1; rfl
    subst hx1
    exact ⟨(0, 0), x1.settle, by simp [XState.step, h1], (settle_fuel x1).2 hall hl⟩
  · -- some group is not done: let it move
    have : ∃ gr ∈ x.groups, gr.done = false := by
      have : x.groups.all GRun.done = false := by simpa using hall
      rw [List.all_eq_false] at this
      obtain ⟨gr, hgr, hnd⟩ := this
      exact ⟨gr, hgr, by simpa using hnd⟩
    obtain ⟨gr, hgr, hnd⟩ := this
    obtain ⟨g, hg⟩ := List.getElem?_of_mem hgr
    obtain ⟨x1, h1, _⟩ := move_inv hx g 0
    have hlt := (move_fuel h1).2 gr hg hnd
    exact ⟨(g, 0), x1.settle, by simp [XState.step, h1], Nat.lt_of_le_of_lt (settle_fuel x1).1 hlt⟩

theorem sum_eq_zero {l : List Nat} (h : l.sum = 0) : ∀ a ∈ l, a = 0 := by
  induction l with
  | nil => simp
  | cons a l ih =>
    simp only [List.sum_cons] at h
    intro b hb
    rcases List.mem_cons.mp hb with rfl | hb
    · omega
    · exact ih (by omega) b hb

theorem fuel_zero_finished {x : XState} (h : fuel x = 0) : x.finished = true := by
  unfold fuel at h
  have h1 : (x.groups.map gfuel).sum = 0 := by omega
  have h2 : (x.later.map stfuel).sum = 0 := by omega
  have hl : x.later = [] := by
    cases hl : x.later with
    | nil => rfl
    | cons st rest =>
      rw [hl] at h2
      simp only [List.map_cons, List.sum_cons, stfuel] at h2
      omega
  have hg : x.groups.all GRun.done = true := by
    rw [List.all_eq_true]
    intro g hg
    have hz := sum_eq_zero h1 (gfuel g) (List.mem_map_of_mem hg)
    unfold gfuel at hz
    have ht : g.todo = [] := by
      cases ht : g.todo with
      | nil => rfl
      | cons s rest => rw [ht] at hz; simp [sfuel] at hz
    have hc : g.cur = none := by
      cases hc : g.cur with
      | none => rfl
      | some s => rw [hc] at hz; simp at hz
    simp [GRun.done, ht, hc]
  simp [XState.finished, hg, hl]

end SpecsModel.Dispatch
