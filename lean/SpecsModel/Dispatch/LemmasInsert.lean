/- `insertion_target` / `insert`: they never panic on a well-formed builder, and the three shapes
   of the result. -/
import SpecsModel.Dispatch.LemmasConflict
namespace SpecsModel.Dispatch

/-- Capacity/time bounds of every group: at most 4 systems (`len < MAX - 1` before a push), and the
    accumulated running time is at most 5 per system. -/
def GroupCap (g : Group) : Prop := g.systems.length ≤ 4 ∧ g.time ≤ 5 * g.systems.length

theorem GroupCap.time_le {g : Group} (h : GroupCap g) : g.time ≤ 20 := by
  unfold GroupCap at h; omega

def allIds (sts : List (List Group)) : List Nat := sts.flatten.flatMap Group.ids

/-- Meaning of a successful `search` over the stages `sts` (numbered from `k`). -/
def TargetSpec (nr nw : List Nat) (_nt : Nat) (sts : List (List Group)) (k : Nat) (nd : List Nat) :
    Target → Prop
  | .stage j => ∃ pre st post, sts = pre ++ st :: post ∧ j = k + pre.length ∧
      (∀ g ∈ st, NoRW nr nw g) ∧ (∀ d ∈ nd, d ∈ allIds pre)
  | .group j g => ∃ pre st post, sts = pre ++ st :: post ∧ j = k + pre.length ∧
      ∃ gp G gq, st = gp ++ G :: gq ∧ gp.length = g ∧
        (∀ x ∈ gp, NoRW nr nw x) ∧ (∀ x ∈ gq, NoRW nr nw x) ∧
        G.systems.length < 4 ∧ (∀ d ∈ nd, d ∈ allIds pre ∨ d ∈ G.ids)
  | .newStage => True

theorem allIds_cons (st : List Group) (sts : List (List Group)) :
    allIds (st :: sts) = st.flatMap Group.ids ++ allIds sts := by
  simp [allIds]

theorem search_spec (nr nw : List Nat) (nt : Nat) (hnt : nt ≤ 5) :
    ∀ (sts : List (List Group)) (k : Nat) (nd : List Nat),
    (∀ st ∈ sts, ∀ g ∈ st, GroupCap g) →
    ∃ tgt, search nr nw nt sts k nd = .ok tgt ∧ TargetSpec nr nw nt sts k nd tgt := by
  intro sts
  induction sts with
  | nil => intro k nd _; exact ⟨.newStage, rfl, trivial⟩
  | cons st rest ih =>
    intro k nd hcap
    have hcapRest : ∀ st ∈ rest, ∀ g ∈ st, GroupCap g := fun s hs => hcap s (List.mem_cons_of_mem _ hs)
    -- what the recursive call gives
    have hrec : ∃ tgt, search nr nw nt rest (k + 1) (removeIds st nd) = .ok tgt ∧
        TargetSpec nr nw nt (st :: rest) k nd tgt := by
      obtain ⟨tgt, h1, h2⟩ := ih (k + 1) (removeIds st nd) hcapRest
      refine ⟨tgt, h1, ?_⟩
      cases tgt with
      | newStage => trivial
      | stage j =>
        obtain ⟨pre, s, post, e, hj, hn, hd⟩ := h2
        refine ⟨st :: pre, s, post, by simp [e], by simp; omega, hn, ?_⟩
        intro d hdm
        rw [allIds_cons, List.mem_append]
        rcases mem_removeIds_or (st := st) hdm with h | h
        · exact Or.inr (hd d h)
        · exact Or.inl h
      | group j g =>
        obtain ⟨pre, s, post, e, hj, gp, G, gq, e2, hg, n1, n2, hl, hd⟩ := h2
        refine ⟨st :: pre, s, post, by simp [e], by simp; omega, gp, G, gq, e2, hg, n1, n2, hl, ?_⟩
        intro d hdm
        rw [allIds_cons, List.mem_append]
        rcases mem_removeIds_or (st := st) hdm with h | h
        · rcases hd d h with h | h
          · exact Or.inl (Or.inr h)
          · exact Or.inr h
        · exact Or.inl (Or.inl h)
    unfold search
    simp only
    cases hc : findConflict nr nw nd st with
    | none =>
      obtain ⟨hn, hnd⟩ := findConflict_none hc
      refine ⟨.stage k, rfl, [], st, rest, rfl, by simp, hn, ?_⟩
      subst hnd; simp
    | multiple => exact hrec
    | single g =>
      obtain ⟨gp, G, gq, e, hg, n1, n2, hdep⟩ := findConflict_single hc
      have hget : st[g]? = some G := by rw [e, ← hg]; exact getElem?_append_cons_length ..
      simp only [hget]
      split
      · rename_i hlen
        have hb : ∀ x ∈ st, x.time ≤ 20 := fun x hx => (hcap st (List.mem_cons_self ..) x hx).time_le
        obtain ⟨r, hr⟩ := improvesBalance_ok hb hget hnt
        rw [hr]
        cases r
        · exact hrec
        · refine ⟨.group k g, rfl, [], st, rest, rfl, by simp, gp, G, gq, e, hg, n1, n2, ?_, ?_⟩
          · simpa [maxSystemsPerGroup] using hlen
          · intro d hd
            rcases hdep with h | ⟨d', h, hG⟩
            · subst h; simp at hd
            · subst h; simp at hd; subst hd; exact Or.inr hG
      · exact hrec

/-! ### the three shapes of a successful `insert` -/

/-- The group created for a system that starts a new group. -/
def Group.single (s : Sys) : Group :=
  { systems := [s], reads := sortDedup s.reads, writes := s.writes, time := s.time.toNat }

/-- The group after `s` has been pushed at its end. -/
def Group.pushed (g : Group) (s : Sys) : Group :=
  { systems := g.systems ++ [s], reads := g.reads ++ sortDedup s.reads,
    writes := g.writes ++ s.writes, time := g.time + s.time.toNat }

def NoRWs (s : Sys) (g : Group) : Prop := NoRW (sortDedup s.reads) s.writes g

inductive InsertShape (b : Builder) (s : Sys) (b' : Builder) : Prop
  | stage (pre : List (List Group)) (st : List Group) (post : List (List Group))
      (e : b.stages = pre ++ st :: post)
      (e' : b'.stages = pre ++ (st ++ [Group.single s]) :: post)
      (norw : ∀ g ∈ st, NoRWs s g)
      (deps : ∀ d ∈ s.deps, d ∈ allIds pre)
  | group (pre : List (List Group)) (gp : List Group) (G : Group) (gq : List Group) (post : List (List Group))
      (e : b.stages = pre ++ (gp ++ G :: gq) :: post)
      (e' : b'.stages = pre ++ (gp ++ G.pushed s :: gq) :: post)
      (norw : ∀ g ∈ gp ++ gq, NoRWs s g)
      (len : G.systems.length < 4)
      (deps : ∀ d ∈ s.deps, d ∈ allIds pre ∨ d ∈ G.ids)
  | newStage (e' : b'.stages = b.stages ++ [[Group.single s]])

theorem empty_push (s : Sys) : Group.empty.push s (sortDedup s.reads) = .ok (Group.single s) := by
  have := s.time.toNat_le
  have h5 : maxSystemsPerGroup = 5 := rfl
  unfold Group.push
  rw [if_neg (by rw [h5]; simp [Group.empty]), if_neg (by simp [Group.empty]; omega)]
  simp [Group.single, Group.empty]

theorem push_ok {G : Group} (s : Sys) (hl : G.systems.length < 4) (hc : GroupCap G) :
    G.push s (sortDedup s.reads) = .ok (G.pushed s) := by
  have := s.time.toNat_le
  have := hc.time_le
  have h5 : maxSystemsPerGroup = 5 := rfl
  unfold Group.push
  rw [if_neg (by rw [h5]; omega), if_neg (by omega)]
  rfl

/-- `StagesBuilder::insert` never panics on a builder whose groups respect the capacity bounds, and
    its result has one of three shapes. -/
theorem insert_shape (b : Builder) (s : Sys) (hcap : ∀ st ∈ b.stages, ∀ g ∈ st, GroupCap g) :
    ∃ b', b.insert s = .ok b' ∧ b'.barrier = b.barrier ∧ InsertShape b s b' := by
  have hcapDrop : ∀ st ∈ b.stages.drop b.barrier, ∀ g ∈ st, GroupCap g :=
    fun st hs => hcap st (List.mem_of_mem_drop hs)
  obtain ⟨tgt, hs, hspec⟩ := search_spec (sortDedup s.reads) s.writes s.time.toNat s.time.toNat_le
    (b.stages.drop b.barrier) b.barrier s.deps hcapDrop
  unfold Builder.insert insertionTarget
  simp only [hs]
  cases tgt with
  | newStage =>
    simp only [List.getElem?_append_right (Nat.le_refl _), Nat.sub_self, List.getElem?_cons_zero,
      empty_push]
    refine ⟨_, rfl, rfl, .newStage ?_⟩
    simp
  | stage j =>
    obtain ⟨pre, st, post, e, hj, hn, hd⟩ := hspec
    have hlen : b.barrier ≤ b.stages.length := by
      rcases Nat.lt_or_ge b.stages.length b.barrier with h | h
      · rw [List.drop_eq_nil_of_le (Nat.le_of_lt h)] at e; simp at e
      · exact h
    have eAll : b.stages = (b.stages.take b.barrier ++ pre) ++ st :: post := by
      rw [List.append_assoc, ← e, List.take_append_drop]
    have hjlen : j = (b.stages.take b.barrier ++ pre).length := by
      simp [List.length_take]; omega
    have hsub : ∀ d, d ∈ allIds pre → d ∈ allIds (b.stages.take b.barrier ++ pre) := by
      intro d h
      simp only [allIds, List.flatten_append, List.flatMap_append, List.mem_append] at h ⊢
      exact Or.inr h
    obtain ⟨P, hP, hjP, hsubP⟩ : ∃ P, b.stages = P ++ st :: post ∧ j = P.length ∧
        ∀ d, d ∈ allIds pre → d ∈ allIds P := ⟨_, eAll, hjlen, hsub⟩
    have hget : b.stages[j]? = some st := by
      rw [hP, hjP]; exact getElem?_append_cons_length ..
    simp only [hget]
    have hset : b.stages.set j (st ++ [Group.empty]) = P ++ (st ++ [Group.empty]) :: post := by
      rw [hjP, hP]; exact set_append_cons_length ..
    rw [hset, hjP, getElem?_append_cons_length]
    simp only [List.getElem?_append_right (Nat.le_refl _), Nat.sub_self, List.getElem?_cons_zero,
      empty_push, set_append_cons_length]
    refine ⟨_, rfl, rfl, .stage P st post hP ?_ hn ?_⟩
    · simp
    · intro d hdm
      exact hsubP d (hd d hdm)
  | group j g =>
    obtain ⟨pre, st, post, e, hj, gp, G, gq, e2, hg, n1, n2, hl, hd⟩ := hspec
    have hlen : b.barrier ≤ b.stages.length := by
      rcases Nat.lt_or_ge b.stages.length b.barrier with h | h
      · rw [List.drop_eq_nil_of_le (Nat.le_of_lt h)] at e; simp at e
      · exact h
    have eAll : b.stages = (b.stages.take b.barrier ++ pre) ++ st :: post := by
      rw [List.append_assoc, ← e, List.take_append_drop]
    have hjlen : j = (b.stages.take b.barrier ++ pre).length := by
      simp [List.length_take]; omega
    have hsub : ∀ d, d ∈ allIds pre → d ∈ allIds (b.stages.take b.barrier ++ pre) := by
      intro d h
      simp only [allIds, List.flatten_append, List.flatMap_append, List.mem_append] at h ⊢
      exact Or.inr h
    obtain ⟨P, hP, hjP, hsubP⟩ : ∃ P, b.stages = P ++ st :: post ∧ j = P.length ∧
        ∀ d, d ∈ allIds pre → d ∈ allIds P := ⟨_, eAll, hjlen, hsub⟩
    have hget : b.stages[j]? = some st := by
      rw [hP, hjP]; exact getElem?_append_cons_length ..
    have hgetG : st[g]? = some G := by rw [e2, ← hg]; exact getElem?_append_cons_length ..
    have hGcap : GroupCap G := by
      apply hcap st _ G
      · rw [e2]; simp
      · rw [hP]; simp
    simp only [hget, hgetG, push_ok s hl hGcap]
    have hset : b.stages.set j (st.set g (G.pushed s)) = P ++ (gp ++ G.pushed s :: gq) :: post := by
      rw [hjP, hP, set_append_cons_length, e2, ← hg, set_append_cons_length]
    refine ⟨_, rfl, rfl, .group P gp G gq post (by rw [← e2]; exact hP) hset ?_ hl ?_⟩
    · intro x hx
      rcases List.mem_append.mp hx with h | h
      · exact n1 x h
      · exact n2 x h
    · intro d hdm
      rcases hd d hdm with h | h
      · exact Or.inl (hsubP d h)
      · exact Or.inr h

end SpecsModel.Dispatch
