/-
  DMap: array-backed total map `Nat → α` with a default value.
  Import-free so that the driver links as a plain `lean_exe`.
-/
namespace SpecsModel

structure DMap (α : Type) where
  arr : Array α
  dflt : α
  deriving Repr

namespace DMap
variable {α : Type}

def empty (d : α) : DMap α := { arr := #[], dflt := d }

@[inline] def get (m : DMap α) (i : Nat) : α := (m.arr[i]?).getD m.dflt

def set (m : DMap α) (i : Nat) (v : α) : DMap α :=
  if i < m.arr.size then { m with arr := m.arr.setIfInBounds i v }
  else { m with arr := (m.arr ++ Array.replicate (i - m.arr.size) m.dflt).push v }

@[simp] theorem get_empty (d : α) (i : Nat) : (empty d).get i = d := by
  simp [empty, get]

@[simp] theorem dflt_set (m : DMap α) (i : Nat) (v : α) : (m.set i v).dflt = m.dflt := by
  unfold set; split <;> rfl

theorem get_set (m : DMap α) (i j : Nat) (v : α) :
    (m.set i v).get j = if j = i then v else m.get j := by
  unfold set get
  split
  · simp only [Array.getElem?_setIfInBounds]
    grind
  · simp only [Array.getElem?_push, Array.getElem?_append, Array.size_append,
      Array.size_replicate, Array.getElem?_replicate]
    grind

@[simp] theorem get_set_self (m : DMap α) (i : Nat) (v : α) : (m.set i v).get i = v := by
  simp [get_set]

theorem get_set_ne (m : DMap α) {i j : Nat} (v : α) (h : j ≠ i) :
    (m.set i v).get j = m.get j := by
  simp [get_set, h]

/-- Beyond the backing array everything is the default. -/
theorem get_of_size_le (m : DMap α) {i : Nat} (h : m.arr.size ≤ i) : m.get i = m.dflt := by
  unfold get; simp [Array.getElem?_eq_none h]

theorem size_set (m : DMap α) (i : Nat) (v : α) :
    (m.set i v).arr.size = max m.arr.size (i + 1) := by
  unfold set; split
  · simp; omega
  · simp; omega

end DMap
end SpecsModel
