/-
  BSet: Level-A model of a hibitset `BitSet` / `AtomicBitSet`: a finite set of `Nat`
  (array of booleans). `add`/`remove` return the previous membership like hibitset.
-/
import SpecsModel.Data.DMap
namespace SpecsModel

structure BSet where
  bits : Array Bool
  deriving Repr

namespace BSet

def empty : BSet := ⟨#[]⟩

@[inline] def mem (s : BSet) (i : Nat) : Bool := (s.bits[i]?).getD false

def setBit (s : BSet) (i : Nat) (v : Bool) : BSet :=
  if i < s.bits.size then ⟨s.bits.setIfInBounds i v⟩
  else if v then ⟨(s.bits ++ Array.replicate (i - s.bits.size) false).push true⟩
  else s

def add (s : BSet) (i : Nat) : BSet := s.setBit i true
def remove (s : BSet) (i : Nat) : BSet := s.setBit i false
def clear (_ : BSet) : BSet := empty

/-- Ascending list of members (the order hibitset's `BitIter` produces, see Model/HiBitSet). -/
def toList (s : BSet) : List Nat := (List.range s.bits.size).filter s.mem

def count (s : BSet) : Nat := s.toList.length
def isEmpty (s : BSet) : Bool := s.toList.isEmpty

def union (a b : BSet) : BSet :=
  ⟨(Array.range (max a.bits.size b.bits.size)).map (fun i => a.mem i || b.mem i)⟩
def inter (a b : BSet) : BSet :=
  ⟨(Array.range (min a.bits.size b.bits.size)).map (fun i => a.mem i && b.mem i)⟩

@[simp] theorem mem_empty (i : Nat) : empty.mem i = false := by simp [empty, mem]

theorem mem_setBit (s : BSet) (i j : Nat) (v : Bool) :
    (s.setBit i v).mem j = if j = i then v else s.mem j := by
  unfold setBit mem
  split
  · simp only [Array.getElem?_setIfInBounds]; grind
  · split
    · simp only [Array.getElem?_push, Array.getElem?_append, Array.size_append,
        Array.size_replicate, Array.getElem?_replicate]
      grind
    · grind

theorem mem_add (s : BSet) (i j : Nat) : (s.add i).mem j = if j = i then true else s.mem j :=
  mem_setBit s i j true
theorem mem_remove (s : BSet) (i j : Nat) : (s.remove i).mem j = if j = i then false else s.mem j :=
  mem_setBit s i j false
@[simp] theorem mem_clear (s : BSet) (i : Nat) : s.clear.mem i = false := by simp [clear]

theorem mem_lt_size {s : BSet} {i : Nat} (h : s.mem i = true) : i < s.bits.size := by
  unfold mem at h
  by_cases hi : i < s.bits.size
  · exact hi
  · simp [Array.getElem?_eq_none (Nat.le_of_not_lt hi)] at h

theorem mem_toList (s : BSet) (i : Nat) : i ∈ s.toList ↔ s.mem i = true := by
  unfold toList
  simp only [List.mem_filter, List.mem_range]
  constructor
  · exact fun h => h.2
  · exact fun h => ⟨mem_lt_size h, h⟩

theorem toList_sorted (s : BSet) : s.toList.Pairwise (· < ·) :=
  List.Pairwise.sublist List.filter_sublist List.pairwise_lt_range

theorem toList_nodup (s : BSet) : s.toList.Nodup :=
  List.Nodup.sublist List.filter_sublist List.nodup_range

theorem mem_union (a b : BSet) (i : Nat) : (a.union b).mem i = (a.mem i || b.mem i) := by
  unfold union
  by_cases h : i < max a.bits.size b.bits.size
  · simp [mem, h]
  · have ha : a.mem i = false := by
      cases hm : a.mem i
      · rfl
      · have := mem_lt_size hm; omega
    have hb : b.mem i = false := by
      cases hm : b.mem i
      · rfl
      · have := mem_lt_size hm; omega
    rw [ha, hb]
    have hn : (Array.range (max a.bits.size b.bits.size))[i]? = none :=
      Array.getElem?_eq_none (by simp; omega)
    simp [mem, hn]

theorem mem_inter (a b : BSet) (i : Nat) : (a.inter b).mem i = (a.mem i && b.mem i) := by
  unfold inter
  by_cases h : i < min a.bits.size b.bits.size
  · simp [mem, h]
  · have : (a.mem i && b.mem i) = false := by
      cases ha : a.mem i
      · rfl
      · cases hb : b.mem i
        · rfl
        · have := mem_lt_size ha; have := mem_lt_size hb; omega
    rw [this]
    have hn : (Array.range (min a.bits.size b.bits.size))[i]? = none :=
      Array.getElem?_eq_none (by simp; omega)
    simp [mem, hn]

end BSet
end SpecsModel
