/- Outcomes of model operations: panics and UB are outcomes, not omissions. -/
namespace SpecsModel

inductive Out (α : Type) where
  | ok (a : α)
  | panic (why : String)
  | ub (why : String)
  deriving Repr, DecidableEq

namespace Out
def isOk {α} : Out α → Bool
  | ok _ => true
  | _ => false
def map {α β} (f : α → β) : Out α → Out β
  | ok a => ok (f a)
  | panic w => panic w
  | ub w => ub w
def bind {α β} (x : Out α) (f : α → Out β) : Out β :=
  match x with
  | ok a => f a
  | panic w => panic w
  | ub w => ub w
instance : Monad Out where
  pure := ok
  bind := bind
end Out
end SpecsModel
