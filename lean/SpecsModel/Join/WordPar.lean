/-
  Level C, glue: the word-level key producer as a `Splitter` (`wordSplitter`: `fold_with` drains the
  word-level `BitIter`, `split` is the word-level `BitProducer::split` with the real `average_ones`)
  meets the splitter contract `SplitOK` of ParJoin.lean; and the masks of a join tuple at word
  level (`wtupleLayers`: the `BitAnd` tree of `BitSetAnd/Or/Not/Xor/All` over word-level bit sets)
  abstract to the Level-B `tupleLayers`.
-/
import SpecsModel.Join.WordAvg
import SpecsModel.Join.WordSet
import SpecsModel.Join.LemmasPar
namespace SpecsModel.Join
open HiBitSet

/-- Level C: `BitProducer((&keys).iter(), 3)` on machine words. `keys` is what `fold_with` iterates:
    the word-level `BitIter` drained (`MAXIDX` calls suffice: an index is yielded at most once). -/
def wordSplitter (WL : WLayers) : Splitter WIt :=
  { keys := wcollect WL MAXIDX, split := wsplit WL averageOnes64 3 }

/-- Invariant of the word-level producers reachable from a fresh iterator: the word invariant, at
    most one non-empty level (Level B's `Good`), and no more keys than indices. -/
def WordInv (WL : WLayers) (s : WIt) : Prop :=
  s.OK ∧ Good s.toIt ∧ (items WL.toLayers s.toIt).length ≤ MAXIDX

theorem sortedL_toLayers (WL : WLayers) : SortedL WL.toLayers :=
  ⟨fun _ => sorted_bits _, fun _ => sorted_bits _, fun _ => sorted_bits _⟩

theorem wordSplitter_keys {WL : WLayers} (hL : WL.OK) {s : WIt} (h : WordInv WL s) :
    (wordSplitter WL).keys s = items WL.toLayers s.toIt := by
  show wcollect WL MAXIDX s = _
  rw [wcollect_refines hL MAXIDX s h.1, collect_items _ _ _ h.2.2]

theorem wordInv_fresh {WL : WLayers} (hL : WL.OK) (hwf : WF WL.toLayers) : WordInv WL (wfresh WL) := by
  refine ⟨wfresh_ok hL, ?_, ?_⟩
  · rw [wfresh_toIt]; exact good_fresh hwf.w3.1
  · rw [wfresh_toIt, items_fresh_eq hwf]
    have := List.length_filter_le WL.toLayers.contains (List.range (B * B * B * B))
    rw [List.length_range] at this
    exact this

/-- The word-level producer meets the splitter contract. -/
theorem wordSplitOK {WL : WLayers} (hL : WL.OK) : SplitOK (wordSplitter WL) (WordInv WL) := by
  intro p hp
  obtain ⟨hok, hg, hlen⟩ := hp
  obtain ⟨href, oka, okb⟩ := wsplit_refines hL avgOK_real 3 hok
  have hs := split_ok (sortedL_toLayers WL) (pickOf averageOnes64) 3 p.toIt hg
  rw [← href] at hs
  have esplit : (wordSplitter WL).split p = wsplit WL averageOnes64 3 p := rfl
  rw [esplit]
  cases hw : wsplit WL averageOnes64 3 p with
  | mk a ob =>
    rw [hw] at hs oka okb
    cases ob with
    | none =>
      simp only [Option.map_none] at hs ⊢
      have ia : WordInv WL a := ⟨oka, hs.2, by rw [hs.1]; exact hlen⟩
      exact ⟨by rw [wordSplitter_keys hL ia, wordSplitter_keys hL ⟨hok, hg, hlen⟩, hs.1], ia⟩
    | some b =>
      simp only [Option.map_some] at hs ⊢
      obtain ⟨he, ga, gb⟩ := hs
      have hl : (items WL.toLayers a.toIt).length + (items WL.toLayers b.toIt).length =
          (items WL.toLayers p.toIt).length := by rw [← he, List.length_append]
      have ia : WordInv WL a := ⟨oka, ga, by omega⟩
      have ib : WordInv WL b := ⟨okb b rfl, gb, by omega⟩
      rw [wordSplitter_keys hL ia, wordSplitter_keys hL ib, wordSplitter_keys hL ⟨hok, hg, hlen⟩]
      refine ⟨by rw [he], ?_, ?_, ia, ib⟩
      · rw [← he]; exact List.sublist_append_left _ _
      · rw [← he]; exact List.sublist_append_right _ _

/-! ### The masks of a join tuple at word level -/

/-- The bit sets of a world as machine words (`BitSet`s of the stores' masks, raw `BitSet`s, the
    entities' `BitSetOr(alive, raised)`). -/
structure WLWorld where
  stores : Nat → WLayers
  sets : Nat → WLayers
  ents : WLayers

def WLWorld.toLWorld (wl : WLWorld) : LWorld :=
  { stores := fun k => (wl.stores k).toLayers, sets := fun b => (wl.sets b).toLayers,
    ents := wl.ents.toLayers }

structure WLWorld.OK (wl : WLWorld) : Prop where
  stores : ∀ k, (wl.stores k).OK
  sets : ∀ b, (wl.sets b).OK
  ents : wl.ents.OK

def BExpr.wlayers (wl : WLWorld) : BExpr → WLayers
  | .set b => wl.sets b
  | .maskOf k => wl.stores k
  | .and x y => (x.wlayers wl).and (y.wlayers wl)
  | .or x y => (x.wlayers wl).or (y.wlayers wl)
  | .xor x y => (x.wlayers wl).xor (y.wlayers wl)
  | .not x => (x.wlayers wl).not

/-- The `Mask` half of `open`, Level C. -/
def Member.wlayers (wl : WLWorld) : Member → WLayers
  | .storage k | .storageMut k | .restricted k | .restrictedMut k | .drain k | .consume k => wl.stores k
  | .anti k => (wl.stores k).not
  | .maybe _ | .entries _ => .all
  | .entities => wl.ents
  | .bits e => e.wlayers wl

/-- `BitAnd::and`, Level C. -/
def andTreeWAux : Nat → List WLayers → WLayers
  | _, [] => .all
  | _, [m] => m
  | 0, _ :: _ :: _ => .all
  | fuel + 1, m₁ :: m₂ :: ms =>
    let l := m₁ :: m₂ :: ms
    (andTreeWAux fuel (l.take (l.length / 2))).and (andTreeWAux fuel (l.drop (l.length / 2)))

def wtupleLayers (wl : WLWorld) (ms : List Member) : WLayers :=
  andTreeWAux ms.length (ms.map (Member.wlayers wl))

theorem BExpr.wlayers_refines (wl : WLWorld) (hw : wl.OK) : ∀ e : BExpr,
    (e.wlayers wl).toLayers = e.layers wl.toLWorld ∧ (e.wlayers wl).OK := by
  intro e
  induction e with
  | set b => exact ⟨rfl, hw.sets b⟩
  | maskOf k => exact ⟨rfl, hw.stores k⟩
  | and x y ihx ihy =>
    exact ⟨by simp only [BExpr.wlayers, BExpr.layers, toLayers_and, ihx.1, ihy.1], ok_and _ ihx.2⟩
  | or x y ihx ihy =>
    exact ⟨by simp only [BExpr.wlayers, BExpr.layers, toLayers_or, ihx.1, ihy.1], ok_or ihx.2 ihy.2⟩
  | xor x y ihx ihy =>
    exact ⟨by simp only [BExpr.wlayers, BExpr.layers, toLayers_xor, ihx.1, ihy.1], ok_xor ihx.2 ihy.2⟩
  | not x ih => exact ⟨by simp only [BExpr.wlayers, BExpr.layers, toLayers_not, ih.1], ok_not ih.2⟩

theorem Member.wlayers_refines (wl : WLWorld) (hw : wl.OK) (m : Member) :
    (m.wlayers wl).toLayers = m.layers wl.toLWorld ∧ (m.wlayers wl).OK := by
  cases m with
  | maybe m => exact ⟨toLayers_all, ok_all⟩
  | entries k => exact ⟨toLayers_all, ok_all⟩
  | entities => exact ⟨rfl, hw.ents⟩
  | bits e => exact BExpr.wlayers_refines wl hw e
  | anti k => exact ⟨by simp only [Member.wlayers, Member.layers, toLayers_not]; rfl, ok_not (hw.stores k)⟩
  | _ => exact ⟨rfl, hw.stores _⟩

theorem andTreeW_refines : ∀ (fuel : Nat) (ws : List WLayers), (∀ x ∈ ws, x.OK) →
    (andTreeWAux fuel ws).toLayers = andTreeLAux fuel (ws.map WLayers.toLayers) ∧
    (andTreeWAux fuel ws).OK := by
  intro fuel
  induction fuel with
  | zero =>
    intro ws h
    match ws, h with
    | [], _ => rw [andTreeWAux]; exact ⟨by simp only [List.map_nil, andTreeLAux]; exact toLayers_all, ok_all⟩
    | [m], h => rw [andTreeWAux]; exact ⟨by simp only [List.map_cons, List.map_nil, andTreeLAux], h m (by simp)⟩
    | _ :: _ :: _, _ =>
      rw [andTreeWAux]; exact ⟨by simp only [List.map_cons, andTreeLAux]; exact toLayers_all, ok_all⟩
  | succ fuel ih =>
    intro ws h
    match ws, h with
    | [], _ => rw [andTreeWAux]; exact ⟨by simp only [List.map_nil, andTreeLAux]; exact toLayers_all, ok_all⟩
    | [m], h => rw [andTreeWAux]; exact ⟨by simp only [List.map_cons, List.map_nil, andTreeLAux], h m (by simp)⟩
    | m₁ :: m₂ :: mr, h =>
      rw [andTreeWAux]
      simp only [List.map_cons, andTreeLAux]
      obtain ⟨t1, o1⟩ := ih ((m₁ :: m₂ :: mr).take ((m₁ :: m₂ :: mr).length / 2))
        (fun x hx => h x (List.mem_of_mem_take hx))
      obtain ⟨t2, o2⟩ := ih ((m₁ :: m₂ :: mr).drop ((m₁ :: m₂ :: mr).length / 2))
        (fun x hx => h x (List.mem_of_mem_drop hx))
      refine ⟨?_, ok_and _ o1⟩
      rw [toLayers_and, t1, t2]
      simp only [List.map_take, List.map_drop, List.map_cons, List.length_cons, List.length_map]

/-- The word-level mask of a join tuple abstracts to the Level-B `tupleLayers`. -/
theorem wtupleLayers_refines (wl : WLWorld) (hw : wl.OK) (ms : List Member) :
    (wtupleLayers wl ms).toLayers = tupleLayers wl.toLWorld ms ∧ (wtupleLayers wl ms).OK := by
  unfold wtupleLayers tupleLayers
  obtain ⟨h1, h2⟩ := andTreeW_refines ms.length (ms.map (Member.wlayers wl)) (by
    intro x hx
    obtain ⟨m, _, rfl⟩ := List.mem_map.mp hx
    exact (Member.wlayers_refines wl hw m).2)
  refine ⟨?_, h2⟩
  rw [h1, List.map_map]
  congr 1
  apply List.map_congr_left
  intro m _
  exact (Member.wlayers_refines wl hw m).1

end SpecsModel.Join
