/-
  Level B, composites: `BitSetAnd/Or/Not/Xor/All` preserve well-formedness (ascending words +
  summary soundness) and compute the boolean combination of `contains`; hence the layered mask of a
  whole join tuple (`tupleLayers`) is well-formed and represents the Level-A `tupleMask`.
-/
import SpecsModel.Join.LemmasHi
import SpecsModel.Join.LemmasHiSet
import SpecsModel.Join.LemmasSpec
import SpecsModel.Join.ParJoin
namespace SpecsModel.HiBitSet

theorem contains_iff (l : List Nat) (x : Nat) : l.contains x = true ↔ x ∈ l := by
  simp

theorem mem_wInter (a b : List Nat) (x : Nat) : x ∈ wInter a b ↔ x ∈ a ∧ x ∈ b := by
  simp [wInter]
theorem mem_wUnion (a b : List Nat) (x : Nat) : x ∈ wUnion a b ↔ x < B ∧ (x ∈ a ∨ x ∈ b) := by
  simp [wUnion]
theorem mem_wNot (a : List Nat) (x : Nat) : x ∈ wNot a ↔ x < B ∧ x ∉ a := by
  simp [wNot]
theorem mem_wAll (x : Nat) : x ∈ wAll ↔ x < B := by simp [wAll]

theorem word_wInter {a : List Nat} (b : List Nat) (ha : Word a) : Word (wInter a b) :=
  ⟨ha.1.sublist List.filter_sublist, fun x hx => ha.2 x (List.mem_filter.mp hx).1⟩
theorem word_rangeFilter (p : Nat → Bool) : Word ((List.range B).filter p) :=
  ⟨List.Pairwise.sublist List.filter_sublist List.pairwise_lt_range,
   fun x hx => List.mem_range.mp (List.mem_filter.mp hx).1⟩
theorem word_wUnion (a b : List Nat) : Word (wUnion a b) := word_rangeFilter _
theorem word_wNot (a : List Nat) : Word (wNot a) := word_rangeFilter _
theorem word_wAll : Word wAll := by
  have := word_rangeFilter (fun _ => true)
  have e : (List.range B).filter (fun _ => true) = List.range B := by simp
  rw [e] at this
  exact this

theorem ne_nil_iff_exists {l : List Nat} : l ≠ [] ↔ ∃ x, x ∈ l := by
  cases l with
  | nil => simp
  | cons a t => simp

theorem wf_and {a b : Layers} (ha : WF a) (hb : WF b) : WF (a.and b) where
  w3 := word_wInter _ ha.w3
  w2 n := word_wInter _ (ha.w2 n)
  w1 n := word_wInter _ (ha.w1 n)
  w0 n := word_wInter _ (ha.w0 n)
  s2 n hn h := by
    obtain ⟨x, hx⟩ := ne_nil_iff_exists.mp h
    simp only [Layers.and, mem_wInter] at hx ⊢
    exact ⟨ha.s2 n hn (ne_nil_iff_exists.mpr ⟨x, hx.1⟩), hb.s2 n hn (ne_nil_iff_exists.mpr ⟨x, hx.2⟩)⟩
  s1 n hn h := by
    obtain ⟨x, hx⟩ := ne_nil_iff_exists.mp h
    simp only [Layers.and, mem_wInter] at hx ⊢
    exact ⟨ha.s1 n hn (ne_nil_iff_exists.mpr ⟨x, hx.1⟩), hb.s1 n hn (ne_nil_iff_exists.mpr ⟨x, hx.2⟩)⟩
  s0 n hn h := by
    obtain ⟨x, hx⟩ := ne_nil_iff_exists.mp h
    simp only [Layers.and, mem_wInter] at hx ⊢
    exact ⟨ha.s0 n hn (ne_nil_iff_exists.mpr ⟨x, hx.1⟩), hb.s0 n hn (ne_nil_iff_exists.mpr ⟨x, hx.2⟩)⟩

theorem wf_or {a b : Layers} (ha : WF a) (hb : WF b) : WF (a.or b) where
  w3 := word_wUnion _ _
  w2 n := word_wUnion _ _
  w1 n := word_wUnion _ _
  w0 n := word_wUnion _ _
  s2 n hn h := by
    obtain ⟨x, hx⟩ := ne_nil_iff_exists.mp h
    simp only [Layers.or, mem_wUnion] at hx ⊢
    refine ⟨hn, ?_⟩
    rcases hx.2 with h1 | h1
    · exact Or.inl (ha.s2 n hn (ne_nil_iff_exists.mpr ⟨x, h1⟩))
    · exact Or.inr (hb.s2 n hn (ne_nil_iff_exists.mpr ⟨x, h1⟩))
  s1 n hn h := by
    obtain ⟨x, hx⟩ := ne_nil_iff_exists.mp h
    simp only [Layers.or, mem_wUnion] at hx ⊢
    refine ⟨Nat.mod_lt _ (by decide), ?_⟩
    rcases hx.2 with h1 | h1
    · exact Or.inl (ha.s1 n hn (ne_nil_iff_exists.mpr ⟨x, h1⟩))
    · exact Or.inr (hb.s1 n hn (ne_nil_iff_exists.mpr ⟨x, h1⟩))
  s0 n hn h := by
    obtain ⟨x, hx⟩ := ne_nil_iff_exists.mp h
    simp only [Layers.or, mem_wUnion] at hx ⊢
    refine ⟨Nat.mod_lt _ (by decide), ?_⟩
    rcases hx.2 with h1 | h1
    · exact Or.inl (ha.s0 n hn (ne_nil_iff_exists.mpr ⟨x, h1⟩))
    · exact Or.inr (hb.s0 n hn (ne_nil_iff_exists.mpr ⟨x, h1⟩))

theorem wf_not (a : Layers) : WF a.not where
  w3 := word_wAll
  w2 _ := word_wAll
  w1 _ := word_wAll
  w0 _ := word_wNot _
  s2 n hn _ := (mem_wAll n).mpr hn
  s1 n _ _ := (mem_wAll _).mpr (Nat.mod_lt _ (by decide))
  s0 n _ _ := (mem_wAll _).mpr (Nat.mod_lt _ (by decide))

theorem wf_all : WF Layers.all where
  w3 := word_wAll
  w2 _ := word_wAll
  w1 _ := word_wAll
  w0 _ := word_wAll
  s2 n hn _ := (mem_wAll n).mpr hn
  s1 n _ _ := (mem_wAll _).mpr (Nat.mod_lt _ (by decide))
  s0 n _ _ := (mem_wAll _).mpr (Nat.mod_lt _ (by decide))

theorem wf_xor {a b : Layers} (ha : WF a) (hb : WF b) : WF (a.xor b) :=
  wf_and (wf_or ha hb) (wf_not _)

theorem bool_eq_of_iff {p q : Bool} (h : p = true ↔ q = true) : p = q := by
  cases p <;> cases q <;> simp_all

theorem contains_and (a b : Layers) (i : Nat) : (a.and b).contains i = (a.contains i && b.contains i) := by
  apply bool_eq_of_iff
  simp [Layers.contains, Layers.and, mem_wInter]

theorem contains_or (a b : Layers) (i : Nat) : (a.or b).contains i = (a.contains i || b.contains i) := by
  apply bool_eq_of_iff
  have : i % B < B := Nat.mod_lt _ (by decide)
  simp [Layers.contains, Layers.or, mem_wUnion, this]

theorem contains_not (a : Layers) (i : Nat) : a.not.contains i = !a.contains i := by
  apply bool_eq_of_iff
  have : i % B < B := Nat.mod_lt _ (by decide)
  simp [Layers.contains, Layers.not, mem_wNot, this]

theorem contains_all (i : Nat) : Layers.all.contains i = true := by
  have : i % B < B := Nat.mod_lt _ (by decide)
  simp [Layers.contains, Layers.all, mem_wAll, this]

theorem contains_xor (a b : Layers) (i : Nat) : (a.xor b).contains i = (a.contains i != b.contains i) := by
  simp only [Layers.xor, contains_and, contains_or, contains_not]
  cases a.contains i <;> cases b.contains i <;> rfl

end SpecsModel.HiBitSet

namespace SpecsModel.Join
open HiBitSet

/-- Well-formed layers that represent a Level-A mask on the index space. -/
def Represents (L : Layers) (m : Mask) : Prop := WF L ∧ ∀ i, i < MAXIDX → L.contains i = m.mem i

/-- The Level-B world represents the Level-A world: every base bit set (`BitSet` of a store, raw
    `BitSet`, `BitSetOr(alive, raised)`) is well-formed and has the same members. -/
structure LRepr (lw : LWorld) (w : JWorld) : Prop where
  stores : ∀ k, Represents (lw.stores k) (.ofSet (w.store k).mask)
  sets : ∀ b, Represents (lw.sets b) (.ofSet (w.sets.get b))
  ents : Represents lw.ents (.ofSet w.ents)

theorem Represents.and {a b : Layers} {x y : Mask} (ha : Represents a x) (hb : Represents b y) :
    Represents (a.and b) (x.and y) :=
  ⟨wf_and ha.1 hb.1, fun i hi => by rw [contains_and, Mask.mem_and, ha.2 i hi, hb.2 i hi]⟩
theorem Represents.or {a b : Layers} {x y : Mask} (ha : Represents a x) (hb : Represents b y) :
    Represents (a.or b) (x.or y) :=
  ⟨wf_or ha.1 hb.1, fun i hi => by rw [contains_or, Mask.mem_or, ha.2 i hi, hb.2 i hi]⟩
theorem Represents.not {a : Layers} {x : Mask} (ha : Represents a x) : Represents a.not x.not :=
  ⟨wf_not a, fun i hi => by rw [contains_not, Mask.mem_not, ha.2 i hi]⟩
theorem Represents.xor {a b : Layers} {x y : Mask} (ha : Represents a x) (hb : Represents b y) :
    Represents (a.xor b) (x.xor y) :=
  ⟨wf_xor ha.1 hb.1, fun i hi => by rw [contains_xor, Mask.mem_xor, ha.2 i hi, hb.2 i hi]⟩
theorem Represents.all : Represents Layers.all Mask.all :=
  ⟨wf_all, fun i _ => by rw [contains_all, Mask.mem_all]⟩

/-- A history of `BitSet::add` (`true`) / `BitSet::remove` (`false`) calls, Level B and Level A. -/
def layersAfter (ops : List (Bool × Nat)) : Layers :=
  ops.foldl (fun L o => if o.1 then L.add o.2 else L.remove o.2) Layers.empty
def bsetAfter (ops : List (Bool × Nat)) : BSet :=
  ops.foldl (fun s o => if o.1 then s.add o.2 else s.remove o.2) BSet.empty

/-- Every `BitSet` value — whatever sequence of in-range `add`/`remove` calls produced it — is
    well-formed at Level B and has the members of its Level-A counterpart. -/
theorem represents_after (ops : List (Bool × Nat)) (h : ∀ o ∈ ops, o.2 < MAXIDX) :
    Represents (layersAfter ops) (.ofSet (bsetAfter ops)) := by
  suffices hs : ∀ (ops : List (Bool × Nat)) (L : Layers) (s : BSet), (∀ o ∈ ops, o.2 < MAXIDX) →
      Represents L (.ofSet s) →
      Represents (ops.foldl (fun L o => if o.1 then L.add o.2 else L.remove o.2) L)
        (.ofSet (ops.foldl (fun s o => if o.1 then s.add o.2 else s.remove o.2) s)) from
    hs ops _ _ h ⟨wf_empty, fun i _ => by simp [Layers.contains, Layers.empty]⟩
  intro ops
  induction ops with
  | nil => intro L s _ hr; exact hr
  | cons o rest ih =>
    intro L s hb hr
    simp only [List.foldl_cons]
    apply ih _ _ (fun o' ho' => hb o' (List.mem_cons_of_mem _ ho'))
    have hid : o.2 < B * B * B * B := hb o List.mem_cons_self
    cases ho : o.1
    · simp only [Bool.false_eq_true, if_false]
      refine ⟨wf_remove hr.1 _ hid, fun i hi => ?_⟩
      rw [contains_remove, hr.2 i hi, Mask.mem_ofSet, Mask.mem_ofSet, BSet.mem_remove]
      by_cases e : i = o.2 <;> simp [e]
    · simp only [if_true]
      refine ⟨wf_add hr.1 _ hid, fun i hi => ?_⟩
      rw [contains_add, hr.2 i hi, Mask.mem_ofSet, Mask.mem_ofSet, BSet.mem_add]
      by_cases e : i = o.2 <;> simp [e]

theorem BExpr.represents {lw : LWorld} {w : JWorld} (h : LRepr lw w) :
    ∀ e : BExpr, Represents (e.layers lw) (e.mask w) := by
  intro e
  induction e with
  | set b => exact h.sets b
  | maskOf k => exact h.stores k
  | and x y ihx ihy => exact ihx.and ihy
  | or x y ihx ihy => exact ihx.or ihy
  | xor x y ihx ihy => exact ihx.xor ihy
  | not x ih => exact ih.not

theorem Member.represents {lw : LWorld} {w : JWorld} (h : LRepr lw w) :
    ∀ m : Member, Represents (m.layers lw) (m.mask w) := by
  intro m
  cases m with
  | maybe m => exact Represents.all
  | entries k => exact Represents.all
  | entities => exact h.ents
  | bits e => exact BExpr.represents h e
  | anti k => exact (h.stores k).not
  | _ => exact h.stores _

theorem andTreeL_represents : ∀ (fuel : Nat) (ls : List Layers) (ms : List Mask),
    ls.length = ms.length → (∀ p ∈ ls.zip ms, Represents p.1 p.2) →
    Represents (andTreeLAux fuel ls) (andTreeAux fuel ms) := by
  intro fuel
  induction fuel with
  | zero =>
    intro ls ms hl h
    match ls, ms, hl, h with
    | [], [], _, _ => rw [andTreeLAux, andTreeAux]; exact Represents.all
    | [l], [m], _, h => rw [andTreeLAux, andTreeAux]; exact h (l, m) (by simp)
    | _ :: _ :: _, _ :: _ :: _, _, _ => rw [andTreeLAux, andTreeAux]; exact Represents.all
  | succ fuel ih =>
    intro ls ms hl h
    match ls, ms, hl, h with
    | [], [], _, _ => rw [andTreeLAux, andTreeAux]; exact Represents.all
    | [l], [m], _, h => rw [andTreeLAux, andTreeAux]; exact h (l, m) (by simp)
    | l₁ :: l₂ :: lr, m₁ :: m₂ :: mr, hl, h =>
      rw [andTreeLAux, andTreeAux]
      simp only [List.length_cons] at hl ⊢
      have hlen : lr.length = mr.length := by omega
      rw [hlen]
      apply Represents.and
      · apply ih
        · simp [List.length_take, hlen]
        · intro p hp
          have e : ∀ (n : Nat) (a : List Layers) (b : List Mask), (a.take n).zip (b.take n) = (a.zip b).take n := by
            intro n a b; simp only [List.zip, List.take_zipWith]
          rw [e] at hp
          exact h p (List.mem_of_mem_take hp)
      · apply ih
        · simp [List.length_drop, hlen]
        · intro p hp
          have e : ∀ (n : Nat) (a : List Layers) (b : List Mask), (a.drop n).zip (b.drop n) = (a.zip b).drop n := by
            intro n a b; simp only [List.zip, List.drop_zipWith]
          rw [e] at hp
          exact h p (List.mem_of_mem_drop hp)

theorem mem_zip_self {α : Type} : ∀ (l : List α) (p : α × α), p ∈ l.zip l → p.1 = p.2 := by
  intro l
  induction l with
  | nil => intro p hp; simp at hp
  | cons a t ih =>
    intro p hp
    simp only [List.zip_cons_cons, List.mem_cons] at hp
    rcases hp with rfl | hp
    · rfl
    · exact ih p hp

/-- The layered mask of a join tuple is well-formed and has exactly the members of `tupleMask`. -/
theorem tupleLayers_represents {lw : LWorld} {w : JWorld} (h : LRepr lw w) (ms : List Member) :
    Represents (tupleLayers lw ms) (tupleMask w ms) := by
  unfold tupleLayers tupleMask andTree
  rw [List.length_map]
  apply andTreeL_represents
  · simp
  · intro p hp
    rw [List.zip_map, List.mem_map] at hp
    obtain ⟨⟨a, b⟩, hab, rfl⟩ := hp
    have : a = b := mem_zip_self ms (a, b) hab
    subst this
    exact Member.represents h a

end SpecsModel.Join
