/-
  Level B, the base bit set: `BitSet::new`, `BitSet::add`, `BitSet::remove` keep the layers
  well-formed (ascending words, summary soundness) and change `contains` at exactly one index.
  Together with LemmasHiOps (composites) this discharges the well-formedness hypothesis of the
  Level-B theorems for every mask a join can be opened with.
-/
import SpecsModel.Join.LemmasHi
namespace SpecsModel.HiBitSet

theorem mem_wAdd (b : Nat) : ∀ (w : List Nat) (x : Nat), x ∈ wAdd b w ↔ x = b ∨ x ∈ w := by
  intro w
  induction w with
  | nil => intro x; simp [wAdd]
  | cons y ys ih =>
    intro x
    unfold wAdd
    split
    · simp
    · split
      · rename_i h1 h2
        subst h2
        simp only [List.mem_cons]
        constructor
        · intro h; exact Or.inr h
        · rintro (h | h)
          · exact Or.inl h
          · exact h
      · simp only [List.mem_cons, ih]
        constructor
        · rintro (h | h | h)
          · exact Or.inr (Or.inl h)
          · exact Or.inl h
          · exact Or.inr (Or.inr h)
        · rintro (h | h | h)
          · exact Or.inr (Or.inl h)
          · exact Or.inl h
          · exact Or.inr (Or.inr h)

theorem sorted_wAdd (b : Nat) : ∀ w : List Nat, w.Pairwise (· < ·) → (wAdd b w).Pairwise (· < ·) := by
  intro w
  induction w with
  | nil => intro _; simp [wAdd]
  | cons y ys ih =>
    intro h
    rw [List.pairwise_cons] at h
    unfold wAdd
    split
    · rename_i hlt
      rw [List.pairwise_cons]
      refine ⟨?_, List.pairwise_cons.mpr h⟩
      intro z hz
      rcases List.mem_cons.mp hz with rfl | hz
      · exact hlt
      · have := h.1 z hz; omega
    · split
      · exact List.pairwise_cons.mpr h
      · rename_i h1 h2
        rw [List.pairwise_cons]
        refine ⟨?_, ih h.2⟩
        intro z hz
        rcases (mem_wAdd b ys z).mp hz with rfl | hz
        · omega
        · exact h.1 z hz

theorem word_wAdd {b : Nat} {w : List Nat} (hb : b < B) (hw : Word w) : Word (wAdd b w) :=
  ⟨sorted_wAdd b w hw.1, fun x hx => by
    rcases (mem_wAdd b w x).mp hx with rfl | hx
    · exact hb
    · exact hw.2 x hx⟩

theorem mem_wDel (b : Nat) (w : List Nat) (x : Nat) : x ∈ wDel b w ↔ x ∈ w ∧ x ≠ b := by
  simp [wDel]

theorem word_wDel (b : Nat) {w : List Nat} (hw : Word w) : Word (wDel b w) :=
  ⟨hw.1.sublist List.filter_sublist, fun x hx => hw.2 x ((mem_wDel b w x).mp hx).1⟩

theorem word_nil : Word [] := ⟨List.Pairwise.nil, fun _ h => by cases h⟩

theorem wf_empty : WF Layers.empty where
  w3 := word_nil
  w2 _ := word_nil
  w1 _ := word_nil
  w0 _ := word_nil
  s2 _ _ h := absurd rfl h
  s1 _ _ h := absurd rfl h
  s0 _ _ h := absurd rfl h

theorem word_upd {f : Nat → List Nat} (hf : ∀ n, Word (f n)) (n : Nat) {w : List Nat} (hw : Word w) :
    ∀ m, Word (upd f n w m) := by
  intro m; unfold upd; split
  · exact hw
  · exact hf m

theorem ne_nil_of_mem {l : List Nat} {x : Nat} (h : x ∈ l) : l ≠ [] := fun e => by rw [e] at h; cases h

/-- `BitSet::add` keeps the layers well-formed (index inside the index space; `add` panics otherwise). -/
theorem wf_add {L : Layers} (h : WF L) (id : Nat) (hid : id < B * B * B * B) : WF (L.add id) := by
  unfold Layers.add
  split
  · exact h
  · by_cases hempty : L.l0 (id / B) = []
    · simp only [hempty, if_true]
      have hr0 : id % B < B := Nat.mod_lt _ (by decide)
      have hr1 : id / B % B < B := Nat.mod_lt _ (by decide)
      have hr2 : id / (B * B) % B < B := Nat.mod_lt _ (by decide)
      have hr3 : id / (B * B * B) % B < B := Nat.mod_lt _ (by decide)
      refine ⟨word_wAdd hr3 h.w3, word_upd h.w2 _ (word_wAdd hr2 (h.w2 _)),
        word_upd h.w1 _ (word_wAdd hr1 (h.w1 _)), word_upd h.w0 _ (word_wAdd hr0 word_nil), ?_, ?_, ?_⟩
      · intro n hn hne
        simp only [upd] at hne
        rw [mem_wAdd]
        by_cases e : n = id / (B * B * B)
        · left; subst e; simp only [B] at *; omega
        · right; simp only [e, if_false] at hne; exact h.s2 n hn hne
      · intro n hn hne
        simp only [upd] at hne ⊢
        by_cases e : n = id / (B * B)
        · subst e
          have e1 : id / (B * B) / B = id / (B * B * B) := by simp only [B]; omega
          simp only [e1, if_true]
          rw [mem_wAdd]; left; rfl
        · simp only [e, if_false] at hne
          have := h.s1 n hn hne
          split
          · rename_i e2; rw [mem_wAdd]; right; rw [← e2]; exact this
          · exact this
      · intro n hn hne
        simp only [upd] at hne ⊢
        by_cases e : n = id / B
        · subst e
          have e1 : id / B / B = id / (B * B) := by simp only [B]; omega
          simp only [e1, if_true]
          rw [mem_wAdd]; left; rfl
        · simp only [e, if_false] at hne
          have := h.s0 n hn hne
          split
          · rename_i e2; rw [mem_wAdd]; right; rw [← e2]; exact this
          · exact this
    · simp only [hempty, if_false]
      have hr0 : id % B < B := Nat.mod_lt _ (by decide)
      refine ⟨h.w3, h.w2, h.w1, word_upd h.w0 _ (word_wAdd hr0 (h.w0 _)), h.s2, h.s1, ?_⟩
      intro n hn hne
      simp only [upd] at hne
      by_cases e : n = id / B
      · subst e; exact h.s0 _ hn hempty
      · simp only [e, if_false] at hne; exact h.s0 n hn hne

/-- `BitSet::add` changes membership of exactly `id`. -/
theorem contains_add (L : Layers) (id i : Nat) :
    (L.add id).contains i = (i == id || L.contains i) := by
  have key : ∀ (p q : Bool), (p = true ↔ q = true) → p = q := by
    intro p q h; cases p <;> cases q <;> simp_all
  apply key
  unfold Layers.add
  split
  · rename_i hc
    simp only [Bool.or_eq_true, beq_iff_eq]
    constructor
    · exact Or.inr
    · rintro (rfl | h)
      · exact hc
      · exact h
  · have hsplit : i = id ↔ i / B = id / B ∧ i % B = id % B := by
      simp only [B]; omega
    by_cases hempty : L.l0 (id / B) = []
    · simp only [hempty, if_true, Layers.contains, upd, Bool.or_eq_true, beq_iff_eq, List.contains_iff_mem,
        List.contains_eq_mem, decide_eq_true_eq]
      by_cases e : i / B = id / B
      · simp only [e, if_true, mem_wAdd, hempty, List.not_mem_nil, or_false]
        rw [hsplit]; simp [e]
      · simp only [e, if_false]
        rw [hsplit]; simp [e]
    · simp only [hempty, if_false, Layers.contains, upd, Bool.or_eq_true, beq_iff_eq,
        List.contains_eq_mem, decide_eq_true_eq]
      by_cases e : i / B = id / B
      · simp only [e, if_true, mem_wAdd]
        rw [hsplit]; simp [e]
      · simp only [e, if_false]
        rw [hsplit]; simp [e]

/-- `BitSet::remove` keeps the layers well-formed. -/
theorem wf_remove {L : Layers} (h : WF L) (id : Nat) (hid : id < B * B * B * B) : WF (L.remove id) := by
  unfold Layers.remove
  split
  · exact h
  · -- common facts about the rewritten words
    have hw0 := word_wDel (id % B) (h.w0 (id / B))
    have hw1 := word_wDel (id / B % B) (h.w1 (id / (B * B)))
    have hw2 := word_wDel (id / (B * B) % B) (h.w2 (id / (B * B * B)))
    have hw3 := word_wDel (id / (B * B * B) % B) h.w3
    -- soundness one level up survives clearing the summary bit of an *emptied* word
    have s0' : ∀ n, n < B * B * B → upd L.l0 (id / B) (wDel (id % B) (L.l0 (id / B))) n ≠ [] →
        n % B ∈ L.l1 (n / B) := by
      intro n hn hne
      simp only [upd] at hne
      by_cases e : n = id / B
      · subst e
        simp only [if_true] at hne
        obtain ⟨x, hx⟩ := List.exists_mem_of_ne_nil _ hne
        exact h.s0 _ hn (ne_nil_of_mem ((mem_wDel _ _ _).mp hx).1)
      · simp only [e, if_false] at hne; exact h.s0 n hn hne
    simp only
    split
    · -- layer 0 word still non-empty: only layer 0 changed
      exact ⟨h.w3, h.w2, h.w1, word_upd h.w0 _ hw0, h.s2, h.s1, s0'⟩
    · rename_i hz0
      have hz0 : wDel (id % B) (L.l0 (id / B)) = [] := by
        by_cases e : wDel (id % B) (L.l0 (id / B)) = []
        · exact e
        · exact absurd e hz0
      have s0'' : ∀ n, n < B * B * B → upd L.l0 (id / B) (wDel (id % B) (L.l0 (id / B))) n ≠ [] →
          n % B ∈ upd L.l1 (id / (B * B)) (wDel (id / B % B) (L.l1 (id / (B * B)))) (n / B) := by
        intro n hn hne
        have hold := s0' n hn hne
        have hn0 : n ≠ id / B := by
          intro e; subst e; simp only [upd, if_true] at hne; exact hne hz0
        simp only [upd]
        split
        · rename_i e2
          rw [mem_wDel]
          refine ⟨by rw [← e2]; exact hold, ?_⟩
          intro e3
          apply hn0
          simp only [B] at *; omega
        · exact hold
      have s1' : ∀ n, n < B * B → upd L.l1 (id / (B * B)) (wDel (id / B % B) (L.l1 (id / (B * B)))) n ≠ [] →
          n % B ∈ L.l2 (n / B) := by
        intro n hn hne
        simp only [upd] at hne
        by_cases e : n = id / (B * B)
        · subst e
          simp only [if_true] at hne
          obtain ⟨x, hx⟩ := List.exists_mem_of_ne_nil _ hne
          exact h.s1 _ hn (ne_nil_of_mem ((mem_wDel _ _ _).mp hx).1)
        · simp only [e, if_false] at hne; exact h.s1 n hn hne
      split
      · exact ⟨h.w3, h.w2, word_upd h.w1 _ hw1, word_upd h.w0 _ hw0, h.s2, s1', s0''⟩
      · rename_i hz1
        have hz1 : wDel (id / B % B) (L.l1 (id / (B * B))) = [] := by
          by_cases e : wDel (id / B % B) (L.l1 (id / (B * B))) = []
          · exact e
          · exact absurd e hz1
        have s1'' : ∀ n, n < B * B → upd L.l1 (id / (B * B)) (wDel (id / B % B) (L.l1 (id / (B * B)))) n ≠ [] →
            n % B ∈ upd L.l2 (id / (B * B * B)) (wDel (id / (B * B) % B) (L.l2 (id / (B * B * B)))) (n / B) := by
          intro n hn hne
          have hold := s1' n hn hne
          have hn0 : n ≠ id / (B * B) := by
            intro e; subst e; simp only [upd, if_true] at hne; exact hne hz1
          simp only [upd]
          split
          · rename_i e2
            rw [mem_wDel]
            refine ⟨by rw [← e2]; exact hold, ?_⟩
            intro e3
            apply hn0
            simp only [B] at *; omega
          · exact hold
        have s2' : ∀ n, n < B → upd L.l2 (id / (B * B * B)) (wDel (id / (B * B) % B) (L.l2 (id / (B * B * B)))) n ≠ [] →
            n ∈ L.l3 := by
          intro n hn hne
          simp only [upd] at hne
          by_cases e : n = id / (B * B * B)
          · subst e
            simp only [if_true] at hne
            obtain ⟨x, hx⟩ := List.exists_mem_of_ne_nil _ hne
            exact h.s2 _ hn (ne_nil_of_mem ((mem_wDel _ _ _).mp hx).1)
          · simp only [e, if_false] at hne; exact h.s2 n hn hne
        split
        · exact ⟨h.w3, word_upd h.w2 _ hw2, word_upd h.w1 _ hw1, word_upd h.w0 _ hw0, s2', s1'', s0''⟩
        · rename_i hz2
          have hz2 : wDel (id / (B * B) % B) (L.l2 (id / (B * B * B))) = [] := by
            by_cases e : wDel (id / (B * B) % B) (L.l2 (id / (B * B * B))) = []
            · exact e
            · exact absurd e hz2
          refine ⟨hw3, word_upd h.w2 _ hw2, word_upd h.w1 _ hw1, word_upd h.w0 _ hw0, ?_, s1'', s0''⟩
          intro n hn hne
          have hold := s2' n hn hne
          have hn0 : n ≠ id / (B * B * B) := by
            intro e; subst e; simp only [upd, if_true] at hne; exact hne hz2
          rw [mem_wDel]
          refine ⟨hold, ?_⟩
          intro e3
          apply hn0
          simp only [B] at *; omega

/-- `BitSet::remove` changes membership of exactly `id`. -/
theorem contains_remove (L : Layers) (id i : Nat) :
    (L.remove id).contains i = (L.contains i && !(i == id)) := by
  have key : ∀ (p q : Bool), (p = true ↔ q = true) → p = q := by
    intro p q h; cases p <;> cases q <;> simp_all
  apply key
  have hsplit : i = id ↔ i / B = id / B ∧ i % B = id % B := by
    simp only [B]; omega
  have hl0 : (L.remove id).l0 = if (L.l0 (id / B)).contains (id % B) = true then
      upd L.l0 (id / B) (wDel (id % B) (L.l0 (id / B))) else L.l0 := by
    unfold Layers.remove
    by_cases hc : (L.l0 (id / B)).contains (id % B) = true
    · simp only [hc, Bool.not_true, Bool.false_eq_true, if_false, if_true]
      split
      · rfl
      · split
        · rfl
        · split <;> rfl
    · have hc' : (L.l0 (id / B)).contains (id % B) = false := by
        cases hx : (L.l0 (id / B)).contains (id % B)
        · rfl
        · exact absurd hx hc
      simp only [hc', Bool.not_false, if_true, Bool.false_eq_true, if_false]
  simp only [Layers.contains, hl0, Bool.and_eq_true, Bool.not_eq_true', beq_eq_false_iff_ne, ne_eq,
    List.contains_eq_mem, decide_eq_true_eq]
  split
  · simp only [upd]
    by_cases e : i / B = id / B
    · simp only [e, if_true, mem_wDel]
      rw [hsplit]; simp [e]
    · simp only [e, if_false]
      rw [hsplit]; simp [e]
  · rename_i hc
    constructor
    · intro hm
      refine ⟨hm, ?_⟩
      rintro rfl
      exact hc hm
    · exact fun h => h.1

end SpecsModel.HiBitSet
