/-
  Level C, `average_ones` (hibitset 0.6.4 src/util.rs, `average_ones_u64`; on a 64-bit target
  `average_ones(n) = average_ones_u64(n as u64).map(|n| n as usize)`).

  * `averageOnes64C` transcribes the function with *checked* `u64` arithmetic: a subtraction that
    would underflow, an addition that would exceed `u64::MAX` and a shift by 64 or more yield `none`
    (Rust: panic in debug builds, wrap-around / masked shift amount in release builds).
    `averageOnes64C_eq`: for every `n < 2^64` none of these happens, and the result is the pure
    function `averageOnes64`.
  * `averageOnes64_lt`: a returned position is below 64, so `(1 << average_bit) - 1` in
    `BitProducer::split` never shifts by 64.
  * `swarCount_eq`: the parallel bit count (`a … e`, `count`) is the number of set bits.
  * `avgOK_real`: hence `average_ones` returns `None` exactly on words with at most one set bit —
    the contract `AvgOK` under which WordSplit.lean proves the refinement of `split`.

  Which position is returned (the binary search `descend`) is irrelevant for the correctness of
  `split` — Level B quantifies over every `pick` —, so nothing beyond `< 64` is proved about it.
-/
import SpecsModel.Join.WordSplit
namespace SpecsModel.HiBitSet

/-! ### Transcription -/

/-- `const PAR: [u64; 6] = [!0 / 0x3, !0 / 0x5, !0 / 0x11, !0 / 0x101, !0 / 0x10001, !0 / 0x100000001]` -/
def PAR0 : Nat := 0x5555555555555555
def PAR1 : Nat := 0x3333333333333333
def PAR2 : Nat := 0x0f0f0f0f0f0f0f0f
def PAR3 : Nat := 0x00ff00ff00ff00ff
def PAR4 : Nat := 0x0000ffff0000ffff
def PAR5 : Nat := 0x00000000ffffffff

example : [PAR0, PAR1, PAR2, PAR3, PAR4, PAR5] =
    [(2 ^ 64 - 1) / 0x3, (2 ^ 64 - 1) / 0x5, (2 ^ 64 - 1) / 0x11, (2 ^ 64 - 1) / 0x101,
     (2 ^ 64 - 1) / 0x10001, (2 ^ 64 - 1) / 0x100000001] := by decide +kernel

/-- Counting set bits in parallel. -/
def swarA (n : Nat) : Nat := n - ((n >>> 1) &&& PAR0)
def swarB (a : Nat) : Nat := (a &&& PAR1) + ((a >>> 2) &&& PAR1)
def swarC (b : Nat) : Nat := (b + (b >>> 4)) &&& PAR2
def swarD (c : Nat) : Nat := (c + (c >>> 8)) &&& PAR3
def swarE (d : Nat) : Nat := (d + (d >>> 16)) &&& PAR4
def swarCount (e : Nat) : Nat := (e + (e >>> 32)) &&& PAR5

/-- The variables captured mutably by the closure `descend`. -/
structure Desc where
  cur : Nat
  target : Nat
  result : Nat

/-- The closure `descend(child, child_stride, child_mask)`, unchecked. -/
def descendP (st : Desc) (child stride cmask : Nat) : Desc :=
  let st1 : Desc :=
    if st.cur < st.target then { st with result := st.result - 2 * stride, target := st.target - st.cur }
    else st
  { st1 with cur := (child >>> (st1.result - stride)) &&& cmask }

/-- The binary search of `average_ones_u64` (from `let mut result = 64;` on), unchecked. -/
def searchP (st : Desc) (a b c d n : Nat) : Nat :=
  let st := descendP st d 16 (256 - 1)
  let st := descendP st c 8 (16 - 1)
  let st := descendP st b 4 (8 - 1)
  let st := descendP st a 2 (4 - 1)
  let st := descendP st n 1 (2 - 1)
  let result := if st.cur < st.target then st.result - 1 else st.result
  result - 1

/-- `average_ones_u64`, unchecked arithmetic. -/
def averageOnes64 (n : Nat) : Option Nat :=
  let a := swarA n
  let b := swarB a
  let c := swarC b
  let d := swarD c
  let e := swarE d
  let cur := e >>> 32
  let count := swarCount e
  if count ≤ 1 then none
  else some (searchP { cur := cur, target := count / 2, result := 64 } a b c d n)

/-- `u64` subtraction / addition / right shift; `none` = overflow. -/
def csub (a b : Nat) : Option Nat := if b ≤ a then some (a - b) else none
def cadd (a b : Nat) : Option Nat := if a + b < 2 ^ 64 then some (a + b) else none
def cshr (a k : Nat) : Option Nat := if k < 64 then some (a >>> k) else none

/-- The closure `descend`, checked. -/
def descend (st : Desc) (child stride cmask : Nat) : Option Desc := do
  let st1 ← if st.cur < st.target then do
      let r ← csub st.result (2 * stride)
      let t ← csub st.target st.cur
      pure ({ st with result := r, target := t } : Desc)
    else pure st
  let sh ← csub st1.result stride
  let c ← cshr child sh
  pure { st1 with cur := c &&& cmask }

/-- The binary search, checked. -/
def searchC (st : Desc) (a b c d n : Nat) : Option Nat := do
  let st ← descend st d 16 (256 - 1)
  let st ← descend st c 8 (16 - 1)
  let st ← descend st b 4 (8 - 1)
  let st ← descend st a 2 (4 - 1)
  let st ← descend st n 1 (2 - 1)
  let result ← if st.cur < st.target then csub st.result 1 else pure st.result
  csub result 1

/-- `average_ones_u64`, checked arithmetic: outer `none` = some operation overflowed. -/
def averageOnes64C (n : Nat) : Option (Option Nat) := do
  let a ← csub n ((← cshr n 1) &&& PAR0)
  let b ← cadd (a &&& PAR1) ((← cshr a 2) &&& PAR1)
  let c := (← cadd b (← cshr b 4)) &&& PAR2
  let d := (← cadd c (← cshr c 8)) &&& PAR3
  let e := (← cadd d (← cshr d 16)) &&& PAR4
  let cur ← cshr e 32
  let count := (← cadd e cur) &&& PAR5
  if count ≤ 1 then pure none
  else
    let r ← searchC { cur := cur, target := count / 2, result := 64 } a b c d n
    pure (some r)

/-! ### No overflow, and the result is a bit position -/

theorem descendP_result (st : Desc) (child stride cmask : Nat) :
    (descendP st child stride cmask).result ≤ st.result ∧
    st.result - 2 * stride ≤ (descendP st child stride cmask).result := by
  unfold descendP
  by_cases h : st.cur < st.target
  · simp only [h, if_true]; omega
  · simp only [h, if_false]; omega

theorem descend_eq {st : Desc} (child : Nat) {stride : Nat} (cmask : Nat) (h1 : 4 * stride ≤ st.result)
    (h2 : st.result ≤ 64) (hs : 0 < stride) :
    descend st child stride cmask = some (descendP st child stride cmask) := by
  unfold descend descendP
  by_cases h : st.cur < st.target
  · have c1 : 2 * stride ≤ st.result := by omega
    have c2 : st.cur ≤ st.target := by omega
    have c3 : stride ≤ st.result - 2 * stride := by omega
    have c4 : st.result - 2 * stride - stride < 64 := by omega
    simp [h, csub, cshr, c1, c2, c3, c4]
  · have c3 : stride ≤ st.result := by omega
    have c4 : st.result - stride < 64 := by omega
    simp [h, csub, cshr, c3, c4]

theorem search_eq {st : Desc} (a b c d n : Nat) (h : st.result = 64) :
    searchC st a b c d n = some (searchP st a b c d n) ∧ searchP st a b c d n < 64 := by
  unfold searchC searchP
  have r1 := descendP_result st d 16 (256 - 1)
  rw [descend_eq d (256 - 1) (by omega) (by omega) (by decide)]
  generalize descendP st d 16 (256 - 1) = s1 at r1 ⊢
  have r2 := descendP_result s1 c 8 (16 - 1)
  simp only [Option.bind_eq_bind, Option.bind_some]
  rw [descend_eq c (16 - 1) (by omega) (by omega) (by decide)]
  generalize descendP s1 c 8 (16 - 1) = s2 at r2 ⊢
  have r3 := descendP_result s2 b 4 (8 - 1)
  simp only [Option.bind_some]
  rw [descend_eq b (8 - 1) (by omega) (by omega) (by decide)]
  generalize descendP s2 b 4 (8 - 1) = s3 at r3 ⊢
  have r4 := descendP_result s3 a 2 (4 - 1)
  simp only [Option.bind_some]
  rw [descend_eq a (4 - 1) (by omega) (by omega) (by decide)]
  generalize descendP s3 a 2 (4 - 1) = s4 at r4 ⊢
  have r5 := descendP_result s4 n 1 (2 - 1)
  simp only [Option.bind_some]
  rw [descend_eq n (2 - 1) (by omega) (by omega) (by decide)]
  generalize descendP s4 n 1 (2 - 1) = s5 at r5 ⊢
  simp only [Option.bind_some]
  by_cases hc : s5.cur < s5.target
  · have c1 : 1 ≤ s5.result := by omega
    have c2 : 1 ≤ s5.result - 1 := by omega
    simp only [hc, if_true, csub, c1, c2, Option.bind_some]
    constructor <;> first | rfl | trivial | omega
  · have c1 : 1 ≤ s5.result := by omega
    simp only [hc, if_false, csub, c1, Option.pure_def, Option.bind_some, if_true]
    constructor <;> first | rfl | trivial | omega

theorem searchC_eq (cur target a b c d n : Nat) :
    searchC { cur := cur, target := target, result := 64 } a b c d n =
      some (searchP { cur := cur, target := target, result := 64 } a b c d n) :=
  (search_eq a b c d n rfl).1

/-- A returned position is below 64: `(1 << average_bit) - 1` never shifts by 64. -/
theorem averageOnes64_lt {n a : Nat} (h : averageOnes64 n = some a) : a < 64 := by
  unfold averageOnes64 at h
  simp only at h
  split at h
  · cases h
  · cases h
    exact (search_eq _ _ _ _ _ rfl).2

/-- **No operation of `average_ones_u64` overflows** (no subtraction underflows, no sum exceeds
    `u64::MAX`, every shift amount is below 64), for every 64-bit input. -/
theorem averageOnes64C_eq (n : Nat) : averageOnes64C n = some (averageOnes64 n) := by
  have h1 : (n >>> 1) &&& PAR0 ≤ n := by
    have : (n >>> 1) &&& PAR0 ≤ n >>> 1 := Nat.and_le_left
    rw [Nat.shiftRight_eq_div_pow] at this
    have h2 : n / 2 ^ 1 ≤ n := Nat.div_le_self _ _
    rw [Nat.shiftRight_eq_div_pow]; omega
  have hA : swarA n ≤ n := Nat.sub_le _ _
  have h2a : swarA n &&& PAR1 ≤ PAR1 := Nat.and_le_right
  have h2b : (swarA n >>> 2) &&& PAR1 ≤ PAR1 := Nat.and_le_right
  have hB : swarB (swarA n) ≤ 2 * PAR1 := by unfold swarB; omega
  have hC : swarC (swarB (swarA n)) ≤ PAR2 := Nat.and_le_right
  have hD : swarD (swarC (swarB (swarA n))) ≤ PAR3 := Nat.and_le_right
  have hE : swarE (swarD (swarC (swarB (swarA n)))) ≤ PAR4 := Nat.and_le_right
  have c2 : (swarA n &&& PAR1) + ((swarA n >>> 2) &&& PAR1) < 2 ^ 64 := by
    simp only [PAR1] at h2a h2b ⊢; omega
  have c3 : swarB (swarA n) + (swarB (swarA n) >>> 4) < 2 ^ 64 := by
    rw [Nat.shiftRight_eq_div_pow]; simp only [PAR1] at hB; omega
  have c4 : swarC (swarB (swarA n)) + (swarC (swarB (swarA n)) >>> 8) < 2 ^ 64 := by
    rw [Nat.shiftRight_eq_div_pow]; simp only [PAR2] at hC; omega
  have c5 : swarD (swarC (swarB (swarA n))) + (swarD (swarC (swarB (swarA n))) >>> 16) < 2 ^ 64 := by
    rw [Nat.shiftRight_eq_div_pow]; simp only [PAR3] at hD; omega
  have c6 : swarE (swarD (swarC (swarB (swarA n)))) + (swarE (swarD (swarC (swarB (swarA n)))) >>> 32)
      < 2 ^ 64 := by
    rw [Nat.shiftRight_eq_div_pow]; simp only [PAR4] at hE; omega
  unfold averageOnes64C averageOnes64
  simp only [swarA, swarB, swarC, swarD, swarE, swarCount] at h1 c2 c3 c4 c5 c6 ⊢
  simp only [cshr, csub, cadd, Nat.reduceLT, if_true, Option.bind_eq_bind, Option.bind_some, h1, c2, c3,
    c4, c5, c6, Option.pure_def]
  split
  · rename_i hc
    simp only [hc, if_true]
  · rename_i hc
    simp only [hc, if_false, searchC_eq, Option.bind_some]

/-! ### The parallel count is the number of set bits

  A word is read as a sequence of `k` base-`P` digits (`Dig P cap k x`: each digit is at most `cap`,
  nothing above; `dsum P k x`: their sum). Each line of the parallel count halves the number of digits,
  squares the base and keeps the digit sum: `swar_maskadd` (the shape of `b`, and of `a` via
  `swar_split1`), `swar_addmask` (the shape of `c`, `d`, `e`, `count`). -/

/-- The mask with the low `w` bits of each of `k` fields of width `2w` set:
    `PAR[i] = evenMask (2^i) (32 / 2^i)`. -/
def evenMask (w : Nat) : Nat → Nat
  | 0 => 0
  | k + 1 => (2 ^ w - 1) + 2 ^ (2 * w) * evenMask w k

theorem par_eq : PAR0 = evenMask 1 32 ∧ PAR1 = evenMask 2 16 ∧ PAR2 = evenMask 4 8 ∧
    PAR3 = evenMask 8 4 ∧ PAR4 = evenMask 16 2 ∧ PAR5 = evenMask 32 1 := by decide +kernel

/-- `&` acts separately below and above bit `s`. -/
theorem and_split {s a m : Nat} (q M : Nat) (ha : a < 2 ^ s) (hm : m < 2 ^ s) :
    (a + 2 ^ s * q) &&& (m + 2 ^ s * M) = (a &&& m) + 2 ^ s * (q &&& M) := by
  apply Nat.eq_of_testBit_eq
  intro j
  have ham : a &&& m < 2 ^ s := Nat.lt_of_le_of_lt Nat.and_le_left ha
  rw [Nat.testBit_and, Nat.add_comm a, Nat.add_comm m, Nat.add_comm (a &&& m),
    Nat.testBit_two_pow_mul_add _ ha, Nat.testBit_two_pow_mul_add _ hm,
    Nat.testBit_two_pow_mul_add _ ham]
  by_cases hj : j < s <;> simp [hj, Nat.testBit_and]

theorem and_evenMask_succ (w k x : Nat) :
    x &&& evenMask w (k + 1) = x % 2 ^ w + 2 ^ (2 * w) * ((x / 2 ^ (2 * w)) &&& evenMask w k) := by
  have hpos : 0 < 2 ^ w := Nat.two_pow_pos w
  have hle : 2 ^ w ≤ 2 ^ (2 * w) := Nat.pow_le_pow_right (by decide) (by omega)
  have hx : x = x % 2 ^ (2 * w) + 2 ^ (2 * w) * (x / 2 ^ (2 * w)) := (Nat.mod_add_div x _).symm
  have hm : (x % 2 ^ (2 * w)) &&& (2 ^ w - 1) = x % 2 ^ w := by
    rw [Nat.and_two_pow_sub_one_eq_mod, Nat.mod_mod_of_dvd _ (Nat.pow_dvd_pow 2 (by omega))]
  calc x &&& evenMask w (k + 1)
      = (x % 2 ^ (2 * w) + 2 ^ (2 * w) * (x / 2 ^ (2 * w))) &&&
          ((2 ^ w - 1) + 2 ^ (2 * w) * evenMask w k) := by rw [← hx]; rfl
    _ = _ := by
      rw [and_split _ _ (Nat.mod_lt _ (Nat.two_pow_pos _)) (by omega), hm]

/-- `x` consists of `k` base-`P` digits, each at most `cap`. -/
def Dig (P cap : Nat) : Nat → Nat → Prop
  | 0, x => x = 0
  | k + 1, x => x % P ≤ cap ∧ Dig P cap k (x / P)

/-- The sum of the `k` low base-`P` digits. -/
def dsum (P : Nat) : Nat → Nat → Nat
  | 0, _ => 0
  | k + 1, x => x % P + dsum P k (x / P)

theorem Dig.mod_le {P cap k x : Nat} (h : Dig P cap k x) : x % P ≤ cap := by
  cases k with
  | zero =>
    simp only [Dig] at h
    subst h
    simp
  | succ k => exact h.1

/-- Shape of `b = (a & PAR[1]) + ((a >> 2) & PAR[1])`. -/
theorem swar_maskadd {w : Nat} (hw : w = 1 ∨ w = 2) (cap : Nat) (hcap : cap < 2 ^ w) :
    ∀ (k x : Nat), Dig (2 ^ w) cap (2 * k) x →
      Dig (2 ^ (2 * w)) (2 * cap) k ((x &&& evenMask w k) + ((x >>> w) &&& evenMask w k)) ∧
      dsum (2 ^ (2 * w)) k ((x &&& evenMask w k) + ((x >>> w) &&& evenMask w k)) =
        dsum (2 ^ w) (2 * k) x := by
  intro k
  induction k with
  | zero =>
    intro x h
    simp only [Dig] at h
    subst h
    simp [evenMask, Dig, dsum]
  | succ k ih =>
    intro x h
    have e2 : 2 * (k + 1) = (2 * k + 1) + 1 := by omega
    rw [e2] at h ⊢
    simp only [Dig, dsum] at h ⊢
    obtain ⟨ha, hb, hT⟩ := h
    obtain ⟨i1, i2⟩ := ih _ hT
    rw [and_evenMask_succ, and_evenMask_succ, Nat.shiftRight_eq_div_pow]
    rw [Nat.shiftRight_eq_div_pow] at i1 i2
    have q1 : x / 2 ^ (2 * w) = x / 2 ^ w / 2 ^ w := by rcases hw with rfl | rfl <;> omega
    have q2 : x / 2 ^ w / 2 ^ (2 * w) = x / 2 ^ w / 2 ^ w / 2 ^ w := by rcases hw with rfl | rfl <;> omega
    rw [q1, q2]
    generalize (x / 2 ^ w / 2 ^ w) &&& evenMask w k = E at i1 i2 ⊢
    generalize (x / 2 ^ w / 2 ^ w / 2 ^ w) &&& evenMask w k = O at i1 i2 ⊢
    have y1 : (x % 2 ^ w + 2 ^ (2 * w) * E + (x / 2 ^ w % 2 ^ w + 2 ^ (2 * w) * O)) % 2 ^ (2 * w)
        = x % 2 ^ w + x / 2 ^ w % 2 ^ w := by rcases hw with rfl | rfl <;> omega
    have y2 : (x % 2 ^ w + 2 ^ (2 * w) * E + (x / 2 ^ w % 2 ^ w + 2 ^ (2 * w) * O)) / 2 ^ (2 * w)
        = E + O := by rcases hw with rfl | rfl <;> omega
    rw [y1, y2]
    refine ⟨⟨by omega, i1⟩, ?_⟩
    rw [i2]; omega

/-- Shape of `c = (b + (b >> 4)) & PAR[2]` (and of `d`, `e`, `count`). -/
theorem swar_addmask {w : Nat} (hw : w = 4 ∨ w = 8 ∨ w = 16 ∨ w = 32) (cap : Nat)
    (hcap : 2 * cap < 2 ^ w) :
    ∀ (k x : Nat), Dig (2 ^ w) cap (2 * k) x →
      Dig (2 ^ (2 * w)) (2 * cap) k ((x + (x >>> w)) &&& evenMask w k) ∧
      dsum (2 ^ (2 * w)) k ((x + (x >>> w)) &&& evenMask w k) = dsum (2 ^ w) (2 * k) x := by
  intro k
  induction k with
  | zero =>
    intro x h
    simp only [Dig] at h
    subst h
    simp [evenMask, Dig, dsum]
  | succ k ih =>
    intro x h
    have e2 : 2 * (k + 1) = (2 * k + 1) + 1 := by omega
    rw [e2] at h ⊢
    simp only [Dig, dsum] at h ⊢
    obtain ⟨ha, hb, hT⟩ := h
    obtain ⟨i1, i2⟩ := ih _ hT
    have hc := hT.mod_le
    rw [and_evenMask_succ, Nat.shiftRight_eq_div_pow]
    rw [Nat.shiftRight_eq_div_pow] at i1 i2
    have y1 : (x + x / 2 ^ w) % 2 ^ w = x % 2 ^ w + x / 2 ^ w % 2 ^ w := by
      rcases hw with rfl | rfl | rfl | rfl <;> omega
    have y2 : (x + x / 2 ^ w) / 2 ^ (2 * w) = x / 2 ^ w / 2 ^ w + x / 2 ^ w / 2 ^ w / 2 ^ w := by
      rcases hw with rfl | rfl | rfl | rfl <;> omega
    rw [y1, y2]
    generalize (x / 2 ^ w / 2 ^ w + x / 2 ^ w / 2 ^ w / 2 ^ w) &&& evenMask w k = Y at i1 i2 ⊢
    have z1 : (x % 2 ^ w + x / 2 ^ w % 2 ^ w + 2 ^ (2 * w) * Y) % 2 ^ (2 * w)
        = x % 2 ^ w + x / 2 ^ w % 2 ^ w := by rcases hw with rfl | rfl | rfl | rfl <;> omega
    have z2 : (x % 2 ^ w + x / 2 ^ w % 2 ^ w + 2 ^ (2 * w) * Y) / 2 ^ (2 * w) = Y := by
      rcases hw with rfl | rfl | rfl | rfl <;> omega
    rw [z1, z2]
    refine ⟨⟨by omega, i1⟩, ?_⟩
    rw [i2]; omega

/-- `n = (n & PAR[0]) + 2 * ((n >> 1) & PAR[0])`, which turns `a = n - ((n >> 1) & PAR[0])` into
    the shape of `swar_maskadd`. -/
theorem swar_split1 : ∀ (k x : Nat), Dig (2 ^ 1) 1 (2 * k) x →
    x = (x &&& evenMask 1 k) + 2 * ((x >>> 1) &&& evenMask 1 k) := by
  intro k
  induction k with
  | zero =>
    intro x h
    simp only [Dig] at h
    subst h
    simp [evenMask]
  | succ k ih =>
    intro x h
    have e2 : 2 * (k + 1) = (2 * k + 1) + 1 := by omega
    rw [e2] at h
    simp only [Dig] at h
    obtain ⟨ha, hb, hT⟩ := h
    have i1 := ih _ hT
    rw [and_evenMask_succ, and_evenMask_succ, Nat.shiftRight_eq_div_pow]
    rw [Nat.shiftRight_eq_div_pow] at i1
    have q1 : x / 2 ^ (2 * 1) = x / 2 ^ 1 / 2 ^ 1 := by omega
    have q2 : x / 2 ^ 1 / 2 ^ (2 * 1) = x / 2 ^ 1 / 2 ^ 1 / 2 ^ 1 := by omega
    rw [q1, q2]
    generalize (x / 2 ^ 1 / 2 ^ 1) &&& evenMask 1 k = E at i1 ⊢
    generalize (x / 2 ^ 1 / 2 ^ 1 / 2 ^ 1) &&& evenMask 1 k = O at i1 ⊢
    omega

theorem dig_of_lt : ∀ (k x : Nat), x < 2 ^ k → Dig (2 ^ 1) 1 k x := by
  intro k
  induction k with
  | zero => intro x h; simp only [Dig]; omega
  | succ k ih =>
    intro x h
    simp only [Dig]
    refine ⟨by omega, ih _ ?_⟩
    rw [Nat.pow_succ] at h
    omega

theorem dsum_two : ∀ (k x : Nat),
    dsum (2 ^ 1) k x = ((List.range k).filter (fun i => x.testBit i)).length := by
  intro k
  induction k with
  | zero => intro x; rfl
  | succ k ih =>
    intro x
    rw [List.range_succ_eq_map, List.filter_cons, List.filter_map, dsum, ih (x / 2)]
    have hcomp : ((fun i => x.testBit i) ∘ Nat.succ) = fun i => (x / 2).testBit i := by
      funext i
      simp only [Function.comp, Nat.succ_eq_add_one, Nat.testBit_add_one]
    rw [hcomp, Nat.testBit_zero]
    have hp : x % 2 ^ 1 = x % 2 := rfl
    rw [hp]
    rcases Nat.mod_two_eq_zero_or_one x with h | h <;> simp [h] <;> omega

/-- **The parallel bit count counts the set bits.** -/
theorem swarCount_eq {n : Nat} (hn : n < 2 ^ 64) :
    swarCount (swarE (swarD (swarC (swarB (swarA n))))) = (bits n).length := by
  obtain ⟨p0, p1, p2, p3, p4, p5⟩ := par_eq
  have d0 : Dig (2 ^ 1) 1 (2 * 32) n := dig_of_lt 64 n hn
  have hs := swar_split1 32 n d0
  obtain ⟨dA, sA⟩ := swar_maskadd (Or.inl rfl) 1 (by decide) 32 n d0
  have eA : swarA n = (n &&& evenMask 1 32) + ((n >>> 1) &&& evenMask 1 32) := by
    unfold swarA; rw [p0]; omega
  rw [← eA] at dA sA
  obtain ⟨dB, sB⟩ := swar_maskadd (Or.inr rfl) 2 (by decide) 16 (swarA n) dA
  have eB : swarB (swarA n) = (swarA n &&& evenMask 2 16) + ((swarA n >>> 2) &&& evenMask 2 16) := by
    unfold swarB; rw [p1]
  rw [← eB] at dB sB
  obtain ⟨dC, sC⟩ := swar_addmask (Or.inl rfl) 4 (by decide) 8 (swarB (swarA n)) dB
  have eC : swarC (swarB (swarA n)) =
      (swarB (swarA n) + (swarB (swarA n) >>> 4)) &&& evenMask 4 8 := by unfold swarC; rw [p2]
  rw [← eC] at dC sC
  obtain ⟨dD, sD⟩ := swar_addmask (Or.inr (Or.inl rfl)) 8 (by decide) 4 (swarC (swarB (swarA n))) dC
  have eD : swarD (swarC (swarB (swarA n))) =
      (swarC (swarB (swarA n)) + (swarC (swarB (swarA n)) >>> 8)) &&& evenMask 8 4 := by
    unfold swarD; rw [p3]
  rw [← eD] at dD sD
  obtain ⟨dE, sE⟩ := swar_addmask (Or.inr (Or.inr (Or.inl rfl))) 16 (by decide) 2
    (swarD (swarC (swarB (swarA n)))) dD
  have eE : swarE (swarD (swarC (swarB (swarA n)))) =
      (swarD (swarC (swarB (swarA n))) + (swarD (swarC (swarB (swarA n))) >>> 16)) &&& evenMask 16 2 := by
    unfold swarE; rw [p4]
  rw [← eE] at dE sE
  obtain ⟨dF, sF⟩ := swar_addmask (Or.inr (Or.inr (Or.inr rfl))) 32 (by decide) 1
    (swarE (swarD (swarC (swarB (swarA n))))) dE
  have eF : swarCount (swarE (swarD (swarC (swarB (swarA n))))) =
      (swarE (swarD (swarC (swarB (swarA n)))) + (swarE (swarD (swarC (swarB (swarA n)))) >>> 32)) &&&
        evenMask 32 1 := by unfold swarCount; rw [p5]
  rw [← eF] at dF sF
  have hsum : dsum (2 ^ (2 * 32)) 1 (swarCount (swarE (swarD (swarC (swarB (swarA n)))))) =
      dsum (2 ^ 1) (2 * 32) n := by
    rw [sF]; exact sE.trans (sD.trans (sC.trans (sB.trans sA)))
  rw [dsum_two] at hsum
  simp only [Dig, dsum, Nat.reduceMul] at dF hsum
  unfold bits
  omega

/-- **The real `average_ones` meets the contract of `split`.** -/
theorem avgOK_real : AvgOK averageOnes64 := by
  intro w hw
  refine ⟨?_, fun a h => averageOnes64_lt h⟩
  unfold averageOnes64
  simp only
  rw [swarCount_eq hw]
  split <;> simp_all

/-! ### Concrete words (the examples of util.rs and boundary words) -/

example : averageOnes64C 0b10110 = some (some 4) := by decide +kernel
example : averageOnes64C 0b100010 = some (some 5) := by decide +kernel
example : averageOnes64C 0 = some none ∧ averageOnes64C 1 = some none := by decide +kernel
example : averageOnes64C 0x8000000000000000 = some none := by decide +kernel
example : averageOnes64C 0x8000000000000001 = some (some 63) := by decide +kernel
example : averageOnes64C 0xffffffffffffffff = some (some 32) := by decide +kernel
example : averageOnes64C 0xc000000000000000 = some (some 63) := by decide +kernel
example : averageOnes64C 3 = some (some 1) := by decide +kernel

end SpecsModel.HiBitSet
