/-
  Level-A model of /repo/src/join/{mod.rs,lend_join.rs,maybe.rs,bit_and.rs}, of the `Join` /
  `LendJoin` implementations in src/bitset.rs, src/storage/{mod.rs,restrict.rs,drain.rs,entry.rs},
  src/world/entity.rs (`&EntitiesRes`) and src/changeset.rs.

  Level A: a hibitset mask is a *set of indices* (`Mask` = a `BSet` plus a complement flag for the
  "unconstrained" masks `BitSetNot` / `BitSetAll`), and `BitSetLike::iter` enumerates its members in
  ascending order (`Mask.toList`). That hibitset's `BitIter` really computes this enumeration from
  the four-layer representation is Level B (`SpecsModel/Join/HiBitSet.lean`, theorem C06.level_b).

  Borrows: `open` hands every member its own `Value` (`&T::Storage`, `&mut T::Storage`, …). The model
  follows this literally: an opened member (`OMember`) *holds* the store it borrowed; `get` works on
  that value only; dropping the iterator gives the exclusively borrowed stores back (`close`).
  Rust's borrow checker guarantees that the exclusively borrowed stores of one tuple are pairwise
  different and not borrowed by another member (`MutDistinct`, a hypothesis of the write-back
  theorems only).

  Storage-kind internals (VecStorage slots, DenseVec indirection, …) are modelled elsewhere (C04);
  here a store is `mask + values (+ the event channel of FlaggedStorage)`, and the unchecked
  `UnprotectedStorage::get/get_mut/remove` are `Out.ub` when the index is not in the mask.
-/
import SpecsModel.Data.DMap
import SpecsModel.Data.BSet
import SpecsModel.Data.Out
import SpecsModel.Model.Entity
namespace SpecsModel

/-- `a ∖ b` (used for `BitSetAnd(a, BitSetNot(b))`). -/
def BSet.diff (a b : BSet) : BSet :=
  ⟨(Array.range a.bits.size).map (fun i => a.mem i && !b.mem i)⟩

namespace Join

/-- hibitset's index space: `LAYERS = 4` layers of 64-bit words, `MAX_EID = 2^24`. -/
def MAXIDX : Nat := 16777216

/-- Storage kinds (`T::Storage`), plus `cs` for the `DenseVecStorage` inside a `ChangeSet`. -/
inductive Kind where
  | vec | dense | hash | btree | dvec | null | flagged | flaggedd | cs
  deriving DecidableEq, Repr

/-- Capability table (DESIGN §2.5), column `DistinctStorage`: `unsafe impl DistinctStorage for`
    BTreeStorage, HashMapStorage, DenseVecStorage, NullStorage, VecStorage, DefaultVecStorage —
    and *not* for `FlaggedStorage` (its `shared_get_mut` also writes the event channel). -/
def Kind.distinct : Kind → Bool
  | .flagged | .flaggedd => false
  | _ => true

/-- Column `&mut Storage<T>: ParJoin` (`T::Storage: Sync + SharedGetMutStorage<T> + DistinctStorage`);
    `ChangeSet` has no `ParJoin` impl at all. -/
def Kind.parMut : Kind → Bool
  | .cs => false
  | k => k.distinct

/-- `FlaggedStorage::emit_event` (event emission left switched on). -/
def Kind.emits : Kind → Bool
  | .flagged | .flaggedd => true
  | _ => false

/-- `ComponentEvent`. -/
inductive Ev where
  | inserted (i : Nat) | modified (i : Nat) | removed (i : Nat)
  deriving DecidableEq, Repr

/-- `MaskedStorage<T>` seen from the join: mask, values, and (for flagged kinds) the event channel,
    newest event first. -/
structure Store where
  kind : Kind := .vec
  mask : BSet := .empty
  vals : DMap Int := DMap.empty 0
  chan : List Ev := []
  deriving Repr

namespace Store

/-- `UnprotectedStorage::get(id)` — unchecked: UB unless `id` was inserted and not removed. -/
def get (s : Store) (i : Nat) : Out Int :=
  if s.mask.mem i then .ok (s.vals.get i) else .ub "UnprotectedStorage::get of an absent index"

/-- `FlaggedStorage::{get_mut, shared_get_mut}`'s side effect: `single_write(Modified(id))`. -/
def touch (s : Store) (i : Nat) : Store :=
  if s.kind.emits then { s with chan := .modified i :: s.chan } else s

/-- `UnprotectedStorage::get_mut` / `SharedGetMutStorage::shared_get_mut` — unchecked as well. -/
def getMut (s : Store) (i : Nat) : Out (Int × Store) :=
  if s.mask.mem i then .ok (s.vals.get i, s.touch i)
  else .ub "UnprotectedStorage::get_mut of an absent index"

/-- A write through the `&mut T` obtained from `get_mut`. -/
def write (s : Store) (i : Nat) (v : Int) : Store := { s with vals := s.vals.set i v }

/-- `MaskedStorage::remove`: `if self.mask.remove(id) { Some(self.inner.remove(id)) } else { None }`
    (`FlaggedStorage::remove` emits `Removed(id)`). -/
def remove (s : Store) (i : Nat) : Option (Int × Store) :=
  if s.mask.mem i then
    some (s.vals.get i,
      { s with mask := s.mask.remove i,
               chan := if s.kind.emits then .removed i :: s.chan else s.chan })
  else none

end Store

/-- What the joins of one case can see. -/
structure JWorld where
  stores : DMap Store := DMap.empty {}
  /-- raw `BitSet`s -/
  sets : DMap BSet := DMap.empty .empty
  /-- `BitSetOr(&alloc.alive, &alloc.raised)` -/
  ents : BSet := .empty
  /-- generation `<&EntitiesRes as Join>::get` reports for an index
      (`generation(id)`, raised if not yet alive, default `Generation::one()`) -/
  gens : DMap Int := DMap.empty 1

namespace JWorld
def store (w : JWorld) (k : Nat) : Store := w.stores.get k
def setStore (w : JWorld) (k : Nat) (s : Store) : JWorld := { w with stores := w.stores.set k s }
/-- `Storage::get(entity)` for a live entity with index `i`: the direct lookup. -/
def lookup (w : JWorld) (k i : Nat) : Option Int :=
  if (w.store k).mask.mem i then some ((w.store k).vals.get i) else none
end JWorld

/-! ### Masks -/

/-- A `BitSetLike` value at Level A: the set `s`, or its complement when `neg`
    (`BitSetNot`, `BitSetAll` — the masks whose upper layers are all ones). -/
structure Mask where
  neg : Bool
  s : BSet

namespace Mask

/-- `BitSetLike::contains`. -/
def mem (m : Mask) (i : Nat) : Bool := if m.neg then !m.s.mem i else m.s.mem i

/-- `BitSetAll`. -/
def all : Mask := ⟨true, .empty⟩
def ofSet (s : BSet) : Mask := ⟨false, s⟩
/-- `BitSetNot(a)`. -/
def not (a : Mask) : Mask := ⟨!a.neg, a.s⟩
/-- `BitSetAnd(a, b)`. -/
def and (a b : Mask) : Mask :=
  match a.neg, b.neg with
  | false, false => ⟨false, a.s.inter b.s⟩
  | false, true => ⟨false, a.s.diff b.s⟩
  | true, false => ⟨false, b.s.diff a.s⟩
  | true, true => ⟨true, a.s.union b.s⟩
/-- `BitSetOr(a, b)`. -/
def or (a b : Mask) : Mask :=
  match a.neg, b.neg with
  | false, false => ⟨false, a.s.union b.s⟩
  | false, true => ⟨true, b.s.diff a.s⟩
  | true, false => ⟨true, a.s.diff b.s⟩
  | true, true => ⟨true, a.s.inter b.s⟩
/-- `BitSetXor(a, b)`, defined by hibitset as `BitSetAnd(BitSetOr(a, b), BitSetNot(BitSetAnd(a, b)))`. -/
def xor (a b : Mask) : Mask := (a.or b).and (a.and b).not

/-- `BitSetLike::iter()` collected: the members in ascending order; a complemented mask ranges
    over the whole index space `bound` (hibitset: `MAXIDX`). -/
def toList (bound : Nat) (m : Mask) : List Nat :=
  if m.neg then (List.range bound).filter (fun i => !m.s.mem i) else m.s.toList

end Mask

/-- Bit-set expressions that implement `Join` (src/bitset.rs `define_bit_join!`). -/
inductive BExpr where
  | set (b : Nat)            -- `&BitSet`
  | maskOf (k : Nat)         -- `storage.mask()`
  | and (x y : BExpr)
  | or (x y : BExpr)
  | xor (x y : BExpr)
  | not (x : BExpr)
  deriving Repr

def BExpr.mask (w : JWorld) : BExpr → Mask
  | .set b => .ofSet (w.sets.get b)
  | .maskOf k => .ofSet (w.store k).mask
  | .and x y => (x.mask w).and (y.mask w)
  | .or x y => (x.mask w).or (y.mask w)
  | .xor x y => (x.mask w).xor (y.mask w)
  | .not x => (x.mask w).not

/-! ### Members of a join tuple -/

inductive Member where
  | storage (k : Nat)        -- `&Storage` (also `&ChangeSet`)
  | storageMut (k : Nat)     -- `&mut Storage` (also `&mut ChangeSet`)
  | anti (k : Nat)           -- `!&Storage` = `AntiStorage(&mask)`
  | maybe (m : Member)       -- `m.maybe()` = `MaybeJoin(m)`
  | entities                 -- `&EntitiesRes`
  | bits (e : BExpr)
  | restricted (k : Nat)     -- `&RestrictedStorage`
  | restrictedMut (k : Nat)  -- `&mut RestrictedStorage`
  | drain (k : Nat)          -- `Drain`
  | entries (k : Nat)        -- `Entries` (LendJoin only)
  | consume (k : Nat)        -- `ChangeSet` by value
  deriving Repr

/-- The `Mask` half of `open`. -/
def Member.mask (w : JWorld) : Member → Mask
  | .storage k | .storageMut k | .restricted k | .restrictedMut k => .ofSet (w.store k).mask
  | .drain k | .consume k => .ofSet (w.store k).mask      -- `mask.clone()` / moved mask
  | .anti k => (Mask.ofSet (w.store k).mask).not            -- `BitSetNot(self.0)`
  | .maybe _ => .all                                        -- `BitSetAll`
  | .entries _ => .all                                      -- `BitSetAll`
  | .entities => .ofSet w.ents
  | .bits e => e.mask w

/-- `is_unconstrained()`. -/
def Member.unconstrained : Member → Bool
  | .maybe _ | .entries _ => true
  | _ => false

/-- The `Value` half of `open`: what the member borrowed. -/
inductive OMember where
  | shared (st : Store)               -- `&T::Storage` (`&Storage`, `&RestrictedStorage`)
  | excl (k : Nat) (st : Store)       -- `&mut T::Storage` / `SharedGetMutOnly`
  | exclR (k : Nat) (st : Store)      -- `SharedGetOnly` of `&mut RestrictedStorage`
  | unit                              -- `()` of `AntiStorage`
  | idx                               -- `()` of the bit sets
  | ents (gens : DMap Int)            -- `&EntitiesRes`
  | maybe (mask : Mask) (inner : OMember)   -- `(T::Mask, T::Value)`
  | drain (k : Nat) (st : Store)      -- `&mut MaskedStorage`
  | entries (k : Nat) (st : Store)    -- `&mut Storage`
  | consume (k : Nat) (st : Store)    -- `DenseVecStorage` moved out of the change set

def Member.open (w : JWorld) : Member → OMember
  | .storage k | .restricted k => .shared (w.store k)
  | .storageMut k => .excl k (w.store k)
  | .restrictedMut k => .exclR k (w.store k)
  | .anti _ => .unit
  | .maybe m => .maybe (m.mask w) (m.open w)
  | .entities => .ents w.gens
  | .bits _ => .idx
  | .drain k => .drain k (w.store k)
  | .entries k => .entries k (w.store k)
  | .consume k => .consume k (w.store k)

/-- One component of a join item. -/
inductive Item where
  | val (v : Int)            -- `&T`, `PairedStorageRead`, or an owned `T`
  | mref (v : Int)           -- `&mut T` / `PairedStorageWrite*` (current value `v`); the position in
                             --   the tuple says which member's store it points into
  | unit
  | ent (i : Nat) (g : Int)
  | idx (i : Nat)
  | opt (o : Option Item)    -- `MaybeJoin`
  | occ (v : Int)            -- `StorageEntry::Occupied`
  | vac                      -- `StorageEntry::Vacant`
  deriving Repr

/-- `Join::get(&mut value, id)` / `LendJoin::get` of each member kind. -/
def OMember.get : OMember → Nat → Out (Item × OMember)
  | .shared st, i =>
    match st.get i with
    | .ok v => .ok (.val v, .shared st)
    | .panic s => .panic s
    | .ub s => .ub s
  | .excl k st, i =>
    match st.getMut i with
    | .ok (v, st') => .ok (.mref v, .excl k st')
    | .panic s => .panic s
    | .ub s => .ub s
  | .exclR k st, i =>
    -- `PairedStorageWriteShared { index, storage }`; reading it is `storage.get(index)`
    match st.get i with
    | .ok v => .ok (.mref v, .exclR k st)
    | .panic s => .panic s
    | .ub s => .ub s
  | .unit, _ => .ok (.unit, .unit)
  | .idx, i => .ok (.idx i, .idx)
  | .ents g, i => .ok (.ent i (g.get i), .ents g)
  | .maybe mask inner, i =>
    if mask.mem i then
      match inner.get i with
      | .ok (it, inner') => .ok (.opt (some it), .maybe mask inner')
      | .panic s => .panic s
      | .ub s => .ub s
    else .ok (.opt none, .maybe mask inner)
  | .drain k st, i =>
    match st.remove i with
    | some (v, st') => .ok (.val v, .drain k st')
    | none => .panic "Tried to access same index twice"
  | .entries k st, i =>
    if st.mask.mem i then .ok (.occ (st.vals.get i), .entries k st)
    else .ok (.vac, .entries k st)
  | .consume k st, i =>
    -- `DenseVecStorage::remove(id)`, unchecked
    match st.remove i with
    | some (v, st') => .ok (.val v, .consume k st')
    | none => .ub "ChangeSet: remove of an absent index"

/-- The visitor writes `f k v` through every mutable reference of the item component
    (`f` gets the store id, so different component types may be treated differently). -/
def OMember.visit (f : Nat → Int → Int) (i : Nat) : OMember → Item → OMember
  | .excl k st, .mref v => .excl k (st.write i (f k v))
  | .exclR k st, .mref v => .exclR k ((st.touch i).write i (f k v))    -- `.get_mut()` then write
  | .maybe mask inner, .opt (some it) => .maybe mask (inner.visit f i it)
  | .entries k st, .occ v => .entries k ((st.touch i).write i (f k v)) -- `OccupiedEntry::get_mut`
  | om, _ => om

/-- Tuple `get`: `($($from::get($from, i),)*)`, left to right. -/
def getAll : List OMember → Nat → Out (List Item × List OMember)
  | [], _ => .ok ([], [])
  | om :: oms, i =>
    match om.get i with
    | .ok (it, om') =>
      match getAll oms i with
      | .ok (its, oms') => .ok (it :: its, om' :: oms')
      | .panic s => .panic s
      | .ub s => .ub s
    | .panic s => .panic s
    | .ub s => .ub s

def visitAll (f : Nat → Int → Int) (i : Nat) : List OMember → List Item → List OMember
  | om :: oms, it :: its => om.visit f i it :: visitAll f i oms its
  | oms, _ => oms

/-- `BitAnd::and` of the tuple of masks: the tree built by `tuple_utils::Split`
    (left half = first ⌊n/2⌋ members; a 1-tuple is the mask itself). Structural recursion on a
    fuel ≥ length (so that the kernel can evaluate it). -/
def andTreeAux : Nat → List Mask → Mask
  | _, [] => .all
  | _, [m] => m
  | 0, _ :: _ :: _ => .all
  | fuel + 1, m₁ :: m₂ :: ms =>
    let l := m₁ :: m₂ :: ms
    (andTreeAux fuel (l.take (l.length / 2))).and (andTreeAux fuel (l.drop (l.length / 2)))

def andTree (l : List Mask) : Mask := andTreeAux l.length l

/-- Mask of the whole tuple (`open` of the tuple impl). -/
def tupleMask (w : JWorld) (ms : List Member) : Mask := andTree (ms.map (Member.mask w))

/-- `JoinIter<J>` / `JoinLendIter<J>`: `keys: BitIter<J::Mask>` (remaining keys + the mask it came
    from, which `BitIter::contains` consults), `values: J::Value`. -/
structure JoinIter where
  keys : List Nat
  mask : Mask
  vals : List OMember

/-- `JoinIter::new` / `JoinLendIter::new`. -/
def JoinIter.new (bound : Nat) (w : JWorld) (ms : List Member) : JoinIter :=
  let mk := tupleMask w ms
  { keys := mk.toList bound, mask := mk, vals := ms.map (Member.open w) }

/-- `JoinIter::next` / `JoinLendIter::next`: `self.keys.next().map(|idx| J::get(&mut self.values, idx))`. -/
def JoinIter.next (it : JoinIter) : Option (Out ((Nat × List Item) × JoinIter)) :=
  match it.keys with
  | [] => none
  | i :: rest =>
    some (match getAll it.vals i with
      | .ok (items, vals') => .ok ((i, items), { it with keys := rest, vals := vals' })
      | .panic s => .panic s
      | .ub s => .ub s)

/-- The visitor runs on the item just returned (its references point into `values`). -/
def JoinIter.visit (f : Nat → Int → Int) (it : JoinIter) (i : Nat) (items : List Item) : JoinIter :=
  { it with vals := visitAll f i it.vals items }

/-- `for item in iter { visit(item) }` over a given key sequence
    (also `JoinLendIter::for_each`, and the body of `JoinProducer::fold_with`). -/
def runKeys (f : Nat → Int → Int) : List OMember → List Nat → Out (List (Nat × List Item) × List OMember)
  | vals, [] => .ok ([], vals)
  | vals, i :: rest =>
    match getAll vals i with
    | .ok (items, vals1) =>
      match runKeys f (visitAll f i vals1 items) rest with
      | .ok (out, vals2) => .ok ((i, items) :: out, vals2)
      | .panic s => .panic s
      | .ub s => .ub s
    | .panic s => .panic s
    | .ub s => .ub s

/-- The same loop written with `next` (fuel = number of keys); `run_eq_runKeys` shows they agree. -/
def JoinIter.run (f : Nat → Int → Int) : Nat → JoinIter → Out (List (Nat × List Item) × JoinIter)
  | 0, it => .ok ([], it)
  | n + 1, it =>
    match it.next with
    | none => .ok ([], it)
    | some (.ok ((i, items), it1)) =>
      match JoinIter.run f n (it1.visit f i items) with
      | .ok (out, it2) => .ok ((i, items) :: out, it2)
      | .panic s => .panic s
      | .ub s => .ub s
    | some (.panic s) => .panic s
    | some (.ub s) => .ub s

/-- Dropping the iterator ends the borrows: exclusively borrowed stores go back to the world;
    a consumed change set is gone (the harness installs an empty one). -/
def OMember.close (w : JWorld) : OMember → JWorld
  | .excl k st | .exclR k st | .drain k st | .entries k st => w.setStore k st
  | .consume k st => w.setStore k { kind := st.kind }
  | .maybe _ inner => inner.close w
  | _ => w

def closeAll (w : JWorld) : List OMember → JWorld
  | [] => w
  | om :: oms => closeAll (om.close w) oms

/-- `for item in ms.join() { visit }`, then drop: the items and the world afterwards. -/
def join (bound : Nat) (f : Nat → Int → Int) (w : JWorld) (ms : List Member) :
    Out (List (Nat × List Item) × JWorld) :=
  let it := JoinIter.new bound w ms
  match runKeys f it.vals it.keys with
  | .ok (out, vals) => .ok (out, closeAll w vals)
  | .panic s => .panic s
  | .ub s => .ub s

/-- `.join().take(n)`. -/
def joinTake (bound : Nat) (n : Nat) (f : Nat → Int → Int) (w : JWorld) (ms : List Member) :
    Out (List (Nat × List Item) × JWorld) :=
  let it := JoinIter.new bound w ms
  match runKeys f it.vals (it.keys.take n) with
  | .ok (out, vals) => .ok (out, closeAll w vals)
  | .panic s => .panic s
  | .ub s => .ub s

/-- `JoinLendIter::get(entity, &entities)`:
    `if self.keys.contains(entity.id()) && entities.is_alive(entity) { Some(J::get(..)) } else { None }`. -/
def JoinIter.lendGet (it : JoinIter) (alive : Entity → Bool) (e : Entity) :
    Option (Out (List Item × JoinIter)) :=
  if it.mask.mem e.id && alive e then
    some (match getAll it.vals e.id with
      | .ok (items, vals') => .ok (items, { it with vals := vals' })
      | .panic s => .panic s
      | .ub s => .ub s)
  else none

/-- `JoinLendIter::get_unchecked(index)`: the mask test only. -/
def JoinIter.lendGetUnchecked (it : JoinIter) (i : Nat) : Option (Out (List Item × JoinIter)) :=
  if it.mask.mem i then
    some (match getAll it.vals i with
      | .ok (items, vals') => .ok (items, { it with vals := vals' })
      | .panic s => .panic s
      | .ub s => .ub s)
  else none

end Join
end SpecsModel
