/-
  Helper lemmas for C07: leaves of a split tree partition the keys; closed form of leaf-wise
  execution; schedule independence of the post-state for `DistinctStorage` kinds.
-/
import SpecsModel.Join.ParJoin
import SpecsModel.Join.LemmasFrame
import SpecsModel.Join.LemmasHi
namespace SpecsModel.Join

/-! ### Leaves partition the keys -/

theorem leaves_ok {P : Type} (S : Splitter P) (Inv : P → Prop) (hS : SplitOK S Inv) :
    ∀ (t : SplitTree) (p : P), Inv p →
      ((leaves S t p).map S.keys).flatten.Perm (S.keys p) ∧
      (∀ q ∈ leaves S t p, (S.keys q).Sublist (S.keys p) ∧ Inv q) := by
  intro t
  induction t with
  | leaf =>
    intro p hp
    refine ⟨by simp [leaves], ?_⟩
    intro q hq
    simp only [leaves, List.mem_singleton] at hq
    subst hq
    exact ⟨List.Sublist.refl _, hp⟩
  | node l r ihl ihr =>
    intro p hp
    have h := hS p hp
    simp only [leaves]
    cases hsp : S.split p with
    | mk a ob =>
      rw [hsp] at h
      cases ob with
      | none =>
        simp only at h ⊢
        refine ⟨by simp [h.1], ?_⟩
        intro q hq
        simp only [List.mem_singleton] at hq
        subst hq
        exact ⟨by rw [h.1]; exact List.Sublist.refl _, h.2⟩
      | some b =>
        simp only at h ⊢
        obtain ⟨hperm, hsa, hsb, ia, ib⟩ := h
        obtain ⟨pa, qa⟩ := ihl a ia
        obtain ⟨pb, qb⟩ := ihr b ib
        refine ⟨?_, ?_⟩
        · rw [List.map_append, List.flatten_append]
          exact (pa.append pb).trans hperm
        · intro q hq
          rcases List.mem_append.mp hq with hq | hq
          · exact ⟨(qa q hq).1.trans hsa, (qa q hq).2⟩
          · exact ⟨(qb q hq).1.trans hsb, (qb q hq).2⟩

/-! ### Closed form of leaf-wise execution -/

theorem OMember.ready_advs_notin (f : Nat → Int → Int) (j : Nat) : ∀ (l : List Nat) (om : OMember),
    j ∉ l → (om.advs f l).ready j = om.ready j := by
  intro l
  induction l with
  | nil => intro om _; rfl
  | cons i rest ih =>
    intro om hj
    simp only [List.mem_cons, not_or] at hj
    simp only [OMember.advs, List.foldl_cons] at ih ⊢
    rw [ih _ hj.2, OMember.ready_adv_ne f hj.1]

theorem OMember.item_advs_notin (f : Nat → Int → Int) (j : Nat) : ∀ (l : List Nat) (om : OMember),
    j ∉ l → (om.advs f l).item j = om.item j := by
  intro l
  induction l with
  | nil => intro om _; rfl
  | cons i rest ih =>
    intro om hj
    simp only [List.mem_cons, not_or] at hj
    simp only [OMember.advs, List.foldl_cons] at ih ⊢
    rw [ih _ hj.2, OMember.item_adv_ne f hj.1]

theorem OMember.advs_append (f : Nat → Int → Int) (a b : List Nat) (om : OMember) :
    om.advs f (a ++ b) = (om.advs f a).advs f b := by
  simp [OMember.advs, List.foldl_append]

/-- Leaf-wise execution in list order: every leaf delivers the items of its own keys, read from the
    initial values; the final values are those of one pass over all keys. -/
theorem runLeaves_closed (f : Nat → Int → Int) : ∀ (ls : List (List Nat)) (vals : List OMember),
    ls.flatten.Nodup → (∀ om ∈ vals, ∀ i ∈ ls.flatten, om.ready i = true) →
    runLeaves f vals ls =
      .ok (ls.map (fun l => l.map (fun i => (i, vals.map (·.item i)))),
           vals.map (OMember.advs f ls.flatten)) := by
  intro ls
  induction ls with
  | nil =>
    intro vals _ _
    have : OMember.advs f [] = id := funext (fun _ => rfl)
    simp [runLeaves, this]
  | cons l ls ih =>
    intro vals hnd hr
    rw [List.flatten_cons, List.nodup_append] at hnd
    obtain ⟨hl, hls, hdis⟩ := hnd
    have hr1 : ∀ om ∈ vals, ∀ i ∈ l, om.ready i = true := fun om ho i hi =>
      hr om ho i (by rw [List.flatten_cons]; exact List.mem_append_left _ hi)
    rw [runLeaves, runKeys_closed f l vals hl hr1]
    simp only
    have hnot : ∀ j ∈ ls.flatten, j ∉ l := fun j hj hjl => hdis j hjl j hj rfl
    rw [ih (vals.map (OMember.advs f l)) hls (by
      intro om ho j hj
      obtain ⟨o, ho', rfl⟩ := List.mem_map.mp ho
      rw [OMember.ready_advs_notin f j l o (hnot j hj)]
      exact hr o ho' j (by rw [List.flatten_cons]; exact List.mem_append_right _ hj))]
    simp only [List.map_map, List.map_cons, Out.ok.injEq, Prod.mk.injEq, List.cons.injEq, true_and]
    refine ⟨?_, ?_⟩
    · apply List.map_congr_left
      intro l' hl'
      apply List.map_congr_left
      intro j hj
      simp only [Prod.mk.injEq, true_and]
      apply List.map_congr_left
      intro om _
      exact OMember.item_advs_notin f j l om (hnot j (List.mem_flatten.mpr ⟨l', hl', hj⟩))
    · apply List.map_congr_left
      intro om _
      simp [List.flatten_cons, OMember.advs_append]

/-! ### Schedule independence -/

/-- Observational equality of stores: same kind, mask, event channel and value at every index. -/
def Store.Obs (s t : Store) : Prop :=
  s.kind = t.kind ∧ s.mask = t.mask ∧ s.chan = t.chan ∧ ∀ j, s.vals.get j = t.vals.get j

theorem Store.Obs.refl (s : Store) : Store.Obs s s := ⟨rfl, rfl, rfl, fun _ => rfl⟩

/-- Opened members a parallel join may contain: no drain / entries / consumed change set, and every
    exclusively borrowed store has a kind without event channel side effect. -/
def OMember.par : OMember → Bool
  | .excl _ st | .exclR _ st => !st.kind.emits
  | .maybe _ inner => inner.par
  | .drain _ _ | .entries _ _ | .consume _ _ => false
  | _ => true

theorem Kind.parMut_quiet {k : Kind} (h : k.parMut = true) : k.emits = false := by
  cases k <;> simp_all [Kind.parMut, Kind.distinct, Kind.emits]

theorem Member.par_open (w : JWorld) : ∀ m : Member, m.parOK w = true → (m.open w).par = true := by
  intro m
  induction m with
  | maybe m ih => intro h; exact ih h
  | storageMut k => intro h; simp [Member.open, OMember.par, Kind.parMut_quiet h]
  | restrictedMut k => intro h; simp [Member.open, OMember.par, Kind.parMut_quiet h]
  | _ => intro h; first | rfl | cases h

theorem foldl_bump_obs (g : Int → Int) (st : Store) (hq : st.kind.emits = false) {ks ks' : List Nat}
    (hp : ks.Perm ks') (hnd : ks.Nodup) :
    Store.Obs (ks.foldl (Store.bump g) st) (ks'.foldl (Store.bump g) st) := by
  have hnd' : ks'.Nodup := hp.nodup_iff.mp hnd
  refine ⟨?_, ?_, ?_, ?_⟩
  · rw [(foldl_bump_mask g ks st).2, (foldl_bump_mask g ks' st).2]
  · rw [(foldl_bump_mask g ks st).1, (foldl_bump_mask g ks' st).1]
  · rw [foldl_bump_chan_quiet g ks st hq, foldl_bump_chan_quiet g ks' st hq]
  · intro j
    rw [foldl_bump_vals g ks st hnd j, foldl_bump_vals g ks' st hnd' j]
    simp only [hp.mem_iff]

/-- For a par-admissible member, what it gives back does not depend on the order of the visits. -/
theorem OMember.back_advs_perm (f : Nat → Int → Int) : ∀ (om : OMember) (ks ks' : List Nat),
    om.par = true → ks.Perm ks' → ks.Nodup →
    match (om.advs f ks).back, (om.advs f ks').back with
    | some s, some t => Store.Obs s t
    | none, none => True
    | _, _ => False := by
  intro om
  induction om with
  | excl k st =>
    intro ks ks' hpar hp hnd
    simp only [OMember.par, Bool.not_eq_true'] at hpar
    rw [advs_excl, advs_excl]
    exact foldl_bump_obs (f k) st hpar hp hnd
  | exclR k st =>
    intro ks ks' hpar hp hnd
    simp only [OMember.par, Bool.not_eq_true'] at hpar
    rw [advs_exclR, advs_exclR]
    exact foldl_bump_obs (f k) st hpar hp hnd
  | maybe mk inner ih =>
    intro ks ks' hpar hp hnd
    rw [advs_maybe, advs_maybe]
    exact ih _ _ hpar (hp.filter _) (hnd.sublist List.filter_sublist)
  | drain k st => intro ks ks' hpar; cases hpar
  | entries k st => intro ks ks' hpar; cases hpar
  | consume k st => intro ks ks' hpar; cases hpar
  | «shared» st =>
    intro ks ks' _ _ _
    have : ∀ l, (OMember.shared st).advs f l = .shared st := by
      intro l; induction l with
      | nil => rfl
      | cons i r ih => simp only [OMember.advs, List.foldl_cons] at ih ⊢; exact ih
    rw [this, this]; trivial
  | unit =>
    intro ks ks' _ _ _
    have : ∀ l, (OMember.unit).advs f l = .unit := by
      intro l; induction l with
      | nil => rfl
      | cons i r ih => simp only [OMember.advs, List.foldl_cons] at ih ⊢; exact ih
    rw [this, this]; trivial
  | idx =>
    intro ks ks' _ _ _
    have : ∀ l, (OMember.idx).advs f l = .idx := by
      intro l; induction l with
      | nil => rfl
      | cons i r ih => simp only [OMember.advs, List.foldl_cons] at ih ⊢; exact ih
    rw [this, this]; trivial
  | ents g =>
    intro ks ks' _ _ _
    have : ∀ l, (OMember.ents g).advs f l = .ents g := by
      intro l; induction l with
      | nil => rfl
      | cons i r ih => simp only [OMember.advs, List.foldl_cons] at ih ⊢; exact ih
    rw [this, this]; trivial

/-- What `closeAll` leaves in store `k'` depends on the members' keys and give-backs only. -/
theorem closeAll_obs (k' : Nat) (g h : OMember → OMember) : ∀ (vals : List OMember) (w w' : JWorld),
    (∀ om ∈ vals, (g om).key = (h om).key ∧
      match (g om).back, (h om).back with
      | some s, some t => Store.Obs s t
      | none, none => True
      | _, _ => False) →
    Store.Obs (w.store k') (w'.store k') →
    Store.Obs ((closeAll w (vals.map g)).store k') ((closeAll w' (vals.map h)).store k') := by
  intro vals
  induction vals with
  | nil => intro w w' _ hw; exact hw
  | cons x xs ih =>
    intro w w' hall hw
    simp only [List.map_cons, closeAll]
    apply ih _ _ (fun om ho => hall om (List.mem_cons_of_mem _ ho))
    obtain ⟨hk, hb⟩ := hall x List.mem_cons_self
    rw [OMember.close_store, OMember.close_store, ← hk]
    split
    · cases hx : (g x).back <;> cases hy : (h x).back <;> simp_all
    · exact hw

end SpecsModel.Join
