/-
  Model of /repo/src/join/par_join.rs: `ParJoin`, `JoinParIter::drive_unindexed`, `JoinProducer`.

  rayon is a parameter: `bridge_unindexed` calls `split` / `fold_with` according to *some* finite
  binary tree (`SplitTree`; a node whose `split` returns `(p, None)` is folded as a leaf) and runs
  the leaves in *some* order, possibly interleaved (`sched`: any sequence of the keys).

  Level A takes the key producer as a parameter (`Splitter`) with the contract `SplitOK`;
  Level B instantiates it with the model of `hibitset::BitProducer` (`hiSplitter`).
-/
import SpecsModel.Join.Model
import SpecsModel.Join.HiBitSet
namespace SpecsModel.Join

/-- The key half of a `JoinProducer`: `keys: BitProducer<J::Mask>`. -/
structure Splitter (P : Type) where
  /-- what `fold_with` iterates: the producer's `BitIter` drained -/
  keys : P → List Nat
  /-- `UnindexedProducer::split` -/
  split : P → P × Option P

/-- Contract of a key splitter, relative to an invariant of reachable producers: `None` keeps the
    keys; `Some` partitions them into the two halves, each half keeping the order. -/
def SplitOK {P : Type} (S : Splitter P) (Inv : P → Prop) : Prop :=
  ∀ p, Inv p →
    match S.split p with
    | (a, none) => S.keys a = S.keys p ∧ Inv a
    | (a, some b) =>
      (S.keys a ++ S.keys b).Perm (S.keys p) ∧ (S.keys a).Sublist (S.keys p) ∧
      (S.keys b).Sublist (S.keys p) ∧ Inv a ∧ Inv b

/-- The scheduler's decisions. -/
inductive SplitTree where
  | leaf
  | node (l r : SplitTree)
  deriving Repr

/-- `JoinProducer::split`: split the key producer; both halves get the same `values`
    (`JoinProducer::new(cur, values)`, `other.map(|o| JoinProducer::new(o, values))`) — so only the
    keys are tracked. The producers rayon ends up folding, left to right. -/
def leaves {P : Type} (S : Splitter P) : SplitTree → P → List P
  | .leaf, p => [p]
  | .node l r, p =>
    match S.split p with
    | (a, some b) => leaves S l a ++ leaves S r b
    | (a, none) => [a]

/-- `ParJoin` is implemented for these members only (`&mut` needs `T::Storage: DistinctStorage`). -/
def Member.parOK (w : JWorld) : Member → Bool
  | .storage _ | .anti _ | .entities | .bits _ | .restricted _ => true
  | .storageMut k | .restrictedMut k => (w.store k).kind.parMut
  | .maybe m => m.parOK w
  | .drain _ | .entries _ | .consume _ => false

/-- `JoinProducer::fold_with` on every leaf, one leaf after the other in list order:
    `keys.0.map(|idx| J::get(values, idx))` fed to the consumer (the visitor). -/
def runLeaves (f : Nat → Int → Int) :
    List OMember → List (List Nat) → Out (List (List (Nat × List Item)) × List OMember)
  | vals, [] => .ok ([], vals)
  | vals, l :: ls =>
    match runKeys f vals l with
    | .ok (out, vals1) =>
      match runLeaves f vals1 ls with
      | .ok (outs, vals2) => .ok (out :: outs, vals2)
      | .panic s => .panic s
      | .ub s => .ub s
    | .panic s => .panic s
    | .ub s => .ub s

/-- `par_join().for_each(visit)` under split tree `t`, leaves executed left to right:
    per leaf the delivered items; the world afterwards. `p` is the fresh key producer. -/
def parJoin {P : Type} (f : Nat → Int → Int) (S : Splitter P) (w : JWorld) (ms : List Member)
    (p : P) (t : SplitTree) : Out (List (List (Nat × List Item)) × JWorld) :=
  match runLeaves f (ms.map (Member.open w)) ((leaves S t p).map S.keys) with
  | .ok (outs, vals) => .ok (outs, closeAll w vals)
  | .panic s => .panic s
  | .ub s => .ub s

/-- Any execution order / interleaving of the leaves at item granularity: the visits happen in the
    order `sched`. -/
def parSched (f : Nat → Int → Int) (w : JWorld) (ms : List Member) (sched : List Nat) :
    Out (List (Nat × List Item) × JWorld) :=
  match runKeys f (ms.map (Member.open w)) sched with
  | .ok (out, vals) => .ok (out, closeAll w vals)
  | .panic s => .panic s
  | .ub s => .ub s

/-! ### Level B: the masks of `open` as hierarchical bit sets -/

/-- The bit sets of a world in hibitset's representation. -/
structure LWorld where
  stores : Nat → HiBitSet.Layers
  sets : Nat → HiBitSet.Layers
  ents : HiBitSet.Layers

def BExpr.layers (lw : LWorld) : BExpr → HiBitSet.Layers
  | .set b => lw.sets b
  | .maskOf k => lw.stores k
  | .and x y => (x.layers lw).and (y.layers lw)
  | .or x y => (x.layers lw).or (y.layers lw)
  | .xor x y => (x.layers lw).xor (y.layers lw)
  | .not x => (x.layers lw).not

/-- The `Mask` half of `open`, Level B (`Member.mask` is its Level-A counterpart). -/
def Member.layers (lw : LWorld) : Member → HiBitSet.Layers
  | .storage k | .storageMut k | .restricted k | .restrictedMut k | .drain k | .consume k => lw.stores k
  | .anti k => (lw.stores k).not
  | .maybe _ | .entries _ => .all
  | .entities => lw.ents
  | .bits e => e.layers lw

/-- `BitAnd::and`, Level B: the same `Split` tree of `BitSetAnd`s as `andTreeAux`. -/
def andTreeLAux : Nat → List HiBitSet.Layers → HiBitSet.Layers
  | _, [] => .all
  | _, [m] => m
  | 0, _ :: _ :: _ => .all
  | fuel + 1, m₁ :: m₂ :: ms =>
    let l := m₁ :: m₂ :: ms
    (andTreeLAux fuel (l.take (l.length / 2))).and (andTreeLAux fuel (l.drop (l.length / 2)))

def tupleLayers (lw : LWorld) (ms : List Member) : HiBitSet.Layers :=
  andTreeLAux ms.length (ms.map (Member.layers lw))

/-- Level B: `BitProducer((&keys).iter(), 3)` over the hierarchical representation `L`. -/
def hiSplitter (L : HiBitSet.Layers) (pick : List Nat → Nat) : Splitter HiBitSet.It :=
  { keys := HiBitSet.items L, split := HiBitSet.split L pick 3 }

end SpecsModel.Join
