/-
  Level C, the bit sets: `BitSet::{new, add, add_slow, remove, contains}` (src/lib.rs) and the
  composites `BitSetAnd/Or/Not/Xor/All` (src/ops.rs) of hibitset 0.6.4 with machine-word operations
  and the index arithmetic of src/util.rs (`Row::{row, offset, mask}`), and the proof that they
  refine the list-level operations of HiBitSet.lean along `bits` (`toLayers_add`, `toLayers_remove`,
  `contains_toLayers`, `toLayers_and/or/not/xor/all`).

  As at Level B the `Vec` growth of `BitSet` is not modelled: `layerN(i)` reads a word beyond `len`
  as 0 (`self.layerN.get(i).map(|&x| x).unwrap_or(0)`), so a layer is a total function `Nat → Nat`.
  The `bool` results of `add` / `remove` are not modelled (specs' joins never use them).
-/
import SpecsModel.Join.WordIter
namespace SpecsModel.HiBitSet

/-- `self.layerN[p] = w` -/
def wupd (f : Nat → Nat) (n w : Nat) : Nat → Nat := fun m => if m = n then w else f m

/-- `BitSet::new()`. -/
def WLayers.empty : WLayers := { l3 := 0, l2 := fun _ => 0, l1 := fun _ => 0, l0 := fun _ => 0 }

/-- `BitSet::add`:
    ```
    let (p0, mask) = (id.offset(SHIFT1), id.mask(SHIFT0));
    if self.layer0[p0] & mask != 0 { return true; }
    let old = self.layer0[p0];
    self.layer0[p0] |= mask;
    if old == 0 { self.add_slow(id); }      // layer1[p1] |= id.mask(SHIFT1); layer2[p2] |= …; layer3 |= …
    ```
-/
def WLayers.add (WL : WLayers) (id : Nat) : WLayers :=
  if WL.l0 (offset id 6) &&& rmask id 0 ≠ 0 then WL
  else
    let WL0 : WLayers := { WL with l0 := wupd WL.l0 (offset id 6) (WL.l0 (offset id 6) ||| rmask id 0) }
    if WL.l0 (offset id 6) = 0 then
      { WL0 with l1 := wupd WL.l1 (offset id 12) (WL.l1 (offset id 12) ||| rmask id 6),
                 l2 := wupd WL.l2 (offset id 18) (WL.l2 (offset id 18) ||| rmask id 12),
                 l3 := WL.l3 ||| rmask id 18 }
    else WL0

/-- `BitSet::remove`:
    ```
    let (p0, p1, p2) = offsets(id);
    if self.layer0[p0] & id.mask(SHIFT0) == 0 { return false; }
    self.layer0[p0] &= !id.mask(SHIFT0);  if self.layer0[p0] != 0 { return true; }
    self.layer1[p1] &= !id.mask(SHIFT1);  if self.layer1[p1] != 0 { return true; }
    self.layer2[p2] &= !id.mask(SHIFT2);  if self.layer2[p2] != 0 { return true; }
    self.layer3 &= !id.mask(SHIFT3);
    ```
-/
def WLayers.remove (WL : WLayers) (id : Nat) : WLayers :=
  if WL.l0 (offset id 6) &&& rmask id 0 = 0 then WL
  else
    let w0 := WL.l0 (offset id 6) &&& wnot (rmask id 0)
    let WL0 : WLayers := { WL with l0 := wupd WL.l0 (offset id 6) w0 }
    if w0 ≠ 0 then WL0 else
    let w1 := WL.l1 (offset id 12) &&& wnot (rmask id 6)
    let WL1 : WLayers := { WL0 with l1 := wupd WL.l1 (offset id 12) w1 }
    if w1 ≠ 0 then WL1 else
    let w2 := WL.l2 (offset id 18) &&& wnot (rmask id 12)
    let WL2 : WLayers := { WL1 with l2 := wupd WL.l2 (offset id 18) w2 }
    if w2 ≠ 0 then WL2 else
    { WL2 with l3 := WL.l3 &&& wnot (rmask id 18) }

/-! ### Composites (src/ops.rs) -/

/-- `BitSetAnd(a, b)`: `self.0.layerN(i) & self.1.layerN(i)`. -/
def WLayers.and (a b : WLayers) : WLayers :=
  { l3 := a.l3 &&& b.l3, l2 := fun n => a.l2 n &&& b.l2 n, l1 := fun n => a.l1 n &&& b.l1 n,
    l0 := fun n => a.l0 n &&& b.l0 n }
/-- `BitSetOr(a, b)`. -/
def WLayers.or (a b : WLayers) : WLayers :=
  { l3 := a.l3 ||| b.l3, l2 := fun n => a.l2 n ||| b.l2 n, l1 := fun n => a.l1 n ||| b.l1 n,
    l0 := fun n => a.l0 n ||| b.l0 n }
/-- `BitSetNot(a)`: layers 3..1 are `!0`, layer 0 is `!self.0.layer0(i)`. -/
def WLayers.not (a : WLayers) : WLayers :=
  { l3 := wnot 0, l2 := fun _ => wnot 0, l1 := fun _ => wnot 0, l0 := fun n => wnot (a.l0 n) }
/-- `BitSetAll`: every layer is `usize::MAX`. -/
def WLayers.all : WLayers :=
  { l3 := 2 ^ 64 - 1, l2 := fun _ => 2 ^ 64 - 1, l1 := fun _ => 2 ^ 64 - 1, l0 := fun _ => 2 ^ 64 - 1 }
/-- `BitSetXor(a, b)` = `BitSetAnd(BitSetOr(a, b), BitSetNot(BitSetAnd(a, b)))`. -/
def WLayers.xor (a b : WLayers) : WLayers := (a.or b).and (a.and b).not

/-! ### Refinement -/

theorem bits_wupd (f : Nat → Nat) (n w : Nat) :
    (fun m => bits (wupd f n w m)) = upd (fun m => bits (f m)) n (bits w) := by
  funext m
  unfold wupd upd
  split <;> rfl

theorem wupd_lt {f : Nat → Nat} (hf : ∀ m, f m < 2 ^ 64) (n : Nat) {w : Nat} (hw : w < 2 ^ 64) :
    ∀ m, wupd f n w m < 2 ^ 64 := by
  intro m; unfold wupd; split
  · exact hw
  · exact hf m

theorem toLayers_empty : WLayers.empty.toLayers = Layers.empty := by
  simp [WLayers.empty, WLayers.toLayers, Layers.empty, bits_zero]

theorem ok_empty : WLayers.empty.OK :=
  ⟨Nat.two_pow_pos 64, fun _ => Nat.two_pow_pos 64, fun _ => Nat.two_pow_pos 64,
   fun _ => Nat.two_pow_pos 64⟩

/-- `id.mask(shift)` sets / clears / tests position `id.row(shift)`. -/
theorem bits_or_rmask (w id shift : Nat) : bits (w ||| rmask id shift) = wAdd (row id shift) (bits w) :=
  bits_set w (row_lt id shift)
theorem bits_and_not_rmask (w id shift : Nat) :
    bits (w &&& wnot (rmask id shift)) = wDel (row id shift) (bits w) :=
  bits_clear w (row_lt id shift)
theorem and_rmask_ne_zero (w id shift : Nat) :
    (w &&& rmask id shift ≠ 0) ↔ (bits w).contains (row id shift) = true :=
  and_bit_ne_zero w (row_lt id shift)

/-- **`BitSet::add` at word level is the list-level `add`.** -/
theorem toLayers_add {WL : WLayers} (hL : WL.OK) (id : Nat) :
    (WL.add id).toLayers = WL.toLayers.add id := by
  obtain ⟨r0, r1, r2, r3, o0, o1, o2⟩ := rows_offsets id
  unfold WLayers.add Layers.add
  by_cases hc : WL.l0 (offset id 6) &&& rmask id 0 ≠ 0
  · have hc' : (WL.toLayers.l0 (id / B)).contains (id % B) = true := by
      have := (and_rmask_ne_zero _ id 0).mp hc
      rw [r0, o0] at this; exact this
    rw [if_pos hc, if_pos hc']
  · have hc' : ¬ (WL.toLayers.l0 (id / B)).contains (id % B) = true := by
      intro h
      apply hc
      apply (and_rmask_ne_zero _ id 0).mpr
      rw [r0, o0]; exact h
    rw [if_neg hc, if_neg hc']
    by_cases he : WL.l0 (offset id 6) = 0
    · have he' : WL.toLayers.l0 (id / B) = [] := by
        show bits (WL.l0 (id / B)) = []
        rw [← o0, he]; exact bits_zero
      simp only [he, he', if_true]
      simp only [WLayers.toLayers, bits_wupd, bits_or_rmask, r0, r1, r2, r3, o0, o1, o2, bits_zero]
    · have he' : ¬ WL.toLayers.l0 (id / B) = [] := by
        show ¬ bits (WL.l0 (id / B)) = []
        rw [← o0]
        exact (bits_ne_nil (hL.h0 _)).mpr he
      simp only [he, he', if_false]
      simp only [WLayers.toLayers, bits_wupd, bits_or_rmask, r0, o0]

theorem ok_add {WL : WLayers} (hL : WL.OK) (id : Nat) : (WL.add id).OK := by
  unfold WLayers.add
  split
  · exact hL
  · split
    · exact ⟨Nat.or_lt_two_pow hL.h3 (rmask_lt _ _),
        wupd_lt hL.h2 _ (Nat.or_lt_two_pow (hL.h2 _) (rmask_lt _ _)),
        wupd_lt hL.h1 _ (Nat.or_lt_two_pow (hL.h1 _) (rmask_lt _ _)),
        wupd_lt hL.h0 _ (Nat.or_lt_two_pow (hL.h0 _) (rmask_lt _ _))⟩
    · exact ⟨hL.h3, hL.h2, hL.h1, wupd_lt hL.h0 _ (Nat.or_lt_two_pow (hL.h0 _) (rmask_lt _ _))⟩

theorem ne_zero_iff_bits {w : Nat} (h : w < 2 ^ 64) : w ≠ 0 ↔ bits w ≠ [] := (bits_ne_nil h).symm

/-- **`BitSet::remove` at word level is the list-level `remove`.** -/
theorem toLayers_remove {WL : WLayers} (hL : WL.OK) (id : Nat) :
    (WL.remove id).toLayers = WL.toLayers.remove id := by
  obtain ⟨r0, r1, r2, r3, o0, o1, o2⟩ := rows_offsets id
  unfold WLayers.remove Layers.remove
  by_cases hc : WL.l0 (offset id 6) &&& rmask id 0 = 0
  · have hc' : (!(WL.toLayers.l0 (id / B)).contains (id % B)) = true := by
      cases hx : (WL.toLayers.l0 (id / B)).contains (id % B) with
      | false => rfl
      | true =>
        exfalso
        have := (and_rmask_ne_zero (WL.l0 (offset id 6)) id 0).mpr (by rw [r0, o0]; exact hx)
        exact this hc
    rw [if_pos hc, if_pos hc']
  · have hc' : ¬ (!(WL.toLayers.l0 (id / B)).contains (id % B)) = true := by
      have := (and_rmask_ne_zero _ id 0).mp hc
      rw [r0, o0] at this
      show ¬ (!(bits (WL.l0 (id / B))).contains (id % B)) = true
      rw [this]; simp
    rw [if_neg hc, if_neg hc']
    have lt0 : WL.l0 (offset id 6) &&& wnot (rmask id 0) < 2 ^ 64 := and_lt_left _ (hL.h0 _)
    have lt1 : WL.l1 (offset id 12) &&& wnot (rmask id 6) < 2 ^ 64 := and_lt_left _ (hL.h1 _)
    have lt2 : WL.l2 (offset id 18) &&& wnot (rmask id 12) < 2 ^ 64 := and_lt_left _ (hL.h2 _)
    simp only [ne_zero_iff_bits lt0, ne_zero_iff_bits lt1, ne_zero_iff_bits lt2]
    simp only [bits_and_not_rmask, r0, r1, r2, o0, o1, o2]
    have e0 : WL.toLayers.l0 (id / B) = bits (WL.l0 (id / B)) := rfl
    have e1 : WL.toLayers.l1 (id / (B * B)) = bits (WL.l1 (id / (B * B))) := rfl
    have e2 : WL.toLayers.l2 (id / (B * B * B)) = bits (WL.l2 (id / (B * B * B))) := rfl
    rw [e0, e1, e2]
    split
    · simp only [WLayers.toLayers, bits_wupd, bits_and_not_rmask, r0]
    · split
      · simp only [WLayers.toLayers, bits_wupd, bits_and_not_rmask, r0, r1]
      · split
        · simp only [WLayers.toLayers, bits_wupd, bits_and_not_rmask, r0, r1, r2]
        · simp only [WLayers.toLayers, bits_wupd, bits_and_not_rmask, r0, r1, r2, r3]

theorem ok_remove {WL : WLayers} (hL : WL.OK) (id : Nat) : (WL.remove id).OK := by
  unfold WLayers.remove
  split
  · exact hL
  · simp only
    split
    · exact ⟨hL.h3, hL.h2, hL.h1, wupd_lt hL.h0 _ (and_lt_left _ (hL.h0 _))⟩
    · split
      · exact ⟨hL.h3, hL.h2, wupd_lt hL.h1 _ (and_lt_left _ (hL.h1 _)),
          wupd_lt hL.h0 _ (and_lt_left _ (hL.h0 _))⟩
      · split
        · exact ⟨hL.h3, wupd_lt hL.h2 _ (and_lt_left _ (hL.h2 _)),
            wupd_lt hL.h1 _ (and_lt_left _ (hL.h1 _)), wupd_lt hL.h0 _ (and_lt_left _ (hL.h0 _))⟩
        · exact ⟨and_lt_left _ hL.h3, wupd_lt hL.h2 _ (and_lt_left _ (hL.h2 _)),
            wupd_lt hL.h1 _ (and_lt_left _ (hL.h1 _)), wupd_lt hL.h0 _ (and_lt_left _ (hL.h0 _))⟩

/-! ### Composites -/

theorem toLayers_and (a b : WLayers) : (a.and b).toLayers = a.toLayers.and b.toLayers := by
  simp only [WLayers.and, WLayers.toLayers, Layers.and, bits_and]
theorem toLayers_or (a b : WLayers) : (a.or b).toLayers = a.toLayers.or b.toLayers := by
  simp only [WLayers.or, WLayers.toLayers, Layers.or, bits_or]
theorem toLayers_not (a : WLayers) : a.not.toLayers = a.toLayers.not := by
  have e : wNot (bits 0) = wAll := by rw [← bits_wnot]; exact bits_wnot_zero
  simp only [WLayers.not, WLayers.toLayers, Layers.not, bits_wnot, e]
theorem toLayers_all : WLayers.all.toLayers = Layers.all := by
  have e : bits (2 ^ 64 - 1) = wAll := by rw [← wnot_zero]; exact bits_wnot_zero
  simp only [WLayers.all, WLayers.toLayers, Layers.all, e]
theorem toLayers_xor (a b : WLayers) : (a.xor b).toLayers = a.toLayers.xor b.toLayers := by
  simp only [WLayers.xor, Layers.xor, toLayers_and, toLayers_or, toLayers_not]

theorem ok_and {a : WLayers} (b : WLayers) (ha : a.OK) : (a.and b).OK :=
  ⟨and_lt_left _ ha.h3, fun n => and_lt_left _ (ha.h2 n), fun n => and_lt_left _ (ha.h1 n),
   fun n => and_lt_left _ (ha.h0 n)⟩
theorem ok_or {a b : WLayers} (ha : a.OK) (hb : b.OK) : (a.or b).OK :=
  ⟨Nat.or_lt_two_pow ha.h3 hb.h3, fun n => Nat.or_lt_two_pow (ha.h2 n) (hb.h2 n),
   fun n => Nat.or_lt_two_pow (ha.h1 n) (hb.h1 n), fun n => Nat.or_lt_two_pow (ha.h0 n) (hb.h0 n)⟩
theorem ok_not {a : WLayers} (ha : a.OK) : a.not.OK :=
  ⟨wnot_lt (Nat.two_pow_pos 64), fun _ => wnot_lt (Nat.two_pow_pos 64),
   fun _ => wnot_lt (Nat.two_pow_pos 64), fun n => wnot_lt (ha.h0 n)⟩
theorem ok_all : WLayers.all.OK :=
  have h : 2 ^ 64 - 1 < 2 ^ 64 := by decide
  ⟨h, fun _ => h, fun _ => h, fun _ => h⟩
theorem ok_xor {a b : WLayers} (ha : a.OK) (hb : b.OK) : (a.xor b).OK := ok_and _ (ok_or ha hb)

/-! ### Histories of `add` / `remove` -/

/-- The word-level `BitSet` after a history of `add` (`true`) / `remove` (`false`) calls. -/
def wlayersAfter (ops : List (Bool × Nat)) : WLayers :=
  ops.foldl (fun L o => if o.1 then L.add o.2 else L.remove o.2) WLayers.empty

theorem wlayersAfter_refines (ops : List (Bool × Nat)) :
    (wlayersAfter ops).OK ∧ (wlayersAfter ops).toLayers = Join.layersAfter ops := by
  suffices hs : ∀ (ops : List (Bool × Nat)) (WL : WLayers) (L : Layers), WL.OK → WL.toLayers = L →
      (ops.foldl (fun L o => if o.1 then L.add o.2 else L.remove o.2) WL).OK ∧
      (ops.foldl (fun L o => if o.1 then L.add o.2 else L.remove o.2) WL).toLayers =
        ops.foldl (fun L o => if o.1 then L.add o.2 else L.remove o.2) L from
    hs ops _ _ ok_empty toLayers_empty
  intro ops
  induction ops with
  | nil => intro WL L h e; exact ⟨h, e⟩
  | cons o rest ih =>
    intro WL L h e
    simp only [List.foldl_cons]
    cases ho : o.1
    · simp only [Bool.false_eq_true, if_false]
      exact ih _ _ (ok_remove h _) (by rw [toLayers_remove h, e])
    · simp only [if_true]
      exact ih _ _ (ok_add h _) (by rw [toLayers_add h, e])

/-! ### Concrete words -/

/-- `add` on an empty set sets one bit per layer (`add_slow`); a second `add` in the same layer-0
    word touches layer 0 only; removing both clears all four layers again. -/
example :
    let s := WLayers.empty.add 262143
    (s.l3, s.l2 0, s.l1 63, s.l0 4095) = (1, 0x8000000000000000, 0x8000000000000000, 0x8000000000000000) := by
  decide +kernel
example :
    let s := (WLayers.empty.add 262143).add 262080
    (s.l3, s.l2 0, s.l1 63, s.l0 4095) = (1, 0x8000000000000000, 0x8000000000000000, 0x8000000000000001) := by
  decide +kernel
example :
    let s := (((WLayers.empty.add 262143).add 262080).remove 262143).remove 262080
    (s.l3, s.l2 0, s.l1 63, s.l0 4095) = (0, 0, 0, 0) := by decide +kernel

/-- Observation on hibitset 0.6.4 (outside the index space, hence outside every theorem here and at
    Level B, which require `id < 2^24`): `BitSet::valid_range` tests `MAX_EID < id`, so `add(2^24)`
    does not panic; it sets bit 0 of `layer2[64]` but — `Row::row` being `… & 63` — bit 0 of `layer3`,
    which summarises `layer2[0]`. `contains(2^24)` is then true while no iterator reaches the index. -/
example :
    let s := WLayers.empty.add 16777216
    (s.l3, s.l2 64, s.l2 0, s.contains 16777216) = (1, 1, 0, true) := by decide +kernel

end SpecsModel.HiBitSet
