/-
  Level-B model of hibitset 0.6.4 (src/lib.rs `BitSetLike`, src/iter/mod.rs `BitIter`,
  src/iter/parallel.rs `BitProducer::split`, src/ops.rs composites), 64-bit target (`BITS = 6`).

  Abstraction (the one residual assumption about hibitset, exercised by the correspondence run on
  boundary-straddling masks): a 64-bit word is the ascending list of its set-bit positions.
    `w == 0`                         ↔ `[]`
    `w.trailing_zeros()`             ↔ head
    `w & !(1 << first_bit)`          ↔ tail
    `w & ((1 << b) - 1)`             ↔ `filter (· < b)`     `w & !((1 << b) - 1)` ↔ `filter (b ≤ ·)`
    `prefix | bit`, `idx << BITS`    ↔ `prefix + bit`, `idx * 64`   (prefixes are multiples of 64, bits < 64)
    `a & b`, `a | b`, `!a`           ↔ list intersection, sorted union, complement in `0..64`
  Level C (Word.lean, WordIter.lean, WordSet.lean, WordSplit.lean, WordAvg.lean) proves this table and
  the refinement of the word-level code to the functions below, so the assumption is discharged.
-/
namespace SpecsModel.HiBitSet

/-- `1 << BITS` on a 64-bit target. -/
def B : Nat := 64

/-- A `BitSetLike` value: `layer3()`, `layer2(i)`, `layer1(i)`, `layer0(i)`. -/
structure Layers where
  l3 : List Nat
  l2 : Nat → List Nat
  l1 : Nat → List Nat
  l0 : Nat → List Nat

/-- `BitIter`: `masks[0..4]`, `prefix[0..3]` (the `set` is the `Layers` argument of the functions). -/
structure It where
  m0 : List Nat
  m1 : List Nat
  m2 : List Nat
  m3 : List Nat
  p0 : Nat
  p1 : Nat
  p2 : Nat

/-- `BitSetLike::iter`: `BitIter::new(self, [0, 0, 0, layer3], [0; 3])`. -/
def fresh (L : Layers) : It := { m0 := [], m1 := [], m2 := [], m3 := L.l3, p0 := 0, p1 := 0, p2 := 0 }

/-- Members below layer-1 word `n` (indices `n*64 .. n*64+63`). -/
def sub1 (L : Layers) (n : Nat) : List Nat := (L.l0 n).map (n * B + ·)
/-- Members below layer-2 word `n`. -/
def sub2 (L : Layers) (n : Nat) : List Nat := (L.l1 n).flatMap (fun c => sub1 L (n * B + c))
/-- Members below layer-3 bit `n`. -/
def sub3 (L : Layers) (n : Nat) : List Nat := (L.l2 n).flatMap (fun c => sub2 L (n * B + c))

/-- What the iterator still owes: the pending bits of `masks[0]`, then the sub-trees under the
    pending bits of `masks[1]`, `masks[2]`, `masks[3]`. -/
def items (L : Layers) (s : It) : List Nat :=
  s.m0.map (s.p0 + ·) ++ s.m1.flatMap (fun b => sub1 L (s.p1 + b)) ++
  s.m2.flatMap (fun b => sub2 L (s.p2 + b)) ++ s.m3.flatMap (fun b => sub3 L b)

/-- `BitIter::next`: the `'find` loop over `handle_level(0..4)`. The first non-empty level decides:
    level 0 yields `Value(prefix[0] | bit)`; level `l > 0` loads `masks[l-1]` from the layer below,
    sets `prefix[l-1] = idx << BITS` and `continue 'find`s; all empty = `None`. -/
def next (L : Layers) (s : It) : Option (Nat × It) :=
  match h0 : s.m0 with
  | b :: rest => some (s.p0 + b, { s with m0 := rest })
  | [] =>
    match h1 : s.m1 with
    | b :: rest => next L { s with m1 := rest, m0 := L.l0 (s.p1 + b), p0 := (s.p1 + b) * B }
    | [] =>
      match h2 : s.m2 with
      | b :: rest => next L { s with m2 := rest, m1 := L.l1 (s.p2 + b), p1 := (s.p2 + b) * B }
      | [] =>
        match h3 : s.m3 with
        | b :: rest => next L { s with m3 := rest, m2 := L.l2 b, p2 := b * B }
        | [] => none
termination_by (s.m3.length, s.m2.length, s.m1.length, s.m0.length)
decreasing_by
  all_goals simp_wf
  all_goals simp_all [Prod.lex_def]

/-- Drain the iterator (at most `fuel` items). -/
def collect (L : Layers) : Nat → It → List Nat
  | 0, _ => []
  | n + 1, s =>
    match next L s with
    | none => []
    | some (x, s') => x :: collect L n s'

/-! ### `BitProducer::split` -/

/-- `average_ones(w)`: `None` if `w` has at most one bit set, otherwise `Some` of a bit position.
    Which position is irrelevant for correctness, so it is a parameter (`pick`); the real function
    is `avgReal` below. -/
def averageOnes (pick : List Nat → Nat) (m : List Nat) : Option Nat :=
  if m.length ≤ 1 then none else some (pick m)

/-- The real `average_ones`: the lower part gets ⌈n/2⌉ of the n set bits; the result is the position of
    the first bit of the upper part. -/
def avgReal (m : List Nat) : Nat := m.getD (m.length - m.length / 2) 0

/-- Result of the closure `handle_level` inside `split`: `Some(other)` or `None`. -/
inductive Step where
  | split (self other : It)
  | cont (self : It)

def lo (a : Nat) (m : List Nat) : List Nat := m.filter (· < a)
def hi (a : Nat) (m : List Nat) : List Nat := m.filter (a ≤ ·)

/-- `handle_level(3)` (top level: `level_prefix = 0`). -/
def handle3 (L : Layers) (pick : List Nat → Nat) (s : It) : Step :=
  match s.m3 with
  | [] => .cont s
  | first :: _ =>
    match averageOnes pick s.m3 with
    | some a =>
      .split { s with m3 := lo a s.m3, p2 := first * B }
             { m0 := [], m1 := [], m2 := [], m3 := hi a s.m3, p0 := 0, p1 := 0, p2 := a * B }
    | none => .cont { s with p2 := first * B, m3 := [], m2 := L.l2 first }

/-- `handle_level(2)` (`level_prefix = prefix[2]`). -/
def handle2 (L : Layers) (pick : List Nat → Nat) (s : It) : Step :=
  match s.m2 with
  | [] => .cont s
  | first :: _ =>
    match averageOnes pick s.m2 with
    | some a =>
      .split { s with m2 := lo a s.m2, p1 := (s.p2 + first) * B }
             { m0 := [], m1 := [], m2 := hi a s.m2, m3 := [], p0 := 0, p1 := (s.p2 + a) * B, p2 := s.p2 }
    | none => .cont { s with p1 := (s.p2 + first) * B, m2 := [], m1 := L.l1 (s.p2 + first) }

/-- `handle_level(1)` (`level_prefix = prefix[1]`). -/
def handle1 (L : Layers) (pick : List Nat → Nat) (s : It) : Step :=
  match s.m1 with
  | [] => .cont s
  | first :: _ =>
    match averageOnes pick s.m1 with
    | some a =>
      .split { s with m1 := lo a s.m1, p0 := (s.p1 + first) * B }
             { m0 := [], m1 := hi a s.m1, m2 := [], m3 := [], p0 := (s.p1 + a) * B, p1 := s.p1, p2 := s.p2 }
    | none => .cont { s with p0 := (s.p1 + first) * B, m1 := [], m0 := L.l0 (s.p1 + first) }

/-- `BitProducer::split` with `splits` levels (`JoinParIter` uses 3):
    `h = handle_level(3); for i in 1..splits { h = h.or_else(|| handle_level(3 - i)) }`. -/
def split (L : Layers) (pick : List Nat → Nat) (splits : Nat) (s : It) : It × Option It :=
  match handle3 L pick s with
  | .split a b => (a, some b)
  | .cont s1 =>
    if splits < 2 then (s1, none) else
    match handle2 L pick s1 with
    | .split a b => (a, some b)
    | .cont s2 =>
      if splits < 3 then (s2, none) else
      match handle1 L pick s2 with
      | .split a b => (a, some b)
      | .cont s3 => (s3, none)

/-! ### Composite bit sets (src/ops.rs) and `BitSet::{add, remove, contains}` (src/lib.rs) -/

def wInter (a b : List Nat) : List Nat := a.filter (b.contains ·)
def wNot (a : List Nat) : List Nat := (List.range B).filter (fun i => !a.contains i)
def wUnion (a b : List Nat) : List Nat := (List.range B).filter (fun i => a.contains i || b.contains i)
def wAll : List Nat := List.range B

/-- `BitSetAnd(a, b)`: every layer is the `&` of the operands' layers. -/
def Layers.and (a b : Layers) : Layers :=
  { l3 := wInter a.l3 b.l3, l2 := fun n => wInter (a.l2 n) (b.l2 n),
    l1 := fun n => wInter (a.l1 n) (b.l1 n), l0 := fun n => wInter (a.l0 n) (b.l0 n) }
/-- `BitSetOr(a, b)`. -/
def Layers.or (a b : Layers) : Layers :=
  { l3 := wUnion a.l3 b.l3, l2 := fun n => wUnion (a.l2 n) (b.l2 n),
    l1 := fun n => wUnion (a.l1 n) (b.l1 n), l0 := fun n => wUnion (a.l0 n) (b.l0 n) }
/-- `BitSetNot(a)`: layers 3..1 are `!0`, layer 0 is `!a.layer0(i)`. -/
def Layers.not (a : Layers) : Layers :=
  { l3 := wAll, l2 := fun _ => wAll, l1 := fun _ => wAll, l0 := fun n => wNot (a.l0 n) }
/-- `BitSetAll`. -/
def Layers.all : Layers := { l3 := wAll, l2 := fun _ => wAll, l1 := fun _ => wAll, l0 := fun _ => wAll }
/-- `BitSetXor(a, b)` = `BitSetAnd(BitSetOr(a, b), BitSetNot(BitSetAnd(a, b)))`. -/
def Layers.xor (a b : Layers) : Layers := (a.or b).and (a.and b).not

/-- `BitSetLike::contains` for all of the above reduces to the layer-0 bit. -/
def Layers.contains (L : Layers) (i : Nat) : Bool := (L.l0 (i / B)).contains (i % B)

/-- Ordered insertion of a bit position into a word (`w | (1 << b)`). -/
def wAdd (b : Nat) : List Nat → List Nat
  | [] => [b]
  | x :: xs => if b < x then b :: x :: xs else if b = x then x :: xs else x :: wAdd b xs
/-- `w & !(1 << b)`. -/
def wDel (b : Nat) (w : List Nat) : List Nat := w.filter (· ≠ b)

def upd (f : Nat → List Nat) (n : Nat) (w : List Nat) : Nat → List Nat := fun m => if m = n then w else f m

/-- `BitSet::add` (without the `Vec` growth: a word beyond `len` reads as 0 in `layerN(i)`). -/
def Layers.add (L : Layers) (id : Nat) : Layers :=
  if (L.l0 (id / B)).contains (id % B) then L
  else
    let L0 := { L with l0 := upd L.l0 (id / B) (wAdd (id % B) (L.l0 (id / B))) }
    if L.l0 (id / B) = [] then
      -- `add_slow`
      { L0 with l1 := upd L.l1 (id / (B*B)) (wAdd (id / B % B) (L.l1 (id / (B*B)))),
                l2 := upd L.l2 (id / (B*B*B)) (wAdd (id / (B*B) % B) (L.l2 (id / (B*B*B)))),
                l3 := wAdd (id / (B*B*B) % B) L.l3 }
    else L0

/-- `BitSet::remove`: clear the bit; clear the summary bits upwards while the word became empty. -/
def Layers.remove (L : Layers) (id : Nat) : Layers :=
  if !(L.l0 (id / B)).contains (id % B) then L
  else
    let w0 := wDel (id % B) (L.l0 (id / B))
    let L0 := { L with l0 := upd L.l0 (id / B) w0 }
    if w0 ≠ [] then L0 else
    let w1 := wDel (id / B % B) (L.l1 (id / (B*B)))
    let L1 := { L0 with l1 := upd L.l1 (id / (B*B)) w1 }
    if w1 ≠ [] then L1 else
    let w2 := wDel (id / (B*B) % B) (L.l2 (id / (B*B*B)))
    let L2 := { L1 with l2 := upd L.l2 (id / (B*B*B)) w2 }
    if w2 ≠ [] then L2 else
    { L2 with l3 := wDel (id / (B*B*B) % B) L.l3 }

/-- `BitSet::new()`. -/
def Layers.empty : Layers := { l3 := [], l2 := fun _ => [], l1 := fun _ => [], l0 := fun _ => [] }

end SpecsModel.HiBitSet
