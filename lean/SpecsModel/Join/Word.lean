/-
  Level C of the hibitset model: machine words.

  Level B (HiBitSet.lean) represents a 64-bit word (`usize`) as the ascending list of its set-bit
  positions and lists, as "the one residual assumption about hibitset", a correspondence table
  between the word operations the Rust code performs and list operations. This file removes that
  assumption by proof: a machine word is a `Nat` below `2^64`, the word operations are written as
  hibitset 0.6.4 writes them (`&`, `|`, `!`, `^`, `<<`, `>>`, `trailing_zeros`, `- 1`), and for each
  line of the table there is a theorem `bits (op w …) = listop (bits w) …` under the side conditions
  the code guarantees.

    table line (HiBitSet.lean header)             theorem
    `w == 0` ↔ `[]`                               `bits_eq_nil`
    `w.trailing_zeros()` ↔ head                   `trailingZeros_eq_head` (`trailingZeros_zero`: 64 on 0)
    `w & !(1 << first_bit)` ↔ tail                `bits_clear_first` (any bit: `bits_clear` ↔ `wDel`)
    `w & ((1 << b) - 1)` ↔ `filter (· < b)`       `bits_lowmask`
    `w & !((1 << b) - 1)` ↔ `filter (b ≤ ·)`      `bits_highmask`
    `prefix | bit` ↔ `prefix + bit`               `or_eq_add`
    `idx << BITS` (u32) ↔ `idx * 64`              `shl32_six`
    `a & b`, `a | b`, `!a`, `a ^ b`               `bits_and`, `bits_or`, `bits_wnot`, `bits_xor`
    `w | (1 << b)` ↔ ordered insertion            `bits_set` (↔ `wAdd`)
    `w & (1 << b) != 0` ↔ membership              `and_bit_ne_zero`
    `!0`, `usize::MAX` ↔ `0..64`                  `bits_wnot_zero`
    `Row::row`, `Row::offset`, `Row::mask`        `row_eq`, `offset_eq`, `rmask_eq`, `index_decompose`

  Shift amounts. `x << b` on `usize` is only defined by Rust for `b < 64` (debug builds panic,
  release builds mask the amount); `shl` below is that operation for `b < 64`, and every theorem that
  mentions it carries `b < 64`. In hibitset a shift by 64 cannot occur: `first_bit` is the
  `trailing_zeros` of a word that was just tested to be non-zero (`trailingZeros_lt`), `Row::row`
  is `… & 63` (`row_lt`), and `average_ones` returns `result - 1` with `1 ≤ result ≤ 64`
  (WordAvg.lean, `averageOnes64_lt`). `idx << BITS` is a `u32` shift by 6 (`shl32`): no bits are lost
  because `idx < 2^26` (`shl32_six`; prefixes stay below `2^24`, `WIt.OK` in WordIter.lean).

  Files of Level C: Word.lean (this file: words, the table, index arithmetic), WordIter.lean
  (`BitIter::next`), WordSet.lean (`BitSet::{add, remove, contains}`, composites), WordSplit.lean
  (`BitProducer::split`), WordAvg.lean (`average_ones`), WordPar.lean (splitter contract, tuple masks);
  headline theorems `level_c_*` in Props/C06.lean and Props/C07.lean.

  Still outside the model (as at Level B): the `Vec` growth of `BitSet` (`extend`, `fill_up`; a word
  beyond `len` reads as 0, so a layer is a total function) and the range check `valid_range`; the
  trusted base is the reading of Rust's primitive integer operations as the `Nat` operations below.
-/
import SpecsModel.Join.LemmasHi
import SpecsModel.Join.LemmasHiSet
import SpecsModel.Join.LemmasHiOps
namespace SpecsModel.HiBitSet

/-! ### Words, `bits` and `ofBits` -/

/-- The set-bit positions of the low 64 bits of `w`, ascending. -/
def bits (w : Nat) : List Nat := (List.range 64).filter (fun i => w.testBit i)

/-- The word with exactly the given bits set. -/
def ofBits : List Nat → Nat
  | [] => 0
  | b :: t => 2 ^ b ||| ofBits t

/-- `!x` on `usize`. -/
def wnot (x : Nat) : Nat := x ^^^ (2 ^ 64 - 1)

/-- `x << b` on `usize` (Rust defines it for `b < 64` only; bits shifted out are lost). -/
def shl (x b : Nat) : Nat := (x <<< b) % 2 ^ 64

/-- `x << b` on `u32` (`b < 32`). -/
def shl32 (x b : Nat) : Nat := (x <<< b) % 2 ^ 32

/-- `trailing_zeros` by trial division: the least set position among the low `fuel` bits, `fuel` if
    there is none. -/
def tzAux : Nat → Nat → Nat
  | 0, _ => 0
  | fuel + 1, w => if w % 2 = 1 then 0 else tzAux fuel (w / 2) + 1

/-- `usize::trailing_zeros` (64 on the zero word). -/
def trailingZeros (w : Nat) : Nat := tzAux 64 w

theorem mem_bits (w i : Nat) : i ∈ bits w ↔ i < 64 ∧ w.testBit i = true := by
  simp [bits]

theorem sorted_bits (w : Nat) : (bits w).Pairwise (· < ·) :=
  List.Pairwise.sublist List.filter_sublist List.pairwise_lt_range

/-- `bits w` is a word in the sense of Level B: ascending positions below 64. -/
theorem word_bits (w : Nat) : Word (bits w) :=
  ⟨sorted_bits w, fun b hb => ((mem_bits w b).mp hb).1⟩

theorem testBit_high {w i : Nat} (h : w < 2 ^ 64) (hi : 64 ≤ i) : w.testBit i = false :=
  Nat.testBit_lt_two_pow (Nat.lt_of_lt_of_le h (Nat.pow_le_pow_right (by decide) hi))

theorem testBit_ofBits : ∀ (l : List Nat) (i : Nat), (ofBits l).testBit i = l.contains i := by
  intro l
  induction l with
  | nil => intro i; simp [ofBits]
  | cons b t ih =>
    intro i
    simp only [ofBits, Nat.testBit_or, Nat.testBit_two_pow, ih, List.contains_cons]
    by_cases e : b = i
    · subst e; simp
    · have e' : ¬ i = b := fun h => e h.symm
      simp [e, e']

/-- A sorted list with the members of `bits w` *is* `bits w`. -/
theorem bits_eq_of_mem {w : Nat} {l : List Nat} (hl : l.Pairwise (· < ·))
    (h : ∀ i, i ∈ l ↔ i < 64 ∧ w.testBit i = true) : bits w = l :=
  sorted_ext _ _ (sorted_bits w) hl (fun i => by rw [mem_bits, h])

/-- A word whose bits are those of `w` filtered by `p`. -/
theorem bits_filter {w v : Nat} (p : Nat → Bool)
    (h : ∀ i, i < 64 → v.testBit i = (w.testBit i && p i)) : bits v = (bits w).filter p := by
  unfold bits
  rw [List.filter_filter]
  apply List.filter_congr
  intro i hi
  rw [h i (List.mem_range.mp hi), Bool.and_comm]

/-- Round trip 1: a word below `2^64` is determined by its bit list. -/
theorem ofBits_bits {w : Nat} (h : w < 2 ^ 64) : ofBits (bits w) = w := by
  apply Nat.eq_of_testBit_eq
  intro i
  rw [testBit_ofBits]
  apply bool_eq_of_iff
  rw [contains_iff, mem_bits]
  constructor
  · exact fun h => h.2
  · intro ht
    refine ⟨?_, ht⟩
    apply Decidable.byContradiction
    intro hi
    rw [testBit_high h (by omega)] at ht
    cases ht

/-- Round trip 2: an ascending list of positions below 64 is the bit list of its word. -/
theorem bits_ofBits {l : List Nat} (h : Word l) : bits (ofBits l) = l := by
  apply bits_eq_of_mem h.1
  intro i
  rw [testBit_ofBits, contains_iff]
  exact ⟨fun hi => ⟨h.2 i hi, hi⟩, fun hi => hi.2⟩

theorem ofBits_lt : ∀ {l : List Nat}, (∀ b ∈ l, b < 64) → ofBits l < 2 ^ 64 := by
  intro l
  induction l with
  | nil => intro _; simp [ofBits]
  | cons b t ih =>
    intro h
    simp only [ofBits]
    apply Nat.or_lt_two_pow
    · exact Nat.pow_lt_pow_right (by decide) (h b List.mem_cons_self)
    · exact ih (fun x hx => h x (List.mem_cons_of_mem _ hx))

/-- Words below `2^64` with the same bit list are equal. -/
theorem bits_inj {a b : Nat} (ha : a < 2 ^ 64) (hb : b < 2 ^ 64) (h : bits a = bits b) : a = b := by
  rw [← ofBits_bits ha, ← ofBits_bits hb, h]

/-! ### `w == 0` -/

theorem bits_zero : bits 0 = [] := by
  apply bits_eq_of_mem List.Pairwise.nil
  intro i; simp

/-- Table: `w == 0` ↔ `[]`. -/
theorem bits_eq_nil {w : Nat} (h : w < 2 ^ 64) : bits w = [] ↔ w = 0 := by
  constructor
  · intro e
    have := ofBits_bits h
    rw [e] at this
    exact this.symm
  · rintro rfl; exact bits_zero

theorem bits_ne_nil {w : Nat} (h : w < 2 ^ 64) : bits w ≠ [] ↔ w ≠ 0 :=
  not_congr (bits_eq_nil h)

/-! ### `trailing_zeros` -/

theorem tzAux_spec : ∀ (fuel w : Nat), tzAux fuel w ≤ fuel ∧
    (∀ j, j < tzAux fuel w → w.testBit j = false) ∧
    (tzAux fuel w < fuel → w.testBit (tzAux fuel w) = true) := by
  intro fuel
  induction fuel with
  | zero => intro w; simp [tzAux]
  | succ fuel ih =>
    intro w
    unfold tzAux
    by_cases h : w % 2 = 1
    · simp only [h, if_true]
      refine ⟨Nat.zero_le _, fun j hj => absurd hj (Nat.not_lt_zero _), fun _ => ?_⟩
      rw [Nat.testBit_zero]; simp [h]
    · simp only [h, if_false]
      obtain ⟨h1, h2, h3⟩ := ih (w / 2)
      refine ⟨by omega, ?_, ?_⟩
      · intro j hj
        cases j with
        | zero => rw [Nat.testBit_zero]; simp [h]
        | succ j => rw [Nat.testBit_succ]; exact h2 j (by omega)
      · intro hlt
        rw [Nat.testBit_succ]
        exact h3 (by omega)

theorem trailingZeros_le (w : Nat) : trailingZeros w ≤ 64 := (tzAux_spec 64 w).1

theorem trailingZeros_zero : trailingZeros 0 = 64 := by decide

/-- Table: `w.trailing_zeros()` is the head of the bit list. -/
theorem trailingZeros_eq_head {w b : Nat} {rest : List Nat} (h : bits w = b :: rest) :
    trailingZeros w = b := by
  obtain ⟨h1, h2, h3⟩ := tzAux_spec 64 w
  have hb : b ∈ bits w := by rw [h]; exact List.mem_cons_self
  obtain ⟨hb64, hbt⟩ := (mem_bits w b).mp hb
  have hs := sorted_bits w
  rw [h, List.pairwise_cons] at hs
  have hle : tzAux 64 w ≤ b := by
    apply Decidable.byContradiction
    intro hc
    rw [h2 b (by omega)] at hbt
    cases hbt
  have ht := h3 (by omega)
  have hm : tzAux 64 w ∈ bits w := (mem_bits w _).mpr ⟨by omega, ht⟩
  rw [h] at hm
  unfold trailingZeros
  rcases List.mem_cons.mp hm with e | hm
  · exact e
  · have := hs.1 _ hm; omega

/-- The shift amount in `1 << first_bit` is below 64: the word was tested to be non-zero. -/
theorem trailingZeros_lt {w : Nat} (h : w < 2 ^ 64) (hz : w ≠ 0) : trailingZeros w < 64 := by
  have hne := (bits_ne_nil h).mpr hz
  cases hb : bits w with
  | nil => exact absurd hb hne
  | cons b rest =>
    rw [trailingZeros_eq_head hb]
    exact ((mem_bits w b).mp (by rw [hb]; exact List.mem_cons_self)).1

/-! ### Shifts, masks, complement -/

theorem shl_one {b : Nat} (hb : b < 64) : shl 1 b = 2 ^ b := by
  unfold shl
  rw [Nat.one_shiftLeft]
  exact Nat.mod_eq_of_lt (Nat.pow_lt_pow_right (by decide) hb)

theorem testBit_wnot (x i : Nat) : (wnot x).testBit i = (x.testBit i ^^ decide (i < 64)) := by
  unfold wnot
  rw [Nat.testBit_xor, Nat.testBit_two_pow_sub_one]

theorem wnot_lt {x : Nat} (h : x < 2 ^ 64) : wnot x < 2 ^ 64 :=
  Nat.xor_lt_two_pow h (by decide)

/-- `!x` is `usize::MAX - x`. -/
theorem wnot_eq_sub {x : Nat} (h : x < 2 ^ 64) : wnot x = 2 ^ 64 - 1 - x := by
  apply Nat.eq_of_testBit_eq
  intro i
  have e : 2 ^ 64 - 1 - x = 2 ^ 64 - (x + 1) := by omega
  rw [e, Nat.testBit_two_pow_sub_succ h, testBit_wnot]
  by_cases hi : i < 64
  · simp [hi]
  · simp [hi, testBit_high h (Nat.le_of_not_lt hi)]

theorem and_lt_left {a : Nat} (b : Nat) (h : a < 2 ^ 64) : a &&& b < 2 ^ 64 :=
  Nat.lt_of_le_of_lt Nat.and_le_left h

/-- Table: `a & b` ↔ list intersection. -/
theorem bits_and (a b : Nat) : bits (a &&& b) = wInter (bits a) (bits b) := by
  unfold wInter
  apply bits_filter
  intro i hi
  rw [Nat.testBit_and]
  congr 1
  apply bool_eq_of_iff
  rw [contains_iff, mem_bits]
  exact ⟨fun h => ⟨hi, h⟩, fun h => h.2⟩

/-- Table: `a | b` ↔ sorted union. -/
theorem bits_or (a b : Nat) : bits (a ||| b) = wUnion (bits a) (bits b) := by
  apply bits_eq_of_mem (word_wUnion _ _).1
  intro i
  rw [mem_wUnion, mem_bits, mem_bits, Nat.testBit_or, Bool.or_eq_true]
  simp only [B]
  constructor
  · rintro ⟨hi, h | h⟩
    · exact ⟨hi, Or.inl h.2⟩
    · exact ⟨hi, Or.inr h.2⟩
  · rintro ⟨hi, h | h⟩
    · exact ⟨hi, Or.inl ⟨hi, h⟩⟩
    · exact ⟨hi, Or.inr ⟨hi, h⟩⟩

/-- Table: `!a` ↔ complement in `0..64`. -/
theorem bits_wnot (a : Nat) : bits (wnot a) = wNot (bits a) := by
  apply bits_eq_of_mem (word_wNot _).1
  intro i
  rw [mem_wNot, mem_bits, testBit_wnot]
  simp only [B]
  constructor
  · rintro ⟨hi, hn⟩
    refine ⟨hi, ?_⟩
    cases ht : a.testBit i <;> simp_all
  · rintro ⟨hi, ht⟩
    refine ⟨hi, ?_⟩
    cases ht' : a.testBit i <;> simp_all

/-- `!0` / `usize::MAX` (the layers of `BitSetNot`, `BitSetAll`) ↔ all of `0..64`. -/
theorem bits_wnot_zero : bits (wnot 0) = wAll := by decide +kernel

theorem wnot_zero : wnot 0 = 2 ^ 64 - 1 := by decide +kernel

/-- Symmetric difference of two words at list level, as Level B composes it
    (`(a | b) & !(a & b)`, `Layers.xor`). -/
def wXor (a b : List Nat) : List Nat := wInter (wUnion a b) (wNot (wInter a b))

/-- Table: `a ^ b` ↔ symmetric difference. -/
theorem bits_xor (a b : Nat) : bits (a ^^^ b) = wXor (bits a) (bits b) := by
  have e : bits (a ^^^ b) = bits ((a ||| b) &&& wnot (a &&& b)) := by
    apply bits_eq_of_mem (sorted_bits _)
    intro i
    rw [mem_bits, Nat.testBit_xor, Nat.testBit_and, testBit_wnot, Nat.testBit_or,
      Nat.testBit_and]
    constructor
    · rintro ⟨hi, h⟩
      refine ⟨hi, ?_⟩
      cases ha : a.testBit i <;> cases hb : b.testBit i <;> simp_all
    · rintro ⟨hi, h⟩
      refine ⟨hi, ?_⟩
      cases ha : a.testBit i <;> cases hb : b.testBit i <;> simp_all
  rw [e, bits_and, bits_or, bits_wnot, bits_and]
  rfl

/-- Table: `w & !(1 << b)` ↔ deletion of position `b`. -/
theorem bits_clear (w : Nat) {b : Nat} (hb : b < 64) : bits (w &&& wnot (shl 1 b)) = wDel b (bits w) := by
  unfold wDel
  apply bits_filter
  intro i hi
  rw [Nat.testBit_and, testBit_wnot, shl_one hb, Nat.testBit_two_pow]
  by_cases e : b = i
  · subst e; simp [hi]
  · have e' : ¬ i = b := fun h => e h.symm
    simp [e, e', hi]

/-- Deleting the head of a sorted list is taking its tail. -/
theorem wDel_head {b : Nat} {rest : List Nat} (h : (b :: rest).Pairwise (· < ·)) :
    wDel b (b :: rest) = rest := by
  rw [List.pairwise_cons] at h
  simp only [wDel, List.filter_cons, ne_eq, not_true_eq_false, decide_false, Bool.false_eq_true,
    if_false]
  rw [List.filter_eq_self]
  intro x hx
  have := h.1 x hx
  simp; omega

/-- Table: `masks[level] &= !(1 << first_bit)` with `first_bit = masks[level].trailing_zeros()`
    ↔ tail. -/
theorem bits_clear_first {w b : Nat} {rest : List Nat} (h : bits w = b :: rest) :
    bits (w &&& wnot (shl 1 (trailingZeros w))) = rest := by
  have hb : b < 64 := ((mem_bits w b).mp (by rw [h]; exact List.mem_cons_self)).1
  rw [trailingZeros_eq_head h, bits_clear w hb, h]
  exact wDel_head (h ▸ sorted_bits w)

/-- Table: `w | (1 << b)` ↔ ordered insertion. -/
theorem bits_set (w : Nat) {b : Nat} (hb : b < 64) : bits (w ||| shl 1 b) = wAdd b (bits w) := by
  apply bits_eq_of_mem (sorted_wAdd b _ (sorted_bits w))
  intro i
  rw [mem_wAdd, mem_bits, Nat.testBit_or, shl_one hb, Nat.testBit_two_pow, Bool.or_eq_true,
    decide_eq_true_eq]
  constructor
  · rintro (rfl | h)
    · exact ⟨hb, Or.inr rfl⟩
    · exact ⟨h.1, Or.inl h.2⟩
  · rintro ⟨hi, h | h⟩
    · exact Or.inr ⟨hi, h⟩
    · exact Or.inl h.symm

/-- `w & (1 << b) != 0` ↔ bit `b` is a member (`BitSet::contains`, `add`, `remove`). -/
theorem and_bit_ne_zero (w : Nat) {b : Nat} (hb : b < 64) :
    (w &&& shl 1 b ≠ 0) ↔ (bits w).contains b = true := by
  rw [contains_iff, mem_bits, shl_one hb]
  constructor
  · intro h
    obtain ⟨i, hi⟩ := Nat.exists_testBit_of_ne_zero h
    rw [Nat.testBit_and, Nat.testBit_two_pow, Bool.and_eq_true, decide_eq_true_eq] at hi
    obtain ⟨h1, rfl⟩ := hi
    exact ⟨hb, h1⟩
  · rintro ⟨_, ht⟩ e
    have : (w &&& 2 ^ b).testBit b = true := by
      rw [Nat.testBit_and, Nat.testBit_two_pow, ht]; simp
    rw [e, Nat.zero_testBit] at this
    cases this

theorem shl_one_sub_one {b : Nat} (hb : b < 64) : shl 1 b - 1 = 2 ^ b - 1 := by rw [shl_one hb]

/-- Table: `w & ((1 << b) - 1)` ↔ the positions below `b` (`self.masks[level] &= mask` in `split`). -/
theorem bits_lowmask (w : Nat) {b : Nat} (hb : b < 64) : bits (w &&& (shl 1 b - 1)) = lo b (bits w) := by
  unfold lo
  apply bits_filter
  intro i _
  rw [Nat.testBit_and, shl_one hb, Nat.testBit_two_pow_sub_one]

/-- Table: `w & !((1 << b) - 1)` ↔ the positions from `b` on (`other.masks[level]` in `split`). -/
theorem bits_highmask (w : Nat) {b : Nat} (hb : b < 64) : bits (w &&& wnot (shl 1 b - 1)) = hi b (bits w) := by
  unfold hi
  apply bits_filter
  intro i hi
  rw [Nat.testBit_and, testBit_wnot, shl_one hb, Nat.testBit_two_pow_sub_one]
  by_cases e : i < b
  · have : ¬ b ≤ i := by omega
    simp [e, this, hi]
  · have : b ≤ i := by omega
    simp [e, this, hi]

/-! ### Prefixes: `prefix | bit`, `idx << BITS` -/

/-- Table: `prefix | bit` is `prefix + bit` (prefixes are multiples of 64, bits are below 64). -/
theorem or_eq_add {p b : Nat} (hp : p % 64 = 0) (hb : b < 64) : p ||| b = p + b := by
  have e : p = 2 ^ 6 * (p / 64) := by omega
  rw [e, ← Nat.two_pow_add_eq_or_of_lt (by omega)]

/-- `(i << 6) | b = i * 64 + b`. -/
theorem shl_or_eq (i : Nat) {b : Nat} (hb : b < 64) : (i <<< 6) ||| b = i * 64 + b := by
  rw [← Nat.shiftLeft_add_eq_or_of_lt (by omega), Nat.shiftLeft_eq]

/-- Table: `idx << BITS` on `u32` is `idx * 64`: no bit is lost below `2^26`. -/
theorem shl32_six {x : Nat} (h : x < 2 ^ 26) : shl32 x 6 = x * 64 := by
  unfold shl32
  rw [Nat.shiftLeft_eq]
  exact Nat.mod_eq_of_lt (by omega)

/-! ### Index arithmetic of `util.rs`: `Row::{row, offset, mask}`, `offsets` -/

/-- `Row::row`: `((self >> shift) as usize) & ((1 << BITS) - 1)`. -/
def row (id shift : Nat) : Nat := (id >>> shift) &&& ((1 <<< 6) - 1)
/-- `Row::offset`: `self as usize / (1 << shift)`. -/
def offset (id shift : Nat) : Nat := id / (1 <<< shift)
/-- `Row::mask`: `1usize << self.row(shift)`. -/
def rmask (id shift : Nat) : Nat := shl 1 (row id shift)

theorem shr_six (id : Nat) : id >>> 6 = id / 64 := by rw [Nat.shiftRight_eq_div_pow]
theorem and_63 (id : Nat) : id &&& 63 = id % 64 := Nat.and_two_pow_sub_one_eq_mod id 6

theorem row_eq (id shift : Nat) : row id shift = id / 2 ^ shift % 64 := by
  unfold row
  rw [Nat.shiftRight_eq_div_pow, Nat.one_shiftLeft]
  exact Nat.and_two_pow_sub_one_eq_mod _ 6

theorem row_lt (id shift : Nat) : row id shift < 64 := by
  rw [row_eq]; exact Nat.mod_lt _ (by decide)

theorem offset_eq (id shift : Nat) : offset id shift = id / 2 ^ shift := by
  unfold offset; rw [Nat.one_shiftLeft]

theorem rmask_eq (id shift : Nat) : rmask id shift = 2 ^ (id / 2 ^ shift % 64) := by
  unfold rmask; rw [shl_one (row_lt id shift), row_eq]

theorem rmask_lt (id shift : Nat) : rmask id shift < 2 ^ 64 := by
  unfold rmask; rw [shl_one (row_lt id shift)]
  exact Nat.pow_lt_pow_right (by decide) (row_lt id shift)

/-- The rows and offsets `BitSet::{add, remove, contains}` compute, in the `/`-`%` form of Level B. -/
theorem rows_offsets (id : Nat) :
    row id 0 = id % B ∧ row id 6 = id / B % B ∧ row id 12 = id / (B * B) % B ∧
    row id 18 = id / (B * B * B) % B ∧
    offset id 6 = id / B ∧ offset id 12 = id / (B * B) ∧ offset id 18 = id / (B * B * B) := by
  simp [row_eq, offset_eq, B]

/-- Three-level decomposition of an index below `2^24`: the four rows are its base-64 digits, each
    offset is the index of the word holding the digit one level down. -/
theorem index_decompose {id : Nat} (h : id < 2 ^ 24) :
    id = ((row id 18 * 64 + row id 12) * 64 + row id 6) * 64 + row id 0 ∧
    offset id 18 = row id 18 ∧ offset id 12 = row id 18 * 64 + row id 12 ∧
    offset id 6 = (row id 18 * 64 + row id 12) * 64 + row id 6 := by
  simp only [row_eq, offset_eq]
  refine ⟨by omega, by omega, by omega, by omega⟩

/-- … and back: the index `BitIter` assembles from three prefixes and a bit
    (`((b3 << 6 | b2) << 6 | b1) << 6 | b0`). -/
theorem index_compose {b3 b2 b1 b0 : Nat} (h3 : b3 < 64) (h2 : b2 < 64) (h1 : b1 < 64) (h0 : b0 < 64) :
    let id := ((((b3 <<< 6) ||| b2) <<< 6 ||| b1) <<< 6) ||| b0
    id = ((b3 * 64 + b2) * 64 + b1) * 64 + b0 ∧ id < 2 ^ 24 ∧
    row id 18 = b3 ∧ row id 12 = b2 ∧ row id 6 = b1 ∧ row id 0 = b0 := by
  intro id
  have e : id = ((b3 * 64 + b2) * 64 + b1) * 64 + b0 := by
    simp only [id]
    rw [shl_or_eq _ h2, shl_or_eq _ h1, shl_or_eq _ h0]
  refine ⟨e, ?_⟩
  rw [e]
  simp only [row_eq]
  refine ⟨by omega, by omega, by omega, by omega, by omega⟩

/-! ### Concrete words -/

example : bits 0x8000000000000001 = [0, 63] := by decide +kernel
example : ofBits [0, 63] = 0x8000000000000001 := by decide +kernel
example : trailingZeros 0x8000000000000001 = 0 := by decide +kernel
example : trailingZeros 0x8000000000000000 = 63 := by decide +kernel
example : shl 1 63 = 0x8000000000000000 := by decide +kernel
/-- clearing the lowest bit, at both ends of the word -/
example : 0x8000000000000001 &&& wnot (shl 1 (trailingZeros 0x8000000000000001)) = 0x8000000000000000 := by
  decide +kernel
example : 0x8000000000000000 &&& wnot (shl 1 (trailingZeros 0x8000000000000000)) = 0 := by decide +kernel
/-- splitting masks at 63 and at 1 -/
example : bits (0x8000000000000001 &&& (shl 1 63 - 1)) = [0] ∧
    bits (0x8000000000000001 &&& wnot (shl 1 63 - 1)) = [63] := by decide +kernel
example : bits (0x8000000000000003 &&& (shl 1 1 - 1)) = [0] ∧
    bits (0x8000000000000003 &&& wnot (shl 1 1 - 1)) = [1, 63] := by decide +kernel
example : wnot 0x8000000000000001 = 0x7ffffffffffffffe := by decide +kernel
example : bits (wnot 0x7ffffffffffffffe) = [0, 63] := by decide +kernel
example : bits (0x8000000000000001 ^^^ 0x8000000000000002) = [0, 1] := by decide +kernel
/-- `Row` arithmetic on the last index `2^24 - 1` and on a boundary index -/
example : (row 16777215 18, row 16777215 12, row 16777215 6, row 16777215 0) = (63, 63, 63, 63) := by
  decide +kernel
example : (offset 262144 18, offset 262144 12, offset 262144 6, rmask 262144 18, rmask 262143 12) =
    (1, 64, 4096, 2, 0x8000000000000000) := by decide +kernel
/-- a `u32` shift that *would* lose bits (excluded by `shl32_six`'s hypothesis) -/
example : shl32 (2 ^ 26) 6 = 0 := by decide +kernel

end SpecsModel.HiBitSet
