/-
  Helper lemmas for Level B (C06 (e), C07 Level B): `BitIter::next` pops the head of `items`;
  under well-formedness the fresh iterator owes exactly the ascending members; `BitProducer::split`
  partitions `items` (for producers with at most one non-empty level, which is what a fresh
  iterator and every product of `split` satisfy).
-/
import SpecsModel.Join.HiBitSet
namespace SpecsModel.HiBitSet

/-! ### `next` pops the head of `items` — no invariant needed -/

theorem next_items (L : Layers) (s : It) :
    (match next L s with
     | some (x, s') => items L s = x :: items L s'
     | none => items L s = []) := by
  fun_induction next L s with
  | case1 s b rest h0 => simp [items, h0]
  | case2 s h0 b rest h1 ih =>
    have : items L s = items L { s with m1 := rest, m0 := L.l0 (s.p1 + b), p0 := (s.p1 + b) * B } := by
      simp [items, h0, h1, sub1]
    rw [this]; exact ih
  | case3 s h0 h1 b rest h2 ih =>
    have : items L s = items L { s with m2 := rest, m1 := L.l1 (s.p2 + b), p1 := (s.p2 + b) * B } := by
      simp [items, h0, h1, h2, sub2]
    rw [this]; exact ih
  | case4 s h0 h1 h2 b rest h3 ih =>
    have : items L s = items L { s with m3 := rest, m2 := L.l2 b, p2 := b * B } := by
      simp [items, h0, h1, h2, h3, sub3]
    rw [this]; exact ih
  | case5 s h0 h1 h2 h3 => simp [items, h0, h1, h2, h3]

/-- Draining the iterator yields `items`, in that order. -/
theorem collect_items (L : Layers) : ∀ (n : Nat) (s : It), (items L s).length ≤ n →
    collect L n s = items L s := by
  intro n
  induction n with
  | zero =>
    intro s h
    have : items L s = [] := List.eq_nil_of_length_eq_zero (by omega)
    simp [collect, this]
  | succ n ih =>
    intro s h
    have hn := next_items L s
    unfold collect
    cases hx : next L s with
    | none => rw [hx] at hn; simp only at hn; simp [hn]
    | some r =>
      obtain ⟨x, s'⟩ := r
      rw [hx] at hn; simp only at hn
      rw [hn] at h ⊢
      simp only [List.length_cons] at h
      simp [ih s' (by omega)]

/-! ### Well-formed layers -/

/-- A word: ascending bit positions below 64. -/
def Word (l : List Nat) : Prop := l.Pairwise (· < ·) ∧ ∀ b ∈ l, b < B

/-- Ascending words, and *summary soundness*: inside the index space, a non-empty word has its
    summary bit set in the layer above (true of `BitSet` by `add`/`remove`, of the composites by
    construction — `wf_and`, `wf_or`, `wf_not`, `wf_all` below). -/
structure WF (L : Layers) : Prop where
  w3 : Word L.l3
  w2 : ∀ n, Word (L.l2 n)
  w1 : ∀ n, Word (L.l1 n)
  w0 : ∀ n, Word (L.l0 n)
  s2 : ∀ n, n < B → L.l2 n ≠ [] → n ∈ L.l3
  s1 : ∀ n, n < B * B → L.l1 n ≠ [] → n % B ∈ L.l2 (n / B)
  s0 : ∀ n, n < B * B * B → L.l0 n ≠ [] → n % B ∈ L.l1 (n / B)

theorem mem_sub1 {L : Layers} (h0 : ∀ n, Word (L.l0 n)) (n x : Nat) :
    x ∈ sub1 L n ↔ x / B = n ∧ x % B ∈ L.l0 n := by
  simp only [sub1, List.mem_map]
  constructor
  · rintro ⟨b, hb, rfl⟩
    have := (h0 n).2 b hb
    simp only [B] at *
    have h1 : (n * 64 + b) / 64 = n := by omega
    have h2 : (n * 64 + b) % 64 = b := by omega
    rw [h1, h2]; exact ⟨rfl, hb⟩
  · rintro ⟨rfl, hb⟩
    refine ⟨x % B, hb, ?_⟩
    simp only [B]; omega

theorem mem_sub2 {L : Layers} (h0 : ∀ n, Word (L.l0 n)) (h1 : ∀ n, Word (L.l1 n)) (n x : Nat) :
    x ∈ sub2 L n ↔ x / (B * B) = n ∧ x / B % B ∈ L.l1 n ∧ x % B ∈ L.l0 (x / B) := by
  simp only [sub2, List.mem_flatMap, mem_sub1 h0]
  constructor
  · rintro ⟨c, hc, hx, hb⟩
    have := (h1 n).2 c hc
    simp only [B] at *
    have e1 : x / (64 * 64) = n := by omega
    have e2 : x / 64 % 64 = c := by omega
    rw [e1, e2, hx]; exact ⟨rfl, hc, hb⟩
  · rintro ⟨rfl, hc, hb⟩
    have e : x / (B * B) * B + x / B % B = x / B := by simp only [B]; omega
    refine ⟨x / B % B, hc, e.symm, ?_⟩
    rw [e]; exact hb

theorem mem_sub3 {L : Layers} (h0 : ∀ n, Word (L.l0 n)) (h1 : ∀ n, Word (L.l1 n))
    (h2 : ∀ n, Word (L.l2 n)) (n x : Nat) :
    x ∈ sub3 L n ↔ x / (B * B * B) = n ∧ x / (B * B) % B ∈ L.l2 n ∧ x / B % B ∈ L.l1 (x / (B * B)) ∧
      x % B ∈ L.l0 (x / B) := by
  simp only [sub3, List.mem_flatMap, mem_sub2 h0 h1]
  constructor
  · rintro ⟨c, hc, hx, hb⟩
    have := (h2 n).2 c hc
    simp only [B] at *
    have e1 : x / (64 * 64 * 64) = n := by omega
    have e2 : x / (64 * 64) % 64 = c := by omega
    rw [e1, e2, hx]; exact ⟨rfl, hc, hb⟩
  · rintro ⟨rfl, hc, hb⟩
    have e : x / (B * B * B) * B + x / (B * B) % B = x / (B * B) := by simp only [B]; omega
    refine ⟨x / (B * B) % B, hc, e.symm, ?_⟩
    rw [e]; exact hb

theorem sorted_sub1 {L : Layers} (h0 : ∀ n, Word (L.l0 n)) (n : Nat) :
    (sub1 L n).Pairwise (· < ·) := by
  simp only [sub1, List.pairwise_map]
  exact (h0 n).1.imp (fun h => by omega)

theorem sorted_sub2 {L : Layers} (h0 : ∀ n, Word (L.l0 n)) (h1 : ∀ n, Word (L.l1 n)) (n : Nat) :
    (sub2 L n).Pairwise (· < ·) := by
  simp only [sub2, List.pairwise_flatMap]
  refine ⟨fun c _ => sorted_sub1 h0 _, (h1 n).1.imp ?_⟩
  intro c1 c2 hc x hx y hy
  rw [mem_sub1 h0] at hx hy
  simp only [B] at *
  omega

theorem sorted_sub3 {L : Layers} (h0 : ∀ n, Word (L.l0 n)) (h1 : ∀ n, Word (L.l1 n))
    (h2 : ∀ n, Word (L.l2 n)) (n : Nat) : (sub3 L n).Pairwise (· < ·) := by
  simp only [sub3, List.pairwise_flatMap]
  refine ⟨fun c _ => sorted_sub2 h0 h1 _, (h2 n).1.imp ?_⟩
  intro c1 c2 hc x hx y hy
  rw [mem_sub2 h0 h1] at hx hy
  simp only [B] at *
  omega

theorem items_fresh (L : Layers) : items L (fresh L) = L.l3.flatMap (sub3 L) := by
  simp [items, fresh]

theorem sorted_fresh {L : Layers} (h : WF L) : (items L (fresh L)).Pairwise (· < ·) := by
  rw [items_fresh, List.pairwise_flatMap]
  refine ⟨fun c _ => sorted_sub3 h.w0 h.w1 h.w2 _, h.w3.1.imp ?_⟩
  intro c1 c2 hc x hx y hy
  rw [mem_sub3 h.w0 h.w1 h.w2] at hx hy
  simp only [B] at *
  omega

theorem mem_fresh {L : Layers} (h : WF L) (x : Nat) :
    x ∈ items L (fresh L) ↔ x < B * B * B * B ∧ x % B ∈ L.l0 (x / B) := by
  rw [items_fresh, List.mem_flatMap]
  simp only [mem_sub3 h.w0 h.w1 h.w2]
  constructor
  · rintro ⟨c, hc, rfl, _, _, hb⟩
    have := h.w3.2 _ hc
    refine ⟨?_, hb⟩
    simp only [B] at *; omega
  · rintro ⟨hlt, hb⟩
    have n0 : L.l0 (x / B) ≠ [] := fun e => by rw [e] at hb; cases hb
    have b1 := h.s0 (x / B) (by simp only [B] at *; omega) n0
    have e1 : x / B / B = x / (B * B) := by simp only [B]; omega
    rw [e1] at b1
    have n1 : L.l1 (x / (B * B)) ≠ [] := fun e => by rw [e] at b1; cases b1
    have b2 := h.s1 (x / (B * B)) (by simp only [B] at *; omega) n1
    have e2 : x / (B * B) / B = x / (B * B * B) := by simp only [B]; omega
    rw [e2] at b2
    have n2 : L.l2 (x / (B * B * B)) ≠ [] := fun e => by rw [e] at b2; cases b2
    have b3 := h.s2 (x / (B * B * B)) (by simp only [B] at *; omega) n2
    exact ⟨x / (B * B * B), b3, rfl, b2, b1, hb⟩

/-- Two strictly ascending lists with the same members are equal. -/
theorem sorted_ext : ∀ (l₁ l₂ : List Nat), l₁.Pairwise (· < ·) → l₂.Pairwise (· < ·) →
    (∀ x, x ∈ l₁ ↔ x ∈ l₂) → l₁ = l₂ := by
  intro l₁
  induction l₁ with
  | nil =>
    intro l₂ _ _ h
    cases l₂ with
    | nil => rfl
    | cons y ys => exact absurd ((h y).mpr List.mem_cons_self) (by simp)
  | cons x xs ih =>
    intro l₂ h1 h2 h
    cases l₂ with
    | nil => exact absurd ((h x).mp List.mem_cons_self) (by simp)
    | cons y ys =>
      rw [List.pairwise_cons] at h1 h2
      have hxy : x = y := by
        have hx := (h x).mp List.mem_cons_self
        have hy := (h y).mpr List.mem_cons_self
        rcases List.mem_cons.mp hx with e | hx'
        · exact e
        · rcases List.mem_cons.mp hy with e | hy'
          · exact e.symm
          · have := h1.1 y hy'; have := h2.1 x hx'; omega
      subst hxy
      congr 1
      apply ih ys h1.2 h2.2
      intro z
      constructor
      · intro hz
        rcases List.mem_cons.mp ((h z).mp (List.mem_cons_of_mem _ hz)) with e | h'
        · have := h1.1 z hz; omega
        · exact h'
      · intro hz
        rcases List.mem_cons.mp ((h z).mpr (List.mem_cons_of_mem _ hz)) with e | h'
        · have := h2.1 z hz; omega
        · exact h'

/-- **Level B, enumeration.** On well-formed layers a fresh `BitIter` owes exactly the members
    (`contains`), in ascending order, each once. -/
theorem items_fresh_eq {L : Layers} (h : WF L) :
    items L (fresh L) = (List.range (B * B * B * B)).filter L.contains := by
  apply sorted_ext _ _ (sorted_fresh h)
    (List.Pairwise.sublist List.filter_sublist List.pairwise_lt_range)
  intro x
  rw [mem_fresh h, List.mem_filter, List.mem_range]
  simp [Layers.contains]

/-! ### `split` -/

/-- At most one level of the producer is non-empty. -/
def OneLevel (s : It) : Prop :=
  (s.m3 ≠ [] → s.m2 = [] ∧ s.m1 = [] ∧ s.m0 = []) ∧ (s.m2 ≠ [] → s.m1 = [] ∧ s.m0 = []) ∧
  (s.m1 ≠ [] → s.m0 = [])

def SortedIt (s : It) : Prop :=
  s.m0.Pairwise (· < ·) ∧ s.m1.Pairwise (· < ·) ∧ s.m2.Pairwise (· < ·) ∧ s.m3.Pairwise (· < ·)

/-- The invariant of producers reachable from a fresh iterator by splits. -/
def Good (s : It) : Prop := OneLevel s ∧ SortedIt s

theorem good_fresh {L : Layers} (h : L.l3.Pairwise (· < ·)) : Good (fresh L) := by
  refine ⟨⟨fun _ => ⟨rfl, rfl, rfl⟩, fun h => absurd rfl h, fun h => absurd rfl h⟩, ?_⟩
  exact ⟨List.Pairwise.nil, List.Pairwise.nil, List.Pairwise.nil, h⟩

theorem lo_append_hi (a : Nat) : ∀ m : List Nat, m.Pairwise (· < ·) → lo a m ++ hi a m = m := by
  intro m
  induction m with
  | nil => intro _; rfl
  | cons x t ih =>
    intro h
    rw [List.pairwise_cons] at h
    by_cases hx : x < a
    · have hx' : ¬ a ≤ x := by omega
      simp only [lo, hi, List.filter_cons, hx, hx', decide_true, decide_false, if_true,
        Bool.false_eq_true, if_false, List.cons_append]
      exact congrArg _ (ih h.2)
    · have hall : ∀ y ∈ t, ¬ y < a ∧ a ≤ y := fun y hy => by have := h.1 y hy; omega
      have h1 : lo a (x :: t) = [] := by
        simp only [lo, List.filter_eq_nil_iff, List.mem_cons, decide_eq_true_eq]
        rintro y (rfl | hy)
        · exact hx
        · exact (hall y hy).1
      have h2 : hi a (x :: t) = x :: t := by
        simp only [hi, List.filter_eq_self, List.mem_cons, decide_eq_true_eq]
        rintro y (rfl | hy)
        · omega
        · exact (hall y hy).2
      rw [h1, h2]; rfl

theorem sorted_lo (a : Nat) {m : List Nat} (h : m.Pairwise (· < ·)) : (lo a m).Pairwise (· < ·) :=
  h.sublist List.filter_sublist
theorem sorted_hi (a : Nat) {m : List Nat} (h : m.Pairwise (· < ·)) : (hi a m).Pairwise (· < ·) :=
  h.sublist List.filter_sublist

theorem averageOnes_none {pick : List Nat → Nat} {x : Nat} {t : List Nat}
    (h : averageOnes pick (x :: t) = none) : t = [] := by
  unfold averageOnes at h
  split at h
  · rename_i hl
    simp only [List.length_cons] at hl
    exact List.eq_nil_of_length_eq_zero (by omega)
  · cases h

/-- What a `handle_level` closure guarantees. -/
def StepOK (L : Layers) (s : It) : Step → Prop
  | .split a b => items L a ++ items L b = items L s ∧ Good a ∧ Good b
  | .cont s1 => items L s1 = items L s ∧ Good s1

/-- Ascending words of the layers (part of `WF`). -/
structure SortedL (L : Layers) : Prop where
  w2 : ∀ n, (L.l2 n).Pairwise (· < ·)
  w1 : ∀ n, (L.l1 n).Pairwise (· < ·)
  w0 : ∀ n, (L.l0 n).Pairwise (· < ·)

theorem WF.sortedL {L : Layers} (h : WF L) : SortedL L :=
  ⟨fun n => (h.w2 n).1, fun n => (h.w1 n).1, fun n => (h.w0 n).1⟩

theorem handle3_ok {L : Layers} (hL : SortedL L) (pick : List Nat → Nat) (s : It) (hs : Good s) :
    StepOK L s (handle3 L pick s) ∧
      (∀ s1, handle3 L pick s = .cont s1 → s1.m3 = []) := by
  obtain ⟨⟨o3, o2, o1⟩, s0, s1, s2, s3⟩ := hs
  unfold handle3
  cases h3 : s.m3 with
  | nil => exact ⟨⟨rfl, ⟨o3, o2, o1⟩, s0, s1, s2, s3⟩, fun s1 h => by cases h; exact h3⟩
  | cons first rest =>
    obtain ⟨e2, e1, e0⟩ := o3 (by rw [h3]; simp)
    simp only
    cases ha : averageOnes pick (first :: rest) with
    | some a =>
      refine ⟨⟨?_, ⟨⟨?_, ?_, ?_⟩, ?_⟩, ⟨⟨?_, ?_, ?_⟩, ?_⟩⟩, fun s1 h => by cases h⟩
      · rw [h3] at s3
        simp [items, e2, e1, e0, h3, ← List.flatMap_append, lo_append_hi a _ s3]
      · intro _; exact ⟨e2, e1, e0⟩
      · intro h; exact absurd e2 h
      · intro h; exact absurd e1 h
      · exact ⟨s0, s1, s2, sorted_lo a (h3 ▸ s3)⟩
      · intro _; exact ⟨rfl, rfl, rfl⟩
      · intro h; exact absurd rfl h
      · intro h; exact absurd rfl h
      · exact ⟨List.Pairwise.nil, List.Pairwise.nil, List.Pairwise.nil, sorted_hi a (h3 ▸ s3)⟩
    | none =>
      have hr := averageOnes_none ha
      subst hr
      refine ⟨⟨?_, ⟨⟨?_, ?_, ?_⟩, ?_⟩⟩, fun s1 h => by cases h; rfl⟩
      · simp [items, e2, e1, e0, h3, sub3]
      · intro h; exact absurd rfl h
      · intro _; exact ⟨e1, e0⟩
      · intro h; exact absurd e1 h
      · exact ⟨s0, s1, hL.w2 _, List.Pairwise.nil⟩

theorem handle2_ok {L : Layers} (hL : SortedL L) (pick : List Nat → Nat) (s : It) (hs : Good s)
    (h3 : s.m3 = []) :
    StepOK L s (handle2 L pick s) ∧
      (∀ s1, handle2 L pick s = .cont s1 → s1.m3 = [] ∧ s1.m2 = []) := by
  obtain ⟨⟨o3, o2, o1⟩, s0, s1, s2, s3⟩ := hs
  unfold handle2
  cases h2 : s.m2 with
  | nil => exact ⟨⟨rfl, ⟨o3, o2, o1⟩, s0, s1, s2, s3⟩, fun s1 h => by cases h; exact ⟨h3, h2⟩⟩
  | cons first rest =>
    obtain ⟨e1, e0⟩ := o2 (by rw [h2]; simp)
    simp only
    cases ha : averageOnes pick (first :: rest) with
    | some a =>
      refine ⟨⟨?_, ⟨⟨?_, ?_, ?_⟩, ?_⟩, ⟨⟨?_, ?_, ?_⟩, ?_⟩⟩, fun s1 h => by cases h⟩
      · rw [h2] at s2
        simp [items, h3, e1, e0, h2, ← List.flatMap_append, lo_append_hi a _ s2]
      · intro h; exact absurd h3 h
      · intro _; exact ⟨e1, e0⟩
      · intro h; exact absurd e1 h
      · exact ⟨s0, s1, sorted_lo a (h2 ▸ s2), s3⟩
      · intro h; exact absurd rfl h
      · intro _; exact ⟨rfl, rfl⟩
      · intro h; exact absurd rfl h
      · exact ⟨List.Pairwise.nil, List.Pairwise.nil, sorted_hi a (h2 ▸ s2), List.Pairwise.nil⟩
    | none =>
      have hr := averageOnes_none ha
      subst hr
      refine ⟨⟨?_, ⟨⟨?_, ?_, ?_⟩, ?_⟩⟩, fun s1 h => by cases h; exact ⟨h3, rfl⟩⟩
      · simp [items, h3, e1, e0, h2, sub2]
      · intro h; exact absurd h3 h
      · intro h; exact absurd rfl h
      · intro _; exact e0
      · exact ⟨s0, hL.w1 _, List.Pairwise.nil, s3⟩

theorem handle1_ok {L : Layers} (hL : SortedL L) (pick : List Nat → Nat) (s : It) (hs : Good s)
    (h3 : s.m3 = []) (h2 : s.m2 = []) : StepOK L s (handle1 L pick s) := by
  obtain ⟨⟨o3, o2, o1⟩, s0, s1, s2, s3⟩ := hs
  unfold handle1
  cases h1 : s.m1 with
  | nil => exact ⟨rfl, ⟨o3, o2, o1⟩, s0, s1, s2, s3⟩
  | cons first rest =>
    have e0 := o1 (by rw [h1]; simp)
    simp only
    cases ha : averageOnes pick (first :: rest) with
    | some a =>
      refine ⟨?_, ⟨⟨?_, ?_, ?_⟩, ?_⟩, ⟨⟨?_, ?_, ?_⟩, ?_⟩⟩
      · rw [h1] at s1
        simp [items, h3, h2, e0, h1, ← List.flatMap_append, lo_append_hi a _ s1]
      · intro h; exact absurd h3 h
      · intro h; exact absurd h2 h
      · intro _; exact e0
      · exact ⟨s0, sorted_lo a (h1 ▸ s1), s2, s3⟩
      · intro h; exact absurd rfl h
      · intro h; exact absurd rfl h
      · intro _; rfl
      · exact ⟨List.Pairwise.nil, sorted_hi a (h1 ▸ s1), List.Pairwise.nil, List.Pairwise.nil⟩
    | none =>
      have hr := averageOnes_none ha
      subst hr
      refine ⟨?_, ⟨⟨?_, ?_, ?_⟩, ?_⟩⟩
      · simp [items, h3, h2, e0, h1, sub1]
      · intro h; exact absurd h3 h
      · intro h; exact absurd h2 h
      · intro h; exact absurd rfl h
      · exact ⟨hL.w0 _, List.Pairwise.nil, s2, s3⟩

/-- **Level B, split.** For a producer with at most one non-empty level (fresh iterators and all
    products of `split`), `BitProducer::split` — with any number of split levels and *any*
    `average_ones` — either keeps `items` (`None`) or cuts it into a front and a back part, and
    both parts satisfy the invariant again. -/
theorem split_ok {L : Layers} (hL : SortedL L) (pick : List Nat → Nat) (splits : Nat) (s : It)
    (hs : Good s) :
    (match split L pick splits s with
     | (a, some b) => items L a ++ items L b = items L s ∧ Good a ∧ Good b
     | (a, none) => items L a = items L s ∧ Good a) := by
  obtain ⟨k3, z3⟩ := handle3_ok hL pick s hs
  unfold split
  cases e3 : handle3 L pick s with
  | split a b => rw [e3] at k3; exact k3
  | cont s1 =>
    rw [e3] at k3
    obtain ⟨i1, g1⟩ := k3
    have m3 := z3 s1 e3
    simp only
    by_cases hsp2 : splits < 2
    · simp only [hsp2, if_true]; exact ⟨i1, g1⟩
    · simp only [hsp2, if_false]
      obtain ⟨k2, z2⟩ := handle2_ok hL pick s1 g1 m3
      cases e2 : handle2 L pick s1 with
      | split a b =>
        rw [e2] at k2
        exact ⟨k2.1.trans i1, k2.2⟩
      | cont s2 =>
        rw [e2] at k2
        obtain ⟨i2, g2⟩ := k2
        obtain ⟨n3, n2⟩ := z2 s2 e2
        simp only
        by_cases hsp3 : splits < 3
        · simp only [hsp3, if_true]; exact ⟨i2.trans i1, g2⟩
        · simp only [hsp3, if_false]
          have k1 := handle1_ok hL pick s2 g2 n3 n2
          cases e1 : handle1 L pick s2 with
          | split a b =>
            rw [e1] at k1
            exact ⟨k1.1.trans (i2.trans i1), k1.2⟩
          | cont s3 =>
            rw [e1] at k1
            exact ⟨k1.1.trans (i2.trans i1), k1.2⟩

end SpecsModel.HiBitSet
