/-
  Level C, the producer: `BitProducer::split` of hibitset 0.6.4 (src/iter/parallel.rs) transcribed
  with machine-word operations (`wsplit`, `wsplitHandle`), and the proof that it refines the
  list-level `split` of HiBitSet.lean along `bits` (`wsplit_refines`), for every `average_ones`
  that meets `AvgOK`: `None` exactly on words with at most one set bit, otherwise a position below
  64. That the real `average_ones` of src/util.rs meets `AvgOK` is proved in WordAvg.lean.
-/
import SpecsModel.Join.WordIter
namespace SpecsModel.HiBitSet

/-- Result of the closure `handle_level` inside `split`: `Some(other)` / `None` (and the mutated
    `self`). -/
inductive WStep where
  | split (self other : WIt)
  | cont (self : WIt)

/-- `other.0.prefix[level..].copy_from_slice(&self.0.prefix[level..])` -/
def WIt.copyPfxFrom (o : WIt) (level : Nat) (src : WIt) : WIt :=
  match level with
  | 0 => { o with p0 := src.p0, p1 := src.p1, p2 := src.p2 }
  | 1 => { o with p1 := src.p1, p2 := src.p2 }
  | 2 => { o with p2 := src.p2 }
  | _ => o

/-- `BitIter::new(self.0.set, [0; LAYERS], [0; LAYERS - 1])` -/
def WIt.zero : WIt := { m0 := 0, m1 := 0, m2 := 0, m3 := 0, p0 := 0, p1 := 0, p2 := 0 }

/-- The closure `handle_level` of `BitProducer::split`, line by line (`avg` is `average_ones`). -/
def wsplitHandle (WL : WLayers) (avg : Nat → Option Nat) (s : WIt) (level : Nat) : WStep :=
  if s.mask level = 0 then .cont s   -- Skip the empty layers
  else
    let level_prefix := s.pfx level
    let first_bit := trailingZeros (s.mask level)
    match avg (s.mask level) with
    | some average_bit =>
      let mask := shl 1 average_bit - 1
      let other := WIt.zero
      -- The `other` is the more significant half of the mask
      let other := other.setMask level (s.mask level &&& wnot mask)
      let other := other.setPfx (level - 1) (shl32 (level_prefix ||| average_bit) 6)
      let other := other.copyPfxFrom level s
      -- And the `self` is the less significant one
      let s := s.setMask level (s.mask level &&& mask)
      let s := s.setPfx (level - 1) (shl32 (level_prefix ||| first_bit) 6)
      .split s other
    | none =>
      -- Because there is only one bit left we descend to it
      let idx := level_prefix ||| first_bit
      let s := s.setPfx (level - 1) (shl32 idx 6)
      let s := s.setMask level 0
      let s := s.setMask (level - 1) (WL.getFromLayer (level - 1) idx)
      .cont s

/-- `BitProducer::split`: `h = handle_level(3); for i in 1..splits { h = h.or_else(|| handle_level(3 - i)) }`
    (`BitParIter::layers_split` asserts `1 ≤ splits ≤ 3`). -/
def wsplit (WL : WLayers) (avg : Nat → Option Nat) (splits : Nat) (s : WIt) : WIt × Option WIt :=
  match wsplitHandle WL avg s 3 with
  | .split a b => (a, some b)
  | .cont s1 =>
    if splits < 2 then (s1, none) else
    match wsplitHandle WL avg s1 2 with
    | .split a b => (a, some b)
    | .cont s2 =>
      if splits < 3 then (s2, none) else
      match wsplitHandle WL avg s2 1 with
      | .split a b => (a, some b)
      | .cont s3 => (s3, none)

/-! ### The contract of `average_ones` the refinement needs -/

/-- `average_ones(w)` is `None` exactly when `w` has at most one set bit, and otherwise a bit
    position (so `1 << average_bit` does not overflow). -/
def AvgOK (avg : Nat → Option Nat) : Prop :=
  ∀ w, w < 2 ^ 64 → (avg w = none ↔ (bits w).length ≤ 1) ∧ ∀ a, avg w = some a → a < 64

/-- The list-level `pick` induced by a word-level `average_ones`. -/
def pickOf (avg : Nat → Option Nat) (m : List Nat) : Nat := (avg (ofBits m)).getD 0

theorem averageOnes_pickOf {avg : Nat → Option Nat} (h : AvgOK avg) {w : Nat} (hw : w < 2 ^ 64) :
    averageOnes (pickOf avg) (bits w) = avg w := by
  unfold averageOnes pickOf
  rw [ofBits_bits hw]
  by_cases hl : (bits w).length ≤ 1
  · rw [if_pos hl, ((h w hw).1).mpr hl]
  · rw [if_neg hl]
    cases ha : avg w with
    | none => exact absurd (((h w hw).1).mp ha) hl
    | some a => rfl

def WStep.toStep : WStep → Step
  | .split a b => .split a.toIt b.toIt
  | .cont a => .cont a.toIt

def WStep.OK : WStep → Prop
  | .split a b => a.OK ∧ b.OK
  | .cont a => a.OK

/-! ### `handle_level` at levels 3, 2, 1 -/

theorem wsplitHandle_zero {WL : WLayers} {avg : Nat → Option Nat} {s : WIt} {level : Nat}
    (h : s.mask level = 0) : wsplitHandle WL avg s level = .cont s := by
  simp [wsplitHandle, h]

theorem wsplitHandle3_some (WL : WLayers) {avg : Nat → Option Nat} {s : WIt} (h : s.m3 ≠ 0) {a : Nat}
    (ha : avg s.m3 = some a) :
    wsplitHandle WL avg s 3 =
      .split { s with m3 := s.m3 &&& (shl 1 a - 1), p2 := shl32 (0 ||| trailingZeros s.m3) 6 }
             { m0 := 0, m1 := 0, m2 := 0, m3 := s.m3 &&& wnot (shl 1 a - 1), p0 := 0, p1 := 0,
               p2 := shl32 (0 ||| a) 6 } := by
  simp [wsplitHandle, WIt.mask, WIt.setMask, WIt.pfx, WIt.setPfx, WIt.copyPfxFrom, WIt.zero, h, ha]

theorem wsplitHandle3_none (WL : WLayers) {avg : Nat → Option Nat} {s : WIt} (h : s.m3 ≠ 0)
    (ha : avg s.m3 = none) :
    wsplitHandle WL avg s 3 =
      .cont { s with p2 := shl32 (0 ||| trailingZeros s.m3) 6, m3 := 0,
                     m2 := WL.l2 (0 ||| trailingZeros s.m3) } := by
  simp [wsplitHandle, WIt.mask, WIt.setMask, WIt.pfx, WIt.setPfx, WLayers.getFromLayer, h, ha]

theorem wsplitHandle2_some (WL : WLayers) {avg : Nat → Option Nat} {s : WIt} (h : s.m2 ≠ 0) {a : Nat}
    (ha : avg s.m2 = some a) :
    wsplitHandle WL avg s 2 =
      .split { s with m2 := s.m2 &&& (shl 1 a - 1), p1 := shl32 (s.p2 ||| trailingZeros s.m2) 6 }
             { m0 := 0, m1 := 0, m2 := s.m2 &&& wnot (shl 1 a - 1), m3 := 0, p0 := 0,
               p1 := shl32 (s.p2 ||| a) 6, p2 := s.p2 } := by
  simp [wsplitHandle, WIt.mask, WIt.setMask, WIt.pfx, WIt.setPfx, WIt.copyPfxFrom, WIt.zero, h, ha]

theorem wsplitHandle2_none (WL : WLayers) {avg : Nat → Option Nat} {s : WIt} (h : s.m2 ≠ 0)
    (ha : avg s.m2 = none) :
    wsplitHandle WL avg s 2 =
      .cont { s with p1 := shl32 (s.p2 ||| trailingZeros s.m2) 6, m2 := 0,
                     m1 := WL.l1 (s.p2 ||| trailingZeros s.m2) } := by
  simp [wsplitHandle, WIt.mask, WIt.setMask, WIt.pfx, WIt.setPfx, WLayers.getFromLayer, h, ha]

theorem wsplitHandle1_some (WL : WLayers) {avg : Nat → Option Nat} {s : WIt} (h : s.m1 ≠ 0) {a : Nat}
    (ha : avg s.m1 = some a) :
    wsplitHandle WL avg s 1 =
      .split { s with m1 := s.m1 &&& (shl 1 a - 1), p0 := shl32 (s.p1 ||| trailingZeros s.m1) 6 }
             { m0 := 0, m1 := s.m1 &&& wnot (shl 1 a - 1), m2 := 0, m3 := 0,
               p0 := shl32 (s.p1 ||| a) 6, p1 := s.p1, p2 := s.p2 } := by
  simp [wsplitHandle, WIt.mask, WIt.setMask, WIt.pfx, WIt.setPfx, WIt.copyPfxFrom, WIt.zero, h, ha]

theorem wsplitHandle1_none (WL : WLayers) {avg : Nat → Option Nat} {s : WIt} (h : s.m1 ≠ 0)
    (ha : avg s.m1 = none) :
    wsplitHandle WL avg s 1 =
      .cont { s with p0 := shl32 (s.p1 ||| trailingZeros s.m1) 6, m1 := 0,
                     m0 := WL.l0 (s.p1 ||| trailingZeros s.m1) } := by
  simp [wsplitHandle, WIt.mask, WIt.setMask, WIt.pfx, WIt.setPfx, WLayers.getFromLayer, h, ha]

/-! ### Each level refines its list-level counterpart -/

theorem handle3_refines {WL : WLayers} (hL : WL.OK) {avg : Nat → Option Nat} (hA : AvgOK avg)
    {s : WIt} (hs : s.OK) :
    (wsplitHandle WL avg s 3).toStep = handle3 WL.toLayers (pickOf avg) s.toIt ∧
    (wsplitHandle WL avg s 3).OK := by
  unfold handle3
  by_cases hz : s.m3 = 0
  · rw [wsplitHandle_zero (level := 3) hz]
    have : s.toIt.m3 = [] := by show bits s.m3 = []; rw [hz]; exact bits_zero
    rw [this]
    exact ⟨rfl, hs⟩
  · obtain ⟨b, rest, hb, hb64, e1, -⟩ := bits_cons_of_ne_zero hs.lt3 hz
    have hm : s.toIt.m3 = b :: rest := hb
    have hav := averageOnes_pickOf hA hs.lt3
    have e3 : shl32 b 6 = b * 64 := shl32_six (by omega)
    rw [hm]
    simp only
    rw [← hm, show s.toIt.m3 = bits s.m3 from rfl, hav]
    cases ha : avg s.m3 with
    | some a =>
      have ha64 : a < 64 := (hA _ hs.lt3).2 a ha
      have e4 : shl32 a 6 = a * 64 := shl32_six (by omega)
      rw [wsplitHandle3_some WL hz ha]
      constructor
      · simp only [WStep.toStep, WIt.toIt, bits_lowmask _ ha64, bits_highmask _ ha64, bits_zero, e1,
          Nat.zero_or, e3, e4, B]
      · refine ⟨⟨hs.lt0, hs.lt1, hs.lt2, and_lt_left _ hs.lt3, hs.al0, hs.al1, ?_, hs.bd0, hs.bd1, ?_⟩,
          ⟨Nat.two_pow_pos 64, Nat.two_pow_pos 64, Nat.two_pow_pos 64, and_lt_left _ hs.lt3, rfl, rfl,
            ?_, Nat.two_pow_pos 24, Nat.two_pow_pos 18, ?_⟩⟩
        all_goals simp only [e1, Nat.zero_or, e3, e4]; omega
    | none =>
      rw [wsplitHandle3_none WL hz ha]
      constructor
      · simp only [WStep.toStep, WIt.toIt, WLayers.toLayers, bits_zero, e1, Nat.zero_or, e3, B]
      · refine ⟨hs.lt0, hs.lt1, hL.h2 _, Nat.two_pow_pos 64, hs.al0, hs.al1, ?_, hs.bd0, hs.bd1, ?_⟩
        all_goals simp only [e1, Nat.zero_or, e3]; omega

theorem handle2_refines {WL : WLayers} (hL : WL.OK) {avg : Nat → Option Nat} (hA : AvgOK avg)
    {s : WIt} (hs : s.OK) :
    (wsplitHandle WL avg s 2).toStep = handle2 WL.toLayers (pickOf avg) s.toIt ∧
    (wsplitHandle WL avg s 2).OK := by
  unfold handle2
  by_cases hz : s.m2 = 0
  · rw [wsplitHandle_zero (level := 2) hz]
    have : s.toIt.m2 = [] := by show bits s.m2 = []; rw [hz]; exact bits_zero
    rw [this]
    exact ⟨rfl, hs⟩
  · obtain ⟨b, rest, hb, hb64, e1, -⟩ := bits_cons_of_ne_zero hs.lt2 hz
    have hm : s.toIt.m2 = b :: rest := hb
    have hav := averageOnes_pickOf hA hs.lt2
    have hal := hs.al2
    have hbd := hs.bd2
    have e2 : s.p2 ||| b = s.p2 + b := or_eq_add hs.al2 hb64
    have e3 : shl32 (s.p2 + b) 6 = (s.p2 + b) * 64 := shl32_six (by omega)
    rw [hm]
    simp only
    rw [← hm, show s.toIt.m2 = bits s.m2 from rfl, hav]
    cases ha : avg s.m2 with
    | some a =>
      have ha64 : a < 64 := (hA _ hs.lt2).2 a ha
      have e2' : s.p2 ||| a = s.p2 + a := or_eq_add hs.al2 ha64
      have e4 : shl32 (s.p2 + a) 6 = (s.p2 + a) * 64 := shl32_six (by omega)
      rw [wsplitHandle2_some WL hz ha]
      constructor
      · simp only [WStep.toStep, WIt.toIt, bits_lowmask _ ha64, bits_highmask _ ha64, bits_zero, e1,
          e2, e2', e3, e4, B]
      · refine ⟨⟨hs.lt0, hs.lt1, and_lt_left _ hs.lt2, hs.lt3, hs.al0, ?_, hs.al2, hs.bd0, ?_, hs.bd2⟩,
          ⟨Nat.two_pow_pos 64, Nat.two_pow_pos 64, and_lt_left _ hs.lt2, Nat.two_pow_pos 64, rfl, ?_,
            hs.al2, Nat.two_pow_pos 24, ?_, hs.bd2⟩⟩
        all_goals simp only [e1, e2, e2', e3, e4]; omega
    | none =>
      rw [wsplitHandle2_none WL hz ha]
      constructor
      · simp only [WStep.toStep, WIt.toIt, WLayers.toLayers, bits_zero, e1, e2, e3, B]
      · refine ⟨hs.lt0, hL.h1 _, Nat.two_pow_pos 64, hs.lt3, hs.al0, ?_, hs.al2, hs.bd0, ?_, hs.bd2⟩
        all_goals simp only [e1, e2, e3]; omega

theorem handle1_refines {WL : WLayers} (hL : WL.OK) {avg : Nat → Option Nat} (hA : AvgOK avg)
    {s : WIt} (hs : s.OK) :
    (wsplitHandle WL avg s 1).toStep = handle1 WL.toLayers (pickOf avg) s.toIt ∧
    (wsplitHandle WL avg s 1).OK := by
  unfold handle1
  by_cases hz : s.m1 = 0
  · rw [wsplitHandle_zero (level := 1) hz]
    have : s.toIt.m1 = [] := by show bits s.m1 = []; rw [hz]; exact bits_zero
    rw [this]
    exact ⟨rfl, hs⟩
  · obtain ⟨b, rest, hb, hb64, e1, -⟩ := bits_cons_of_ne_zero hs.lt1 hz
    have hm : s.toIt.m1 = b :: rest := hb
    have hav := averageOnes_pickOf hA hs.lt1
    have hal := hs.al1
    have hbd := hs.bd1
    have e2 : s.p1 ||| b = s.p1 + b := or_eq_add hs.al1 hb64
    have e3 : shl32 (s.p1 + b) 6 = (s.p1 + b) * 64 := shl32_six (by omega)
    rw [hm]
    simp only
    rw [← hm, show s.toIt.m1 = bits s.m1 from rfl, hav]
    cases ha : avg s.m1 with
    | some a =>
      have ha64 : a < 64 := (hA _ hs.lt1).2 a ha
      have e2' : s.p1 ||| a = s.p1 + a := or_eq_add hs.al1 ha64
      have e4 : shl32 (s.p1 + a) 6 = (s.p1 + a) * 64 := shl32_six (by omega)
      rw [wsplitHandle1_some WL hz ha]
      constructor
      · simp only [WStep.toStep, WIt.toIt, bits_lowmask _ ha64, bits_highmask _ ha64, bits_zero, e1,
          e2, e2', e3, e4, B]
      · refine ⟨⟨hs.lt0, and_lt_left _ hs.lt1, hs.lt2, hs.lt3, ?_, hs.al1, hs.al2, ?_, hs.bd1, hs.bd2⟩,
          ⟨Nat.two_pow_pos 64, and_lt_left _ hs.lt1, Nat.two_pow_pos 64, Nat.two_pow_pos 64, ?_, hs.al1,
            hs.al2, ?_, hs.bd1, hs.bd2⟩⟩
        all_goals simp only [e1, e2, e2', e3, e4]; omega
    | none =>
      rw [wsplitHandle1_none WL hz ha]
      constructor
      · simp only [WStep.toStep, WIt.toIt, WLayers.toLayers, bits_zero, e1, e2, e3, B]
      · refine ⟨hL.h0 _, Nat.two_pow_pos 64, hs.lt2, hs.lt3, ?_, hs.al1, hs.al2, ?_, hs.bd1, hs.bd2⟩
        all_goals simp only [e1, e2, e3]; omega

/-! ### `split` -/

/-- **Level C, split.** The word-level `BitProducer::split` commutes with the abstraction `bits`
    (for every `average_ones` meeting `AvgOK`, every number of split levels, every producer
    satisfying the word invariant), and both products satisfy the word invariant again. -/
theorem wsplit_refines {WL : WLayers} (hL : WL.OK) {avg : Nat → Option Nat} (hA : AvgOK avg)
    (splits : Nat) {s : WIt} (hs : s.OK) :
    ((wsplit WL avg splits s).1.toIt, (wsplit WL avg splits s).2.map WIt.toIt) =
      split WL.toLayers (pickOf avg) splits s.toIt ∧
    (wsplit WL avg splits s).1.OK ∧ (∀ o, (wsplit WL avg splits s).2 = some o → o.OK) := by
  unfold wsplit split
  obtain ⟨r3, k3⟩ := handle3_refines hL hA hs
  rw [← r3]
  cases e3 : wsplitHandle WL avg s 3 with
  | split a b =>
    rw [e3] at k3
    exact ⟨rfl, k3.1, fun o ho => by cases ho; exact k3.2⟩
  | cont s1 =>
    rw [e3] at k3
    simp only [WStep.toStep]
    by_cases h2 : splits < 2
    · simp only [h2, if_true]
      exact ⟨rfl, k3, fun o ho => by cases ho⟩
    · simp only [h2, if_false]
      obtain ⟨r2, k2⟩ := handle2_refines hL hA (s := s1) k3
      rw [← r2]
      cases e2 : wsplitHandle WL avg s1 2 with
      | split a b =>
        rw [e2] at k2
        exact ⟨rfl, k2.1, fun o ho => by cases ho; exact k2.2⟩
      | cont s2 =>
        rw [e2] at k2
        simp only [WStep.toStep]
        by_cases h3 : splits < 3
        · simp only [h3, if_true]
          exact ⟨rfl, k2, fun o ho => by cases ho⟩
        · simp only [h3, if_false]
          obtain ⟨r1, k1⟩ := handle1_refines hL hA (s := s2) k2
          rw [← r1]
          cases e1 : wsplitHandle WL avg s2 1 with
          | split a b =>
            rw [e1] at k1
            exact ⟨rfl, k1.1, fun o ho => by cases ho; exact k1.2⟩
          | cont s3 =>
            rw [e1] at k1
            exact ⟨rfl, k1, fun o ho => by cases ho⟩

end SpecsModel.HiBitSet
