/-
  Helper lemmas for C06 (Level A): masks, per-member `get`, the closed form of `runKeys`.
-/
import SpecsModel.Join.Model
namespace SpecsModel

theorem BSet.mem_diff (a b : BSet) (i : Nat) : (a.diff b).mem i = (a.mem i && !b.mem i) := by
  unfold BSet.diff
  by_cases h : i < a.bits.size
  · simp [BSet.mem, h]
  · have ha : a.mem i = false := by
      cases hm : a.mem i
      · rfl
      · have := BSet.mem_lt_size hm; omega
    rw [ha]
    have hn : (Array.range a.bits.size)[i]? = none := Array.getElem?_eq_none (by simp; omega)
    simp [BSet.mem, hn]

namespace Join

/-! ### Masks -/
namespace Mask

@[simp] theorem mem_all (i : Nat) : Mask.all.mem i = true := by simp [Mask.all, Mask.mem]
@[simp] theorem mem_ofSet (s : BSet) (i : Nat) : (Mask.ofSet s).mem i = s.mem i := by
  simp [Mask.ofSet, Mask.mem]
@[simp] theorem mem_not (a : Mask) (i : Nat) : a.not.mem i = !a.mem i := by
  cases a with | mk n s => cases n <;> simp [Mask.not, Mask.mem]

@[simp] theorem mem_and (a b : Mask) (i : Nat) : (a.and b).mem i = (a.mem i && b.mem i) := by
  cases a with | mk na sa =>
  cases b with | mk nb sb =>
  cases na <;> cases nb <;>
    simp [Mask.and, Mask.mem, BSet.mem_inter, BSet.mem_diff, BSet.mem_union, Bool.and_comm]

@[simp] theorem mem_or (a b : Mask) (i : Nat) : (a.or b).mem i = (a.mem i || b.mem i) := by
  cases a with | mk na sa =>
  cases b with | mk nb sb =>
  cases na <;> cases nb <;>
    simp [Mask.or, Mask.mem, BSet.mem_inter, BSet.mem_diff, BSet.mem_union] <;>
    cases sa.mem i <;> cases sb.mem i <;> rfl

@[simp] theorem mem_xor (a b : Mask) (i : Nat) : (a.xor b).mem i = (a.mem i != b.mem i) := by
  simp only [Mask.xor, mem_and, mem_or, mem_not]
  cases a.mem i <;> cases b.mem i <;> rfl

theorem mem_toList (bound : Nat) (m : Mask) (i : Nat) :
    i ∈ m.toList bound ↔ m.mem i = true ∧ (m.neg = true → i < bound) := by
  cases m with | mk n s =>
  cases n
  · simp [Mask.toList, Mask.mem, BSet.mem_toList]
  · simp [Mask.toList, Mask.mem, List.mem_filter, And.comm]

theorem toList_sorted (bound : Nat) (m : Mask) : (m.toList bound).Pairwise (· < ·) := by
  unfold Mask.toList
  split
  · exact List.Pairwise.sublist List.filter_sublist List.pairwise_lt_range
  · exact BSet.toList_sorted _

theorem toList_nodup (bound : Nat) (m : Mask) : (m.toList bound).Nodup :=
  (toList_sorted bound m).imp (fun h => Nat.ne_of_lt h)

end Mask

theorem filter_range_add (p : Nat → Bool) (n : Nat) (h : ∀ i, p i = true → i < n) :
    ∀ d, (List.range (n + d)).filter p = (List.range n).filter p := by
  intro d
  induction d with
  | zero => rfl
  | succ d ih =>
    rw [← Nat.add_assoc, List.range_succ, List.filter_append, ih]
    have : p (n + d) = false := by
      cases hp : p (n + d)
      · rfl
      · have := h _ hp; omega
    simp [this]

theorem filter_range_eq (p : Nat → Bool) (n m : Nat) (hn : ∀ i, p i = true → i < n)
    (hm : ∀ i, p i = true → i < m) : (List.range n).filter p = (List.range m).filter p := by
  by_cases hle : n ≤ m
  · obtain ⟨d, rfl⟩ := Nat.exists_eq_add_of_le hle
    exact (filter_range_add p n hn d).symm
  · obtain ⟨d, rfl⟩ := Nat.exists_eq_add_of_le (Nat.le_of_not_le hle)
    exact filter_range_add p m hm d

/-- Closed form of the enumeration: when the members of a positive mask lie below `bound`
    (hibitset: `BitSet::add` panics on indices ≥ 2^24), the keys are `0..bound` filtered by membership. -/
theorem Mask.toList_eq_filter (bound : Nat) (m : Mask)
    (hb : m.neg = false → ∀ i, m.s.mem i = true → i < bound) :
    m.toList bound = (List.range bound).filter m.mem := by
  cases m with | mk n s =>
  cases n
  · simp only [Mask.toList, Bool.false_eq_true, if_false, BSet.toList]
    exact filter_range_eq s.mem _ _ (fun i h => BSet.mem_lt_size h) (hb rfl)
  · have : (fun i => !s.mem i) = Mask.mem ⟨true, s⟩ := by funext i; simp [Mask.mem]
    simp [Mask.toList, this]

theorem mem_andTreeAux (i : Nat) : ∀ (fuel : Nat) (l : List Mask), l.length ≤ fuel →
    (andTreeAux fuel l).mem i = l.all (fun m => m.mem i) := by
  intro fuel
  induction fuel with
  | zero =>
    intro l h
    have : l = [] := List.eq_nil_of_length_eq_zero (by omega)
    subst this; simp [andTreeAux]
  | succ fuel ih =>
    intro l h
    match l, h with
    | [], _ => simp [andTreeAux]
    | [m], _ => simp [andTreeAux]
    | m₁ :: m₂ :: ms, h =>
      simp only [List.length_cons] at h
      rw [andTreeAux, Mask.mem_and, ih _ (by simp only [List.length_take, List.length_cons]; omega),
        ih _ (by simp only [List.length_drop, List.length_cons]; omega), ← List.all_append,
        List.take_append_drop]

theorem mem_andTree (l : List Mask) (i : Nat) : (andTree l).mem i = l.all (fun m => m.mem i) :=
  mem_andTreeAux i l.length l (Nat.le_refl _)

theorem mem_tupleMask (w : JWorld) (ms : List Member) (i : Nat) :
    (tupleMask w ms).mem i = ms.all (fun m => (m.mask w).mem i) := by
  simp [tupleMask, mem_andTree, List.all_map, Function.comp_def]

/-! ### Members: readiness, the item at an index, the state after `get` -/

/-- `get` at `i` is defined behaviour: every store the member reads unchecked has `i` in its mask. -/
def OMember.ready : OMember → Nat → Bool
  | .shared st, i | .excl _ st, i | .exclR _ st, i | .drain _ st, i | .consume _ st, i => st.mask.mem i
  | .maybe mask inner, i => !mask.mem i || inner.ready i
  | _, _ => true

/-- The item component `get` returns at `i` (a direct lookup in the borrowed store). -/
def OMember.item : OMember → Nat → Item
  | .shared st, i | .drain _ st, i | .consume _ st, i => .val (st.vals.get i)
  | .excl _ st, i | .exclR _ st, i => .mref (st.vals.get i)
  | .unit, _ => .unit
  | .idx, i => .idx i
  | .ents g, i => .ent i (g.get i)
  | .maybe mask inner, i => if mask.mem i then .opt (some (inner.item i)) else .opt none
  | .entries _ st, i => if st.mask.mem i then .occ (st.vals.get i) else .vac

/-- The member's value after `get` at `i`. -/
def OMember.step : OMember → Nat → OMember
  | .excl k st, i => .excl k (st.touch i)
  | .maybe mask inner, i => if mask.mem i then .maybe mask (inner.step i) else .maybe mask inner
  | .drain k st, i =>
    .drain k { st with mask := st.mask.remove i,
                       chan := if st.kind.emits then .removed i :: st.chan else st.chan }
  | .consume k st, i =>
    .consume k { st with mask := st.mask.remove i,
                         chan := if st.kind.emits then .removed i :: st.chan else st.chan }
  | om, _ => om

theorem OMember.get_of_ready : ∀ (om : OMember) (i : Nat), om.ready i = true →
    om.get i = .ok (om.item i, om.step i) := by
  intro om
  induction om with
  | «shared» st => intro i h; simp [OMember.ready] at h; simp [OMember.get, Store.get, h, OMember.item, OMember.step]
  | excl k st => intro i h; simp [OMember.ready] at h; simp [OMember.get, Store.getMut, h, OMember.item, OMember.step]
  | exclR k st => intro i h; simp [OMember.ready] at h; simp [OMember.get, Store.get, h, OMember.item, OMember.step]
  | unit => intro i _; rfl
  | idx => intro i _; rfl
  | ents g => intro i _; rfl
  | maybe mask inner ih =>
    intro i h
    simp only [OMember.ready, Bool.or_eq_true, Bool.not_eq_true'] at h
    by_cases hm : mask.mem i = true
    · have hr : inner.ready i = true := by
        rcases h with h | h
        · rw [hm] at h; cases h
        · exact h
      simp [OMember.get, hm, ih i hr, OMember.item, OMember.step]
    · simp [OMember.get, hm, OMember.item, OMember.step]
  | drain k st => intro i h; simp [OMember.ready] at h; simp [OMember.get, Store.remove, h, OMember.item, OMember.step]
  | entries k st =>
    intro i _
    by_cases hm : st.mask.mem i = true <;> simp [OMember.get, hm, OMember.item, OMember.step]
  | consume k st => intro i h; simp [OMember.ready] at h; simp [OMember.get, Store.remove, h, OMember.item, OMember.step]

/-- `open` produces values that are ready at every index of the member's mask. -/
theorem Member.ready_open (w : JWorld) : ∀ (m : Member) (i : Nat), (m.mask w).mem i = true →
    (m.open w).ready i = true := by
  intro m
  induction m with
  | maybe m ih =>
    intro i _
    simp only [Member.open, OMember.ready, Bool.or_eq_true, Bool.not_eq_true']
    by_cases hm : (m.mask w).mem i = true
    · exact Or.inr (ih i hm)
    · exact Or.inl (by simpa using hm)
  | _ => intro i h; simp_all [Member.open, Member.mask, OMember.ready]

/-- One loop iteration on one member: `get`, then the visitor's writes. -/
def OMember.adv (f : Nat → Int → Int) (i : Nat) (om : OMember) : OMember :=
  (om.step i).visit f i (om.item i)

theorem Store.mask_touch (s : Store) (i : Nat) : (s.touch i).mask = s.mask := by
  unfold Store.touch; split <;> rfl
theorem Store.vals_touch (s : Store) (i : Nat) : (s.touch i).vals = s.vals := by
  unfold Store.touch; split <;> rfl
theorem Store.kind_touch (s : Store) (i : Nat) : (s.touch i).kind = s.kind := by
  unfold Store.touch; split <;> rfl

theorem OMember.ready_adv_ne (f : Nat → Int → Int) {i j : Nat} (hij : j ≠ i) :
    ∀ om : OMember, (om.adv f i).ready j = om.ready j := by
  intro om
  induction om with
  | maybe mask inner ih =>
    simp only [OMember.adv, OMember.step, OMember.item] at ih ⊢
    by_cases hm : mask.mem i = true
    · simp [hm, OMember.visit, OMember.ready, ih]
    · simp [hm, OMember.visit, OMember.ready]
  | entries k st =>
    simp only [OMember.adv, OMember.step, OMember.item]
    by_cases hm : st.mask.mem i = true <;> simp [hm, OMember.visit, OMember.ready]
  | _ =>
    simp [OMember.adv, OMember.step, OMember.item, OMember.visit, OMember.ready, Store.write,
      Store.mask_touch, BSet.mem_remove, hij]

theorem OMember.item_adv_ne (f : Nat → Int → Int) {i j : Nat} (hij : j ≠ i) :
    ∀ om : OMember, (om.adv f i).item j = om.item j := by
  intro om
  induction om with
  | maybe mask inner ih =>
    simp only [OMember.adv, OMember.step, OMember.item] at ih ⊢
    by_cases hm : mask.mem i = true
    · simp [hm, OMember.visit, OMember.item, ih]
    · simp [hm, OMember.visit, OMember.item]
  | entries k st =>
    simp only [OMember.adv, OMember.step, OMember.item]
    by_cases hm : st.mask.mem i = true <;>
      simp [hm, OMember.visit, OMember.item, Store.write, Store.mask_touch, Store.vals_touch,
        DMap.get_set, hij]
  | _ =>
    simp [OMember.adv, OMember.step, OMember.item, OMember.visit, Store.write,
      Store.mask_touch, Store.vals_touch, DMap.get_set, hij]

/-! ### Tuples -/

theorem getAll_of_ready : ∀ (vals : List OMember) (i : Nat), (∀ om ∈ vals, om.ready i = true) →
    getAll vals i = .ok (vals.map (·.item i), vals.map (·.step i)) := by
  intro vals
  induction vals with
  | nil => intro i _; rfl
  | cons om oms ih =>
    intro i h
    have h1 := OMember.get_of_ready om i (h om (List.mem_cons_self))
    have h2 := ih i (fun o ho => h o (List.mem_cons_of_mem _ ho))
    simp [getAll, h1, h2]

theorem visitAll_map (f : Nat → Int → Int) (i : Nat) : ∀ vals : List OMember,
    visitAll f i (vals.map (·.step i)) (vals.map (·.item i)) = vals.map (OMember.adv f i) := by
  intro vals
  induction vals with
  | nil => rfl
  | cons om oms ih => simp [visitAll, ih, OMember.adv]

/-- All loop iterations over `ks` on one member. -/
def OMember.advs (f : Nat → Int → Int) (ks : List Nat) (om : OMember) : OMember :=
  ks.foldl (fun o i => o.adv f i) om

/-- **Closed form of the join loop** for any duplicate-free key sequence on which all members are
    ready: no UB, no panic; item `i` is read from the *initial* values; every member evolves
    independently. (Used for the sequential join — ascending keys — and for every schedule of a
    parallel join.) -/
theorem runKeys_closed (f : Nat → Int → Int) : ∀ (ks : List Nat) (vals : List OMember),
    ks.Nodup → (∀ om ∈ vals, ∀ i ∈ ks, om.ready i = true) →
    runKeys f vals ks =
      .ok (ks.map (fun i => (i, vals.map (·.item i))), vals.map (OMember.advs f ks)) := by
  intro ks
  induction ks with
  | nil =>
    intro vals _ _
    have : OMember.advs f [] = id := funext (fun _ => rfl)
    simp [runKeys, this]
  | cons i rest ih =>
    intro vals hnd hr
    have hi : ∀ om ∈ vals, om.ready i = true := fun om ho => hr om ho i (List.mem_cons_self)
    rw [List.nodup_cons] at hnd
    have hne : ∀ j ∈ rest, j ≠ i := fun j hj hji => hnd.1 (hji ▸ hj)
    rw [runKeys, getAll_of_ready vals i hi]
    simp only [visitAll_map]
    rw [ih (vals.map (OMember.adv f i)) hnd.2 (by
      intro om ho j hj
      obtain ⟨o, ho', rfl⟩ := List.mem_map.mp ho
      rw [OMember.ready_adv_ne f (hne j hj)]
      exact hr o ho' j (List.mem_cons_of_mem _ hj))]
    simp only [List.map_map, List.map_cons, Out.ok.injEq, Prod.mk.injEq, List.cons.injEq, true_and]
    constructor
    · apply List.map_congr_left
      intro j hj
      simp only [Prod.mk.injEq, true_and]
      apply List.map_congr_left
      intro om _
      exact OMember.item_adv_ne f (hne j hj) om
    · apply List.map_congr_left
      intro om _
      simp [OMember.advs]

/-- The `next`-based loop and the fold over the keys are the same function. -/
theorem run_eq_runKeys (f : Nat → Int → Int) : ∀ (n : Nat) (it : JoinIter), it.keys.length ≤ n →
    JoinIter.run f n it =
      match runKeys f it.vals it.keys with
      | .ok (out, vals) => .ok (out, { it with keys := [], vals := vals })
      | .panic s => .panic s
      | .ub s => .ub s := by
  intro n
  induction n with
  | zero =>
    intro it h
    have : it.keys = [] := List.eq_nil_of_length_eq_zero (by omega)
    cases it with | mk keys mask vals =>
    simp only at this; subst this
    simp [JoinIter.run, runKeys]
  | succ n ih =>
    intro it h
    cases it with | mk keys mask vals =>
    cases keys with
    | nil => simp [JoinIter.run, JoinIter.next, runKeys]
    | cons i rest =>
      simp only [JoinIter.run, JoinIter.next, runKeys]
      cases hg : getAll vals i with
      | ok r =>
        obtain ⟨items, vals1⟩ := r
        simp only [JoinIter.visit]
        rw [ih _ (by simpa using h)]
        simp only
        cases runKeys f (visitAll f i vals1 items) rest with
        | ok r2 => simp
        | panic s => simp
        | ub s => simp
      | panic s => simp
      | ub s => simp

end Join
end SpecsModel
