/-
  Helper lemmas for C06: boundedness of masks (closed form of the key list), and the relation
  "item component = direct lookup" (`Member.Agrees`).
-/
import SpecsModel.Join.LemmasFrame
namespace SpecsModel.Join

/-! ### Boundedness: every bit set lives below `bound` (hibitset: `BitSet::add` panics on ≥ 2^24) -/

def Mask.Bdd (bound : Nat) (m : Mask) : Prop := ∀ i, m.s.mem i = true → i < bound

structure JWorld.Bdd (bound : Nat) (w : JWorld) : Prop where
  stores : ∀ k i, (w.store k).mask.mem i = true → i < bound
  sets : ∀ b i, (w.sets.get b).mem i = true → i < bound
  ents : ∀ i, w.ents.mem i = true → i < bound

theorem Mask.bdd_and {bound : Nat} {a b : Mask} (ha : a.Bdd bound) (hb : b.Bdd bound) :
    (a.and b).Bdd bound := by
  cases a with | mk na sa =>
  cases b with | mk nb sb =>
  intro i
  cases na <;> cases nb <;>
    simp only [Mask.and, BSet.mem_inter, BSet.mem_diff, BSet.mem_union, Bool.and_eq_true,
      Bool.or_eq_true] <;> intro h
  · exact ha i h.1
  · exact ha i h.1
  · exact hb i h.1
  · rcases h with h | h
    · exact ha i h
    · exact hb i h

theorem Mask.bdd_or {bound : Nat} {a b : Mask} (ha : a.Bdd bound) (hb : b.Bdd bound) :
    (a.or b).Bdd bound := by
  cases a with | mk na sa =>
  cases b with | mk nb sb =>
  intro i
  cases na <;> cases nb <;>
    simp only [Mask.or, BSet.mem_inter, BSet.mem_diff, BSet.mem_union, Bool.and_eq_true,
      Bool.or_eq_true] <;> intro h
  · rcases h with h | h
    · exact ha i h
    · exact hb i h
  · exact hb i h.1
  · exact ha i h.1
  · exact ha i h.1

theorem Mask.bdd_not {bound : Nat} {a : Mask} (ha : a.Bdd bound) : a.not.Bdd bound := ha

theorem Mask.bdd_xor {bound : Nat} {a b : Mask} (ha : a.Bdd bound) (hb : b.Bdd bound) :
    (a.xor b).Bdd bound :=
  Mask.bdd_and (Mask.bdd_or ha hb) (Mask.bdd_not (Mask.bdd_and ha hb))

theorem Mask.bdd_all (bound : Nat) : Mask.all.Bdd bound := by
  intro i h; simp [Mask.all] at h

theorem BExpr.bdd {bound : Nat} {w : JWorld} (hw : w.Bdd bound) : ∀ e : BExpr, (e.mask w).Bdd bound := by
  intro e
  induction e with
  | set b => exact hw.sets b
  | maskOf k => exact hw.stores k
  | and x y ihx ihy => exact Mask.bdd_and ihx ihy
  | or x y ihx ihy => exact Mask.bdd_or ihx ihy
  | xor x y ihx ihy => exact Mask.bdd_xor ihx ihy
  | not x ih => exact Mask.bdd_not ih

theorem Member.bdd {bound : Nat} {w : JWorld} (hw : w.Bdd bound) : ∀ m : Member, (m.mask w).Bdd bound := by
  intro m
  cases m with
  | maybe m => exact Mask.bdd_all bound
  | entries k => exact Mask.bdd_all bound
  | entities => exact hw.ents
  | bits e => exact BExpr.bdd hw e
  | anti k => exact Mask.bdd_not (hw.stores k)
  | _ => exact hw.stores _

theorem andTreeAux_bdd {bound : Nat} : ∀ (fuel : Nat) (l : List Mask), (∀ m ∈ l, m.Bdd bound) →
    (andTreeAux fuel l).Bdd bound := by
  intro fuel
  induction fuel with
  | zero =>
    intro l h
    match l, h with
    | [], _ => rw [andTreeAux]; exact Mask.bdd_all bound
    | [m], h => rw [andTreeAux]; exact h m (List.mem_singleton.mpr rfl)
    | _ :: _ :: _, _ => rw [andTreeAux]; exact Mask.bdd_all bound
  | succ fuel ih =>
    intro l h
    match l, h with
    | [], _ => rw [andTreeAux]; exact Mask.bdd_all bound
    | [m], h => rw [andTreeAux]; exact h m (List.mem_singleton.mpr rfl)
    | m₁ :: m₂ :: ms, h =>
      rw [andTreeAux]
      exact Mask.bdd_and (ih _ (fun m hm => h m (List.mem_of_mem_take hm)))
        (ih _ (fun m hm => h m (List.mem_of_mem_drop hm)))

theorem andTree_bdd {bound : Nat} (l : List Mask) (h : ∀ m ∈ l, m.Bdd bound) : (andTree l).Bdd bound :=
  andTreeAux_bdd l.length l h

theorem tupleMask_bdd {bound : Nat} {w : JWorld} (hw : w.Bdd bound) (ms : List Member) :
    (tupleMask w ms).Bdd bound := by
  apply andTree_bdd
  intro m hm
  obtain ⟨x, _, rfl⟩ := List.mem_map.mp hm
  exact Member.bdd hw x

/-! ### Item component = direct lookup -/

/-- The item component a member must deliver at index `i`, phrased with the direct lookup
    `w.lookup k i` (= `Storage::get` of the entity living at `i`). -/
def Member.Agrees (w : JWorld) (i : Nat) : Member → Item → Prop
  | .storage k, it | .restricted k, it | .drain k, it | .consume k, it =>
    ∃ v, it = .val v ∧ w.lookup k i = some v
  | .storageMut k, it | .restrictedMut k, it => ∃ v, it = .mref v ∧ w.lookup k i = some v
  | .anti k, it => it = .unit ∧ w.lookup k i = none
  | .entities, it => it = .ent i (w.gens.get i)
  | .bits _, it => it = .idx i
  | .maybe m, it =>
    ((m.mask w).mem i = true → ∃ it', it = .opt (some it') ∧ m.Agrees w i it') ∧
    ((m.mask w).mem i = false → it = .opt none)
  | .entries k, it =>
    (∀ v, w.lookup k i = some v → it = .occ v) ∧ (w.lookup k i = none → it = .vac)

theorem Member.item_agrees (w : JWorld) : ∀ (m : Member) (i : Nat), (m.mask w).mem i = true →
    m.Agrees w i ((m.open w).item i) := by
  intro m
  induction m with
  | maybe m ih =>
    intro i _
    simp only [Member.Agrees, Member.open, OMember.item]
    constructor
    · intro hm; exact ⟨_, by simp [hm], ih i hm⟩
    · intro hm; simp [hm]
  | entries k =>
    intro i _
    simp only [Member.Agrees, Member.open, OMember.item, JWorld.lookup]
    by_cases hm : (w.store k).mask.mem i = true <;> simp [hm]
  | anti k =>
    intro i h
    simp only [Member.mask, Mask.mem_not, Mask.mem_ofSet, Bool.not_eq_true'] at h
    simp [Member.Agrees, Member.open, OMember.item, JWorld.lookup, h]
  | entities => intro i _; rfl
  | bits e => intro i _; rfl
  | _ =>
    intro i h
    simp only [Member.mask, Mask.mem_ofSet] at h
    simp [Member.Agrees, Member.open, OMember.item, JWorld.lookup, h]

/-! ### Closed forms of whole joins -/

/-- The opened members are ready on every key of the joined mask. -/
theorem ready_on_keys (bound : Nat) (w : JWorld) (ms : List Member) :
    ∀ om ∈ ms.map (Member.open w), ∀ i ∈ (tupleMask w ms).toList bound, om.ready i = true := by
  intro om ho i hi
  obtain ⟨m, hm, rfl⟩ := List.mem_map.mp ho
  apply Member.ready_open
  have := ((Mask.mem_toList bound _ i).mp hi).1
  rw [mem_tupleMask, List.all_eq_true] at this
  exact this m hm

/-- The item list every execution delivers for index `i` (read from the world before the join). -/
def itemsAt (w : JWorld) (ms : List Member) (i : Nat) : Nat × List Item :=
  (i, ms.map (fun m => (m.open w).item i))

/-- World after visiting the keys `ks` in that order and dropping the borrows. -/
def worldAfter (f : Nat → Int → Int) (w : JWorld) (ms : List Member) (ks : List Nat) : JWorld :=
  closeAll w ((ms.map (Member.open w)).map (OMember.advs f ks))

theorem runKeys_open (f : Nat → Int → Int) (bound : Nat) (w : JWorld) (ms : List Member) (ks : List Nat)
    (hnd : ks.Nodup) (hsub : ∀ i ∈ ks, i ∈ (tupleMask w ms).toList bound) :
    runKeys f (ms.map (Member.open w)) ks =
      .ok (ks.map (itemsAt w ms), (ms.map (Member.open w)).map (OMember.advs f ks)) := by
  rw [runKeys_closed f ks _ hnd (fun om ho i hi => ready_on_keys bound w ms om ho i (hsub i hi))]
  simp [itemsAt, List.map_map, Function.comp_def]

theorem join_closed (bound : Nat) (f : Nat → Int → Int) (w : JWorld) (ms : List Member) :
    join bound f w ms =
      .ok (((tupleMask w ms).toList bound).map (itemsAt w ms),
           worldAfter f w ms ((tupleMask w ms).toList bound)) := by
  simp only [join, JoinIter.new,
    runKeys_open f bound w ms _ (Mask.toList_nodup bound _) (fun _ h => h), worldAfter]

/-- With pairwise distinct exclusive borrows, the member that borrowed store `k` decides what the
    world holds there after the join. -/
theorem worldAfter_store (f : Nat → Int → Int) (w : JWorld) (ms : List Member) (ks : List Nat)
    (hd : MutDistinct ms) (m : Member) (hm : m ∈ ms) (k : Nat) (hk : m.touches = some k) (st : Store)
    (hb : ((m.open w).advs f ks).back = some st) : (worldAfter f w ms ks).store k = st := by
  have hnd : (((ms.map (Member.open w)).map (OMember.advs f ks)).filterMap OMember.key).Nodup := by
    have : ((ms.map (Member.open w)).map (OMember.advs f ks)).filterMap OMember.key
        = ms.filterMap Member.touches := by
      rw [List.map_map, List.filterMap_map]
      congr 1
      funext m
      simp [OMember.key_advs, Member.key_open]
    rw [this]; exact hd
  exact closeAll_at k _ w ((m.open w).advs f ks) st hnd
    (List.mem_map.mpr ⟨_, List.mem_map.mpr ⟨_, hm, rfl⟩, rfl⟩)
    (by rw [OMember.key_advs, Member.key_open]; exact hk) hb

theorem join_world (bound : Nat) (f : Nat → Int → Int) (w w' : JWorld) (ms : List Member)
    (out : List (Nat × List Item)) (h : join bound f w ms = .ok (out, w')) :
    w' = worldAfter f w ms ((tupleMask w ms).toList bound) := by
  rw [join_closed] at h
  simp only [Out.ok.injEq, Prod.mk.injEq] at h
  exact h.2.symm

end SpecsModel.Join
