/-
  Helper lemmas for C06 (c): what the world looks like after a join has been dropped
  (`closeAll`): frame (untouched stores are unchanged) and visibility of the visitor's writes.
-/
import SpecsModel.Join.Lemmas
namespace SpecsModel.Join

/-- The store a member borrows exclusively (and gives back on drop). -/
def Member.touches : Member → Option Nat
  | .storageMut k | .restrictedMut k | .drain k | .entries k | .consume k => some k
  | .maybe m => m.touches
  | _ => none

/-- Rust's borrow checker: the exclusive borrows of one tuple are pairwise different stores. -/
def MutDistinct (ms : List Member) : Prop := (ms.filterMap Member.touches).Nodup

/-- Same notion on opened members. -/
def OMember.key : OMember → Option Nat
  | .excl k _ | .exclR k _ | .drain k _ | .entries k _ | .consume k _ => some k
  | .maybe _ inner => inner.key
  | _ => none

/-- The store an opened member will write back. -/
def OMember.back : OMember → Option Store
  | .excl _ st | .exclR _ st | .drain _ st | .entries _ st => some st
  | .consume _ st => some { kind := st.kind }
  | .maybe _ inner => inner.back
  | _ => none

theorem Member.key_open (w : JWorld) : ∀ m : Member, (m.open w).key = m.touches := by
  intro m; induction m <;> simp_all [Member.open, OMember.key, Member.touches]

theorem OMember.key_adv (f : Nat → Int → Int) (i : Nat) : ∀ om : OMember, (om.adv f i).key = om.key := by
  intro om
  induction om with
  | maybe mask inner ih =>
    simp only [OMember.adv, OMember.step, OMember.item] at ih ⊢
    by_cases hm : mask.mem i = true <;> simp [hm, OMember.visit, OMember.key, ih]
  | entries k st =>
    simp only [OMember.adv, OMember.step, OMember.item]
    by_cases hm : st.mask.mem i = true <;> simp [hm, OMember.visit, OMember.key]
  | _ => simp [OMember.adv, OMember.step, OMember.item, OMember.visit, OMember.key]

theorem OMember.key_advs (f : Nat → Int → Int) : ∀ (ks : List Nat) (om : OMember),
    (om.advs f ks).key = om.key := by
  intro ks
  induction ks with
  | nil => intro om; rfl
  | cons i rest ih => intro om; simp only [OMember.advs, List.foldl_cons] at ih ⊢; rw [ih, OMember.key_adv]

theorem JWorld.store_setStore (w : JWorld) (k k' : Nat) (s : Store) :
    (w.setStore k s).store k' = if k' = k then s else w.store k' := by
  simp [JWorld.setStore, JWorld.store, DMap.get_set]

theorem OMember.close_store (w : JWorld) (k' : Nat) : ∀ om : OMember,
    (om.close w).store k' = if om.key = some k' then om.back.getD (w.store k') else w.store k' := by
  intro om
  induction om with
  | maybe mask inner ih => simp only [OMember.close, OMember.key, OMember.back]; exact ih
  | excl k st | exclR k st | drain k st | entries k st | consume k st =>
    simp only [OMember.close, OMember.key, OMember.back, JWorld.store_setStore, Option.some.injEq,
      Option.getD_some]
    by_cases h : k' = k
    · simp [h]
    · have : ¬ k = k' := fun e => h e.symm
      simp [h, this]
  | _ => simp [OMember.close, OMember.key]

theorem OMember.close_other (w : JWorld) : ∀ om : OMember,
    (om.close w).sets = w.sets ∧ (om.close w).ents = w.ents ∧ (om.close w).gens = w.gens := by
  intro om
  induction om <;> simp_all [OMember.close, JWorld.setStore]

/-- Frame: a store no member borrows exclusively is given back unchanged. -/
theorem closeAll_frame (k' : Nat) : ∀ (oms : List OMember) (w : JWorld),
    (∀ om ∈ oms, om.key ≠ some k') → (closeAll w oms).store k' = w.store k' := by
  intro oms
  induction oms with
  | nil => intro w _; rfl
  | cons om oms ih =>
    intro w h
    rw [closeAll, ih _ (fun o ho => h o (List.mem_cons_of_mem _ ho)), OMember.close_store]
    simp [h om List.mem_cons_self]

theorem closeAll_other : ∀ (oms : List OMember) (w : JWorld),
    (closeAll w oms).sets = w.sets ∧ (closeAll w oms).ents = w.ents ∧ (closeAll w oms).gens = w.gens := by
  intro oms
  induction oms with
  | nil => intro w; exact ⟨rfl, rfl, rfl⟩
  | cons om oms ih =>
    intro w
    obtain ⟨h1, h2, h3⟩ := ih (om.close w)
    obtain ⟨g1, g2, g3⟩ := OMember.close_other w om
    exact ⟨h1.trans g1, h2.trans g2, h3.trans g3⟩

/-- The member that borrowed store `k'` exclusively decides what comes back. -/
theorem closeAll_at (k' : Nat) : ∀ (oms : List OMember) (w : JWorld) (om : OMember) (st : Store),
    (oms.filterMap OMember.key).Nodup → om ∈ oms → om.key = some k' → om.back = some st →
    (closeAll w oms).store k' = st := by
  intro oms
  induction oms with
  | nil => intro w om st _ h; cases h
  | cons o oms ih =>
    intro w om st hnd hin hk hb
    rcases List.mem_cons.mp hin with rfl | hin
    · simp only [List.filterMap_cons, hk, List.nodup_cons, List.mem_filterMap] at hnd
      rw [closeAll, closeAll_frame k' oms _ (fun o' ho' hk' => hnd.1 ⟨o', ho', hk'⟩),
        OMember.close_store]
      simp [hk, hb]
    · have hnd' : (oms.filterMap OMember.key).Nodup := by
        simp only [List.filterMap_cons] at hnd
        split at hnd
        · exact hnd
        · exact (List.nodup_cons.mp hnd).2
      exact ih (o.close w) om st hnd' hin hk hb

/-! ### What the loop does to the store behind one exclusive member -/

/-- One iteration on the store behind `&mut Storage`: `shared_get_mut` (event) + write. -/
def Store.bump (f : Int → Int) (s : Store) (i : Nat) : Store := (s.touch i).write i (f (s.vals.get i))

theorem advs_excl (f : Nat → Int → Int) (k : Nat) : ∀ (ks : List Nat) (st : Store),
    (OMember.excl k st).advs f ks = .excl k (ks.foldl (Store.bump (f k)) st) := by
  intro ks
  induction ks with
  | nil => intro st; rfl
  | cons i rest ih =>
    intro st
    simp only [OMember.advs, List.foldl_cons] at ih ⊢
    have : (OMember.excl k st).adv f i = .excl k (Store.bump (f k) st i) := by
      simp [OMember.adv, OMember.step, OMember.item, OMember.visit, Store.bump, Store.vals_touch]
    rw [this, ih]

theorem advs_exclR (f : Nat → Int → Int) (k : Nat) : ∀ (ks : List Nat) (st : Store),
    (OMember.exclR k st).advs f ks = .exclR k (ks.foldl (Store.bump (f k)) st) := by
  intro ks
  induction ks with
  | nil => intro st; rfl
  | cons i rest ih =>
    intro st
    simp only [OMember.advs, List.foldl_cons] at ih ⊢
    have : (OMember.exclR k st).adv f i = .exclR k (Store.bump (f k) st i) := by
      simp [OMember.adv, OMember.step, OMember.item, OMember.visit, Store.bump]
    rw [this, ih]

/-- The store after `MaskedStorage::remove(i)` succeeded. -/
def Store.removed (s : Store) (i : Nat) : Store :=
  { s with mask := s.mask.remove i,
           chan := if s.kind.emits then Ev.removed i :: s.chan else s.chan }

theorem advs_drain (f : Nat → Int → Int) (k : Nat) : ∀ (ks : List Nat) (st : Store),
    ∃ st', (OMember.drain k st).advs f ks = .drain k st' ∧ st'.vals = st.vals ∧ st'.kind = st.kind ∧
      ∀ j, st'.mask.mem j = (st.mask.mem j && !ks.contains j) := by
  intro ks
  induction ks with
  | nil => intro st; exact ⟨st, rfl, rfl, rfl, by simp⟩
  | cons i rest ih =>
    intro st
    simp only [OMember.advs, List.foldl_cons] at ih ⊢
    have : (OMember.drain k st).adv f i = .drain k (st.removed i) := by
      simp [OMember.adv, OMember.step, OMember.item, OMember.visit, Store.removed]
    rw [this]
    obtain ⟨st', h1, h2, h3, h4⟩ := ih (st.removed i)
    refine ⟨st', h1, h2, h3, ?_⟩
    intro j
    rw [h4 j]
    simp only [Store.removed, BSet.mem_remove, List.contains_cons]
    by_cases hji : j = i
    · simp [hji]
    · have : (j == i) = false := by simpa using hji
      simp [hji, this]

theorem foldl_bump_vals (g : Int → Int) : ∀ (ks : List Nat) (st : Store), ks.Nodup → ∀ j,
    (ks.foldl (Store.bump g) st).vals.get j = if j ∈ ks then g (st.vals.get j) else st.vals.get j := by
  intro ks
  induction ks with
  | nil => intro st _ j; simp
  | cons i rest ih =>
    intro st hnd j
    rw [List.nodup_cons] at hnd
    rw [List.foldl_cons, ih _ hnd.2 j]
    simp only [Store.bump, Store.write, Store.vals_touch, DMap.get_set, List.mem_cons]
    by_cases hji : j = i
    · subst hji; simp [hnd.1]
    · simp [hji]

theorem foldl_bump_mask (g : Int → Int) : ∀ (ks : List Nat) (st : Store),
    (ks.foldl (Store.bump g) st).mask = st.mask ∧ (ks.foldl (Store.bump g) st).kind = st.kind := by
  intro ks
  induction ks with
  | nil => intro st; exact ⟨rfl, rfl⟩
  | cons i rest ih =>
    intro st
    rw [List.foldl_cons]
    obtain ⟨h1, h2⟩ := ih (Store.bump g st i)
    exact ⟨h1.trans (by simp [Store.bump, Store.write, Store.mask_touch]),
           h2.trans (by simp [Store.bump, Store.write, Store.kind_touch])⟩

/-- Event log of a `&mut` join over a flagged store: one `Modified` per visited index, in order. -/
theorem foldl_bump_chan (g : Int → Int) : ∀ (ks : List Nat) (st : Store), st.kind.emits = true →
    (ks.foldl (Store.bump g) st).chan = (ks.map Ev.modified).reverse ++ st.chan := by
  intro ks
  induction ks with
  | nil => intro st _; simp
  | cons i rest ih =>
    intro st he
    rw [List.foldl_cons, ih _ (by simp [Store.bump, Store.write, Store.kind_touch, he])]
    simp [Store.bump, Store.write, Store.touch, he]

theorem foldl_bump_chan_quiet (g : Int → Int) : ∀ (ks : List Nat) (st : Store), st.kind.emits = false →
    (ks.foldl (Store.bump g) st).chan = st.chan := by
  intro ks
  induction ks with
  | nil => intro st _; rfl
  | cons i rest ih =>
    intro st he
    rw [List.foldl_cons, ih _ (by simp [Store.bump, Store.write, Store.kind_touch, he])]
    simp [Store.bump, Store.write, Store.touch, he]

theorem advs_maybe (f : Nat → Int → Int) (mk : Mask) : ∀ (ks : List Nat) (inner : OMember),
    (OMember.maybe mk inner).advs f ks = .maybe mk (inner.advs f (ks.filter mk.mem)) := by
  intro ks
  induction ks with
  | nil => intro inner; rfl
  | cons i rest ih =>
    intro inner
    simp only [OMember.advs, List.foldl_cons] at ih ⊢
    by_cases hm : mk.mem i = true
    · have : (OMember.maybe mk inner).adv f i = .maybe mk (inner.adv f i) := by
        simp [OMember.adv, OMember.step, OMember.item, hm, OMember.visit]
      rw [this, ih, List.filter_cons_of_pos hm, List.foldl_cons]
    · have : (OMember.maybe mk inner).adv f i = .maybe mk inner := by
        simp [OMember.adv, OMember.step, OMember.item, hm, OMember.visit]
      rw [this, ih, List.filter_cons_of_neg hm]

end SpecsModel.Join
