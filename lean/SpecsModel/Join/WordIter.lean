/-
  Level C, the iterator: `BitIter::next` / `handle_level` of hibitset 0.6.4 (src/iter/mod.rs)
  transcribed with machine-word operations (`wnext`, `whandle`), and the proof that it refines the
  list-level `next` of HiBitSet.lean along `bits` (`wnext_refines`, `wcollect_refines`).

  Word-level state: `WLayers` (the four layers of a `BitSetLike`, words as `Nat`; `WLayers.OK`: every
  word is below `2^64`) and `WIt` (`masks[0..4]`, `prefix[0..3]`). The invariant `WIt.OK` is what the
  word-level code needs for `prefix | bit` to be an addition and for the `u32` shift `idx << BITS`
  not to lose bits: masks below `2^64`, prefixes multiples of 64 with `prefix[2] < 2^12`,
  `prefix[1] < 2^18`, `prefix[0] < 2^24`. It holds of a fresh iterator and is preserved by `wnext`
  (`wnext_ok`), so no bit is ever shifted out and every yielded index is below `2^24` (`wnext_lt`).
-/
import SpecsModel.Join.Word
namespace SpecsModel.HiBitSet

/-- A `BitSetLike` at word level: `layer3()`, `layer2(i)`, `layer1(i)`, `layer0(i)`. -/
structure WLayers where
  l3 : Nat
  l2 : Nat → Nat
  l1 : Nat → Nat
  l0 : Nat → Nat

/-- Every layer word is a `usize`. -/
structure WLayers.OK (WL : WLayers) : Prop where
  h3 : WL.l3 < 2 ^ 64
  h2 : ∀ n, WL.l2 n < 2 ^ 64
  h1 : ∀ n, WL.l1 n < 2 ^ 64
  h0 : ∀ n, WL.l0 n < 2 ^ 64

/-- The abstraction to Level B. -/
def WLayers.toLayers (WL : WLayers) : Layers :=
  { l3 := bits WL.l3, l2 := fun n => bits (WL.l2 n), l1 := fun n => bits (WL.l1 n),
    l0 := fun n => bits (WL.l0 n) }

/-- `BitSetLike::get_from_layer(layer, idx)` (`_ => panic!("Invalid layer")` is unreachable: the
    iterator and the producer call it with `level - 1 ≤ 2`). -/
def WLayers.getFromLayer (WL : WLayers) (layer idx : Nat) : Nat :=
  match layer with
  | 0 => WL.l0 idx
  | 1 => WL.l1 idx
  | 2 => WL.l2 idx
  | _ => WL.l3

/-- `BitIter`: `masks: [usize; 4]`, `prefix: [u32; 3]`. -/
structure WIt where
  m0 : Nat
  m1 : Nat
  m2 : Nat
  m3 : Nat
  p0 : Nat
  p1 : Nat
  p2 : Nat

/-- `self.masks[level]` -/
def WIt.mask (s : WIt) (level : Nat) : Nat :=
  match level with
  | 0 => s.m0
  | 1 => s.m1
  | 2 => s.m2
  | _ => s.m3

/-- `self.masks[level] = w` -/
def WIt.setMask (s : WIt) (level w : Nat) : WIt :=
  match level with
  | 0 => { s with m0 := w }
  | 1 => { s with m1 := w }
  | 2 => { s with m2 := w }
  | _ => { s with m3 := w }

/-- `self.prefix.get(level).cloned().unwrap_or(0)` -/
def WIt.pfx (s : WIt) (level : Nat) : Nat :=
  match level with
  | 0 => s.p0
  | 1 => s.p1
  | 2 => s.p2
  | _ => 0

/-- `self.prefix[i] = v` -/
def WIt.setPfx (s : WIt) (i v : Nat) : WIt :=
  match i with
  | 0 => { s with p0 := v }
  | 1 => { s with p1 := v }
  | _ => { s with p2 := v }

/-- `enum State { Empty, Continue, Value(Index) }` -/
inductive WState where
  | empty
  | cont
  | value (v : Nat)

/-- `BitIter::handle_level(level)`, line by line. -/
def whandle (WL : WLayers) (s : WIt) (level : Nat) : WIt × WState :=
  if s.mask level = 0 then (s, .empty)
  else
    -- Take the first bit that isn't zero
    let first_bit := trailingZeros (s.mask level)
    -- Remove it from the mask
    let s1 := s.setMask level (s.mask level &&& wnot (shl 1 first_bit))
    -- Calculate the index of it
    let idx := s1.pfx level ||| first_bit
    if level = 0 then (s1, .value idx)
    else
      -- Take the corresponding `usize` from the layer below
      let s2 := s1.setMask (level - 1) (WL.getFromLayer (level - 1) idx)
      (s2.setPfx (level - 1) (shl32 idx 6), .cont)

/-! ### Termination of the `'find` loop: clearing the first set bit makes a word smaller -/

theorem clearFirst_lt {w : Nat} (hz : w ≠ 0) : w &&& wnot (shl 1 (trailingZeros w)) < w := by
  obtain ⟨h1, h2, h3⟩ := tzAux_spec 64 w
  have hle : w &&& wnot (shl 1 (trailingZeros w)) ≤ w := Nat.and_le_left
  by_cases ht : trailingZeros w < 64
  · have hbit : w.testBit (trailingZeros w) = true := h3 ht
    have hne : w &&& wnot (shl 1 (trailingZeros w)) ≠ w := by
      intro e
      have := congrArg (fun x => x.testBit (trailingZeros w)) e
      simp only [Nat.testBit_and, testBit_wnot, shl_one ht, Nat.testBit_two_pow, hbit, ht] at this
      simp at this
    omega
  · have e64 : trailingZeros w = 64 := by have := trailingZeros_le w; omega
    have hlow : w % 2 ^ 64 = 0 := by
      apply Nat.eq_of_testBit_eq
      intro i
      rw [Nat.testBit_mod_two_pow, Nat.zero_testBit]
      by_cases hi : i < 64
      · rw [h2 i (by unfold trailingZeros at e64; omega)]; simp
      · simp [hi]
    have : w &&& wnot (shl 1 (trailingZeros w)) = 0 := by
      rw [e64]
      have e0 : shl 1 64 = 0 := by decide +kernel
      rw [e0, wnot_zero, Nat.and_two_pow_sub_one_eq_mod, hlow]
    omega

/-! ### What `handle_level` does at each level -/

theorem whandle_empty {WL : WLayers} {s : WIt} {level : Nat} (h : s.mask level = 0) :
    whandle WL s level = (s, .empty) := by
  simp [whandle, h]

theorem whandle0 (WL : WLayers) {s : WIt} (h : s.m0 ≠ 0) :
    whandle WL s 0 = ({ s with m0 := s.m0 &&& wnot (shl 1 (trailingZeros s.m0)) },
      .value (s.p0 ||| trailingZeros s.m0)) := by
  simp [whandle, WIt.mask, WIt.setMask, WIt.pfx, h]

theorem whandle1 (WL : WLayers) {s : WIt} (h : s.m1 ≠ 0) :
    whandle WL s 1 = ({ s with m1 := s.m1 &&& wnot (shl 1 (trailingZeros s.m1)),
                               m0 := WL.l0 (s.p1 ||| trailingZeros s.m1),
                               p0 := shl32 (s.p1 ||| trailingZeros s.m1) 6 }, .cont) := by
  simp [whandle, WIt.mask, WIt.setMask, WIt.pfx, WIt.setPfx, WLayers.getFromLayer, h]

theorem whandle2 (WL : WLayers) {s : WIt} (h : s.m2 ≠ 0) :
    whandle WL s 2 = ({ s with m2 := s.m2 &&& wnot (shl 1 (trailingZeros s.m2)),
                               m1 := WL.l1 (s.p2 ||| trailingZeros s.m2),
                               p1 := shl32 (s.p2 ||| trailingZeros s.m2) 6 }, .cont) := by
  simp [whandle, WIt.mask, WIt.setMask, WIt.pfx, WIt.setPfx, WLayers.getFromLayer, h]

theorem whandle3 (WL : WLayers) {s : WIt} (h : s.m3 ≠ 0) :
    whandle WL s 3 = ({ s with m3 := s.m3 &&& wnot (shl 1 (trailingZeros s.m3)),
                               m2 := WL.l2 (trailingZeros s.m3),
                               p2 := shl32 (trailingZeros s.m3) 6 }, .cont) := by
  simp [whandle, WIt.mask, WIt.setMask, WIt.pfx, WIt.setPfx, WLayers.getFromLayer, h]

/-- The outcomes of `handle_level(level)`, `level < 4`, as far as the loop's termination and shape
    are concerned. -/
theorem whandle_cases (WL : WLayers) (s : WIt) {level : Nat} (hl : level < 4) :
    (s.mask level = 0 ∧ whandle WL s level = (s, .empty)) ∨
    (level = 0 ∧ s.m0 ≠ 0 ∧ ∃ s' v, whandle WL s level = (s', .value v)) ∨
    (∃ s', whandle WL s level = (s', .cont) ∧
      ((level = 1 ∧ s'.m3 = s.m3 ∧ s'.m2 = s.m2 ∧ s'.m1 < s.m1) ∨
       (level = 2 ∧ s'.m3 = s.m3 ∧ s'.m2 < s.m2) ∨ (level = 3 ∧ s'.m3 < s.m3))) := by
  by_cases hz : s.mask level = 0
  · exact Or.inl ⟨hz, whandle_empty hz⟩
  · right
    have h4 : level = 0 ∨ level = 1 ∨ level = 2 ∨ level = 3 := by omega
    rcases h4 with rfl | rfl | rfl | rfl
    · exact Or.inl ⟨rfl, hz, _, _, whandle0 WL hz⟩
    · exact Or.inr ⟨_, whandle1 WL hz, Or.inl ⟨rfl, rfl, rfl, clearFirst_lt hz⟩⟩
    · exact Or.inr ⟨_, whandle2 WL hz, Or.inr (Or.inl ⟨rfl, rfl, clearFirst_lt hz⟩)⟩
    · exact Or.inr ⟨_, whandle3 WL hz, Or.inr (Or.inr ⟨rfl, clearFirst_lt hz⟩)⟩

set_option linter.unusedVariables false in
/-- `BitIter::next`:
    ```
    'find: loop {
        for level in 0..LAYERS {
            match self.handle_level(level) {
                Value(v) => return Some(v),
                Continue => continue 'find,
                Empty => {}
            }
        }
        return None;
    }
    ```
    `wfind WL s level` is the loop standing at iteration `level` of the `for`. It terminates because
    `Continue` clears a bit of `masks[level]` and touches only lower levels. -/
def wfind (WL : WLayers) (s : WIt) (level : Nat) : Option (Nat × WIt) :=
  if hl : level < 4 then
    match h : whandle WL s level with
    | (s', .value v) => some (v, s')
    | (s', .cont) => wfind WL s' 0
    | (s', .empty) => wfind WL s' (level + 1)
  else none
termination_by (s.m3, s.m2, s.m1, s.m0, 4 - level)
decreasing_by
  · rcases whandle_cases WL s hl with ⟨_, e⟩ | ⟨_, _, _, _, e⟩ | ⟨s'', e, hc⟩
    · rw [e] at h; cases h
    · rw [e] at h; cases h
    · rw [e] at h
      cases h
      simp only [Prod.lex_def]
      omega
  · rcases whandle_cases WL s hl with ⟨_, e⟩ | ⟨_, _, _, _, e⟩ | ⟨s'', e, hc⟩
    · rw [e] at h
      cases h
      simp only [Prod.lex_def, Nat.lt_irrefl, true_and, false_or]
      omega
    · rw [e] at h; cases h
    · rw [e] at h; cases h

def wnext (WL : WLayers) (s : WIt) : Option (Nat × WIt) := wfind WL s 0

/-- `BitSetLike::iter`: `BitIter::new(self, [0, 0, 0, layer3], [0; 3])`. -/
def wfresh (WL : WLayers) : WIt :=
  { m0 := 0, m1 := 0, m2 := 0, m3 := WL.l3, p0 := 0, p1 := 0, p2 := 0 }

/-- Drain the word-level iterator (at most `fuel` items). -/
def wcollect (WL : WLayers) : Nat → WIt → List Nat
  | 0, _ => []
  | n + 1, s =>
    match wnext WL s with
    | none => []
    | some (x, s') => x :: wcollect WL n s'

/-! ### Abstraction of the iterator state and its invariant -/

def WIt.toIt (s : WIt) : It :=
  { m0 := bits s.m0, m1 := bits s.m1, m2 := bits s.m2, m3 := bits s.m3,
    p0 := s.p0, p1 := s.p1, p2 := s.p2 }

structure WIt.OK (s : WIt) : Prop where
  lt0 : s.m0 < 2 ^ 64
  lt1 : s.m1 < 2 ^ 64
  lt2 : s.m2 < 2 ^ 64
  lt3 : s.m3 < 2 ^ 64
  al0 : s.p0 % 64 = 0
  al1 : s.p1 % 64 = 0
  al2 : s.p2 % 64 = 0
  bd0 : s.p0 < 2 ^ 24
  bd1 : s.p1 < 2 ^ 18
  bd2 : s.p2 < 2 ^ 12

theorem wfresh_ok {WL : WLayers} (h : WL.OK) : (wfresh WL).OK :=
  ⟨Nat.two_pow_pos 64, Nat.two_pow_pos 64, Nat.two_pow_pos 64, h.h3, rfl, rfl, rfl,
   Nat.two_pow_pos 24, Nat.two_pow_pos 18, Nat.two_pow_pos 12⟩

theorem wfresh_toIt (WL : WLayers) : (wfresh WL).toIt = fresh WL.toLayers := by
  simp [wfresh, WIt.toIt, fresh, bits_zero, WLayers.toLayers]

/-! ### One-step unfoldings of the list-level `next` -/

theorem next_m0 (L : Layers) {s : It} {b : Nat} {rest : List Nat} (h0 : s.m0 = b :: rest) :
    next L s = some (s.p0 + b, { s with m0 := rest }) := by
  rw [next]
  split
  · rename_i b' rest' h
    rw [h0] at h; cases h; rfl
  · rename_i h; rw [h0] at h; cases h

theorem next_m1 (L : Layers) {s : It} {b : Nat} {rest : List Nat} (h0 : s.m0 = [])
    (h1 : s.m1 = b :: rest) :
    next L s = next L { s with m1 := rest, m0 := L.l0 (s.p1 + b), p0 := (s.p1 + b) * B } := by
  rw [next]
  split
  · rename_i h; rw [h0] at h; cases h
  · split
    · rename_i b' rest' h
      rw [h1] at h; cases h; rfl
    · rename_i h; rw [h1] at h; cases h

theorem next_m2 (L : Layers) {s : It} {b : Nat} {rest : List Nat} (h0 : s.m0 = []) (h1 : s.m1 = [])
    (h2 : s.m2 = b :: rest) :
    next L s = next L { s with m2 := rest, m1 := L.l1 (s.p2 + b), p1 := (s.p2 + b) * B } := by
  rw [next]
  split
  · rename_i h; rw [h0] at h; cases h
  · split
    · rename_i h; rw [h1] at h; cases h
    · split
      · rename_i b' rest' h
        rw [h2] at h; cases h; rfl
      · rename_i h; rw [h2] at h; cases h

theorem next_m3 (L : Layers) {s : It} {b : Nat} {rest : List Nat} (h0 : s.m0 = []) (h1 : s.m1 = [])
    (h2 : s.m2 = []) (h3 : s.m3 = b :: rest) :
    next L s = next L { s with m3 := rest, m2 := L.l2 b, p2 := b * B } := by
  rw [next]
  split
  · rename_i h; rw [h0] at h; cases h
  · split
    · rename_i h; rw [h1] at h; cases h
    · split
      · rename_i h; rw [h2] at h; cases h
      · split
        · rename_i b' rest' h
          rw [h3] at h; cases h; rfl
        · rename_i h; rw [h3] at h; cases h

theorem next_none (L : Layers) {s : It} (h0 : s.m0 = []) (h1 : s.m1 = []) (h2 : s.m2 = [])
    (h3 : s.m3 = []) : next L s = none := by
  rw [next]
  split
  · rename_i h; rw [h0] at h; cases h
  · split
    · rename_i h; rw [h1] at h; cases h
    · split
      · rename_i h; rw [h2] at h; cases h
      · split
        · rename_i h; rw [h3] at h; cases h
        · rfl

/-! ### Inversion of `handle_level`'s outcomes -/

theorem whandle_value {WL : WLayers} {s s' : WIt} {level v : Nat} (hl : level < 4)
    (h : whandle WL s level = (s', .value v)) :
    level = 0 ∧ s.m0 ≠ 0 ∧ s' = { s with m0 := s.m0 &&& wnot (shl 1 (trailingZeros s.m0)) } ∧
      v = s.p0 ||| trailingZeros s.m0 := by
  by_cases hz : s.mask level = 0
  · rw [whandle_empty hz] at h; cases h
  · have h4 : level = 0 ∨ level = 1 ∨ level = 2 ∨ level = 3 := by omega
    rcases h4 with rfl | rfl | rfl | rfl
    · rw [whandle0 WL hz] at h
      cases h
      exact ⟨rfl, hz, rfl, rfl⟩
    · rw [whandle1 WL hz] at h; cases h
    · rw [whandle2 WL hz] at h; cases h
    · rw [whandle3 WL hz] at h; cases h

theorem whandle_cont {WL : WLayers} {s s' : WIt} {level : Nat} (hl : level < 4)
    (h : whandle WL s level = (s', .cont)) :
    (level = 1 ∧ s.m1 ≠ 0 ∧
      s' = { s with m1 := s.m1 &&& wnot (shl 1 (trailingZeros s.m1)),
                    m0 := WL.l0 (s.p1 ||| trailingZeros s.m1),
                    p0 := shl32 (s.p1 ||| trailingZeros s.m1) 6 }) ∨
    (level = 2 ∧ s.m2 ≠ 0 ∧
      s' = { s with m2 := s.m2 &&& wnot (shl 1 (trailingZeros s.m2)),
                    m1 := WL.l1 (s.p2 ||| trailingZeros s.m2),
                    p1 := shl32 (s.p2 ||| trailingZeros s.m2) 6 }) ∨
    (level = 3 ∧ s.m3 ≠ 0 ∧
      s' = { s with m3 := s.m3 &&& wnot (shl 1 (trailingZeros s.m3)),
                    m2 := WL.l2 (trailingZeros s.m3),
                    p2 := shl32 (trailingZeros s.m3) 6 }) := by
  by_cases hz : s.mask level = 0
  · rw [whandle_empty hz] at h; cases h
  · have h4 : level = 0 ∨ level = 1 ∨ level = 2 ∨ level = 3 := by omega
    rcases h4 with rfl | rfl | rfl | rfl
    · rw [whandle0 WL hz] at h; cases h
    · rw [whandle1 WL hz] at h; cases h; exact Or.inl ⟨rfl, hz, rfl⟩
    · rw [whandle2 WL hz] at h; cases h; exact Or.inr (Or.inl ⟨rfl, hz, rfl⟩)
    · rw [whandle3 WL hz] at h; cases h; exact Or.inr (Or.inr ⟨rfl, hz, rfl⟩)

theorem whandle_empty_inv {WL : WLayers} {s s' : WIt} {level : Nat} (hl : level < 4)
    (h : whandle WL s level = (s', .empty)) : s.mask level = 0 ∧ s' = s := by
  by_cases hz : s.mask level = 0
  · rw [whandle_empty hz] at h; cases h; exact ⟨hz, rfl⟩
  · have h4 : level = 0 ∨ level = 1 ∨ level = 2 ∨ level = 3 := by omega
    rcases h4 with rfl | rfl | rfl | rfl
    · rw [whandle0 WL hz] at h; cases h
    · rw [whandle1 WL hz] at h; cases h
    · rw [whandle2 WL hz] at h; cases h
    · rw [whandle3 WL hz] at h; cases h

/-! ### One `Continue` step commutes with the abstraction and keeps the invariant -/

/-- A non-zero `usize` has a first bit. -/
theorem bits_cons_of_ne_zero {w : Nat} (h : w < 2 ^ 64) (hz : w ≠ 0) :
    ∃ b rest, bits w = b :: rest ∧ b < 64 ∧ trailingZeros w = b ∧
      bits (w &&& wnot (shl 1 (trailingZeros w))) = rest := by
  cases hb : bits w with
  | nil => exact absurd hb ((bits_ne_nil h).mpr hz)
  | cons b rest =>
    refine ⟨b, rest, rfl, ?_, trailingZeros_eq_head hb, bits_clear_first hb⟩
    exact ((mem_bits w b).mp (by rw [hb]; exact List.mem_cons_self)).1

theorem step1 {WL : WLayers} (hL : WL.OK) {s : WIt} (hs : s.OK) {b : Nat} {rest : List Nat}
    (hb : bits s.m1 = b :: rest) :
    let s' : WIt := { s with m1 := s.m1 &&& wnot (shl 1 (trailingZeros s.m1)),
                             m0 := WL.l0 (s.p1 ||| trailingZeros s.m1),
                             p0 := shl32 (s.p1 ||| trailingZeros s.m1) 6 }
    s'.toIt = { s.toIt with m1 := rest, m0 := WL.toLayers.l0 (s.toIt.p1 + b),
                            p0 := (s.toIt.p1 + b) * B } ∧ s'.OK := by
  intro s'
  have hb64 : b < 64 := ((mem_bits _ b).mp (by rw [hb]; exact List.mem_cons_self)).1
  have e1 : trailingZeros s.m1 = b := trailingZeros_eq_head hb
  have ec : bits (s.m1 &&& wnot (shl 1 b)) = rest := by rw [← e1]; exact bits_clear_first hb
  have e2 : s.p1 ||| b = s.p1 + b := or_eq_add hs.al1 hb64
  have hbd := hs.bd1
  have hal := hs.al1
  have e3 : shl32 (s.p1 + b) 6 = (s.p1 + b) * 64 := shl32_six (by omega)
  constructor
  · simp only [s', WIt.toIt, WLayers.toLayers, ec, e1, e2, e3, B]
  · refine ⟨hL.h0 _, and_lt_left _ hs.lt1, hs.lt2, hs.lt3, ?_, hs.al1, hs.al2, ?_, hs.bd1, hs.bd2⟩
    · simp only [s', e1, e2, e3]; omega
    · simp only [s', e1, e2, e3]; omega

theorem step2 {WL : WLayers} (hL : WL.OK) {s : WIt} (hs : s.OK) {b : Nat} {rest : List Nat}
    (hb : bits s.m2 = b :: rest) :
    let s' : WIt := { s with m2 := s.m2 &&& wnot (shl 1 (trailingZeros s.m2)),
                             m1 := WL.l1 (s.p2 ||| trailingZeros s.m2),
                             p1 := shl32 (s.p2 ||| trailingZeros s.m2) 6 }
    s'.toIt = { s.toIt with m2 := rest, m1 := WL.toLayers.l1 (s.toIt.p2 + b),
                            p1 := (s.toIt.p2 + b) * B } ∧ s'.OK := by
  intro s'
  have hb64 : b < 64 := ((mem_bits _ b).mp (by rw [hb]; exact List.mem_cons_self)).1
  have e1 : trailingZeros s.m2 = b := trailingZeros_eq_head hb
  have ec : bits (s.m2 &&& wnot (shl 1 b)) = rest := by rw [← e1]; exact bits_clear_first hb
  have e2 : s.p2 ||| b = s.p2 + b := or_eq_add hs.al2 hb64
  have hbd := hs.bd2
  have hal := hs.al2
  have e3 : shl32 (s.p2 + b) 6 = (s.p2 + b) * 64 := shl32_six (by omega)
  constructor
  · simp only [s', WIt.toIt, WLayers.toLayers, ec, e1, e2, e3, B]
  · refine ⟨hs.lt0, hL.h1 _, and_lt_left _ hs.lt2, hs.lt3, hs.al0, ?_, hs.al2, hs.bd0, ?_, hs.bd2⟩
    · simp only [s', e1, e2, e3]; omega
    · simp only [s', e1, e2, e3]; omega

theorem step3 {WL : WLayers} (hL : WL.OK) {s : WIt} (hs : s.OK) {b : Nat} {rest : List Nat}
    (hb : bits s.m3 = b :: rest) :
    let s' : WIt := { s with m3 := s.m3 &&& wnot (shl 1 (trailingZeros s.m3)),
                             m2 := WL.l2 (trailingZeros s.m3),
                             p2 := shl32 (trailingZeros s.m3) 6 }
    s'.toIt = { s.toIt with m3 := rest, m2 := WL.toLayers.l2 b, p2 := b * B } ∧ s'.OK := by
  intro s'
  have hb64 : b < 64 := ((mem_bits _ b).mp (by rw [hb]; exact List.mem_cons_self)).1
  have e1 : trailingZeros s.m3 = b := trailingZeros_eq_head hb
  have ec : bits (s.m3 &&& wnot (shl 1 b)) = rest := by rw [← e1]; exact bits_clear_first hb
  have e3 : shl32 b 6 = b * 64 := shl32_six (by omega)
  constructor
  · simp only [s', WIt.toIt, WLayers.toLayers, ec, e1, e3, B]
  · refine ⟨hs.lt0, hs.lt1, hL.h2 _, and_lt_left _ hs.lt3, hs.al0, hs.al1, ?_, hs.bd0, hs.bd1, ?_⟩
    · simp only [s', e1, e3]; omega
    · simp only [s', e1, e3]; omega

/-! ### The refinement theorem -/

/-- The loop standing at `level` (all masks below `level` are zero) computes the list-level `next`
    of the abstracted state, and hands back a state satisfying the invariant and an index below
    `2^24`. -/
theorem wfind_refines (WL : WLayers) (hL : WL.OK) (s : WIt) (level : Nat) :
    s.OK → (∀ l, l < level → s.mask l = 0) →
    (wfind WL s level).map (fun r => (r.1, r.2.toIt)) = next WL.toLayers s.toIt ∧
    (∀ x s', wfind WL s level = some (x, s') → s'.OK ∧ x < 2 ^ 24) := by
  fun_induction wfind WL s level with
  | case1 s level hl s' v h =>
    intro hs _
    obtain ⟨rfl, hz, rfl, rfl⟩ := whandle_value hl h
    obtain ⟨b, rest, hb, hb64, e1, e2⟩ := bits_cons_of_ne_zero hs.lt0 hz
    have hadd : s.p0 ||| b = s.p0 + b := or_eq_add hs.al0 hb64
    have hbd := hs.bd0
    have hal := hs.al0
    constructor
    · rw [next_m0 WL.toLayers (s := s.toIt) hb]
      rw [e1] at e2
      simp only [Option.map_some, WIt.toIt, e1, e2, hadd]
    · intro x s'' hx
      cases hx
      refine ⟨⟨and_lt_left _ hs.lt0, hs.lt1, hs.lt2, hs.lt3, hs.al0, hs.al1, hs.al2, hs.bd0, hs.bd1,
        hs.bd2⟩, ?_⟩
      rw [e1, hadd]; omega
  | case2 s level hl s' h ih =>
    intro hs hlow
    rcases whandle_cont hl h with ⟨rfl, hz, rfl⟩ | ⟨rfl, hz, rfl⟩ | ⟨rfl, hz, rfl⟩
    · have z0 : s.m0 = 0 := hlow 0 (by omega)
      obtain ⟨b, rest, hb, -, -, -⟩ := bits_cons_of_ne_zero hs.lt1 hz
      obtain ⟨et, hok⟩ := step1 hL hs hb
      have hn := next_m1 WL.toLayers (s := s.toIt) (b := b) (rest := rest)
        (by simp [WIt.toIt, z0, bits_zero]) hb
      obtain ⟨i1, i2⟩ := ih hok (fun l hl => absurd hl (Nat.not_lt_zero l))
      exact ⟨by rw [i1, hn, et], i2⟩
    · have z0 : s.m0 = 0 := hlow 0 (by omega)
      have z1 : s.m1 = 0 := hlow 1 (by omega)
      obtain ⟨b, rest, hb, -, -, -⟩ := bits_cons_of_ne_zero hs.lt2 hz
      obtain ⟨et, hok⟩ := step2 hL hs hb
      have hn := next_m2 WL.toLayers (s := s.toIt) (b := b) (rest := rest)
        (by simp [WIt.toIt, z0, bits_zero]) (by simp [WIt.toIt, z1, bits_zero]) hb
      obtain ⟨i1, i2⟩ := ih hok (fun l hl => absurd hl (Nat.not_lt_zero l))
      exact ⟨by rw [i1, hn, et], i2⟩
    · have z0 : s.m0 = 0 := hlow 0 (by omega)
      have z1 : s.m1 = 0 := hlow 1 (by omega)
      have z2 : s.m2 = 0 := hlow 2 (by omega)
      obtain ⟨b, rest, hb, -, -, -⟩ := bits_cons_of_ne_zero hs.lt3 hz
      obtain ⟨et, hok⟩ := step3 hL hs hb
      have hn := next_m3 WL.toLayers (s := s.toIt) (b := b) (rest := rest)
        (by simp [WIt.toIt, z0, bits_zero]) (by simp [WIt.toIt, z1, bits_zero])
        (by simp [WIt.toIt, z2, bits_zero]) hb
      obtain ⟨i1, i2⟩ := ih hok (fun l hl => absurd hl (Nat.not_lt_zero l))
      exact ⟨by rw [i1, hn, et], i2⟩
  | case3 s level hl s' h ih =>
    intro hs hlow
    obtain ⟨hz, rfl⟩ := whandle_empty_inv hl h
    apply ih hs
    intro l hl'
    by_cases e : l = level
    · rw [e]; exact hz
    · exact hlow l (by omega)
  | case4 s level hl =>
    intro hs hlow
    have z0 : s.m0 = 0 := hlow 0 (by omega)
    have z1 : s.m1 = 0 := hlow 1 (by omega)
    have z2 : s.m2 = 0 := hlow 2 (by omega)
    have z3 : s.m3 = 0 := hlow 3 (by omega)
    constructor
    · rw [next_none WL.toLayers (s := s.toIt) (by simp [WIt.toIt, z0, bits_zero])
        (by simp [WIt.toIt, z1, bits_zero]) (by simp [WIt.toIt, z2, bits_zero])
        (by simp [WIt.toIt, z3, bits_zero])]
      rfl
    · intro x s' hx; cases hx

/-- **Level C, one step.** The word-level `BitIter::next` commutes with the abstraction `bits`. -/
theorem wnext_refines {WL : WLayers} (hL : WL.OK) {s : WIt} (hs : s.OK) :
    (wnext WL s).map (fun r => (r.1, r.2.toIt)) = next WL.toLayers s.toIt :=
  (wfind_refines WL hL s 0 hs (fun l hl => absurd hl (Nat.not_lt_zero l))).1

/-- … keeps the invariant (so no shift ever loses a bit) … -/
theorem wnext_ok {WL : WLayers} (hL : WL.OK) {s : WIt} (hs : s.OK) {x : Nat} {s' : WIt}
    (h : wnext WL s = some (x, s')) : s'.OK :=
  ((wfind_refines WL hL s 0 hs (fun l hl => absurd hl (Nat.not_lt_zero l))).2 x s' h).1

/-- … and yields indices inside the index space (`Index = u32` never overflows). -/
theorem wnext_lt {WL : WLayers} (hL : WL.OK) {s : WIt} (hs : s.OK) {x : Nat} {s' : WIt}
    (h : wnext WL s = some (x, s')) : x < 2 ^ 24 :=
  ((wfind_refines WL hL s 0 hs (fun l hl => absurd hl (Nat.not_lt_zero l))).2 x s' h).2

/-- **Level C, drained.** The word-level iterator yields the list the Level-B iterator yields. -/
theorem wcollect_refines {WL : WLayers} (hL : WL.OK) : ∀ (n : Nat) (s : WIt), s.OK →
    wcollect WL n s = collect WL.toLayers n s.toIt := by
  intro n
  induction n with
  | zero => intro s _; rfl
  | succ n ih =>
    intro s hs
    have hr := wnext_refines hL hs
    unfold wcollect collect
    cases hx : wnext WL s with
    | none =>
      rw [hx] at hr
      simp only [Option.map_none] at hr
      rw [← hr]
    | some r =>
      obtain ⟨x, s'⟩ := r
      rw [hx] at hr
      simp only [Option.map_some] at hr
      rw [← hr]
      simp only
      rw [ih s' (wnext_ok hL hs hx)]

/-! ### Well-formedness and `contains` in word terms -/

/-- Summary soundness stated on words: a non-zero word has its summary bit set one layer up. -/
structure WLayers.Sound (WL : WLayers) : Prop where
  s2 : ∀ n, n < 64 → WL.l2 n ≠ 0 → WL.l3.testBit n = true
  s1 : ∀ n, n < 64 * 64 → WL.l1 n ≠ 0 → (WL.l2 (n >>> 6)).testBit (n &&& 63) = true
  s0 : ∀ n, n < 64 * 64 * 64 → WL.l0 n ≠ 0 → (WL.l1 (n >>> 6)).testBit (n &&& 63) = true

/-- Word-level layers with `usize` words and sound summaries abstract to well-formed Level-B layers. -/
theorem wf_toLayers {WL : WLayers} (hL : WL.OK) (hs : WL.Sound) : WF WL.toLayers where
  w3 := word_bits _
  w2 _ := word_bits _
  w1 _ := word_bits _
  w0 _ := word_bits _
  s2 n hn hne := by
    have := hs.s2 n hn ((bits_ne_nil (hL.h2 n)).mp hne)
    exact (mem_bits _ _).mpr ⟨hn, this⟩
  s1 n hn hne := by
    have := hs.s1 n hn ((bits_ne_nil (hL.h1 n)).mp hne)
    rw [shr_six, and_63] at this
    exact (mem_bits _ _).mpr ⟨Nat.mod_lt _ (by decide), this⟩
  s0 n hn hne := by
    have := hs.s0 n hn ((bits_ne_nil (hL.h0 n)).mp hne)
    rw [shr_six, and_63] at this
    exact (mem_bits _ _).mpr ⟨Nat.mod_lt _ (by decide), this⟩

/-- `BitSet::contains`: `(self.layer0[id.offset(SHIFT1)] & id.mask(SHIFT0)) != 0` (a word beyond
    `layer0.len()` reads as 0, which gives the `p0 < len` conjunct). -/
def WLayers.contains (WL : WLayers) (id : Nat) : Bool := WL.l0 (offset id 6) &&& rmask id 0 != 0

theorem contains_toLayers (WL : WLayers) (id : Nat) : WL.toLayers.contains id = WL.contains id := by
  apply bool_eq_of_iff
  obtain ⟨r0, -, -, -, o0, -, -⟩ := rows_offsets id
  unfold WLayers.contains rmask Layers.contains
  simp only [bne_iff_ne]
  rw [and_bit_ne_zero _ (row_lt id 0), r0, o0]
  rfl

/-! ### Fuel-bounded twins for kernel evaluation

  `wfind` is defined by well-founded recursion, which the kernel does not unfold; the examples
  evaluate these structurally recursive twins and transfer the result (`wcollectF_eq`). The outer
  `Option` is `none` when the fuel ran out (then nothing is claimed). -/

def wfindF (WL : WLayers) : Nat → WIt → Nat → Option (Option (Nat × WIt))
  | 0, _, _ => none
  | fuel + 1, s, level =>
    if level < 4 then
      match whandle WL s level with
      | (s', .value v) => some (some (v, s'))
      | (s', .cont) => wfindF WL fuel s' 0
      | (s', .empty) => wfindF WL fuel s' (level + 1)
    else some none

theorem wfindF_eq (WL : WLayers) : ∀ (fuel : Nat) (s : WIt) (level : Nat) (r : Option (Nat × WIt)),
    wfindF WL fuel s level = some r → wfind WL s level = r := by
  intro fuel
  induction fuel with
  | zero => intro s level r h; cases h
  | succ fuel ih =>
    intro s level r h
    rw [wfind]
    unfold wfindF at h
    by_cases hl : level < 4
    · simp only [hl, if_true, dite_true] at h ⊢
      split
      · rename_i s' v e; rw [e] at h; cases h; rfl
      · rename_i s' e; rw [e] at h; exact ih _ _ _ h
      · rename_i s' e; rw [e] at h; exact ih _ _ _ h
    · simp only [hl, if_false, dite_false] at h ⊢
      cases h; rfl

def wcollectF (WL : WLayers) (fuel : Nat) : Nat → WIt → Option (List Nat)
  | 0, _ => some []
  | n + 1, s =>
    match wfindF WL fuel s 0 with
    | none => none
    | some none => some []
    | some (some (x, s')) => (wcollectF WL fuel n s').map (x :: ·)

theorem wcollectF_eq (WL : WLayers) (fuel : Nat) : ∀ (n : Nat) (s : WIt) (l : List Nat),
    wcollectF WL fuel n s = some l → wcollect WL n s = l := by
  intro n
  induction n with
  | zero => intro s l h; cases h; rfl
  | succ n ih =>
    intro s l h
    unfold wcollectF at h
    unfold wcollect wnext
    cases hf : wfindF WL fuel s 0 with
    | none => rw [hf] at h; cases h
    | some r =>
      rw [hf] at h
      rw [wfindF_eq WL fuel s 0 r hf]
      cases r with
      | none => cases h; rfl
      | some xs =>
        obtain ⟨x, s'⟩ := xs
        simp only at h ⊢
        cases hc : wcollectF WL fuel n s' with
        | none => rw [hc] at h; cases h
        | some l' =>
          rw [hc] at h
          cases h
          rw [ih s' l' hc]

end SpecsModel.HiBitSet
