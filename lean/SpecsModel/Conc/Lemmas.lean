/-
  Invariant of the shared-access phase (C10) and its preservation by every atomic step.
  Ghost list `issued` (ids in CAS-success order): duplicate-free and equal, as a set, to the popped
  positions `cache[len .. len₀)` plus the fresh ids `[maxId₀ .. maxId)`; per thread, the ids it
  holds or has returned are exactly its entries of `issued`, in order (DESIGN Appendix E).
-/
import SpecsModel.Conc.Model
import SpecsModel.Lemmas.EntRefine
namespace SpecsModel.Conc
open SpecsModel Alloc

/-! ### Definitions -/

/-- Aliveness of a logged handle during the whole phase, as a function of the frozen state only:
    alive at phase start, or the handle the phase creates on an index that was unoccupied. -/
def stableAlive (a0 : Alloc) (e : Entity) : Bool :=
  a0.isAlive e || (!a0.occ e.id && e.gen == 1 - a0.gens.get e.id)

/-- A handle of the log: issued before the phase, or created during it (then its bit is raised). -/
def LogOk (a0 a : Alloc) (e : Entity) : Prop :=
  Valid a0 e ∨ (a0.occ e.id = false ∧ e.gen = 1 - a0.gens.get e.id ∧ a.raised.mem e.id = true)

/-- Ids a thread holds in its program counter. -/
def pcIds (a0 : Alloc) : Pc → List Nat
  | .popped p => [(a0.cache[p - 1]?).getD 0]
  | .have_ i => [i]
  | .done i => [i]
  | _ => []

/-- The call in progress is the head of the remaining program. -/
def PcCall (pc : Pc) (todo : List Call) : Prop :=
  match pc with
  | .idle => True
  | .chk _ _ => ∃ k rest, todo = .delete k :: rest
  | _ => ∃ rest, todo = .create :: rest

def delOkId (ev : Ev) : Option Nat :=
  match ev.call, ev.arg, ev.res with
  | .delete _, some e, .ok => some e.id
  | _, _, _ => none

def entOf (ev : Ev) : Option Entity :=
  match ev.res with
  | .ent e => some e
  | _ => none

/-- What a completed call may have returned. -/
def EvOk (a0 : Alloc) (c : Conf) (ev : Ev) : Prop :=
  match ev.call with
  | .create => ∃ e, ev.res = .ent e ∧ e ∈ c.created
  | .delete _ =>
    (ev.arg = none ∧ ev.res = .skip) ∨
    ∃ e, ev.arg = some e ∧ e ∈ c.log ∧
      ((ev.res = .ok ∧ stableAlive a0 e = true ∧ e.id ∈ c.requested) ∨
       (ev.res = .err ∧ stableAlive a0 e = false))
  | .isAlive _ =>
    (ev.arg = none ∧ ev.res = .skip) ∨
    ∃ e, ev.arg = some e ∧ e ∈ c.log ∧ ev.res = .bool (stableAlive a0 e)
  | .join => ∃ es, ev.res = .ents es
  | .lazy _ => ev.res = .unit

structure ThreadInv (a0 : Alloc) (prog : List Call) (c : Conf) (t : Nat) (th : Thread) : Prop where
  held : (c.issued.filter (fun x => x.1 == t)).map (·.2) = th.rets.map (·.id) ++ pcIds a0 th.pc
  poppedOk : ∀ p, th.pc = .popped p → 0 < p ∧ p ≤ a0.cacheLen
  retsOk : ∀ e, e ∈ th.rets → e ∈ c.created
  doneRaised : ∀ i, th.pc = .done i → c.alloc.raised.mem i = true
  chkOk : ∀ e b, th.pc = .chk e b → e ∈ c.log ∧ b = stableAlive a0 e
  pcCall : PcCall th.pc th.todo
  lazyOk : (c.lazyQ.filter (fun x => x.1 == t)).map (·.2) ++ lazyTags th.todo = lazyTags prog
  callsOk : (c.trace.filter (fun ev => ev.tid == t)).map (·.call) ++ th.todo = prog
  countOk : th.rets.length + nCreates th.todo = nCreates prog

structure PInv (a0 : Alloc) (q0 : List Nat) (L : List Entity) (progs : List (List Call)) (c : Conf) : Prop where
  gensEq : c.alloc.gens = a0.gens
  genLenEq : c.alloc.genLen = a0.genLen
  aliveEq : c.alloc.alive = a0.alive
  cacheEq : c.alloc.cache = a0.cache
  lenLe : c.alloc.cacheLen ≤ a0.cacheLen
  maxGe : a0.maxId ≤ c.alloc.maxId
  initEq : c.initLog = L
  q0Eq : c.lazyQ0 = q0
  sizeEq : c.threads.size = progs.length
  issuedNodup : (c.issued.map (·.2)).Nodup
  issuedMem : ∀ i, i ∈ c.issued.map (·.2) ↔
    (i ∈ a0.free.drop c.alloc.cacheLen ∨ (a0.maxId ≤ i ∧ i < c.alloc.maxId))
  issuedTid : ∀ x, x ∈ c.issued → x.1 < progs.length
  raisedMono : ∀ i, a0.raised.mem i = true → c.alloc.raised.mem i = true
  raisedNew : ∀ i, c.alloc.raised.mem i = true → a0.raised.mem i = true ∨ i ∈ c.issued.map (·.2)
  killedIff : ∀ i, c.alloc.killed.mem i = true ↔ (a0.killed.mem i = true ∨ i ∈ c.requested)
  createdOk : ∀ e, e ∈ c.created →
    a0.occ e.id = false ∧ e.gen = 1 - a0.gens.get e.id ∧ c.alloc.raised.mem e.id = true
  createdOwned : ∀ e, e ∈ c.created → ∃ (t : Nat) (th : Thread), c.threads[t]? = some th ∧ e ∈ th.rets
  createdNodup : (c.created.map (·.id)).Nodup
  requestedOk : ∀ i, i ∈ c.requested → ∃ e, e ∈ c.log ∧ e.id = i ∧ stableAlive a0 e = true
  lazyTid : ∀ x, x ∈ c.lazyQ → x.1 < progs.length
  traceOk : ∀ ev, ev ∈ c.trace → EvOk a0 c ev
  createdEq : c.created = c.trace.filterMap entOf
  requestedEq : c.requested = c.trace.filterMap delOkId
  thr : ∀ t th, c.threads[t]? = some th → ThreadInv a0 (progs.getD t []) c t th

/-- Hypotheses on the start of the phase. -/
structure Start (a0 : Alloc) (L : List Entity) : Prop where
  inv : Inv a0
  logValid : ∀ e, e ∈ L → Valid a0 e

/-! ### Facts about aliveness of logged handles -/

theorem isAlive_phase {a0 a : Alloc} (h0 : Inv a0) (hg : a.gens = a0.gens) (hl : a.genLen = a0.genLen)
    (hm : ∀ i, a0.raised.mem i = true → a.raised.mem i = true) {e : Entity} (he : LogOk a0 a e) :
    a.isAlive e = stableAlive a0 e := by
  have hb := h0.beyond e.id
  have hrd := h0.raisedDead e.id
  have hmono := hm e.id
  rcases he with hv | ⟨hocc, hgen, hr⟩
  · have hi := isAlive_iff h0 e hv.pos hv.le hv.lt
    have hnv := h0.nonVirgin e.id hv.lt
    have hpos := hv.pos
    have hle := hv.le
    unfold stableAlive
    unfold isAlive curGen genAt occ top at *
    simp only [hg, hl]
    by_cases hlen : e.id < a0.genLen
    · simp only [hlen, if_true] at *
      cases hm0 : a0.raised.mem e.id <;> cases hm1 : a.raised.mem e.id <;> simp_all <;> grind
    · have h00 : a0.gens.get e.id = 0 := hb (by omega)
      have hm0 : a0.raised.mem e.id = true := hnv h00
      simp [hlen, h00, hm0] at hle ⊢
  · unfold stableAlive
    simp only [hocc, hgen]
    unfold isAlive curGen genAt occ at *
    simp only [hg, hl]
    by_cases hlen : e.id < a0.genLen
    · simp_all
    · have h00 : a0.gens.get e.id = 0 := hb (by omega)
      simp [hlen, h00, hgen]

/-- A logged handle that is stably alive occupies its index (needed for `killedOcc`). -/
theorem stableAlive_occ {a0 a : Alloc} (h0 : Inv a0)
    (hm : ∀ i, a0.raised.mem i = true → a.raised.mem i = true) {e : Entity} (he : LogOk a0 a e)
    (hs : stableAlive a0 e = true) : 0 < a0.gens.get e.id ∨ a.raised.mem e.id = true := by
  rcases he with hv | ⟨_, _, hr⟩
  · unfold stableAlive at hs
    have hle := hv.le
    simp only [Bool.or_eq_true, Bool.and_eq_true, Bool.not_eq_true', beq_iff_eq] at hs
    rcases hs with hs | ⟨hocc, hgen⟩
    · have := ((isAlive_iff h0 e hv.pos hv.le hv.lt).mp hs).1
      simp only [occ, Bool.or_eq_true, decide_eq_true_eq] at this
      rcases this with h | h
      · exact Or.inl h
      · exact Or.inr (hm _ h)
    · exfalso
      simp only [occ, Bool.or_eq_false_iff, decide_eq_false_iff_not] at hocc
      simp only [top, hocc.2] at hle
      have : ¬ (0 < a0.gens.get e.id) := hocc.1
      simp [this] at hle
      omega
  · exact Or.inr hr

/-- A dead logged handle lies inside `generations` (so `del_err` does not panic). -/
theorem delErrOk_of_stableDead {a0 a : Alloc} (h0 : Inv a0) (hl : a.genLen = a0.genLen)
    {e : Entity} (he : LogOk a0 a e) (hs : stableAlive a0 e = false) : a.delErrOk e = true := by
  unfold stableAlive at hs
  simp only [Bool.or_eq_false_iff] at hs
  rcases he with hv | ⟨hocc, hgen, _⟩
  · have := delErrOk_of_dead h0 e hv.pos hv.le hv.lt hs.1
    simpa [delErrOk, hl] using this
  · simp [hocc, hgen] at hs

/-! ### List helpers -/

theorem filter_snoc_ne {α} (l : List (Nat × α)) (t t1 : Nat) (x : α) (h : t1 ≠ t) :
    (l ++ [(t, x)]).filter (fun y => y.1 == t1) = l.filter (fun y => y.1 == t1) := by
  have : (t == t1) = false := by simp; omega
  simp [List.filter_append, this]

theorem filter_snoc_eq {α} (l : List (Nat × α)) (t : Nat) (x : α) :
    (l ++ [(t, x)]).filter (fun y => y.1 == t) = l.filter (fun y => y.1 == t) ++ [(t, x)] := by
  simp [List.filter_append]

theorem evfilter_snoc_ne (l : List Ev) (ev : Ev) (t1 : Nat) (h : t1 ≠ ev.tid) :
    (l ++ [ev]).filter (fun y => y.tid == t1) = l.filter (fun y => y.tid == t1) := by
  have : (ev.tid == t1) = false := by simp; omega
  simp [List.filter_append, this]

theorem evfilter_snoc_eq (l : List Ev) (ev : Ev) :
    (l ++ [ev]).filter (fun y => y.tid == ev.tid) = l.filter (fun y => y.tid == ev.tid) ++ [ev] := by
  simp [List.filter_append]

theorem snd_inj_of_nodup {α} : ∀ (l : List (Nat × α)), (l.map (·.2)).Nodup →
    ∀ a b x, (a, x) ∈ l → (b, x) ∈ l → a = b := by
  intro l
  induction l with
  | nil => intro _ a b x h; cases h
  | cons y l ih =>
    intro hnd a b x ha hb
    simp only [List.map_cons, List.nodup_cons, List.mem_map, not_exists, not_and] at hnd
    rcases List.mem_cons.mp ha with ha | ha <;> rcases List.mem_cons.mp hb with hb | hb
    · rw [← ha] at hb; exact (Prod.mk.inj hb).1.symm
    · exfalso; exact hnd.1 (b, x) hb (by rw [← ha])
    · exfalso; exact hnd.1 (a, x) ha (by rw [← hb])
    · exact ih hnd.2 a b x ha hb

theorem mem_filter_tid {α} {l : List (Nat × α)} {t : Nat} {x : α}
    (h : x ∈ (l.filter (fun y => y.1 == t)).map (·.2)) : (t, x) ∈ l := by
  simp only [List.mem_map, List.mem_filter, beq_iff_eq] at h
  obtain ⟨⟨a, b⟩, ⟨hm, ht⟩, hx⟩ := h
  simp only at ht hx; subst ht; subst hx; exact hm

theorem filter_tid_nodup {α} {l : List (Nat × α)} (t : Nat) (h : (l.map (·.2)).Nodup) :
    ((l.filter (fun y => y.1 == t)).map (·.2)).Nodup :=
  h.sublist (List.Sublist.map _ List.filter_sublist)

theorem getElem_not_mem_drop {α} {l : List α} (hnd : l.Nodup) {p : Nat} (hp : p < l.length) :
    l[p] ∉ l.drop (p + 1) := by
  intro hin
  have hsplit : l = l.take p ++ l[p] :: l.drop (p + 1) := by
    rw [← List.drop_eq_getElem_cons hp, List.take_append_drop]
  rw [hsplit] at hnd
  have := (List.nodup_append.mp hnd).2.1
  exact (List.nodup_cons.mp this).1 hin

/-! ### Frames -/

theorem ThreadInv.frame {a0 : Alloc} {prog : List Call} {c c' : Conf} {t1 : Nat} {th1 : Thread}
    (h : ThreadInv a0 prog c t1 th1)
    (hi : c'.issued.filter (fun x => x.1 == t1) = c.issued.filter (fun x => x.1 == t1))
    (hc : ∀ e, e ∈ c.created → e ∈ c'.created)
    (hr : ∀ i, c.alloc.raised.mem i = true → c'.alloc.raised.mem i = true)
    (hL : c'.initLog = c.initLog)
    (hq : c'.lazyQ.filter (fun x => x.1 == t1) = c.lazyQ.filter (fun x => x.1 == t1))
    (htr : c'.trace.filter (fun ev => ev.tid == t1) = c.trace.filter (fun ev => ev.tid == t1)) :
    ThreadInv a0 prog c' t1 th1 := by
  refine ⟨by rw [hi]; exact h.held, h.poppedOk, fun e he => hc e (h.retsOk e he),
    fun i hi => hr i (h.doneRaised i hi), ?_, h.pcCall, by rw [hq]; exact h.lazyOk,
    by rw [htr]; exact h.callsOk, h.countOk⟩
  intro e b hb
  obtain ⟨h1, h2⟩ := h.chkOk e b hb
  refine ⟨?_, h2⟩
  simp only [Conf.log, List.mem_append, hL] at h1 ⊢
  rcases h1 with h1 | h1
  · exact Or.inl h1
  · exact Or.inr (hc e h1)

/-- How a step of thread `t` may change the parts of the configuration other threads' invariants
    mention. -/
structure Frame (t : Nat) (c c' : Conf) : Prop where
  issued : c'.issued = c.issued ∨ ∃ x, c'.issued = c.issued ++ [(t, x)]
  created : ∀ e, e ∈ c.created → e ∈ c'.created
  raised : ∀ i, c.alloc.raised.mem i = true → c'.alloc.raised.mem i = true
  initLog : c'.initLog = c.initLog
  lazyQ : c'.lazyQ = c.lazyQ ∨ ∃ x, c'.lazyQ = c.lazyQ ++ [(t, x)]
  trace : c'.trace = c.trace ∨ ∃ ev, ev.tid = t ∧ c'.trace = c.trace ++ [ev]

theorem ThreadInv.of_frame {a0 : Alloc} {prog : List Call} {c c' : Conf} {t t1 : Nat} {th1 : Thread}
    (hf : Frame t c c') (hne : t1 ≠ t) (h : ThreadInv a0 prog c t1 th1) :
    ThreadInv a0 prog c' t1 th1 := by
  apply h.frame
  · rcases hf.issued with h | ⟨x, h⟩
    · rw [h]
    · rw [h, filter_snoc_ne _ _ _ _ hne]
  · exact hf.created
  · exact hf.raised
  · exact hf.initLog
  · rcases hf.lazyQ with h | ⟨x, h⟩
    · rw [h]
    · rw [h, filter_snoc_ne _ _ _ _ hne]
  · rcases hf.trace with h | ⟨ev, he, h⟩
    · rw [h]
    · rw [h, evfilter_snoc_ne _ _ _ (by rw [he]; exact hne)]

theorem thr_update {a0 : Alloc} {progs : List (List Call)} {c c' : Conf} {t : Nat} {th' : Thread}
    (hthr : ∀ t1 th1, c.threads[t1]? = some th1 → ThreadInv a0 (progs.getD t1 []) c t1 th1)
    (hthreads : c'.threads = c.threads.setIfInBounds t th')
    (hnew : ThreadInv a0 (progs.getD t []) c' t th')
    (hf : Frame t c c') :
    ∀ t1 th1, c'.threads[t1]? = some th1 → ThreadInv a0 (progs.getD t1 []) c' t1 th1 := by
  intro t1 th1 hget
  rw [hthreads, Array.getElem?_setIfInBounds] at hget
  by_cases h1 : t = t1
  · subst h1
    simp only [if_true] at hget
    by_cases hlt : t < c.threads.size
    · simp only [hlt, if_true] at hget; cases hget; exact hnew
    · simp [hlt] at hget
  · simp only [h1, if_false] at hget
    exact (hthr t1 th1 hget).of_frame hf (fun h => h1 h.symm)

theorem owned_update {c c' : Conf} {t : Nat} {th th' : Thread}
    (hown : ∀ e, e ∈ c.created → ∃ (t1 : Nat) (th1 : Thread), c.threads[t1]? = some th1 ∧ e ∈ th1.rets)
    (hget : c.threads[t]? = some th)
    (hthreads : c'.threads = c.threads.setIfInBounds t th')
    (hrets : ∀ e, e ∈ th.rets → e ∈ th'.rets) :
    ∀ e, e ∈ c.created → ∃ (t1 : Nat) (th1 : Thread), c'.threads[t1]? = some th1 ∧ e ∈ th1.rets := by
  intro e he
  obtain ⟨t1, th1, hg1, hin⟩ := hown e he
  have hlt : t < c.threads.size := by
    by_cases h : t < c.threads.size
    · exact h
    · simp [Array.getElem?_eq_none (Nat.le_of_not_lt h)] at hget
  by_cases h1 : t = t1
  · subst h1
    rw [hget] at hg1; cases hg1
    exact ⟨t, th', by rw [hthreads, Array.getElem?_setIfInBounds]; simp [hlt], hrets e hin⟩
  · exact ⟨t1, th1, by rw [hthreads, Array.getElem?_setIfInBounds]; simp [h1, hg1], hin⟩

theorem EvOk.mono {a0 : Alloc} {c c' : Conf} {ev : Ev} (h : EvOk a0 c ev)
    (hc : ∀ e, e ∈ c.created → e ∈ c'.created) (hL : c'.initLog = c.initLog)
    (hr : ∀ i, i ∈ c.requested → i ∈ c'.requested) : EvOk a0 c' ev := by
  have hlog : ∀ e, e ∈ c.log → e ∈ c'.log := by
    intro e he
    simp only [Conf.log, List.mem_append, hL] at he ⊢
    rcases he with he | he
    · exact Or.inl he
    · exact Or.inr (hc e he)
  unfold EvOk at *
  split
  · next hcall =>
    simp only [hcall] at h
    obtain ⟨e, h1, h2⟩ := h
    exact ⟨e, h1, hc e h2⟩
  · next hcall =>
    simp only [hcall] at h
    rcases h with h | ⟨e, h1, h2, h3⟩
    · exact Or.inl h
    · refine Or.inr ⟨e, h1, hlog e h2, ?_⟩
      rcases h3 with ⟨a, b, d⟩ | h3
      · exact Or.inl ⟨a, b, hr _ d⟩
      · exact Or.inr h3
  · next hcall =>
    simp only [hcall] at h
    rcases h with h | ⟨e, h1, h2, h3⟩
    · exact Or.inl h
    · exact Or.inr ⟨e, h1, hlog e h2, h3⟩
  · next hcall => simp only [hcall] at h; exact h
  · next hcall => simp only [hcall] at h; exact h

end SpecsModel.Conc
