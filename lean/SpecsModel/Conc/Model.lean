/-
  Small-step model of the *shared-access phase* of a `World` (property C10, DESIGN Appendix E).

  Between two `maintain`s any number of threads hold `Entities` (= `Read<EntitiesRes>`) and
  `Read<LazyUpdate>` and call `create` / `create_iter` / `delete` / `is_alive` / `join` and
  `LazyUpdate::exec`. Through `&self` the allocator's `generations`, `alive` and the `Vec` behind
  `EntityCache::cache` are frozen; `EntityCache::len`, `max_id`, `raised`, `killed` and the lazy
  queue are shared atomics. Every call is cut into the atomic steps separated by the yield points
  of source hook H1 (/repo/src/world/entity.rs, `verif::SITE_*`):

    create   idle      --load len-->                      dec prev            (SITE_DEC_CAS / SITE_INC_ENTRY)
             dec 0     --load max_id-->                   inc prev            (SITE_INC_CAS)
             dec p>0   --CAS len p→p-1 ok-->              popped p            (SITE_POP_SLOT)
                       --CAS failed (changed/spurious)--> dec current         (SITE_DEC_RETRY / SITE_INC_ENTRY)
             popped p  --read cache[p-1]-->               have id             (SITE_ALLOC_RAISE)
             inc p     --CAS max_id p→p+1 ok-->           have p              (SITE_ALLOC_RAISE)
                       --CAS failed-->                    inc current         (SITE_INC_RETRY)
             have id   --raised.fetch_or id-->            done id             (SITE_ALLOC_GEN)
             done id   --read generation, return-->       idle
    delete h idle      --is_alive h (gens + raised)-->    chk h a             (SITE_KILL_ADD / SITE_KILL_ERR)
             chk h t   --killed.fetch_or, return Ok-->    idle
             chk h f   --del_err, return Err-->           idle
    is_alive h / join / lazy tag : one step.

  `create_iter().take(n)` is `n` consecutive `create` calls (`CreateIterAtomic::next` is
  `allocate_atomic`). Handles are referenced by slot `@k` into the per-configuration log
  (initial handles ++ handles returned so far, in return order), modulo its size when the call
  starts. `compare_exchange_weak` may fail spuriously: `stepW` takes a flag for that.

  Ghost state (never read by the code being modelled): `issued` (ids in CAS-success order with the
  issuing thread), `created`, `requested`, `trace` (completed calls with their results).
-/
import SpecsModel.Model.Entity
namespace SpecsModel.Conc
open SpecsModel

inductive Call where
  | create
  | delete (slot : Nat)
  | isAlive (slot : Nat)
  | join
  | lazy (tag : Nat)
  deriving Repr, DecidableEq, Inhabited

inductive Res where
  | ent (e : Entity)
  | ok
  | err
  | bool (b : Bool)
  | ents (es : List Entity)
  | unit
  | skip                     -- slot reference with an empty log
  | panic (why : String)
  deriving Repr, DecidableEq

inductive Pc where
  | idle
  | dec (prev : Nat)         -- inside `atomic_decrement(&cache.len)` holding `prev`
  | popped (prev : Nat)      -- CAS `len: prev → prev-1` succeeded, slot not yet read
  | inc (prev : Nat)         -- inside `atomic_increment(&max_id)` holding `prev`
  | have_ (id : Nat)         -- index chosen, `raised` not yet set
  | done (id : Nat)          -- `raised` set, generation not yet read
  | chk (e : Entity) (alive : Bool)   -- `kill_atomic`: `is_alive(e)` evaluated
  deriving Repr, DecidableEq

structure Thread where
  pc : Pc := .idle
  todo : List Call := []     -- remaining program; its head is the call in progress when `pc ≠ idle`
  rets : List Entity := []   -- handles returned to this thread so far
  deriving Repr

/-- A completed call. -/
structure Ev where
  tid : Nat
  call : Call
  arg : Option Entity        -- the handle a slot resolved to
  res : Res
  deriving Repr, DecidableEq

structure Conf where
  alloc : Alloc              -- frozen part + shared atomics
  lazyQ0 : List Nat          -- actions queued before the phase (frozen prefix of the queue)
  lazyQ : List (Nat × Nat)   -- actions pushed during the phase: (thread, tag), queue order
  threads : Array Thread
  initLog : List Entity      -- handles returned before the phase
  created : List Entity      -- handles returned during the phase, in return order
  issued : List (Nat × Nat)  -- ghost: (thread, id) in CAS-success order
  requested : List Nat       -- ghost: ids whose deletion request returned Ok
  trace : List Ev            -- ghost/output: completed calls in completion order
  deriving Repr

/-- Slot resolution `@k` (same convention as `SpecsModel.resolve`). -/
def resolveL (l : List Entity) (k : Nat) : Option Entity :=
  if l.length = 0 then none else l[k % l.length]?

namespace Conf

def log (c : Conf) : List Entity := c.initLog ++ c.created

/-- The whole lazy queue, front first. -/
def queue (c : Conf) : List Nat := c.lazyQ0 ++ c.lazyQ.map (·.2)

def start (a0 : Alloc) (q0 : List Nat) (initLog : List Entity) (progs : List (List Call)) : Conf :=
  { alloc := a0, lazyQ0 := q0, lazyQ := [],
    threads := (progs.map (fun p => ({ pc := .idle, todo := p, rets := [] } : Thread))).toArray,
    initLog := initLog, created := [], issued := [], requested := [], trace := [] }

def setThread (c : Conf) (t : Nat) (th : Thread) : Conf :=
  { c with threads := c.threads.setIfInBounds t th }

/-- The call at the head of `th.todo` completes with result `r`. -/
def finish (c : Conf) (t : Nat) (th : Thread) (arg : Option Entity) (r : Res) : Conf :=
  { c with threads := c.threads.setIfInBounds t { th with pc := .idle, todo := th.todo.tail },
           trace := c.trace ++ [⟨t, th.todo.headD .join, arg, r⟩] }

/-- First step of a call (thread idle, program not finished). -/
def stepIdle (c : Conf) (t : Nat) (th : Thread) : Conf :=
  match th.todo with
  | [] => c
  | .create :: _ => c.setThread t { th with pc := .dec c.alloc.cacheLen }   -- `len.load`
  | .delete k :: _ =>
    match resolveL c.log k with
    | none => c.finish t th none .skip
    | some e => c.setThread t { th with pc := .chk e (c.alloc.isAlive e) }
  | .isAlive k :: _ =>
    match resolveL c.log k with
    | none => c.finish t th none .skip
    | some e => c.finish t th (some e) (.bool (c.alloc.isAlive e))
  | .join :: _ => c.finish t th none (.ents c.alloc.joinEntities)
  | .lazy tag :: _ => { c.finish t th none .unit with lazyQ := c.lazyQ ++ [(t, tag)] }

/-- `atomic_decrement`: loop head with `prev = p`. -/
def stepDec (c : Conf) (t : Nat) (th : Thread) (p : Nat) (spur : Bool) : Conf :=
  if p = 0 then
    -- loop exits with `None`; `atomic_increment` starts: `max_id.load`
    c.setThread t { th with pc := .inc c.alloc.maxId }
  else if !spur && c.alloc.cacheLen = p then
    -- `compare_exchange_weak(p, p - 1)` succeeds
    { c with alloc := { c.alloc with cacheLen := p - 1 },
             threads := c.threads.setIfInBounds t { th with pc := .popped p },
             issued := c.issued ++ [(t, (c.alloc.cache[p - 1]?).getD 0)] }
  else
    -- failure (value changed, or spurious): `prev = next_prev`
    c.setThread t { th with pc := .dec c.alloc.cacheLen }

/-- `self.cache[x - 1]` after a successful decrement from `x = p`. -/
def stepPopped (c : Conf) (t : Nat) (th : Thread) (p : Nat) : Conf :=
  if p = 0 then c.finish t th none (.panic "pop_atomic: x - 1 underflows")
  else
    match c.alloc.cache[p - 1]? with
    | some id => c.setThread t { th with pc := .have_ id }
    | none => c.finish t th none (.panic "pop_atomic: index out of bounds")

/-- `atomic_increment`: loop head with `prev = p` (`usize::MAX` is out of scope, DESIGN §3). -/
def stepInc (c : Conf) (t : Nat) (th : Thread) (p : Nat) (spur : Bool) : Conf :=
  if !spur && c.alloc.maxId = p then
    { c with alloc := { c.alloc with maxId := p + 1 },
             threads := c.threads.setIfInBounds t { th with pc := .have_ p },
             issued := c.issued ++ [(t, p)] }
  else
    c.setThread t { th with pc := .inc c.alloc.maxId }

/-- `self.raised.add_atomic(id)`. -/
def stepHave (c : Conf) (t : Nat) (th : Thread) (id : Nat) : Conf :=
  { c with alloc := { c.alloc with raised := c.alloc.raised.add id },
           threads := c.threads.setIfInBounds t { th with pc := .done id } }

/-- Generation read and return of `allocate_atomic`. -/
def stepDone (c : Conf) (t : Nat) (th : Thread) (id : Nat) : Conf :=
  let e : Entity := ⟨id, c.alloc.joinGen id⟩
  { c with threads := c.threads.setIfInBounds t
             { th with pc := .idle, todo := th.todo.tail, rets := th.rets ++ [e] },
           created := c.created ++ [e],
           trace := c.trace ++ [⟨t, th.todo.headD .join, none, .ent e⟩] }

/-- Second half of `kill_atomic`. -/
def stepChk (c : Conf) (t : Nat) (th : Thread) (e : Entity) (alive : Bool) : Conf :=
  if alive then
    { c.finish t th (some e) .ok with
        alloc := { c.alloc with killed := c.alloc.killed.add e.id },
        requested := c.requested ++ [e.id] }
  else if c.alloc.delErrOk e then c.finish t th (some e) .err
  else c.finish t th (some e) (.panic "del_err: index out of bounds")

/-- One scheduler tick for thread `t`; `spur` makes a `compare_exchange_weak` fail spuriously.
    Total: a tick for an unknown or finished thread changes nothing. -/
def stepW (c : Conf) (t : Nat) (spur : Bool) : Conf :=
  match c.threads[t]? with
  | none => c
  | some th =>
    match th.pc with
    | .idle => c.stepIdle t th
    | .dec p => c.stepDec t th p spur
    | .popped p => c.stepPopped t th p
    | .inc p => c.stepInc t th p spur
    | .have_ id => c.stepHave t th id
    | .done id => c.stepDone t th id
    | .chk e a => c.stepChk t th e a

/-- One scheduler tick without spurious failure. -/
def step (c : Conf) (t : Nat) : Conf := c.stepW t false

/-- Run a schedule (any list of thread ids). -/
def run (c : Conf) : List Nat → Conf
  | [] => c
  | t :: s => run (c.step t) s

/-- Run a schedule in which each tick may carry a spurious CAS failure. -/
def runW (c : Conf) : List (Nat × Bool) → Conf
  | [] => c
  | x :: s => runW (c.stepW x.1 x.2) s

def threadDone (th : Thread) : Bool := th.pc == .idle && th.todo.isEmpty

/-- All threads idle with their programs finished. -/
def quiescent (c : Conf) : Bool := c.threads.all threadDone

/-- Deterministic completion used after a schedule is exhausted (harness and driver): always tick
    the lowest-numbered unfinished thread. -/
def drain (c : Conf) : Nat → Conf
  | 0 => c
  | fuel + 1 =>
    match c.threads.findIdx? (fun th => !threadDone th) with
    | none => c
    | some t => drain (c.step t) fuel

end Conf

/-- `LazyUpdate::maintain`: pop until empty, running each action (an action appends its tag). -/
def drainLazy : List Nat → List Nat → List Nat
  | [], log => log
  | x :: q, log => drainLazy q (log ++ [x])

/-- The next `maintain` (allocator part and lazy part): merged allocator, deleted handles,
    execution log of the lazy actions. -/
def Conf.maintain (c : Conf) : Out (Alloc × List Entity × List Nat) :=
  match c.alloc.merge with
  | .ok (a, del) => .ok (a, del, drainLazy c.queue [])
  | .panic w => .panic w
  | .ub w => .ub w

def lazyTags : List Call → List Nat
  | [] => []
  | .lazy tag :: cs => tag :: lazyTags cs
  | _ :: cs => lazyTags cs

def nCreates : List Call → Nat
  | [] => 0
  | .create :: cs => nCreates cs + 1
  | _ :: cs => nCreates cs

/-- `create_iter().take(n)` -/
def createIter (n : Nat) : List Call := List.replicate n .create

end SpecsModel.Conc
