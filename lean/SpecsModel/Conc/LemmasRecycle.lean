/-
  Recycling inside a shared-access phase (property C17 for creations that race through `&EntitiesRes`).

  `allocate_atomic` asks the free list first (`atomic_decrement(&cache.len)`, a CAS loop that gives up only
  when it has *read* the length 0) and falls back to `atomic_increment(&max_id)` afterwards. Nothing is pushed
  onto the free list during the phase, so its length never grows: once some thread has read 0 it stays 0.
  `EInv` is that fact as an invariant of the small-step model, independent of the big invariant `PInv`:
  a thread that is past the empty read (`dec 0`, `inc _`) — or a counter that has already advanced — implies an
  empty free list. Together with `PInv.issuedMem` it gives: a never-used index is handed out only after every
  index that was free at the start of the phase has been handed out.
-/
import SpecsModel.Conc.Lemmas
namespace SpecsModel.Conc
open SpecsModel

/-- The thread is past the point where `atomic_decrement` read an empty free list. -/
def pastEmpty : Pc → Prop
  | .dec 0 => True
  | .inc _ => True
  | _ => False

theorem pastEmpty_dec {n : Nat} (h : pastEmpty (.dec n)) : n = 0 := by
  cases n with
  | zero => rfl
  | succ k => exact h.elim

structure EInv (m0 : Nat) (c : Conf) : Prop where
  thr : ∀ (t : Nat) (th : Thread), c.threads[t]? = some th → pastEmpty th.pc → c.alloc.cacheLen = 0
  ctr : m0 < c.alloc.maxId → c.alloc.cacheLen = 0
  mono : m0 ≤ c.alloc.maxId

theorem einv_start (a0 : Alloc) (q0 : List Nat) (L : List Entity) (progs : List (List Call)) :
    EInv a0.maxId (Conf.start a0 q0 L progs) := by
  refine ⟨?_, ?_, ?_⟩
  · intro t th hget hp
    simp only [Conf.start, List.getElem?_toArray, List.getElem?_map] at hget
    cases hpt : progs[t]? with
    | none => simp [hpt] at hget
    | some p =>
      simp only [hpt, Option.map_some, Option.some.injEq] at hget
      subst hget
      exact absurd hp (by simp [pastEmpty])
  · intro h; simp [Conf.start] at h
  · simp [Conf.start]

/-- Threads after `setIfInBounds t th'`. -/
theorem get_set {c : Conf} {t t1 : Nat} {th' th1 : Thread}
    (h : (c.threads.setIfInBounds t th')[t1]? = some th1) :
    (t1 = t ∧ th1 = th') ∨ (t1 ≠ t ∧ c.threads[t1]? = some th1) := by
  rw [Array.getElem?_setIfInBounds] at h
  by_cases h1 : t = t1
  · subst h1
    simp only [if_true] at h
    by_cases hlt : t < c.threads.size
    · simp only [hlt, if_true] at h; cases h; exact .inl ⟨rfl, rfl⟩
    · simp [hlt] at h
  · simp only [h1, if_false] at h
    exact .inr ⟨fun e => h1 e.symm, h⟩

/-- A step that leaves the allocator's `cacheLen` and `maxId` alone and moves thread `t` to a pc that is not
    past the empty read (or keeps the free list empty) preserves `EInv`. -/
theorem einv_frame {m0 : Nat} {c c' : Conf} {t : Nat} {th' : Thread} (h : EInv m0 c)
    (hthreads : c'.threads = c.threads.setIfInBounds t th')
    (hlen : c'.alloc.cacheLen = c.alloc.cacheLen) (hmax : c'.alloc.maxId = c.alloc.maxId)
    (hnew : pastEmpty th'.pc → c.alloc.cacheLen = 0) : EInv m0 c' := by
  refine ⟨?_, ?_, ?_⟩
  · intro t1 th1 hget hp
    rw [hthreads] at hget
    rw [hlen]
    rcases get_set hget with ⟨_, rfl⟩ | ⟨_, hold⟩
    · exact hnew hp
    · exact h.thr t1 th1 hold hp
  · intro hm; rw [hlen]; rw [hmax] at hm; exact h.ctr hm
  · rw [hmax]; exact h.mono

theorem finish_threads (c : Conf) (t : Nat) (th : Thread) (arg : Option Entity) (r : Res) :
    (c.finish t th arg r).threads = c.threads.setIfInBounds t { th with pc := .idle, todo := th.todo.tail } ∧
    (c.finish t th arg r).alloc = c.alloc := ⟨rfl, rfl⟩

theorem einv_finish {m0 : Nat} {c : Conf} (h : EInv m0 c) (t : Nat) (th : Thread) (arg : Option Entity) (r : Res) :
    EInv m0 (c.finish t th arg r) :=
  einv_frame h (finish_threads c t th arg r).1 rfl rfl (fun hp => absurd hp (by simp [pastEmpty]))

/-- One tick preserves `EInv`. -/
theorem einv_stepW {m0 : Nat} {c : Conf} (h : EInv m0 c) (t : Nat) (spur : Bool) : EInv m0 (c.stepW t spur) := by
  unfold Conf.stepW
  cases hget : c.threads[t]? with
  | none => exact h
  | some th =>
    simp only
    cases hpc : th.pc with
    | idle =>
      simp only
      unfold Conf.stepIdle
      cases htodo : th.todo with
      | nil => exact h
      | cons call rest =>
        cases call with
        | create =>
          simp only
          refine einv_frame h rfl rfl rfl ?_
          intro hp
          exact pastEmpty_dec hp
        | delete k =>
          simp only
          cases resolveL c.log k with
          | none => exact einv_finish h _ _ _ _
          | some e =>
            simp only
            exact einv_frame h rfl rfl rfl (fun hp => absurd hp (by simp [pastEmpty]))
        | isAlive k =>
          simp only
          cases resolveL c.log k with
          | none => exact einv_finish h _ _ _ _
          | some e => exact einv_finish h _ _ _ _
        | join => exact einv_finish h _ _ _ _
        | «lazy» tag =>
          simp only
          have := einv_finish h t th none .unit
          exact ⟨this.thr, this.ctr, this.mono⟩
    | dec p =>
      simp only
      unfold Conf.stepDec
      by_cases hp0 : p = 0
      · subst hp0
        simp only [if_true]
        have hz : c.alloc.cacheLen = 0 := h.thr t th hget (by rw [hpc]; simp [pastEmpty])
        exact einv_frame h rfl rfl rfl (fun _ => hz)
      · simp only [hp0, if_false]
        by_cases hs : (!spur && decide (c.alloc.cacheLen = p)) = true
        · simp only [hs, if_true]
          have hlen : c.alloc.cacheLen = p := by
            simp only [Bool.and_eq_true, decide_eq_true_eq] at hs; exact hs.2
          -- nobody is past the empty read and the counter has not moved: the list is not empty
          refine ⟨?_, ?_, ?_⟩
          · intro t1 th1 hg hpe
            simp only at hg
            rcases get_set hg with ⟨_, rfl⟩ | ⟨_, hold⟩
            · exact absurd hpe (by simp [pastEmpty])
            · have := h.thr t1 th1 hold hpe; omega
          · intro hm
            simp only at hm
            have := h.ctr hm; omega
          · exact h.mono
        · simp only [hs]
          refine einv_frame h rfl rfl rfl ?_
          intro hpe
          exact pastEmpty_dec hpe
    | popped p =>
      simp only
      unfold Conf.stepPopped
      by_cases hp0 : p = 0
      · simp only [hp0, if_true]; exact einv_finish h _ _ _ _
      · simp only [hp0, if_false]
        cases c.alloc.cache[p - 1]? with
        | none => exact einv_finish h _ _ _ _
        | some id => exact einv_frame h rfl rfl rfl (fun hp => absurd hp (by simp [pastEmpty]))
    | inc p =>
      simp only
      unfold Conf.stepInc
      have hz : c.alloc.cacheLen = 0 := h.thr t th hget (by rw [hpc]; simp [pastEmpty])
      by_cases hs : (!spur && decide (c.alloc.maxId = p)) = true
      · simp only [hs, if_true]
        have hmax : c.alloc.maxId = p := by
          simp only [Bool.and_eq_true, decide_eq_true_eq] at hs; exact hs.2
        refine ⟨?_, ?_, ?_⟩
        · intro _ _ _ _; exact hz
        · intro _; exact hz
        · simp only; have := h.mono; omega
      · simp only [hs]
        exact einv_frame h rfl rfl rfl (fun _ => hz)
    | have_ id =>
      simp only
      unfold Conf.stepHave
      exact einv_frame h rfl rfl rfl (fun hp => absurd hp (by simp [pastEmpty]))
    | done id =>
      simp only
      unfold Conf.stepDone
      exact einv_frame h rfl rfl rfl (fun hp => absurd hp (by simp [pastEmpty]))
    | chk e alive =>
      simp only
      unfold Conf.stepChk
      cases alive with
      | true =>
        simp only [if_true]
        have := einv_finish h t th (some e) .ok
        exact ⟨this.thr, this.ctr, this.mono⟩
      | false =>
        simp only [Bool.false_eq_true, if_false]
        split
        · exact einv_finish h _ _ _ _
        · exact einv_finish h _ _ _ _

theorem einv_runW {m0 : Nat} (s : List (Nat × Bool)) (c : Conf) (h : EInv m0 c) : EInv m0 (c.runW s) := by
  induction s generalizing c with
  | nil => exact h
  | cons x s ih => exact ih _ (einv_stepW h x.1 x.2)

end SpecsModel.Conc
