/-
  C10: every atomic step of the shared-access phase preserves the phase invariant `PInv`.
-/
import SpecsModel.Conc.Lemmas
namespace SpecsModel.Conc
open SpecsModel Alloc

variable {a0 : Alloc} {q0 : List Nat} {L : List Entity} {progs : List (List Call)}

theorem lt_size_of_get {c : Conf} {t : Nat} {th : Thread} (hget : c.threads[t]? = some th) :
    t < c.threads.size := by
  by_cases h : t < c.threads.size
  · exact h
  · simp [Array.getElem?_eq_none (Nat.le_of_not_lt h)] at hget

theorem logOk_of_mem {c : Conf} (h0 : Start a0 L) (h : PInv a0 q0 L progs c) {e : Entity}
    (he : e ∈ c.log) : LogOk a0 c.alloc e := by
  simp only [Conf.log, List.mem_append, h.initEq] at he
  rcases he with he | he
  · exact Or.inl (h0.logValid e he)
  · exact Or.inr (h.createdOk e he)

theorem isAlive_log {c : Conf} (h0 : Start a0 L) (h : PInv a0 q0 L progs c) {e : Entity}
    (he : e ∈ c.log) : c.alloc.isAlive e = stableAlive a0 e :=
  isAlive_phase h0.inv h.gensEq h.genLenEq h.raisedMono (logOk_of_mem h0 h he)

theorem resolveL_mem {l : List Entity} {k : Nat} {e : Entity} (h : resolveL l k = some e) : e ∈ l := by
  unfold resolveL at h
  split at h
  · cases h
  · exact List.mem_of_getElem? h

/-- Facts about an issued id. -/
theorem issued_free {c : Conf} (h0 : Start a0 L) (h : PInv a0 q0 L progs c) {i : Nat}
    (hi : i ∈ c.issued.map (·.2)) : a0.occ i = false ∧ a0.gens.get i ≤ 0 ∧ i < c.alloc.maxId := by
  rcases (h.issuedMem i).mp hi with hf | ⟨h1, h2⟩
  · have hmem : i ∈ a0.free ++ [] := by simp; exact List.mem_of_mem_drop hf
    have := h0.inv.freeOk i hmem
    have hge := h.maxGe
    simp only [occ, Bool.or_eq_false_iff, decide_eq_false_iff_not]
    refine ⟨⟨by omega, this.2.2⟩, by omega, by omega⟩
  · have := h0.inv.virgin i h1
    simp only [occ, Bool.or_eq_false_iff, decide_eq_false_iff_not]
    refine ⟨⟨by omega, this.2⟩, by omega, h2⟩

/-- An id in a thread's `held` list has been issued. -/
theorem held_issued {c : Conf} {t : Nat} {th : Thread} {prog : List Call}
    (hT : ThreadInv a0 prog c t th) {i : Nat} (hi : i ∈ th.rets.map (·.id) ++ pcIds a0 th.pc) :
    (t, i) ∈ c.issued := by
  rw [← hT.held] at hi; exact mem_filter_tid hi

/-! ### Steps that change only the stepping thread's record (and possibly append an event or a
    lazy action) -/

theorem inv_local {c c' : Conf} {t : Nat} {th th' : Thread}
    (h : PInv a0 q0 L progs c) (hget : c.threads[t]? = some th)
    (halloc : c'.alloc = c.alloc) (hq0 : c'.lazyQ0 = c.lazyQ0)
    (hq : c'.lazyQ = c.lazyQ ∨ ∃ x, c'.lazyQ = c.lazyQ ++ [(t, x)])
    (hthreads : c'.threads = c.threads.setIfInBounds t th')
    (hinit : c'.initLog = c.initLog) (hcr : c'.created = c.created) (hiss : c'.issued = c.issued)
    (hreq : c'.requested = c.requested)
    (htrace : c'.trace = c.trace ∨
      ∃ ev, ev.tid = t ∧ c'.trace = c.trace ++ [ev] ∧ entOf ev = none ∧ delOkId ev = none ∧ EvOk a0 c' ev)
    (hrets : th'.rets = th.rets)
    (hnew : ThreadInv a0 (progs.getD t []) c' t th') : PInv a0 q0 L progs c' := by
  have hlt := lt_size_of_get hget
  have hlog : c'.log = c.log := by simp [Conf.log, hinit, hcr]
  have hmono : ∀ ev, EvOk a0 c ev → EvOk a0 c' ev := fun ev hev =>
    hev.mono (by rw [hcr]; exact fun _ h => h) hinit (by rw [hreq]; exact fun _ h => h)
  have hf : Frame t c c' := by
    refine ⟨Or.inl hiss, by rw [hcr]; exact fun _ h => h, by rw [halloc]; exact fun _ h => h, hinit, hq, ?_⟩
    rcases htrace with h1 | ⟨ev, h1, h2, _⟩
    · exact Or.inl h1
    · exact Or.inr ⟨ev, h1, h2⟩
  constructor
  · rw [halloc]; exact h.gensEq
  · rw [halloc]; exact h.genLenEq
  · rw [halloc]; exact h.aliveEq
  · rw [halloc]; exact h.cacheEq
  · rw [halloc]; exact h.lenLe
  · rw [halloc]; exact h.maxGe
  · rw [hinit]; exact h.initEq
  · rw [hq0]; exact h.q0Eq
  · rw [hthreads, Array.size_setIfInBounds]; exact h.sizeEq
  · rw [hiss]; exact h.issuedNodup
  · rw [hiss, halloc]; exact h.issuedMem
  · rw [hiss]; exact h.issuedTid
  · rw [halloc]; exact h.raisedMono
  · rw [halloc, hiss]; exact h.raisedNew
  · rw [halloc, hreq]; exact h.killedIff
  · rw [halloc, hcr]; exact h.createdOk
  · rw [hcr]; exact owned_update h.createdOwned hget hthreads (by rw [hrets]; exact fun _ h => h)
  · rw [hcr]; exact h.createdNodup
  · rw [hreq, hlog]; exact h.requestedOk
  · rcases hq with hq | ⟨x, hq⟩
    · rw [hq]; exact h.lazyTid
    · rw [hq]; intro y hy
      rcases List.mem_append.mp hy with hy | hy
      · exact h.lazyTid y hy
      · simp only [List.mem_singleton] at hy; subst hy; rw [← h.sizeEq]; exact hlt
  · rcases htrace with h1 | ⟨ev, _, h2, _, _, h5⟩
    · rw [h1]; exact fun ev hev => hmono ev (h.traceOk ev hev)
    · rw [h2]; intro ev' hev'
      rcases List.mem_append.mp hev' with hev' | hev'
      · exact hmono ev' (h.traceOk ev' hev')
      · simp only [List.mem_singleton] at hev'; subst hev'; exact h5
  · rcases htrace with h1 | ⟨ev, _, h2, h3, _, _⟩
    · rw [h1, hcr]; exact h.createdEq
    · rw [h2, hcr, List.filterMap_append]; simp [h3, h.createdEq]
  · rcases htrace with h1 | ⟨ev, _, h2, _, h4, _⟩
    · rw [h1, hreq]; exact h.requestedEq
    · rw [h2, hreq, List.filterMap_append]; simp [h4, h.requestedEq]
  · exact thr_update h.thr hthreads hnew hf

theorem ThreadInv.congrConf {c c' : Conf} {t : Nat} {th : Thread} {prog : List Call}
    (hT : ThreadInv a0 prog c t th)
    (hiss : c'.issued = c.issued) (hcr : c'.created = c.created) (halloc : c'.alloc = c.alloc)
    (hinit : c'.initLog = c.initLog) (hq : c'.lazyQ = c.lazyQ) (htr : c'.trace = c.trace) :
    ThreadInv a0 prog c' t th :=
  hT.frame (by rw [hiss]) (by rw [hcr]; exact fun _ h => h) (by rw [halloc]; exact fun _ h => h)
    hinit (by rw [hq]) (by rw [htr])

/-- Change of program counter inside a call, nothing else. -/
theorem ThreadInv.setPc {c : Conf} {t : Nat} {th : Thread} {prog : List Call} (pc' : Pc)
    (hT : ThreadInv a0 prog c t th)
    (hids : pcIds a0 pc' = pcIds a0 th.pc)
    (hpop : ∀ p, pc' = .popped p → 0 < p ∧ p ≤ a0.cacheLen)
    (hdone : ∀ i, pc' = .done i → c.alloc.raised.mem i = true)
    (hchk : ∀ e b, pc' = .chk e b → e ∈ c.log ∧ b = stableAlive a0 e)
    (hcall : PcCall pc' th.todo) :
    ThreadInv a0 prog c t { th with pc := pc' } :=
  ⟨by simp only [hids]; exact hT.held, hpop, hT.retsOk, hdone, hchk, hcall, hT.lazyOk, hT.callsOk,
    hT.countOk⟩

theorem lazyTags_cons (call : Call) (rest : List Call) :
    lazyTags (call :: rest) = (match call with | .lazy tag => [tag] | _ => []) ++ lazyTags rest := by
  cases call <;> simp [lazyTags]

theorem nCreates_cons (call : Call) (rest : List Call) :
    nCreates (call :: rest) = nCreates rest + (match call with | .create => 1 | _ => 0) := by
  cases call <;> simp [nCreates]

/-- A call other than `create` completes. -/
theorem ThreadInv.finishCall {c c' : Conf} {t : Nat} {th : Thread} {prog : List Call}
    {call : Call} {rest : List Call} {arg : Option Entity} {r : Res}
    (hT : ThreadInv a0 prog c t th) (htodo : th.todo = call :: rest) (hids : pcIds a0 th.pc = [])
    (hnc : call ≠ .create)
    (hiss : c'.issued = c.issued) (hcr : c'.created = c.created)
    (htrace : c'.trace = c.trace ++ [⟨t, call, arg, r⟩])
    (hq : ((∀ tag, call ≠ .lazy tag) ∧ c'.lazyQ = c.lazyQ) ∨
          ∃ tag, call = .lazy tag ∧ c'.lazyQ = c.lazyQ ++ [(t, tag)]) :
    ThreadInv a0 prog c' t { th with pc := .idle, todo := rest } := by
  refine ⟨?_, (by intro p hp; cases hp), (by rw [hcr]; exact hT.retsOk), (by intro i hi; cases hi),
    (by intro e b hb; cases hb), trivial, ?_, ?_, ?_⟩
  · rw [hiss]; simp only [pcIds, List.append_nil]
    have := hT.held; rw [hids] at this; simpa using this
  · have := hT.lazyOk
    rw [htodo, lazyTags_cons] at this
    rcases hq with ⟨hnl, hq⟩ | ⟨tag, hl, hq⟩
    · rw [hq]
      have : (match call with | .lazy tag => [tag] | _ => ([] : List Nat)) = [] := by
        cases call <;> simp_all
      simp_all
    · rw [hq, filter_snoc_eq]; subst hl; simp_all
  · have := hT.callsOk
    rw [htodo] at this
    rw [htrace]
    have h2 := evfilter_snoc_eq c.trace ⟨t, call, arg, r⟩
    simp only at h2
    rw [h2]; simp only [List.map_append, List.map_cons, List.map_nil, List.append_assoc,
      List.singleton_append]
    exact this
  · have := hT.countOk
    rw [htodo, nCreates_cons] at this
    have h0 : (match call with | .create => 1 | _ => 0) = 0 := by cases call <;> simp_all
    simp only at this ⊢
    omega

theorem inv_stepIdle {c : Conf} {t : Nat} {th : Thread} (h0 : Start a0 L)
    (h : PInv a0 q0 L progs c) (hget : c.threads[t]? = some th) (hpc : th.pc = .idle) :
    PInv a0 q0 L progs (c.stepIdle t th) := by
  have hT := h.thr t th hget
  have hids : pcIds a0 th.pc = [] := by rw [hpc]; rfl
  unfold Conf.stepIdle
  split
  · exact h
  · next rest htodo =>
    refine inv_local h hget rfl rfl (Or.inl rfl) rfl rfl rfl rfl rfl (Or.inl rfl) rfl ?_
    exact (hT.setPc (.dec c.alloc.cacheLen) (by rw [hids]; rfl) (by intro p hp; cases hp)
      (by intro i hi; cases hi) (by intro e b hb; cases hb) ⟨rest, htodo⟩).congrConf rfl rfl rfl rfl rfl rfl
  · next k rest htodo =>
    split
    · next hres =>
      refine inv_local h hget rfl rfl (Or.inl rfl) rfl rfl rfl rfl rfl
        (Or.inr ⟨⟨t, .delete k, none, .skip⟩, rfl, by simp [Conf.finish, htodo], rfl, rfl, ?_⟩) rfl ?_
      · simp [EvOk]
      · simp only [Conf.finish, htodo, List.tail_cons]
        exact hT.finishCall (arg := none) (r := .skip) htodo hids (by simp) rfl rfl (by simp) (Or.inl ⟨by simp, rfl⟩)
    · next e hres =>
      have hmem : e ∈ c.log := resolveL_mem hres
      refine inv_local h hget rfl rfl (Or.inl rfl) rfl rfl rfl rfl rfl (Or.inl rfl) rfl ?_
      exact (hT.setPc (.chk e (c.alloc.isAlive e)) (by rw [hids]; rfl) (by intro p hp; cases hp)
        (by intro i hi; cases hi)
        (by intro e' b hb; cases hb; exact ⟨hmem, isAlive_log h0 h hmem⟩)
        ⟨k, rest, htodo⟩).congrConf rfl rfl rfl rfl rfl rfl
  · next k rest htodo =>
    split
    · next hres =>
      refine inv_local h hget rfl rfl (Or.inl rfl) rfl rfl rfl rfl rfl
        (Or.inr ⟨⟨t, .isAlive k, none, .skip⟩, rfl, by simp [Conf.finish, htodo], rfl, rfl, ?_⟩) rfl ?_
      · simp [EvOk]
      · simp only [Conf.finish, htodo, List.tail_cons]
        exact hT.finishCall (arg := none) (r := .skip) htodo hids (by simp) rfl rfl (by simp) (Or.inl ⟨by simp, rfl⟩)
    · next e hres =>
      have hmem : e ∈ c.log := resolveL_mem hres
      refine inv_local h hget rfl rfl (Or.inl rfl) rfl rfl rfl rfl rfl
        (Or.inr ⟨⟨t, .isAlive k, some e, .bool (c.alloc.isAlive e)⟩, rfl, by simp [Conf.finish, htodo], rfl, rfl, ?_⟩) rfl ?_
      · simp only [EvOk]
        exact Or.inr ⟨e, rfl, hmem, by rw [isAlive_log h0 h hmem]⟩
      · simp only [Conf.finish, htodo, List.tail_cons]
        exact hT.finishCall (arg := some e) (r := .bool (c.alloc.isAlive e)) htodo hids (by simp) rfl rfl (by simp) (Or.inl ⟨by simp, rfl⟩)
  · next rest htodo =>
    refine inv_local h hget rfl rfl (Or.inl rfl) rfl rfl rfl rfl rfl
      (Or.inr ⟨⟨t, .join, none, .ents c.alloc.joinEntities⟩, rfl, by simp [Conf.finish, htodo], rfl, rfl, ?_⟩) rfl ?_
    · simp [EvOk]
    · simp only [Conf.finish, htodo, List.tail_cons]
      exact hT.finishCall (arg := none) (r := .ents c.alloc.joinEntities) htodo hids (by simp) rfl rfl (by simp) (Or.inl ⟨by simp, rfl⟩)
  · next tag rest htodo =>
    refine inv_local h hget rfl rfl (Or.inr ⟨tag, rfl⟩) rfl rfl rfl rfl rfl
      (Or.inr ⟨⟨t, .lazy tag, none, .unit⟩, rfl, by simp [Conf.finish, htodo], rfl, rfl, ?_⟩) rfl ?_
    · simp [EvOk]
    · simp only [Conf.finish, htodo, List.tail_cons]
      exact hT.finishCall (arg := none) (r := .unit) htodo hids (by simp) rfl rfl (by simp) (Or.inr ⟨tag, rfl, rfl⟩)

theorem pcCall_create {pc : Pc} {todo : List Call} (h : PcCall pc todo)
    (hpc : (∃ p, pc = .dec p) ∨ (∃ p, pc = .popped p) ∨ (∃ p, pc = .inc p) ∨ (∃ i, pc = .have_ i) ∨
      (∃ i, pc = .done i)) : ∃ rest, todo = .create :: rest := by
  rcases hpc with ⟨p, rfl⟩ | ⟨p, rfl⟩ | ⟨p, rfl⟩ | ⟨p, rfl⟩ | ⟨p, rfl⟩ <;> exact h

/-! ### `atomic_decrement` / `atomic_increment`: a CAS succeeds and issues an id -/

theorem inv_issue {c c' : Conf} {t : Nat} {th th' : Thread} {x : Nat}
    (h : PInv a0 q0 L progs c) (hget : c.threads[t]? = some th)
    (hgens : c'.alloc.gens = c.alloc.gens) (hgl : c'.alloc.genLen = c.alloc.genLen)
    (hal : c'.alloc.alive = c.alloc.alive) (hca : c'.alloc.cache = c.alloc.cache)
    (hra : c'.alloc.raised = c.alloc.raised) (hki : c'.alloc.killed = c.alloc.killed)
    (hlen : c'.alloc.cacheLen ≤ c.alloc.cacheLen) (hmax : c.alloc.maxId ≤ c'.alloc.maxId)
    (hiss : c'.issued = c.issued ++ [(t, x)])
    (hx : x ∉ c.issued.map (·.2))
    (hmem : ∀ i, (i ∈ c.issued.map (·.2) ∨ i = x) ↔
      (i ∈ a0.free.drop c'.alloc.cacheLen ∨ (a0.maxId ≤ i ∧ i < c'.alloc.maxId)))
    (hq0 : c'.lazyQ0 = c.lazyQ0) (hq : c'.lazyQ = c.lazyQ)
    (hthreads : c'.threads = c.threads.setIfInBounds t th')
    (hinit : c'.initLog = c.initLog) (hcr : c'.created = c.created)
    (hreq : c'.requested = c.requested) (htrace : c'.trace = c.trace)
    (hrets : th'.rets = th.rets)
    (hnew : ThreadInv a0 (progs.getD t []) c' t th') : PInv a0 q0 L progs c' := by
  have hlt := lt_size_of_get hget
  have hlog : c'.log = c.log := by simp [Conf.log, hinit, hcr]
  have hmono : ∀ ev, EvOk a0 c ev → EvOk a0 c' ev := fun ev hev =>
    hev.mono (by rw [hcr]; exact fun _ h => h) hinit (by rw [hreq]; exact fun _ h => h)
  have hf : Frame t c c' :=
    ⟨Or.inr ⟨x, hiss⟩, by rw [hcr]; exact fun _ h => h, by rw [hra]; exact fun _ h => h, hinit,
      Or.inl hq, Or.inl htrace⟩
  constructor
  · rw [hgens]; exact h.gensEq
  · rw [hgl]; exact h.genLenEq
  · rw [hal]; exact h.aliveEq
  · rw [hca]; exact h.cacheEq
  · have := h.lenLe; omega
  · have := h.maxGe; omega
  · rw [hinit]; exact h.initEq
  · rw [hq0]; exact h.q0Eq
  · rw [hthreads, Array.size_setIfInBounds]; exact h.sizeEq
  · rw [hiss]; simp only [List.map_append, List.map_cons, List.map_nil]
    refine List.nodup_append.mpr ⟨h.issuedNodup, by simp, ?_⟩
    intro a ha b hb hab
    simp only [List.mem_singleton] at hb; subst hb; subst hab; exact hx ha
  · intro i; rw [hiss, ← hmem i]; simp
  · rw [hiss]; intro y hy
    rcases List.mem_append.mp hy with hy | hy
    · exact h.issuedTid y hy
    · simp only [List.mem_singleton] at hy; subst hy; rw [← h.sizeEq]; exact hlt
  · rw [hra]; exact h.raisedMono
  · rw [hra, hiss]; intro i hi
    rcases h.raisedNew i hi with h1 | h1
    · exact Or.inl h1
    · right; simp only [List.map_append, List.mem_append]; exact Or.inl h1
  · rw [hki, hreq]; exact h.killedIff
  · rw [hra, hcr]; exact h.createdOk
  · rw [hcr]; exact owned_update h.createdOwned hget hthreads (by rw [hrets]; exact fun _ h => h)
  · rw [hcr]; exact h.createdNodup
  · rw [hreq, hlog]; exact h.requestedOk
  · rw [hq]; exact h.lazyTid
  · rw [htrace]; exact fun ev hev => hmono ev (h.traceOk ev hev)
  · rw [htrace, hcr]; exact h.createdEq
  · rw [htrace, hreq]; exact h.requestedEq
  · exact thr_update h.thr hthreads hnew hf

theorem free_getElem (a : Alloc) (h : a.cacheLen ≤ a.cache.size) {p : Nat} (hp : p < a.cacheLen) :
    ∃ hp' : p < a.free.length, a.free[p] = (a.cache[p]?).getD 0 := by
  have hl : a.free.length = a.cacheLen := by simp [free]; omega
  refine ⟨by omega, ?_⟩
  have hps : p < a.cache.size := by omega
  simp [free, List.getElem_take, hps]

theorem inv_stepDec {c : Conf} {t : Nat} {th : Thread} {p : Nat} (spur : Bool) (h0 : Start a0 L)
    (h : PInv a0 q0 L progs c) (hget : c.threads[t]? = some th) (hpc : th.pc = .dec p) :
    PInv a0 q0 L progs (c.stepDec t th p spur) := by
  have hT := h.thr t th hget
  have hids : pcIds a0 th.pc = [] := by rw [hpc]; rfl
  have hcall := pcCall_create hT.pcCall (Or.inl ⟨p, hpc⟩)
  unfold Conf.stepDec
  split
  · refine inv_local h hget rfl rfl (Or.inl rfl) rfl rfl rfl rfl rfl (Or.inl rfl) rfl ?_
    exact (hT.setPc (.inc c.alloc.maxId) (by rw [hids]; rfl) (by intro p hp; cases hp)
      (by intro i hi; cases hi) (by intro e b hb; cases hb) hcall).congrConf rfl rfl rfl rfl rfl rfl
  · next hp0 =>
    split
    · next hcas =>
      simp only [Bool.and_eq_true, Bool.not_eq_true', decide_eq_true_eq] at hcas
      have hlen : c.alloc.cacheLen = p := hcas.2
      have hple : p ≤ a0.cacheLen := by have := h.lenLe; omega
      obtain ⟨hp', hfx⟩ := free_getElem a0 h0.inv.lenOk (p := p - 1) (by omega)
      have hxeq : (c.alloc.cache[p - 1]?).getD 0 = a0.free[p - 1] := by rw [hfx, h.cacheEq]
      have hdrop : a0.free.drop (p - 1) = a0.free[p - 1] :: a0.free.drop p := by
        have := List.drop_eq_getElem_cons hp'
        rw [this]; congr 2; omega
      have hfree : a0.free[p - 1] ∈ a0.free ++ [] := by simp
      have hfo := h0.inv.freeOk _ hfree
      have hnd : a0.free.Nodup := by simpa using h0.inv.freeNodup
      refine inv_issue (x := (c.alloc.cache[p - 1]?).getD 0) h hget rfl rfl rfl rfl rfl rfl
        (by simp only []; omega) (Nat.le_refl _) rfl ?_ ?_ rfl rfl rfl rfl rfl rfl rfl rfl ?_
      · rw [hxeq]; intro hin
        rcases (h.issuedMem _).mp hin with h1 | h1
        · rw [hlen] at h1
          have := getElem_not_mem_drop hnd hp'
          have h2 : p - 1 + 1 = p := by omega
          rw [h2] at this; exact this h1
        · omega
      · intro i
        simp only []
        rw [hxeq, h.issuedMem i, hlen, hdrop]
        simp only [List.mem_cons]
        constructor
        · rintro ((h1 | h1) | h1)
          · exact Or.inl (Or.inr h1)
          · exact Or.inr h1
          · exact Or.inl (Or.inl h1)
        · rintro ((h1 | h1) | h1)
          · exact Or.inr h1
          · exact Or.inl (Or.inl h1)
          · exact Or.inl (Or.inr h1)
      · refine ⟨?_, ?_, hT.retsOk, (by intro i hi; cases hi), (by intro e b hb; cases hb), hcall,
          hT.lazyOk, hT.callsOk, hT.countOk⟩
        · simp only [filter_snoc_eq, List.map_append, List.map_cons, List.map_nil, hT.held, hids,
            List.append_nil]
          simp only [pcIds, h.cacheEq]
        · intro q hq; cases hq; exact ⟨by omega, hple⟩
    · refine inv_local h hget rfl rfl (Or.inl rfl) rfl rfl rfl rfl rfl (Or.inl rfl) rfl ?_
      exact (hT.setPc (.dec c.alloc.cacheLen) (by rw [hids]; rfl) (by intro p hp; cases hp)
        (by intro i hi; cases hi) (by intro e b hb; cases hb) hcall).congrConf rfl rfl rfl rfl rfl rfl

theorem inv_stepInc {c : Conf} {t : Nat} {th : Thread} {p : Nat} (spur : Bool) (h0 : Start a0 L)
    (h : PInv a0 q0 L progs c) (hget : c.threads[t]? = some th) (hpc : th.pc = .inc p) :
    PInv a0 q0 L progs (c.stepInc t th p spur) := by
  have hT := h.thr t th hget
  have hids : pcIds a0 th.pc = [] := by rw [hpc]; rfl
  have hcall := pcCall_create hT.pcCall (Or.inr (Or.inr (Or.inl ⟨p, hpc⟩)))
  unfold Conf.stepInc
  split
  · next hcas =>
    simp only [Bool.and_eq_true, Bool.not_eq_true', decide_eq_true_eq] at hcas
    have hmax : c.alloc.maxId = p := hcas.2
    have hge := h.maxGe
    refine inv_issue (x := p) h hget rfl rfl rfl rfl rfl rfl (Nat.le_refl _)
      (by simp only []; omega) rfl ?_ ?_ rfl rfl rfl rfl rfl rfl rfl rfl ?_
    · intro hin
      rcases (h.issuedMem _).mp hin with h1 | h1
      · have hmem : p ∈ a0.free ++ [] := by simp; exact List.mem_of_mem_drop h1
        have := h0.inv.freeOk p hmem
        omega
      · omega
    · intro i
      simp only []
      rw [h.issuedMem i, hmax]
      constructor
      · rintro ((h1 | h1) | h1)
        · exact Or.inl h1
        · exact Or.inr ⟨h1.1, by omega⟩
        · exact Or.inr ⟨by omega, by omega⟩
      · rintro (h1 | h1)
        · exact Or.inl (Or.inl h1)
        · by_cases hip : i = p
          · exact Or.inr hip
          · exact Or.inl (Or.inr ⟨h1.1, by omega⟩)
    · refine ⟨?_, (by intro q hq; cases hq), hT.retsOk, (by intro i hi; cases hi),
        (by intro e b hb; cases hb), hcall, hT.lazyOk, hT.callsOk, hT.countOk⟩
      simp only [filter_snoc_eq, List.map_append, List.map_cons, List.map_nil, hT.held, hids,
        List.append_nil]
      simp only [pcIds]
  · refine inv_local h hget rfl rfl (Or.inl rfl) rfl rfl rfl rfl rfl (Or.inl rfl) rfl ?_
    exact (hT.setPc (.inc c.alloc.maxId) (by rw [hids]; rfl) (by intro p hp; cases hp)
      (by intro i hi; cases hi) (by intro e b hb; cases hb) hcall).congrConf rfl rfl rfl rfl rfl rfl

theorem inv_stepPopped {c : Conf} {t : Nat} {th : Thread} {p : Nat} (h0 : Start a0 L)
    (h : PInv a0 q0 L progs c) (hget : c.threads[t]? = some th) (hpc : th.pc = .popped p) :
    PInv a0 q0 L progs (c.stepPopped t th p) := by
  have hT := h.thr t th hget
  have hcall := pcCall_create hT.pcCall (Or.inr (Or.inl ⟨p, hpc⟩))
  obtain ⟨hp0, hple⟩ := hT.poppedOk p hpc
  have hsz := h0.inv.lenOk
  have hlt : p - 1 < c.alloc.cache.size := by rw [h.cacheEq]; omega
  unfold Conf.stepPopped
  rw [if_neg (by omega)]
  rw [Array.getElem?_eq_getElem hlt]
  simp only []
  refine inv_local h hget rfl rfl (Or.inl rfl) rfl rfl rfl rfl rfl (Or.inl rfl) rfl ?_
  refine (hT.setPc (.have_ c.alloc.cache[p - 1]) ?_ (by intro p hp; cases hp)
    (by intro i hi; cases hi) (by intro e b hb; cases hb) hcall).congrConf rfl rfl rfl rfl rfl rfl
  rw [hpc]; simp only [pcIds]
  have : a0.cache[p - 1]? = some c.alloc.cache[p - 1] := by
    rw [← Array.getElem?_eq_getElem hlt, h.cacheEq]
  rw [this]; rfl

/-! ### `raised.add_atomic(id)` -/

theorem inv_stepHave {c : Conf} {t : Nat} {th : Thread} {id : Nat}
    (h : PInv a0 q0 L progs c) (hget : c.threads[t]? = some th) (hpc : th.pc = .have_ id) :
    PInv a0 q0 L progs (c.stepHave t th id) := by
  have hT := h.thr t th hget
  have hcall := pcCall_create hT.pcCall (Or.inr (Or.inr (Or.inr (Or.inl ⟨id, hpc⟩))))
  have hiss : (t, id) ∈ c.issued := held_issued hT (by rw [hpc]; simp [pcIds])
  have hmono : ∀ i, c.alloc.raised.mem i = true → (c.alloc.raised.add id).mem i = true := by
    intro i hi; rw [BSet.mem_add]; split <;> simp [hi]
  unfold Conf.stepHave
  have hf : Frame t c { c with
      alloc := { c.alloc with raised := c.alloc.raised.add id },
      threads := c.threads.setIfInBounds t { th with pc := .done id } } :=
    ⟨Or.inl rfl, fun _ h => h, hmono, rfl, Or.inl rfl, Or.inl rfl⟩
  have hsz : (c.threads.setIfInBounds t { th with pc := .done id }).size = progs.length := by
    simp only [Array.size_setIfInBounds]; exact h.sizeEq
  have hrn : ∀ i, (c.alloc.raised.add id).mem i = true →
      a0.raised.mem i = true ∨ i ∈ c.issued.map (·.2) := by
    intro i hi
    simp only [BSet.mem_add] at hi
    by_cases hid : i = id
    · subst hid; right
      exact List.mem_map.mpr ⟨(t, i), hiss, rfl⟩
    · simp only [hid, if_false] at hi; exact h.raisedNew i hi
  have hnew : ThreadInv a0 (progs.getD t []) { c with
      alloc := { c.alloc with raised := c.alloc.raised.add id },
      threads := c.threads.setIfInBounds t { th with pc := .done id } } t { th with pc := .done id } :=
    ⟨(by simp only [pcIds]; have := hT.held; rw [hpc] at this; exact this),
     (by intro p hp; cases hp), hT.retsOk,
     (by intro i hi; cases hi; simp [BSet.mem_add]),
     (by intro e b hb; cases hb), hcall, hT.lazyOk, hT.callsOk, hT.countOk⟩
  exact { h with
    sizeEq := hsz,
    raisedMono := fun i hi => hmono i (h.raisedMono i hi),
    raisedNew := hrn,
    createdOk := fun e he => ⟨(h.createdOk e he).1, (h.createdOk e he).2.1, hmono _ (h.createdOk e he).2.2⟩,
    createdOwned := owned_update (c := c) h.createdOwned hget rfl (fun _ h => h),
    traceOk := fun ev hev => (h.traceOk ev hev).mono (fun _ h => h) rfl (fun _ h => h),
    thr := thr_update h.thr rfl hnew hf }

/-! ### generation read and return of `allocate_atomic` -/

theorem inv_stepDone {c : Conf} {t : Nat} {th : Thread} {id : Nat} (h0 : Start a0 L)
    (h : PInv a0 q0 L progs c) (hget : c.threads[t]? = some th) (hpc : th.pc = .done id) :
    PInv a0 q0 L progs (c.stepDone t th id) := by
  have hT := h.thr t th hget
  have hlt := lt_size_of_get hget
  obtain ⟨rest, htodo⟩ := pcCall_create hT.pcCall (Or.inr (Or.inr (Or.inr (Or.inr ⟨id, hpc⟩))))
  have hheld := hT.held
  rw [hpc] at hheld
  simp only [pcIds] at hheld
  have hiss : (t, id) ∈ c.issued := held_issued hT (by rw [hpc]; simp [pcIds])
  have hissm : id ∈ c.issued.map (·.2) := List.mem_map.mpr ⟨(t, id), hiss, rfl⟩
  obtain ⟨hocc, hg0, _⟩ := issued_free h0 h hissm
  have hraised := hT.doneRaised id hpc
  have hgen : c.alloc.joinGen id = 1 - a0.gens.get id := by
    rw [joinGen_dead c.alloc id (by rw [h.gensEq, h.genLenEq]; exact h0.inv.beyond)
      (by rw [h.gensEq]; exact hg0), h.gensEq]
  -- the id is in nobody's returned list yet
  have hfresh : id ∉ c.created.map (·.id) := by
    intro hin
    obtain ⟨e', he', hid'⟩ := List.mem_map.mp hin
    obtain ⟨t', th', hg', hr'⟩ := h.createdOwned e' he'
    have hT' := h.thr t' th' hg'
    have hiss' : (t', id) ∈ c.issued :=
      held_issued hT' (List.mem_append.mpr (Or.inl (List.mem_map.mpr ⟨e', hr', hid'⟩)))
    have htt : t' = t := snd_inj_of_nodup c.issued h.issuedNodup t' t id hiss' hiss
    subst htt
    rw [hget] at hg'; cases hg'
    have hnd := filter_tid_nodup t' h.issuedNodup
    rw [hheld] at hnd
    have := (List.nodup_append.mp hnd).2.2 id (List.mem_map.mpr ⟨e', hr', hid'⟩) id (by simp)
    exact this rfl
  unfold Conf.stepDone
  simp only [htodo, List.tail_cons, List.headD_cons, hgen]
  have hf : Frame t c { c with
      threads := c.threads.setIfInBounds t
        { th with pc := .idle, todo := rest, rets := th.rets ++ [⟨id, 1 - a0.gens.get id⟩] },
      created := c.created ++ [⟨id, 1 - a0.gens.get id⟩],
      trace := c.trace ++ [⟨t, .create, none, .ent ⟨id, 1 - a0.gens.get id⟩⟩] } :=
    ⟨Or.inl rfl, fun e he => List.mem_append.mpr (Or.inl he), fun _ h => h, rfl, Or.inl rfl,
      Or.inr ⟨_, rfl, rfl⟩⟩
  have hmonoEv : ∀ ev, EvOk a0 c ev → EvOk a0 { c with
      threads := c.threads.setIfInBounds t
        { th with pc := .idle, todo := rest, rets := th.rets ++ [⟨id, 1 - a0.gens.get id⟩] },
      created := c.created ++ [⟨id, 1 - a0.gens.get id⟩],
      trace := c.trace ++ [⟨t, .create, none, .ent ⟨id, 1 - a0.gens.get id⟩⟩] } ev :=
    fun ev hev => hev.mono (fun e he => List.mem_append.mpr (Or.inl he)) rfl (fun _ h => h)
  exact { h with
    sizeEq := by simp only [Array.size_setIfInBounds]; exact h.sizeEq
    createdOk := by
      intro e he
      rcases List.mem_append.mp he with he | he
      · exact h.createdOk e he
      · simp only [List.mem_singleton] at he; subst he; exact ⟨hocc, rfl, hraised⟩
    createdOwned := by
      intro e he
      rcases List.mem_append.mp he with he | he
      · exact owned_update (c := c) h.createdOwned hget rfl (fun e he => List.mem_append.mpr (Or.inl he)) e he
      · simp only [List.mem_singleton] at he; subst he
        exact ⟨t, _, by simp only [Array.getElem?_setIfInBounds, if_true, hlt]; rfl, by simp⟩
    createdNodup := by
      simp only [List.map_append, List.map_cons, List.map_nil]
      refine List.nodup_append.mpr ⟨h.createdNodup, by simp, ?_⟩
      intro a ha b hb hab
      simp only [List.mem_singleton] at hb; subst hb; subst hab; exact hfresh ha
    requestedOk := by
      intro i hi
      obtain ⟨e, he, h1, h2⟩ := h.requestedOk i hi
      refine ⟨e, ?_, h1, h2⟩
      simp only [Conf.log, List.mem_append] at he ⊢
      rcases he with he | he
      · exact Or.inl he
      · exact Or.inr (Or.inl he)
    traceOk := by
      intro ev hev
      rcases List.mem_append.mp hev with hev | hev
      · exact hmonoEv ev (h.traceOk ev hev)
      · simp only [List.mem_singleton] at hev; subst hev
        simp only [EvOk]
        exact ⟨_, rfl, by simp⟩
    createdEq := by
      simp only [List.filterMap_append, ← h.createdEq]
      simp [entOf]
    requestedEq := by
      simp only [List.filterMap_append, ← h.requestedEq]
      simp [delOkId]
    thr := thr_update h.thr rfl
      ⟨by simp only [pcIds, List.map_append, List.map_cons, List.map_nil, List.append_nil]; exact hheld,
       (by intro p hp; cases hp),
       (by
        intro e he
        rcases List.mem_append.mp he with he | he
        · exact List.mem_append.mpr (Or.inl (hT.retsOk e he))
        · exact List.mem_append.mpr (Or.inr he)),
       (by intro i hi; cases hi), (by intro e b hb; cases hb), trivial,
       (by have := hT.lazyOk; rw [htodo] at this; simpa [lazyTags] using this),
       (by
        have := hT.callsOk
        rw [htodo] at this
        have h2 := evfilter_snoc_eq c.trace ⟨t, .create, none, .ent ⟨id, 1 - a0.gens.get id⟩⟩
        simp only at h2
        simp only [h2, List.map_append, List.map_cons, List.map_nil, List.append_assoc,
          List.singleton_append]
        exact this),
       (by
        have := hT.countOk
        rw [htodo] at this
        simp only [nCreates, List.length_append, List.length_cons, List.length_nil] at this ⊢
        omega)⟩ hf }

/-! ### second half of `kill_atomic` -/

theorem inv_stepChk {c : Conf} {t : Nat} {th : Thread} {e : Entity} {b : Bool} (h0 : Start a0 L)
    (h : PInv a0 q0 L progs c) (hget : c.threads[t]? = some th) (hpc : th.pc = .chk e b) :
    PInv a0 q0 L progs (c.stepChk t th e b) := by
  have hT := h.thr t th hget
  have hids : pcIds a0 th.pc = [] := by rw [hpc]; rfl
  obtain ⟨hmem, hb⟩ := hT.chkOk e b hpc
  obtain ⟨k, rest, htodo⟩ : ∃ k rest, th.todo = .delete k :: rest := by
    have := hT.pcCall; rw [hpc] at this; exact this
  unfold Conf.stepChk
  split
  · next hbt =>
    have hst : stableAlive a0 e = true := by rw [← hb]; exact hbt
    simp only [Conf.finish, htodo, List.tail_cons, List.headD_cons]
    have hf : Frame t c { c with
        alloc := { c.alloc with killed := c.alloc.killed.add e.id },
        threads := c.threads.setIfInBounds t { th with pc := .idle, todo := rest },
        requested := c.requested ++ [e.id],
        trace := c.trace ++ [⟨t, .delete k, some e, .ok⟩] } :=
      ⟨Or.inl rfl, fun _ h => h, fun _ h => h, rfl, Or.inl rfl, Or.inr ⟨_, rfl, rfl⟩⟩
    have hmonoEv : ∀ ev, EvOk a0 c ev → EvOk a0 { c with
        alloc := { c.alloc with killed := c.alloc.killed.add e.id },
        threads := c.threads.setIfInBounds t { th with pc := .idle, todo := rest },
        requested := c.requested ++ [e.id],
        trace := c.trace ++ [⟨t, .delete k, some e, .ok⟩] } ev :=
      fun ev hev => hev.mono (fun _ h => h) rfl (fun i hi => List.mem_append.mpr (Or.inl hi))
    exact { h with
      sizeEq := by simp only [Array.size_setIfInBounds]; exact h.sizeEq
      killedIff := by
        intro i
        simp only [BSet.mem_add, List.mem_append, List.mem_singleton]
        have := h.killedIff i
        by_cases hi : i = e.id
        · simp [hi]
        · simp only [hi, if_false, or_false]; exact this
      createdOwned := owned_update (c := c) h.createdOwned hget rfl (fun _ h => h)
      requestedOk := by
        intro i hi
        rcases List.mem_append.mp hi with hi | hi
        · exact h.requestedOk i hi
        · simp only [List.mem_singleton] at hi; subst hi; exact ⟨e, hmem, rfl, hst⟩
      traceOk := by
        intro ev hev
        rcases List.mem_append.mp hev with hev | hev
        · exact hmonoEv ev (h.traceOk ev hev)
        · simp only [List.mem_singleton] at hev; subst hev
          unfold EvOk
          exact Or.inr ⟨e, rfl, hmem, Or.inl ⟨rfl, hst, by simp⟩⟩
      createdEq := by
        simp only [List.filterMap_append, ← h.createdEq]
        simp [entOf]
      requestedEq := by
        simp only [List.filterMap_append, ← h.requestedEq]
        simp [delOkId]
      thr := thr_update h.thr rfl
        (hT.finishCall (arg := some e) (r := .ok) htodo hids (by simp) rfl rfl (by simp)
          (Or.inl ⟨by simp, rfl⟩)) hf }
  · next hbf =>
    have hst : stableAlive a0 e = false := by rw [← hb]; simpa using hbf
    have hde : c.alloc.delErrOk e = true :=
      delErrOk_of_stableDead h0.inv h.genLenEq (logOk_of_mem h0 h hmem) hst
    rw [if_pos hde]
    refine inv_local h hget rfl rfl (Or.inl rfl) rfl rfl rfl rfl rfl
      (Or.inr ⟨⟨t, .delete k, some e, .err⟩, rfl, by simp [Conf.finish, htodo], rfl, rfl, ?_⟩) rfl ?_
    · unfold EvOk
      exact Or.inr ⟨e, rfl, hmem, Or.inr ⟨rfl, hst⟩⟩
    · simp only [Conf.finish, htodo, List.tail_cons]
      exact hT.finishCall (arg := some e) (r := .err) htodo hids (by simp) rfl rfl (by simp)
        (Or.inl ⟨by simp, rfl⟩)

/-! ### Every tick preserves the invariant -/

theorem inv_stepW {c : Conf} (h0 : Start a0 L) (h : PInv a0 q0 L progs c) (t : Nat) (spur : Bool) :
    PInv a0 q0 L progs (c.stepW t spur) := by
  unfold Conf.stepW
  split
  · exact h
  · next th hget =>
    split
    · next hpc => exact inv_stepIdle h0 h hget hpc
    · next p hpc => exact inv_stepDec spur h0 h hget hpc
    · next p hpc => exact inv_stepPopped h0 h hget hpc
    · next p hpc => exact inv_stepInc spur h0 h hget hpc
    · next id hpc => exact inv_stepHave h hget hpc
    · next id hpc => exact inv_stepDone h0 h hget hpc
    · next e a hpc => exact inv_stepChk h0 h hget hpc

theorem inv_start : PInv a0 q0 L progs (Conf.start a0 q0 L progs) := by
  have hlen : a0.free.length ≤ a0.cacheLen := by simp [free]; omega
  refine { gensEq := rfl, genLenEq := rfl, aliveEq := rfl, cacheEq := rfl, lenLe := Nat.le_refl _,
           maxGe := Nat.le_refl _, initEq := rfl, q0Eq := rfl, sizeEq := by simp [Conf.start],
           issuedNodup := by simp [Conf.start], issuedMem := ?_, issuedTid := by simp [Conf.start],
           raisedMono := fun _ h => h, raisedNew := fun i hi => Or.inl hi,
           killedIff := by simp [Conf.start], createdOk := by simp [Conf.start],
           createdOwned := by simp [Conf.start], createdNodup := by simp [Conf.start],
           requestedOk := by simp [Conf.start], lazyTid := by simp [Conf.start],
           traceOk := by simp [Conf.start], createdEq := rfl, requestedEq := rfl, thr := ?_ }
  · intro i
    simp only [Conf.start, List.map_nil, List.not_mem_nil, false_iff, not_or]
    refine ⟨?_, by omega⟩
    rw [List.drop_eq_nil_of_le hlen]; simp
  · intro t th hget
    simp only [Conf.start, List.getElem?_toArray, List.getElem?_map] at hget
    cases hp : progs[t]? with
    | none => simp [hp] at hget
    | some prog =>
      simp only [hp, Option.map_some, Option.some.injEq] at hget
      subst hget
      have : progs.getD t [] = prog := by simp [List.getD, hp]
      rw [this]
      exact ⟨(by simp [pcIds, Conf.start]), (by intro p hp; cases hp), (by simp),
        (by intro i hi; cases hi), (by intro e b hb; cases hb), trivial, (by simp [Conf.start]),
        (by simp [Conf.start]), (by simp)⟩

theorem inv_runW (h0 : Start a0 L) : ∀ (s : List (Nat × Bool)) (c : Conf),
    PInv a0 q0 L progs c → PInv a0 q0 L progs (c.runW s)
  | [], _, h => h
  | x :: s, _, h => inv_runW h0 s _ (inv_stepW h0 h x.1 x.2)

theorem run_eq_runW : ∀ (s : List Nat) (c : Conf), c.run s = c.runW (s.map (fun t => (t, false)))
  | [], _ => rfl
  | t :: s, _ => by simp only [Conf.run, Conf.runW, List.map_cons, Conf.step]; exact run_eq_runW s _

theorem runW_append : ∀ (s s' : List (Nat × Bool)) (c : Conf), c.runW (s ++ s') = (c.runW s).runW s'
  | [], _, _ => rfl
  | x :: s, s', _ => by simp only [List.cons_append, Conf.runW]; exact runW_append s s' _

end SpecsModel.Conc
