/-
  C10: what the phase invariant gives at a quiescent configuration (all threads idle, programs
  finished), and the composition with the sequential `merge` theorem (`Alloc.merge_spec`).
-/
import SpecsModel.Conc.LemmasStep
namespace SpecsModel.Conc
open SpecsModel Alloc

variable {a0 : Alloc} {q0 : List Nat} {L : List Entity} {progs : List (List Call)}

theorem quiescent_thread {c : Conf} (hq : c.quiescent = true) {t : Nat} {th : Thread}
    (hget : c.threads[t]? = some th) : th.pc = .idle ∧ th.todo = [] := by
  have hm := Array.mem_of_getElem? hget
  have := (Array.all_eq_true_iff_forall_mem.mp hq) th hm
  simp only [Conf.threadDone, Bool.and_eq_true, beq_iff_eq, List.isEmpty_iff] at this
  exact this

/-- At quiescence every issued id has been returned. -/
theorem issued_created {c : Conf} (h : PInv a0 q0 L progs c) (hq : c.quiescent = true) {i : Nat}
    (hi : i ∈ c.issued.map (·.2)) : i ∈ c.created.map (·.id) := by
  obtain ⟨⟨t, i'⟩, hmem, rfl⟩ := List.mem_map.mp hi
  have hlt : t < c.threads.size := by rw [h.sizeEq]; exact h.issuedTid _ hmem
  have hget : c.threads[t]? = some c.threads[t] := Array.getElem?_eq_getElem hlt
  have hT := h.thr t _ hget
  obtain ⟨hpc, _⟩ := quiescent_thread hq hget
  have hheld := hT.held
  rw [hpc] at hheld
  simp only [pcIds, List.append_nil] at hheld
  have : i' ∈ (c.issued.filter (fun x => x.1 == t)).map (·.2) :=
    List.mem_map.mpr ⟨(t, i'), List.mem_filter.mpr ⟨hmem, by simp⟩, rfl⟩
  rw [hheld] at this
  obtain ⟨e, he, hid⟩ := List.mem_map.mp this
  exact List.mem_map.mpr ⟨e, hT.retsOk e he, hid⟩

theorem raised_quiescent {c : Conf} (h : PInv a0 q0 L progs c) (hq : c.quiescent = true) (i : Nat) :
    c.alloc.raised.mem i = true ↔ (a0.raised.mem i = true ∨ i ∈ c.created.map (·.id)) := by
  constructor
  · intro hi
    rcases h.raisedNew i hi with h1 | h1
    · exact Or.inl h1
    · exact Or.inr (issued_created h hq h1)
  · rintro (h1 | h1)
    · exact h.raisedMono i h1
    · obtain ⟨e, he, rfl⟩ := List.mem_map.mp h1
      exact (h.createdOk e he).2.2

/-- Every id returned by a creation during the phase was issued by a CAS of the phase. -/
theorem created_issued {c : Conf} (h : PInv a0 q0 L progs c) {e : Entity} (he : e ∈ c.created) :
    e.id ∈ c.issued.map (·.2) := by
  obtain ⟨t, th, hget, hr⟩ := h.createdOwned e he
  have := held_issued (h.thr t th hget) (List.mem_append.mpr (Or.inl (List.mem_map.mpr ⟨e, hr, rfl⟩)))
  exact List.mem_map.mpr ⟨(t, e.id), this, rfl⟩

/-- The allocator of a quiescent configuration satisfies the sequential invariant again. -/
theorem inv_quiescent {c : Conf} (h0 : Start a0 L) (h : PInv a0 q0 L progs c)
    (hq : c.quiescent = true) : Inv c.alloc := by
  obtain ⟨i1, i2, i3, i4, i5, i6, i7, i8, i9, i10⟩ := h0.inv
  simp only [List.append_nil] at i8 i9 i10
  have hr := raised_quiescent h hq
  have hfree : c.alloc.free = a0.free.take c.alloc.cacheLen := by
    simp only [free, h.cacheEq, List.take_take]
    congr 1
    have := h.lenLe; omega
  have hsplit : a0.free = a0.free.take c.alloc.cacheLen ++ a0.free.drop c.alloc.cacheLen :=
    (List.take_append_drop _ _).symm
  have hissued : ∀ i, i ∈ c.issued.map (·.2) → c.alloc.raised.mem i = true := fun i hi =>
    (hr i).mpr (Or.inr (issued_created h hq hi))
  constructor
  · have := h.lenLe; rw [h.cacheEq]; omega
  · rw [h.gensEq, h.genLenEq]; exact i2
  · rw [h.gensEq, h.aliveEq]; exact i3
  · intro i hi
    rw [h.gensEq]
    rcases (hr i).mp hi with h1 | h1
    · exact i4 i h1
    · obtain ⟨e, he, rfl⟩ := List.mem_map.mp h1
      exact (issued_free h0 h (created_issued h he)).2.1
  · intro i hi
    rw [h.gensEq]
    rcases (h.killedIff i).mp hi with h1 | h1
    · rcases i5 i h1 with h2 | h2
      · exact Or.inl h2
      · exact Or.inr (h.raisedMono i h2)
    · obtain ⟨e, he, rfl, hs⟩ := h.requestedOk i h1
      exact stableAlive_occ h0.inv h.raisedMono (logOk_of_mem h0 h he) hs
  · intro i hi
    rw [h.gensEq]
    have hge := h.maxGe
    refine ⟨(i6 i (by omega)).1, ?_⟩
    cases hm : c.alloc.raised.mem i
    · rfl
    · exfalso
      rcases h.raisedNew i hm with h1 | h1
      · have := (i6 i (by omega)).2; simp [this] at h1
      · have := (issued_free h0 h h1).2.2; omega
  · intro i hi hg
    rw [h.gensEq] at hg
    by_cases hlt : i < a0.maxId
    · exact h.raisedMono i (i7 i hlt hg)
    · exact hissued i ((h.issuedMem i).mpr (Or.inr ⟨by omega, hi⟩))
  · intro i hi
    simp only [List.append_nil, hfree] at hi
    have hmem : i ∈ a0.free := List.mem_of_mem_take hi
    have := i8 i hmem
    have hge := h.maxGe
    rw [h.gensEq]
    refine ⟨by omega, this.2.1, ?_⟩
    cases hm : c.alloc.raised.mem i
    · rfl
    · exfalso
      rcases h.raisedNew i hm with h1 | h1
      · simp [this.2.2] at h1
      · rcases (h.issuedMem i).mp h1 with h2 | h2
        · rw [hsplit] at i9
          exact (List.nodup_append.mp i9).2.2 i hi i h2 rfl
        · omega
  · simp only [List.append_nil, hfree]
    exact i9.sublist (List.take_sublist _ _)
  · intro i hi
    rw [h.gensEq]
    simp only [List.append_nil, hfree]
    by_cases hlt : i < a0.maxId
    · rcases i10 i hlt with h1 | h1 | h1
      · exact Or.inl h1
      · exact Or.inr (Or.inl (h.raisedMono i h1))
      · rw [hsplit] at h1
        rcases List.mem_append.mp h1 with h2 | h2
        · exact Or.inr (Or.inr h2)
        · exact Or.inr (Or.inl (hissued i ((h.issuedMem i).mpr (Or.inl h2))))
    · exact Or.inr (Or.inl (hissued i ((h.issuedMem i).mpr (Or.inr ⟨by omega, hi⟩))))

/-- Occupancy at quiescence: what was occupied at phase start plus what was created. -/
theorem occ_quiescent {c : Conf} (h : PInv a0 q0 L progs c) (hq : c.quiescent = true) (j : Nat) :
    c.alloc.occ j = (a0.occ j || decide (j ∈ c.created.map (·.id))) := by
  have hr := raised_quiescent h hq j
  simp only [occ, h.gensEq]
  cases hm : c.alloc.raised.mem j
  · have : ¬ (a0.raised.mem j = true ∨ j ∈ c.created.map (·.id)) := by rw [← hr]; simp [hm]
    simp only [not_or] at this
    simp [this.1, this.2]
  · rcases hr.mp hm with h1 | h1
    · simp [h1]
    · simp [h1]

/-- `top` at quiescence. -/
theorem top_quiescent {c : Conf} (h0 : Start a0 L) (h : PInv a0 q0 L progs c)
    (hq : c.quiescent = true) (j : Nat) :
    c.alloc.top j = if j ∈ c.created.map (·.id) then 1 - a0.gens.get j else a0.top j := by
  have hr := raised_quiescent h hq j
  by_cases hin : j ∈ c.created.map (·.id)
  · simp only [hin, if_true]
    obtain ⟨e, he, rfl⟩ := List.mem_map.mp hin
    have hg := (issued_free h0 h (created_issued h he)).2.1
    have : ¬ (0 < a0.gens.get e.id) := by omega
    simp [top, h.gensEq, this, (h.createdOk e he).2.2]
  · simp only [hin, if_false]
    have : c.alloc.raised.mem j = a0.raised.mem j := by
      cases hm : a0.raised.mem j
      · cases hm2 : c.alloc.raised.mem j
        · rfl
        · rcases hr.mp hm2 with h1 | h1
          · simp [hm] at h1
          · exact absurd h1 hin
      · exact h.raisedMono j hm
    simp only [top, h.gensEq, this]

theorem drainLazy_eq : ∀ (q log : List Nat), drainLazy q log = log ++ q
  | [], log => by simp [drainLazy]
  | x :: q, log => by simp [drainLazy, drainLazy_eq q]

theorem drainLazy_nil (q : List Nat) : drainLazy q [] = q := by simp [drainLazy_eq]

/-! ### Monotonicity of the ghost lists -/

theorem ex_self {α} (l : List α) : ∃ x, l = l ++ x := ⟨[], by simp⟩
theorem ex_snoc {α} (l y : List α) : ∃ x, l ++ y = l ++ x := ⟨y, rfl⟩

/-- Ghost lists and the log only grow, one tick at a time. -/
theorem stepW_mono (c : Conf) (t : Nat) (spur : Bool) :
    (∃ l, (c.stepW t spur).created = c.created ++ l) ∧
    (∃ l, (c.stepW t spur).trace = c.trace ++ l) ∧
    (∃ l, (c.stepW t spur).requested = c.requested ++ l) ∧
    (c.stepW t spur).initLog = c.initLog := by
  unfold Conf.stepW
  split
  · exact ⟨ex_self _, ex_self _, ex_self _, rfl⟩
  · split
    · unfold Conf.stepIdle
      repeat' split
      all_goals (refine ⟨?_, ?_, ?_, ?_⟩ <;> first | rfl | exact ex_self _ | exact ex_snoc _ _)
    · unfold Conf.stepDec
      repeat' split
      all_goals (refine ⟨?_, ?_, ?_, ?_⟩ <;> first | rfl | exact ex_self _ | exact ex_snoc _ _)
    · unfold Conf.stepPopped
      repeat' split
      all_goals (refine ⟨?_, ?_, ?_, ?_⟩ <;> first | rfl | exact ex_self _ | exact ex_snoc _ _)
    · unfold Conf.stepInc
      repeat' split
      all_goals (refine ⟨?_, ?_, ?_, ?_⟩ <;> first | rfl | exact ex_self _ | exact ex_snoc _ _)
    · exact ⟨ex_self _, ex_self _, ex_self _, rfl⟩
    · exact ⟨ex_snoc _ _, ex_snoc _ _, ex_self _, rfl⟩
    · unfold Conf.stepChk
      repeat' split
      all_goals (refine ⟨?_, ?_, ?_, ?_⟩ <;> first | rfl | exact ex_self _ | exact ex_snoc _ _)

theorem runW_mono : ∀ (s : List (Nat × Bool)) (c : Conf),
    (∃ l, (c.runW s).created = c.created ++ l) ∧
    (∃ l, (c.runW s).trace = c.trace ++ l) ∧
    (∃ l, (c.runW s).requested = c.requested ++ l) ∧
    (c.runW s).initLog = c.initLog
  | [], c => ⟨ex_self _, ex_self _, ex_self _, rfl⟩
  | x :: s, c => by
    obtain ⟨⟨l1, h1⟩, ⟨l2, h2⟩, ⟨l3, h3⟩, h4⟩ := stepW_mono c x.1 x.2
    obtain ⟨⟨m1, g1⟩, ⟨m2, g2⟩, ⟨m3, g3⟩, g4⟩ := runW_mono s (c.stepW x.1 x.2)
    simp only [Conf.runW]
    exact ⟨⟨l1 ++ m1, by rw [g1, h1, List.append_assoc]⟩, ⟨l2 ++ m2, by rw [g2, h2, List.append_assoc]⟩,
      ⟨l3 ++ m3, by rw [g3, h3, List.append_assoc]⟩, by rw [g4, h4]⟩
end SpecsModel.Conc
