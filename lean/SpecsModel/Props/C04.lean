/-
  C04 — Every storage kind behaves as the same map from live entity to component.
  Property theorems only (proofs are in Lemmas/StoreRep, Lemmas/MaskedRep, Lemmas/StoreSeq).

  Quantifier: every operation sequence (`List StOp`: get / contains / get_mut with dereferences and
  optional write / insert / remove / the three entry operations / get_mut_or_default / drain /
  clear / count / is_empty / mask) over ANY handles — alive in the allocator or not, any indices
  (dense, sparse, far apart; indices are unbounded `Nat`s) — for each of the twelve registered
  kinds `newStore k` (vec, dense vec, default vec, hash map, B-tree, null, and the Flagged /
  DerefFlagged wrappers over them), and in fact for every `UStore` value whatsoever, i.e. any
  wrapper nesting over any inner kind (`UStore.Rep` recurses through the wrappers).
  The only side condition is `StOp.valsOk`: a null-based storage can only be given the unit
  value 0 (NullStorage holds zero-sized components).

  The model results never are `StRes.fail`: no operation reaches a `panic!`/`unwrap` failure or
  reads an uninitialised / moved-out slot (`Out.ub`), which is the storage half of C08.
-/
import SpecsModel.Model.World
import SpecsModel.Lemmas.StoreSeq
import SpecsModel.Lemmas.MaskedWF
namespace SpecsModel.C04
open SpecsModel

/-! ## (a) Per-operation refinement: under `MRep ms m` each API function is the map operation -/

section PerOp
variable {ms : Masked} {m : Nat → Option Int}

/-- `Storage::get`: the component of a live handle, nothing for a dead one. -/
theorem get_refines (h : ms.MRep m) (a : Alloc) (e : Entity) :
    ms.get a e = .ok (if a.isAlive e then m e.id else none) := Masked.get_ref h a e

/-- `Storage::contains`. -/
theorem contains_refines (h : ms.MRep m) (a : Alloc) (e : Entity) :
    ms.contains a e = (a.isAlive e && (m e.id).isSome) := Masked.contains_ref h a e

/-- `Storage::get_mut`, `derefs` dereferences, optional write `w`: returns the old value; the new
    state represents the map with the entry overwritten (if present and a write was given). -/
theorem getMut_refines (h : ms.MRep m) (a : Alloc) (e : Entity) (derefs : Nat) (w : Option Int)
    (hw : ∀ x, w = some x → ms.inner.valOk x) :
    ∃ r, ms.getMut a e derefs w = .ok r ∧ r.val = (if a.isAlive e then m e.id else none) ∧
      r.destroyed = [] ∧ Masked.MRep r.st (if a.isAlive e then PMap.write m e.id w else m) :=
  let ⟨r, h1, h2, h3, h4, _⟩ := Masked.getMut_ref h a e derefs w hw
  ⟨r, h1, h2, h3, h4⟩

/-- `Storage::insert`: `Ok(None)` / `Ok(Some(old))` / `Err(WrongGeneration)`; afterwards the map
    has `v` at the index (unchanged for a dead handle, whose value is simply dropped). The only
    values destroyed by a successful insert are default fillers (0). -/
theorem insert_refines (h : ms.MRep m) (a : Alloc) (e : Entity) (v : Int) (hv : ms.inner.valOk v) :
    ∃ r, ms.insert a e v = .ok r ∧
      r.val = (if a.isAlive e then
                 (match m e.id with | some old => Masked.InsRes.replaced old | none => .inserted)
               else .wrongGen) ∧
      Masked.MRep r.st (if a.isAlive e then upd m e.id (some v) else m) ∧
      (if a.isAlive e then ∀ x ∈ r.destroyed, x = 0 else r.destroyed = [v]) :=
  let ⟨r, h1, h2, h3, h4, _⟩ := Masked.insert_ref h a e v hv
  ⟨r, h1, h2, h3, h4⟩

/-- `Storage::remove`: returns the removed value. -/
theorem remove_refines (h : ms.MRep m) (a : Alloc) (e : Entity) :
    ∃ r, ms.remove a e = .ok r ∧ r.val = (if a.isAlive e then m e.id else none) ∧
      r.destroyed = [] ∧ Masked.MRep r.st (if a.isAlive e then upd m e.id none else m) :=
  let ⟨r, h1, h2, h3, h4, _⟩ := Masked.remove_ref h a e
  ⟨r, h1, h2, h3, h4⟩

/-- `MaskedStorage::remove(id)`. -/
theorem removeId_refines (h : ms.MRep m) (i : Nat) :
    ∃ r, ms.removeId i = .ok r ∧ r.val = m i ∧ r.destroyed = [] ∧ Masked.MRep r.st (upd m i none) :=
  let ⟨r, h1, h2, h3, h4, _⟩ := Masked.removeId_ref h i
  ⟨r, h1, h2, h3, h4⟩

/-- `MaskedStorage::drop(id)`: destroys exactly the stored value (if any). -/
theorem dropId_refines (h : ms.MRep m) (i : Nat) :
    ∃ r, ms.dropId i = .ok r ∧ r.destroyed = (m i).toList ∧ Masked.MRep r.st (upd m i none) :=
  let ⟨r, h1, h2, h3, _⟩ := Masked.dropId_ref h i
  ⟨r, h1, h2, h3⟩

/-- `AnyStorage::drop(entities)`: a fold of `drop(id)`. -/
theorem dropAll_refines (h : ms.MRep m) (es : List Entity) :
    ∃ r, ms.dropAll es [] = .ok r ∧ r.destroyed = PMap.dropVals m (es.map (·.id)) ∧
      Masked.MRep r.st (PMap.eraseAll m (es.map (·.id))) :=
  let ⟨r, h1, h2, h3, _⟩ := Masked.dropAll_ref es h []
  ⟨r, h1, by simpa using h2, h3⟩

/-- `MaskedStorage::clear`: empty map, empty mask, every stored value destroyed. -/
theorem clear_refines (h : ms.MRep m) :
    ∃ r, ms.clear = .ok r ∧ Masked.MRep r.st (fun _ => none) ∧ r.st.mask = BSet.empty ∧
      (∀ i v, m i = some v → v ∈ r.destroyed) :=
  let ⟨r, h1, h2, h3, h4, _⟩ := Masked.clear_ref h
  ⟨r, h1, h2, h3, h4⟩

/-- `Storage::drain()` consumed for `n` items: yields the first `n` entries in ascending index
    order and removes exactly those. -/
theorem drain_refines (h : ms.MRep m) (n : Nat) :
    ∃ r, ms.drain n = .ok r ∧ r.val = PMap.entries m (ms.mask.toList.take n) ∧ r.destroyed = [] ∧
      Masked.MRep r.st (PMap.eraseAll m (ms.mask.toList.take n)) :=
  let ⟨r, h1, h2, h3, h4, _⟩ := Masked.drain_ref h n
  ⟨r, h1, h2, h3, h4⟩

/-- `Storage::entry(e)` + `or_insert` / `replace` / `remove`, in all three states (stale handle,
    occupied, vacant): result and final map are those of `PMap.entry`. -/
theorem entry_refines (h : ms.MRep m) (a : Alloc) (e : Entity) (op : Masked.EntryOp)
    (hop : Masked.entryValsOk ms.inner op) :
    ∃ r, ms.entry a e op = .ok r ∧
      r.val = (if a.isAlive e then (PMap.entry m e.id op).1 else .wrongGen) ∧
      Masked.MRep r.st (if a.isAlive e then (PMap.entry m e.id op).2 else m) :=
  let ⟨r, h1, h2, h3, _⟩ := Masked.entry_ref h a e op hop
  ⟨r, h1, h2, h3⟩

/-- `get_mut_or_default`: the value or the default 0 (inserted on the way), `None` for a dead
    handle. -/
theorem getMutOrDefault_refines (h : ms.MRep m) (a : Alloc) (e : Entity) (derefs : Nat)
    (w : Option Int) (hw : ∀ x, w = some x → ms.inner.valOk x) :
    ∃ r, ms.getMutOrDefault a e derefs w = .ok r ∧
      r.val = (if a.isAlive e then some ((m e.id).getD 0) else none) ∧
      Masked.MRep r.st
        (if a.isAlive e then upd m e.id (some (w.getD ((m e.id).getD 0))) else m) :=
  let ⟨r, h1, h2, h3, _⟩ := Masked.getMutOrDefault_ref h a e derefs w hw
  ⟨r, h1, h2, h3⟩

/-- Membership mask = key set; `mask.toList` = ascending keys; `count` = number of keys;
    `is_empty` ⇔ no key. -/
theorem mask_refines (h : ms.MRep m) :
    (∀ i, ms.mask.mem i = (m i).isSome) ∧
    (∀ l : List Nat, l.Pairwise (· < ·) → (∀ i, i ∈ l ↔ (m i).isSome = true) → ms.mask.toList = l) ∧
    (∀ l : List Nat, l.Nodup → (∀ i, i ∈ l ↔ (m i).isSome = true) → ms.mask.count = l.length) ∧
    (ms.mask.isEmpty = true ↔ ∀ i, m i = none) :=
  ⟨h.1, fun _ hs hl => Masked.mask_toList_eq h hs hl, fun _ hn hl => Masked.count_eq h hn hl,
    Masked.isEmpty_iff h⟩

end PerOp

/-! ## (b) Operation sequences -/

/-- A freshly registered storage of kind `k`. -/
def fresh (k : Nat) : Masked := { mask := .empty, inner := newStore k }

/-- Only kind 5 (`NullStorage`) is null-based. -/
theorem nullBased_newStore (k : Nat) : (newStore k).nullBased = (k == 5) := by
  unfold newStore
  split <;> first | rfl | (simp only [UStore.nullBased]; symm; simp; omega)

/-- A fresh storage of any kind represents the empty map. -/
theorem fresh_sim (k : Nat) : Sim (newStore k).nullBased (fresh k) [] := by
  refine ⟨⟨by simp [fresh, MapSpec.get], ?_⟩, by simp [MapSpec.Sorted, MapSpec.keys], rfl⟩
  rw [MapSpec.get_nil]
  unfold fresh newStore
  split <;> simp [UStore.Rep, UStore.assocGet]

/-- **C04, sequences.** For every kind `k` (the twelve registered ones are `k < 12`; larger `k`
    alias kind 11), every allocator state, every operation sequence whose written values are
    storable: the model returns exactly the results of the plain map put through the same
    operations (return values incl. replaced/removed values, mask, count, emptiness, every
    lookup), and the final storage represents the final map. -/
theorem sequence_refines (k : Nat) (a : Alloc) (ops : List StOp)
    (hv : ∀ op ∈ ops, op.valsOk (k == 5)) :
    (Masked.runOps a (fresh k) ops).2 = (MapSpec.runOps a.isAlive [] ops).2 ∧
    Masked.MRep (Masked.runOps a (fresh k) ops).1 (MapSpec.get (MapSpec.runOps a.isAlive [] ops).1) ∧
    MapSpec.Sorted (MapSpec.runOps a.isAlive [] ops).1 := by
  have h := Sim.run a ops (fresh_sim k) (by rw [nullBased_newStore]; exact hv)
  exact ⟨h.1, h.2.rep, h.2.sorted⟩

/-- For every kind but `NullStorage` there is no side condition at all. -/
theorem sequence_refines_nonnull (k : Nat) (hk : k ≠ 5) (a : Alloc) (ops : List StOp) :
    (Masked.runOps a (fresh k) ops).2 = (MapSpec.runOps a.isAlive [] ops).2 ∧
    Masked.MRep (Masked.runOps a (fresh k) ops).1 (MapSpec.get (MapSpec.runOps a.isAlive [] ops).1) := by
  have hb : (k == 5) = false := by simp [hk]
  have h := sequence_refines k a ops (by rw [hb]; exact fun op _ => op.valsOk_false)
  exact ⟨h.1, h.2.1⟩

/-- The same from any storage state that represents a map (e.g. one reached through world
    operations, or any wrapper nesting), not only from a fresh one. -/
theorem sequence_refines_from {nb : Bool} {ms : Masked} {l : List (Nat × Int)} (h : Sim nb ms l)
    (a : Alloc) (ops : List StOp) (hv : ∀ op ∈ ops, op.valsOk nb) :
    (Masked.runOps a ms ops).2 = (MapSpec.runOps a.isAlive l ops).2 ∧
    Sim nb (Masked.runOps a ms ops).1 (MapSpec.runOps a.isAlive l ops).1 :=
  Sim.run a ops h hv

/-- With live handles only, the reference run does not consult the allocator at all: it is the
    plain map keyed by entity index. -/
theorem sequence_refines_alive (k : Nat) (a : Alloc) (ops : List StOp)
    (hv : ∀ op ∈ ops, op.valsOk (k == 5))
    (hal : ∀ op ∈ ops, ∀ e, op.handle? = some e → a.isAlive e = true) :
    (Masked.runOps a (fresh k) ops).2 = (MapSpec.runOps (fun _ => true) [] ops).2 := by
  rw [(sequence_refines k a ops hv).1, MapSpec.runOps_congr ops [] hal]

/-- No operation of any sequence on any kind panics or touches an uninitialised / moved-out slot. -/
theorem sequence_never_fails (k : Nat) (a : Alloc) (ops : List StOp)
    (hv : ∀ op ∈ ops, op.valsOk (k == 5)) :
    ∀ r ∈ (Masked.runOps a (fresh k) ops).2, r.isFail = false := by
  rw [(sequence_refines k a ops hv).1]
  exact MapSpec.runOps_not_fail _ _ _

/-- All kinds are observably the same map: any two kinds give the same results on the same
    sequence (for the null kind: as long as only the unit value is written). -/
theorem kinds_agree (k₁ k₂ : Nat) (a : Alloc) (ops : List StOp)
    (h₁ : ∀ op ∈ ops, op.valsOk (k₁ == 5)) (h₂ : ∀ op ∈ ops, op.valsOk (k₂ == 5)) :
    (Masked.runOps a (fresh k₁) ops).2 = (Masked.runOps a (fresh k₂) ops).2 := by
  rw [(sequence_refines k₁ a ops h₁).1, (sequence_refines k₂ a ops h₂).1]

/-- A fresh storage is well-formed (map-based kinds have distinct keys); sequences keep it so. -/
theorem fresh_wf (k : Nat) : (fresh k).inner.WF := by
  unfold fresh newStore
  split <;> simp [UStore.WF]

/-- Clearing (or dropping) the storage after any sequence destroys the values of the final map,
    each exactly once, plus — for the default-filled vector kind 2 only — default fillers (0). -/
theorem clear_after_sequence (k : Nat) (a : Alloc) (ops : List StOp)
    (hv : ∀ op ∈ ops, op.valsOk (k == 5)) :
    ∃ r fillers, (Masked.runOps a (fresh k) ops).1.clear = .ok r ∧ (∀ x ∈ fillers, x = 0) ∧
      (k ≠ 2 → fillers = []) ∧
      r.destroyed.Perm ((MapSpec.runOps a.isAlive [] ops).1.map (·.2) ++ fillers) := by
  have hs := (Sim.run a ops (fresh_sim k) (by rw [nullBased_newStore]; exact hv)).2
  have hw := Masked.runOps_wf UStore.preserved_wf a ops (fresh_wf k)
  obtain ⟨r, f, h1, h2, h3, h4⟩ := hs.clear_perm hw
  refine ⟨r, f, h1, h2, fun hk => h3 ?_, h4⟩
  apply Masked.runOps_wf (UStore.preserved_dvecBased false) a ops
  unfold fresh newStore
  split <;> first | rfl | exact absurd rfl hk

/-! ## (c) Slice views
  `SliceAccess` is implemented by `VecStorage`, `DefaultVecStorage`, `DenseVecStorage` only; the
  change-tracking wrappers do not implement it (`UStore.asSlice` is `.none` for them), so there is
  no slice to constrain there. -/

/-- `VecStorage::as_slice`: every occupied index holds its component (initialised). -/
theorem slice_vec {mask : BSet} {slots : Array (Option Int)} {m : Nat → Option Int}
    (h : Masked.MRep ⟨mask, .vec slots⟩ m) :
    (UStore.vec slots).asSlice = .opt slots ∧ ∀ i v, m i = some v → slots[i]? = some (some v) :=
  ⟨rfl, h.2⟩

/-- `DefaultVecStorage::as_slice`: occupied indices hold the component, every other index below
    the length holds the default value. -/
theorem slice_dvec {mask : BSet} {slots : Array Int} {m : Nat → Option Int}
    (h : Masked.MRep ⟨mask, .dvec slots⟩ m) :
    (UStore.dvec slots).asSlice = .vals slots ∧ (∀ i v, m i = some v → slots[i]? = some v) ∧
      (∀ i, i < slots.size → m i = none → slots[i]? = some 0) :=
  ⟨rfl, h.2.1, h.2.2⟩

/-- `DenseVecStorage::as_slice`: a permutation of the stored values (the values of the map taken
    in ascending key order). -/
theorem slice_dense {mask : BSet} {data : Array Int} {eid : Array Nat} {did : Array (Option Nat)}
    {m : Nat → Option Int} (h : Masked.MRep ⟨mask, .dense data eid did⟩ m) :
    (UStore.dense data eid did).asSlice = .vals data ∧
      data.toList.Perm (mask.toList.filterMap m) :=
  ⟨rfl, UStore.dense_slice_perm h.2 h.1⟩

/-- The wrappers expose no slice. -/
theorem slice_wrappers (inner : UStore) (ev : Array CEv) (emit : Bool) :
    (UStore.flagged inner ev emit).asSlice = .none ∧
    (UStore.derefFlagged inner ev emit).asSlice = .none := ⟨rfl, rfl⟩

/-- What the harness observes of a vec slice (`World.sliceView`): at each mask index, the map's value. -/
theorem sliceView_vec {mask : BSet} {slots : Array (Option Int)} {m : Nat → Option Int}
    (h : Masked.MRep ⟨mask, .vec slots⟩ m) :
    World.sliceView ⟨mask, .vec slots⟩ = .opt slots.size (mask.toList.map (fun i => (i, m i))) := by
  simp only [World.sliceView, UStore.asSlice]
  congr 1
  apply List.map_congr_left
  intro i hi
  have hs := (Masked.mask_toList_keys h i).mp hi
  obtain ⟨v, hv⟩ := Option.isSome_iff_exists.mp hs
  simp [hv, h.2 i v hv]

/-- … of a default-vec slice: the map's value at each mask index, and no non-default value
    anywhere else. -/
theorem sliceView_dvec {mask : BSet} {slots : Array Int} {m : Nat → Option Int}
    (h : Masked.MRep ⟨mask, .dvec slots⟩ m) :
    World.sliceView ⟨mask, .dvec slots⟩ =
      .dflt slots.size (mask.toList.map (fun i => (i, (m i).getD 0))) 0 := by
  simp only [World.sliceView, UStore.asSlice]
  congr 1
  · apply List.map_congr_left
    intro i hi
    have hs := (Masked.mask_toList_keys h i).mp hi
    obtain ⟨v, hv⟩ := Option.isSome_iff_exists.mp hs
    simp [hv, h.2.1 i v hv]
  · rw [List.length_eq_zero_iff, List.filter_eq_nil_iff]
    intro i hi
    have hlt : i < slots.size := List.mem_range.mp hi
    cases hm : mask.mem i
    · have hn : m i = none := by
        have := h.1 i
        simp only [hm] at this
        cases hmi : m i with
        | none => rfl
        | some v => simp [hmi] at this
      simp [h.2.2 i hlt hn]
    · simp

/-- … of a dense slice: its sorted content is the sorted list of the map's values. -/
theorem sliceView_dense {mask : BSet} {data : Array Int} {eid : Array Nat}
    {did : Array (Option Nat)} {m : Nat → Option Int}
    (h : Masked.MRep ⟨mask, .dense data eid did⟩ m) :
    World.sliceView ⟨mask, .dense data eid did⟩ =
      .dense ((mask.toList.filterMap m).mergeSort (· ≤ ·)) := by
  simp only [World.sliceView, UStore.asSlice]
  rw [mergeSort_eq_of_perm (UStore.dense_slice_perm h.2 h.1)]

/-! ## (d) Non-vacuity -/

/-- Entity `⟨i, 1⟩` is alive in the initial allocator view used here (generation 1 everywhere). -/
private def e (i : Nat) : Entity := ⟨i, 1⟩

/-- Dense storage, remove from the middle (swap_remove + redirect), lookups still right. -/
example :
    (Masked.runOps Alloc.init (fresh 1)
      [.insert (e 0) 10, .insert (e 1) 11, .insert (e 2) 12, .insert (e 3) 13, .remove (e 1),
       .get (e 0), .get (e 1), .get (e 2), .get (e 3), .count, .mask, .drain 2, .mask]).2
    = [.ins .inserted, .ins .inserted, .ins .inserted, .ins .inserted, .opt (some 11),
       .opt (some 10), .opt none, .opt (some 12), .opt (some 13), .nat 3, .ids [0, 2, 3],
       .pairs [(0, 10), (2, 12)], .ids [3]] := by decide +kernel

/-- The plain map gives the same list (the instance of `sequence_refines`). -/
example :
    (MapSpec.runOps Alloc.init.isAlive []
      [.insert (e 0) 10, .insert (e 1) 11, .insert (e 2) 12, .insert (e 3) 13, .remove (e 1),
       .get (e 0), .get (e 1), .get (e 2), .get (e 3), .count, .mask, .drain 2, .mask]).2
    = [.ins .inserted, .ins .inserted, .ins .inserted, .ins .inserted, .opt (some 11),
       .opt (some 10), .opt none, .opt (some 12), .opt (some 13), .nat 3, .ids [0, 2, 3],
       .pairs [(0, 10), (2, 12)], .ids [3]] := by decide +kernel

/-- Re-insert after remove (dense, tracked): the stale `data_id` slot is overwritten, a stale
    handle (generation 2) is refused, overwrite returns the old value, entry API agrees. -/
example :
    (Masked.runOps Alloc.init (fresh 7)
      [.insert (e 4) 1, .insert (e 2) 2, .remove (e 4), .get (e 4), .insert (e 4) 3, .get (e 4),
       .insert ⟨4, 2⟩ 9, .insert (e 4) 5, .entry (e 2) (.orInsert 7 1 (some 8)), .get (e 2),
       .entry (e 9) (.replace 6), .entry (e 9) .remove, .mutOrDefault (e 9) 0 none, .mask,
       .clear, .isEmpty, .get (e 2)]).2
    = [.ins .inserted, .ins .inserted, .opt (some 1), .opt none, .ins .inserted, .opt (some 3),
       .ins .wrongGen, .ins (.replaced 3), .entry (.occupied 2), .opt (some 8),
       .entry .vacant, .entry (.occupied 6), .opt (some 0), .ids [2, 4, 9],
       .unit, .bool true, .opt none] := by decide +kernel


/-- Indices around a bit-set word boundary (63 / 64 / 127 / 128) on a `VecStorage`, evaluated on
    the model itself. -/
example :
    (Masked.runOps Alloc.init (fresh 0)
      [.insert (e 128) 4, .insert (e 63) 1, .insert (e 127) 3, .insert (e 64) 2,
       .get (e 63), .get (e 64), .get (e 127), .get (e 128), .get (e 65), .mask,
       .remove (e 127), .get (e 128), .get (e 127), .count]).2
    = [.ins .inserted, .ins .inserted, .ins .inserted, .ins .inserted,
       .opt (some 1), .opt (some 2), .opt (some 3), .opt (some 4), .opt none,
       .ids [63, 64, 127, 128], .opt (some 3), .opt (some 4), .opt none, .nat 3] := by
  decide +kernel

/-- Far-apart indices 63 / 64 / 4095 / 4096 on a `VecStorage` (kernel evaluation of 4097-element
    arrays is out of reach; the result is obtained through `sequence_refines` instead, which is
    the point of an unbounded theorem). -/
example :
    (Masked.runOps Alloc.init (fresh 0)
      [.insert (e 4096) 4, .insert (e 63) 1, .insert (e 4095) 3, .insert (e 64) 2,
       .get (e 63), .get (e 64), .get (e 4095), .get (e 4096), .get (e 65), .mask,
       .remove (e 4095), .get (e 4096), .get (e 4095), .count]).2
    = [.ins .inserted, .ins .inserted, .ins .inserted, .ins .inserted,
       .opt (some 1), .opt (some 2), .opt (some 3), .opt (some 4), .opt none,
       .ids [63, 64, 4095, 4096], .opt (some 3), .opt (some 4), .opt none, .nat 3] := by
  rw [(sequence_refines_nonnull 0 (by decide) Alloc.init _).1]
  decide +kernel

/-- The null kind with unit values satisfies the side condition and behaves as the map too. -/
example :
    (∀ op ∈ [StOp.insert (e 3) 0, .get (e 3), .remove (e 3), .get (e 3)], op.valsOk (5 == 5)) ∧
    (Masked.runOps Alloc.init (fresh 5) [.insert (e 3) 0, .get (e 3), .remove (e 3), .get (e 3)]).2
    = [.ins .inserted, .opt (some 0), .opt (some 0), .opt none] := by
  refine ⟨?_, by decide +kernel⟩
  intro op hop
  simp only [List.mem_cons, List.not_mem_nil, or_false] at hop
  rcases hop with rfl | rfl | rfl | rfl <;> simp [StOp.valsOk]

end SpecsModel.C04
