/-
  C02 — Aliveness follows the create / delete / maintain timeline exactly.
  Property theorems only. The timeline is the abstract machine `EntSpec` (Spec/EntSpec.lean):
  `live` = handles that are not dead, `pending` = deletion requested and awaiting maintain.
-/
import SpecsModel.Lemmas.EWorldAccept
import SpecsModel.Lemmas.EntSpecFacts
import SpecsModel.Props.WorldEnt
namespace SpecsModel.C02
open SpecsModel Alloc

/-- **Refinement.** For every operation sequence the model's transcript is accepted by the
    timeline specification: every `is_alive` answer equals membership in `live`, every deletion
    result (including the failing position of a batch) equals the live-prefix rule, every entities
    join lists exactly the live handles in ascending index order, and no operation panics. -/
theorem timeline_refinement (ops : List EOp) :
    ∃ s, monitorEnt EntSpec.init #[] (EWorld.run ops).2 = .ok s ∧ WR (EWorld.run ops).1 s :=
  runFrom_accept ops {} EntSpec.init WR_init

/-- In every reachable state and for every handle ever returned, the allocator's `is_alive`
    coincides with the timeline's `live` set. -/
theorem alive_iff_live (ops : List EOp) (e : Entity) (he : e ∈ (EWorld.run ops).1.log.toList) :
    ∃ s, monitorEnt EntSpec.init #[] (EWorld.run ops).2 = .ok s ∧
      ((EWorld.run ops).1.alloc.isAlive e = true ↔ e ∈ s.live) := by
  obtain ⟨s, hm, hW⟩ := timeline_refinement ops
  exact ⟨s, hm, ⟨fun h => (hW.r.liveIff e).mpr ⟨hW.logSeen e he, h⟩, fun h => ((hW.r.liveIff e).mp h).2⟩⟩

/-- **Never alive again.** On the timeline, a handle that has been returned and is no longer live
    is not live after any accepted continuation, however long. -/
theorem dead_stays_dead (evs : List EntEv) (s s' : EntSpec) (e : Entity)
    (h : s.run evs = .ok s') (hs : e ∈ s.seen) (hl : e ∉ s.live) : e ∉ s'.live :=
  EntSpec.run_dead_stays_dead evs s s' e h hs hl

/-- **Deleting through a dead handle fails and changes nothing** (immediate deletion). -/
theorem delete_dead_unchanged (s s' : EntSpec) (e : Entity) (r : KillRes)
    (hl : e ∉ s.live) (h : s.step (.kill [e] r) = .ok s') : r = .err 0 ∧ s' = s := by
  have hc : s.live.contains e = false := by simpa using hl
  have hk : EntSpec.killPrefix s.live s.pending [e] 0 = (s.live, s.pending, .err 0) := by
    simp only [EntSpec.killPrefix, hc]; rfl
  simp only [EntSpec.step, hk] at h
  by_cases hr : (KillRes.err 0 == r) = true
  · simp only [hr, if_true] at h
    cases h
    exact ⟨(beq_iff_eq.mp hr).symm, rfl⟩
  · simp [hr] at h

/-- **Deferred deletion through a dead handle fails and changes nothing.** -/
theorem delete_atomic_dead_unchanged (s s' : EntSpec) (e : Entity) (ok : Bool)
    (hl : e ∉ s.live) (h : s.step (.killAtomic e ok) = .ok s') : ok = false ∧ s' = s := by
  have hc : s.live.contains e = false := by simpa using hl
  simp only [EntSpec.step, hc] at h
  cases ok <;> simp at h
  exact ⟨rfl, h.symm⟩

/-- **A batch deletes exactly the handles before the first dead one and reports its position**:
    this is the definition of `EntSpec.killPrefix`; the accepted result equals it. -/
theorem batch_prefix (s s' : EntSpec) (es : List Entity) (r : KillRes)
    (h : s.step (.kill es r) = .ok s') :
    r = (EntSpec.killPrefix s.live s.pending es 0).2.2 ∧
    s'.live = (EntSpec.killPrefix s.live s.pending es 0).1 := by
  simp only [EntSpec.step] at h
  split at h
  · next heq => cases h; exact ⟨by simpa using (beq_iff_eq.mp heq).symm, rfl⟩
  · cases h

/-- **After delete_all there are none**: the next accepted entities join is empty. -/
theorem delete_all_empty (s s₁ s₂ : EntSpec) (es : List Entity)
    (h₁ : s.step .deleteAll = .ok s₁) (h₂ : s₁.step (.join es) = .ok s₂) : es = [] := by
  simp only [EntSpec.step] at h₁; cases h₁
  cases es with
  | nil => rfl
  | cons a t =>
    exfalso
    have : EntSpec.joinOk [] (a :: t) = false := by simp [EntSpec.joinOk]
    simp [EntSpec.step, this] at h₂

/-- Non-vacuity: deferred deletion keeps the entity alive until `maintain`; a dropped builder is
    a deferred deletion; a failing batch deletes exactly its live prefix. -/
example : (EWorld.run [.createNow false, .createAtomic true, .delAtomic 0, .alive 0, .alive 1, .merge,
      .alive 0, .alive 1, .createNow false, .delBatch [2, 0, 2], .ejoin]).2.map (·.2)
    = [.ent ⟨0, 1⟩, .ent ⟨1, 1⟩, .kill .ok, .bool true, .bool true, .unit, .bool false, .bool false,
       .ent ⟨1, 2⟩, .kill (.err 1), .ents []] := by decide +kernel


/-- **C02 for the full world model**: in every reachable world (any history, incl. storages and lazy
    scripts) `is_alive` of a logged handle is membership in the live set of an abstract timeline to which
    the allocator is coupled. -/
theorem world_alive_iff_live (fuel : Nat) (ops : List WOp) :
    ∃ s : EntSpec, WR (WorldEnt.after fuel ops).ent s ∧ ∀ e, e ∈ (WorldEnt.after fuel ops).ent.log.toList →
      ((WorldEnt.after fuel ops).ent.alloc.isAlive e = true ↔ e ∈ s.live) := by
  obtain ⟨s, hW⟩ := WorldEnt.coupled fuel ops
  exact ⟨s, hW, fun e he => ⟨fun h => (hW.r.liveIff e).mpr ⟨hW.logSeen e he, h⟩, fun h => ((hW.r.liveIff e).mp h).2⟩⟩

end SpecsModel.C02
