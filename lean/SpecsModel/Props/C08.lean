/-
  C08 — Every component value is handed back or destroyed exactly once.
  Property theorems only (helpers: Lemmas/Ledger*.lean).

  Quantifier: every history `ops : List WOp` over every storage kind (dense, sparse vector,
  default-filled vector, hash map, B-tree, the null storage of zero-sized components, and the
  flagged wrappers) — insertions by every API path, builders, lazy insertions / batch insertions /
  lazy builders, lazily executed scripts nested to any depth, deletions, `maintain`, `clear`,
  `drain`, entries, in-place writes through mutable accesses and restricted joins — and every fuel.
  The no-exposure theorems hold for ANY history (arbitrary arguments). The only hypothesis of the
  conservation theorems is that the history is well typed (`scriptOk`): the zero-sized component
  kind (5) has a single value, the unit value 0 (the model uses `Int` for every kind).

  Accounting: `movedIn` / `returned` are read off each operation and its RESULT (`opIn`, `opOut`,
  Lemmas/LedgerWorld) exactly as the executable monitor `WSpec.op` does with `addToken` /
  `takeToken … "returned" | "overwritten in place"` on the implementation's transcript; for
  operations run inside lazily executed scripts they are accumulated by the ghost wrapper
  `stepL … maintainL` (`ledger_agree`: it computes the model's worlds and results). `destroyed` is
  the model's ledger (`World.ledger`, validated against instrumented `Drop`).

  Values are `Int` tokens; 0 is the unit value of the null kind and the default filler of the
  default-filled vector (fillers are made and destroyed by the storage itself): all statements
  are about the multisets of NON-ZERO values (`nz`).
-/
import SpecsModel.Lemmas.Ledger
namespace SpecsModel.C08
open SpecsModel World Masked UStore

/-- World and accounting (values moved in, values handed back) after a history from the empty world. -/
def after (fuel : Nat) (ops : List WOp) : World × Acct := runL fuel {} ops

def world (fuel : Nat) (ops : List WOp) : World := (after fuel ops).1
/-- Every value the history moved into the world (inserted, attached by a builder, queued for lazy
    insertion, written through a mutable access) — at top level or inside lazily executed scripts. -/
def movedIn (fuel : Nat) (ops : List WOp) : List Int := (after fuel ops).2.1
/-- Every value handed back to the caller (by remove, overwrite, drain, entry removal). -/
def returned (fuel : Nat) (ops : List WOp) : List Int := (after fuel ops).2.2
/-- Every value destroyed so far (entity deletion, clear, refused / replacing lazy inserts,
    dropping the world). -/
def destroyed (fuel : Nat) (ops : List WOp) : List Int := (world fuel ops).ledger
/-- Every value the world still owns: in a storage or captured by a queued lazy action. -/
def held (fuel : Nat) (ops : List WOp) : List Int := (world fuel ops).held

/-- The accounting wrapper computes the model: its world is the one `World.step` produces. -/
theorem world_is_model_world (fuel : Nat) (ops : List WOp) :
    world fuel ops = ops.foldl (fun w op => (step fuel w op).1) {} :=
  runL_world fuel ops {}

/-- "Held" is everything the world owns: every storage in the `stores` array (the value at every
    index of its mask) and every value captured by a queued lazy action. -/
theorem held_is_everything_owned (w : World) :
    w.held = w.stores.toList.flatMap storeHeld ++ (w.queue.map queuedValues).flatten :=
  held_eq_all w

/-- **No operation exposes a moved-out, destroyed or never-written slot.** In the model every read
    of an uninitialised / moved-out slot is `Out.ub` and every failed `unwrap`/index is
    `Out.panic`, both surfaced as a panic result: no operation of ANY history (arbitrary
    arguments) returns one (fuel ≥ 2 lets a top-level `maintain` reach its queue). -/
theorem no_operation_exposes_invalid_slot (fuel : Nat) (hf : 2 ≤ fuel) (ops : List WOp) :
    ∀ r, r ∈ transcript fuel {} ops → r.isPanic = false :=
  run_no_panic fuel hf ops {} inv_init

/-- The same for one operation on any world satisfying the world invariant. -/
theorem no_operation_exposes_invalid_slot_step {w : World} (hi : WInv w) (op : WOp)
    (fuel : Nat) (hf : 2 ≤ fuel) : (step fuel w op).2.isPanic = false :=
  step_no_panic hi op fuel hf

/-- ... and for the operations run INSIDE lazily executed scripts, nested to any depth (their
    results are recorded in `World.trace`), given the fuel bound `listSize ops ≤ fuel` (the size of
    the history, nested scripts counted recursively): none of them panics either. -/
theorem no_nested_operation_exposes_invalid_slot (fuel : Nat) (ops : List WOp)
    (hf : LazyQ.listSize ops ≤ fuel) :
    (∀ r, r ∈ transcript fuel {} ops → r.isPanic = false) ∧
    ∀ x, x ∈ (world fuel ops).trace → x.2.2.isPanic = false := by
  have := run_no_panic_deep fuel ops hf
  rw [← world_is_model_world] at this
  exact this

/-- **Conservation**: held + destroyed + handed back = moved in (multisets of non-zero values),
    after every history and for every fuel. -/
theorem ledger_balances (fuel : Nat) (ops : List WOp) (hok : scriptOk ops = true) :
    (nz (held fuel ops ++ destroyed fuel ops ++ returned fuel ops)).Perm (nz (movedIn fuel ops)) :=
  conservation fuel ops hok

/-- **Each value is handed back or destroyed at most once, never both.** When the values moved in
    are distinct tokens: what is still held, what was destroyed and what was handed back are
    duplicate-free and pairwise disjoint, and a token is in one of the three iff it was moved in. -/
theorem each_value_returned_or_destroyed_once (fuel : Nat) (ops : List WOp) (hok : scriptOk ops = true)
    (hd : (nz (movedIn fuel ops)).Nodup) :
    (nz (held fuel ops)).Nodup ∧ (nz (destroyed fuel ops)).Nodup ∧ (nz (returned fuel ops)).Nodup ∧
    (∀ x, x ∈ nz (held fuel ops) → x ∉ nz (destroyed fuel ops) ∧ x ∉ nz (returned fuel ops)) ∧
    (∀ x, x ∈ nz (destroyed fuel ops) → x ∉ nz (returned fuel ops)) ∧
    (∀ x, x ∈ nz (movedIn fuel ops) ↔
      (x ∈ nz (held fuel ops) ∨ x ∈ nz (destroyed fuel ops) ∨ x ∈ nz (returned fuel ops))) :=
  never_both_never_twice fuel ops hok hd

/-- **Never leaked once the world is dropped.** A history ending with `drop_world`: the drop
    returns normally, nothing is held any more (no storage, empty queue), and the values destroyed
    or handed back are exactly the values moved in. -/
theorem never_leaked_once_world_dropped (fuel : Nat) (ops : List WOp) (hok : scriptOk ops = true) :
    (step fuel (world fuel ops) .dropWorld).2 = .dropped ∧
    held fuel (ops ++ [.dropWorld]) = [] ∧ (world fuel (ops ++ [.dropWorld])).queue = [] ∧
    (nz (destroyed fuel (ops ++ [.dropWorld]) ++ returned fuel (ops ++ [.dropWorld]))).Perm
      (nz (movedIn fuel (ops ++ [.dropWorld]))) :=
  no_leak_after_drop_world fuel ops hok

/-- With distinct tokens: after the drop every token moved in was destroyed or handed back exactly
    once (and not both). -/
theorem exactly_once_after_drop (fuel : Nat) (ops : List WOp) (hok : scriptOk ops = true)
    (hd : (nz (movedIn fuel (ops ++ [.dropWorld]))).Nodup) (x : Int)
    (hx : x ∈ nz (movedIn fuel (ops ++ [.dropWorld]))) :
    (nz (destroyed fuel (ops ++ [.dropWorld]))).count x + (nz (returned fuel (ops ++ [.dropWorld]))).count x = 1 := by
  have hp := (never_leaked_once_world_dropped fuel ops hok).2.2.2
  have h1 := hp.count_eq x
  rw [nz_append, List.count_append] at h1
  rw [h1, hd.count, if_pos hx]

/-! ### Per-API statements (storage level, every kind) -/

/-- `remove` returns the stored value, once: it is handed back, nothing is destroyed, it is no
    longer in the storage, everything else stays (exact multiset equation, zeros included). -/
theorem remove_returns_the_stored_value_once {ms : Masked} {m : Nat → Option Int} (h : MRep ms m)
    (a : Alloc) (e : Entity) (hal : a.isAlive e = true) :
    ∃ r, ms.remove a e = .ok r ∧ r.val = m e.id ∧ r.destroyed = [] ∧
      MRep r.st (upd m e.id none) ∧ (upd m e.id none) e.id = none ∧
      (heldVals r.st (upd m e.id none) ++ r.val.toList).Perm (heldVals ms m) := by
  obtain ⟨r, m', h1, h2, h3, h4, _, h6⟩ := remove_cons h a e
  obtain ⟨r', g1, _, g3, _⟩ := remove_ref h a e
  rw [h1] at g1; cases g1
  simp only [hal, if_true] at h3 h4
  subst h3
  refine ⟨r, h1, h4, g3, h2, upd_same _ _ _, ?_⟩
  rw [List.perm_iff_count]
  intro c
  have := h6 c
  rw [g3] at this
  simpa [List.count_append] using this

/-- An overwriting `insert` hands the old value back and keeps the new one. -/
theorem overwrite_returns_old_keeps_new {ms : Masked} {m : Nat → Option Int} (h : MRep ms m)
    (a : Alloc) (e : Entity) (v old : Int) (hv : ms.inner.valOk v) (hal : a.isAlive e = true)
    (hm : m e.id = some old) :
    ∃ r, ms.insert a e v = .ok r ∧ r.val = .replaced old ∧ MRep r.st (upd m e.id (some v)) ∧
      (upd m e.id (some v)) e.id = some v ∧
      (nz (heldVals r.st (upd m e.id (some v)) ++ r.destroyed ++ [old])).Perm (nz (heldVals ms m ++ [v])) := by
  obtain ⟨r, m', h1, h2, h3, h5⟩ := insert_conservation h a e v hv
  obtain ⟨r', g1, g2, _⟩ := insert_ref h a e v hv
  rw [h1] at g1; cases g1
  simp only [hal, if_true, hm] at h3 g2
  subst h3
  rw [g2] at h5
  exact ⟨r, h1, g2, h2, upd_same _ _ _, h5⟩

/-- `clear` (= `Drop for MaskedStorage`) destroys each held value exactly once (`Masked.clear_perm`):
    the destroyed values are a permutation of the held values plus default fillers (zeros, only for
    the default-filled vector), and nothing is held afterwards. -/
theorem clear_destroys_each_value_once {ms : Masked} {m : Nat → Option Int} (h : MRep ms m)
    (hw : ms.inner.WF) :
    ∃ r fillers, ms.clear = .ok r ∧ MRep r.st (fun _ => none) ∧ heldVals r.st (fun _ => none) = [] ∧
      (∀ x ∈ fillers, x = 0) ∧ (ms.inner.dvecBased = false → fillers = []) ∧
      r.destroyed.Perm (heldVals ms m ++ fillers) := by
  obtain ⟨r, h1, h2, _⟩ := clear_ref h
  obtain ⟨f, hf1, hf2, hp⟩ := Masked.clear_perm h hw h1
  exact ⟨r, f, h1, h2, heldVals_empty h2, hf1, hf2, hp⟩

/-- Deleting entities (`AnyStorage::drop`) destroys each of their components exactly once and
    nothing else: held afterwards + destroyed = held before (exact multiset equation). -/
theorem entity_deletion_destroys_each_component_once {ms : Masked} {m : Nat → Option Int}
    (h : MRep ms m) (es : List Entity) :
    ∃ r, ms.dropAll es [] = .ok r ∧ MRep r.st (PMap.eraseAll m (es.map (·.id))) ∧
      r.destroyed = PMap.dropVals m (es.map (·.id)) ∧
      (heldVals r.st (PMap.eraseAll m (es.map (·.id))) ++ r.destroyed).Perm (heldVals ms m) := by
  obtain ⟨r, h1, h2, _, h6⟩ := dropAll_cons es h []
  obtain ⟨r', g1, g2, _⟩ := dropAll_ref es h []
  rw [h1] at g1; cases g1
  refine ⟨r, h1, h2, by simpa using g2, ?_⟩
  rw [List.perm_iff_count]
  intro c
  simpa [List.count_append] using h6 c

/-- The null storage (zero-sized components) only ever holds the unit value: it forgets on insert
    and materialises the unit value on `get` / `remove`. -/
theorem null_storage_values_are_unit {ms : Masked} {m : Nat → Option Int} (h : MRep ms m)
    (hn : ms.inner.nullBased = true) : (∀ x ∈ heldVals ms m, x = 0) ∧ nz (heldVals ms m) = [] := by
  have key : ∀ (s : UStore), s.nullBased = true → s.Rep m → ∀ i v, m i = some v → v = 0 := by
    intro s
    induction s with
    | null => intro _ hr i v hm; exact hr i v hm
    | flagged inner ev emit ih => intro hn hr; exact ih hn hr
    | derefFlagged inner ev emit ih => intro hn hr; exact ih hn hr
    | _ => intro hn; simp [nullBased] at hn
  have hz : ∀ x ∈ heldVals ms m, x = 0 := by
    intro x hx
    obtain ⟨i, _, hi⟩ := List.mem_filterMap.mp hx
    exact key ms.inner hn h.2 i x hi
  exact ⟨hz, nz_zeros hz⟩

/-- Default fillers are not tokens: whatever an insertion into a vacant slot destroys (the default
    it overwrites in the default-filled vector) and whatever `get_mut_or_default` destroys is 0. -/
theorem default_fillers_are_not_tokens {ms : Masked} {m : Nat → Option Int} (h : MRep ms m)
    (a : Alloc) (e : Entity) :
    (∀ v, ms.inner.valOk v → a.isAlive e = true → m e.id = none →
      ∃ r, ms.insert a e v = .ok r ∧ (∀ x ∈ r.destroyed, x = 0) ∧ nz r.destroyed = []) ∧
    (∀ d w, (∀ x, w = some x → ms.inner.valOk x) →
      ∃ r, ms.getMutOrDefault a e d w = .ok r ∧ (∀ x ∈ r.destroyed, x = 0) ∧ nz r.destroyed = []) := by
  constructor
  · intro v hv hal _
    obtain ⟨r, h1, _, _, h4, _⟩ := insert_ref h a e v hv
    simp only [hal, if_true] at h4
    exact ⟨r, h1, h4, nz_zeros h4⟩
  · intro d w hw
    obtain ⟨r, h1, _, _, _, _, h6⟩ := getMutOrDefault_ref h a e d w hw
    exact ⟨r, h1, h6, nz_zeros h6⟩

/-! ### Non-vacuity -/

/-- A history over the dense (1), default-filled vector (2) and null (5) kinds: builder, overwrite,
    remove, in-place write, entries, lazy insert, a lazily executed script (with an insert through
    a dead handle, a drain and a get-or-default on the null kind), deletion, maintain, a value left
    in the queue, and finally `drop_world`. -/
def demo : List WOp :=
  [.reg 1 0, .reg 2 0, .reg 5 0,
   .createWith false false [(1, 10), (2, 20), (5, 0)],
   .createWith true false [(1, 11)],
   .ins 1 0 12, .ins 2 1 21, .rem 1 1, .getMut 2 0 1 (some 22),
   .entry 1 1 (.orInsert 13 0 none), .entry 1 1 (.orInsert 14 0 none),
   .lazyIns 1 1 15,
   .lazyExec [.ins 2 0 23, .drain 1 1, .mutOrDefault 5 1 1 (some 0)],
   .ent (.delNow 0), .ent .merge, .lazyIns 2 1 24, .dropWorld]

example : scriptOk demo = true := by decide +kernel

/-- After the drop nothing is held, the queue is empty, and the values destroyed or handed back
    are exactly the eleven tokens moved in; 10, 11, 20 and 15 were handed back, the rest destroyed. -/
example :
    (held 50 demo, (world 50 demo).queue.length,
     nz (destroyed 50 demo), nz (returned 50 demo), nz (movedIn 50 demo),
     (nz (destroyed 50 demo ++ returned 50 demo)).isPerm (nz (movedIn 50 demo)))
    = ([], 0, [24, 21, 23, 13, 22, 12, 14], [10, 11, 20, 15],
       [10, 20, 11, 12, 21, 22, 13, 14, 15, 23, 24], true) := by decide +kernel

example : LazyQ.listSize demo ≤ 50 := by decide +kernel

/-- No operation of it panics, at top level or inside the script. -/
example :
    ((transcript 50 {} demo).all (fun r => !r.isPanic),
     (world 50 demo).trace.all (fun x => !x.2.2.isPanic)) = (true, true) := by decide +kernel

end SpecsModel.C08
