/-
  C07 — Parallel join delivers the same items as sequential join, each exactly once.
  Property theorems only; helper lemmas live in SpecsModel/Join/Lemmas*.lean.

  Quantifier: every world, every member list admissible for `par_join` (`Member.parOK`: shared
  storages, `&mut` storages of `DistinctStorage` kinds, negated / optional members, entities, bit
  sets, restricted storages), every visitor `f`, EVERY split tree `t` (rayon's scheduler is a
  parameter: it calls `split` / `fold_with` along some finite binary tree; pool size and stealing
  only influence which tree and which order), and every execution order / item-level interleaving
  of the leaves (`sched`: any permutation of the keys).

  Level A: the key producer is a parameter with contract `SplitOK`. Level B (`level_b_*`): the
  model of `hibitset::BitProducer::split` (three split levels, descend on a single bit,
  `average_ones` arbitrary) satisfies the contract for every producer reachable from a fresh
  iterator. Level C (`level_c_*`, end of file): `split` and the real `average_ones` on machine
  words refine Level B.
-/
import SpecsModel.Join.LemmasPar
import SpecsModel.Join.LemmasSpec
import SpecsModel.Join.LemmasHiOps
import SpecsModel.Join.WordPar
namespace SpecsModel.C07
open SpecsModel Join

/-- **C07 (a).** Under any split tree, with the leaves folded left to right, the parallel join has
    defined behaviour, every leaf delivers the items of exactly its own keys — the same
    `(index, components)` the sequential join delivers for that index — and all leaves together
    deliver a permutation of the sequential join's item list: none missing, none twice. -/
theorem par_perm_seq {P : Type} (S : Splitter P) (Inv : P → Prop) (hS : SplitOK S Inv)
    (bound : Nat) (f : Nat → Int → Int) (w : JWorld) (ms : List Member) (p : P) (hp : Inv p)
    (hkeys : S.keys p = (tupleMask w ms).toList bound) (t : SplitTree) :
    ∃ outs w' seq wseq, parJoin f S w ms p t = .ok (outs, w') ∧ join bound f w ms = .ok (seq, wseq) ∧
      outs.flatten.Perm seq ∧
      outs = ((leaves S t p).map S.keys).map (fun l => l.map (itemsAt w ms)) := by
  obtain ⟨hperm, _⟩ := leaves_ok S Inv hS t p hp
  rw [hkeys] at hperm
  have hnd : ((leaves S t p).map S.keys).flatten.Nodup :=
    hperm.nodup_iff.mpr (Mask.toList_nodup bound _)
  have hr : ∀ om ∈ ms.map (Member.open w), ∀ i ∈ ((leaves S t p).map S.keys).flatten,
      om.ready i = true :=
    fun om ho i hi => ready_on_keys bound w ms om ho i (hperm.mem_iff.mp hi)
  refine ⟨((leaves S t p).map S.keys).map (fun l => l.map (itemsAt w ms)),
    closeAll w ((ms.map (Member.open w)).map (OMember.advs f ((leaves S t p).map S.keys).flatten)),
    ((tupleMask w ms).toList bound).map (itemsAt w ms),
    worldAfter f w ms ((tupleMask w ms).toList bound), ?_, join_closed bound f w ms, ?_, rfl⟩
  · simp only [parJoin, runLeaves_closed f _ _ hnd hr]
    simp [itemsAt, List.map_map, Function.comp_def]
  · have h2 := hperm.map (itemsAt w ms)
    rw [List.map_flatten] at h2
    exact h2

/-- **C07, `count()`.** Consuming the parallel join with `count()` — every leaf counts its own items, the counts are
    added — gives the number of items of the sequential join, for every split tree. -/
theorem par_count_eq_seq_count {P : Type} (S : Splitter P) (Inv : P → Prop) (hS : SplitOK S Inv)
    (bound : Nat) (f : Nat → Int → Int) (w : JWorld) (ms : List Member) (p : P) (hp : Inv p)
    (hkeys : S.keys p = (tupleMask w ms).toList bound) (t : SplitTree) :
    ∃ outs w' seq wseq, parJoin f S w ms p t = .ok (outs, w') ∧ join bound f w ms = .ok (seq, wseq) ∧
      (outs.map List.length).sum = seq.length := by
  obtain ⟨outs, w', seq, wseq, h1, h2, hperm, _⟩ := par_perm_seq S Inv hS bound f w ms p hp hkeys t
  refine ⟨outs, w', seq, wseq, h1, h2, ?_⟩
  rw [← hperm.length_eq, List.length_flatten]

/-- **C07 (b).** The leaves of any split tree are pairwise index-disjoint (so no component is ever
    handed out mutably to two workers), and each keeps the ascending order of its keys. -/
theorem leaves_disjoint {P : Type} (S : Splitter P) (Inv : P → Prop) (hS : SplitOK S Inv)
    (bound : Nat) (w : JWorld) (ms : List Member) (p : P) (hp : Inv p)
    (hkeys : S.keys p = (tupleMask w ms).toList bound) (t : SplitTree) :
    ((leaves S t p).map S.keys).Pairwise (fun a b => ∀ x ∈ a, x ∉ b) ∧
    (∀ q ∈ leaves S t p, (S.keys q).Pairwise (· < ·)) := by
  obtain ⟨hperm, hsub⟩ := leaves_ok S Inv hS t p hp
  rw [hkeys] at hperm hsub
  have hnd : ((leaves S t p).map S.keys).flatten.Nodup :=
    hperm.nodup_iff.mpr (Mask.toList_nodup bound _)
  constructor
  · have := (List.pairwise_flatten.mp hnd).2
    exact this.imp (fun h x hx hb => h x hx x hb rfl)
  · intro q hq
    exact (Mask.toList_sorted bound _).sublist (hsub q hq).1

/-- **C07 (c).** For members admissible in a parallel join (`&mut` only on `DistinctStorage`
    kinds), visits at distinct indices commute: *any* order or item-level interleaving `sched` of
    the leaf executions has defined behaviour, delivers a permutation of the sequential items and
    leaves — observationally: kind, mask, event channel and the value at every index of every
    store — the post-state of the sequential join. So all mutations of the workers are there
    once the parallel join returns, each exactly once. -/
theorem any_schedule_same_post (bound : Nat) (f : Nat → Int → Int) (w : JWorld) (ms : List Member)
    (hpar : ∀ m ∈ ms, m.parOK w = true) (sched : List Nat)
    (hs : sched.Perm ((tupleMask w ms).toList bound)) :
    ∃ out w' seq wseq, parSched f w ms sched = .ok (out, w') ∧ join bound f w ms = .ok (seq, wseq) ∧
      out.Perm seq ∧ (∀ k, Store.Obs (w'.store k) (wseq.store k)) ∧
      w'.sets = wseq.sets ∧ w'.ents = wseq.ents ∧ w'.gens = wseq.gens := by
  have hk := Mask.toList_nodup bound (tupleMask w ms)
  have hnd : sched.Nodup := hs.nodup_iff.mpr hk
  refine ⟨sched.map (itemsAt w ms), worldAfter f w ms sched,
    ((tupleMask w ms).toList bound).map (itemsAt w ms),
    worldAfter f w ms ((tupleMask w ms).toList bound), ?_, join_closed bound f w ms, hs.map _, ?_, ?_⟩
  · simp only [parSched, runKeys_open f bound w ms sched hnd (fun i hi => hs.mem_iff.mp hi), worldAfter]
  · intro k
    apply closeAll_obs k _ _ _ w w _ (Store.Obs.refl _)
    intro om ho
    obtain ⟨m, hm, rfl⟩ := List.mem_map.mp ho
    refine ⟨by rw [OMember.key_advs, OMember.key_advs], ?_⟩
    exact OMember.back_advs_perm f _ _ _ (Member.par_open w m (hpar m hm)) hs hnd
  · have a := closeAll_other ((ms.map (Member.open w)).map (OMember.advs f sched)) w
    have b := closeAll_other ((ms.map (Member.open w)).map
      (OMember.advs f ((tupleMask w ms).toList bound))) w
    exact ⟨a.1.trans b.1.symm, a.2.1.trans b.2.1.symm, a.2.2.trans b.2.2.symm⟩

/-- The capability table is what makes (c) go through: a store kind admitted for `&mut` in a parallel
    join has no shared side channel (`FlaggedStorage::shared_get_mut` also writes the event channel,
    and is therefore excluded from `DistinctStorage`). -/
theorem table_kinds_are_quiet (k : Kind) (h : k.parMut = true) : k.distinct = true ∧ k.emits = false := by
  cases k <;> simp_all [Kind.parMut, Kind.distinct, Kind.emits]

/-- … and the exclusion is necessary: on a flagged store two visit orders leave different event
    channels (a concrete pair of schedules). -/
example :
    let st : Store := { kind := .flagged, mask := (BSet.empty.add 1).add 2,
                        vals := ((DMap.empty 0).set 1 10).set 2 20 }
    ([1, 2].foldl (Store.bump (· + 1)) st).chan ≠ ([2, 1].foldl (Store.bump (· + 1)) st).chan := by
  decide +kernel

/-- **C07, Level B.** The model of `BitProducer::split` meets the splitter contract on every
    producer with at most one non-empty level — in particular on a fresh iterator and, by the
    contract itself, on everything reachable from it by splits — whatever `average_ones` returns. -/
theorem level_b_splitOK (L : HiBitSet.Layers) (hL : HiBitSet.SortedL L) (pick : List Nat → Nat) :
    SplitOK (hiSplitter L pick) HiBitSet.Good := by
  intro p hp
  have h := HiBitSet.split_ok hL pick 3 p hp
  simp only [hiSplitter]
  cases hsp : HiBitSet.split L pick 3 p with
  | mk a ob =>
    rw [hsp] at h
    cases ob with
    | none => exact h
    | some b =>
      simp only at h ⊢
      obtain ⟨he, ga, gb⟩ := h
      refine ⟨by rw [he], ?_, ?_, ga, gb⟩
      · rw [← he]; exact List.sublist_append_left _ _
      · rw [← he]; exact List.sublist_append_right _ _

/-- Level B end to end: on well-formed layers representing the joined mask, for every split tree
    the leaves of the real splitting algorithm partition the sequential key list. -/
theorem level_b_leaves (L : HiBitSet.Layers) (h : HiBitSet.WF L) (pick : List Nat → Nat)
    (m : Mask) (hb : m.Bdd MAXIDX) (hrep : ∀ i, i < MAXIDX → L.contains i = m.mem i) (t : SplitTree) :
    ((leaves (hiSplitter L pick) t (HiBitSet.fresh L)).map (hiSplitter L pick).keys).flatten.Perm
      (m.toList MAXIDX) := by
  have hg : HiBitSet.Good (HiBitSet.fresh L) := HiBitSet.good_fresh h.w3.1
  have := (leaves_ok _ _ (level_b_splitOK L h.sortedL pick) t _ hg).1
  have hk : (hiSplitter L pick).keys (HiBitSet.fresh L) = m.toList MAXIDX := by
    simp only [hiSplitter]
    rw [HiBitSet.items_fresh_eq h, Mask.toList_eq_filter MAXIDX m (fun _ => hb)]
    apply List.filter_congr
    intro i hi
    exact hrep i (List.mem_range.mp hi)
  rw [hk] at this
  exact this

/-! ### Early-exit consumers (`find_first`, `find_last`) need the leaves IN ORDER, not just as a partition -/

/-- Ordered splitter contract: the two halves of a split are a front part and a back part. -/
def SplitOrd {P : Type} (S : Splitter P) (Inv : P → Prop) : Prop :=
  ∀ p, Inv p →
    match S.split p with
    | (a, none) => S.keys a = S.keys p ∧ Inv a
    | (a, some b) => S.keys a ++ S.keys b = S.keys p ∧ Inv a ∧ Inv b

/-- Under the ordered contract the leaves of ANY split tree, read left to right, are the producer's key list. -/
theorem leaves_in_order {P : Type} (S : Splitter P) (Inv : P → Prop) (hS : SplitOrd S Inv) :
    ∀ (t : SplitTree) (p : P), Inv p →
      ((leaves S t p).map S.keys).flatten = S.keys p ∧ ∀ q ∈ leaves S t p, Inv q := by
  intro t
  induction t with
  | leaf => intro p hp; simp [leaves, hp]
  | node l r ihl ihr =>
    intro p hp
    have h := hS p hp
    simp only [leaves]
    cases hsp : S.split p with
    | mk a ob =>
      rw [hsp] at h
      cases ob with
      | none =>
        simp only at h ⊢
        simp [h.1, h.2]
      | some b =>
        simp only at h ⊢
        obtain ⟨he, ga, gb⟩ := h
        obtain ⟨la, ia⟩ := ihl a ga
        obtain ⟨lb, ib⟩ := ihr b gb
        refine ⟨?_, ?_⟩
        · rw [List.map_append, List.flatten_append, la, lb, he]
        · intro q hq
          rcases List.mem_append.mp hq with h1 | h1
          · exact ia q h1
          · exact ib q h1

/-- The model of `BitProducer::split` meets the ORDERED contract (its halves are a front and a back part of `items`). -/
theorem level_b_splitOrd (L : HiBitSet.Layers) (hL : HiBitSet.SortedL L) (pick : List Nat → Nat) :
    SplitOrd (hiSplitter L pick) HiBitSet.Good := by
  intro p hp
  have h := HiBitSet.split_ok hL pick 3 p hp
  simp only [hiSplitter]
  cases hsp : HiBitSet.split L pick 3 p with
  | mk a ob =>
    rw [hsp] at h
    cases ob with
    | none => exact h
    | some b => exact h

/-- `find_first` of rayon over the leaves of a split tree: the match of the left-most leaf that has one
    (whatever the other leaves do, and whenever they stop). -/
def parFindFirst (pred : Nat → Bool) (ls : List (List Nat)) : Option Nat := ls.findSome? (fun l => l.find? pred)

/-- `find_last`: the last match of the right-most leaf that has one. -/
def parFindLast (pred : Nat → Bool) (ls : List (List Nat)) : Option Nat :=
  ls.reverse.findSome? (fun l => l.reverse.find? pred)

theorem findSome_find_flatten (pred : Nat → Bool) (ls : List (List Nat)) :
    ls.findSome? (fun l => l.find? pred) = ls.flatten.find? pred := by
  induction ls with
  | nil => rfl
  | cons l ls ih =>
    simp only [List.findSome?_cons, List.flatten_cons, List.find?_append]
    cases l.find? pred with
    | none => simpa using ih
    | some x => simp

theorem flatten_reverse_map (ls : List (List Nat)) :
    (ls.reverse.map List.reverse).flatten = ls.flatten.reverse := by
  induction ls with
  | nil => rfl
  | cons l ls ih =>
    simp only [List.reverse_cons, List.map_append, List.map_cons, List.map_nil, List.flatten_append,
      List.flatten_cons, List.flatten_nil, List.append_nil, List.reverse_append, ih]

theorem findLast_flatten (pred : Nat → Bool) (ls : List (List Nat)) :
    ls.reverse.findSome? (fun l => l.reverse.find? pred) = ls.flatten.reverse.find? pred := by
  rw [← flatten_reverse_map, ← findSome_find_flatten, List.findSome?_map]
  rfl

/-- **C07, early exit.** For every split tree and every `average_ones`, `find_first` over the parallel join's leaves
    is the sequential join's first match, and `find_last` its last match — the early-exit consumers see the
    sequential order although the leaves run in any order. -/
theorem level_b_find_first_last (L : HiBitSet.Layers) (h : HiBitSet.WF L) (pick : List Nat → Nat)
    (m : Mask) (hb : m.Bdd MAXIDX) (hrep : ∀ i, i < MAXIDX → L.contains i = m.mem i) (t : SplitTree)
    (pred : Nat → Bool) :
    parFindFirst pred ((leaves (hiSplitter L pick) t (HiBitSet.fresh L)).map (hiSplitter L pick).keys)
      = (m.toList MAXIDX).find? pred ∧
    parFindLast pred ((leaves (hiSplitter L pick) t (HiBitSet.fresh L)).map (hiSplitter L pick).keys)
      = (m.toList MAXIDX).reverse.find? pred := by
  have hg : HiBitSet.Good (HiBitSet.fresh L) := HiBitSet.good_fresh h.w3.1
  have ho := (leaves_in_order _ _ (level_b_splitOrd L h.sortedL pick) t _ hg).1
  have hk : (hiSplitter L pick).keys (HiBitSet.fresh L) = m.toList MAXIDX := by
    simp only [hiSplitter]
    rw [HiBitSet.items_fresh_eq h, Mask.toList_eq_filter MAXIDX m (fun _ => hb)]
    apply List.filter_congr
    intro i hi
    exact hrep i (List.mem_range.mp hi)
  rw [hk] at ho
  constructor
  · unfold parFindFirst; rw [findSome_find_flatten, ho]
  · unfold parFindLast; rw [findLast_flatten, ho]

/-- **C07 (a) at Level B, end to end.** For every world represented at Level B, every member list,
    every split tree and every `average_ones`: the parallel join driven by the model of hibitset's
    `BitProducer` over the layered tuple mask delivers a permutation of the sequential join's items. -/
theorem level_b_par_perm_seq (lw : LWorld) (w : JWorld) (h : LRepr lw w) (hw : w.Bdd MAXIDX)
    (f : Nat → Int → Int) (ms : List Member) (pick : List Nat → Nat) (t : SplitTree) :
    ∃ outs w' seq wseq,
      parJoin f (hiSplitter (tupleLayers lw ms) pick) w ms (HiBitSet.fresh (tupleLayers lw ms)) t
        = .ok (outs, w') ∧
      join MAXIDX f w ms = .ok (seq, wseq) ∧ outs.flatten.Perm seq := by
  obtain ⟨hwf, hrep⟩ := tupleLayers_represents h ms
  have hk : (hiSplitter (tupleLayers lw ms) pick).keys (HiBitSet.fresh (tupleLayers lw ms))
      = (tupleMask w ms).toList MAXIDX := by
    simp only [hiSplitter]
    rw [HiBitSet.items_fresh_eq hwf, Mask.toList_eq_filter MAXIDX _ (fun _ => tupleMask_bdd hw ms)]
    apply List.filter_congr
    intro i hi
    exact hrep i (List.mem_range.mp hi)
  obtain ⟨outs, w', seq, wseq, h1, h2, h3, _⟩ :=
    par_perm_seq _ _ (level_b_splitOK _ hwf.sortedL pick) MAXIDX f w ms _
      (HiBitSet.good_fresh hwf.w3.1) hk t
  exact ⟨outs, w', seq, wseq, h1, h2, h3⟩

/-! ### Non-vacuity -/

/-- Layers of the set {3, 63, 64, 65, 4095, 4096, 4097, 262143, 262144}: several split trees of the
    real algorithm (`avgReal`) give different leaf partitions of the same ascending key list. -/
def exL : HiBitSet.Layers :=
  ((((((((HiBitSet.Layers.empty.add 3).add 63).add 64).add 65).add 4095).add 4096).add 4097).add
    262143).add 262144

example :
    ((leaves (hiSplitter exL HiBitSet.avgReal) (.node (.node (.node .leaf .leaf) (.node .leaf .leaf)) .leaf)
        (HiBitSet.fresh exL)).map (hiSplitter exL HiBitSet.avgReal).keys)
    = [[3, 63, 64, 65, 4095], [4096, 4097], [262143], [262144]] := by decide +kernel

example :
    ((leaves (hiSplitter exL HiBitSet.avgReal) (.node .leaf (.node .leaf .leaf))
        (HiBitSet.fresh exL)).map (hiSplitter exL HiBitSet.avgReal).keys)
    = [[3, 63, 64, 65, 4095, 4096, 4097, 262143], [262144]] := by decide +kernel

def exWorld : JWorld :=
  let s0 : Store :=
    { kind := .vec,
      mask := ((((BSet.empty.add 5).add 62).add 63).add 64).add 65,
      vals := (((((DMap.empty 0).set 5 50).set 62 620).set 63 630).set 64 640).set 65 650 }
  let s1 : Store :=
    { kind := .dense,
      mask := (((BSet.empty.add 63).add 64).add 65).add 66,
      vals := ((((DMap.empty 0).set 63 1).set 64 2).set 65 3).set 66 4 }
  { stores := ((DMap.empty {}).set 0 s0).set 1 s1 }

/-- A parallel join `(&mut s1, &s0)` (keys 63, 64, 65 straddle the layer boundary 63/64) under a
    two-leaf schedule executed right leaf first: same items (as a set) and the same post-state as
    the sequential join. -/
example :
    (match parSched (fun _ v => v + 1) exWorld [.storageMut 1, .storage 0] [65, 63, 64],
           join 100 (fun _ v => v + 1) exWorld [.storageMut 1, .storage 0] with
     | .ok (out, w'), .ok (seq, ws) =>
        (out.map (·.1), seq.map (·.1),
         [63, 64, 65, 66].map (fun j => (w'.store 1).vals.get j),
         [63, 64, 65, 66].map (fun j => (ws.store 1).vals.get j))
     | _, _ => ([], [], [], []))
    = ([65, 63, 64], [63, 64, 65], [2, 3, 4, 4], [2, 3, 4, 4]) := by decide +kernel

/-! ### Level C: machine words

  `BitProducer::split` (src/iter/parallel.rs) and the real `average_ones` (src/util.rs) of hibitset
  0.6.4 transcribed with machine-word operations (SpecsModel/Join/{WordSplit, WordAvg}.lean), proved
  to commute with the abstraction `bits` of Level B. Nothing about words remains assumed. -/

section LevelC
open HiBitSet

/-- **C07, Level C, `average_ones`.** For every input: no `u64` operation of the real function
    overflows (no subtraction underflows, no sum exceeds `u64::MAX`, no shift amount reaches 64); it
    returns `None` exactly on words with at most one set bit (the parallel bit count is correct), and
    otherwise a position below 64 — so `(1 << average_bit) - 1` in `split` never shifts by 64. -/
theorem level_c_average_ones (n : Nat) :
    averageOnes64C n = some (averageOnes64 n) ∧
    (n < 2 ^ 64 → (averageOnes64 n = none ↔ (bits n).length ≤ 1) ∧ ∀ a, averageOnes64 n = some a → a < 64) :=
  ⟨averageOnes64C_eq n, fun h => avgOK_real n h⟩

/-- **C07, Level C, split.** The word-level `BitProducer::split` with the real `average_ones`
    commutes with the abstraction: on every producer satisfying the word invariant, for every number
    of split levels, its two products abstract to the products of the Level-B `split` (with the
    `pick` the real `average_ones` induces), and both satisfy the word invariant again. -/
theorem level_c_split (WL : WLayers) (hL : WL.OK) (splits : Nat) (s : WIt) (hs : s.OK) :
    ((wsplit WL averageOnes64 splits s).1.toIt, (wsplit WL averageOnes64 splits s).2.map WIt.toIt) =
      HiBitSet.split WL.toLayers (pickOf averageOnes64) splits s.toIt ∧
    (wsplit WL averageOnes64 splits s).1.OK ∧
    (∀ o, (wsplit WL averageOnes64 splits s).2 = some o → o.OK) :=
  wsplit_refines hL avgOK_real splits hs

/-- Hence the word-level producer (`fold_with` drains the word-level `BitIter`, `split` as above)
    meets the splitter contract of Level A on every producer reachable from a fresh iterator. -/
theorem level_c_splitOK (WL : WLayers) (hL : WL.OK) : SplitOK (wordSplitter WL) (WordInv WL) :=
  wordSplitOK hL

/-- Level C end to end: on word-level layers representing the joined mask, for every split tree the
    leaves of the word-level splitting algorithm, each drained by the word-level iterator, partition
    the sequential key list. -/
theorem level_c_leaves (WL : WLayers) (hL : WL.OK) (h : WF WL.toLayers) (m : Mask)
    (hb : m.Bdd MAXIDX) (hrep : ∀ i, i < MAXIDX → WL.toLayers.contains i = m.mem i) (t : SplitTree) :
    ((leaves (wordSplitter WL) t (wfresh WL)).map (wordSplitter WL).keys).flatten.Perm
      (m.toList MAXIDX) := by
  have hi := wordInv_fresh hL h
  have := (leaves_ok _ _ (wordSplitOK hL) t _ hi).1
  rw [wordSplitter_keys hL hi, wfresh_toIt, items_fresh_eq h] at this
  rw [Mask.toList_eq_filter MAXIDX m (fun _ => hb)]
  have e : (List.range (B * B * B * B)).filter WL.toLayers.contains = (List.range MAXIDX).filter m.mem := by
    apply List.filter_congr
    intro i hi
    exact hrep i (List.mem_range.mp hi)
  rw [← e]
  exact this

/-- The word-level producer (real `split`, real `average_ones`) meets the ORDERED contract as well. -/
theorem level_c_splitOrd (WL : WLayers) (hL : WL.OK) : SplitOrd (wordSplitter WL) (WordInv WL) := by
  intro p hp
  obtain ⟨hok, hg, hlen⟩ := hp
  obtain ⟨href, oka, okb⟩ := wsplit_refines hL avgOK_real 3 hok
  have hs := split_ok (sortedL_toLayers WL) (pickOf averageOnes64) 3 p.toIt hg
  rw [← href] at hs
  have esplit : (wordSplitter WL).split p = wsplit WL averageOnes64 3 p := rfl
  rw [esplit]
  cases hw : wsplit WL averageOnes64 3 p with
  | mk a ob =>
    rw [hw] at hs oka okb
    cases ob with
    | none =>
      simp only [Option.map_none] at hs ⊢
      have ia : WordInv WL a := ⟨oka, hs.2, by rw [hs.1]; exact hlen⟩
      exact ⟨by rw [wordSplitter_keys hL ia, wordSplitter_keys hL ⟨hok, hg, hlen⟩, hs.1], ia⟩
    | some b =>
      simp only [Option.map_some] at hs ⊢
      obtain ⟨he, ga, gb⟩ := hs
      have hl : (items WL.toLayers a.toIt).length + (items WL.toLayers b.toIt).length =
          (items WL.toLayers p.toIt).length := by rw [← he, List.length_append]
      have ia : WordInv WL a := ⟨oka, ga, by omega⟩
      have ib : WordInv WL b := ⟨okb b rfl, gb, by omega⟩
      rw [wordSplitter_keys hL ia, wordSplitter_keys hL ib, wordSplitter_keys hL ⟨hok, hg, hlen⟩]
      exact ⟨he, ia, ib⟩

/-- **C07, early exit, at Level C** (machine words, the Rust word operations): `find_first` / `find_last` over the leaves
    of any split tree of the word-level producer are the sequential join's first / last match. -/
theorem level_c_find_first_last (WL : WLayers) (hL : WL.OK) (h : WF WL.toLayers) (m : Mask)
    (hb : m.Bdd MAXIDX) (hrep : ∀ i, i < MAXIDX → WL.toLayers.contains i = m.mem i) (t : SplitTree)
    (pred : Nat → Bool) :
    parFindFirst pred ((leaves (wordSplitter WL) t (wfresh WL)).map (wordSplitter WL).keys)
      = (m.toList MAXIDX).find? pred ∧
    parFindLast pred ((leaves (wordSplitter WL) t (wfresh WL)).map (wordSplitter WL).keys)
      = (m.toList MAXIDX).reverse.find? pred := by
  have hi := wordInv_fresh hL h
  have ho := (leaves_in_order _ _ (level_c_splitOrd WL hL) t _ hi).1
  rw [wordSplitter_keys hL hi, wfresh_toIt, items_fresh_eq h] at ho
  have e : (List.range (B * B * B * B)).filter WL.toLayers.contains = m.toList MAXIDX := by
    rw [Mask.toList_eq_filter MAXIDX m (fun _ => hb)]
    apply List.filter_congr
    intro i hi
    exact hrep i (List.mem_range.mp hi)
  rw [e] at ho
  constructor
  · unfold parFindFirst; rw [findSome_find_flatten, ho]
  · unfold parFindLast; rw [findLast_flatten, ho]

/-- **C07 (a) at Level C, end to end.** For every world whose bit sets are machine words (`WLWorld`)
    representing the Level-A world, every member list and every split tree: the parallel join driven
    by the word-level `BitProducer` (real `split`, real `average_ones`, word-level `BitIter` in
    `fold_with`) over the word-level tuple mask delivers a permutation of the sequential join's items. -/
theorem level_c_par_perm_seq (wl : WLWorld) (hwl : wl.OK) (w : JWorld) (h : LRepr wl.toLWorld w)
    (hw : w.Bdd MAXIDX) (f : Nat → Int → Int) (ms : List Member) (t : SplitTree) :
    ∃ outs w' seq wseq,
      parJoin f (wordSplitter (wtupleLayers wl ms)) w ms (wfresh (wtupleLayers wl ms)) t
        = .ok (outs, w') ∧
      join MAXIDX f w ms = .ok (seq, wseq) ∧ outs.flatten.Perm seq := by
  obtain ⟨href, hok⟩ := wtupleLayers_refines wl hwl ms
  obtain ⟨hwf, hrep⟩ := tupleLayers_represents h ms
  rw [← href] at hwf hrep
  have hi := wordInv_fresh hok hwf
  have hk : (wordSplitter (wtupleLayers wl ms)).keys (wfresh (wtupleLayers wl ms))
      = (tupleMask w ms).toList MAXIDX := by
    rw [wordSplitter_keys hok hi, wfresh_toIt, items_fresh_eq hwf,
      Mask.toList_eq_filter MAXIDX _ (fun _ => tupleMask_bdd hw ms)]
    apply List.filter_congr
    intro i hi
    exact hrep i (List.mem_range.mp hi)
  obtain ⟨outs, w', seq, wseq, h1, h2, h3, _⟩ :=
    par_perm_seq _ _ (wordSplitOK hok) MAXIDX f w ms _ hi hk t
  exact ⟨outs, w', seq, wseq, h1, h2, h3⟩

/-! #### Non-vacuity at Level C -/

/-- The word-level `BitSet` of {3, 63, 64, 65, 4095, 4096, 4097, 262143, 262144} (the set of `exL`). -/
def exWL : WLayers :=
  wlayersAfter [(true, 3), (true, 63), (true, 64), (true, 65), (true, 4095), (true, 4096), (true, 4097),
    (true, 262143), (true, 262144)]

/-- One word-level `split` of the fresh producer cuts at layer 3 (bits 0 and 1: `average_ones = 1`):
    the masks and prefixes of both halves. -/
example :
    (match wsplit exWL averageOnes64 3 (wfresh exWL) with
     | (a, some b) => (a.m3, a.p2, b.m3, b.p2)
     | _ => (0, 0, 0, 0)) = (1, 0, 2, 64) := by decide +kernel

/-- A second split of the lower half descends through the single layer-3 bit and cuts layer 2
    (bits 0, 1, 63 of `layer2[0]`: ⌈3/2⌉ stay) — keys 3 … 4097 | 262143. -/
example :
    (match wsplit exWL averageOnes64 3 (wsplit exWL averageOnes64 3 (wfresh exWL)).1 with
     | (a, some b) => (a.m3, a.m2, a.p1, b.m2, b.p1, b.p2)
     | _ => (0, 0, 0, 0, 0, 0)) = (0, 3, 0, 0x8000000000000000, 63 * 64, 0) := by decide +kernel

/-- The real `average_ones` picks the position the Level-B examples use (`avgReal`). -/
example : [[0, 1], [0, 1, 63], [3, 63], [0, 62, 63], [5, 6, 7, 8, 9]].map (pickOf averageOnes64) =
    [[0, 1], [0, 1, 63], [3, 63], [0, 62, 63], [5, 6, 7, 8, 9]].map avgReal := by decide +kernel

end LevelC

end SpecsModel.C07
