/-
  C20 — Single-threaded behaviour is deterministic and replayable.
  Property theorems only (proofs in Lemmas/HashOrder.lean).

  Full statement: two worlds driven through the same sequence of single-threaded operations produce
  identical entity handles, identical operation results, identical join orders, identical event
  streams and identical serialised output; nothing observable depends on memory addresses, hash
  seeds, timing, or on what happened in another world or an earlier process. Quantifier: every
  single-threaded operation history, replayed in the same process and in a fresh process with
  different hash seeds and address layout.

  Model-level content. The world model (`World.step`, Model/World.lean) is a total function of the
  history: it has no address, clock or cross-world input at all, so "same history ⇒ same
  transcript" is `same_history_same_transcript`. The one place where the real system carries
  seed-dependent internal state that the model represents is the internal order of
  `HashMapStorage` (the order of the list in `UStore.hash`), together with the order in which one
  bulk `clear`/drop destroys the values of such a storage. The theorems below are the
  non-interference statement: that order never reaches a result (entity handles, op results,
  mask/drain/restricted-join orders, event streams, slice views, lazily executed scripts' traces);
  it only permutes the destruction ledger, whose multiset is the observable.

  Scope (why the bundle at the end is named `_partial`): the observables of the *world* domain are
  covered in full (every `WOp`, every history, every fuel, every seed, and in
  `observables_independent_of_any_reordering` every re-ordering whatsoever between steps).
  Serialised output is an observable of the save/load domain, whose model is not part of `World`: its one
  piece of seed-dependent state is the marker allocator's `HashMap<u64, Entity>`, and the second block of
  theorems below (`marker_map_order_never_observable…`, `serialised_output_independent_of_any_reordering`)
  is the same non-interference statement for it, over every history of that domain's operations (both
  serialisers, deserialisation of arbitrary data, marking, allocator maintenance, deletions, `maintain`
  with lazily queued markings). Multi-storage `Join` order is an observable of the join domain, whose model
  (Join/, property C06/C07) has no seed-dependent state at all — the order is ascending index by
  construction — so there is nothing to state beyond `same_history_same_transcript`'s analogue; that the
  REAL join, allocator and serialisers have no further hidden input (addresses, thread-locals, statics) is
  what the three-run differential check described in DESIGN §7/C20 establishes, not a theorem.
-/
import SpecsModel.Lemmas.HashOrder
import SpecsModel.SaveLoad.LemmasOrder
namespace SpecsModel.C20
open SpecsModel

/-- The model is a function of the history: two runs of the same history from the empty world give
    the same result list and the same final world (no hidden input exists in the model). -/
theorem same_history_same_transcript (fuel : Nat) (ops₁ ops₂ : List WOp) (h : ops₁ = ops₂) :
    (World.runOps fuel ops₁).2 = (World.runOps fuel ops₂).2 ∧ (World.runOps fuel ops₁).1 = (World.runOps fuel ops₂).1 := by
  subst h; exact ⟨rfl, rfl⟩

/-- Step-level non-interference: two worlds that differ only in the internal order of their
    hash-map storages (and the order of the ledger) give the same result for every operation —
    including `maintain` with its lazily executed scripts — and stay so related. -/
theorem hash_order_never_observable (fuel : Nat) (w₁ w₂ : World) (op : WOp) (h : World.Eqv w₁ w₂) :
    (World.step fuel w₁ op).2 = (World.step fuel w₂ op).2 ∧
    World.Eqv (World.step fuel w₁ op).1 (World.step fuel w₂ op).1 :=
  let ⟨h1, h2⟩ := (World.mutual_eqv fuel).1 op h
  ⟨h2, h1⟩

/-- The same for the other entry points of the mutual block. -/
theorem hash_order_never_observable_maintain (fuel : Nat) (w₁ w₂ : World) (h : World.Eqv w₁ w₂) :
    (World.maintain fuel w₁).2 = (World.maintain fuel w₂).2 ∧
    World.Eqv (World.maintain fuel w₁).1 (World.maintain fuel w₂).1 ∧
    (∀ acc, (World.runQueue fuel w₁ acc).2 = (World.runQueue fuel w₂ acc).2) ∧
    (∀ tag ops, (World.runScript fuel tag w₁ ops).trace = (World.runScript fuel tag w₂ ops).trace) :=
  ⟨((World.mutual_eqv fuel).2.2.2.2 h).2, ((World.mutual_eqv fuel).2.2.2.2 h).1,
   fun acc => ((World.mutual_eqv fuel).2.2.2.1 acc h).2,
   fun tag ops => ((World.mutual_eqv fuel).2.1 tag ops h).trace⟩

/-- Sequence form: every history, from related worlds, yields equal result lists. -/
theorem hash_order_never_observable_seq (fuel : Nat) (w₁ w₂ : World) (ops : List WOp)
    (h : World.Eqv w₁ w₂) :
    (World.runOpsFrom fuel w₁ ops).2 = (World.runOpsFrom fuel w₂ ops).2 ∧
    World.Eqv (World.runOpsFrom fuel w₁ ops).1 (World.runOpsFrom fuel w₂ ops).1 :=
  ⟨(World.runOpsFrom_eqv fuel ops h).2, (World.runOpsFrom_eqv fuel ops h).1⟩

/-- The seeded model (`runSeeded s`: every hash storage is re-ordered by the seed after every
    step): the transcript does not depend on the seed, and equals the plain run's. -/
theorem observables_independent_of_seed (s₁ s₂ fuel : Nat) (ops : List WOp) :
    World.runSeeded s₁ fuel ops = World.runSeeded s₂ fuel ops ∧
    World.runSeeded s₁ fuel ops = (World.runOps fuel ops).2 :=
  ⟨World.runSeeded_indep s₁ s₂ fuel ops, World.runSeeded_eq_run s₁ fuel ops⟩

/-- Stronger: whatever happens to the hash-map internals between steps (any step-indexed
    transformer that only re-orders them — rehash, growth, a different seed per step), the
    transcript is the plain run's. -/
theorem observables_independent_of_any_reordering (sc : Nat → World → World)
    (hsc : ∀ n w, World.WF w → World.Eqv w (sc n w)) (fuel : Nat) (ops : List WOp) :
    (World.runScrambledFrom sc fuel 0 {} ops).2 = (World.runOps fuel ops).2 :=
  (World.runScrambledFrom_eqv sc hsc fuel ops 0 World.eqv_empty).2

/-- Destruction order inside one bulk operation is not an observable, the multiset is: related
    runs (in particular runs with different seeds) have ledgers that are permutations of each
    other. -/
theorem destruction_order_only_permutes_ledger (fuel : Nat) (ops : List WOp) :
    (∀ w₁ w₂, World.Eqv w₁ w₂ →
      (World.runOpsFrom fuel w₁ ops).1.ledger.Perm (World.runOpsFrom fuel w₂ ops).1.ledger) ∧
    (∀ s₁ s₂, (World.runSeededFrom s₁ fuel {} ops).1.ledger.Perm
      (World.runSeededFrom s₂ fuel {} ops).1.ledger) :=
  ⟨fun _ _ h => (World.runOpsFrom_eqv fuel ops h).1.ledger,
   fun s₁ s₂ => World.runSeeded_ledger_perm s₁ s₂ fuel ops⟩

/-- C20 for the world domain (see the header for what lies outside this model): for every history,
    fuel and pair of seeds, the transcripts coincide, they are the plain run's transcript, and the
    ledgers agree as multisets. -/
theorem deterministic_and_replayable_partial (s₁ s₂ fuel : Nat) (ops : List WOp) :
    World.runSeeded s₁ fuel ops = World.runSeeded s₂ fuel ops ∧
    World.runSeeded s₁ fuel ops = (World.runOps fuel ops).2 ∧
    (World.runSeededFrom s₁ fuel {} ops).1.ledger.Perm (World.runSeededFrom s₂ fuel {} ops).1.ledger :=
  ⟨World.runSeeded_indep s₁ s₂ fuel ops, World.runSeeded_eq_run s₁ fuel ops,
   World.runSeeded_ledger_perm s₁ s₂ fuel ops⟩

/-- The hash list of storage `k` (empty if the storage is not a plain hash storage). -/
def hashList (w : World) (k : Nat) : List (Nat × Int) :=
  match w.store? k with
  | some ⟨_, .hash l⟩ => l
  | _ => []

/-- Non-vacuity: on kind 3 (`HashMapStorage`), three inserts leave *different* internal lists under
    seeds 0 and 1, yet the following remove, get, mask and drain give the same results. -/
example :
    let pre : List WOp := [.reg 3 0, .ent (.createIterNow 3), .ins 3 0 10, .ins 3 1 20, .ins 3 2 30]
    let ops : List WOp := pre ++ [.rem 3 1, .get 3 0, .mask 3, .drain 3 5, .count 3]
    hashList (World.runSeededFrom 0 100 {} pre).1 3 = [(2, 30), (1, 20), (0, 10)] ∧
    hashList (World.runSeededFrom 1 100 {} pre).1 3 = [(1, 20), (0, 10), (2, 30)] ∧
    World.runSeeded 0 100 ops = World.runSeeded 1 100 ops ∧
    World.runSeeded 1 100 ops =
      [.unit, .e (.ents [⟨0, 1⟩, ⟨1, 1⟩, ⟨2, 1⟩]), .ins .inserted, .ins .inserted, .ins .inserted,
       .opt (some 20), .opt (some 10), .ids [0, 2], .pairs [(0, 10), (2, 30)], .nat 0] := by
  decide +kernel

/-- Non-vacuity for the ledger: a bulk `clear` destroys the three values in seed-dependent order —
    the ledgers differ as lists, are equal as multisets, and the transcripts coincide. -/
example :
    let ops : List WOp := [.reg 3 0, .ent (.createIterNow 3), .ins 3 0 10, .ins 3 1 20, .ins 3 2 30,
      .clear 3, .count 3]
    (World.runSeededFrom 0 100 {} ops).1.ledger = [10, 20, 30] ∧
    (World.runSeededFrom 1 100 {} ops).1.ledger = [30, 10, 20] ∧
    World.runSeeded 0 100 ops = World.runSeeded 1 100 ops := by
  decide +kernel

/-! ### Save/load domain: the marker allocator's hash map -/

open SaveLoad in
/-- Step-level non-interference for the save/load domain: two histories' states that differ only in how the
    marker allocator's hash map is laid out (`SLWorld.Eqv`: every look-up answers alike) give the same result
    for every operation — serialised records included — and stay so related. -/
theorem marker_map_order_never_observable (x₁ x₂ : SLWorld) (op : SOp) (h : SLWorld.Eqv x₁ x₂) :
    (x₁.step op).2 = (x₂.step op).2 ∧ SLWorld.Eqv (x₁.step op).1 (x₂.step op).1 :=
  ⟨(SLWorld.step_eqv h op).2, (SLWorld.step_eqv h op).1⟩

open SaveLoad in
/-- Sequence form, and `maintain` with lazily queued markings. -/
theorem marker_map_order_never_observable_seq (x₁ x₂ : SLWorld) (ops : List SOp) (js : List Nat)
    (h : SLWorld.Eqv x₁ x₂) :
    (x₁.runFrom ops).2 = (x₂.runFrom ops).2 ∧ SLWorld.Eqv (x₁.runFrom ops).1 (x₂.runFrom ops).1 ∧
    (x₁.maintainLazy js).2 = (x₂.maintainLazy js).2 ∧ SLWorld.Eqv (x₁.maintainLazy js).1 (x₂.maintainLazy js).1 :=
  ⟨(SLWorld.runFrom_eqv ops h).2, (SLWorld.runFrom_eqv ops h).1,
   (SLWorld.maintainLazy_eqv h js).2, (SLWorld.maintainLazy_eqv h js).1⟩

open SaveLoad in
/-- Whatever happens to the hash map's layout between steps (any step-indexed transformer that keeps every
    look-up — rehash, growth, a different seed per step), the transcript, with every serialised output in it,
    is the plain run's. -/
theorem serialised_output_independent_of_any_reordering (sc : Nat → SLWorld → SLWorld)
    (hsc : ∀ n x, SLWorld.Eqv x (sc n x)) (ops : List SOp) :
    (SLWorld.runScrambled sc 0 {} ops).2 = (SLWorld.run ops).2 :=
  (SLWorld.runScrambled_eqv sc hsc ops 0 (SLWorld.Eqv.refl _)).2

namespace SLDemo
open SaveLoad

/-- A layout disturbance that is not the identity: exchange the first two entries of the map. -/
def swapFront : List (Nat × Entity) → List (Nat × Entity)
  | a :: b :: t => if a.1 = b.1 then a :: b :: t else b :: a :: t
  | m => m

theorem swapFront_eqv (m : List (Nat × Entity)) : MapEqv m (swapFront m) := by
  intro k
  match m with
  | [] => rfl
  | [_] => rfl
  | a :: b :: t =>
    simp only [swapFront]
    by_cases hab : a.1 = b.1
    · simp only [hab, if_true]
    · simp only [hab, if_false, mapLookup]
      by_cases hk : a.1 = k
      · have : ¬ b.1 = k := fun hb => hab (hk.trans hb.symm)
        simp only [hk, this, if_true, if_false]
      · simp only [hk, if_false]

def sc (_ : Nat) (x : SLWorld) : SLWorld :=
  { x with w := { x.w with ma := { x.w.ma with mapping := swapFront x.w.ma.mapping } } }

theorem sc_eqv (n : Nat) (x : SLWorld) : SLWorld.Eqv x (sc n x) :=
  ⟨⟨rfl, rfl, rfl, swapFront_eqv _, rfl, rfl, rfl⟩, rfl⟩

def ops : List SOp :=
  [.create false, .create false, .create false, .setP 0 (some 7), .setR 1 (some (0, 2)), .mark 0, .mark 2,
   .serializeRec, .delNow 2, .maintain, .allocMaintain, .deserialize [{ marker := 1, p := some 3, r := some (0, 5), e := none }],
   .serialize]

/-- Non-vacuity: the disturbance satisfies the hypothesis, really changes the layout along this history (the
    final maps differ as lists), and the transcripts — two serialised outputs in them — coincide. -/
example :
    (SLWorld.runScrambled sc 0 {} ops).1.w.ma.mapping ≠ (SLWorld.run ops).1.w.ma.mapping ∧
    (SLWorld.runScrambled sc 0 {} ops).2 = (SLWorld.run ops).2 ∧
    ((SLWorld.run ops).2.filter (fun r => match r with | .recs _ => true | _ => false)).length = 2 := by
  decide +kernel

end SLDemo

end SpecsModel.C20
