/-
  C19 — A panicking component destructor cannot cause a double drop or a stale read.
  Property theorems only (helpers: Lemmas/FaultInv.lean; fault semantics: Model/Fault.lean).

  Quantifier: every reachable world (any history), every operation that destroys components
  (refused insert / unused `or_insert` argument, immediate / batch / delete_all deletion, maintain,
  clear, world teardown), every position `n` of the panicking destructor call, every resolution
  `implD` of "which of the remaining values std's containers still destroyed", and every
  continuation of the history afterwards.
  Zero values (unit value of the null storage, default fillers) never panic; a fault inside a
  lazily queued action is not modelled (the harness does not inject it either).
-/
import SpecsModel.Lemmas.FaultInv
import SpecsModel.Props.C04
import SpecsModel.Props.C16
namespace SpecsModel.C19
open SpecsModel Alloc World

/-- **The world remains usable.** After any operation interrupted by a panicking destructor the
    world invariant holds again — allocator coupled to the entity timeline, every storage well
    formed, every storage in the meta table — with the indices whose purge was cut short exempted
    from "components only at occupied indices". -/
theorem fault_leaves_world_well_formed (fuel : Nat) (X : Nat → Prop) (w : World) (h : WInvX X w)
    (op : WOp) (n : Nat) (implD : List Int) :
    ∃ Y : Nat → Prop, (∀ i, X i → Y i) ∧ WInvX Y (stepFault fuel w op n implD).1 :=
  stepFault_inv fuel h op n implD

/-- **…and stays usable in every continuation**: any further history (including further faults)
    keeps every storage well formed, so every later operation returns normally and refines the plain
    map of C04 — no lookup, join or slice can reach a moved-out or destroyed slot. -/
theorem continuation_stays_well_formed (fuel : Nat) (X : Nat → Prop) (w : World) (h : WInvX X w)
    (ops : List WOp) : WInvX X (ops.foldl (fun w op => (step fuel w op).1) w) :=
  inv_run fuel ops w h

theorem storages_good_after_fault (fuel : Nat) (X : Nat → Prop) (w : World) (h : WInvX X w)
    (op : WOp) (n : Nat) (implD : List Int) (k : Nat) (ms : Masked)
    (hk : (stepFault fuel w op n implD).1.store? k = some ms) : ∃ m, ms.MRep m := by
  obtain ⟨Y, _, hinv⟩ := stepFault_inv fuel h op n implD
  exact (hinv.good k ms hk).1

/-- **No double drop in an interrupted entity purge**: each `MaskedStorage::drop(id)` the purge
    performs clears the bit and moves the value out *before* destroying it — the destroyed value is
    exactly the stored one and the storage no longer holds it. -/
theorem purge_step_removes_what_it_destroys {ms : Masked} {m : Nat → Option Int} (h : ms.MRep m) (id : Nat) :
    ∃ r, ms.dropId id = .ok r ∧ r.destroyed = (m id).toList ∧ r.st.MRep (upd m id none) := by
  obtain ⟨r, h1, h2, h3, _⟩ := Masked.dropId_ref h id
  exact ⟨r, h1, h2, h3⟩

/-- An interrupted purge never touches the allocator, the table or the queue, and only shrinks
    masks: entities and storages it did not reach are exactly as before. -/
theorem interrupted_purge_frame : ∀ (pairs : List (Nat × Nat)) (w : World) (n : Nat),
    (purgeFault w pairs n).1.ent = w.ent ∧ (purgeFault w pairs n).1.table = w.table ∧
    (purgeFault w pairs n).1.queue = w.queue := by
  intro pairs
  induction pairs with
  | nil => intro w n; exact ⟨rfl, rfl, rfl⟩
  | cons p pairs ih =>
    intro w n
    obtain ⟨k, id⟩ := p
    simp only [purgeFault]
    cases w.store? k with
    | none => exact ih w n
    | some m =>
      simp only
      cases m.dropId id with
      | ok r =>
        simp only
        split
        · exact ⟨rfl, rfl, rfl⟩
        · obtain ⟨h1, h2, h3⟩ := ih ((w.setStore k r.st).destroy r.destroyed) (n - nzCount r.destroyed)
          exact ⟨h1, h2, h3⟩
      | panic why => exact ⟨rfl, rfl, rfl⟩
      | ub why => exact ⟨rfl, rfl, rfl⟩

/-- **An interrupted `clear` reports empty**: the mask is swapped out before any destructor runs,
    so whatever the cleaning destroyed or leaked, every later lookup in that storage finds nothing. -/
theorem interrupted_clear_reports_empty (fuel : Nat) (w : World) (k : Nat) (n : Nat) (implD : List Int)
    (ms ms' : Masked) (hg : ms.Good) (hk : w.store? k = some ms)
    (hk' : (stepFault fuel w (.clear k) n implD).1.store? k = some ms') :
    ∀ i, ms'.mask.mem i = false := by
  obtain ⟨r, hr, _⟩ := Masked.good_clear hg
  have hlt := lt_size_of_store? hk
  have hstep : (step fuel w (.clear k)).1 = (w.setStore k r.st).destroy r.destroyed := by
    simp only [step, hk, applyS, hr]
  have hst : (stepFault fuel w (.clear k) n implD).1.store? k = (step fuel w (.clear k)).1.store? k := by
    simp only [stepFault]
    generalize step fuel w (.clear k) = x
    obtain ⟨w', r'⟩ := x
    simp only
    split <;> rfl
  rw [hst, hstep, store?_destroy, store?_setStore] at hk'
  simp only [hlt, and_self, if_true, Option.some.injEq] at hk'
  subst hk'
  exact Masked.clear_mask hr

/-- What an interrupted `clear` / teardown destroyed is a sub-multiset of what the complete
    operation destroys (validated against the run), so no value is destroyed that the operation
    would not have destroyed anyway, and none twice. -/
theorem interrupted_bulk_destroys_subset (fuel : Nat) (w : World) (op : WOp) (n : Nat) (implD : List Int)
    (hop : op = .dropWorld ∨ ∃ k, op = .clear k)
    (hp : ∃ why, (stepFault fuel w op n implD).2 = .panic why ∧ (step fuel w op).2 ≠ .panic why) :
    subMultiset implD ((step fuel w op).1.ledger.take ((step fuel w op).1.ledger.length - w.ledger.length)) = true := by
  obtain ⟨why, h1, h2⟩ := hp
  rcases hop with rfl | ⟨k, rfl⟩
  all_goals
    simp only [stepFault] at h1
    generalize step fuel w _ = x at *
    obtain ⟨w', r'⟩ := x
    simp only at h1 h2 ⊢
    split at h1
    · next hc => simp only [Bool.and_eq_true] at hc; exact hc.1.2
    · exact absurd h1 h2

/-- Non-vacuity: a batch deletion over two storages whose second destructor call panics: the
    first storage is purged of the first entity only … and the history continues normally. -/
example :
    let ops : List WOp := [.reg 1 0, .reg 0 0, .createWith false false [(1, 10), (0, 11)],
      .createWith false false [(1, 20), (0, 21)]]
    let w := ops.foldl (fun w op => (World.step 100 w op).1) {}
    let (w', r) := World.stepFault 100 w (.ent (.delBatch [0, 1])) 1 []
    (r, World.dump w', (World.step 100 w' (.ent (.alive 1))).2, (World.step 100 w' (.get 1 1)).2,
      (World.step 100 w' (.createWith false false [])).2)
    = (.panic "injected destructor panic", [(0, [(0, 11), (1, 21)]), (1, [])], .e (.bool false), .opt none,
       .e (.ent ⟨1, 2⟩)) := by decide +kernel

/-- **An insertion after (or while unwinding from) a destructor panic is kept.** In every storage of every
    world a faulted operation leaves behind, `Storage::insert` of a live handle returns normally, destroys
    nothing but zero values (a replaced default), leaves the mask bit set and the value readable, and changes
    no other entity's entry: an insertion is never rolled back with its bit left behind, wherever it runs
    (tied to the code by the `ins` lines after a fault and by the `uins` lines — the same call made from a scope
    guard's destructor while the panic unwinds — of the world harness). -/
theorem insertion_after_fault_is_kept (fuel : Nat) (X : Nat → Prop) (w : World) (h : WInvX X w)
    (op : WOp) (n : Nat) (implD : List Int) (k : Nat) (ms : Masked)
    (hk : (stepFault fuel w op n implD).1.store? k = some ms)
    (a : Alloc) (e : Entity) (v : Int) (hv : ms.inner.valOk v) (ha : a.isAlive e = true) :
    ∃ r, ms.insert a e v = .ok r ∧ (∀ x ∈ r.destroyed, x = 0) ∧ r.st.mask.mem e.id = true ∧
      r.st.get a e = .ok (some v) ∧
      (∀ e' : Entity, e'.id ≠ e.id → r.st.get a e' = ms.get a e') := by
  obtain ⟨m, hm⟩ := storages_good_after_fault fuel X w h op n implD k ms hk
  obtain ⟨r, h1, _, h3, h4⟩ := C04.insert_refines hm a e v hv
  simp only [ha, if_true] at h3 h4
  refine ⟨r, h1, h4, ?_, ?_, ?_⟩
  · rw [(C04.mask_refines h3).1]; simp
  · rw [C04.get_refines h3, ha]; simp
  · intro e' hne
    rw [C04.get_refines h3, C04.get_refines hm]
    simp [upd_apply, hne]

/-- The world a batch deletion interrupted at its second destructor call leaves behind (third entity alive,
    without components). -/
def afterFault : World :=
  (World.stepFault 100
    (([.reg 1 0, .reg 0 0, .createWith false false [(1, 10), (0, 11)],
       .createWith false false [(1, 20), (0, 21)], .createWith false false []] : List WOp).foldl
      (fun w op => (World.step 100 w op).1) {}) (.ent (.delBatch [0, 1])) 1 []).1

/-- Non-vacuity: inserting for the surviving entity into the storage whose purge was cut short. -/
example :
    ((World.step 100 afterFault (.ins 1 2 77)).2, World.dump (World.step 100 afterFault (.ins 1 2 77)).1,
      (World.step 100 (World.step 100 afterFault (.ins 1 2 77)).1 (.get 1 2)).2)
    = (.ins .inserted, [(0, [(0, 11), (1, 21)]), (1, [(2, 77)])], .opt (some 77)) := by decide +kernel

/-- `ChangeSet::clear` interrupted by a destructor panic (model `ChangeSet.clearFault`, tied to the code by the
    `cs_clear_fault` lines of the changeset harness): whatever the position of the panicking destructor, every
    accumulated amount is destroyed exactly once (`rest` is a permutation of the set's indices), the set reports
    empty to every join, and it can be refilled like a new one. -/
theorem changeset_interrupted_clear (ps : List (Nat × Amount)) (cs : ChangeSet)
    (hh : ChangeSet.Holds cs (ChangeSet.expected ps)) (n : Nat) :
    ∃ (cs' : ChangeSet) (rest : List Nat),
      cs.clearFault n = Out.ok (cs', rest.map (ChangeSet.acc ps), decide (max n 1 ≤ rest.length)) ∧
      rest.Perm cs.mask.toList ∧
      (∀ i, cs'.mask.mem i = false) ∧ (∀ M, cs'.joinShared M = Out.ok []) ∧
      (∀ qs, ∃ c2, cs'.extend qs = Out.ok c2 ∧ ChangeSet.Holds c2 (ChangeSet.expected qs)) := by
  obtain ⟨cs', rest, h1, h2, _, h4, h5, h6⟩ := C16.clear_empties ps cs hh
  refine ⟨cs', rest, ?_, h2, h4, h5, h6⟩
  simp [ChangeSet.clearFault, h1]

/-- Non-vacuity: a set built from three pairs (two for index 0), cleared while the second destructor panics:
    the call panics, both accumulated amounts are destroyed, the set is empty. -/
example :
    (match (ChangeSet.new.extend [(0, [1]), (3, [2]), (0, [4])]) with
     | .ok cs => (match cs.clearFault 2 with
        | .ok (cs', d, p) => (d, p, cs'.mask.toList)
        | _ => ([], false, [99]))
     | _ => ([], false, [98]))
    = ([[1, 4], [2]], true, []) := by decide +kernel

end SpecsModel.C19
