/-
  C14 — Save/load round trip preserves marked entities, components and references.
  Property theorems only; the model is SpecsModel/SaveLoad/Model.lean, helper lemmas live in
  SpecsModel/SaveLoad/Lemmas*.lean.

  Quantifier: `world ops` for every finite history `ops` of creations (both paths), component
  writes and removals (plain `P`, two-reference struct `R`, enum `E`, entity fields pointing at
  any handle ever returned: live, dead, stale, self, later entities), marking, deletions (all
  paths), maintain, allocator maintain, earlier serialisations and loads of arbitrary data. This
  produces every world content: any number of entities, any subset marked, any subset of
  component types per entity, arbitrary reference graphs (self loops, cycles, forward
  references). The serialised form is the list of `EntityData` (the data formats JSON / RON
  are assumed to round-trip it; both are exercised by the correspondence check). Marker ids are
  those of `SimpleMarker`; `UuidMarker` differs only in how *fresh* ids are chosen, which the
  plain round trip never does (it is covered by the correspondence check, uuids renamed by first
  appearance).
-/
import SpecsModel.SaveLoad.LemmasGlue
namespace SpecsModel.C14
open SpecsModel SpecsModel.SaveLoad

/-- The world built by a history. -/
def world (ops : List SOp) : SW := (SLWorld.run ops).1.w

/-- **Serialisation.** `serialize` fails (the real code panics in `Entity::convert_into`'s
    `unwrap`) exactly when some marked entity refers to an entity that `markers.get` does not
    know (unmarked or dead); it never fails otherwise. -/
theorem serialize_succeeds_iff (ops : List SOp) :
    (∃ ds, (world ops).serialize = .ok ds) ↔
      ∀ ent m, (ent, m) ∈ (world ops).joinMarked → ∀ a, a ∈ (world ops).refsAt ent.id →
        ∃ k, (a, k) ∈ (world ops).joinMarked := by
  obtain ⟨s, h⟩ := run_inv ops
  have hI : SInv (world ops) s := h.inv
  rw [serialize_ok_iff hI]
  constructor
  · intro hh ent m hem a ha
    obtain ⟨k, hk⟩ := hh ent m ((mem_joinMarked hI ent m).mp hem) a ha
    exact ⟨k, (mem_joinMarked hI a k).mpr hk⟩
  · intro hh ent m hc a ha
    obtain ⟨k, hk⟩ := hh ent m ((mem_joinMarked hI ent m).mpr hc) a ha
    exact ⟨k, (mem_joinMarked hI a k).mp hk⟩

/-- **Serialised records.** The data has exactly one record per marked (not-dead) entity, in
    join order, carrying that entity's marker; unmarked entities contribute nothing; each
    record is the pure image `recOf` of the entity: the components it has (`None` for those it
    lacks), entity fields replaced by the marker ids of their targets. -/
theorem serialize_records (ops : List SOp) (ds : List EntityData)
    (hs : (world ops).serialize = .ok ds) :
    ds.map (·.marker) = (world ops).joinMarked.map (·.2) ∧
    (world ops).recsOf (world ops).joinMarked = some ds := by
  obtain ⟨s, h⟩ := run_inv ops
  have hI : SInv (world ops) s := h.inv
  refine ⟨(serialize_describes hI hs).2, ?_⟩
  rw [serialize_eq] at hs
  cases hr : (world ops).recsOf (world ops).joinMarked with
  | none => simp [hr] at hs
  | some ds' => simp only [hr, Out.ok.injEq] at hs; rw [hs]

/-- **C14, round trip.** Serialising any world and deserialising the result — in any order of
    the records — into an empty world gives a world `w'` and a map φ (`phi`, "the entity carrying
    the same marker id") such that
    * φ sends every marked entity to an entity of `w'` carrying the same marker,
    * every entity of `w'` is such an image (no other entities; unmarked entities are not
      transferred: the counts agree),
    * φ is injective on marked entities,
    * each serialised component type is present on `e` iff present on `φ e`, with equal values,
      entity fields mapped through φ (so a reference to a marked entity refers, after loading, to
      the entity carrying that entity's marker). -/
theorem roundtrip (ops : List SOp) (ds : List EntityData) (hs : (world ops).serialize = .ok ds)
    (ds' : List EntityData) (hp : ds'.Perm ds) :
    ∃ w', ({} : SW).deserialize ds' = .ok w' ∧
      (∀ e m, (e, m) ∈ (world ops).joinMarked → (phi (world ops) w' e, m) ∈ w'.joinMarked) ∧
      (∀ e', e' ∈ w'.alloc.joinEntities →
        ∃ e m, (e, m) ∈ (world ops).joinMarked ∧ phi (world ops) w' e = e') ∧
      (∀ e1 m1 e2 m2, (e1, m1) ∈ (world ops).joinMarked → (e2, m2) ∈ (world ops).joinMarked →
        phi (world ops) w' e1 = phi (world ops) w' e2 → e1 = e2) ∧
      (∀ e m, (e, m) ∈ (world ops).joinMarked →
        sget w'.alloc w'.cp (phi (world ops) w' e) = sget (world ops).alloc (world ops).cp e ∧
        sget w'.alloc w'.cr (phi (world ops) w' e) =
          (sget (world ops).alloc (world ops).cr e).map
            (fun ab => (phi (world ops) w' ab.1, phi (world ops) w' ab.2)) ∧
        sget w'.alloc w'.ce (phi (world ops) w' e) =
          (sget (world ops).alloc (world ops).ce e).map (En.map (phi (world ops) w'))) ∧
      w'.alloc.joinEntities.length = (world ops).joinMarked.length := by
  obtain ⟨s, h⟩ := run_inv ops
  have hI : SInv (world ops) s := h.inv
  exact roundtrip_concrete hI ((serialize_describes hI hs).1.perm hp)

/-- **C14, recursive serialiser.** If every entity reachable from the marked ones through
    component references is not dead, `serialize_recursive` succeeds; afterwards exactly the
    reachable entities (the reference closure of the marked set) are marked — previously marked
    ones keep their ids, nothing else in the world changes —, the data has one record per member
    of the closure, and loading it into an empty world transfers exactly the closure, in the
    sense of `roundtrip` (for the world after marking). -/
theorem roundtrip_recursive (ops : List SOp)
    (hlive : ∀ a, Reachable (world ops) a → a ∈ (world ops).alloc.joinEntities) :
    ∃ w1 ds, (world ops).serializeRecursive = .ok (w1, ds) ∧
      (∀ e, (∃ m, (e, m) ∈ w1.joinMarked) ↔ Reachable (world ops) e) ∧
      (∀ e m, (e, m) ∈ (world ops).joinMarked → (e, m) ∈ w1.joinMarked) ∧
      w1.alloc = (world ops).alloc ∧ w1.cp = (world ops).cp ∧ w1.cr = (world ops).cr ∧
      w1.ce = (world ops).ce ∧
      (ds.map (·.marker)).Perm (w1.joinMarked.map (·.2)) ∧
      ∃ w', ({} : SW).deserialize ds = .ok w' ∧
        (∀ e m, (e, m) ∈ w1.joinMarked → (phi w1 w' e, m) ∈ w'.joinMarked) ∧
        (∀ e', e' ∈ w'.alloc.joinEntities → ∃ e m, (e, m) ∈ w1.joinMarked ∧ phi w1 w' e = e') ∧
        (∀ e1 m1 e2 m2, (e1, m1) ∈ w1.joinMarked → (e2, m2) ∈ w1.joinMarked →
          phi w1 w' e1 = phi w1 w' e2 → e1 = e2) ∧
        (∀ e m, (e, m) ∈ w1.joinMarked →
          sget w'.alloc w'.cp (phi w1 w' e) = sget w1.alloc w1.cp e ∧
          sget w'.alloc w'.cr (phi w1 w' e) =
            (sget w1.alloc w1.cr e).map (fun ab => (phi w1 w' ab.1, phi w1 w' ab.2)) ∧
          sget w'.alloc w'.ce (phi w1 w' e) = (sget w1.alloc w1.ce e).map (En.map (phi w1 w'))) ∧
        w'.alloc.joinEntities.length = w1.joinMarked.length := by
  obtain ⟨s, h⟩ := run_inv ops
  have hI : SInv (world ops) s := h.inv
  rcases serializeRecursive_concrete hI with ⟨a, hra, hn, _⟩ | ⟨w1, ds, hs, hI1, hd, h1, h2, h3, h4, h5, h6, h7⟩
  · exact absurd (hlive a hra) hn
  · exact ⟨w1, ds, hs, h1, h2, h3, h4, h5, h6, h7, roundtrip_concrete hI1 hd⟩

/-- The recursive serialiser fails (the real code panics: `mark` returns `None`, then `unwrap`)
    only because some entity of the closure is dead; it never runs out of the model's fuel. -/
theorem recursive_fails_only_on_dead (ops : List SOp) :
    (∃ w1 ds, (world ops).serializeRecursive = .ok (w1, ds)) ∨
    (∃ a, Reachable (world ops) a ∧ a ∉ (world ops).alloc.joinEntities ∧
      ∃ msg, (world ops).serializeRecursive = .panic msg) := by
  obtain ⟨s, h⟩ := run_inv ops
  have hI : SInv (world ops) s := h.inv
  rcases serializeRecursive_concrete hI with hp | ⟨w1, ds, hs, _⟩
  · exact Or.inr hp
  · exact Or.inl ⟨w1, ds, hs⟩

/-! ### Non-vacuity: a world with a self loop, a cycle and a forward reference -/

/-- Four entities; `@0` refers to itself and forward to `@1`; `@1` and `@3` form a cycle through
    `R` and `E`; `@2` is unmarked and is not transferred; `@0` also has the plain component. -/
def exOps : List SOp :=
  [.create false, .create false, .create true, .create false,
   .setR 0 (some (0, 1)), .setR 1 (some (3, 3)), .setE 3 (some (.one 1)), .setP 0 (some 7),
   .setP 2 (some 9), .mark 0, .mark 1, .mark 3]

example : (world exOps).serialize = .ok
    [{ marker := 0, p := some 7, r := some (0, 1), e := none },
     { marker := 1, p := none, r := some (2, 2), e := none },
     { marker := 2, p := none, r := none, e := some (.one 1) }] := by decide +kernel

/-- Loading the records in reverse order (every reference is then a forward reference). -/
example :
    (match ({} : SW).deserialize
        [{ marker := 2, p := none, r := none, e := some (.one 1) },
         { marker := 1, p := none, r := some (2, 2), e := none },
         { marker := 0, p := some 7, r := some (0, 1), e := none }] with
      | .ok w' => some w'.view
      | _ => none) =
    some [{ ent := ⟨0, 1⟩, marker := some 2, p := none, r := none, e := some (.one ⟨1, 1⟩) },
          { ent := ⟨1, 1⟩, marker := some 1, p := none, r := some (⟨0, 1⟩, ⟨0, 1⟩), e := none },
          { ent := ⟨2, 1⟩, marker := some 0, p := some 7, r := some (⟨2, 1⟩, ⟨1, 1⟩), e := none }] := by
  decide +kernel

/-- The recursive serialiser reaches the unmarked `@2` when `@3` refers to it, and marks it. -/
example :
    (match (world (exOps ++ [.setR 3 (some (2, 2))])).serializeRecursive with
      | .ok (w1, ds) => some (w1.joinMarked.map (·.2), ds.map (·.marker))
      | _ => none) = some ([0, 1, 3, 2], [0, 1, 2, 3]) := by decide +kernel

end SpecsModel.C14
