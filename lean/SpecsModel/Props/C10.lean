/-
  C10 — Concurrent creation, deletion and lazy queuing via shared access lose nothing.
  Property theorems only; the model is SpecsModel/Conc/Model.lean (small-step, one tick per atomic
  step of DESIGN Appendix E = per H1 yield point), helper lemmas in SpecsModel/Conc/Lemmas*.lean.

  Quantifier: ANY frozen allocator `a0` satisfying the sequential invariant `Alloc.Inv` (so `raised`
  and `killed` may be non-empty, the free list arbitrary), ANY lazy-queue prefix `q0`, ANY log `L`
  of handles issued before the phase, ANY number of threads with ANY programs `progs` over
  `create | delete @k | is_alive @k | join | lazy tag` (`create_iter n` = `n` creates), and ANY
  schedule `s : List (ThreadId × Bool)` — unbounded; the flag lets a `compare_exchange_weak` fail
  spuriously. Plain schedules `List ThreadId` are the special case `Conf.run` (`run_eq_runW`).
  Interleavings are sequentially consistent; hardware reorderings of the `Relaxed` atomics are
  outside the model (sampled on real threads by `h_conc stress`).
-/
import SpecsModel.Conc.LemmasQuiesce
import SpecsModel.Lemmas.EWorldAccept
namespace SpecsModel.C10
open SpecsModel Alloc Conc

variable {a0 : Alloc} {q0 : List Nat} {L : List Entity} {progs : List (List Call)}

/-- The configuration reached from the start of the phase by schedule `s`. -/
def reach (a0 : Alloc) (q0 : List Nat) (L : List Entity) (progs : List (List Call))
    (s : List (Nat × Bool)) : Conf :=
  (Conf.start a0 q0 L progs).runW s

theorem reach_inv (h0 : Start a0 L) (s : List (Nat × Bool)) :
    PInv a0 q0 L progs (reach a0 q0 L progs s) :=
  inv_runW h0 s _ inv_start

/-- **(a)** Under every schedule, the indices of all handles returned so far are pairwise
    distinct, and distinct from every index occupied (alive or awaiting maintain) at phase start. -/
theorem handles_distinct (h0 : Start a0 L) (s : List (Nat × Bool)) :
    ((reach a0 q0 L progs s).created.map (·.id)).Nodup ∧
    ∀ e, e ∈ (reach a0 q0 L progs s).created → a0.occ e.id = false :=
  ⟨(reach_inv h0 s).createdNodup, fun e he => ((reach_inv h0 s).createdOk e he).1⟩

/-- **(b)** A handle returned by a creation is reported alive (`is_alive`, evaluated on the
    current shared state) from its return on, in every later configuration of the phase. -/
theorem created_alive_from_return (h0 : Start a0 L) (s s' : List (Nat × Bool)) (e : Entity)
    (he : e ∈ (reach a0 q0 L progs s).created) :
    (reach a0 q0 L progs (s ++ s')).alloc.isAlive e = true := by
  have h := reach_inv (q0 := q0) (progs := progs) h0 (s ++ s')
  have hmem : e ∈ (reach a0 q0 L progs (s ++ s')).created := by
    obtain ⟨⟨l, hl⟩, _⟩ := runW_mono s' (reach a0 q0 L progs s)
    simp only [reach, runW_append] at hl ⊢
    rw [hl]; exact List.mem_append.mpr (Or.inl he)
  have hlog : e ∈ (reach a0 q0 L progs (s ++ s')).log := List.mem_append.mpr (Or.inr hmem)
  rw [isAlive_log h0 h hlog]
  obtain ⟨hocc, hgen, _⟩ := h.createdOk e hmem
  simp [stableAlive, hocc, hgen]

/-- Aliveness of a logged handle (issued before the phase or returned during it) does not change
    for the rest of the phase. -/
theorem alive_stable (h0 : Start a0 L) (s s' : List (Nat × Bool)) (e : Entity)
    (he : e ∈ (reach a0 q0 L progs s).log) :
    (reach a0 q0 L progs (s ++ s')).alloc.isAlive e = (reach a0 q0 L progs s).alloc.isAlive e := by
  have h := reach_inv (q0 := q0) (progs := progs) h0 s
  have h' := reach_inv (q0 := q0) (progs := progs) h0 (s ++ s')
  have hmem : e ∈ (reach a0 q0 L progs (s ++ s')).log := by
    obtain ⟨⟨l, hl⟩, _, _, hi⟩ := runW_mono s' (reach a0 q0 L progs s)
    simp only [reach, runW_append, Conf.log] at hl hi he ⊢
    rw [hl, hi]
    rcases List.mem_append.mp he with he | he
    · exact List.mem_append.mpr (Or.inl he)
    · exact List.mem_append.mpr (Or.inr (List.mem_append.mpr (Or.inl he)))
  rw [isAlive_log h0 h he, isAlive_log h0 h' hmem]

/-- **(c)** Every completed `delete` of a handle returned `Ok` or `Err`; it returned `Ok` exactly
    when the handle is alive (by `alive_stable`: alive at the moment of the request), and then its
    `killed` bit is set — in this and (the statement holds for every schedule, and the trace only
    grows, `trace_grows`) every later configuration. -/
theorem delete_alive_ok (h0 : Start a0 L) (s : List (Nat × Bool)) (ev : Ev)
    (hev : ev ∈ (reach a0 q0 L progs s).trace) (k : Nat) (hk : ev.call = .delete k) (e : Entity)
    (harg : ev.arg = some e) :
    e ∈ (reach a0 q0 L progs s).log ∧ (ev.res = .ok ∨ ev.res = .err) ∧
    (ev.res = .ok ↔ (reach a0 q0 L progs s).alloc.isAlive e = true) ∧
    (ev.res = .ok → (reach a0 q0 L progs s).alloc.killed.mem e.id = true) := by
  have h := reach_inv (q0 := q0) (progs := progs) h0 s
  have hok := h.traceOk ev hev
  unfold EvOk at hok
  rw [hk] at hok
  simp only at hok
  rcases hok with ⟨h1, _⟩ | ⟨e', h1, hmem, h2⟩
  · rw [harg] at h1; cases h1
  · rw [harg] at h1; cases h1
    rw [isAlive_log h0 h hmem]
    rcases h2 with ⟨r, hs, hreq⟩ | ⟨r, hs⟩
    · exact ⟨hmem, Or.inl r, by simp [r, hs], fun _ => (h.killedIff _).mpr (Or.inr hreq)⟩
    · exact ⟨hmem, Or.inr r, by simp [r, hs], by simp [r]⟩

/-- Completed calls, handles returned and deletion requests are never forgotten later on. -/
theorem trace_grows (s s' : List (Nat × Bool)) :
    (∃ l, (reach a0 q0 L progs (s ++ s')).trace = (reach a0 q0 L progs s).trace ++ l) ∧
    (∃ l, (reach a0 q0 L progs (s ++ s')).created = (reach a0 q0 L progs s).created ++ l) ∧
    (∃ l, (reach a0 q0 L progs (s ++ s')).requested = (reach a0 q0 L progs s).requested ++ l) := by
  obtain ⟨h1, h2, h3, _⟩ := runW_mono s' (reach a0 q0 L progs s)
  simp only [reach, runW_append] at *
  exact ⟨h2, h1, h3⟩

/-- No call panics: the slice index in `pop_atomic` and the index in `del_err` stay in bounds,
    and every call returns a result of its own shape. -/
theorem no_panic (h0 : Start a0 L) (s : List (Nat × Bool)) (ev : Ev)
    (hev : ev ∈ (reach a0 q0 L progs s).trace) (w : String) : ev.res ≠ .panic w := by
  have hok := (reach_inv (q0 := q0) (progs := progs) h0 s).traceOk ev hev
  unfold EvOk at hok
  intro hp
  split at hok
  · obtain ⟨e, h1, _⟩ := hok; rw [hp] at h1; cases h1
  · rcases hok with ⟨_, h1⟩ | ⟨e, _, _, ⟨h1, _⟩ | ⟨h1, _⟩⟩ <;> (rw [hp] at h1; cases h1)
  · rcases hok with ⟨_, h1⟩ | ⟨e, _, _, h1⟩ <;> (rw [hp] at h1; cases h1)
  · obtain ⟨es, h1⟩ := hok; rw [hp] at h1; cases h1
  · rw [hp] at hok; cases hok

/-- **(d)** At any quiescent configuration (all threads idle, programs finished) nothing was lost:
    `raised = raised₀ ∪ created ids`, `killed = killed₀ ∪ requested ids`, the lazy queue is the old
    queue followed by an interleaving of the threads' pushes that preserves each thread's order,
    every call of every program completed exactly once in program order, and `created` /
    `requested` are exactly the handles returned by `create` calls / the ids of the `delete`
    calls that returned `Ok`; each thread got as many handles as it made `create` calls. -/
theorem quiescent_nothing_lost (h0 : Start a0 L) (s : List (Nat × Bool))
    (hq : (reach a0 q0 L progs s).quiescent = true) :
    let c := reach a0 q0 L progs s
    (∀ i, c.alloc.raised.mem i = true ↔ (a0.raised.mem i = true ∨ i ∈ c.created.map (·.id))) ∧
    (∀ i, c.alloc.killed.mem i = true ↔ (a0.killed.mem i = true ∨ i ∈ c.requested)) ∧
    (c.queue = q0 ++ c.lazyQ.map (·.2) ∧ (∀ x, x ∈ c.lazyQ → x.1 < progs.length) ∧
      ∀ t, t < progs.length →
        (c.lazyQ.filter (fun x => x.1 == t)).map (·.2) = lazyTags (progs.getD t [])) ∧
    (∀ t, t < progs.length →
      (c.trace.filter (fun ev => ev.tid == t)).map (·.call) = progs.getD t []) ∧
    c.created = c.trace.filterMap entOf ∧ c.requested = c.trace.filterMap delOkId ∧
    (∀ t, t < progs.length → ∃ th, c.threads[t]? = some th ∧
      th.rets.length = nCreates (progs.getD t []) ∧ ∀ e, e ∈ th.rets → e ∈ c.created) := by
  have h := reach_inv (q0 := q0) (progs := progs) h0 s
  have hthr : ∀ t, t < progs.length → ∃ th, (reach a0 q0 L progs s).threads[t]? = some th ∧
      th.pc = .idle ∧ th.todo = [] := by
    intro t ht
    have hlt : t < (reach a0 q0 L progs s).threads.size := by rw [h.sizeEq]; exact ht
    exact ⟨_, Array.getElem?_eq_getElem hlt, quiescent_thread hq (Array.getElem?_eq_getElem hlt)⟩
  refine ⟨raised_quiescent h hq, h.killedIff, ⟨by simp [Conf.queue, h.q0Eq], h.lazyTid, ?_⟩, ?_,
    h.createdEq, h.requestedEq, ?_⟩
  · intro t ht
    obtain ⟨th, hget, _, htodo⟩ := hthr t ht
    have := (h.thr t th hget).lazyOk
    rw [htodo] at this; simpa [lazyTags] using this
  · intro t ht
    obtain ⟨th, hget, _, htodo⟩ := hthr t ht
    have := (h.thr t th hget).callsOk
    rw [htodo] at this; simpa using this
  · intro t ht
    obtain ⟨th, hget, _, htodo⟩ := hthr t ht
    have := (h.thr t th hget).countOk
    rw [htodo] at this
    exact ⟨th, hget, by simpa [nCreates] using this, (h.thr t th hget).retsOk⟩

/-- **(e)** Composition with the sequential theorems: the next `maintain` on a quiescent state
    succeeds, re-establishes the allocator invariant, and afterwards the set of alive entities
    equals the initial set plus everything created minus everything whose deletion was requested
    (during the phase, or before it and still pending) — by index (`occ`) and by handle (the
    entities join); the deleted handles are exactly the `killed` indices with their top
    generation; and every queued lazy action has run exactly once, in queue order. -/
theorem after_maintain (h0 : Start a0 L) (s : List (Nat × Bool))
    (hq : (reach a0 q0 L progs s).quiescent = true) :
    let c := reach a0 q0 L progs s
    ∃ a', c.maintain = .ok (a', c.alloc.killed.toList.map (fun i => ⟨i, c.alloc.top i⟩),
                             q0 ++ c.lazyQ.map (·.2)) ∧
      Inv a' ∧
      (∀ j, a'.occ j = ((a0.occ j || decide (j ∈ c.created.map (·.id))) &&
                         !(a0.killed.mem j || decide (j ∈ c.requested)))) ∧
      (∀ e, e ∈ a'.joinEntities ↔
        ((e ∈ a0.joinEntities ∨ e ∈ c.created) ∧ a0.killed.mem e.id = false ∧ e.id ∉ c.requested)) ∧
      (∀ j, a'.raised.mem j = false) ∧ (∀ j, a'.killed.mem j = false) := by
  intro c
  have h : PInv a0 q0 L progs c := reach_inv h0 s
  have hinv := inv_quiescent h0 h hq
  obtain ⟨a', hm, hi', ho, ht, hk, hr, _⟩ := merge_spec hinv
  have hkill : ∀ j, c.alloc.killed.mem j = (a0.killed.mem j || decide (j ∈ c.requested)) := by
    intro j
    have := h.killedIff j
    cases hm : c.alloc.killed.mem j
    · have hn : ¬ (a0.killed.mem j = true ∨ j ∈ c.requested) := by rw [← this]; simp [hm]
      simp only [not_or] at hn
      simp [hn.1, hn.2]
    · rcases this.mp hm with h1 | h1 <;> simp [h1]
  have hocc : ∀ j, a'.occ j = ((a0.occ j || decide (j ∈ c.created.map (·.id))) &&
      !(a0.killed.mem j || decide (j ∈ c.requested))) := by
    intro j; rw [ho, occ_quiescent h hq, hkill]
  refine ⟨a', ?_, hi', hocc, ?_, hr, hk⟩
  · simp only [Conf.maintain, hm, Conf.queue, h.q0Eq, drainLazy_nil]
  · intro e
    rw [mem_joinEntities hi' e, mem_joinEntities h0.inv e, hocc, ht, top_quiescent h0 h hq]
    by_cases hin : e.id ∈ c.created.map (·.id)
    · obtain ⟨e', he', hid⟩ := List.mem_map.mp hin
      obtain ⟨hocc0, hgen, _⟩ := h.createdOk e' he'
      rw [hid] at hocc0 hgen
      have hiff : e ∈ c.created ↔ e.gen = 1 - a0.gens.get e.id := by
        constructor
        · intro he; exact (h.createdOk e he).2.1
        · intro hg
          have : e' = e := by
            cases e; cases e'; simp only at hid hgen hg; subst hid; simp [hgen, hg]
          rw [← this]; exact he'
      simp only [hin, if_true, hocc0, decide_true, Bool.or_true, Bool.true_and,
        Bool.not_eq_true', Bool.or_eq_false_iff, decide_eq_false_iff_not, Bool.false_eq_true,
        false_and, false_or, hiff]
      constructor
      · rintro ⟨⟨h1, h2⟩, h3⟩; exact ⟨h3, h1, h2⟩
      · rintro ⟨h3, h1, h2⟩; exact ⟨⟨h1, h2⟩, h3⟩
    · have hnc : e ∉ c.created := fun he => hin (List.mem_map.mpr ⟨e, he, rfl⟩)
      simp only [hin, if_false, decide_false, Bool.or_false, Bool.and_eq_true, Bool.not_eq_true',
        Bool.or_eq_false_iff, decide_eq_false_iff_not, hnc, or_false]
      constructor
      · rintro ⟨⟨h1, h2, h3⟩, h4⟩; exact ⟨⟨h1, h4⟩, h2, h3⟩
      · rintro ⟨⟨h1, h4⟩, h2, h3⟩; exact ⟨⟨h1, h2, h3⟩, h4⟩

/-- Composition with the sequential model: the state reached by ANY sequential history of world
    operations (creations, deletions incl. failing batches, deferred ones, maintain — the C01/C02
    model `EWorld`) is a valid phase start, with the log of that history as initial handles. So all
    theorems above hold for a shared-access phase entered after any history. -/
theorem start_of_history (ops : List EOp) :
    Start (EWorld.run ops).1.alloc (EWorld.run ops).1.log.toList := by
  obtain ⟨s, _, hW⟩ := runFrom_accept ops {} EntSpec.init WR_init
  exact ⟨hW.r.inv, fun e he => hW.r.seenOk e (hW.logSeen e he)⟩

/-- Plain schedules (lists of thread ids, no spurious CAS failure) are a special case. -/
theorem run_is_reach (s : List Nat) :
    (Conf.start a0 q0 L progs).run s = reach a0 q0 L progs (s.map (fun t => (t, false))) :=
  run_eq_runW s _

/-! ### Non-vacuity -/

/-- Initial history: three entities, two deleted at once (free list `[0, 1]`), one created through
    shared access (pops index 1, `raised = {1}`), one deferred deletion (`killed = {2}`); nothing
    merged yet. -/
def demoOps : List EOp :=
  [.createNow false, .createNow false, .createNow false, .delBatch [0, 1], .createAtomic false,
   .delAtomic 2]

def demoStart : Conf :=
  Conf.start (EWorld.run demoOps).1.alloc [5] (EWorld.run demoOps).1.log.toList
    [[.create, .delete 3, .lazy 1], [.create, .lazy 7, .isAlive 4]]

/-- Two threads race for the single free index: both load `len = 1`, thread 0 wins the CAS, thread
    1's CAS fails, it retries with the observed `0`, falls through to `atomic_increment` and gets
    the fresh index 3. -/
def demoSched : List Nat := [0, 1, 0, 1, 1, 1, 0, 1, 1, 0, 0, 0, 0, 1, 0, 1]

example : (demoStart.run [0, 1, 0, 1]).threads.toList.map (·.pc) = [.popped 1, .dec 0] := by
  decide +kernel

example : (demoStart.run demoSched).trace.map (fun ev => (ev.tid, ev.res)) =
    [(1, .ent ⟨3, 1⟩), (0, .ent ⟨0, 2⟩), (0, .ok), (1, .unit), (0, .unit), (1, .bool true)] := by
  decide +kernel

example : (demoStart.run demoSched).quiescent = true ∧
    (demoStart.run demoSched).issued = [(0, 0), (1, 3)] ∧
    (demoStart.run demoSched).requested = [1] := by decide +kernel

/-- After the next maintain: alive = {2:1, 1:2} ∪ {0:2, 3:1} − {2:1 (pending before), 1:2}; the
    lazy actions ran once each, thread order kept. -/
example : (match (demoStart.run demoSched).maintain with
    | .ok (a, del, lazyLog) => (a.joinEntities, del, lazyLog)
    | _ => ([], [], [])) = ([⟨0, 2⟩, ⟨3, 1⟩], [⟨1, 2⟩, ⟨2, 1⟩], [5, 7, 1]) := by decide +kernel

/-- A spurious failure of `compare_exchange_weak` only costs a retry. -/
example : ((demoStart.runW [(0, false), (0, true), (0, false), (0, false), (0, false), (0, false)]).trace.map
    (·.res)) = [.ent ⟨0, 2⟩] := by decide +kernel

end SpecsModel.C10
