/-
  C13 — Restricted storages expose the same components without changing membership.
  Property theorems only (lemmas: Lemmas/Restrict.lean; reference semantics `Restrict.specItem`,
  `Restrict.specRJoin`, expected events `Restrict.itemEv`, `Restrict.rjoinEv`).

  Modelled code: /repo/src/storage/restrict.rs — `Storage::restrict` / `restrict_mut`, the
  `Join` / `LendJoin` impls of `&RestrictedStorage` / `&mut RestrictedStorage` (mask = the storage's
  bitset, `get(id)` builds a `PairedStorageRead` / `PairedStorageWriteExclusive` carrying `id`), and
  the item API `get`, `get_mut`, `get_other`, `get_other_mut`. Model: `World.rjoinLoop` and the
  `.rjoin` case of `World.step` (Model/World.lean); an action list says what the caller does with
  each visited item (`RAct`: skip / get / getMut derefs write / getOther @h / getOtherMut @h derefs
  write; on the read-only view the two mutable actions do not exist and are skipped).

  Quantifier: every world `w`, every storage kind `k` and every storage content — any `ms` with
  `ms.MRep m` for some partial map `m` (Lemmas/MaskedRep.lean; every storage of a reachable world
  is of this form: `WInv.good` in Lemmas/WorldInv.lean) —, `restrict()` and `restrict_mut()`
  (`mutable`), every action list (hence every subset of items fetched mutably, every number of
  mutable dereferences, written or not), every other-entity handle the log can resolve (live, dead,
  stale, without component: the theorems are stated for an arbitrary `e` and split on
  `isAlive e` / `m e.id`). Side condition `Restrict.actsOk`: values written are storable — it only
  restricts null-based kinds (the component type of a `NullStorage` has one value, `0`) and is
  discharged by `Restrict.actsOk_of_not_null` for all others (`*_nonNull` corollaries in Lemmas).

  Per-item theorems are stated at an arbitrary point of the join: loop state `(id :: ids, act :: rest,
  acc)`; `join_is_the_loop` says the join starts the loop at `(mask.toList, acts, [])`.

  Sequential `join` and `lend_join` of a restricted storage run the same `get(id)` over the same
  mask in ascending order (the lending form only adds that an item cannot outlive the next call,
  which is what allows `get_other_mut`); both are this loop. The PARALLEL variant (`par_join` of
  `&RestrictedStorage` / `&mut RestrictedStorage`, item types `PairedStorageRead` /
  `PairedStorageWriteShared`, which have no `get_other_mut`) is covered by C07: `par_join` delivers
  exactly the items of the sequential join, each once; the per-item statements below then apply to
  each delivered item.
-/
import SpecsModel.Lemmas.Restrict
import SpecsModel.Props.C03
namespace SpecsModel.C13
open SpecsModel SpecsModel.Restrict

/-- The restricted join is the per-item loop started on the ascending member list. -/
theorem join_is_the_loop (fuel : Nat) (w : World) (k : Nat) (mutable : Bool) (acts : List RAct)
    (ms : Masked) (hst : w.store? k = some ms) :
    World.step fuel w (.rjoin k mutable acts) =
      World.rjoinLoop w k mutable ms.mask.toList acts [] :=
  step_rjoin_eq fuel mutable acts hst

/-- The whole join against the reference semantics on plain maps: the delivered items are those of
    `specRJoin`, the storage afterwards represents the map `specRJoin` ends with, its mask is
    unchanged, its channel grew by the gated `rjoinEv`, and every other storage, the entities, meta
    table, lazy queue, reader cursors, tag counter, ledger and trace are unchanged
    (`Restrict.Outcome`, `Restrict.Frame`). The result is `.items`: no panic, no UB. -/
theorem join_refines_reference (fuel : Nat) (w : World) (k : Nat) (mutable : Bool)
    (acts : List RAct) (ms : Masked) (m : Nat → Option Int)
    (hst : w.store? k = some ms) (hrep : ms.MRep m) (hok : actsOk ms.inner acts) :
    ∃ w' ms',
      World.step fuel w (.rjoin k mutable acts) =
        (w', .items (specRJoin w.ent.alloc.isAlive w.ent.log mutable m ms.mask.toList acts).1) ∧
      Outcome k w ms w' ms'
        (specRJoin w.ent.alloc.isAlive w.ent.log mutable m ms.mask.toList acts).2
        (rjoinEv (Ev.wrap ms.inner) w.ent.alloc.isAlive w.ent.log mutable
          (fun i => ms.mask.mem i) ms.mask.toList acts) :=
  step_rjoin_refines fuel mutable acts hst hrep hok

/-- Any single item, any action, at any point of the join: the loop continues with the reference
    result for that item, in a world whose storage `k` represents the reference map, has the same
    mask and kind (so the hypotheses hold again for the next item), the channel having grown by the
    gated `itemEv`; the rest of the world is untouched. The per-item theorems below spell this out
    action by action. -/
theorem every_item_follows_reference (w : World) (k : Nat) (mutable : Bool) (ms : Masked)
    (m : Nat → Option Int) (hst : w.store? k = some ms) (hrep : ms.MRep m)
    (id : Nat) (hmem : ms.mask.mem id = true) (act : RAct)
    (hw : mutable = true → ∀ x, act.write? = some x → ms.inner.valOk x)
    (ids : List Nat) (rest : List RAct) (acc : List (Nat × ItemRes)) :
    ∃ w1 ms1,
      World.rjoinLoop w k mutable (id :: ids) (act :: rest) acc =
        World.rjoinLoop w1 k mutable ids rest
          ((id, (specItem w.ent.alloc.isAlive w.ent.log mutable m id act).1) :: acc) ∧
      Outcome k w ms w1 ms1 (specItem w.ent.alloc.isAlive w.ent.log mutable m id act).2
        (itemEv (Ev.wrap ms.inner) w.ent.alloc.isAlive w.ent.log mutable
          (fun i => ms.mask.mem i) id act) := by
  obtain ⟨w1, ms1, hloop, o⟩ := rjoin_item mutable hst hrep hmem act hw
  exact ⟨w1, ms1, hloop ids (act :: rest) acc rfl, o⟩

/-- Joining a restricted view visits exactly the storage's members: the indices of the delivered
    items are `mask.toList` — strictly ascending, hence each once, and an index is visited iff the
    storage holds a component for it — whatever the caller does with the items. -/
theorem visits_exactly_the_members (fuel : Nat) (w : World) (k : Nat) (mutable : Bool)
    (acts : List RAct) (ms : Masked) (m : Nat → Option Int)
    (hst : w.store? k = some ms) (hrep : ms.MRep m) (hok : actsOk ms.inner acts) :
    ∃ w' items, World.step fuel w (.rjoin k mutable acts) = (w', .items items) ∧
      items.map (·.1) = ms.mask.toList ∧
      (items.map (·.1)).Pairwise (· < ·) ∧ (items.map (·.1)).Nodup ∧
      (∀ i, i ∈ items.map (·.1) ↔ (m i).isSome = true) := by
  obtain ⟨w', ms', h, -⟩ := step_rjoin_refines fuel mutable acts hst hrep hok
  refine ⟨w', _, h, specRJoin_ids _ _ _ _ _ _, ?_, ?_, fun i => ?_⟩
  · rw [specRJoin_ids]; exact ms.mask.toList_sorted
  · rw [specRJoin_ids]; exact ms.mask.toList_nodup
  · rw [specRJoin_ids]; exact Masked.mask_toList_keys hrep i

/-- `item.get()` returns the same value as a direct lookup: at any point of the join, the item for
    member `id` reads the map's value at `id`, which is what `Storage::get` returns for every live
    handle of that index (e.g. for `⟨id, 1⟩` in the initial allocator); the world is unchanged and
    the join goes on. -/
theorem read_equals_direct_lookup (w : World) (k : Nat) (mutable : Bool) (ms : Masked)
    (m : Nat → Option Int) (hst : w.store? k = some ms) (hrep : ms.MRep m)
    (id : Nat) (hmem : ms.mask.mem id = true)
    (ids : List Nat) (rest : List RAct) (acc : List (Nat × ItemRes)) :
    ∃ v, m id = some v ∧
      (∀ (a : Alloc) (e : Entity), e.id = id → a.isAlive e = true → ms.get a e = .ok (some v)) ∧
      ms.get Alloc.init ⟨id, 1⟩ = .ok (some v) ∧
      World.rjoinLoop w k mutable (id :: ids) (.get :: rest) acc =
        World.rjoinLoop w k mutable ids rest ((id, .val v) :: acc) := by
  obtain ⟨v, hv⟩ : ∃ v, m id = some v :=
    Option.isSome_iff_exists.mp (by rw [← hrep.1 id]; exact hmem)
  have hdirect : ∀ (a : Alloc) (e : Entity), e.id = id → a.isAlive e = true →
      ms.get a e = .ok (some v) := by
    intro a e he hal
    rw [Masked.get_ref hrep, hal, he, hv]; rfl
  refine ⟨v, hv, hdirect, hdirect _ _ rfl
    (by simp [Alloc.isAlive, Alloc.curGen, Alloc.genAt, Alloc.init]), ?_⟩
  simp only [World.rjoinLoop, hst, List.head?_cons, Option.getD_some, List.tail_cons,
    UStore.get_ok hrep.2 hv]

/-- `item.get_mut()` then a write changes only that entity's component: the item hands out the old
    value, afterwards the storage represents `upd m id (some x)` — every other key keeps its value —
    with the same mask, and every other storage and every other part of the world is unchanged. -/
theorem write_changes_only_that_entity (w : World) (k : Nat) (ms : Masked)
    (m : Nat → Option Int) (hst : w.store? k = some ms) (hrep : ms.MRep m)
    (id : Nat) (hmem : ms.mask.mem id = true) (d : Nat) (x : Int) (hx : ms.inner.valOk x)
    (ids : List Nat) (rest : List RAct) (acc : List (Nat × ItemRes)) :
    ∃ old w1 ms1, m id = some old ∧
      World.rjoinLoop w k true (id :: ids) (.getMut d (some x) :: rest) acc =
        World.rjoinLoop w1 k true ids rest ((id, .val old) :: acc) ∧
      w1.store? k = some ms1 ∧ ms1.MRep (upd m id (some x)) ∧
      (∀ j, j ≠ id → upd m id (some x) j = m j) ∧ ms1.mask = ms.mask ∧
      (∀ k', k' ≠ k → w1.store? k' = w.store? k') ∧ Frame k w w1 := by
  obtain ⟨old, hv⟩ : ∃ v, m id = some v :=
    Option.isSome_iff_exists.mp (by rw [← hrep.1 id]; exact hmem)
  obtain ⟨w1, ms1, hloop, o⟩ := rjoin_item true hst hrep hmem (.getMut d (some x))
    (fun _ y hy => by simp only [RAct.write?, Option.some.injEq] at hy; subst hy; exact hx)
  have hrep1 := o.rep
  simp only [specItem, if_true, hv, PMap.write_some _ _ _ _ hv] at hrep1
  refine ⟨old, w1, ms1, hv, ?_, o.store, hrep1, fun j hj => upd_ne _ _ hj, o.mask, o.frame.others,
    o.frame⟩
  have := hloop ids (.getMut d (some x) :: rest) acc rfl
  simpa [specItem, hv] using this

/-- Looking up another entity through an item follows the storage's own rule. `get_other(e)` is
    `Storage::get(e)` (world untouched); `get_other_mut(e)` is `Storage::get_mut(e)` followed by the
    same dereferences / write, the world continuing with exactly that call's resulting storage.
    Hence (C03) a dead or stale handle reads as absent and changes nothing at all, a live handle
    without component reads as absent, and a live member reads — and, for `get_other_mut`, can
    write — its own component only; the mask never changes. -/
theorem other_entity_lookup_follows_storage_rule (w : World) (k : Nat) (mutable : Bool)
    (ms : Masked) (m : Nat → Option Int) (hst : w.store? k = some ms) (hrep : ms.MRep m)
    (id h : Nat) (e : Entity) (hres : resolve w.ent.log h = some e)
    (ids : List Nat) (rest : List RAct) (acc : List (Nat × ItemRes)) :
    (∃ r, ms.get w.ent.alloc e = .ok r ∧
      r = (if w.ent.alloc.isAlive e then m e.id else none) ∧
      World.rjoinLoop w k mutable (id :: ids) (.getOther h :: rest) acc =
        World.rjoinLoop w k mutable ids rest ((id, .opt r) :: acc)) ∧
    (∀ (d : Nat) (wr : Option Int), (∀ x, wr = some x → ms.inner.valOk x) →
      ∃ r, ms.getMut w.ent.alloc e d wr = .ok r ∧
        World.rjoinLoop w k true (id :: ids) (.getOtherMut h d wr :: rest) acc =
          World.rjoinLoop (w.setStore k r.st) k true ids rest ((id, .opt r.val) :: acc) ∧
        r.val = (if w.ent.alloc.isAlive e then m e.id else none) ∧
        r.st.MRep (if w.ent.alloc.isAlive e then PMap.write m e.id wr else m) ∧
        r.st.mask = ms.mask ∧ Frame k w (w.setStore k r.st)) ∧
    (w.ent.alloc.isAlive e = false →
      ms.getOther w.ent.alloc e = .ok none ∧
      ∀ d wr, ∃ r, ms.getMut w.ent.alloc e d wr = .ok r ∧ r.st = ms ∧ r.val = none) := by
  refine ⟨?_, ?_, ?_⟩
  · refine ⟨_, Masked.get_ref hrep _ e, rfl, ?_⟩
    have hg : ms.getOther w.ent.alloc e =
        .ok (if w.ent.alloc.isAlive e then m e.id else none) := Masked.get_ref hrep _ e
    simp only [World.rjoinLoop, hst, List.head?_cons, Option.getD_some, List.tail_cons, hres, hg]
  · intro d wr hw
    obtain ⟨r, hr, hval, -, hrep', -⟩ := Masked.getMut_ref hrep w.ent.alloc e d wr hw
    refine ⟨r, hr, ?_, hval, hrep', Masked.getMut_mask hr, frame_setStore hst _⟩
    simp [World.rjoinLoop, hst, hres, hr]
  · intro hdead
    refine ⟨C03.getOther_dead ms _ e hdead, fun d wr => ?_⟩
    obtain ⟨r, h1, h2, h3, -⟩ := C03.getMut_dead ms _ e hdead d wr
    exact ⟨r, h1, h2, h3⟩

/-- Membership never changes: after any restricted join (any actions, including writes through
    `get_mut` / `get_other_mut`) the storage's mask is literally the one before, and the represented
    map has the same key set. -/
theorem membership_never_changes (fuel : Nat) (w : World) (k : Nat) (mutable : Bool)
    (acts : List RAct) (ms : Masked) (m : Nat → Option Int)
    (hst : w.store? k = some ms) (hrep : ms.MRep m) (hok : actsOk ms.inner acts) :
    ∃ ms' m', (World.step fuel w (.rjoin k mutable acts)).1.store? k = some ms' ∧
      ms'.mask = ms.mask ∧ ms'.MRep m' ∧ (∀ j, (m' j).isSome = (m j).isSome) ∧
      (∀ k', k' ≠ k →
        (World.step fuel w (.rjoin k mutable acts)).1.store? k' = w.store? k') := by
  obtain ⟨w', ms', h, o⟩ := step_rjoin_refines fuel mutable acts hst hrep hok
  rw [h]
  exact ⟨ms', _, o.store, o.mask, o.rep, specRJoin_keys _ _ _ _ _ _, o.frame.others⟩

/-- The read-only view and read-only use leave the components alone: joining `restrict()`, or
    joining `restrict_mut()` while only calling `get` / `get_other`, ends in a storage that
    represents the same map. -/
theorem reads_change_nothing (fuel : Nat) (w : World) (k : Nat) (mutable : Bool)
    (acts : List RAct) (ms : Masked) (m : Nat → Option Int)
    (hst : w.store? k = some ms) (hrep : ms.MRep m)
    (hro : mutable = false ∨ ∀ a ∈ acts, a.isRead = true) :
    ∃ ms', (World.step fuel w (.rjoin k mutable acts)).1.store? k = some ms' ∧
      ms'.mask = ms.mask ∧ ms'.MRep m ∧ Ev.evl ms'.inner = Ev.evl ms.inner := by
  have hok : mutable = true → actsOk ms.inner acts := by
    rcases hro with rfl | hr
    · intro h; cases h
    · exact fun _ => actsOk_of_reads _ hr
  obtain ⟨w', ms', h, o⟩ := step_rjoin_refines_gen fuel mutable acts hst hrep hok
  rw [h]
  have hm : (specRJoin w.ent.alloc.isAlive w.ent.log mutable m ms.mask.toList acts).2 = m := by
    rcases hro with rfl | hr
    · exact specRJoin_immutable _ _ _ _ _
    · exact specRJoin_reads _ _ _ _ _ _ hr
  have hx : rjoinEv (Ev.wrap ms.inner) w.ent.alloc.isAlive w.ent.log mutable
      (fun i => ms.mask.mem i) ms.mask.toList acts = [] := by
    rcases hro with rfl | hr
    · exact rjoinEv_immutable _ _ _ _ _ _
    · exact rjoinEv_reads _ _ _ _ _ _ _ hr
  refine ⟨ms', o.store, o.mask, hm ▸ o.rep, ?_⟩
  rw [o.app.evl_eq, hx]; simp

/-- What `rjoinEv` is, item by item: nothing for `skip`, `get`, `get_other`, for any action on the
    read-only view, for a `get_other_mut` that misses (unresolvable slot, dead / stale handle, no
    component); `Ev.modEv` at the item's index for `get_mut`, at the other entity's index for a
    `get_other_mut` that hits a live member — i.e. one `Modified` at the call on a `FlaggedStorage`,
    one per mutable dereference on a `DerefFlaggedStorage` (none if the access is only read). -/
theorem expected_events_per_item (wr : Ev.Wrap) (alive : Entity → Bool) (log : Array Entity)
    (mem : Nat → Bool) (id : Nat) :
    (∀ mutable, itemEv wr alive log mutable mem id .skip = []) ∧
    (∀ mutable, itemEv wr alive log mutable mem id .get = []) ∧
    (∀ mutable h, itemEv wr alive log mutable mem id (.getOther h) = []) ∧
    (∀ act, itemEv wr alive log false mem id act = []) ∧
    (∀ d x, itemEv wr alive log true mem id (.getMut d x) = Ev.modEv wr id d) ∧
    (∀ h d x, resolve log h = none → itemEv wr alive log true mem id (.getOtherMut h d x) = []) ∧
    (∀ h d x e, resolve log h = some e →
      itemEv wr alive log true mem id (.getOtherMut h d x) =
        if mem e.id && alive e then Ev.modEv wr e.id d else []) ∧
    (∀ mutable ids acts, rjoinEv wr alive log mutable mem (id :: ids) acts =
      itemEv wr alive log mutable mem id (acts.head?.getD .skip) ++
        rjoinEv wr alive log mutable mem ids acts.tail) ∧
    (∀ i d, Ev.modEv .flagged i d = [.modified i]) ∧
    (∀ i d, Ev.modEv .deref i d = List.replicate d (.modified i)) := by
  refine ⟨fun _ => rfl, fun _ => rfl, fun _ _ => rfl, itemEv_immutable _ _ _ _ _, fun _ _ => rfl,
    ?_, ?_, fun _ _ _ => rfl, fun _ _ => rfl, fun _ _ => rfl⟩
  · intro h d x hr; simp [itemEv, hr]
  · intro h d x e hr; simp [itemEv, hr]

/-- On a change-tracking storage a modification event is emitted only for the items that were
    actually fetched mutably: the channel after the join is the channel before followed by exactly
    `rjoinEv` (see `expected_events_per_item`), in visiting order, if emission is on, and by nothing
    if it is off; kind and emission flag are unchanged. In particular the join itself (`skip`),
    `get`, `get_other` and the whole read-only view emit nothing. -/
theorem modification_events_only_for_mutable_fetches (fuel : Nat) (w : World) (k : Nat)
    (mutable : Bool) (acts : List RAct) (ms : Masked) (m : Nat → Option Int) (ev : Array CEv)
    (hst : w.store? k = some ms) (hrep : ms.MRep m) (hok : actsOk ms.inner acts)
    (htr : ms.inner.events = some ev) :
    ∃ ms', (World.step fuel w (.rjoin k mutable acts)).1.store? k = some ms' ∧
      ms'.inner.events = some (ev ++
        (if Ev.emitOn ms.inner then
          rjoinEv (Ev.wrap ms.inner) w.ent.alloc.isAlive w.ent.log mutable
            (fun i => ms.mask.mem i) ms.mask.toList acts
         else []).toArray) ∧
      Ev.emitOn ms'.inner = Ev.emitOn ms.inner ∧ Ev.wrap ms'.inner = Ev.wrap ms.inner ∧
      ((mutable = false ∨ ∀ a ∈ acts, a.isRead = true) → ms'.inner.events = some ev) := by
  obtain ⟨w', ms', h, o⟩ := step_rjoin_refines fuel mutable acts hst hrep hok
  rw [h]
  have hev := o.events_some htr
  refine ⟨ms', o.store, hev, o.app.emit_eq, o.app.wrap_eq, fun hro => ?_⟩
  have hx : rjoinEv (Ev.wrap ms.inner) w.ent.alloc.isAlive w.ent.log mutable
      (fun i => ms.mask.mem i) ms.mask.toList acts = [] := by
    rcases hro with rfl | hr
    · exact rjoinEv_immutable _ _ _ _ _ _
    · exact rjoinEv_reads _ _ _ _ _ _ _ hr
  rw [hev, hx]; simp

/-- Untracked storage kinds have no channel before or after. -/
theorem untracked_kinds_stay_untracked (fuel : Nat) (w : World) (k : Nat)
    (mutable : Bool) (acts : List RAct) (ms : Masked) (m : Nat → Option Int)
    (hst : w.store? k = some ms) (hrep : ms.MRep m) (hok : actsOk ms.inner acts)
    (htr : ms.inner.events = none) :
    ∃ ms', (World.step fuel w (.rjoin k mutable acts)).1.store? k = some ms' ∧
      ms'.inner.events = none := by
  obtain ⟨w', ms', h, o⟩ := step_rjoin_refines fuel mutable acts hst hrep hok
  rw [h]
  exact ⟨ms', o.store, o.events_none htr⟩

/-! ## Non-vacuity -/

/-- Glue: run a script from the empty world, collect the results. -/
def runOps (ops : List WOp) : List WRes :=
  (ops.foldl (fun (st : World × List WRes) op =>
    let (w', r) := World.step 100 st.1 op; (w', st.2 ++ [r])) ({}, [])).2

/-- A flagged dense storage (kind 7) with three members. `restrict_mut` join: skip item 0, read
    item 1, fetch item 2 mutably and write 99 — all three members are visited, the reader sees
    exactly `Modified 2`. Then a `restrict` join: reads see 10 / (no `get_mut` on the read-only
    item) / 99, and nothing is emitted. -/
example :
    runOps [.reg 7 0, .createWith false false [(7, 10)], .createWith false false [(7, 11)],
      .createWith false false [(7, 12)], .events 7,
      .rjoin 7 true [.skip, .get, .getMut 1 (some 99)], .events 7,
      .rjoin 7 false [.get, .getMut 1 (some 5), .get], .events 7, .mask 7]
    = [.unit, .e (.ent ⟨0, 1⟩), .e (.ent ⟨1, 1⟩), .e (.ent ⟨2, 1⟩),
       .events [.inserted 0, .inserted 1, .inserted 2],
       .items [(0, .skip), (1, .val 11), (2, .val 12)], .events [.modified 2],
       .items [(0, .val 10), (1, .skip), (2, .val 99)], .events [], .ids [0, 1, 2]] := by
  decide +kernel

/-- A derefFlagged dense storage (kind 10): a mutable fetch never dereferenced mutably emits
    nothing, one dereferenced twice emits two events, `get_other_mut` of the live member 0 from
    item 2 emits at index 0 — in visiting order. -/
example :
    runOps [.reg 10 0, .createWith false false [(10, 10)], .createWith false false [(10, 11)],
      .createWith false false [(10, 12)], .events 10,
      .rjoin 10 true [.getMut 0 none, .getMut 2 (some 7), .getOtherMut 0 1 none], .events 10]
    = [.unit, .e (.ent ⟨0, 1⟩), .e (.ent ⟨1, 1⟩), .e (.ent ⟨2, 1⟩),
       .events [.inserted 0, .inserted 1, .inserted 2],
       .items [(0, .val 10), (1, .val 11), (2, .opt (some 10))],
       .events [.modified 1, .modified 1, .modified 0]] := by
  decide +kernel

/-- Other-entity lookups: `@0 = 0:1` is stale (deleted, index reused un-merged by `@1 = 0:2`, which
    holds 8), `@2 = 1:1` is alive without component. The stale and the component-less handle read
    as absent through `get_other`; `get_other_mut` through the stale handle returns nothing and
    writes nothing (the occupant still holds 8), through the live handle it writes. -/
example :
    runOps [.reg 1 0, .createWith false false [(1, 7)], .ent (.delNow 0),
      .createWith true false [(1, 8)], .createWith false false [],
      .rjoin 1 true [.getOther 0], .rjoin 1 true [.getOther 1], .rjoin 1 true [.getOther 2],
      .rjoin 1 true [.getOtherMut 0 1 (some 5)], .rjoin 1 true [.get],
      .rjoin 1 true [.getOtherMut 1 1 (some 5)], .rjoin 1 true [.get]]
    = [.unit, .e (.ent ⟨0, 1⟩), .e (.kill .ok), .e (.ent ⟨0, 2⟩), .e (.ent ⟨1, 1⟩),
       .items [(0, .opt none)], .items [(0, .opt (some 8))], .items [(0, .opt none)],
       .items [(0, .opt none)], .items [(0, .val 8)],
       .items [(0, .opt (some 8))], .items [(0, .val 5)]] := by
  decide +kernel

/-- The hypotheses of the theorems are satisfiable by that very storage: the flagged dense storage
    with members 0, 1, 2 represents the map `0 ↦ 10, 1 ↦ 11, 2 ↦ 12`. -/
example :
    Masked.MRep ⟨((BSet.empty.add 0).add 1).add 2,
        .flagged (.dense #[10, 11, 12] #[0, 1, 2] #[some 0, some 1, some 2]) #[] true⟩
      (fun i => if i = 0 then some 10 else if i = 1 then some 11 else if i = 2 then some 12 else none) := by
  refine ⟨fun i => ?_, rfl, fun i v h => ?_, fun k i h => ?_⟩
  · simp only [BSet.mem_add]
    by_cases h0 : i = 0 <;> by_cases h1 : i = 1 <;> by_cases h2 : i = 2 <;> simp_all
  · by_cases h0 : i = 0
    · subst h0; simp at h; subst h; exact ⟨0, by simp⟩
    · by_cases h1 : i = 1
      · subst h1; simp at h; subst h; exact ⟨1, by simp⟩
      · by_cases h2 : i = 2
        · subst h2; simp at h; subst h; exact ⟨2, by simp⟩
        · simp [h0, h1, h2] at h
  · match k, h with
    | 0, h => simp at h; subst h; simp
    | 1, h => simp at h; subst h; simp
    | 2, h => simp at h; subst h; simp
    | k + 3, h => simp at h

end SpecsModel.C13
