/-
  C05 — Deleting an entity purges its components everywhere; a reused index starts empty.
  Property theorems only (helpers: Lemmas/WorldInv.lean, Lemmas/WorldInvStep.lean).

  Quantifier: every history `ops : List WOp` — creations by every path, component insertions by
  every API path and by builders / lazy builders, immediate, batch (failing and repeating),
  deferred deletions, delete_all, maintain with arbitrarily nested lazily executed scripts,
  registration of any of the twelve storage kinds by any path at any time — and every fuel.
-/
import SpecsModel.Lemmas.WorldInvStep
import SpecsModel.Props.C04
namespace SpecsModel.C05
open SpecsModel Alloc World

/-- The world after running `ops` from the empty world. -/
def after (fuel : Nat) (ops : List WOp) : World := ops.foldl (fun w op => (step fuel w op).1) {}

/-- **Invariant.** Every reachable world satisfies `WInv`: the allocator is coupled to the abstract
    entity timeline, every storage is well formed (so no operation panics or reads a stale slot),
    every storage is in the meta table (so `delete_components` reaches it), and a component exists
    only at an index occupied by a not-dead entity. -/
theorem reachable_invariant (fuel : Nat) (ops : List WOp) : WInv (after fuel ops) :=
  inv_run fuel ops {} inv_init

/-- **Components exist only for entities that are not dead**: in every reachable world, a set bit
    in any storage's mask is the index of an entity that is alive or awaiting maintain. -/
theorem components_only_at_occupied (fuel : Nat) (ops : List WOp) (k i : Nat) (ms : Masked)
    (hk : (after fuel ops).store? k = some ms) (hi : ms.mask.mem i = true) :
    (after fuel ops).ent.alloc.occ i = true :=
  ((reachable_invariant fuel ops).owned k ms hk i hi).resolve_right (fun h => h)

/-- Every storage known to the world — registered explicitly, with an explicit storage, or by
    `SystemData::setup` — is in the meta table that `delete_components` walks. -/
theorem every_storage_in_table (fuel : Nat) (ops : List WOp) (k : Nat) (ms : Masked)
    (hk : (after fuel ops).store? k = some ms) : k ∈ (after fuel ops).table :=
  (reachable_invariant fuel ops).inTable k ms hk

/-- The handles a batch deletion with result `r` has killed: all of them, or the prefix before the
    failing position. -/
def purged (es : List Entity) : KillRes → List Entity
  | .ok => es
  | .err pos => es.take pos

/-- **Immediate / batch deletion purges everywhere.** After `delete_entities(es)` on a reachable
    world — whatever its result, including a failure part-way — no storage holds a component at
    the index of any handle that was killed (the whole batch, or exactly the prefix before the
    failing position). -/
theorem deletion_purges_everywhere (w : World) (h : WInv w) (es : List Entity)
    (hes : ∀ e, e ∈ es → e ∈ w.ent.log.toList) :
    ∃ r, (w.deleteEntities es).2 = .e (.kill r) ∧
      ∀ e, e ∈ purged es r →
        ∀ k ms, (w.deleteEntities es).1.store? k = some ms → ms.mask.mem e.id = false := by
  obtain ⟨s, hs⟩ := h.ent
  have hseen : ∀ e, e ∈ es → e ∈ s.seen := fun e he => hs.logSeen e (hes e he)
  obtain ⟨hinv, r, hr⟩ := inv_deleteEntities h es (fun s' hs' e he => hs'.logSeen e (hes e he))
  obtain ⟨a', r', hk, hocc⟩ := kill_occ hs.r es hseen
  refine ⟨r, hr, ?_⟩
  intro e he k ms hk'
  -- the allocator of the result is `a'`
  have halloc : (w.deleteEntities es).1.ent.alloc = a' ∧ r = r' := by
    have hfr : ∀ (w1 w2 : World) es' ks, w1.deleteComponents es' ks = .ok w2 → w2.ent = w1.ent :=
      fun w1 w2 es' ks h' => (LazyQ.deleteComponents_frame es' ks w1 w2 h').ent
    simp only [deleteEntities, hk] at hr ⊢
    split at hr
    · next w' hdel => simp only at hr; cases hr; exact ⟨by rw [hfr _ _ _ _ hdel], rfl⟩
    · cases hr
    · cases hr
  cases hm : ms.mask.mem e.id with
  | false => rfl
  | true =>
    exfalso
    have hoc := (hinv.owned k ms hk' e.id hm).resolve_right (fun h => h)
    rw [halloc.1, hocc e.id] at hoc
    have hin : (killedIds es 0 r').contains e.id = true := by
      rw [← halloc.2]
      cases r with
      | ok => simp only [killedIds, List.contains_eq_mem, List.mem_map, decide_eq_true_eq]; exact ⟨e, he, rfl⟩
      | err pos =>
        simp only [killedIds, Nat.sub_zero, List.contains_eq_mem, List.mem_map, decide_eq_true_eq]
        exact ⟨e, he, rfl⟩
    rw [hin] at hoc
    simp at hoc

/-- **Deferred deletion purges at maintain, before any queued action runs.** In the world on which
    `maintain` starts the lazy queue, no storage holds a component at an index whose deletion had
    been requested. -/
theorem maintain_purges_before_queue (w : World) (h : WInv w) :
    ∃ w2, WInv w2 ∧
      (∀ fuel, maintain (fuel + 1) w = ((runQueue fuel w2 []).1, .acts (runQueue fuel w2 []).2)) ∧
      ∀ i, w.ent.alloc.killed.mem i = true → ∀ k ms, w2.store? k = some ms → ms.mask.mem i = false := by
  obtain ⟨w2, hinv2, hrun, _, hocc, _, _⟩ := inv_maintain_pre h
  refine ⟨w2, hinv2, hrun, ?_⟩
  intro i hi k ms hk
  cases hm : ms.mask.mem i with
  | false => rfl
  | true =>
    have := (hinv2.owned k ms hk i hm).resolve_right (fun h => h)
    rw [hocc i, hi] at this
    simp at this

/-- **A new entity starts empty**, also when it reuses a dead entity's index, merged or not: the
    index handed out by any creation was unoccupied, hence carried no component in any storage, and
    a creation without builder components does not touch the storages. -/
theorem new_entity_starts_empty (fuel : Nat) (w : World) (h : WInv w) (atomic dropped : Bool) (e : Entity)
    (hres : (step fuel w (.createWith atomic dropped [])).2 = .e (.ent e)) :
    ∀ k ms, (step fuel w (.createWith atomic dropped [])).1.store? k = some ms → ms.mask.mem e.id = false := by
  obtain ⟨s, hs⟩ := h.ent
  -- the storages are untouched by the creation
  have hstores : ∀ k, (step fuel w (.createWith atomic dropped [])).1.store? k = w.store? k := by
    intro k
    simp only [step, createWith, List.any_nil, Bool.false_eq_true, if_false, buildComps]
    cases hx : (if atomic = true then w.ent.createAtomic false else w.ent.createNow false) with
    | mk ew r =>
      cases r with
      | ent e' =>
        cases dropped with
        | false => rfl
        | true =>
          simp only [if_true]
          cases hk : ew.alloc.killAtomic e' with
          | ok p => obtain ⟨a, ok⟩ := p; cases ok <;> rfl
          | panic why => rfl
          | ub why => rfl
      | _ => rfl
  -- the returned index was unoccupied before
  have hunocc : w.ent.alloc.occ e.id = false := by
    have hcre : ∃ a' e', (if atomic = true then w.ent.alloc.allocateAtomic else w.ent.alloc.allocate) = .ok (a', e') ∧
        w.ent.alloc.occ e'.id = false := by
      cases atomic
      · obtain ⟨a', e', h1, h2, _⟩ := allocate_occ hs.r.inv; exact ⟨a', e', h1, h2⟩
      · obtain ⟨a', e', h1, h2, _⟩ := allocateAtomic_occ hs.r.inv; exact ⟨a', e', h1, h2⟩
    obtain ⟨a', e', hce, hocc⟩ := hcre
    have : e = e' := by
      have hcreate : (if atomic = true then w.ent.createAtomic false else w.ent.createNow false) =
          (({ w.ent with alloc := a', log := w.ent.log.push e' } : EWorld), ERes.ent e') := by
        cases atomic
        · simp only [Bool.false_eq_true, if_false] at hce ⊢
          simp [EWorld.createNow, EWorld.outToRes, hce]
        · simp only [if_true] at hce ⊢
          simp [EWorld.createAtomic, EWorld.outToRes, hce]
      simp only [step, createWith, List.any_nil, Bool.false_eq_true, if_false, buildComps, hcreate] at hres
      cases dropped with
      | false => simp at hres; exact hres.symm
      | true =>
        simp only [if_true] at hres
        cases hk : a'.killAtomic e' with
        | ok p =>
          obtain ⟨a, ok⟩ := p
          cases ok <;> simp [hk] at hres
          exact hres.symm
        | panic why => simp [hk] at hres
        | ub why => simp [hk] at hres
    rw [this]; exact hocc
  intro k ms hk
  rw [hstores k] at hk
  cases hm : ms.mask.mem e.id with
  | false => rfl
  | true => have := (h.owned k ms hk e.id hm).resolve_right (fun h => h); rw [hunocc] at this; cases this

/-- **Every entity that is not being deleted keeps all of its components unchanged**: purging the
    entities `es` from a storage representing the map `m` leaves a storage representing `m` with
    exactly the keys of `es` erased — every other entry, value included, is untouched. -/
theorem untouched_entities_keep_components {ms : Masked} {m : Nat → Option Int} (h : ms.MRep m)
    (es : List Entity) :
    ∃ r, ms.dropAll es [] = .ok r ∧ r.st.MRep (PMap.eraseAll m (es.map (·.id))) ∧
      ∀ j, j ∉ es.map (·.id) → PMap.eraseAll m (es.map (·.id)) j = m j := by
  obtain ⟨r, h1, _, h3, _⟩ := Masked.dropAll_ref es h []
  exact ⟨r, h1, h3, fun j hj => by simp [PMap.eraseAll, hj]⟩

/-- Non-vacuity: a failing batch purges exactly the killed prefix, in a storage registered by
    `setup` as well as in one registered explicitly; the survivor keeps its components; the entity
    reusing index 0 starts empty in both. -/
example :
    let ops : List WOp := [.reg 1 0, .reg 6 2, .createWith false false [(1, 10), (6, 11)],
      .createWith false false [(1, 20), (6, 21)], .ent (.delBatch [0, 0, 1]), .mask 1, .mask 6,
      .get 1 1, .createWith true false [], .get 1 2, .get 6 2]
    (ops.foldl (fun (st : World × List WRes) op =>
      let (w', r) := World.step 100 st.1 op; (w', st.2 ++ [r])) ({}, [])).2
    = [.unit, .unit, .e (.ent ⟨0, 1⟩), .e (.ent ⟨1, 1⟩), .e (.kill (.err 1)), .ids [1], .ids [1],
       .opt (some 20), .e (.ent ⟨0, 2⟩), .opt none, .opt none] := by decide +kernel

end SpecsModel.C05
