/-
  C09 — Maintain applies deferred work exactly once, in order, after merging entities.
  Property theorems only; proofs are in Lemmas/LazyQueue.lean.

  Quantifier: every world `w` (the theorems about one `maintain` need no reachability at all),
  every queue content — lazy inserts, batch inserts, removes, scripts (closures) that may queue
  further scripts, create or delete entities, call `maintain` themselves or drop the world, lazy
  builders — and every list `ops` of top-level operations (any number of `maintain` calls) from
  the empty world for `exactly_once`.

  Ghost instrumentation (`LazyQ.stepG / runScriptG / runActG / runQueueG / maintainG`): a copy of
  the model's mutual block that additionally returns the list of queue events in the order they
  happen: `.pop t` when `LazyUpdate::maintain` pops the action tagged `t` (it is run at once, on the
  world without it), `.discard t` when `drop_world` destroys the still queued action `t`.
  `ghost_is_the_model` shows that the ghost computes exactly the model's world and result.

  "Enough fuel": `LazyQ.qsize w.queue + 4 ≤ fuel`, where `qsize` = Σ over queued actions of
  `1 + size of script` (`LazyQ.opSize`: 1 per op, 2 for a lazy insert/remove, `1 + #components` for a
  lazy builder, 4 for a nested `maintain`, `2 + size of the nested script` for `lazy.exec`).
  The driver runs with fuel 10^6. No theorem below is restricted to depth-1 scripts.

  "No panic": `maintain` in the model can only answer `.panic` if `Allocator::merge` or the
  component purge panics (unreachable under the allocator invariant C01 resp. the storage invariants
  C04/C05) or if the fuel is exhausted before the queue is reached; the hypotheses `hne` exclude the
  first two, `hf` the third.
-/
import SpecsModel.Lemmas.LazyQueue
namespace SpecsModel.C09
open SpecsModel LazyQ

/-- The ghost is the model: same world and same result for every operation, every fuel; and
    the script tags that `maintain` reports (`.acts`) are a sublist of the pops of its loop. -/
theorem ghost_is_the_model (f : Nat) (w : World) (op : WOp) :
    (stepG f w op).1 = World.step f w op ∧
    (∀ acc, (runQueueG f w acc).1 = World.runQueue f w acc ∧
      ∃ l, (World.runQueue f w acc).2 = acc.reverse ++ l ∧ l.Sublist (pops (runQueueG f w acc).2)) := by
  refine ⟨(ghost_agree f).1 w op, fun acc => ⟨(ghost_agree f).2.2.2.1 w acc, ?_⟩⟩
  rw [← (ghost_agree f).2.2.2.1 w acc]
  exact runQueueG_acts f w acc

/-- Each iteration pops the head of the queue; with enough fuel, the events of one `maintain` are
    exactly the tags queued at entry, in queue order, followed by the tags issued while it ran, in
    the order they were issued. -/
theorem runs_in_queue_order (f : Nat) (w : World) (hf : qsize w.queue + 4 ≤ f)
    (hne : ∀ why, (World.step f w (.ent .merge)).2 ≠ .panic why) :
    (∀ f' acc act rest, w.queue = act :: rest →
      ∃ tl, (runQueueG (f' + 1) w acc).2 = .pop act.tag :: tl) ∧
    ∃ n, (stepG f w (.ent .merge)).2.map GEv.tag = w.queue.map LazyAct.tag ++ List.range' w.nextTag n ∧
      (World.step f w (.ent .merge)).1.nextTag = w.nextTag + n := by
  refine ⟨fun f' acc act rest hq => ⟨_, by rw [runQueueG_cons f' w acc act rest hq]⟩, ?_⟩
  obtain ⟨-, hm, he⟩ := stepG_merge_fifo f w hf hne
  exact ⟨_, he, by omega⟩

/-- An action queued while `maintain` runs (tag `t` issued between entry and exit — merge and purge
    issue none, so it was queued by a running action) is handled in the SAME `maintain`, after every
    action that was queued at entry and after every action queued before it. -/
theorem queued_by_running_action_runs_later_same_maintain (f : Nat) (w : World)
    (hf : qsize w.queue + 4 ≤ f) (hne : ∀ why, (World.step f w (.ent .merge)).2 ≠ .panic why)
    (t : Nat) (h1 : w.nextTag ≤ t) (h2 : t < (World.step f w (.ent .merge)).1.nextTag) :
    ∃ pre post, (stepG f w (.ent .merge)).2.map GEv.tag = pre ++ t :: post ∧
      (∀ u ∈ w.queue.map LazyAct.tag, u ∈ pre) ∧ (∀ u, w.nextTag ≤ u → u < t → u ∈ pre) := by
  obtain ⟨-, hm, he⟩ := stepG_merge_fifo f w hf hne
  rw [range'_at _ _ t h1 h2, ← List.append_assoc] at he
  refine ⟨_, _, he, fun u hu => List.mem_append_left _ hu, fun u hu1 hu2 => List.mem_append_right _ ?_⟩
  exact List.mem_range'_1.mpr ⟨hu1, by omega⟩

/-- Exactly once, over any run from the empty world and any number of `maintain`s, for every fuel:
    the event tags are strictly increasing — no action is ever popped (or discarded) twice, within
    one `maintain` or across several — a handled tag is never queued again, and every tag issued so
    far is either still queued or was handled exactly once. -/
theorem exactly_once (f : Nat) (ops : List WOp) :
    (runG f {} ops).1 = ops.foldl (fun w op => (World.step f w op).1) {} ∧
    ((runG f {} ops).2.map GEv.tag).Pairwise (· < ·) ∧
    ((runG f {} ops).2.map GEv.tag).Nodup ∧
    (pops (runG f {} ops).2).Nodup ∧
    (∀ t ∈ (runG f {} ops).2.map GEv.tag, t ∉ (runG f {} ops).1.queue.map LazyAct.tag) ∧
    (runG f {} ops).2.map GEv.tag ++ (runG f {} ops).1.queue.map LazyAct.tag
      = List.range (runG f {} ops).1.nextTag := by
  have hc := cons_run f ops {}
  obtain ⟨-, hp, -, hlt, -⟩ := hc.inv QInv.empty
  have hnd : ((runG f {} ops).2.map GEv.tag).Nodup := hp.imp (fun h => Nat.ne_of_lt h)
  refine ⟨runG_world f ops {}, hp, hnd, hnd.sublist (pops_sublist _), ?_, ?_⟩
  · intro t ht hq
    exact Nat.lt_irrefl _ (hlt t ht t hq)
  · have := hc.eq
    simpa [tagsOf, List.range_eq_range'] using this

/-- Nothing queued is left over once `maintain` returns, and with that much fuel the result no
    longer depends on the fuel. -/
theorem nothing_left_over (f : Nat) (w : World) (hf : qsize w.queue + 4 ≤ f)
    (hne : ∀ why, (World.step f w (.ent .merge)).2 ≠ .panic why) :
    (World.step f w (.ent .merge)).1.queue = [] ∧
    ∀ f', f ≤ f' → World.step f' w (.ent .merge) = World.step f w (.ent .merge) :=
  ⟨(stepG_merge_fifo f w hf hne).1, ((fuel_all f).1 w (.ent .merge) (by simpa [opSize] using hf)).2⟩

/-- Every action queued before a `maintain` has been handled when it returns: after a run that ends
    with a (successful, sufficiently fuelled) `maintain`, the events of the whole history are the
    tags `0, 1, …, nextTag-1` — each exactly once, in the order in which the actions were queued. -/
theorem all_handled_after_maintain (f : Nat) (ops : List WOp)
    (hf : qsize (runG f {} ops).1.queue + 4 ≤ f)
    (hne : ∀ why, (World.step f (runG f {} ops).1 (.ent .merge)).2 ≠ .panic why) :
    (runG f {} (ops ++ [.ent .merge])).1.queue = [] ∧
    (runG f {} (ops ++ [.ent .merge])).2.map GEv.tag
      = List.range (runG f {} (ops ++ [.ent .merge])).1.nextTag := by
  have hq : (runG f {} (ops ++ [.ent .merge])).1.queue = [] := by
    rw [runG_append, runG_single]
    exact (nothing_left_over f _ hf hne).1
  have := (exactly_once f (ops ++ [.ent .merge])).2.2.2.2.2
  rw [hq] at this
  exact ⟨hq, by simpa using this⟩

/-- The same from any world satisfying the queue invariant (tags increasing and below `nextTag`),
    which every reachable world does (`LazyQ.qinv_run`). -/
theorem exactly_once_from (f : Nat) (w : World) (hi : QInv w) (ops : List WOp) :
    QInv (runG f w ops).1 ∧ ((runG f w ops).2.map GEv.tag).Nodup ∧
    (∀ t ∈ (runG f w ops).2.map GEv.tag, t ∉ (runG f w ops).1.queue.map LazyAct.tag) ∧
    (∀ t ∈ (runG f w ops).2.map GEv.tag, t ∈ w.queue.map LazyAct.tag ∨ w.nextTag ≤ t) := by
  obtain ⟨h0, hp, -, hlt, hfrom⟩ := (cons_run f ops w).inv hi
  exact ⟨h0, hp.imp (fun h => Nat.ne_of_lt h), fun t ht hq => Nat.lt_irrefl _ (hlt t ht t hq), hfrom⟩

/-- The queue starts running only on a world in which the merge has made deferred creations alive
    and deferred deletions effective (`raised` and `killed` empty, occupancy = old occupancy minus the
    kill requests) and the purge has removed the deleted entities' components from every registered
    storage; if the purge panics nothing is run at all. -/
theorem after_merge_and_purge (w : World) (hinv : Alloc.Inv w.ent.alloc) :
    ∃ a, w.ent.alloc.merge = .ok (a, w.ent.alloc.killed.toList.map (fun i => ⟨i, w.ent.alloc.top i⟩)) ∧
      (∀ j, a.raised.mem j = false) ∧ (∀ j, a.killed.mem j = false) ∧
      (∀ j, a.occ j = (w.ent.alloc.occ j && !w.ent.alloc.killed.mem j)) ∧
      ((∃ w2, w2.ent.alloc = a ∧ w2.ent.log = w.ent.log ∧ w2.queue = w.queue ∧ w2.nextTag = w.nextTag ∧
          (∀ k m, w.store? k = some m → ∃ m', w2.store? k = some m' ∧
            (∀ j, m'.mask.mem j = true → m.mask.mem j = true) ∧
            (k ∈ w.table → ∀ i, w.ent.alloc.killed.mem i = true → m'.mask.mem i = false)) ∧
          ∀ f, World.step (f + 2) w (.ent .merge) =
            ((World.runQueue f w2 []).1, .acts (World.runQueue f w2 []).2)) ∨
       (∃ w' why, w'.queue = w.queue ∧ ∀ f, World.step (f + 1) w (.ent .merge) = (w', .panic why))) :=
  maintain_after_merge w hinv

/-- A lazy insert (single, any item of a batch, or any component of a lazily built entity) whose
    target is dead at the moment it runs is skipped: the value is dropped and the world is otherwise
    literally unchanged — no entity, no storage, nothing else is touched. -/
theorem lazy_insert_dead_target_skipped (f : Nat) (w : World) (t k : Nat) (e : Entity) (v : Int)
    (hd : w.ent.alloc.isAlive e = false) :
    World.runAct f w (.ins t k e v) =
      (if (w.store? k).isSome then { w with ledger := v :: w.ledger } else w) ∧
    (∀ items, World.runAct f w (.insAll t k items) =
      items.foldl (fun w ev => World.runAct f w (.ins t k ev.1 ev.2)) w) ∧
    (∀ comps e', (World.step f w (.lazyCreate comps)).2 = .e (.ent e') →
      ∃ l, (World.step f w (.lazyCreate comps)).1.queue = w.queue ++ l ∧ l.length = comps.length ∧
        ∀ a ∈ l, ∃ t k v, a = .ins t k e' v ∧ (k, v) ∈ comps) := by
  refine ⟨runAct_ins_dead f w t k e v hd, runAct_insAll_eq f w t k, ?_⟩
  intro comps e' h
  obtain ⟨l, hl, h1, h2⟩ := step_lazyCreate_targets f w comps e' h
  exact ⟨l, hl.queue, h1, h2⟩

/-- A lazy insert whose target is alive at the moment it runs is exactly `Storage::insert` on its
    storage: accepted, the target's bit set, no other bit of the mask changed, and nothing outside
    storage `k` (and the ledger of destroyed values) changed. -/
theorem lazy_insert_live_target_applied (f : Nat) (w : World) (t k : Nat) (e : Entity) (v : Int)
    (m : Masked) (hm : w.store? k = some m) (ha : w.ent.alloc.isAlive e = true) :
    OnlyStore k w (World.runAct f w (.ins t k e v)) ∧
    ((∃ r, m.insert w.ent.alloc e v = .ok r ∧ r.val ≠ .wrongGen ∧
        World.runAct f w (.ins t k e v) =
          (w.setStore k r.st).destroy (r.destroyed ++ (match r.val with | .replaced old => [old] | _ => [])) ∧
        (World.runAct f w (.ins t k e v)).store? k = some r.st ∧
        r.st.mask.mem e.id = true ∧ (∀ i, i ≠ e.id → r.st.mask.mem i = m.mask.mem i)) ∨
     ((∀ r, m.insert w.ent.alloc e v ≠ .ok r) ∧ World.runAct f w (.ins t k e v) = w)) := by
  refine ⟨runAct_ins_only f w t k e v, ?_⟩
  rcases runAct_ins_spec f w t k e v m hm with ⟨r, h1, h2, h3⟩ | h
  · have := insert_alive ha h1
    exact .inl ⟨r, h1, this.2, h2, by rw [h2]; exact store?_setStore_self w k m r.st hm, this.1, h3⟩
  · exact .inr h

/-- A lazy remove acts on exactly its target: dead target — the world is literally unchanged;
    live target — exactly `Storage::remove`: the target's bit cleared, no other bit changed, nothing
    outside storage `k` (and the ledger) changed. -/
theorem lazy_remove_target_exact (f : Nat) (w : World) (t k : Nat) (e : Entity) :
    OnlyStore k w (World.runAct f w (.rem t k e)) ∧
    (w.ent.alloc.isAlive e = false → World.runAct f w (.rem t k e) = w) ∧
    (∀ m, w.store? k = some m → w.ent.alloc.isAlive e = true →
      (∃ r, m.remove w.ent.alloc e = .ok r ∧
        World.runAct f w (.rem t k e) = (w.setStore k r.st).destroy r.val.toList ∧
        (World.runAct f w (.rem t k e)).store? k = some r.st ∧
        r.st.mask.mem e.id = false ∧ (∀ i, i ≠ e.id → r.st.mask.mem i = m.mask.mem i)) ∨
      ((∀ r, m.remove w.ent.alloc e ≠ .ok r) ∧ World.runAct f w (.rem t k e) = w)) := by
  refine ⟨runAct_rem_only f w t k e, runAct_rem_dead f w t k e, ?_⟩
  intro m hm ha
  rcases runAct_rem_spec f w t k e m hm with ⟨r, h1, h2, h3⟩ | h
  · exact .inl ⟨r, h1, h2, by rw [h2]; exact store?_setStore_self w k m r.st hm, remove_alive ha h1, h3⟩
  · exact .inr h

/-! ### Non-vacuity -/

/-- A script (tag 0) that queues another script (tag 2), creates an entity and queues a lazy insert
    (tag 3), queued before a lazy insert (tag 1): one `maintain` pops 0,1,2,3 in this order, reports
    the scripts 0 and 2, and leaves the value of the last writer. -/
example :
    let ops : List WOp := [.reg 0 0, .ent (.createNow false),
      .lazyExec [.lazyExec [.ins 0 0 5], .ent (.createAtomic false), .lazyIns 0 0 7],
      .lazyIns 0 0 1, .ent .merge, .get 0 0, .ent .merge]
    (runG 50 {} ops).2 = [.pop 0, .pop 1, .pop 2, .pop 3] ∧
    (ops.foldl (fun (st : World × List WRes) op =>
      let (w', r) := World.step 50 st.1 op; (w', st.2 ++ [r])) ({}, [])).2
    = [.unit, .e (.ent ⟨0, 1⟩), .queued 0, .queued 1, .acts [0, 2], .opt (some 7), .acts []] ∧
    (runG 50 {} ops).1.queue.length = 0 ∧
    qsize ((runG 50 {} (ops.take 4)).1.queue) + 4 ≤ 50 := by decide +kernel

/-- A lazy insert whose target dies in the same frame is skipped (its value 5 is destroyed), while
    the one for the surviving entity is applied. -/
example :
    let ops : List WOp := [.reg 0 0, .ent (.createNow false), .ent (.createNow false),
      .lazyIns 0 0 5, .lazyIns 0 1 6, .ent (.delAtomic 0), .ent .merge, .get 0 0, .get 0 1, .mask 0]
    (runG 50 {} ops).2 = [.pop 0, .pop 1] ∧
    (ops.foldl (fun (st : World × List WRes) op =>
      let (w', r) := World.step 50 st.1 op; (w', st.2 ++ [r])) ({}, [])).2
    = [.unit, .e (.ent ⟨0, 1⟩), .e (.ent ⟨1, 1⟩), .queued 0, .queued 1, .e (.kill .ok), .acts [],
       .opt none, .opt (some 6), .ids [1]] ∧
    (runG 50 {} ops).1.ledger = [5] := by decide +kernel

/-- A script that calls `maintain` itself: the nested call pops what is queued behind it; the order
    is still the queue order and nothing runs twice. A `drop_world` discards what is queued. -/
example :
    (runG 50 {} [.reg 0 0, .ent (.createNow false), .lazyExec [.ent .merge, .lazyIns 0 0 3],
      .lazyIns 0 0 1, .ent .merge, .get 0 0]).2 = [.pop 0, .pop 1, .pop 2] ∧
    (runG 50 {} [.lazyExec [], .lazyExec [.dropWorld], .lazyExec [], .ent .merge]).2
      = [.pop 0, .pop 1, .discard 2] := by decide +kernel

end SpecsModel.C09
