/-
  C16 — A change set accumulates per entity and applies each sum exactly once.
  Property theorems only (helpers: ChangeSet/Lemmas.lean; model: ChangeSet/Model.lean).

  Quantifier: EVERY sequence of (index, amount) pairs `ps` — any repetition pattern, any indices,
  any amounts (amounts are integer sequences under concatenation, so arrival order is visible) —
  fed by `from_iter`, `extend`, single `add`s or any mixture (`build`), every other-members mask
  `M` it is joined with, every number `n` of items taken from a by-value join before it is dropped.

  The change set is keyed by the entity INDEX (`entity.id()`); the theorems are over indices.
  `per_entity_eq_per_index` states when "per entity" and "per index" coincide: whenever the handles
  of the pairs agree on generation if they agree on index (`GenConsistent`), which holds for any set
  of handles that are alive together (`alive_handles_consistent`). Outside that hypothesis two
  handles with one index and different generations accumulate into ONE slot
  (`same_index_other_generation_shares_slot`; observed on the real code, see evidence/C16.json).

  `acc ps i`      = flatten of the amounts of the pairs with index `i`, in arrival order
  `mentioned ps i`= some pair has index `i`
  `Holds cs m`    = dense structural invariant `DenseOf.Rep cs.inner m` (equal lengths, forward and
                    backward maps, option-valued indexing) ∧ `mask` is the domain of `m`.
-/
import SpecsModel.ChangeSet.Lemmas
namespace SpecsModel.C16
open SpecsModel SpecsModel.ChangeSet

/-! ### Glue: ways of feeding pairs, handle-level accumulation -/

/-- One feeding step after the initial `collect`. -/
inductive Step where
  | extend (ps : List (Nat × Amount))       -- `changeset.extend(iter)`
  | add (id : Nat) (v : Amount)             -- `changeset.add(entity, v)`

def Step.pairs : Step → List (Nat × Amount)
  | .extend ps => ps
  | .add id v => [(id, v)]

/-- All pairs of a sequence of steps, in arrival order. -/
def pairsOf (steps : List Step) : List (Nat × Amount) := steps.flatMap Step.pairs

def runSteps : ChangeSet → List Step → Out ChangeSet
  | cs, [] => .ok cs
  | cs, .extend ps :: rest =>
    (match cs.extend ps with
     | .ok c => runSteps c rest
     | .panic w => .panic w
     | .ub w => .ub w)
  | cs, .add id v :: rest =>
    (match cs.add id v with
     | .ok c => runSteps c rest
     | .panic w => .panic w
     | .ub w => .ub w)

/-- `ps0.collect::<ChangeSet<_>>()` followed by any mixture of `extend` and `add` calls. -/
def build (ps0 : List (Nat × Amount)) (steps : List Step) : Out ChangeSet :=
  match fromIter ps0 with
  | .ok cs => runSteps cs steps
  | .panic w => .panic w
  | .ub w => .ub w

/-- The handles agree on generation whenever they agree on index. -/
def GenConsistent (es : List (Entity × Amount)) : Prop :=
  ∀ p ∈ es, ∀ q ∈ es, p.1.id = q.1.id → p.1.gen = q.1.gen

/-- Per-ENTITY accumulation: the amounts given for the handle `e` itself, in arrival order. -/
def accE (es : List (Entity × Amount)) (e : Entity) : Amount :=
  ((es.filter (fun p => p.1 == e)).map (·.2)).flatten

/-! ### (a) no `add` ever panics or reads uninitialised memory; the invariant is preserved -/

/-- From ANY structurally sound set (whatever map it holds) an `add` succeeds and the result is
    sound again, holding the map with `v` appended at `id` (or `v` alone if `id` was absent). -/
theorem add_never_fails (cs : ChangeSet) (m : Nat → Option Amount) (h : Holds cs m)
    (id : Nat) (v : Amount) :
    ∃ cs', cs.add id v = .ok cs' ∧ Holds cs' (stepMap m (id, v)) :=
  add_ok h id v

/-- Every pair sequence, fed in any way, builds without panic/ub a sound set holding exactly the
    per-index accumulation. -/
theorem build_ok (ps0 : List (Nat × Amount)) (steps : List Step) :
    ∃ cs, build ps0 steps = .ok cs ∧ Holds cs (expected (ps0 ++ pairsOf steps)) := by
  obtain ⟨c0, h0, hh0⟩ := fromIter_ok ps0
  suffices h : ∀ (steps : List Step) (c : ChangeSet) (qs : List (Nat × Amount)),
      Holds c (expected qs) → ∃ cs, runSteps c steps = .ok cs ∧ Holds cs (expected (qs ++ pairsOf steps)) by
    obtain ⟨cs, h1, h2⟩ := h steps c0 ps0 hh0
    exact ⟨cs, by simp only [build, h0, h1], h2⟩
  intro steps
  induction steps with
  | nil => intro c qs hc; exact ⟨c, rfl, by simpa [pairsOf] using hc⟩
  | cons st rest ih =>
    intro c qs hc
    have key : ∀ ps : List (Nat × Amount), ∃ c1, c.extend ps = .ok c1 ∧ Holds c1 (expected (qs ++ ps)) := by
      intro ps
      obtain ⟨c1, e1, hh1⟩ := extend_ok hc ps
      refine ⟨c1, e1, ?_⟩
      rw [← foldl_stepMap_empty, List.foldl_append, foldl_stepMap_empty]
      exact hh1
    cases st with
    | extend ps =>
      obtain ⟨c1, e1, hh1⟩ := key ps
      obtain ⟨c2, e2, hh2⟩ := ih c1 _ hh1
      exact ⟨c2, by simp only [runSteps, e1, e2], by simpa [pairsOf, Step.pairs] using hh2⟩
    | add id v =>
      obtain ⟨c1, e1, hh1⟩ := key [(id, v)]
      have e1' : c.add id v = .ok c1 := by
        simp only [extend] at e1
        cases ha : c.add id v with
        | ok c' => rw [ha] at e1; simpa using e1
        | panic w => rw [ha] at e1; cases e1
        | ub w => rw [ha] at e1; cases e1
      obtain ⟨c2, e2, hh2⟩ := ih c1 _ hh1
      exact ⟨c2, by simp only [runSteps, e1', e2], by simpa [pairsOf, Step.pairs] using hh2⟩

/-! ### (b) the content: per index, the amounts in arrival order, and nothing else -/

/-- `from_iter ps` holds for each index `i` exactly the flattened amounts of the pairs with index
    `i`, in arrival order (readable by `get`), and `mask` has `i` iff some pair mentions `i`. -/
theorem content (ps : List (Nat × Amount)) :
    ∃ cs, fromIter ps = .ok cs ∧
      (∀ i, cs.mask.mem i = mentioned ps i) ∧
      (∀ i, mentioned ps i = true →
        cs.inner.get i = .ok (((ps.filter (fun p => p.1 == i)).map (·.2)).flatten)) ∧
      Holds cs (expected ps) := by
  obtain ⟨cs, h, hh⟩ := fromIter_ok ps
  refine ⟨cs, h, ?_, ?_, hh⟩
  · intro i
    rw [hh.2 i]; unfold expected; cases mentioned ps i <;> rfl
  · intro i hi
    exact DenseOf.get_ok hh.1 (by simp [expected, hi, acc, amountsAt])

/-! ### (c) collecting, extending and adding one by one agree -/

theorem fromIter_eq_addSeq (ps : List (Nat × Amount)) : fromIter ps = new.addSeq ps := by
  rw [fromIter, fromIterLoop_eq_extend, addSeq_eq_extend]

theorem extend_eq_addSeq (cs : ChangeSet) (ps : List (Nat × Amount)) : cs.extend ps = cs.addSeq ps :=
  (addSeq_eq_extend cs ps).symm

/-- `extend` after `from_iter` is `from_iter` of the concatenation. -/
theorem extend_after_fromIter (ps qs : List (Nat × Amount)) (cs : ChangeSet)
    (h : fromIter ps = .ok cs) : cs.extend qs = fromIter (ps ++ qs) := by
  rw [fromIter, fromIterLoop_eq_extend] at h
  rw [fromIter, fromIterLoop_eq_extend, extend_append, h]

/-- Any mixture of collect / extend / add is `from_iter` of all pairs in arrival order. -/
theorem build_eq_fromIter (ps0 : List (Nat × Amount)) (steps : List Step) :
    build ps0 steps = fromIter (ps0 ++ pairsOf steps) := by
  obtain ⟨c0, h0, _⟩ := fromIter_ok ps0
  suffices h : ∀ (steps : List Step) (qs : List (Nat × Amount)) (c : ChangeSet),
      fromIter qs = .ok c → runSteps c steps = fromIter (qs ++ pairsOf steps) by
    simp only [build, h0]; exact h steps ps0 c0 h0
  intro steps
  induction steps with
  | nil => intro qs c hc; simpa [pairsOf, runSteps] using hc.symm
  | cons st rest ih =>
    intro qs c hc
    cases st with
    | extend ps =>
      have e := extend_after_fromIter qs ps c hc
      obtain ⟨c1, h1, _⟩ := fromIter_ok (qs ++ ps)
      rw [h1] at e
      simp only [runSteps, e]
      rw [ih (qs ++ ps) c1 h1]
      simp [pairsOf, Step.pairs]
    | add id v =>
      have e := extend_after_fromIter qs [(id, v)] c hc
      obtain ⟨c1, h1, _⟩ := fromIter_ok (qs ++ [(id, v)])
      rw [h1] at e
      have e' : c.add id v = .ok c1 := by
        simp only [extend] at e
        cases ha : c.add id v with
        | ok c' => rw [ha] at e; simpa using e
        | panic w => rw [ha] at e; cases e
        | ub w => rw [ha] at e; cases e
      simp only [runSteps, e']
      rw [ih (qs ++ [(id, v)]) c1 h1]
      simp [pairsOf, Step.pairs]

/-! ### (d) shared and mutable joins: one item per common index, ascending, carrying its sum

  From here on the hypothesis is `Holds cs (expected ps)`: the set is sound and holds the
  accumulation of the pair history `ps`. `build_ok` / `content` establish it for every way of feeding
  `ps`; `clear_empties` (history `[]`, then whatever is fed next) and `join_mut_append` (history
  extended by one pair per visited index) re-establish it, so the statements chain along any
  program that builds, joins mutably, clears and re-fills a change set. -/

/-- `(&changeset, others…).join()`: in ascending index order exactly one item per index that is
    mentioned and in the other members' mask `M`, carrying that index's accumulated amount. -/
theorem join_shared (ps : List (Nat × Amount)) (cs : ChangeSet) (hh : Holds cs (expected ps)) (M : BSet) :
    ∃ ids : List Nat, cs.joinShared M = .ok (ids.map (fun i => (i, acc ps i))) ∧
      ids.Pairwise (· < ·) ∧ ∀ i, i ∈ ids ↔ (mentioned ps i = true ∧ M.mem i = true) := by
  have hmem : ∀ i, i ∈ cs.joinIds M ↔ (mentioned ps i = true ∧ M.mem i = true) := by
    intro i; rw [mem_joinIds hh]; unfold expected; cases mentioned ps i <;> simp
  refine ⟨cs.joinIds M, ?_, joinIds_sorted cs M, hmem⟩
  rw [joinShared, sharedLoop_ok hh.1 _ (fun i hi => ((mem_joinIds hh M i).mp hi).1)]
  congr 1
  apply List.map_congr_left
  intro i hi
  simp [valAt, expected, ((hmem i).mp hi).1]

/-- `(&mut changeset, others…).join()`: the same items as the shared join; afterwards the set is
    sound and each visited index holds what the caller left (`f i amount`), the others are untouched. -/
theorem join_mut (ps : List (Nat × Amount)) (cs : ChangeSet) (hh : Holds cs (expected ps)) (M : BSet)
    (f : Nat → Amount → Amount) :
    ∃ (ids : List Nat) (cs' : ChangeSet), cs.joinMut M f = .ok (cs', ids.map (fun i => (i, acc ps i))) ∧
      ids.Pairwise (· < ·) ∧ (∀ i, i ∈ ids ↔ (mentioned ps i = true ∧ M.mem i = true)) ∧
      cs'.mask = cs.mask ∧
      Holds cs' (fun j => if j ∈ ids then some (f j (acc ps j)) else expected ps j) := by
  have hmem : ∀ i, i ∈ cs.joinIds M ↔ (mentioned ps i = true ∧ M.mem i = true) := by
    intro i; rw [mem_joinIds hh]; unfold expected; cases mentioned ps i <;> simp
  obtain ⟨s', hl, hr⟩ := mutLoop_ok f hh.1 (cs.joinIds M)
    (fun i hi => ((mem_joinIds hh M i).mp hi).1) (joinIds_nodup cs M)
  have hmap : mapAfter f (expected ps) (cs.joinIds M) =
      fun j => if j ∈ cs.joinIds M then some (f j (acc ps j)) else expected ps j := by
    funext j
    simp only [mapAfter]
    by_cases hj : j ∈ cs.joinIds M
    · simp [hj, expected, ((hmem j).mp hj).1]
    · simp [hj]
  refine ⟨cs.joinIds M, { cs with inner := s' }, ?_, joinIds_sorted cs M, hmem, rfl, ?_, ?_⟩
  · simp only [joinMut, hl]
    congr 2
    apply List.map_congr_left
    intro i hi
    simp [valAt, expected, ((hmem i).mp hi).1]
  · rw [← hmap]; exact hr
  · intro j
    simp only []
    rw [hh.2 j]
    by_cases hj : j ∈ cs.joinIds M
    · simp [hj, expected, ((hmem j).mp hj).1]
    · simp [hj]

/-- A mutable join whose body does `*amount += d i` is an `extend` by one pair per visited index:
    afterwards the set holds the accumulation of the longer pair history. -/
theorem join_mut_append (ps : List (Nat × Amount)) (cs : ChangeSet) (hh : Holds cs (expected ps))
    (M : BSet) (d : Nat → Amount) :
    ∃ (ids : List Nat) (cs' : ChangeSet), cs.joinMut M (fun i a => a ++ d i) = .ok (cs', ids.map (fun i => (i, acc ps i))) ∧
      Holds cs' (expected (ps ++ ids.map (fun i => (i, d i)))) := by
  obtain ⟨ids, cs', h1, hs, hm, _, hh⟩ := join_mut ps cs hh M (fun i a => a ++ d i)
  refine ⟨ids, cs', h1, ?_⟩
  have hnd : ids.Nodup := hs.imp (fun hab => Nat.ne_of_lt hab)
  have hat : ∀ (l : List Nat), l.Nodup → ∀ j, amountsAt (l.map (fun i => (i, d i))) j = if j ∈ l then [d j] else [] := by
    intro l
    induction l with
    | nil => intro _ j; rfl
    | cons a l ih =>
      intro hn j
      have hn' := List.nodup_cons.mp hn
      have ih' := ih hn'.2 j
      simp only [amountsAt, List.map_cons, List.filter_cons, List.mem_cons] at ih' ⊢
      by_cases hja : a = j
      · subst hja
        simp only [beq_self_eq_true, if_true, List.map_cons, true_or]
        rw [ih']; simp [hn'.1]
      · have hne : (a == j) = false := by simp [hja]
        have hja' : ¬ j = a := fun e => hja e.symm
        simp only [hne, Bool.false_eq_true, if_false, hja', false_or]
        exact ih'
  have : expected (ps ++ ids.map (fun i => (i, d i))) =
      fun j => if j ∈ ids then some (acc ps j ++ d j) else expected ps j := by
    funext j
    unfold expected
    rw [mentioned_append, acc_append]
    have hment : mentioned (ids.map (fun i => (i, d i))) j = decide (j ∈ ids) := by
      have := amountsAt_isEmpty (ids.map (fun i => (i, d i))) j
      rw [hat ids hnd j] at this
      by_cases hj : j ∈ ids
      · simp [hj] at this ⊢; exact this
      · simp [hj] at this ⊢; exact this
    rw [hment]
    by_cases hj : j ∈ ids
    · have := (hm j).mp hj
      simp [hj, acc, hat ids hnd j]
    · simp [hj, acc, hat ids hnd j]
  rw [this]; exact hh

/-! ### (e) by-value join: every amount yielded or destroyed exactly once -/

/-- `(changeset, others…).join()` advanced `n` times and dropped: the items are the first `n`
    common indices (ascending) with their accumulated amounts; the drop of the iterator destroys
    exactly the accumulated amounts of the indices `rest`; `visited ++ rest` is a permutation of
    the set's indices, so every accumulated amount is yielded or destroyed, none lost, none twice. -/
theorem consume_exactly_once (ps : List (Nat × Amount)) (cs : ChangeSet) (hh : Holds cs (expected ps))
    (M : BSet) (n : Nat) :
    ∃ ids visited rest : List Nat,
      cs.consume M n = .ok (visited.map (fun i => (i, acc ps i)), rest.map (acc ps)) ∧
      ids.Pairwise (· < ·) ∧ (∀ i, i ∈ ids ↔ (mentioned ps i = true ∧ M.mem i = true)) ∧
      visited = ids.take n ∧
      (visited ++ rest).Perm cs.mask.toList ∧
      (∀ i, i ∈ cs.mask.toList ↔ mentioned ps i = true) := by
  have hmem : ∀ i, i ∈ cs.joinIds M ↔ (mentioned ps i = true ∧ M.mem i = true) := by
    intro i; rw [mem_joinIds hh]; unfold expected; cases mentioned ps i <;> simp
  have hmask : ∀ i, i ∈ cs.mask.toList ↔ mentioned ps i = true := by
    intro i; rw [BSet.mem_toList, hh.2 i]; unfold expected; cases mentioned ps i <;> simp
  have hsub : ∀ i ∈ (cs.joinIds M).take n, i ∈ cs.joinIds M := fun i hi => List.mem_of_mem_take hi
  have hnd : ((cs.joinIds M).take n).Nodup := (joinIds_nodup cs M).sublist (List.take_sublist _ _)
  obtain ⟨s', hl, hr⟩ := consumeLoop_ok hh.1 ((cs.joinIds M).take n)
    (fun i hi => ((mem_joinIds hh M i).mp (hsub i hi)).1) hnd
  obtain ⟨hd, hen, hem⟩ := dropAll_spec hr
  refine ⟨cs.joinIds M, (cs.joinIds M).take n, s'.entityId.toList, ?_, joinIds_sorted cs M, hmem, rfl, ?_, hmask⟩
  · simp only [consume, hl]
    congr 2
    · apply List.map_congr_left
      intro i hi
      simp [valAt, expected, ((hmem i).mp (hsub i hi)).1]
    · rw [hd]
      apply List.map_congr_left
      intro i hi
      have := (hem i).mp hi
      simp only [mapWithout] at this ⊢
      by_cases hv : i ∈ (cs.joinIds M).take n
      · simp [hv] at this
      · simp only [valAt, mapWithout, hv, if_false]
        simp only [hv, if_false] at this
        unfold expected at this ⊢
        cases hmi : mentioned ps i <;> simp [hmi] at this ⊢
  · apply perm_of_nodup_mem
    · rw [List.nodup_append]
      refine ⟨hnd, hen, ?_⟩
      intro a ha b hb hab
      subst hab
      have := (hem a).mp hb
      simp [mapWithout, ha] at this
    · exact BSet.toList_nodup _
    · intro i
      rw [List.mem_append, hmask, hem]
      simp only [mapWithout]
      by_cases hv : i ∈ (cs.joinIds M).take n
      · simp [hv, ((hmem i).mp (hsub i hv)).1]
      · simp only [hv, if_false, false_or]
        unfold expected; cases mentioned ps i <;> simp

/-- A by-value join iterated to the end yields every common index. -/
theorem consume_all (ps : List (Nat × Amount)) (cs : ChangeSet) (hh : Holds cs (expected ps))
    (M : BSet) (n : Nat) (hn : (cs.joinIds M).length ≤ n) :
    ∃ ids rest : List Nat,
      cs.consume M n = .ok (ids.map (fun i => (i, acc ps i)), rest.map (acc ps)) ∧
      ids.Pairwise (· < ·) ∧ (∀ i, i ∈ ids ↔ (mentioned ps i = true ∧ M.mem i = true)) ∧
      (ids ++ rest).Perm cs.mask.toList := by
  obtain ⟨ids, visited, rest, h1, h2, h3, h4, h5, _⟩ := consume_exactly_once ps cs hh M n
  have hids : ids = cs.joinIds M := by
    have n₁ : ids.Nodup := h2.imp (fun hab => Nat.ne_of_lt hab)
    have hp := perm_of_nodup_mem n₁ (joinIds_nodup cs M) (fun a => by
      rw [h3, mem_joinIds hh]; unfold expected; cases mentioned ps a <;> simp)
    exact List.Perm.eq_of_pairwise (le := (· < ·)) (fun a b _ _ hab hba => by omega) h2
      (joinIds_sorted cs M) hp
  have : visited = ids := by rw [h4, hids, List.take_of_length_le hn]
  subst this
  exact ⟨visited, rest, h1, h2, h3, h5⟩

/-- What the drop of the by-value iterator destroys is what `clean` of the remaining dense storage
    destroys (`DenseVecStorage::clean` and its drop both run `data`'s destructors front to back). -/
theorem consume_remainder_is_clean (cs : ChangeSet) (M : BSet) (n : Nat)
    (yielded : List (Nat × Amount)) (destroyed : List Amount)
    (h : cs.consume M n = .ok (yielded, destroyed)) :
    ∃ s, consumeLoop cs.inner ((cs.joinIds M).take n) = .ok (s, yielded) ∧
      ∀ has, ∃ s', s.clean has = .ok (s', destroyed) ∧ DenseOf.Rep s' (fun _ => none) := by
  unfold consume at h
  cases hl : consumeLoop cs.inner ((cs.joinIds M).take n) with
  | ok p =>
    rw [hl] at h
    obtain ⟨s, r⟩ := p
    simp only [Out.ok.injEq, Prod.mk.injEq] at h
    obtain ⟨h1, h2⟩ := h
    subst h1 h2
    exact ⟨s, rfl, fun has => DenseOf.clean_ok s has⟩
  | panic w => rw [hl] at h; cases h
  | ub w => rw [hl] at h; cases h

/-! ### (f) `clear` (and plain drop) -/

/-- `clear` destroys each accumulated amount exactly once and leaves an empty, reusable set. -/
theorem clear_empties (ps : List (Nat × Amount)) (cs : ChangeSet) (hh : Holds cs (expected ps)) :
    ∃ (cs' : ChangeSet) (rest : List Nat), cs.clear = .ok (cs', rest.map (acc ps)) ∧ rest.Perm cs.mask.toList ∧
      cs.dropAll = rest.map (acc ps) ∧
      (∀ i, cs'.mask.mem i = false) ∧ (∀ M, cs'.joinShared M = .ok []) ∧
      (∀ qs, ∃ c2, cs'.extend qs = .ok c2 ∧ Holds c2 (expected qs)) := by
  obtain ⟨hd, hen, hem⟩ := dropAll_spec hh.1
  have hval : cs.inner.dropAll = cs.inner.entityId.toList.map (acc ps) := by
    rw [hd]
    apply List.map_congr_left
    intro i hi
    have := (hem i).mp hi
    unfold expected at this
    cases hmi : mentioned ps i <;> simp [hmi] at this
    simp [valAt, expected, hmi]
  have hholds : Holds ⟨cs.mask.clear, (⟨#[], #[], #[]⟩ : DenseOf Amount)⟩ (fun _ => none) :=
    ⟨DenseOf.rep_empty, fun i => by simp⟩
  refine ⟨⟨cs.mask.clear, ⟨#[], #[], #[]⟩⟩, cs.inner.entityId.toList, ?_, ?_, ?_, ?_, ?_, ?_⟩
  · simp only [clear, DenseOf.clean, ← hval]; rfl
  · apply perm_of_nodup_mem hen (BSet.toList_nodup _)
    intro i
    rw [hem, BSet.mem_toList, hh.2 i]
  · exact hval
  · intro i; simp
  · intro M
    have : (ChangeSet.mk cs.mask.clear (⟨#[], #[], #[]⟩ : DenseOf Amount)).joinIds M = [] := by
      apply List.eq_nil_iff_forall_not_mem.mpr
      intro i hi
      have := (mem_joinIds hholds M i).mp hi
      simp at this
    simp [joinShared, this, sharedLoop]
  · intro qs
    obtain ⟨c2, e2, hh2⟩ := extend_ok hholds qs
    rw [foldl_stepMap_empty] at hh2
    exact ⟨c2, e2, hh2⟩

/-! ### Per entity = per index for handles that are alive together -/

/-- If the handles agree on generation whenever they agree on index, the amount accumulated at the
    index of a handle `e` among the pairs is exactly what was given for `e` itself, in order. -/
theorem per_entity_eq_per_index (es : List (Entity × Amount)) (hc : GenConsistent es)
    (e : Entity) (he : ∃ p ∈ es, p.1 = e) :
    acc (proj es) e.id = accE es e := by
  obtain ⟨p0, hp0, rfl⟩ := he
  unfold acc amountsAt accE proj
  rw [List.filter_map, List.map_map]
  congr 1
  have : es.filter ((fun p : Nat × Amount => p.1 == p0.1.id) ∘ fun p => (p.1.id, p.2)) =
      es.filter (fun p => p.1 == p0.1) := by
    apply List.filter_congr
    intro q hq
    show (q.1.id == p0.1.id) = (q.1 == p0.1)
    by_cases hid : q.1.id = p0.1.id
    · have hg := hc q hq p0 hp0 hid
      have : q.1 = p0.1 := entity_ext hid hg
      rw [this]; simp
    · have : q.1 ≠ p0.1 := fun e => hid (by rw [e])
      have h1 : (q.1.id == p0.1.id) = false := by simp [hid]
      have h2 : (q.1 == p0.1) = false := by simp [this]
      rw [h1, h2]
  rw [this]
  rfl

/-- Handles that one allocator state reports alive agree on generation when they agree on index
    (see also C01.no_shared_index for not-dead handles of a world history). -/
theorem alive_handles_consistent (a : Alloc) (es : List (Entity × Amount))
    (h : ∀ p ∈ es, a.isAlive p.1 = true) : GenConsistent es := by
  intro p hp q hq hid
  have h1 := h p hp
  have h2 := h q hq
  simp only [Alloc.isAlive, beq_iff_eq] at h1 h2
  rw [h1, h2, hid]

/-- The excluded case: two handles with the same index and ANY generations (e.g. a stale handle and
    the entity that reused its index) accumulate into one slot, in arrival order. -/
theorem same_index_other_generation_shares_slot (i : Nat) (g₁ g₂ : Int) (a b : Amount) :
    ∃ cs, fromIterE [(⟨i, g₁⟩, a), (⟨i, g₂⟩, b)] = .ok cs ∧
      cs.inner.get i = .ok (a ++ b) ∧ cs.mask.toList = [i] := by
  obtain ⟨cs, h, hm, hg, _⟩ := content (proj [(⟨i, g₁⟩, a), (⟨i, g₂⟩, b)])
  refine ⟨cs, h, ?_, ?_⟩
  · have := hg i (by simp [mentioned, proj])
    simpa [proj] using this
  · have hs := BSet.toList_sorted cs.mask
    have hmem : ∀ j, j ∈ cs.mask.toList ↔ j ∈ [i] := by
      intro j
      rw [BSet.mem_toList, hm j]
      simp only [mentioned, proj, List.map_cons, List.map_nil, List.any_cons, List.any_nil,
        List.mem_singleton, Bool.or_false, Bool.or_self, beq_iff_eq]
      exact eq_comm
    have n₁ : cs.mask.toList.Nodup := BSet.toList_nodup _
    have hp := perm_of_nodup_mem n₁ (by simp) hmem
    exact List.Perm.eq_of_pairwise (le := (· < ·)) (fun a b _ _ hab hba => by omega) hs (by simp) hp

/-! ### Non-vacuity (kernel-evaluated on the array-backed model; the order is visible) -/

/-- `[(1,[10]),(2,[20]),(1,[30])]`: index 1 holds `[10,30]` (not `[30,10]`, not `[30]`). -/
example :
    (match fromIter [(1, [10]), (2, [20]), (1, [30])] with
     | .ok cs => cs.joinShared ((BSet.empty.add 1).add 2 |>.add 7)
     | .panic w => .panic w
     | .ub w => .ub w) = .ok [(1, [10, 30]), (2, [20])] := by decide +kernel

/-- Sparse, descending arrival, a join mask that excludes one member. -/
example :
    (match fromIter [(9, [1]), (0, [2]), (9, [3]), (4, []), (0, [4, 5])] with
     | .ok cs => cs.joinShared ((BSet.empty.add 0).add 4 |>.add 3)
     | .panic w => .panic w
     | .ub w => .ub w) = .ok [(0, [2, 4, 5]), (4, [])] := by decide +kernel

/-- By-value join over `{0, 9}` stopped after one item: `0` is yielded, `9` and `4` are destroyed
    (in the order the swap_remove left them in `data`). -/
example :
    (match fromIter [(9, [1]), (0, [2]), (9, [3]), (4, []), (0, [4, 5])] with
     | .ok cs => cs.consume ((BSet.empty.add 0).add 9) 1
     | .panic w => .panic w
     | .ub w => .ub w) = .ok ([(0, [2, 4, 5])], [[1, 3], []]) := by decide +kernel

/-- Mutable join appending a marker, then a shared join sees it. -/
example :
    (match fromIter [(1, [10]), (2, [20]), (1, [30])] with
     | .ok cs =>
       (match cs.joinMut (BSet.empty.add 1) (fun _ a => a ++ [99]) with
        | .ok (cs', _) => cs'.joinShared ((BSet.empty.add 1).add 2)
        | .panic w => .panic w
        | .ub w => .ub w)
     | .panic w => .panic w
     | .ub w => .ub w) = .ok [(1, [10, 30, 99]), (2, [20])] := by decide +kernel

/-- Without the mask check of `add` the storage calls are NOT safe: reading an index that was
    never inserted is undefined behaviour in the model (so (a) is not vacuous). -/
example : (DenseOf.empty : DenseOf Amount).get 3 = .ub "DenseVecStorage::get: data_id out of bounds" := by
  decide +kernel

end SpecsModel.C16
