/-
  C11 — Systems dispatched in parallel never overlap with a writer of the same storage.
  Property theorems only; helper lemmas live in SpecsModel/Dispatch/Lemmas*.lean.

  Quantifier: every list `items` of `DispatcherBuilder::add` / `add_barrier` calls — systems with
  arbitrary declared read/write sets, arbitrary running-time hints, dependency lists (with repeats)
  naming systems added earlier, barriers anywhere — and, for the run-time part, every schedule:
  a schedule is an arbitrary list of `(group, k)` choices; each choice lets one group of the
  running stage do its next atomic step (start a system / take ONE borrow of its `fetch` / drop ONE
  guard, the `k`-th / return from `run_now`).  Every thread-pool size and every rayon schedule is
  such an interleaving (a pool of `n` threads only restricts which interleavings occur).

  Model: SpecsModel/Dispatch/Model.lean — shred 0.16.1 `StagesBuilder` / `DispatcherBuilder`
  (stage.rs, builder.rs), `Stage::execute` + `RunNow::run_now` + `World::fetch{,_mut}` on
  `AtomicRefCell`s, specs' `ReadStorage` / `WriteStorage` / `Entities` / `Read<LazyUpdate>`
  declarations (storage/data.rs, world/entity.rs).

  Hypotheses of the run-time theorems, per system (`SysOk`):
    * `DeclOk`  — borrowed ⊆ declared: an exclusive borrow is a declared write, every borrow is a
                  declared read or write.  For specs' storage handles borrowed = declared exactly
                  (`specs_table`, `specs_tuples_borrow_what_they_declare`).
    * `SelfOk`  — the system's own `fetch` does not conflict with itself.  This is a genuine
                  side condition of specs: `(ReadStorage<A>, WriteStorage<A>)` panics on its own
                  ("It is strictly disallowed to fetch both a ReadStorage and a WriteStorage of
                  the same component", storage/data.rs); no dispatcher can help.  It is discharged
                  for all 108 data tuples of the harness (`harness_systems_ok`).
-/
import SpecsModel.Dispatch.LemmasDeps
namespace SpecsModel.C11
open SpecsModel SpecsModel.Dispatch

/-- **(a)** The builder never panics (capacity of the `ArrayVec` groups, indexing, `unwrap`,
    `u8`/`i8` arithmetic are all in range) and places every system exactly once: the ids in the
    stage/group layout are a permutation of `0 .. n-1`, the placed systems a permutation of the
    given ones. -/
theorem placed_exactly_once (items : List Item) :
    ∃ d, buildAll items = .ok d ∧
      d.sb.layout.flatten.flatten.Perm (List.range (systemsOf items).length) ∧
      d.sb.plan.flatten.flatten.Perm (systemsOf items) := by
  obtain ⟨d, h1, _, h3, _⟩ := buildAll_facts items
  refine ⟨d, h1, ?_, ?_⟩
  · rw [layout_flatten, ← systemsOf_ids]; exact h3.map _
  · rw [plan_flatten]; exact h3

/-- **(b)** Two systems in different groups of the same stage never conflict: neither writes a
    resource the other reads or writes. -/
theorem parallel_groups_conflict_free (items : List Item) (d : DBuilder) (h : buildAll items = .ok d) :
    ∀ st ∈ d.sb.plan, ∀ (i j : Nat) (G G' : List Sys), i ≠ j → st[i]? = some G → st[j]? = some G' →
      ∀ s ∈ G, ∀ t ∈ G',
        (∀ r ∈ s.writes, r ∉ t.reads ∧ r ∉ t.writes) ∧ (∀ r ∈ t.writes, r ∉ s.reads ∧ r ∉ s.writes) := by
  obtain ⟨d', h1, hb, _, _⟩ := buildAll_facts items
  rw [h] at h1; cases h1
  intro st hst i j G G' hij hi hj s hs t ht
  simp only [Builder.plan, List.mem_map] at hst
  obtain ⟨gs, hgs, rfl⟩ := hst
  have hp := hb.par gs hgs
  unfold GroupsPar at hp
  rw [List.pairwise_iff_getElem] at hp
  simp only [List.getElem?_map, Option.map_eq_some_iff] at hi hj
  obtain ⟨A, hA, rfl⟩ := hi
  obtain ⟨B, hB, rfl⟩ := hj
  obtain ⟨hi', rfl⟩ := List.getElem?_eq_some_iff.mp hA
  obtain ⟨hj', rfl⟩ := List.getElem?_eq_some_iff.mp hB
  rcases Nat.lt_or_gt_of_ne hij with hlt | hlt
  · exact hp i j hi' hj' hlt s hs t ht
  · exact (hp j i hj' hi' hlt t ht s hs).symm

/-- **(c)** Every declared dependency of a system is placed in an earlier stage, or earlier in the
    system's own group (`Before`, Dispatch/LemmasBuild.lean), provided dependencies name systems
    added earlier (`DispatcherBuilder::add` panics on unknown names). -/
theorem dependencies_placed_before (items : List Item) (hd : DepsEarlier 0 items)
    (d : DBuilder) (h : buildAll items = .ok d) :
    ∀ s ∈ systemsOf items, ∀ x ∈ s.deps, Before d.sb.layout x s.id := by
  have := runFrom_deps items {} d BInv.empty (by simp) hd h
  exact this.2

/-- **(d), table.** What a storage handle borrows from the world is exactly what it declares. -/
theorem specs_table (d : Data) : sharedOf d.fetch = d.reads ∧ exclOf d.fetch = d.writes :=
  data_borrowed_eq_declared d

/-- The same by evaluation (`decide`) for the members the harness uses. -/
theorem specs_table_decide :
    ([Data.readStorage 0, .readStorage 1, .readStorage 2, .writeStorage 0, .writeStorage 1,
      .writeStorage 2, .entities, .readLazy].all
        fun d => sharedOf d.fetch == d.reads && exclOf d.fetch == d.writes) = true := by decide

/-- … hence every data tuple of them borrows exactly what it declares. -/
theorem specs_tuples_borrow_what_they_declare (ds : List Data) (deps : List Nat) (t : RunningTime) :
    sharedOf (sysOfData ds deps t).borrows = (sysOfData ds deps t).reads ∧
    exclOf (sysOfData ds deps t).borrows = (sysOfData ds deps t).writes :=
  tuple_borrowed_eq_declared ds deps t

/-- All 108 system types of the harness satisfy the hypotheses of the run-time theorems. -/
theorem harness_systems_ok {a b c : Nat} (ha : a < 3) (hb : b < 3) (hc : c < 3) (e l : Bool)
    (deps : List Nat) (t : RunningTime) : SysOk (sysOfData (harnessData [a, b, c] e l) deps t) :=
  harness_sysOk ha hb hc e l deps t

/-- The built plan satisfies the execution invariant's static part. -/
theorem built_plan_ok (items : List Item) (hok : ∀ s, Item.sys s ∈ items → SysOk s)
    (d : DBuilder) (h : buildAll items = .ok d) : PlanOk d.sb.plan := by
  obtain ⟨d', h1, hb, hp, _⟩ := buildAll_facts items
  rw [h] at h1; cases h1
  apply planOk_of_binv hb
  intro s hs
  exact systemsFrom_ok items 0 hok s (hp.subset hs)

/-- **(d), no borrow conflict.** For every schedule, no `fetch` of the dispatched systems panics
    (the model's only run-time panics are conflicting `AtomicRefCell` borrows). -/
theorem no_fetch_panics (items : List Item) (hok : ∀ s, Item.sys s ∈ items → SysOk s)
    (d : DBuilder) (h : buildAll items = .ok d) (sched : List (Nat × Nat)) :
    ∃ x, exec d.sb.plan sched = .ok x := by
  obtain ⟨x, hx, _⟩ := run_inv sched (init_inv (built_plan_ok items hok d h))
  exact ⟨x, hx⟩

/-- **(d), isolation.** For every schedule, in the state reached: guards held by different groups
    (i.e. by systems running concurrently) are compatible — a guard on a resource held exclusively
    excludes every other guard on that resource —, likewise within a group, and accordingly no
    `AtomicRefCell` is ever "written and read". -/
theorem writer_never_overlaps (items : List Item) (hok : ∀ s, Item.sys s ∈ items → SysOk s)
    (d : DBuilder) (h : buildAll items = .ok d) (sched : List (Nat × Nat)) (x : XState)
    (hx : exec d.sb.plan sched = .ok x) :
    x.groups.Pairwise (fun g g' => ∀ b ∈ g.held, ∀ b' ∈ g'.held,
      b.1 = b'.1 → b.2 = false ∧ b'.2 = false) ∧
    (∀ g ∈ x.groups, g.held.Pairwise (fun b b' => b.1 = b'.1 → b.2 = false ∧ b'.2 = false)) ∧
    ∀ r, (x.cells.get r).writer = true → (x.cells.get r).readers = 0 := by
  obtain ⟨x', hx', hinv⟩ := run_inv sched (init_inv (built_plan_ok items hok d h))
  have : x' = x := by
    unfold exec at hx; rw [hx'] at hx; cases hx; rfl
  subst this
  exact ⟨hinv.held_compat, hinv.held_self, hinv.cell_excl⟩

/-- **(d), exactly once.** For every schedule, in the state reached: no system has entered `run_now`
    twice, only systems of the graph have, what has returned had entered; and once the dispatch has
    finished, the systems that entered and the systems that returned are each exactly all systems
    `0 .. n-1`, once. (Needs no hypothesis on the systems.) -/
theorem every_system_runs_exactly_once (items : List Item) (d : DBuilder) (h : buildAll items = .ok d)
    (sched : List (Nat × Nat)) (x : XState) (hx : exec d.sb.plan sched = .ok x) :
    (entered x.log).Nodup ∧ (∀ i ∈ entered x.log, i < (systemsOf items).length) ∧
    (exited x.log).Nodup ∧ (∀ i ∈ exited x.log, i ∈ entered x.log) ∧
    (x.finished = true →
      (entered x.log).Perm (List.range (systemsOf items).length) ∧
      (exited x.log).Perm (List.range (systemsOf items).length)) := by
  obtain ⟨d', h1, _, hp, _⟩ := buildAll_facts items
  rw [h] at h1; cases h1
  have hacct := run_acct sched (init_acct d.sb.plan) hx
  have hids : (d.sb.plan.flatten.flatten.map (·.id)).Perm (List.range (systemsOf items).length) := by
    rw [plan_flatten, ← systemsOf_ids]; exact hp.map _
  have hnd : (d.sb.plan.flatten.flatten.map (·.id)).Nodup := hids.nodup_iff.mpr List.nodup_range
  obtain ⟨n1, n2, n3, n4⟩ := hacct.nodup hnd
  refine ⟨n1, fun i hi => List.mem_range.mp (hids.subset (n2 i hi)), n3, n4, fun hf => ?_⟩
  obtain ⟨f1, f2⟩ := hacct.finished hf
  exact ⟨f1.trans hids, f2.trans hids⟩

/-- **(d), progress and termination.** No interleaving deadlocks or runs forever: in every state
    reached that is not finished some group can make a step that strictly decreases `fuel`, and no
    step ever increases it — so every schedule that keeps choosing groups that can move reaches a
    finished state (after at most `fuel (init plan)` effective steps), to which
    `every_system_runs_exactly_once` applies. -/
theorem dispatch_always_completes (items : List Item) (hok : ∀ s, Item.sys s ∈ items → SysOk s)
    (d : DBuilder) (h : buildAll items = .ok d) (sched : List (Nat × Nat)) (x : XState)
    (hx : exec d.sb.plan sched = .ok x) :
    (∀ e, ∃ x', x.step e = .ok x' ∧ fuel x' ≤ fuel x) ∧
    (x.finished = false → ∃ e x', x.step e = .ok x' ∧ fuel x' < fuel x) ∧
    (fuel x = 0 → x.finished = true) := by
  obtain ⟨x', hx', hinv⟩ := run_inv sched (init_inv (built_plan_ok items hok d h))
  have : x' = x := by
    unfold exec at hx; rw [hx'] at hx; cases hx; rfl
  subst this
  exact ⟨fun e => step_fuel_le hinv e, fun hf => step_progress hinv hf, fuel_zero_finished⟩

/-- **Dependencies at run time.** For every schedule: in the event log of the state reached (newest
    first), wherever a system enters `run_now`, each of its declared dependencies has already
    returned from `run_now`. (Needs no hypothesis on the systems' borrows.) -/
theorem dependencies_respected_at_run_time (items : List Item) (hd : DepsEarlier 0 items)
    (d : DBuilder) (h : buildAll items = .ok d) (sched : List (Nat × Nat)) (x : XState)
    (hx : exec d.sb.plan sched = .ok x) :
    ∀ s ∈ systemsOf items, ∀ dep ∈ s.deps, ∀ l1 l2,
      x.log = l1 ++ Ev.enter s.id :: l2 → Ev.exit dep ∈ l2 := by
  intro s hs dep hdep l1 l2 hlog
  obtain ⟨d', h1, _, hp, _⟩ := buildAll_facts items
  rw [h] at h1; cases h1
  have hn : (([] : List (List Nat)) :: planIds d.sb.plan).flatten.flatten.Nodup := by
    rw [planIds_plan, List.flatten_cons, List.nil_append, layout_flatten]
    have : ((allSys d.sb).map (·.id)).Perm (List.range (systemsOf items).length) := by
      rw [← systemsOf_ids]; exact hp.map _
    exact this.nodup_iff.mpr List.nodup_range
  obtain ⟨_, _, _, _, _, _, hld⟩ := run_rinv hn sched (init_rinv d.sb.plan) hx
  have hb := (dependencies_placed_before items hd d h s hs dep hdep).pad
  rw [← planIds_plan] at hb
  exact hld l1 l2 s.id hlog dep hb

/-! ### Non-vacuity -/

/-- write A -/
def sW : Sys := sysOfData (harnessData [2, 0, 0] false false) [] .average
/-- read A, after system 0 -/
def sR : Sys := sysOfData (harnessData [1, 0, 0] true false) [0] .short
/-- write B -/
def sB : Sys := sysOfData (harnessData [0, 2, 0] false true) [] .long
/-- read A, read B -/
def sAB : Sys := sysOfData (harnessData [1, 1, 0] false false) [] .veryShort

/-- write C -/
def sC : Sys := sysOfData (harnessData [0, 0, 2] true false) [] .average

def demo : List Item := [.sys sW, .sys sR, .sys sB, .barrier, .sys sAB, .sys sC]

/-- The builder on a graph with a conflict, a dependency and a barrier. -/
example : (match buildAll demo with | .ok d => d.sb.layout | _ => []) =
    [[[0], [2]], [[1]], [[3], [4]]] := by decide +kernel

def roundRobin (n : Nat) : List (Nat × Nat) := (List.replicate n [(0, 0), (1, 1)]).flatten

/-- A complete interleaved execution of that plan: finished, every system entered and returned once,
    stage by stage. -/
example : (match buildAll demo with
    | .ok d => (match exec d.sb.plan (roundRobin 45) with
      | .ok x => (x.finished, (entered x.log).reverse, (exited x.log).reverse)
      | _ => (false, [], []))
    | _ => (false, [], [])) = (true, [0, 2, 1, 4, 3], [0, 2, 1, 4, 3]) := by decide +kernel

/-- The execution semantics is not vacuous: a plan that puts a writer and a reader of the same
    storage into parallel groups does panic on some schedule (and not on others). -/
example : (match exec [[[sW], [sR]]] [(0, 0), (0, 0), (0, 0), (1, 0), (1, 0), (1, 0)] with
    | .panic _ => true | _ => false) = true := by decide +kernel

example : (match exec [[[sW], [sR]]] (List.replicate 6 (0, 0) ++ List.replicate 8 (1, 0)) with
    | .ok x => x.finished | _ => false) = true := by decide +kernel

/-- A system whose own data tuple reads and writes the same storage is rejected by `SelfOk` — and
    indeed panics alone. -/
example : (match exec [[[sysOfData [.readStorage 0, .writeStorage 0] [] .average]]]
    [(0, 0), (0, 0), (0, 0), (0, 0), (0, 0)] with | .panic _ => true | _ => false) = true := by
  decide +kernel

end SpecsModel.C11
