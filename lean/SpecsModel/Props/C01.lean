/-
  C01 — Entity handles are unique for the whole life of a world.
  Property theorems only; helper lemmas live in SpecsModel/Lemmas.

  Quantifier: every finite sequence `ops` of creations (immediate / shared-access, built or
  dropped builders, iterators), deletions (immediate, batch — including failing and repeating
  batches —, deferred), delete_all and maintain, with handles referenced by slot (so every handle
  passed to an operation was returned earlier; forged handles are outside the property).
-/
import SpecsModel.Lemmas.EWorldAccept
import SpecsModel.Lemmas.EntSpecFacts
import SpecsModel.Props.WorldEnt
namespace SpecsModel.C01
open SpecsModel Alloc

/-- Handles returned by the creation operations of a transcript, in order. -/
def created : List (EOp × ERes) → List Entity
  | [] => []
  | (op, r) :: t =>
    (match op, r with
      | .createNow _, .ent e | .createAtomic _, .ent e => [e]
      | .createIterNow _, .ents es | .createIterAtomic _, .ents es => es
      | _, _ => []) ++ created t

/-- Handles created by one transcript line. -/
def createdOf : EOp → ERes → List Entity
  | .createNow _, .ent e | .createAtomic _, .ent e => [e]
  | .createIterNow _, .ents es | .createIterAtomic _, .ents es => es
  | _, _ => []

theorem createdBy_map (es : List Entity) : EntSpec.createdBy (es.map .created) = es := by
  induction es with
  | nil => rfl
  | cons a l ih => simp [EntSpec.createdBy, ih]

theorem createdBy_entEvents (log : Array Entity) (op : EOp) (r : ERes) :
    EntSpec.createdBy (entEvents log op r).1 = createdOf op r := by
  unfold entEvents createdOf
  split <;> (try split) <;> simp_all [EntSpec.createdBy, createdBy_map]
  all_goals (first | (split <;> rfl) | skip)

/-- Every transcript of the model is accepted by the C01/C02/C17 monitor — the same monitor
    the driver runs over the implementation's transcript. -/
theorem monitor_accepts (ops : List EOp) :
    ∃ s, monitorEnt EntSpec.init #[] (EWorld.run ops).2 = .ok s ∧ WR (EWorld.run ops).1 s :=
  runFrom_accept ops {} EntSpec.init WR_init

/-- For any accepted transcript, the monitor's `seen` is the reversed list of created handles on
    top of the initial one and is duplicate-free. (A fact about the monitor: it is what makes a
    `C01` verdict on the implementation's transcript meaningful.) -/
theorem accepted_seen : ∀ (t : List (EOp × ERes)) (s s' : EntSpec) (log : Array Entity),
    monitorEnt s log t = .ok s' → s.seen.Nodup →
    s'.seen = (created t).reverse ++ s.seen ∧ s'.seen.Nodup := by
  intro t
  induction t with
  | nil => intro s s' log h hn; simp only [monitorEnt] at h; cases h; exact ⟨by simp [created], hn⟩
  | cons x t ih =>
    intro s s' log h hn
    obtain ⟨op, r⟩ := x
    simp only [monitorEnt] at h
    split at h
    · cases h
    · generalize hev : entEvents log op r = ev at h
      obtain ⟨evs, log'⟩ := ev
      simp only at h
      cases hrun : s.run evs with
      | error w => simp [hrun] at h
      | ok s1 =>
        simp only [hrun] at h
        obtain ⟨h1, h2⟩ := EntSpec.run_seen evs s s1 hrun hn
        obtain ⟨h3, h4⟩ := ih s1 s' log' h h2
        refine ⟨?_, h4⟩
        rw [h3, h1]
        have hc : EntSpec.createdBy evs = createdOf op r := by
          have := createdBy_entEvents log op r
          rw [hev] at this; exact this
        simp [created, hc, createdOf]

/-- **C01, first sentence.** Every handle returned by any creation path differs from every
    handle returned earlier in the same world. -/
theorem handles_unique (ops : List EOp) : (created (EWorld.run ops).2).Nodup := by
  obtain ⟨s, hm, _⟩ := monitor_accepts ops
  have := accepted_seen _ _ _ _ hm (by simp [EntSpec.init])
  have hnd := this.2
  rw [this.1] at hnd
  simp only [EntSpec.init, List.append_nil] at hnd
  exact ((List.reverse_perm _).nodup_iff).mp hnd

/-- **C01, second sentence.** At no moment do two entities that are not yet dead share an
    index: two logged handles that are both reported alive and have the same index are equal. -/
theorem no_shared_index (ops : List EOp) (e₁ e₂ : Entity)
    (h₁ : e₁ ∈ (EWorld.run ops).1.log.toList) (h₂ : e₂ ∈ (EWorld.run ops).1.log.toList)
    (a₁ : (EWorld.run ops).1.alloc.isAlive e₁ = true)
    (a₂ : (EWorld.run ops).1.alloc.isAlive e₂ = true) (hid : e₁.id = e₂.id) : e₁ = e₂ := by
  obtain ⟨s, _, hW⟩ := monitor_accepts ops
  exact hW.r.live_inj e₁ e₂ ((hW.r.liveIff e₁).mpr ⟨hW.logSeen e₁ h₁, a₁⟩)
    ((hW.r.liveIff e₂).mpr ⟨hW.logSeen e₂ h₂, a₂⟩) hid

/-- No operation of the model panics (asserts, unwraps and slice indexing in entity.rs are
    unreachable from the public API with handles that were returned earlier). -/
theorem no_panic (ops : List EOp) : ∀ x, x ∈ (EWorld.run ops).2 → resShapeOk x.1 x.2 = true := by
  suffices h : ∀ (ops : List EOp) (w : EWorld) (s : EntSpec), WR w s →
      ∀ x, x ∈ (w.runFrom ops).2 → resShapeOk x.1 x.2 = true from h ops {} EntSpec.init WR_init
  intro ops
  induction ops with
  | nil => intro w s _ x hx; simp [EWorld.runFrom] at hx
  | cons op ops ih =>
    intro w s h x hx
    obtain ⟨hshape, s1, _, _, hW⟩ := step_accept h op
    simp only [EWorld.runFrom, List.mem_cons] at hx
    rcases hx with rfl | hx
    · exact hshape
    · exact ih (w.step op).1 s1 hW x hx

/-- Non-vacuity: a history in which an index is reused while an old handle is still around. -/
example : (EWorld.run [.createNow false, .delNow 0, .createAtomic false, .merge, .alive 0, .alive 1]).2.map (·.2)
    = [.ent ⟨0, 1⟩, .kill .ok, .ent ⟨0, 2⟩, .unit, .bool false, .bool true] := by decide +kernel


/-- **C01 for the full world model**: in every world reachable by any history that also registers
    storages, inserts / removes components, runs lazy actions with nested scripts and restricted joins,
    two logged handles that are both reported alive and share an index are equal. -/
theorem world_no_shared_index (fuel : Nat) (ops : List WOp) (e₁ e₂ : Entity)
    (h₁ : e₁ ∈ (WorldEnt.after fuel ops).ent.log.toList) (h₂ : e₂ ∈ (WorldEnt.after fuel ops).ent.log.toList)
    (a₁ : (WorldEnt.after fuel ops).ent.alloc.isAlive e₁ = true)
    (a₂ : (WorldEnt.after fuel ops).ent.alloc.isAlive e₂ = true) (hid : e₁.id = e₂.id) : e₁ = e₂ :=
  WorldEnt.no_shared_index fuel ops e₁ e₂ h₁ h₂ a₁ a₂ hid

end SpecsModel.C01
