/-
  C03 — A dead or stale handle can never read or change a live entity's components.
  Property theorems only.

  Quantifier: every storage state `m` of every kind (the theorems do not even need reachability),
  every allocator state `a`, every handle `e` that `a` reports dead — whether its index is free,
  reused and merged, or reused and still awaiting maintain — and every handle-taking access path of
  storage/mod.rs, entry.rs, generic.rs, restrict.rs. (The lending-join lookup is in Props/C06.)
  "Unchanged" is literal equality of the whole masked storage (mask, contents, event channel), which
  is stronger than "the occupant's component is neither returned nor modified".
-/
import SpecsModel.Model.World
namespace SpecsModel.C03
open SpecsModel

variable (m : Masked) (a : Alloc) (e : Entity)

/-- `Storage::get`. -/
theorem get_dead (h : a.isAlive e = false) : m.get a e = .ok none := by
  simp [Masked.get, h]

/-- `Storage::contains`. -/
theorem contains_dead (h : a.isAlive e = false) : m.contains a e = false := by
  simp [Masked.contains, h]

/-- `Storage::get_mut`: nothing returned, storage untouched (no event either). -/
theorem getMut_dead (h : a.isAlive e = false) (derefs : Nat) (w : Option Int) :
    ∃ r, m.getMut a e derefs w = .ok r ∧ r.st = m ∧ r.val = none ∧ r.destroyed = [] := by
  simp [Masked.getMut, h]

/-- `Storage::insert`: refused with `WrongGeneration`, storage untouched, the rejected value is
    simply dropped. -/
theorem insert_dead (h : a.isAlive e = false) (v : Int) :
    ∃ r, m.insert a e v = .ok r ∧ r.st = m ∧ r.val = .wrongGen ∧ r.destroyed = [v] := by
  simp [Masked.insert, h]

/-- `Storage::remove`: returns nothing, removes nothing. -/
theorem remove_dead (h : a.isAlive e = false) :
    ∃ r, m.remove a e = .ok r ∧ r.st = m ∧ r.val = none ∧ r.destroyed = [] := by
  simp [Masked.remove, h]

/-- `Storage::entry` (any subsequent entry operation): refused, storage untouched. -/
theorem entry_dead (h : a.isAlive e = false) (op : Masked.EntryOp) :
    ∃ r, m.entry a e op = .ok r ∧ r.st = m ∧ r.val = .wrongGen ∧ r.destroyed = [] := by
  simp [Masked.entry, h]

/-- `GenericWriteStorage::get_mut_or_default`: returns `None`; the default it built is dropped;
    storage untouched. -/
theorem getMutOrDefault_dead (h : a.isAlive e = false) (derefs : Nat) (w : Option Int) :
    ∃ r, m.getMutOrDefault a e derefs w = .ok r ∧ r.st = m ∧ r.val = none ∧ r.destroyed = [0] := by
  simp [Masked.getMutOrDefault, Masked.contains, Masked.insert, Masked.lift, h]

/-- `PairedStorage*::get_other` / `get_other_mut` through a restricted storage. -/
theorem getOther_dead (h : a.isAlive e = false) : m.getOther a e = .ok none := by
  simp [Masked.getOther, Masked.get, h]

/-- World level: whatever the world (any registered kind `k`, any history behind it), a
    handle-taking storage operation through a logged handle that is dead returns the "absent"
    result and leaves every storage, the allocator, the queue and the event channels unchanged. -/
theorem world_dead_handle_inert (fuel : Nat) (w : World) (k h : Nat) (m : Masked) (e : Entity)
    (hm : w.store? k = some m) (hr : resolve w.ent.log h = some e)
    (hd : w.ent.alloc.isAlive e = false) :
    World.step fuel w (.get k h) = (w, .opt none) ∧
    World.step fuel w (.has k h) = (w, .bool false) ∧
    (∀ d wr, (World.step fuel w (.getMut k h d wr)).2 = .opt none ∧
      ∀ k', (World.step fuel w (.getMut k h d wr)).1.store? k' = w.store? k') ∧
    (∀ v, (World.step fuel w (.ins k h v)).2 = .ins .wrongGen ∧
      ∀ k', (World.step fuel w (.ins k h v)).1.store? k' = w.store? k') ∧
    ((World.step fuel w (.rem k h)).2 = .opt none ∧
      ∀ k', (World.step fuel w (.rem k h)).1.store? k' = w.store? k') ∧
    (∀ op, (World.step fuel w (.entry k h op)).2 = .entry .wrongGen ∧
      ∀ k', (World.step fuel w (.entry k h op)).1.store? k' = w.store? k') := by
  have hset : ∀ k', (w.setStore k m).store? k' = w.store? k' := by
    intro k'
    simp only [World.store?, World.setStore] at hm ⊢
    by_cases hk : k' = k
    · subst hk
      cases hx : w.stores[k']? with
      | none => simp [hx] at hm
      | some x =>
        have hlt : k' < w.stores.size := by
          by_cases hlt : k' < w.stores.size
          · exact hlt
          · simp [Array.getElem?_eq_none (Nat.le_of_not_lt hlt)] at hx
        simp [hx] at hm
        simp [Array.getElem?_setIfInBounds, hlt, hx, hm]
    · simp [Array.getElem?_setIfInBounds, Ne.symm hk]
  have hdes : ∀ (d : List Int) k', ((w.setStore k m).destroy d).store? k' = w.store? k' := by
    intro d k'; rw [← hset k']; rfl
  refine ⟨?_, ?_, ?_, ?_, ?_, ?_⟩
  · simp only [World.step, hm, hr, get_dead m _ e hd]
  · simp only [World.step, hm, hr, contains_dead m _ e hd]
  · intro d wr
    obtain ⟨r, h1, h2, h3, h4⟩ := getMut_dead m w.ent.alloc e hd d wr
    simp only [World.step, hm, hr, World.applyS, h1, h2, h3, h4]
    exact ⟨trivial, hdes []⟩
  · intro v
    obtain ⟨r, h1, h2, h3, h4⟩ := insert_dead m w.ent.alloc e hd v
    simp only [World.step, hm, hr, World.applyS, h1, h2, h3, h4]
    exact ⟨trivial, hdes [v]⟩
  · obtain ⟨r, h1, h2, h3, h4⟩ := remove_dead m w.ent.alloc e hd
    simp only [World.step, hm, hr, World.applyS, h1, h2, h3, h4]
    exact ⟨trivial, hdes []⟩
  · intro op
    obtain ⟨r, h1, h2, h3, h4⟩ := entry_dead m w.ent.alloc e hd op
    simp only [World.step, hm, hr, World.applyS, h1, h2, h3, h4]
    exact ⟨trivial, hdes []⟩

/-- Non-vacuity: create, insert, delete now, create atomically (index reused, un-merged): the old
    handle is stale, the new one has a component, and the stale handle neither reads nor replaces it. -/
example :
    let ops : List WOp := [.reg 1 0, .createWith false false [(1, 7)], .ent (.delNow 0),
      .createWith true false [(1, 8)], .get 1 0, .ins 1 0 9, .get 1 1, .ent .merge, .get 1 0, .get 1 1]
    (ops.foldl (fun (st : World × List WRes) op =>
      let (w', r) := World.step 100 st.1 op; (w', st.2 ++ [r])) ({}, [])).2
    = [.unit, .e (.ent ⟨0, 1⟩), .e (.kill .ok), .e (.ent ⟨0, 2⟩), .opt none, .ins .wrongGen,
       .opt (some 8), .acts [], .opt none, .opt (some 8)] := by decide +kernel

end SpecsModel.C03
