/-
  C17 — Indices of dead entities are recycled, keeping the index space bounded.
  Property theorems only. The model is of the *repaired* `Allocator::kill` (fix: commit for
  finding F1); the unrepaired function is refuted in SpecsModel/Findings/F1.lean.
-/
import SpecsModel.Lemmas.EWorldAccept
import SpecsModel.Lemmas.EntSpecFacts
import SpecsModel.Props.WorldEnt
namespace SpecsModel.C17
open SpecsModel Alloc

/-- Every transcript of the model — any history of creations and deletions through all paths,
    failing and repeating batches included, of any length — is accepted by the monitor, whose
    creation step demands `index < peak`. -/
theorem monitor_accepts (ops : List EOp) :
    ∃ s, monitorEnt EntSpec.init #[] (EWorld.run ops).2 = .ok s ∧ WR (EWorld.run ops).1 s :=
  runFrom_accept ops {} EntSpec.init WR_init

/-- What acceptance of a creation means: the new index is below the peak, where the peak already
    counts the entity being created. -/
theorem created_below_peak (s s' : EntSpec) (e : Entity) (h : s.step (.created e) = .ok s') :
    e.id < s'.peak ∧ s'.peak = max s.peak (s.live.length + 1) := by
  rcases EntSpec.step_facts h with ⟨e', he, _, _, _, hp, hlt, _⟩ | ⟨hn, _⟩
  · cases he; exact ⟨hlt, hp⟩
  · exact absurd rfl (hn e)

/-- The monitor's `peak` is exactly the largest number of simultaneously not-dead handles over
    the history so far (running maximum of `live.length`). -/
theorem peak_is_running_max (evs : List EntEv) (s' : EntSpec)
    (h : EntSpec.init.run evs = .ok s') : s'.peak = EntSpec.peakAlong EntSpec.init 0 evs :=
  (EntSpec.run_peak evs EntSpec.init s' h (by simp [EntSpec.init])).1

/-- **Equivalent formulation.** In every reachable state of the model, a never-used index is
    taken only when every lower index is occupied: the allocator invariant `noLeak` says every
    index below `max_id` is alive, awaiting merge, or in the free list, and `allocate` /
    `allocate_atomic` take a fresh index only when the free list is empty. -/
theorem no_index_leaked (ops : List EOp) (i : Nat) (hi : i < (EWorld.run ops).1.alloc.maxId) :
    (EWorld.run ops).1.alloc.occ i = true ∨ i ∈ (EWorld.run ops).1.alloc.free := by
  obtain ⟨s, _, hW⟩ := monitor_accepts ops
  have := hW.r.inv.noLeak i hi
  simp only [List.append_nil] at this
  simp only [occ, Bool.or_eq_true, decide_eq_true_eq]
  rcases this with h | h | h
  · exact Or.inl (Or.inl h)
  · exact Or.inl (Or.inr h)
  · exact Or.inr h

/-- Non-vacuity / regression for F1: after a batch deletion that fails part-way the killed
    prefix's index is reused. -/
example : (EWorld.run [.createNow false, .createNow false, .delBatch [0, 0], .createNow false]).2.map (·.2)
    = [.ent ⟨0, 1⟩, .ent ⟨1, 1⟩, .kill (.err 1), .ent ⟨0, 2⟩] := by decide +kernel


/-- **C17 for the full world model**: no index below `max_id` is ever leaked, and `max_id` never
    exceeds the peak number of simultaneously not-dead entities, in every reachable world. -/
theorem world_no_index_leaked (fuel : Nat) (ops : List WOp) :
    (∀ i, i < (WorldEnt.after fuel ops).ent.alloc.maxId →
      (WorldEnt.after fuel ops).ent.alloc.occ i = true ∨ i ∈ (WorldEnt.after fuel ops).ent.alloc.free) ∧
    ∃ s : EntSpec, (WorldEnt.after fuel ops).ent.alloc.maxId ≤ s.peak ∧ s.live.length ≤ s.peak :=
  WorldEnt.no_index_leaked fuel ops

end SpecsModel.C17
