/-
  C17 — Indices of dead entities are recycled, keeping the index space bounded.
  Property theorems only. The model is of the *repaired* `Allocator::kill` (fix: commit for
  finding F1); the unrepaired function is refuted in SpecsModel/Findings/F1.lean.
-/
import SpecsModel.Lemmas.EWorldAccept
import SpecsModel.Lemmas.EntSpecFacts
import SpecsModel.Props.WorldEnt
import SpecsModel.Conc.LemmasStep
import SpecsModel.Conc.LemmasRecycle
namespace SpecsModel.C17
open SpecsModel Alloc

/-- Every transcript of the model — any history of creations and deletions through all paths,
    failing and repeating batches included, of any length — is accepted by the monitor, whose
    creation step demands `index < peak`. -/
theorem monitor_accepts (ops : List EOp) :
    ∃ s, monitorEnt EntSpec.init #[] (EWorld.run ops).2 = .ok s ∧ WR (EWorld.run ops).1 s :=
  runFrom_accept ops {} EntSpec.init WR_init

/-- What acceptance of a creation means: the new index is below the peak, where the peak already
    counts the entity being created. -/
theorem created_below_peak (s s' : EntSpec) (e : Entity) (h : s.step (.created e) = .ok s') :
    e.id < s'.peak ∧ s'.peak = max s.peak (s.live.length + 1) := by
  rcases EntSpec.step_facts h with ⟨e', he, _, _, _, hp, hlt, _⟩ | ⟨hn, _⟩
  · cases he; exact ⟨hlt, hp⟩
  · exact absurd rfl (hn e)

/-- The monitor's `peak` is exactly the largest number of simultaneously not-dead handles over
    the history so far (running maximum of `live.length`). -/
theorem peak_is_running_max (evs : List EntEv) (s' : EntSpec)
    (h : EntSpec.init.run evs = .ok s') : s'.peak = EntSpec.peakAlong EntSpec.init 0 evs :=
  (EntSpec.run_peak evs EntSpec.init s' h (by simp [EntSpec.init])).1

/-- **Equivalent formulation.** In every reachable state of the model, a never-used index is
    taken only when every lower index is occupied: the allocator invariant `noLeak` says every
    index below `max_id` is alive, awaiting merge, or in the free list, and `allocate` /
    `allocate_atomic` take a fresh index only when the free list is empty. -/
theorem no_index_leaked (ops : List EOp) (i : Nat) (hi : i < (EWorld.run ops).1.alloc.maxId) :
    (EWorld.run ops).1.alloc.occ i = true ∨ i ∈ (EWorld.run ops).1.alloc.free := by
  obtain ⟨s, _, hW⟩ := monitor_accepts ops
  have := hW.r.inv.noLeak i hi
  simp only [List.append_nil] at this
  simp only [occ, Bool.or_eq_true, decide_eq_true_eq]
  rcases this with h | h | h
  · exact Or.inl (Or.inl h)
  · exact Or.inl (Or.inr h)
  · exact Or.inr h

/-- Non-vacuity / regression for F1: after a batch deletion that fails part-way the killed
    prefix's index is reused. -/
example : (EWorld.run [.createNow false, .createNow false, .delBatch [0, 0], .createNow false]).2.map (·.2)
    = [.ent ⟨0, 1⟩, .ent ⟨1, 1⟩, .kill (.err 1), .ent ⟨0, 2⟩] := by decide +kernel


/-- **C17 for the full world model**: no index below `max_id` is ever leaked, and `max_id` never
    exceeds the peak number of simultaneously not-dead entities, in every reachable world. -/
theorem world_no_index_leaked (fuel : Nat) (ops : List WOp) :
    (∀ i, i < (WorldEnt.after fuel ops).ent.alloc.maxId →
      (WorldEnt.after fuel ops).ent.alloc.occ i = true ∨ i ∈ (WorldEnt.after fuel ops).ent.alloc.free) ∧
    ∃ s : EntSpec, (WorldEnt.after fuel ops).ent.alloc.maxId ≤ s.peak ∧ s.live.length ≤ s.peak :=
  WorldEnt.no_index_leaked fuel ops

/-! ### Creations racing through shared access (`Entities::create`, `create_iter`, … from several threads)

The small-step model of the shared-access phase (`SpecsModel.Conc`, tied to the code by the scheduled runs of
`h_conc` at the H1 yield points; `bin/check C17` runs them through the monitor `MON C17` of the driver). -/

open Conc in
/-- **C17 under concurrency.** For every number of threads, every program and every schedule (spurious CAS failures
    included): as soon as a never-used index has been handed out during the phase — the fresh-index counter has moved —
    the free list is exhausted, and every index that was free when the phase started has been handed out to a creation
    of this phase. Nothing dies inside the phase, so at that moment (and until the next `maintain`) every index below
    the counter is occupied by an entity that is alive or awaiting maintain: the recycling rule holds at every point of
    every interleaving. -/
theorem concurrent_fresh_index_only_when_free_list_exhausted
    {a0 : Alloc} {q0 : List Nat} {L : List Entity} {progs : List (List Call)}
    (h0 : Start a0 L) (s : List (Nat × Bool))
    (hfresh : a0.maxId < ((Conf.start a0 q0 L progs).runW s).alloc.maxId) :
    ((Conf.start a0 q0 L progs).runW s).alloc.cacheLen = 0 ∧
    ∀ j, j ∈ a0.free → j ∈ ((Conf.start a0 q0 L progs).runW s).issued.map (·.2) := by
  have hE : EInv a0.maxId ((Conf.start a0 q0 L progs).runW s) := einv_runW s _ (einv_start a0 q0 L progs)
  have hP : PInv a0 q0 L progs ((Conf.start a0 q0 L progs).runW s) := inv_runW h0 s _ inv_start
  have hz := hE.ctr hfresh
  refine ⟨hz, ?_⟩
  intro j hj
  refine (hP.issuedMem j).mpr (Or.inl ?_)
  rw [hz]; simpa using hj

open Conc in
/-- The same, read per thread: a thread that has got past `atomic_decrement` without an index (it read the length 0)
    can only be followed by an empty free list — `cache.len` never grows inside the phase. -/
theorem concurrent_free_list_stays_empty
    {a0 : Alloc} {q0 : List Nat} {L : List Entity} {progs : List (List Call)} (s : List (Nat × Bool))
    (t : Nat) (th : Thread) (hget : ((Conf.start a0 q0 L progs).runW s).threads[t]? = some th)
    (hp : pastEmpty th.pc) : ((Conf.start a0 q0 L progs).runW s).alloc.cacheLen = 0 :=
  (einv_runW s _ (einv_start a0 q0 L progs)).thr t th hget hp

/-- Start of the non-vacuity example: one free index (`free = [0]`, `max_id = 1`), two threads creating. -/
def demoConc : Conc.Conf :=
  (Conc.Conf.start (EWorld.run [.createNow false, .delNow 0]).1.alloc [] [] [[.create], [.create]]).runW
    [(0, false), (1, false), (0, false), (1, false), (1, false), (1, false), (0, false), (1, false), (0, false),
     (1, false), (0, false), (1, false)]

/-- Non-vacuity: both threads read `len = 1`; thread 0 wins the CAS, thread 1 retries, reads 0 and takes the
    never-used index 1 — the counter has moved, the free list is empty, index 0 has been handed out. -/
example :
    (EWorld.run [.createNow false, .delNow 0]).1.alloc.free = [0] ∧
    (EWorld.run [.createNow false, .delNow 0]).1.alloc.maxId = 1 ∧
    demoConc.alloc.maxId = 2 ∧ demoConc.alloc.cacheLen = 0 ∧ demoConc.issued = [(0, 0), (1, 1)] ∧
    demoConc.quiescent = true := by decide +kernel

end SpecsModel.C17
