/-
  Lifting of the entity theorems (C01, C02, C17) from the entity world `EWorld` to the full world
  model `World` — histories that also register storages, insert / remove components, queue and run
  lazy actions with nested scripts, run restricted joins, … Imported by Props/C01, C02, C17.
-/
import SpecsModel.Lemmas.WorldInvStep
namespace SpecsModel.WorldEnt
open SpecsModel Alloc World

/-- The world after running `ops` from the empty world. -/
def after (fuel : Nat) (ops : List WOp) : World := ops.foldl (fun w op => (step fuel w op).1) {}

/-- In every reachable world the allocator is coupled to an abstract entity timeline. -/
theorem coupled (fuel : Nat) (ops : List WOp) : ∃ s, WR (after fuel ops).ent s :=
  (inv_run (X := fun _ => False) fuel ops {} inv_init).ent

/-- C01 at world level: two logged handles that are both reported alive and share an index are equal. -/
theorem no_shared_index (fuel : Nat) (ops : List WOp) (e₁ e₂ : Entity)
    (h₁ : e₁ ∈ (after fuel ops).ent.log.toList) (h₂ : e₂ ∈ (after fuel ops).ent.log.toList)
    (a₁ : (after fuel ops).ent.alloc.isAlive e₁ = true) (a₂ : (after fuel ops).ent.alloc.isAlive e₂ = true)
    (hid : e₁.id = e₂.id) : e₁ = e₂ := by
  obtain ⟨s, hW⟩ := coupled fuel ops
  exact hW.r.live_inj e₁ e₂ ((hW.r.liveIff e₁).mpr ⟨hW.logSeen e₁ h₁, a₁⟩)
    ((hW.r.liveIff e₂).mpr ⟨hW.logSeen e₂ h₂, a₂⟩) hid

/-- C02 at world level: `is_alive` of a logged handle coincides with membership in the timeline's
    live set, whose size is bounded by the peak. -/
theorem alive_iff_live (fuel : Nat) (ops : List WOp) :
    ∃ s : EntSpec, ∀ e, e ∈ (after fuel ops).ent.log.toList →
      ((after fuel ops).ent.alloc.isAlive e = true ↔ e ∈ s.live) := by
  obtain ⟨s, hW⟩ := coupled fuel ops
  exact ⟨s, fun e he => ⟨fun h => (hW.r.liveIff e).mpr ⟨hW.logSeen e he, h⟩, fun h => ((hW.r.liveIff e).mp h).2⟩⟩

/-- C17 at world level: every index below `max_id` is occupied or in the free list (no index is ever
    leaked), and `max_id` never exceeds the peak number of simultaneously not-dead entities. -/
theorem no_index_leaked (fuel : Nat) (ops : List WOp) :
    (∀ i, i < (after fuel ops).ent.alloc.maxId →
      (after fuel ops).ent.alloc.occ i = true ∨ i ∈ (after fuel ops).ent.alloc.free) ∧
    ∃ s : EntSpec, (after fuel ops).ent.alloc.maxId ≤ s.peak ∧ s.live.length ≤ s.peak := by
  obtain ⟨s, hW⟩ := coupled fuel ops
  refine ⟨?_, s, hW.r.peakMax, by simpa using hW.r.peakLen⟩
  intro i hi
  have := hW.r.inv.noLeak i hi
  simp only [List.append_nil] at this
  simp only [occ, Bool.or_eq_true, decide_eq_true_eq]
  rcases this with h | h | h
  · exact Or.inl (Or.inl h)
  · exact Or.inl (Or.inr h)
  · exact Or.inr h

end SpecsModel.WorldEnt
